(* TimestampsDirect naming, direct mode (no user-space buffer), a process that is killed at an arbitrary effect: no
   acknowledged record is lost, nothing else is in the files, and what is left is a directory that a stopped writer could have
   left behind (tsd_view with keys_ok keys) - so that a new writer starts cleanly on it (TsdKillRestart.v).

   As for NumbersDirect naming (NumDKill.v) a rotation of TimestampsDirect naming is ONE effect: the creation of the file for
   the present second (made collision-free by two directory listings, which are no effects); nothing is renamed.  The kill
   counter, `acked`, `with_w`, the dead process: NumKill.v / KillFacts.v; the clock after the death: KillEnv.v. *)
Require Import FL.Base.Bytes FL.Base.BytesFacts FL.Base.PathName FL.Fs.Fs FL.Fs.FsFacts FL.Time.Civil FL.Time.TsFormat
  FL.Names.FileSpec FL.Names.NamesFacts FL.Names.SortFacts FL.Names.FamilyFacts FL.Flw.Model FL.Flw.ModelFacts FL.Flw.NumFs FL.Flw.NumInv
  FL.Flw.Run FL.Flw.RunFacts FL.Flw.NumRun FL.Flw.NumListing FL.Oracles.O_Flw FL.Flw.NumTheorems FL.Flw.NumRestart
  FL.Flw.KillFacts FL.Flw.NumKill FL.Flw.NumKillRestart FL.Flw.NumDInv FL.Flw.NumDTheorems
  FL.Flw.TsCal FL.Flw.TsTime FL.Flw.TsNames FL.Flw.TsInv FL.Flw.TsRun FL.Flw.TsTheorems FL.Flw.TsRestartInv FL.Flw.TsRestart
  FL.Flw.TsdInv FL.Flw.TsdRun FL.Flw.TsdTheorems FL.Flw.TsdRestartInv FL.Flw.TsdRestart FL.Flw.KillEnv FL.Flw.NumAge FL.Flw.TsdAge.
From Coq Require Import ZifyN ZifyNat ZifyBool.
Import String.StringSyntax.
Open Scope nat_scope.

(* ------------------------------------------------------------------ the directory under a change of the environment *)
(* the invariant looks at the file system, the zone and - for the range of the keys - at the clock, which may have advanced *)
Lemma tsdinv_later c e lo q q' wr keys closed : TsdInv c e lo q wr keys closed ->
  wfs q' = wfs q -> quiet q' -> (wnow q <= wnow q')%Z -> eoff c q' = e -> TsdInv c e lo q' wr keys closed.
Proof.
  intros [Q W Hnd Hoff Hlen Hc Hcp Hcl Hon Hko Hrg Hwr Hca] F Q' N' E'. constructor; try rewrite F; try assumption.
  intros k Ik. specialize (Hrg k Ik). lia.
Qed.

Lemma dir_tsd_later c e lo q q' d : dir_tsd c e lo q d ->
  wfs q' = wfs q -> quiet q' -> (wnow q <= wnow q')%Z -> eoff c q' = e -> dir_tsd c e lo q' d.
Proof.
  intros D F Q' N' E'. destruct d as [[[keys closed] cur]|]; cbn [dir_tsd] in *.
  - destruct D as [wr [I [Hp V]]]. exists wr. split; [exact (tsdinv_later c e lo q q' wr keys closed I F Q' N' E')|].
    split; [exact Hp|]. unfold cur_view in *. rewrite F. exact V.
  - destruct D as [A [B C]]. rewrite F. repeat split; try assumption. lia.
Qed.

(* the dead process: its world w (zone off, clock t) holds the directory d; n bounds the number of closed files *)
Definition DeadTd (c : config) (e off lo : Z) (n : nat) (t : Z) (w : world) (d : dview) : Prop :=
  dead w /\ woff w = off /\ wnow w = t /\ eoff c w = e /\ dir_tsd c e lo (calm w) d /\ length (closedD d) <= n.

Lemma dead_of_quiet c e lo qd d n : quiet qd -> eoff c qd = e -> dir_tsd c e lo qd d -> length (closedD d) <= n ->
  DeadTd c e (woff qd) lo n (wnow qd) (kw qd 0) d.
Proof.
  intros Q Ho D Hn. split; [apply dead_kw; exact Q|]. split; [reflexivity|]. split; [reflexivity|]. split; [exact Ho|].
  split; [|exact Hn]. apply (dir_tsd_later c e lo qd); [exact D | reflexivity | apply quiet_calm; apply Q | apply Z.le_refl | exact Ho].
Qed.

Lemma deadtd_after c e off lo n t w w' d dt : DeadTd c e off lo n t w d -> after_dead w w' dt -> (0 <= dt)%Z ->
  DeadTd c e off lo n (t + dt) w' d.
Proof.
  intros [Dw [Ho [Hn [He [D L]]]]] [Dw' [F [N O]]] Hdt.
  split; [exact Dw'|]. split; [congruence|]. split; [lia|].
  assert (He' : eoff c w' = e) by (unfold eoff in *; rewrite O; exact He).
  split; [exact He'|]. split; [|exact L].
  apply (dir_tsd_later c e lo (calm w)); [exact D | cbn [calm set_acts set_kill wfs]; exact F | apply quiet_calm; apply Dw'
    | cbn [calm set_acts set_kill wnow]; lia | exact He'].
Qed.

Lemma deadtd_mono c e off lo n m t w d : n <= m -> DeadTd c e off lo n t w d -> DeadTd c e off lo m t w d.
Proof. intros H [A [B [C [D [E F]]]]]. repeat split; try assumption; try apply A. lia. Qed.

(* the world of x is a quiet world q (zone off, clock t) with the counter at S m (alive, m effects left) *)
Definition KRelTd (c : config) (crit : criterion) (e off lo : Z) (n : nat) (t : Z) (x : sys) (a : aview) : Prop :=
  exists q m, s_w x = kw q (S m) /\ woff q = off /\ wnow q = t /\ RelTd c crit e lo n (with_w x q) a.

(* the directory d is the abstract view a, possibly with one more, EMPTY, newest file *)
Definition near (d : dview) (a : aview) : Prop := filesD d = files_of a \/ filesD d = files_of a ++ [[]].

Lemma s_run_app m : forall l1 l2 a, s_run m a (l1 ++ l2) = s_run m (s_run m a l1) l2.
Proof. induction l1 as [|o r IH]; intros l2 a; [reflexivity|]. cbn [app s_run]. apply IH. Qed.

Section DirectTd.
Variables (c : config) (crit : criterion) (e off lo hi : Z).
Hypothesis Hcfg : tsdcfg c crit.
Hypothesis Hcap : c_cap c = None.
Hypothesis Htag : tag_ok c.
Hypothesis Hyears : years_ok e lo hi.

Lemma direct_wr_td q wr keys closed : TsdInv c e lo q wr keys closed -> wpend wr = [] /\ wcap wr = None.
Proof.
  intros I. pose proof (td_wr _ _ _ _ _ _ _ I) as Hw. pose proof (td_cap _ _ _ _ _ _ _ I) as Hc. rewrite Hcap in Hc.
  unfold wr_ok in Hw. rewrite Hc in Hw. split; assumption.
Qed.

Lemma tsdinv_dird q wr keys closed : TsdInv c e lo q wr keys closed -> dir_tsd c e lo q (Some (keys, closed, cur_view q wr)).
Proof. intros I. exists wr. split; [exact I|]. split; [apply (direct_wr_td q wr keys closed I) | reflexivity]. Qed.

(* ---- one rotation with a budget: one effect, the creation of the file of the present second ---- *)
Lemma mount_next_ktd q wr keys closed ts roll force n :
  TsdInv c e lo q wr keys closed -> (wnow q <= hi)%Z -> (N.of_nat (length keys) <= usize_max)%N ->
  force || rotation_necessary q roll = true ->
  let k0 := nth (length closed) keys kd in
  let knew := (wnow q, count (wnow q) keys) in
  match n with
  | 0 => exists r st',
      mount_next c (kw q 1) (Active (Some (mk_rs (NSTs ts None std_fmt) roll)) wr (kname c e k0)) force = (r, kw q 0, st')
  | S n' => exists q' wr' roll',
      mount_next c (kw q (S (S n'))) (Active (Some (mk_rs (NSTs ts None std_fmt) roll)) wr (kname c e k0)) force
      = (Ok tt, kw q' (S n'), Active (Some (mk_rs (NSTs (wnow q) None std_fmt) roll')) wr' (kname c e knew))
      /\ TsdInv c e lo q' wr' (keys ++ [knew]) (closed ++ [cur_view q wr]) /\ cur_view q' wr' = [] /\ roll_size_ok roll' 0
      /\ same_env q q' /\ (forall m cur, roll = RSize m cur -> exists cur', roll' = RSize m cur')
  end.
Proof.
  intros I Hhi Hmax Hnec k0 knew. pose proof Hcfg as [Hrot [Hts [Hlink _]]].
  pose proof I as [Q W Hnd Hoff Hlen Hc Hcp Hcl Hon Hko Hrg Hwr Hca].
  destruct (direct_wr_td q wr keys closed I) as [Hp Hc0].
  pose proof (tsdinv_now _ _ _ _ _ _ _ I) as Hlo.
  assert (Yk : forall k, In k keys -> in_years e (fst k)).
  { intros k Ik. apply (years_in e lo hi); [exact Hyears|]. specialize (Hrg k Ik). lia. }
  assert (Ynow : in_years e (wnow q)) by (apply (years_in e lo hi); [exact Hyears | lia]).
  destruct (rotate_tsdinv c e lo hi q wr keys closed I Hyears Hhi) as [Ht RI]. fold knew in Ht, RI.
  assert (Hfree : match file_of (wfs q) (kname c e knew) with Some fl => fdir fl | None => false end = false).
  { unfold file_of. rewrite Ht. reflexivity. }
  assert (CF : forall k, collision_free c (kw q k) (infix_from_ts c (kw q k) std_fmt (wnow q)) = (Ok (infix_of e knew), kw q k)).
  { intros k. unfold collision_free. rewrite tick_kw by exact Q. cbv beta iota. rewrite tick_kw by exact Q. cbv beta iota.
    rewrite (fixed_of_fixed0 c (kw q k) Hts), infix_from_ts_tsx.
    change (eoff c (kw q k)) with (eoff c q). rewrite Hoff. change (woff (kw q k)) with (woff q). change (wfs (kw q k)) with (wfs q).
    rewrite (collision_free_infix_ts c e (woff q) (wfs q) keys (wnow q) (count (wnow q) keys) Htag Ynow Yk (tsdinv_dir _ _ _ _ _ _ _ I)
               (keys_count keys Hko (wnow q))) by (pose proof (count_le_length (wnow q) keys); lia).
    reflexivity. }
  destruct n as [|n'].
  - (* killed at the creation of the next file *)
    unfold mount_next. cbn [mk_rs rs_roll rs_naming rs_cleanup rs_bg]. rewrite rot_nec_kw, Hnec.
    change (wnow (kw q 1)) with (wnow q). rewrite CF.
    unfold open_log_file. rewrite (name_of_fixed c (kw q 1)) by assumption.
    change (as_name (c_spec c) (fixed0 c) (Some (infix_of e knew))) with (kname c e knew).
    unfold do_symlink. rewrite Hlink. rewrite p_open_kw by exact Q. rewrite Hfree. cbn [eff].
    pose proof (dead_kw q Q) as Hd.
    destruct (w_flush_dead (kw q 0) wr Hd) as [wra Ef]. rewrite Ef. cbv beta iota zeta. rewrite w_drop_dead by assumption.
    unfold cleanup_or_queue. cbn [mk_rs rs_roll rs_naming rs_cleanup rs_bg cleanup_impl]. eauto.
  - (* the rotation is completed *)
    unfold mount_next. cbn [mk_rs rs_roll rs_naming rs_cleanup rs_bg]. rewrite rot_nec_kw, Hnec.
    change (wnow (kw q (S (S n')))) with (wnow q). rewrite CF.
    unfold open_log_file. rewrite (name_of_fixed c (kw q (S (S n')))) by assumption.
    change (as_name (c_spec c) (fixed0 c) (Some (infix_of e knew))) with (kname c e knew).
    unfold do_symlink. rewrite Hlink. rewrite p_open_kw by exact Q. rewrite Hfree. cbn [eff].
    assert (Eopen : (if c_append c then open_append (wfs q) (kname c e knew) (wnow q)
                     else open_trunc (wfs q) (kname c e knew) 0%N (wnow q))
                    = create_file (wfs q) (kname c e knew) 0%N (wnow q)).
    { destruct (c_append c); [apply open_append_fresh | apply open_trunc_fresh]; exact Ht. }
    rewrite !Eopen. cbv beta iota zeta.
    rewrite w_flush_nop by exact Hp. cbv beta iota zeta. rewrite w_drop_nop by reflexivity.
    unfold cleanup_or_queue. cbn [mk_rs rs_roll rs_naming rs_cleanup rs_bg cleanup_impl].
    set (q2 := set_fs q (fst (create_file (wfs q) (kname c e knew) 0%N (wnow q)))).
    assert (Q2 : quiet q2) by (apply quiet_set_fs; exact Q).
    assert (F3 : wfs q2 = append_ino (fst (create_file (wfs q) (kname c e knew) 0%N (wnow q))) (wino wr) (wpend wr)).
    { rewrite Hp, append_ino_nil_id. reflexivity. }
    destruct (RI q2 Q2 Hoff eq_refl F3) as [I2 V2].
    eexists q2, _, (reset_size_and_date q2 roll (kname c e knew)).
    split. { rewrite reset_kw. reflexivity. }
    split; [exact I2|]. split; [exact V2|].
    split. { destruct roll; cbn; auto. }
    split; [apply same_env_set_fs; exact Q|].
    intros m cur ->. cbn. eauto.
Qed.

(* ---- one write(2) of the unbuffered writer with a budget ---- *)
Lemma w_write_ktd q wr keys closed b n :
  TsdInv c e lo q wr keys closed ->
  exists w', w_write (kw q (S n)) wr b = (true, w', wr) /\
   ( (exists q' n', w' = kw q' (S n') /\ TsdInv c e lo q' wr keys closed /\ cur_view q' wr = cur_view q wr ++ b /\ same_env q q')
     \/ w' = kw q 0 ).
Proof.
  intros I. destruct (direct_wr_td q wr keys closed I) as [Hp Hc0]. pose proof (td_quiet _ _ _ _ _ _ _ I) as Q.
  unfold w_write. rewrite Hc0. rewrite p_write_kw by exact Q.
  destruct b as [|x b].
  - eexists. split; [reflexivity|]. left. exists q, n. split; [reflexivity|]. split; [exact I|].
    split; [rewrite app_nil_r; reflexivity | apply same_env_refl; exact Q].
  - destruct n as [|n']; cbn [eff].
    + eexists. split; [reflexivity|]. right. reflexivity.
    + eexists. split; [reflexivity|]. left. exists (set_fs q (append_ino (wfs q) (wino wr) (x :: b))), n'.
      split; [reflexivity|].
      destruct (tsdinv_append c e lo q (set_fs q (append_ino (wfs q) (wino wr) (x :: b))) wr wr keys closed (x :: b) I eq_refl
                  (same_env_set_fs q _ Q) eq_refl eq_refl (td_wr _ _ _ _ _ _ _ I)) as [I2 C2].
      split; [exact I2|]. split; [|apply same_env_set_fs; exact Q].
      unfold cur_view. rewrite C2, Hp, !app_nil_r. reflexivity.
Qed.

(* what the process leaves when it dies in a write on an active writer: the directory of the quiet world qd *)
(* (cl, cu): the view before the write; rot: the write rotates.  The directory is the view, or - the kill between the creation
   of the next file and the write into it - the view and the new, empty file *)
Definition died_in (q : world) (w' : world) (cl : list bytes) (cu : bytes) (rot : bool) : Prop :=
  exists qd d, w' = kw qd 0 /\ same_env q qd /\ eoff c qd = e /\ dir_tsd c e lo qd d /\ flatD d = concat cl ++ cu
    /\ length (closedD d) <= S (length cl)
    /\ (filesD d = cl ++ [cu] \/ (rot = true /\ filesD d = (cl ++ [cu]) ++ [[]])).

(* ---- a write on an active writer with a budget: every kill point ---- *)
Lemma write_active_ktd q wr keys closed roll b n :
  TsdInv c e lo q wr keys closed -> (wnow q <= hi)%Z -> (N.of_nat (length keys) <= usize_max)%N ->
  roll_size_ok roll (length (cur_view q wr)) ->
  exists r w' s' rot', write_buffer (st_tsd c e (nth (length closed) keys kd) roll wr) (kw q (S n)) b = (r, w', s', rot') /\
  ( (exists q' n' wr' roll' keys' closed', w' = kw q' (S n') /\ r = Ok tt
       /\ s' = st_tsd c e (nth (length closed') keys' kd) roll' wr'
       /\ rot' = rotation_necessary q roll
       /\ TsdInv c e lo q' wr' keys' closed' /\ roll_size_ok roll' (length (cur_view q' wr')) /\ same_env q q'
       /\ (closed', cur_view q' wr') = (if rotation_necessary q roll then (closed ++ [cur_view q wr], b) else (closed, cur_view q wr ++ b))
       /\ (forall m cur, roll = RSize m cur -> exists cur', roll' = RSize m cur'))
    \/ died_in q w' closed (cur_view q wr) (rotation_necessary q roll) ).
Proof.
  intros I Hhi Hmax Hsz. destruct (direct_wr_td q wr keys closed I) as [Hp Hc0]. pose proof (td_quiet _ _ _ _ _ _ _ I) as Q.
  pose proof (td_len _ _ _ _ _ _ _ I) as Hlen.
  unfold write_buffer, st_tsd. cbn [f_cfg f_inner f_poisoned mk_rs rs_roll]. rewrite rot_nec_kw.
  destruct (rotation_necessary q roll) eqn:Er.
  - (* the write rotates first *)
    pose proof (mount_next_ktd q wr keys closed (fst (nth (length closed) keys kd)) roll false n I Hhi Hmax) as M.
    cbn [orb] in M. specialize (M Er). cbv zeta in M.
    destruct n as [|n'].
    + destruct M as [r1 [st1 E1]]. rewrite E1.
      destruct (wb_tail_dead {| f_cfg := c; f_inner := Active (Some (mk_rs (NSTs (fst (nth (length closed) keys kd)) None std_fmt) roll)) wr
                                                           (kname c e (nth (length closed) keys kd)); f_poisoned := false |}
                  b r1 (kw q 0) st1 true (dead_kw q Q)) as [r [s' ET]].
      exists r, (kw q 0), s', true. split; [exact ET|]. right.
      exists q, (Some (keys, closed, cur_view q wr)). split; [reflexivity|]. split; [apply same_env_refl; exact Q|].
      split; [apply I|]. split; [exact (tsdinv_dird q wr keys closed I)|].
      split; [reflexivity|]. split; [cbn [closedD]; lia | left; reflexivity].
    + destruct M as [q1 [wr1 [roll1 [E1 [I1 [V1 [Z1 [S1 R1]]]]]]]]. rewrite E1. cbv beta iota zeta.
      set (knew := (wnow q, count (wnow q) keys)) in *.
      destruct (w_write_ktd q1 wr1 (keys ++ [knew]) (closed ++ [cur_view q wr]) b n' I1) as [w2 [Ew Out]]. rewrite Ew.
      eexists _, w2, _, true. split; [reflexivity|].
      assert (En : nth (length (closed ++ [cur_view q wr])) (keys ++ [knew]) kd = knew).
      { apply nth_snoc_last. rewrite app_length. cbn [length]. lia. }
      destruct Out as [[q2 [n2 [-> [I2 [V2 S2]]]]] | ->].
      * left. exists q2, n2, wr1, (increase_size roll1 (N.of_nat (length b))), (keys ++ [knew]), (closed ++ [cur_view q wr]).
        split; [reflexivity|]. split; [reflexivity|].
        split. { rewrite En. reflexivity. }
        split; [reflexivity|].
        split; [exact I2|]. rewrite V1 in V2. cbn [app] in V2.
        split. { rewrite V2. apply (roll_size_increase roll1 0 (length b)). exact Z1. }
        split; [eapply same_env_trans; eassumption|].
        split; [rewrite V2; reflexivity|].
        intros m cur Hr. destruct (R1 m cur Hr) as [cur' ->]. cbn. eauto.
      * right. exists q1, (Some (keys ++ [knew], closed ++ [cur_view q wr], cur_view q1 wr1)).
        split; [reflexivity|]. split; [exact S1|]. split; [apply I1|].
        split; [exact (tsdinv_dird q1 wr1 _ _ I1)|].
        split; [cbn [flatD]; rewrite V1, concat_app; cbn [concat]; rewrite !app_nil_r; reflexivity|].
        split; [cbn [closedD]; rewrite app_length; cbn [length]; lia|].
        right. split; [reflexivity|]. cbn [filesD]. rewrite V1. reflexivity.
  - (* no rotation *)
    unfold mount_next. cbn [mk_rs rs_roll orb]. rewrite rot_nec_kw, Er.
    destruct (w_write_ktd q wr keys closed b n I) as [w2 [Ew Out]]. rewrite Ew.
    eexists _, w2, _, false. split; [reflexivity|].
    destruct Out as [[q2 [n2 [-> [I2 [V2 S2]]]]] | ->].
    + left. exists q2, n2, wr, (increase_size roll (N.of_nat (length b))), keys, closed.
      split; [reflexivity|]. split; [reflexivity|]. split; [reflexivity|]. split; [reflexivity|].
      split; [exact I2|].
      split. { rewrite V2, app_length. apply roll_size_increase. exact Hsz. }
      split; [exact S2|]. split; [rewrite V2; reflexivity|].
      intros m cur ->. cbn. eauto.
    + right. exists q, (Some (keys, closed, cur_view q wr)). split; [reflexivity|]. split; [apply same_env_refl; exact Q|].
      split; [apply I|]. split; [exact (tsdinv_dird q wr keys closed I)|].
      split; [reflexivity|]. split; [cbn [closedD]; lia | left; reflexivity].
Qed.

(* ---- the first write: initialisation in the empty directory with a budget ---- *)
Lemma latest_ts_empty_kw q k rot : quiet q -> names (wfs q) = [] ->
  latest_timestamp_file c (kw q k) rot std_fmt = (Ok (wnow q), kw q k).
Proof.
  intros Q Hn. unfold latest_timestamp_file. destruct rot; [reflexivity|].
  unfold with_listing. rewrite tick_kw by exact Q. cbv beta iota. change (wfs (kw q k)) with (wfs q).
  rewrite related_files_empty by assumption. reflexivity.
Qed.

Lemma init_naming_empty_kw q k : quiet q -> names (wfs q) = [] -> eoff c q = e ->
  init_naming c (kw q k) NTimestampsDirect = (Ok (NSTs (wnow q) None std_fmt, tsx e (wnow q)), kw q k).
Proof.
  intros Q Hn Hoff. destruct Hcfg as [Hrot [Hts [Hlink _]]]. unfold init_naming.
  rewrite (latest_ts_empty_kw q k _ Q Hn). cbn [bind].
  unfold collision_free. rewrite tick_kw by exact Q. cbv beta iota. rewrite tick_kw by exact Q. cbv beta iota.
  change (wfs (kw q k)) with (wfs q). rewrite collision_free_infix_empty by assumption. cbn [bind].
  rewrite newest_of_next_same. rewrite infix_from_ts_tsx. change (eoff c (kw q k)) with (eoff c q). rewrite Hoff.
  destruct (c_append c); reflexivity.
Qed.

Lemma initialize_empty_ktd q n :
  quiet q -> names (wfs q) = [] -> inodes (wfs q) = [] -> eoff c q = e -> (lo <= wnow q)%Z ->
  match n with
  | 0 => exists r, initialize c (kw q 1) = (r, kw q 0)
  | S n' => exists q' wr roll,
      initialize c (kw q (S (S n'))) = (Ok (Active (Some (mk_rs (NSTs (wnow q) None std_fmt) roll)) wr (kname c e (wnow q, 0))), kw q' (S n'))
      /\ TsdInv c e lo q' wr [(wnow q, 0)] [] /\ cur_view q' wr = [] /\ roll_size_ok roll 0 /\ same_env q q'
      /\ (forall m, crit = CSize m -> roll = RSize m 0)
  end.
Proof.
  intros Q Hn Hi Hoff Hlo. pose proof Hcfg as [Hrot [Hts [Hlink _]]].
  set (k0 := (wnow q, 0)).
  assert (Hnd : match file_of (wfs q) (kname c e k0) with Some fl => fdir fl | None => false end = false).
  { unfold file_of. rewrite lookup_empty by assumption. reflexivity. }
  assert (Eopen : (if c_append c then open_append (wfs q) (kname c e k0) (wnow q) else open_trunc (wfs q) (kname c e k0) 0%N (wnow q))
                  = create_file (wfs q) (kname c e k0) 0%N (wnow q)).
  { destruct (c_append c); [apply open_append_fresh | apply open_trunc_fresh]; apply lookup_empty; assumption. }
  destruct n as [|n'].
  - unfold initialize. rewrite Hrot. rewrite (init_naming_empty_kw q 1 Q Hn Hoff). cbn [bind].
    unfold open_log_file. rewrite (name_of_fixed c (kw q 1)) by assumption.
    change (as_name (c_spec c) (fixed0 c) (Some (tsx e (wnow q)))) with (kname c e k0).
    unfold do_symlink. rewrite Hlink. rewrite p_open_kw by exact Q. rewrite Hnd. cbn [eff bind fst snd].
    destruct (roll_new_dead (kw q 0) crit (c_append c) (kname c e k0) (dead_kw q Q)) as [r3 E3]. rewrite E3.
    destruct r3; cbn [bind]; eauto.
  - unfold initialize. rewrite Hrot. rewrite (init_naming_empty_kw q (S (S n')) Q Hn Hoff). cbn [bind].
    unfold open_log_file. rewrite (name_of_fixed c (kw q (S (S n')))) by assumption.
    change (as_name (c_spec c) (fixed0 c) (Some (tsx e (wnow q)))) with (kname c e k0).
    unfold do_symlink. rewrite Hlink. rewrite p_open_kw by exact Q. rewrite Hnd. cbn [eff bind fst snd].
    rewrite !Eopen.
    set (q2 := set_fs q (fst (create_file (wfs q) (kname c e k0) 0%N (wnow q)))).
    assert (Q2 : quiet q2) by (apply quiet_set_fs; exact Q).
    assert (F2 : wfs q2 = {| names := [(kname c e k0, 0)]; inodes := [fresh_file (wnow q)] |}).
    { unfold q2, create_file. cbn [set_fs wfs fst snd]. rewrite Hn, Hi. reflexivity. }
    assert (Eino : snd (create_file (wfs q) (kname c e k0) 0%N (wnow q)) = 0) by (unfold create_file; cbn [snd]; rewrite Hi; reflexivity).
    rewrite Eino.
    set (wr := {| wino := 0; wpend := []; wcap := c_cap c |}).
    assert (Lc : lookup (wfs q2) (kname c e k0) = Some 0) by (rewrite F2; unfold lookup; cbn; rewrite beq_refl; reflexivity).
    assert (Fo : file_of (wfs q2) (kname c e k0) = Some (fresh_file (wnow q))) by (unfold file_of; rewrite Lc, F2; reflexivity).
    assert (RN : exists roll, roll_new (kw q2 (S n')) crit (c_append c) (kname c e k0) = (Ok roll, kw q2 (S n')) /\ roll_size_ok roll 0
                 /\ (forall m, crit = CSize m -> roll = RSize m 0)).
    { unfold roll_new. destruct (c_append c).
      - rewrite tick_kw by exact Q2. cbn [kw set_kill wfs]. rewrite Fo. cbn [fresh_file fdata length].
        eexists. split; [reflexivity|]. split; [destruct crit; reflexivity|]. intros m ->. reflexivity.
      - eexists. split; [reflexivity|]. split; [destruct crit; reflexivity|]. intros m ->. reflexivity. }
    destruct RN as [roll [Ern [Z R]]]. rewrite Ern. cbn [bind].
    exists q2, wr, roll. split; [reflexivity|].
    split.
    { constructor; cbn [length nth].
      - exact Q2.
      - rewrite F2. split.
        + intros a j. unfold lookup; cbn. destruct (beq (kname c e k0) a); [|discriminate]. intros E; injection E as <-. lia.
        + intros a b j. unfold lookup; cbn. destruct (beq_spec (kname c e k0) a), (beq_spec (kname c e k0) b); try discriminate. congruence.
      - rewrite F2. unfold dir_names. cbn [names List.map fst]. constructor; [intros [] | constructor].
      - exact Hoff.
      - reflexivity.
      - exact Lc.
      - rewrite F2. split; reflexivity.
      - intros i Hi'. lia.
      - intros n j. rewrite F2. unfold lookup; cbn. destruct (beq_spec (kname c e k0) n) as [<-|]; [|discriminate].
        intros _. exists 0. split; [lia | reflexivity].
      - exact (ko_snoc [] (wnow q) ko_nil (fun k (H : In k []) => match H with end)).
      - intros k [<-|[]]. unfold k0. cbn [fst q2 set_fs wnow]. lia.
      - unfold wr_ok, wr. cbn. destruct (c_cap c); [lia | reflexivity].
      - reflexivity. }
    split. { unfold cur_view, content, inode. rewrite F2. reflexivity. }
    split; [exact Z|]. split; [apply same_env_set_fs; exact Q | exact R].
Qed.

(* ---- a dead outcome as the world of a dead process ---- *)
Lemma died_in_dead q w' cl cu rot : died_in q w' cl cu rot ->
  exists d, DeadTd c e (woff q) lo (S (length cl)) (wnow q) w' d /\ flatD d = concat cl ++ cu
    /\ (filesD d = cl ++ [cu] \/ (rot = true /\ filesD d = (cl ++ [cu]) ++ [[]])).
Proof.
  intros [qd [d [-> [S [Ho [D [F [L Sh]]]]]]]]. exists d. split; [|split; [exact F | exact Sh]].
  pose proof (dead_of_quiet c e lo qd d _ (proj1 S) Ho D L) as X. destruct S as [_ [N [O _]]]. rewrite N, O in X. exact X.
Qed.

(* ---- a write, from either kind of state ---- *)
Lemma write_rel_ktd n x a b q m :
  s_w x = kw q (S m) -> RelTd c crit e lo n (with_w x q) a -> (wnow q <= hi)%Z -> (N.of_nat (S n) <= usize_max)%N ->
  exists s r w' s' rot, s_flw x = Some s /\ f_poisoned s = false /\
    write_buffer s (s_w x) b = (r, w', s', rot) /\
    ( (r = Ok tt /\ KRelTd c crit e (woff q) lo (S n) (wnow q) {| s_flw := Some s'; s_w := w'; s_tl := []; s_dead := s_dead x |}
                           (a_step a (OWrite b) rot)
         /\ (forall k, crit = CSize k -> rot = (k <? N.of_nat (length (cur_of a)))%N))
      \/ (exists d, DeadTd c e (woff q) lo (S n) (wnow q) w' d /\ flatD d = flat a /\ (forall k, crit = CSize k -> near d a)) ).
Proof.
  intros Ew [Ht [Ha R]] Hhi Hmax. cbn [with_w s_tl s_w s_flw] in Ht, Ha, R. rewrite Ew. destruct a as [[cl cu]|].
  - destruct R as [keys [wr [roll [Es [I [V [Hn [Z RS]]]]]]]]. rewrite <- V in Z.
    assert (Hk : (N.of_nat (length keys) <= usize_max)%N) by (rewrite (td_len _ _ _ _ _ _ _ I); lia).
    destruct (write_active_ktd q wr keys cl roll b m I Hhi Hk Z) as [r [w' [s' [rot' [E Out]]]]].
    exists (st_tsd c e (nth (length cl) keys kd) roll wr), r, w', s', rot'. split; [exact Es|]. split; [reflexivity|]. split; [exact E|].
    destruct Out as [[q' [n' [wr' [roll' [keys' [cl' [-> [-> [-> [-> [I' [Z' [S' [V' R']]]]]]]]]]]]]] | D].
    + left. split; [reflexivity|]. split.
      { exists q', n'. split; [reflexivity|].
        split; [apply S'|]. split; [exact (same_env_now _ _ S')|].
        split; [reflexivity|]. split; [cbn [with_w s_w]; exact (same_env_acts _ _ S' Ha)|].
        cbn [a_step]. rewrite V in V'.
        destruct (rotation_necessary q roll); injection V' as -> V''; (exists keys', wr', roll'; cbn [with_w s_flw s_w];
          split; [reflexivity|]; split; [exact I'|]; split; [exact V''|]; split; [rewrite ?app_length; cbn [length]; lia|];
          split; [rewrite <- V''; exact Z'|];
          intros k Hm; destruct (RS k Hm) as [j ->]; destruct (R' k j eq_refl) as [j' ->]; eauto). }
      { intros k Hm. destruct (RS k Hm) as [j ->]. cbn in Z. subst j. rewrite V. reflexivity. }
    + right. destruct (died_in_dead q w' _ _ _ D) as [d [Dd [Fl Sh]]]. exists d.
      split; [apply (deadtd_mono c e (woff q) lo (S (length cl))); [lia | exact Dd]|]. split; [rewrite Fl, V; reflexivity|].
      intros k _. unfold near. cbn [files_of]. rewrite <- V. destruct Sh as [Sh|[_ Sh]]; [left | right]; exact Sh.
  - destruct R as [Es [Q [Hnm [Hi [Hoff Hlo]]]]].
    pose proof (initialize_empty_ktd q m Q Hnm Hi Hoff Hlo) as IE. destruct m as [|m'].
    + destruct IE as [r0 Ei].
      destruct (wb_initial_dead_e (new_flw c) (kw q 1) b r0 (kw q 0) eq_refl Ei (dead_kw q Q)) as [r [w' [s' [rot [E F]]]]].
      exists (new_flw c), r, w', s', rot. split; [exact Es|]. split; [reflexivity|]. split; [exact E|].
      right. exists None. split; [|split; [reflexivity | intros k _; left; reflexivity]].
      assert (D0 : DeadTd c e (woff q) lo (S n) (wnow q) (kw q 0) None).
      { apply dead_of_quiet; [exact Q | exact Hoff | cbn [dir_tsd]; auto | cbn [closedD length]; lia]. }
      replace (wnow q) with (wnow q + 0)%Z by lia.
      apply (deadtd_after c e (woff q) lo (S n) (wnow q) (kw q 0) w' None 0 D0); [apply frozen_e_after; exact F | lia].
    + destruct IE as [q1 [wr [roll [Ei [I [V [Z [S1 RS]]]]]]]].
      assert (Z0 : roll_size_ok roll (length (cur_view q1 wr))) by (rewrite V; exact Z).
      assert (Hhi1 : (wnow q1 <= hi)%Z) by (rewrite (same_env_now _ _ S1); exact Hhi).
      destruct (write_active_ktd q1 wr [(wnow q, 0)] [] roll b m' I Hhi1 ltac:(cbn [length]; lia) Z0) as [r [w' [s' [rot' [E Out]]]]].
      exists (new_flw c), r, w', s', rot'. split; [exact Es|]. split; [reflexivity|].
      split. { rewrite (write_buffer_init c (kw q (S (S m'))) b _ _ _ (kw q1 (S m')) Ei). exact E. }
      destruct Out as [[q' [n2 [wr' [roll' [keys' [cl' [-> [-> [-> [-> [I' [Z' [S' [V' R']]]]]]]]]]]]]] | D].
      * left. split; [reflexivity|]. split.
        { exists q', n2. split; [reflexivity|].
          pose proof (same_env_trans _ _ _ S1 S') as S2.
          split; [apply S2|]. split; [exact (same_env_now _ _ S2)|].
          split; [reflexivity|]. split; [cbn [with_w s_w]; exact (same_env_acts _ _ S2 Ha)|].
          cbn [a_step]. rewrite V in V'. cbn [app] in V'.
          destruct (rotation_necessary q1 roll); injection V' as -> V''; (exists keys', wr', roll'; cbn [with_w s_flw s_w];
            split; [reflexivity|]; split; [exact I'|]; split; [exact V''|]; split; [cbn [app length]; lia|];
            split; [rewrite <- V''; exact Z'|]).
          -- intros k Hm. rewrite (RS k Hm) in R'. destruct (R' k 0%N eq_refl) as [j' ->]; eauto.
          -- intros k Hm. rewrite (RS k Hm) in R'. destruct (R' k 0%N eq_refl) as [j' ->]; eauto. }
        { intros k Hm. rewrite (RS k Hm). reflexivity. }
      * right. destruct (died_in_dead q1 w' _ _ _ D) as [d [Dd [Fl Sh]]]. exists d.
        destruct S1 as [_ [N1 [O1 _]]]. rewrite N1, O1 in Dd.
        split; [apply (deadtd_mono c e (woff q) lo 1); [lia | exact Dd]|]. split; [rewrite Fl, V; reflexivity|].
        (* a size criterion does not rotate the file that has just been created: the one file is there, empty *)
        intros k Hm. right. cbn [files_of app]. rewrite V in Sh. destruct Sh as [Sh|[Hr _]]; [exact Sh|].
        rewrite (RS k Hm) in Hr. cbn [rotation_necessary] in Hr. unfold size_rotation_necessary in Hr. apply N.ltb_lt in Hr. lia.
Qed.

Lemma krel_flw_td n t x a : KRelTd c crit e off lo n t x a -> exists s, s_flw x = Some s /\ f_cfg s = c.
Proof.
  intros [q [m [_ [_ [_ [_ [_ R]]]]]]]. cbn [with_w s_flw] in R.
  destruct a as [[cl cu]|]; [destruct R as [keys [wr [roll [Es _]]]] | destruct R as [Es _]]; rewrite Es; eexists; split; reflexivity.
Qed.

Lemma step_sync_ktd n t x a o : KRelTd c crit e off lo n t x a -> step x o = sync_step x o.
Proof.
  intros K. destruct (krel_flw_td n t x a K) as [s [Es Ec]].
  exact (step_sync_tsd c crit x s o Hcfg Es Ec).
Qed.

(* ---- one basic operation of a process with a budget: it either completes (and is acknowledged), or the process
        dies in it, and then the directory holds exactly what was acknowledged before ---- *)
Lemma kstep_td n t x a o : KRelTd c crit e off lo n t x a -> basic_op o -> tick_ok o ->
  (t <= hi)%Z -> (N.of_nat (S n) <= usize_max)%N ->
  let '(x', ob) := step x o in
  (alive (s_w x') = true /\ KRelTd c crit e off lo (S n) (t + dt_of o) x' (a_step a o (rot_of ob))
     /\ (forall b k, (o = OWrite b \/ o = OPlain b) -> crit = CSize k -> rot_of ob = (k <? N.of_nat (length (cur_of a)))%N))
  \/ (alive (s_w x') = false /\ exists d, DeadTd c e off lo (S n) (t + dt_of o) (s_w x') d /\ flatD d = flat a
        /\ (forall k, crit = CSize k -> near d a)).
Proof.
  intros K Hb Htk Hhi Hmax. rewrite (step_sync_ktd n t x a o K). destruct K as [q [m [Ew [Ho [Hn R]]]]].
  rewrite <- Hn in Hhi.
  destruct o; try contradiction; cbn [sync_step dt_of]; rewrite ?Z.add_0_r.
  - (* OWrite *)
    destruct (write_rel_ktd n x a b q m Ew R Hhi Hmax) as [s [r [w' [s' [rot [Es [Hp [E Out]]]]]]]]. rewrite Ho, Hn in Out.
    rewrite Es, Hp. pose proof (proj1 R) as Ht. cbn [with_w s_tl] in Ht. rewrite Ht. cbn [app]. rewrite E. cbn [rot_of].
    destruct Out as [[-> [K' Fg]] | [d [D [Fl Nr]]]].
    + left. split; [|split; [exact K' | intros b0 k0 _ Hm; exact (Fg k0 Hm)]].
      destruct K' as [q' [n' [E' _]]]. cbn [s_w] in E' |- *. rewrite E'. reflexivity.
    + right. cbn [s_w].
      assert (Ew' : match r with Err => report EWrite w' | _ => w' end = w') by (destruct r; try reflexivity; apply report_dead; apply D).
      rewrite Ew'. split; [apply dead_not_alive; apply D|]. exists d. split; [exact D|]. split; [exact Fl | exact Nr].
  - (* OPlain *)
    destruct (write_rel_ktd n x a b q m Ew R Hhi Hmax) as [s [r [w' [s' [rot [Es [Hp [E Out]]]]]]]]. rewrite Ho, Hn in Out.
    rewrite Es, Hp, E. cbn [rot_of]. pose proof (proj1 R) as Ht. cbn [with_w s_tl] in Ht. rewrite Ht.
    destruct Out as [[-> [K' Fg]] | [d [D [Fl Nr]]]].
    + left. split; [|split; [exact K' | intros b0 k0 _ Hm; exact (Fg k0 Hm)]].
      destruct K' as [q' [n' [E' _]]]. cbn [s_w] in E' |- *. rewrite E'. reflexivity.
    + right. cbn [s_w]. split; [apply dead_not_alive; apply D|]. exists d. split; [exact D|]. split; [exact Fl | exact Nr].
  - (* OFlush *)
    destruct R as [Ht [Ha R]]. cbn [with_w s_tl s_w s_flw] in Ht, Ha, R. destruct a as [[cl cu]|].
    + destruct R as [keys [wr [roll [Es [I [V [Hl [Z RS]]]]]]]]. rewrite Es. cbn [st_tsd f_poisoned].
      destruct (direct_wr_td q wr keys cl I) as [Pw _].
      unfold flush_state, st_tsd. cbn [f_inner]. rewrite w_flush_nop by exact Pw. rewrite (writer_eta wr Pw).
      cbn [rot_of a_step s_w]. left. split; [rewrite Ew; reflexivity|]. split; [|intros b0 k0 [H0|H0]; discriminate].
      exists q, m. split; [exact Ew|]. split; [exact Ho|]. split; [exact Hn|]. split; [exact Ht|]. split; [exact Ha|].
      exists keys, wr, roll. cbn [with_w s_flw s_w]. split; [reflexivity|]. split; [exact I|]. split; [exact V|].
      split; [lia|]. split; assumption.
    + destruct R as [Es R]. rewrite Es. cbn [new_flw f_poisoned flush_state f_inner rot_of a_step s_w].
      left. split; [rewrite Ew; reflexivity|]. split; [|intros b0 k0 [H0|H0]; discriminate]. exists q, m. split; [exact Ew|]. split; [exact Ho|]. split; [exact Hn|].
      split; [exact Ht|]. split; [exact Ha|]. split; [reflexivity | exact R].
  - (* OTrigger *)
    destruct R as [Ht [Ha R]]. cbn [with_w s_tl s_w s_flw] in Ht, Ha, R. destruct a as [[cl cu]|].
    + destruct R as [keys [wr [roll [Es [I [V [Hl [Z RS]]]]]]]]. rewrite Es. cbn [st_tsd f_poisoned f_cfg f_inner]. rewrite Ew.
      pose proof (td_quiet _ _ _ _ _ _ _ I) as Q. pose proof (td_len _ _ _ _ _ _ _ I) as Hlen.
      assert (Hk : (N.of_nat (length keys) <= usize_max)%N) by lia.
      pose proof (mount_next_ktd q wr keys cl (fst (nth (length cl) keys kd)) roll true m I Hhi Hk eq_refl) as M. cbv zeta in M.
      destruct m as [|m'].
      * destruct M as [r1 [st1 E1]]. rewrite E1. right. cbn [s_w]. split; [reflexivity|].
        exists (Some (keys, cl, cur_view q wr)).
        split; [|split; [rewrite V; reflexivity | intros k _; left; cbn [filesD files_of]; rewrite V; reflexivity]].
        rewrite <- Ho, <- Hn. apply dead_of_quiet; [exact Q | apply I | exact (tsdinv_dird q wr keys cl I) | cbn [closedD]; lia].
      * destruct M as [q' [wr' [roll' [E1 [I' [V' [Z' [S' R']]]]]]]]. rewrite E1. left.
        cbn [rot_of a_step code_of with_inner f_cfg f_poisoned s_w]. split; [reflexivity|]. split; [|intros b0 k0 [H0|H0]; discriminate].
        exists q', m'. split; [reflexivity|]. split; [rewrite <- Ho; apply S'|]. split; [rewrite <- Hn; exact (same_env_now _ _ S')|].
        split; [exact Ht|]. split; [cbn [with_w s_w]; exact (same_env_acts _ _ S' Ha)|].
        rewrite V in *. exists (keys ++ [(wnow q, count (wnow q) keys)]), wr', roll'. cbn [with_w s_flw s_w].
        split. { rewrite nth_snoc_last by (rewrite app_length; cbn [length]; lia). reflexivity. }
        split; [exact I'|]. split; [exact V'|]. split; [rewrite app_length; cbn [length]; lia|]. split; [exact Z'|].
        intros k Hm. destruct (RS k Hm) as [j ->]. destruct (R' k j eq_refl) as [j' ->]. eauto.
    + destruct R as [Es R]. rewrite Es. cbn [new_flw f_poisoned f_cfg f_inner mount_next with_inner rot_of a_step code_of s_w].
      left. split; [rewrite Ew; reflexivity|]. split; [|intros b0 k0 [H0|H0]; discriminate]. exists q, m. split; [exact Ew|]. split; [exact Ho|]. split; [exact Hn|].
      split; [exact Ht|]. split; [exact Ha|]. split; [reflexivity | exact R].
  - (* OTick *)
    cbn [rot_of a_step s_w tick_ok] in *. left. rewrite Ew. split; [reflexivity|]. split; [|intros b0 k0 [H0|H0]; discriminate].
    exists (set_now q (wnow q + dt)%Z), m. split; [reflexivity|]. split; [exact Ho|]. split; [cbn [set_now wnow]; lia|].
    destruct R as [Ht [Ha R]]. cbn [with_w s_tl s_w s_flw] in Ht, Ha, R.
    split; [exact Ht|]. split; [exact Ha|]. destruct a as [[cl cu]|].
    + destruct R as [keys [wr [roll [Es [I [V [Hl ZR]]]]]]]. exists keys, wr, roll. cbn [with_w s_flw s_w].
      split; [exact Es|]. split; [apply tsdinv_tick; assumption|]. split; [exact V|]. split; [lia | exact ZR].
    + cbn [with_w s_flw s_w]. destruct R as [Es [Q [Hnm [Hi [Hoff Hlo]]]]].
      split; [exact Es|]. split; [apply quiet_set_now; exact Q|]. split; [exact Hnm|]. split; [exact Hi|].
      split; [exact Hoff | cbn [set_now wnow]; lia].
  - (* OSnap *)
    cbn [rot_of a_step]. left. split; [rewrite Ew; reflexivity|]. split; [|intros b0 k0 [H0|H0]; discriminate]. exists q, m. split; [exact Ew|]. split; [exact Ho|]. split; [exact Hn|].
    apply RelTd_mono. exact R.
Qed.

(* ---- the operations after the counter has been armed ---- *)
Lemma krun_td : forall ops n t x a, KRelTd c crit e off lo n t x a -> Forall basic_op ops -> Forall tick_ok ops ->
  (t + elapsed ops <= hi)%Z -> (N.of_nat (n + length ops) <= usize_max)%N ->
  (exists a', KRelTd c crit e off lo (n + length ops) (t + elapsed ops) (fst (run x ops)) a' /\ flat a' = flat a ++ acked x ops
       /\ acked x ops = written ops /\ (forall k, crit = CSize k -> a' = s_run k a ops))
  \/ (exists d, DeadTd c e off lo (n + length ops) (t + elapsed ops) (s_w (fst (run x ops))) d /\ flatD d = flat a ++ acked x ops
       /\ (forall k, crit = CSize k -> exists j, acked x ops = written (firstn j ops) /\ near d (s_run k a (firstn j ops)))).
Proof.
  induction ops as [|o r IH]; intros n t x a K Hb Htk Hhi Hmax.
  - left. exists a. cbn [run fst acked length elapsed]. rewrite app_nil_r, Nat.add_0_r, Z.add_0_r.
    split; [exact K|]. split; [reflexivity|]. split; [reflexivity | intros k _; reflexivity].
  - inversion Hb as [|o' r' Ho Hr]; subst. inversion Htk as [|o' r' Hto Htr]; subst. rewrite fst_run_cons. cbn [acked length elapsed] in *.
    pose proof (elapsed_nonneg r Htr) as Er.
    assert (Hdt : (0 <= dt_of o)%Z) by (destruct o; cbn [dt_of tick_ok] in *; lia).
    pose proof (kstep_td n t x a o K Ho Hto ltac:(lia) ltac:(lia)) as St. destruct (step x o) as [x1 ob] eqn:Est. cbn [fst].
    replace (n + S (length r)) with (S n + length r) by lia.
    replace (t + (dt_of o + elapsed r))%Z with (t + dt_of o + elapsed r)%Z by lia.
    destruct St as [[Al [K1 Fg]] | [Al [d [D [Fl Nr]]]]]; rewrite Al.
    + assert (Erot : forall k, crit = CSize k -> a_step a o (rot_of ob) = a_step a o (k <? N.of_nat (length (cur_of a)))%N).
      { intros k Hm. destruct o; try reflexivity.
        - rewrite (Fg b k (or_introl eq_refl) Hm). reflexivity.
        - rewrite (Fg b k (or_intror eq_refl) Hm). reflexivity. }
      destruct (IH (S n) (t + dt_of o)%Z x1 _ K1 Hr Htr ltac:(lia) ltac:(lia)) as [[a' [K' [F' [Ak Sr]]]] | [d [D [F' Sh]]]].
      * left. exists a'. split; [exact K'|]. split; [rewrite F', a_step_flat by exact Ho; rewrite app_assoc; reflexivity|].
        split; [rewrite Ak, (written_cons o r); reflexivity|].
        intros k Hm. cbn [s_run]. rewrite <- (Erot k Hm). exact (Sr k Hm).
      * right. exists d. split; [exact D|]. split; [rewrite F', a_step_flat by exact Ho; rewrite app_assoc; reflexivity|].
        intros k Hm. destruct (Sh k Hm) as [j [Aj Nj]]. exists (S j). cbn [firstn s_run].
        split; [rewrite Aj, (written_cons o (firstn j r)); reflexivity|]. rewrite <- (Erot k Hm). exact Nj.
    + cbn [app]. rewrite (acked_dead r x1 (proj1 D) Hr), app_nil_r.
      right. exists d. split; [|split; [exact Fl|]].
      * apply (deadtd_mono c e off lo (S n)); [lia|].
        exact (deadtd_after c e off lo (S n) _ _ _ d (elapsed r) D (dead_run_e r x1 (proj1 D) Hr) Er).
      * intros k Hm. exists 0. split; [reflexivity | exact (Nr k Hm)].
Qed.

Lemma crash_alive_td n t x a : KRelTd c crit e off lo n t x a ->
  exists d, IdleTd c e off lo n (fst (step x OCrash)) d /\ flatD d = flat a /\ filesD d = files_of a
    /\ wnow (s_w (fst (step x OCrash))) = t.
Proof.
  intros [q [m [Ew [Ho [Hn [Ht [Ha R]]]]]]]. rewrite step_crash. cbn [sync_step fst]. cbn [with_w s_tl s_w s_flw] in Ht, Ha, R.
  rewrite Ew. unfold IdleTd, envTd. cbn [s_tl s_w s_flw].
  change (set_acts (set_kill (kw q (S m)) None) 0) with (calm (kw q (S m))).
  destruct a as [[cl cu]|].
  - destruct R as [keys [wr [roll [Es [I [V [Hl _]]]]]]]. pose proof (td_quiet _ _ _ _ _ _ _ I) as Q.
    exists (Some (keys, cl, cu)). split; [|split; [reflexivity | split; [reflexivity | exact Hn]]].
    split. { split; [reflexivity|]. split; [reflexivity|]. split; [apply quiet_calm; apply Q|]. split; [exact (td_off _ _ _ _ _ _ _ I) | exact Ho]. }
    split; [reflexivity|]. split; [|exact Hl]. rewrite <- V.
    apply (dir_tsd_later c e lo q); [exact (tsdinv_dird q wr keys cl I) | reflexivity | apply quiet_calm; apply Q | apply Z.le_refl
                                     | exact (td_off _ _ _ _ _ _ _ I)].
  - destruct R as [Es [Q [Hnm [Hi [Hoff Hlo]]]]].
    exists None. split; [|split; [reflexivity | split; [reflexivity | exact Hn]]].
    split. { split; [reflexivity|]. split; [reflexivity|]. split; [apply quiet_calm; apply Q|]. split; [exact Hoff | exact Ho]. }
    split; [reflexivity|]. split; [|cbn [closedD length]; lia]. cbn [dir_tsd]. auto.
Qed.

Lemma crash_dead_td n t x d : DeadTd c e off lo n t (s_w x) d ->
  IdleTd c e off lo n (fst (step x OCrash)) d /\ wnow (s_w (fst (step x OCrash))) = t.
Proof.
  intros [Dw [Ho [Hn [He [D L]]]]]. rewrite step_crash. cbn [sync_step fst]. unfold IdleTd, envTd. cbn [s_tl s_w s_flw].
  change (set_acts (set_kill (s_w x) None) 0) with (calm (s_w x)).
  split; [|exact Hn].
  split. { split; [reflexivity|]. split; [reflexivity|]. split; [apply quiet_calm; apply Dw|]. split; [exact He | exact Ho]. }
  split; [reflexivity|]. split; [exact D | exact L].
Qed.

Lemma arm_krel_td n x a k : RelTd c crit e lo n x a -> woff (s_w x) = off ->
  KRelTd c crit e off lo n (wnow (s_w x)) (fst (step x (OSetKill k))) a.
Proof.
  intros R Ho. rewrite (step_sync_rel_tsd c crit e lo n x a _ Hcfg R). cbn [sync_step fst].
  exists (s_w x), k. split; [reflexivity|]. split; [exact Ho|]. split; [reflexivity|].
  unfold with_w. cbn [s_flw s_tl s_dead]. destruct x; exact R.
Qed.

(* the acknowledged bytes are the bytes written by a prefix of the operations: the process dies once *)
Lemma acked_prefix_ktd : forall ops n t x a, KRelTd c crit e off lo n t x a -> Forall basic_op ops -> Forall tick_ok ops ->
  (t + elapsed ops <= hi)%Z -> (N.of_nat (n + length ops) <= usize_max)%N ->
  exists j, acked x ops = written (firstn j ops).
Proof.
  induction ops as [|o r IH]; intros n t x a K Hb Htk Hhi Hmax; [exists 0; reflexivity|].
  inversion Hb as [|o' r' Ho Hr]; subst. inversion Htk as [|o' r' Hto Htr]; subst. cbn [acked length elapsed] in *.
  pose proof (elapsed_nonneg r Htr) as Er.
  assert (Hdt : (0 <= dt_of o)%Z) by (destruct o; cbn [dt_of tick_ok] in *; lia).
  pose proof (kstep_td n t x a o K Ho Hto ltac:(lia) ltac:(lia)) as St. destruct (step x o) as [x1 ob] eqn:Est. cbn [fst].
  destruct St as [[Al [K1 _]] | [Al [d [D _]]]]; rewrite Al.
  - destruct (IH (S n) (t + dt_of o)%Z x1 _ K1 Hr Htr ltac:(lia) ltac:(lia)) as [j E]. exists (S j). cbn [firstn].
    rewrite E, (written_cons o (firstn j r)). reflexivity.
  - exists 0. rewrite (acked_dead r x1 (proj1 D) Hr). reflexivity.
Qed.

End DirectTd.

(* ------------------------------------------------------------------ the whole history of the killed process *)
Lemma kill_history_td c crit t0 off ops1 k ops2 :
  tsdcfg c crit -> c_cap c = None -> tag_ok c ->
  Forall basic_op ops1 -> Forall basic_op ops2 -> Forall tick_ok ops1 -> Forall tick_ok ops2 ->
  (0 <= t0 + ts_e c off)%Z -> (t0 + elapsed ops1 + elapsed ops2 + ts_e c off < sec_max)%Z ->
  (N.of_nat (length ops1 + length ops2) <= usize_max)%N ->
  let x1 := fst (run (sys0 t0 off) (OStart c :: ops1 ++ [OSetKill k])) in
  let xe := fst (run (sys0 t0 off) (OStart c :: ops1 ++ [OSetKill k] ++ ops2 ++ [OCrash])) in
  (exists d, IdleTd c (ts_e c off) off t0 (length ops1 + length ops2) xe d
     /\ flatD d = written ops1 ++ acked x1 ops2
     /\ wnow (s_w xe) = (t0 + elapsed ops1 + elapsed ops2)%Z
     /\ (forall m, crit = CSize m ->
           exists j, acked x1 ops2 = written (firstn j ops2) /\ near d (s_run m None (ops1 ++ firstn j ops2))))
  /\ exists j, acked x1 ops2 = written (firstn j ops2).
Proof.
  intros Hcfg Hcap T Hb1 Hb2 Htk1 Htk2 Hlo Hhi Hmax x1 xe. unfold x1, xe. clear x1 xe.
  set (e := ts_e c off) in *. set (hi := (t0 + elapsed ops1 + elapsed ops2)%Z).
  assert (Y : years_ok e t0 hi) by (split; assumption).
  pose proof (elapsed_nonneg ops1 Htk1) as E1. pose proof (elapsed_nonneg ops2 Htk2) as E2.
  rewrite !fst_run_cons, !fst_run_app, !fst_run_cons. cbn [run fst].
  pose proof (start_rel_tsd c crit t0 off) as R0. pose proof (start_relTdT c crit t0 off) as RT0.
  pose proof (start_clock c t0 off) as [N0 O0]. fold e in R0, RT0.
  set (x0 := fst (step (sys0 t0 off) (OStart c))) in *.
  pose proof (run_rel_tsd c crit e t0 hi Hcfg T Y ops1 x0 None 0 R0 Hb1 Htk1 ltac:(unfold hi; lia) ltac:(lia)) as [R1 [W1 Z1]].
  pose proof (run_relTdT c crit e t0 hi Hcfg T Y ops1 x0 None 0 RT0 Hb1 Htk1 ltac:(unfold hi; lia) ltac:(lia)) as RT1.
  cbv zeta in RT1. destruct RT1 as [_ [O1 _]]. rewrite O0 in O1. rewrite N0 in W1.
  pose proof (run_length ops1 x0) as L1.
  pose proof (a_run_flat ops1 None (snd (run x0 ops1)) Hb1 L1) as F1. cbn [flat app] in F1.
  set (x1 := fst (run x0 ops1)) in *. set (a1 := a_run None ops1 (snd (run x0 ops1))) in *.
  pose proof (arm_krel_td c crit e off t0 Hcfg (0 + length ops1) x1 a1 k R1 O1) as K2. rewrite W1 in K2.
  set (x2 := fst (step x1 (OSetKill k))) in *.
  split.
  - destruct (krun_td c crit e off t0 hi Hcfg Hcap T Y ops2 _ _ x2 a1 K2 Hb2 Htk2 ltac:(unfold hi; lia) ltac:(lia))
      as [[a' [K' [F' [Ak Sr]]]] | [d [D [F' Sh]]]].
    + destruct (crash_alive_td c crit e off t0 Hcap _ _ _ a' K') as [d [Id [Fd [Fi Wd]]]]. exists d.
      split; [exact Id|]. split; [rewrite Fd, F', F1; reflexivity|]. split; [exact Wd|].
      intros m Hm. exists (length ops2). rewrite firstn_all. split; [exact Ak|]. left.
      rewrite Fi, (Sr m Hm), s_run_app. rewrite (proj1 (Z1 m Hm)). reflexivity.
    + destruct (crash_dead_td c e off t0 _ _ _ d D) as [Id Wd]. exists d.
      split; [exact Id|]. split; [rewrite F', F1; reflexivity|]. split; [exact Wd|].
      intros m Hm. destruct (Sh m Hm) as [j [Aj Nj]]. exists j. split; [exact Aj|].
      rewrite s_run_app. rewrite (proj1 (Z1 m Hm)) in Nj. exact Nj.
  - exact (acked_prefix_ktd c crit e off t0 hi Hcfg Hcap T Y ops2 _ _ x2 a1 K2 Hb2 Htk2 ltac:(unfold hi; lia) ltac:(lia)).
Qed.

(* After any history  OStart c :: ops1 ++ [OSetKill k] ++ ops2 ++ [OCrash]  from the empty directory (TimestampsDirect naming,
   no cleanup, direct mode; ops1, ops2 any basic operations, the clock never goes back; any kill point k) the directory consists
   exactly of the plain files named by keys (second of the start, position within the second; files = [] stands for the empty
   directory, tsd_view_nil), and they hold, in the order of their creation, exactly the acknowledged records: the payloads
   written by ops1 and those written by the operations of ops2 after which the process was still alive.  Nothing is lost, nothing
   else is there (in the model a write effect is atomic: the record whose write was killed is not in the file).
   keys_ok keys: the directory is one that a writer that was stopped could have left (pairwise distinct names, increasing in the
   order of creation) - a kill does not produce a new kind of directory.  The newest file may be EMPTY: a kill between the
   creation of a file (first write, rotation in a write) and the first write into it leaves the new, empty file; when the kill hit
   the creation itself, the file is not there (tsdk_kill_points_dirs, tsdk_kill_in_rotating_write, tsdk_kill_in_first_write). *)
Theorem timestampsdirect_kill_keeps_acked c crit t0 off ops1 k ops2 :
  tsdcfg c crit -> tag_ok c -> c_cap c = None ->
  Forall basic_op ops1 -> Forall basic_op ops2 -> Forall tick_ok ops1 -> Forall tick_ok ops2 ->
  let e := ts_e c off in
  (0 <= t0 + e)%Z -> (t0 + elapsed ops1 + elapsed ops2 + e < sec_max)%Z ->
  (N.of_nat (length ops1 + length ops2) <= usize_max)%N ->
  let x1 := fst (run (sys0 t0 off) (OStart c :: ops1 ++ [OSetKill k])) in
  let xe := fst (run (sys0 t0 off) (OStart c :: ops1 ++ [OSetKill k] ++ ops2 ++ [OCrash])) in
  exists keys files,
    tsd_view c e (wfs (s_w xe)) keys files
    /\ keys_ok keys
    /\ (forall key, In key keys -> (t0 <= fst key <= t0 + elapsed ops1 + elapsed ops2)%Z)
    /\ concat files = written ops1 ++ acked x1 ops2.
Proof.
  intros Hcfg T Hcap Hb1 Hb2 Htk1 Htk2 e Hlo Hhi Hmax x1 xe.
  destruct (kill_history_td c crit t0 off ops1 k ops2 Hcfg Hcap T Hb1 Hb2 Htk1 Htk2 Hlo Hhi Hmax) as [[d [Id [F [W _]]]] _].
  fold xe in Id, W. fold x1 in F. fold e in Id.
  destruct (idleTd_view (c_spec c) c e off t0 _ xe d eq_refl Id) as [V [C [K Rg]]].
  exists (keysD d), (filesD d). split; [exact (V c eq_refl)|]. split; [exact K|].
  split; [intros key Ik; specialize (Rg key Ik); rewrite W in Rg; exact Rg|]. rewrite C. exact F.
Qed.
Print Assumptions timestampsdirect_kill_keeps_acked.

(* what is acknowledged is what a prefix of ops2 wrote *)
Theorem acked_is_prefix_tsd c crit t0 off ops1 k ops2 :
  tsdcfg c crit -> tag_ok c -> c_cap c = None ->
  Forall basic_op ops1 -> Forall basic_op ops2 -> Forall tick_ok ops1 -> Forall tick_ok ops2 ->
  (0 <= t0 + ts_e c off)%Z -> (t0 + elapsed ops1 + elapsed ops2 + ts_e c off < sec_max)%Z ->
  (N.of_nat (length ops1 + length ops2) <= usize_max)%N ->
  exists j, acked (fst (run (sys0 t0 off) (OStart c :: ops1 ++ [OSetKill k]))) ops2 = written (firstn j ops2).
Proof.
  intros Hcfg T Hcap Hb1 Hb2 Htk1 Htk2 Hlo Hhi Hmax.
  exact (proj2 (kill_history_td c crit t0 off ops1 k ops2 Hcfg Hcap T Hb1 Hb2 Htk1 Htk2 Hlo Hhi Hmax)).
Qed.
Print Assumptions acked_is_prefix_tsd.

(* The SHAPE of what a kill leaves, for a size criterion.  j operations of ops2 were acknowledged.  The contents of the files, in
   the order of their creation, are the files of the size run (NumRun.s_run, the greedy partition of C08) of the acknowledged
   history ops1 ++ firstn j ops2 - or these files and ONE MORE, EMPTY, newest file: the kill between the creation of a file (in the
   first write, or in a write that rotates) and the write into it.  A kill at the creation itself, at a write that does not
   rotate, or in a trigger (whose only effect is the creation) leaves the files of the acknowledged history and nothing else. *)
Theorem timestampsdirect_kill_shape c m t0 off ops1 k ops2 :
  tsdcfg c (CSize m) -> tag_ok c -> c_cap c = None ->
  Forall basic_op ops1 -> Forall basic_op ops2 -> Forall tick_ok ops1 -> Forall tick_ok ops2 ->
  let e := ts_e c off in
  (0 <= t0 + e)%Z -> (t0 + elapsed ops1 + elapsed ops2 + e < sec_max)%Z ->
  (N.of_nat (length ops1 + length ops2) <= usize_max)%N ->
  let x1 := fst (run (sys0 t0 off) (OStart c :: ops1 ++ [OSetKill k])) in
  let xe := fst (run (sys0 t0 off) (OStart c :: ops1 ++ [OSetKill k] ++ ops2 ++ [OCrash])) in
  exists j keys files,
    acked x1 ops2 = written (firstn j ops2)
    /\ tsd_view c e (wfs (s_w xe)) keys files /\ keys_ok keys
    /\ (files = files_of (s_run m None (ops1 ++ firstn j ops2))
        \/ files = files_of (s_run m None (ops1 ++ firstn j ops2)) ++ [[]]).
Proof.
  intros Hcfg T Hcap Hb1 Hb2 Htk1 Htk2 e Hlo Hhi Hmax x1 xe.
  destruct (kill_history_td c (CSize m) t0 off ops1 k ops2 Hcfg Hcap T Hb1 Hb2 Htk1 Htk2 Hlo Hhi Hmax) as [[d [Id [_ [_ Sh]]]] _].
  fold xe in Id. fold x1 in Sh. fold e in Id.
  destruct (Sh m eq_refl) as [j [Aj Nj]].
  destruct (idleTd_view (c_spec c) c e off t0 _ xe d eq_refl Id) as [V [_ [K _]]].
  exists j, (keysD d), (filesD d). split; [exact Aj|]. split; [exact (V c eq_refl)|]. split; [exact K | exact Nj].
Qed.
Print Assumptions timestampsdirect_kill_shape.

Lemma elapsed_firstn_le : forall l j, Forall tick_ok l -> (0 <= elapsed (firstn j l) <= elapsed l)%Z.
Proof.
  induction l as [|o r IH]; intros j H; [destruct j; cbn; lia|]. inversion H as [|o' r' Ho Hr]; subst.
  pose proof (elapsed_nonneg r Hr) as Er. assert (Hdt : (0 <= dt_of o)%Z) by (destruct o; cbn [dt_of tick_ok] in *; lia).
  destruct j as [|j]; cbn [firstn elapsed]; [lia|]. specialize (IH j Hr). lia.
Qed.

(* ... in other words: compared with the writer that performs the acknowledged operations only and is stopped (not killed), the
   killed writer leaves the same file contents in the same order, or these and one more, empty, newest file *)
Theorem timestampsdirect_kill_vs_stopped c m t0 off ops1 k ops2 :
  tsdcfg c (CSize m) -> tag_ok c -> c_cap c = None ->
  Forall basic_op ops1 -> Forall basic_op ops2 -> Forall tick_ok ops1 -> Forall tick_ok ops2 ->
  let e := ts_e c off in
  (0 <= t0 + e)%Z -> (t0 + elapsed ops1 + elapsed ops2 + e < sec_max)%Z ->
  (N.of_nat (length ops1 + length ops2) <= usize_max)%N ->
  let x1 := fst (run (sys0 t0 off) (OStart c :: ops1 ++ [OSetKill k])) in
  let xe := fst (run (sys0 t0 off) (OStart c :: ops1 ++ [OSetKill k] ++ ops2 ++ [OCrash])) in
  exists j keys files keys0 files0,
    acked x1 ops2 = written (firstn j ops2)
    /\ tsd_view c e (wfs (s_w xe)) keys files
    /\ tsd_view c e (wfs (s_w (fst (run (sys0 t0 off) (OStart c :: (ops1 ++ firstn j ops2) ++ [OStop]))))) keys0 files0
    /\ (files = files0 \/ files = files0 ++ [[]]).
Proof.
  intros Hcfg T Hcap Hb1 Hb2 Htk1 Htk2 e Hlo Hhi Hmax x1 xe.
  destruct (timestampsdirect_kill_shape c m t0 off ops1 k ops2 Hcfg T Hcap Hb1 Hb2 Htk1 Htk2 Hlo Hhi Hmax) as [j [keys [files [Aj [V [_ Sh]]]]]].
  fold x1 in Aj. fold xe in V. fold e in V.
  set (ops := ops1 ++ firstn j ops2) in *.
  assert (Hb : Forall basic_op ops) by (apply Forall_app; split; [exact Hb1 | apply firstn_Forall; exact Hb2]).
  assert (Htk : Forall tick_ok ops) by (apply Forall_app; split; [exact Htk1 | apply firstn_Forall; exact Htk2]).
  pose proof (elapsed_firstn_le ops2 j Htk2) as Ej.
  assert (El : (elapsed ops = elapsed ops1 + elapsed (firstn j ops2))%Z) by (unfold ops; apply elapsed_app).
  assert (Ll : length ops <= length ops1 + length ops2).
  { unfold ops. rewrite app_length, firstn_length. lia. }
  destruct (run_view_tsd c (CSize m) t0 off ops Hcfg T Hb Htk Hlo ltac:(fold e; lia) ltac:(lia)) as [x0 [ob0 [_ [[keys0 [V0 _]] [_ Z]]]]].
  cbv zeta in V0, Z. destruct (Z m eq_refl) as [Hs _]. rewrite Hs in V0.
  exists j, keys, files, keys0, (files_of (s_run m None ops)). split; [exact Aj|]. split; [exact V|]. split; [exact V0 | exact Sh].
Qed.
Print Assumptions timestampsdirect_kill_vs_stopped.

(* ------------------------------------------------------------------ examples (non-vacuity): every kill point of a small history *)
Open Scope string_scope.
(* direct mode, size criterion 3 *)
Definition tsdk_cfg (app : bool) : config := tsd_cfg (ex_sp "log") app (CSize 3) None false.
Definition tsdk_ops1 : list op := [OWrite (bs "abcd"); OWrite (bs "ef")].
Definition tsdk_ops2 : list op := [OTrigger; OWrite (bs "gh"); OTick 1; OSnap; OWrite (bs "ijkl"); OWrite (bs "m")].
Definition tsdk_hist (app : bool) (k : nat) : list op := OStart (tsdk_cfg app) :: tsdk_ops1 ++ [OSetKill k] ++ tsdk_ops2 ++ [OCrash].
Definition tsdk_armed (app : bool) (k : nat) : sys := fst (run (sys0 0 0) (OStart (tsdk_cfg app) :: tsdk_ops1 ++ [OSetKill k])).

Lemma tsdk_cfg_ok app : tsdcfg (tsdk_cfg app) (CSize 3).
Proof. apply tsd_cfg_ok. reflexivity. Qed.
Lemma tsdk_tag_ok app : tag_ok (tsdk_cfg app).
Proof. apply tag_free_ok. split; vm_compute; reflexivity. Qed.
Lemma tsdk_basic1 : Forall basic_op tsdk_ops1.
Proof. repeat constructor. Qed.
Lemma tsdk_basic2 : Forall basic_op tsdk_ops2.
Proof. repeat constructor. Qed.
Lemma tsdk_ticks1 : Forall tick_ok tsdk_ops1.
Proof. repeat constructor. Qed.
Lemma tsdk_ticks2 : Forall tick_ok tsdk_ops2.
Proof. repeat (apply Forall_cons; [cbn [tick_ok]; first [exact Logic.I | lia]|]); apply Forall_nil. Qed.

(* the kill points of this history (the listings of the collision-free infix are no effects):
   0 - the creation of <00>.restart-0001 (the trigger) is the kill point: nothing changes, nothing further is acknowledged;
   1 - the rotation is completed (acknowledged, it writes nothing), the write of "gh" is the kill point: the new file is there, EMPTY;
   2 - "gh" is written, the write of "ijkl" is the kill point;
   3 - "ijkl" is written; the write of "m" rotates (6 > 3), the creation of <01> - the clock has advanced - is the kill point;
   4 - <01> is created, the write of "m" is the kill point: <01> is there, EMPTY;  5 - everything happens *)
Example tsdk_kill_points_dirs :
  List.map (fun k => snap_of (fst (run (sys0 0 0) (tsdk_hist false k)))) [0; 1; 2; 3; 4; 5]
  = [ [ (bs "app_r1970-01-01_00-00-00.log", 0%N, bs "abcd"); (bs "app_r1970-01-01_00-00-00.restart-0000.log", 0%N, bs "ef") ];
      [ (bs "app_r1970-01-01_00-00-00.log", 0%N, bs "abcd"); (bs "app_r1970-01-01_00-00-00.restart-0000.log", 0%N, bs "ef");
        (bs "app_r1970-01-01_00-00-00.restart-0001.log", 0%N, []) ];
      [ (bs "app_r1970-01-01_00-00-00.log", 0%N, bs "abcd"); (bs "app_r1970-01-01_00-00-00.restart-0000.log", 0%N, bs "ef");
        (bs "app_r1970-01-01_00-00-00.restart-0001.log", 0%N, bs "gh") ];
      [ (bs "app_r1970-01-01_00-00-00.log", 0%N, bs "abcd"); (bs "app_r1970-01-01_00-00-00.restart-0000.log", 0%N, bs "ef");
        (bs "app_r1970-01-01_00-00-00.restart-0001.log", 0%N, bs "ghijkl") ];
      [ (bs "app_r1970-01-01_00-00-00.log", 0%N, bs "abcd"); (bs "app_r1970-01-01_00-00-00.restart-0000.log", 0%N, bs "ef");
        (bs "app_r1970-01-01_00-00-00.restart-0001.log", 0%N, bs "ghijkl"); (bs "app_r1970-01-01_00-00-01.log", 0%N, []) ];
      [ (bs "app_r1970-01-01_00-00-00.log", 0%N, bs "abcd"); (bs "app_r1970-01-01_00-00-00.restart-0000.log", 0%N, bs "ef");
        (bs "app_r1970-01-01_00-00-00.restart-0001.log", 0%N, bs "ghijkl"); (bs "app_r1970-01-01_00-00-01.log", 0%N, bs "m") ] ]
  /\ List.map (fun k => acked (tsdk_armed false k) tsdk_ops2) [0; 1; 2; 3; 4; 5]
     = [ []; []; bs "gh"; bs "ghijkl"; bs "ghijkl"; bs "ghijklm" ]
  (* the append flag makes no difference for the killed writer *)
  /\ List.map (fun k => snap_of (fst (run (sys0 0 0) (tsdk_hist true k)))) [0; 1; 2; 3; 4; 5]
     = List.map (fun k => snap_of (fst (run (sys0 0 0) (tsdk_hist false k)))) [0; 1; 2; 3; 4; 5].
Proof. vm_compute. repeat split; reflexivity. Qed.

(* kill point 1: alive after the trigger, dead in the write of "gh" and ever after (the clock goes on) *)
Example tsdk_kill_alive :
  List.map (fun j => alive (s_w (fst (run (tsdk_armed false 1) (firstn j tsdk_ops2))))) [0; 1; 2; 3; 4; 5; 6]
  = [true; true; false; false; false; false; false]
  /\ wnow (s_w (fst (run (sys0 0 0) (tsdk_hist false 1)))) = 1%Z.
Proof. vm_compute. split; reflexivity. Qed.

Example tsdk_kill_instance :
  exists keys files,
    tsd_view (tsdk_cfg false) 0 (wfs (s_w (fst (run (sys0 0 0) (tsdk_hist false 4))))) keys files /\ keys_ok keys
    /\ concat files = bs "abcdefghijkl".
Proof.
  destruct (timestampsdirect_kill_keeps_acked (tsdk_cfg false) (CSize 3) 0 0 tsdk_ops1 4 tsdk_ops2 (tsdk_cfg_ok false) (tsdk_tag_ok false)
              eq_refl tsdk_basic1 tsdk_basic2 tsdk_ticks1 tsdk_ticks2) as [keys [files [V [K [_ E]]]]];
    [change (0 <= 0)%Z; lia | change (1 + 0 < sec_max)%Z; unfold sec_max; lia | vm_compute; discriminate |].
  exists keys, files. split; [exact V|]. split; [exact K|]. rewrite E. vm_compute. reflexivity.
Qed.

(* the shape at kill point 4: two operations more than at kill point 0 ... the acknowledged history is ops1 ++ the first five
   operations of ops2; its size run has the files abcd | ef | ghijkl, and the directory has one more, empty, file *)
Example tsdk_shape_instance :
  exists j keys files,
    acked (tsdk_armed false 4) tsdk_ops2 = written (firstn j tsdk_ops2)
    /\ tsd_view (tsdk_cfg false) 0 (wfs (s_w (fst (run (sys0 0 0) (tsdk_hist false 4))))) keys files /\ keys_ok keys
    /\ (files = files_of (s_run 3 None (tsdk_ops1 ++ firstn j tsdk_ops2))
        \/ files = files_of (s_run 3 None (tsdk_ops1 ++ firstn j tsdk_ops2)) ++ [[]]).
Proof.
  apply (timestampsdirect_kill_shape (tsdk_cfg false) 3 0 0 tsdk_ops1 4 tsdk_ops2 (tsdk_cfg_ok false) (tsdk_tag_ok false)
              eq_refl tsdk_basic1 tsdk_basic2 tsdk_ticks1 tsdk_ticks2);
    [change (0 <= 0)%Z; lia | change (1 + 0 < sec_max)%Z; unfold sec_max; lia | vm_compute; discriminate].
Qed.
Example tsdk_shape_computed :
  files_of (s_run 3 None (tsdk_ops1 ++ firstn 5 tsdk_ops2)) = [bs "abcd"; bs "ef"; bs "ghijkl"]
  /\ acked (tsdk_armed false 4) tsdk_ops2 = written (firstn 5 tsdk_ops2)
  /\ List.map (fun x : bytes * N * bytes => snd x) (snap_of (fst (run (sys0 0 0) (tsdk_hist false 4)))) = [bs "abcd"; bs "ef"; bs "ghijkl"; []].
Proof. vm_compute. repeat split; reflexivity. Qed.

(* a kill in the very first write: the creation of the first file is the kill point, the directory stays empty; one effect later
   the empty file is there *)
Example tsdk_kill_in_first_write :
  snap_of (fst (run (sys0 0 0) (OStart (tsdk_cfg true) :: [] ++ [OSetKill 0] ++ [OWrite (bs "a")] ++ [OCrash]))) = []
  /\ snap_of (fst (run (sys0 0 0) (OStart (tsdk_cfg true) :: [] ++ [OSetKill 1] ++ [OWrite (bs "a")] ++ [OCrash])))
     = [ (bs "app_r1970-01-01_00-00-00.log", 0%N, []) ]
  /\ snap_of (fst (run (sys0 0 0) (OStart (tsdk_cfg true) :: [] ++ [OSetKill 2] ++ [OWrite (bs "a")] ++ [OCrash])))
     = [ (bs "app_r1970-01-01_00-00-00.log", 0%N, bs "a") ].
Proof. vm_compute. repeat split; reflexivity. Qed.

Print Assumptions timestampsdirect_kill_keeps_acked.
Print Assumptions acked_is_prefix_tsd.
Print Assumptions timestampsdirect_kill_shape.
Print Assumptions timestampsdirect_kill_vs_stopped.
