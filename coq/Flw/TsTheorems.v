(* Timestamps naming: the stream theorem (C01) for whole runs from an empty directory. *)
Require Import FL.Base.Bytes FL.Base.BytesFacts FL.Base.PathName FL.Fs.Fs FL.Fs.FsFacts FL.Time.Civil FL.Time.TsFormat
  FL.Names.FileSpec FL.Names.NamesFacts FL.Names.SortFacts FL.Flw.Model FL.Flw.ModelFacts FL.Flw.NumFs FL.Flw.NumInv FL.Flw.Run
  FL.Flw.NumRun FL.Oracles.O_Flw FL.Flw.NumTheorems FL.Flw.NumListing FL.Flw.NumRestart
  FL.Flw.TsCal FL.Flw.TsTime FL.Flw.TsNames FL.Flw.TsInv FL.Flw.TsRun.
From Coq Require Import ZifyN ZifyNat ZifyBool.
Open Scope nat_scope.

(* the offset that enters the time-stamp texts of a run that starts with zone offset off *)
Definition ts_e (c : config) (off : Z) : Z := if c_utc c then 0%Z else off.

Lemma start_rel_ts c t0 off : RelT c (ts_e c off) t0 0 (fst (step (sys0 t0 off) (OStart c))) None.
Proof. cbn. repeat split. cbn. lia. Qed.

(* C01 for Timestamps naming: any criterion, buffer capacity, append flag, use_utc.
   After the writer is stopped the directory consists exactly of the closed files - named by their keys, in the order of
   their closing - and rCURRENT; their contents, in this order, are exactly the bytes written; the keys are those of
   keys_ok: seconds non-decreasing, within one second <ts>, <ts>.restart-0000, <ts>.restart-0001, ... *)
Theorem timestamps_stream c crit t0 off ops :
  tscfg c crit -> tag_ok c -> Forall basic_op ops -> Forall tick_ok ops ->
  (0 <= t0 + ts_e c off)%Z -> (t0 + elapsed ops + ts_e c off < sec_max)%Z -> (N.of_nat (length ops) <= usize_max)%N ->
  let f := wfs (s_w (fst (run (sys0 t0 off) (OStart c :: ops ++ [OStop])))) in
  (names f = [] /\ written ops = [])
  \/ exists keys closed cur,
       ts_view c (ts_e c off) f keys closed cur
       /\ concat closed ++ cur = written ops
       /\ keys_ok keys
       /\ (forall k, In k keys -> (t0 <= fst k <= t0 + elapsed ops)%Z).
Proof.
  intros Hcfg T Hb Htk Hlo Hhi Hmax. cbn [run]. destruct (step (sys0 t0 off) (OStart c)) as [x0 ob0] eqn:E0.
  pose proof (start_rel_ts c t0 off) as R0. rewrite E0 in R0. cbn [fst] in R0.
  assert (W0 : wnow (s_w x0) = t0) by (cbn in E0; injection E0 as <- _; reflexivity).
  assert (Y : years_ok (ts_e c off) t0 (t0 + elapsed ops)) by (split; assumption).
  rewrite run_app.
  pose proof (run_rel_ts c crit _ _ _ Hcfg T Y ops x0 None 0 R0 Hb Htk ltac:(lia) ltac:(cbn [Nat.add]; exact Hmax)) as [R1 W1].
  pose proof (run_length ops x0) as L.
  destruct (run x0 ops) as [x1 obs1]. cbn [fst snd] in *.
  pose proof (stop_rel_ts c crit _ _ _ x1 _ Hcfg R1) as S. cbn [run]. destruct (step x1 OStop) as [x2 ob2]. cbn [fst].
  pose proof (a_run_flat ops None obs1 Hb L) as F. cbn [flat app] in F.
  destruct (a_run None ops obs1) as [[cl cu]|].
  - right. destruct S as [keys [V [K Rg]]]. exists keys, cl, cu. split; [exact V|]. split; [exact F|]. split; [exact K|].
    intros k Ik. specialize (Rg k Ik). lia.
  - left. split; [exact S | symmetry; exact F].
Qed.
Print Assumptions timestamps_stream.

(* ------------------------------------------------------------------ what keys_ok says, spelled out *)
(* (a) the text of each infix *)
Lemma infix_of_text e t m :
  infix_of e (t, m) = format_ts std_fmt (civil_of (t + e))
                       ++ match m with O => [] | S k => restart_tag ++ pad_left 4 48%N (dec (N.of_nat k)) end.
Proof. exact (infix_of_tail e (t, m)). Qed.

(* (b) strictly increasing in (second, position), (c) positions without gaps, (d) no name twice, none is rCURRENT's *)
Theorem keys_ok_order keys : keys_ok keys ->
  (forall i j, i < j < length keys ->
     let a := nth i keys kd in let b := nth j keys kd in (fst a < fst b)%Z \/ (fst a = fst b /\ snd a < snd b))
  /\ (forall i, i < length keys -> snd (nth i keys kd) = count (fst (nth i keys kd)) (firstn i keys)).
Proof. intros K. split; [exact (keys_sorted keys K) | exact (keys_position keys K)]. Qed.

Theorem ts_names_distinct c e lo hi keys : keys_ok keys -> years_ok e lo hi -> (forall k, In k keys -> (lo <= fst k <= hi)%Z) ->
  (forall i j, i < length keys -> j < length keys -> kname c e (nth i keys kd) = kname c e (nth j keys kd) -> i = j)
  /\ (forall i, i < length keys -> kname c e (nth i keys kd) <> cname c).
Proof.
  intros K Y Rg.
  assert (Yk : forall i, i < length keys -> in_years e (fst (nth i keys kd))).
  { intros i Hi. apply (years_in e lo hi _ Y). apply Rg, nth_In, Hi. }
  split.
  - intros i j Hi Hj E. apply kname_inj in E; [|apply Yk; assumption|apply Yk; assumption]. exact (keys_distinct keys K i j Hi Hj E).
  - intros i Hi. apply kname_not_cname, Yk, Hi.
Qed.

(* two special cases: all rotations within one second give the pure restart-counter sequence <ts>, <ts>.restart-0000,
   <ts>.restart-0001, ..; rotations in pairwise different seconds give no restart counter at all *)
Lemma count_all t l : (forall k, In k l -> fst k = t) -> count t l = length l.
Proof.
  intros H. unfold count. induction l as [|k l IH]; [reflexivity|]. cbn [filter].
  rewrite (H k (or_introl eq_refl)), Z.eqb_refl. cbn [length]. rewrite IH; [reflexivity|]. intros k' I. apply H. right. exact I.
Qed.
Lemma count_none t l : (forall k, In k l -> fst k <> t) -> count t l = 0.
Proof.
  intros H. unfold count. induction l as [|k l IH]; [reflexivity|]. cbn [filter].
  destruct (Z.eqb_spec (fst k) t) as [E|_]; [exfalso; exact (H k (or_introl eq_refl) E)|]. apply IH. intros k' I. apply H. right. exact I.
Qed.

Lemma in_firstn' {A} (l : list A) : forall n x, In x (firstn n l) -> In x l.
Proof. induction l as [|y l IH]; intros [|n] x H; cbn [firstn] in H; try destruct H; [left; assumption | right; eapply IH; eassumption]. Qed.
Lemma nth_firstn' {A} (l : list A) d : forall i j, j < i -> nth j (firstn i l) d = nth j l d.
Proof. induction l as [|y l IH]; intros [|i] [|j] H; cbn [firstn nth]; try reflexivity; try lia. apply IH. lia. Qed.

Corollary keys_one_second keys t : keys_ok keys -> (forall k, In k keys -> fst k = t) ->
  forall i, i < length keys -> nth i keys kd = (t, i).
Proof.
  intros K H i Hi. pose proof (keys_position keys K i Hi) as P.
  assert (Ei : fst (nth i keys kd) = t) by (apply H, nth_In, Hi).
  rewrite Ei, count_all in P by (intros k Ik; apply H; exact (in_firstn' _ _ _ Ik)).
  rewrite firstn_length, Nat.min_l in P by lia. destruct (nth i keys kd) as [a b]. cbn [fst snd] in *. subst. reflexivity.
Qed.

Corollary keys_different_seconds keys : keys_ok keys ->
  (forall i j, i < j < length keys -> fst (nth i keys kd) <> fst (nth j keys kd)) ->
  forall i, i < length keys -> snd (nth i keys kd) = 0.
Proof.
  intros K H i Hi. rewrite (keys_position keys K i Hi). apply count_none. intros k Ik.
  destruct (In_nth _ _ kd Ik) as [j [Hj Ej]]. rewrite firstn_length in Hj.
  rewrite <- Ej. rewrite (nth_firstn' keys kd i j) by lia. intros E. apply (H j i); [lia | exact E].
Qed.

(* without clock ticks every closed file carries the second of the start: the i-th closed file is <t0> for i = 0 and
   <t0>.restart-(i-1) otherwise *)
Corollary timestamps_stream_no_tick c crit t0 off ops :
  tscfg c crit -> tag_ok c -> Forall basic_op ops -> Forall (fun o => forall dt, o <> OTick dt) ops ->
  (0 <= t0 + ts_e c off < sec_max)%Z -> (N.of_nat (length ops) <= usize_max)%N ->
  let f := wfs (s_w (fst (run (sys0 t0 off) (OStart c :: ops ++ [OStop])))) in
  (names f = [] /\ written ops = [])
  \/ exists keys closed cur,
       ts_view c (ts_e c off) f keys closed cur /\ concat closed ++ cur = written ops
       /\ forall i, i < length keys -> nth i keys kd = (t0, i).
Proof.
  intros Hcfg T Hb Hnt Hr Hmax f.
  assert (Htk : Forall tick_ok ops /\ elapsed ops = 0%Z).
  { clear -Hnt. induction Hnt as [|o r Ho _ [IH1 IH2]]; [split; [constructor | reflexivity]|].
    destruct o; try (split; [constructor; [exact Logic.I | exact IH1] | cbn [elapsed dt_of]; lia]).
    exfalso. exact (Ho dt eq_refl). }
  destruct Htk as [Htk El].
  destruct (timestamps_stream c crit t0 off ops Hcfg T Hb Htk ltac:(lia) ltac:(lia) Hmax) as [H|[keys [cl [cu [V [F [K Rg]]]]]]]; [left; exact H | right].
  exists keys, cl, cu. split; [exact V|]. split; [exact F|]. apply keys_one_second; [exact K|]. intros k Ik. specialize (Rg k Ik). lia.
Qed.

Print Assumptions timestamps_stream_no_tick.

(* ------------------------------------------------------------------ the same with a list of (infix, content) pairs *)
Definition dir_exactly (c : config) (f : fs) (closed : list (bytes * bytes)) (cur : bytes) : Prop :=
  (forall i infix d, nth_error closed i = Some (infix, d) ->
     exists j, lookup f (nm c infix) = Some j /\ plain (inode f j) /\ content f j = d)
  /\ (exists j, lookup f (cname c) = Some j /\ plain (inode f j) /\ content f j = cur)
  /\ (forall n j, lookup f n = Some j -> n = cname c \/ exists i infix d, nth_error closed i = Some (infix, d) /\ n = nm c infix).

Lemma nth_error_combine_map {A} (g : A -> bytes) (da : A) : forall (ks : list A) (cl : list bytes) i, length ks = length cl ->
  (forall x d, nth_error (combine (List.map g ks) cl) i = Some (x, d) -> i < length cl /\ x = g (nth i ks da) /\ d = nth i cl [])
  /\ (i < length cl -> nth_error (combine (List.map g ks) cl) i = Some (g (nth i ks da), nth i cl [])).
Proof.
  induction ks as [|k ks IH]; intros [|d0 cl] i Hl; try discriminate.
  - split; [intros x d H; destruct i; discriminate | cbn; lia].
  - injection Hl as Hl. destruct i as [|i]; cbn [List.map combine nth_error nth length].
    + split; [intros x d H; injection H as <- <-; repeat split; lia | reflexivity].
    + destruct (IH cl i Hl) as [H1 H2]. split; [intros x d H; destruct (H1 x d H) as [? [? ?]]; repeat split; (lia || assumption) | intros H; apply H2; lia].
Qed.

Theorem timestamps_stream_pairs c crit t0 off ops :
  tscfg c crit -> tag_ok c -> Forall basic_op ops -> Forall tick_ok ops ->
  (0 <= t0 + ts_e c off)%Z -> (t0 + elapsed ops + ts_e c off < sec_max)%Z -> (N.of_nat (length ops) <= usize_max)%N ->
  let f := wfs (s_w (fst (run (sys0 t0 off) (OStart c :: ops ++ [OStop])))) in
  (names f = [] /\ written ops = [])
  \/ exists (closed : list (bytes * bytes)) (cur : bytes),
       (* 1 *) dir_exactly c f closed cur
       (* 2 *) /\ concat (List.map snd closed) ++ cur = written ops
       (* 3 *) /\ (forall i j x d x' d', nth_error closed i = Some (x, d) -> nth_error closed j = Some (x', d') -> x = x' -> i = j)
               /\ (forall i x d, nth_error closed i = Some (x, d) -> x <> cur_infix)
               /\ exists keys, List.map fst closed = List.map (infix_of (ts_e c off)) keys /\ keys_ok keys
                               /\ (forall k, In k keys -> (t0 <= fst k <= t0 + elapsed ops)%Z).
Proof.
  intros Hcfg T Hb Htk Hlo Hhi Hmax f.
  destruct (timestamps_stream c crit t0 off ops Hcfg T Hb Htk Hlo Hhi Hmax) as [H|[keys [cl [cu [V [F [K Rg]]]]]]]; [left; exact H | right].
  fold f in V. destruct V as [Hlen [Hcl [Hcur [Hon Hnd]]]].
  set (e := ts_e c off) in *.
  assert (Y : years_ok e t0 (t0 + elapsed ops)) by (split; assumption).
  pose proof (fun i => nth_error_combine_map (infix_of e) kd keys cl i Hlen) as NC.
  exists (combine (List.map (infix_of e) keys) cl), cu.
  assert (Yi : forall i, i < length cl -> in_years e (fst (nth i keys kd))).
  { intros i Hi. apply (years_in e _ _ _ Y). apply Rg, nth_In. lia. }
  split; [|split; [|split; [|split]]].
  - split; [|split; [exact Hcur|]].
    + intros i x d H. destruct (proj1 (NC i) x d H) as [Hi [-> ->]]. exact (Hcl i Hi).
    + intros n j L. destruct (Hon n j L) as [->|[i [Hi ->]]]; [left; reflexivity | right].
      exists i, (infix_of e (nth i keys kd)), (nth i cl []). split; [apply (proj2 (NC i) Hi) | reflexivity].
  - assert (E : List.map snd (combine (List.map (infix_of e) keys) cl) = cl).
    { clear -Hlen. revert cl Hlen. induction keys as [|k ks IH]; intros [|d cl] Hl; try discriminate; [reflexivity|].
      cbn [List.map combine snd]. f_equal. apply IH. injection Hl as Hl. exact Hl. }
    rewrite E. exact F.
  - intros i j x d x' d' Hi Hj Ex. destruct (proj1 (NC i) x d Hi) as [Li [-> _]]. destruct (proj1 (NC j) x' d' Hj) as [Lj [-> _]].
    apply infix_of_inj in Ex; [|apply Yi; assumption|apply Yi; assumption]. apply (keys_distinct keys K); (lia || assumption).
  - intros i x d Hi. destruct (proj1 (NC i) x d Hi) as [Li [-> _]]. apply infix_of_not_cur, Yi, Li.
  - exists keys. split; [|split; assumption].
    clear -Hlen. revert cl Hlen. induction keys as [|k ks IH]; intros [|d cl] Hl; try discriminate; [reflexivity|].
    cbn [List.map combine fst]. f_equal. apply IH. injection Hl as Hl. exact Hl.
Qed.
Print Assumptions timestamps_stream_pairs.

(* ------------------------------------------------------------------ examples *)
Import String.StringSyntax.
Open Scope string_scope.
Definition ext_cfg (sp : file_spec) (app : bool) (crit : criterion) (cap : option nat) (utc : bool) : config :=
  {| c_spec := sp; c_append := app; c_cap := cap; c_rot := Some (crit, NTimestamps, KNever); c_utc := utc;
     c_symlink := false; c_bg := false; c_async := false; c_start := None |}.

Lemma ext_cfg_ok sp app crit cap utc : fts sp = false -> tscfg (ext_cfg sp app crit cap utc) crit.
Proof. intros H. repeat split. exact H. Qed.

(* three rotations within one second, then the clock advances, two more rotations: the fourth closed file still carries
   the second of its creation (restart-0002), the fifth the new second *)
Definition ext_ops : list op :=
  [OWrite (bs "a"); OTrigger; OWrite (bs "b"); OTrigger; OWrite (bs "c"); OTrigger; OWrite (bs "d"); OTick 1; OTrigger;
   OWrite (bs "e"); OFlush; OTrigger; OPlain (bs "f"); OSnap].
Definition ext_c : config := ext_cfg (ex_sp "log") false (CSize 100) (Some 3%nat) false.

Example ts_instance_dir :
  snap_of (fst (run (sys0 0 0) (OStart ext_c :: ext_ops ++ [OStop])))
  = [ (bs "app_r1970-01-01_00-00-00.log", 0%N, bs "a");
      (bs "app_r1970-01-01_00-00-00.restart-0000.log", 0%N, bs "b");
      (bs "app_r1970-01-01_00-00-00.restart-0001.log", 0%N, bs "c");
      (bs "app_r1970-01-01_00-00-00.restart-0002.log", 0%N, bs "d");
      (bs "app_r1970-01-01_00-00-01.log", 0%N, bs "e");
      (bs "app_rCURRENT.log", 0%N, bs "f") ].
Proof. vm_compute. reflexivity. Qed.

(* the hypotheses of the theorem can be met *)
Lemma ext_ops_basic : Forall basic_op ext_ops.
Proof. repeat constructor. Qed.
Lemma ext_ops_ticks : Forall tick_ok ext_ops.
Proof. repeat (apply Forall_cons; [cbn [tick_ok]; first [exact Logic.I | lia]|]). apply Forall_nil. Qed.
Lemma ext_c_ok : tscfg ext_c (CSize 100).
Proof. apply ext_cfg_ok. reflexivity. Qed.
Lemma ext_c_tag_free : tag_free ext_c.
Proof. split; vm_compute; reflexivity. Qed.
Lemma ext_c_tag_ok : tag_ok ext_c.
Proof. apply tag_free_ok, ext_c_tag_free. Qed.

Example ts_stream_instance :
  exists keys closed cur,
    ts_view ext_c 0 (wfs (s_w (fst (run (sys0 0 0) (OStart ext_c :: ext_ops ++ [OStop]))))) keys closed cur
    /\ concat closed ++ cur = bs "abcdef" /\ keys_ok keys /\ (forall k, In k keys -> (0 <= fst k <= 1)%Z).
Proof.
  destruct (timestamps_stream ext_c (CSize 100) 0 0 ext_ops ext_c_ok ext_c_tag_ok ext_ops_basic ext_ops_ticks)
    as [[_ H]|H]; [change (0 <= 0)%Z; lia | change (1 < sec_max)%Z; unfold sec_max; lia | vm_compute; discriminate | discriminate H | exact H].
Qed.

(* the keys of this history, as the invariant has them: (second, position) *)
Example ts_instance_keys :
  List.map (infix_of 0) [(0%Z, 0); (0%Z, 1); (0%Z, 2); (0%Z, 3); (1%Z, 0)]
  = [ bs "r1970-01-01_00-00-00"; bs "r1970-01-01_00-00-00.restart-0000"; bs "r1970-01-01_00-00-00.restart-0001";
      bs "r1970-01-01_00-00-00.restart-0002"; bs "r1970-01-01_00-00-01" ]
  /\ keys_ok [(0%Z, 0); (0%Z, 1); (0%Z, 2); (0%Z, 3); (1%Z, 0)].
Proof.
  split; [vm_compute; reflexivity|].
  apply (ko_snoc [(0%Z, 0); (0%Z, 1); (0%Z, 2); (0%Z, 3)] 1%Z); [|cbn; intros k H; repeat (destruct H as [<-|H]; [cbn; lia|]); destruct H].
  apply (ko_snoc [(0%Z, 0); (0%Z, 1); (0%Z, 2)] 0%Z); [|cbn; intros k H; repeat (destruct H as [<-|H]; [cbn; lia|]); destruct H].
  apply (ko_snoc [(0%Z, 0); (0%Z, 1)] 0%Z); [|cbn; intros k H; repeat (destruct H as [<-|H]; [cbn; lia|]); destruct H].
  apply (ko_snoc [(0%Z, 0)] 0%Z); [|cbn; intros k H; repeat (destruct H as [<-|H]; [cbn; lia|]); destruct H].
  apply (ko_snoc [] 0%Z); [constructor | intros k []].
Qed.

(* use_utc with a zone offset of two hours, a file spec without suffix and with a discriminant, an age criterion *)
Definition ext_sp2 : file_spec := {| fbase := bs "srv"; fdisc := Some (bs "a1"); fts := false; fsfx := None |}.
Definition ext_c2 (utc : bool) : config := ext_cfg ext_sp2 true (CAge ADay) None utc.
Definition ext_ops2 : list op := [OWrite (bs "x"); OTick 90000; OWrite (bs "y"); OWrite (bs "z")].
Example ts_age_dir_local :
  snap_of (fst (run (sys0 1700000000 7200) (OStart (ext_c2 false) :: ext_ops2 ++ [OStop])))
  = [ (bs "srv_a1_r2023-11-15_00-13-20", 0%N, bs "x"); (bs "srv_a1_rCURRENT", 0%N, bs "yz") ].
Proof. vm_compute. reflexivity. Qed.
Example ts_age_dir_utc :
  snap_of (fst (run (sys0 1700000000 7200) (OStart (ext_c2 true) :: ext_ops2 ++ [OStop])))
  = [ (bs "srv_a1_r2023-11-14_22-13-20", 0%N, bs "x"); (bs "srv_a1_rCURRENT", 0%N, bs "yz") ].
Proof. vm_compute. reflexivity. Qed.

(* ------------------------------------------------------------------ ".restart-" in the configured name parts *)
(* A basename that contains ".restart-7".  Before the repair collision_free_infix read the restart number at the FIRST
   ".restart-" of the whole file name - here always 7 -, so that the second rotation of a second produced <ts>.restart-0008 and
   the third one <ts>.restart-0008 again, the rename overwrote the file closed before, and of the contents a b c d e only a, d, e
   survived.  Now it looks for <ts> ++ ".restart-": the counters are 0000, 0001, 0002 and ALL of a, b, c, d, e are kept.  The
   configuration satisfies tag_ok (it is not tag_free), so this is an instance of the theorem. *)
Definition rst_ops : list op :=
  [OWrite (bs "a"); OTrigger; OWrite (bs "b"); OTrigger; OWrite (bs "c"); OTrigger; OWrite (bs "d"); OTick 1; OTrigger; OWrite (bs "e")].
Definition rst_sp1 : file_spec := {| fbase := bs "a.restart-7"; fdisc := None; fts := false; fsfx := Some (bs "log") |}.
Definition rst_c1 : config := ext_cfg rst_sp1 false (CSize 100) None false.

Lemma rst_c1_tag_ok : tag_ok rst_c1 /\ ~ tag_free rst_c1.
Proof.
  split.
  - split; [apply short_no_stamp_tag; vm_compute; lia|]. split; [apply short_no_stamp_tag; vm_compute; lia | vm_compute; reflexivity].
  - intros [H _]. vm_compute in H. discriminate.
Qed.

Example tag_in_basename_keeps_files :
  snap_of (fst (run (sys0 0 0) (OStart rst_c1 :: rst_ops ++ [OStop])))
  = [ (bs "a.restart-7_r1970-01-01_00-00-00.log", 0%N, bs "a");
      (bs "a.restart-7_r1970-01-01_00-00-00.restart-0000.log", 0%N, bs "b");
      (bs "a.restart-7_r1970-01-01_00-00-00.restart-0001.log", 0%N, bs "c");
      (bs "a.restart-7_r1970-01-01_00-00-00.restart-0002.log", 0%N, bs "d");
      (bs "a.restart-7_rCURRENT.log", 0%N, bs "e") ]
  /\ written rst_ops = bs "abcde"
  /\ tscfg rst_c1 (CSize 100).
Proof. split; [vm_compute; reflexivity|]. split; [vm_compute; reflexivity | apply ext_cfg_ok; reflexivity]. Qed.

Lemma rst_c1_ok : tscfg rst_c1 (CSize 100).
Proof. apply ext_cfg_ok. reflexivity. Qed.
Lemma rst_ops_basic : Forall basic_op rst_ops.
Proof. repeat constructor. Qed.
Lemma rst_ops_ticks : Forall tick_ok rst_ops.
Proof. repeat (apply Forall_cons; [cbn [tick_ok]; first [exact Logic.I | lia]|]). apply Forall_nil. Qed.

Example tag_in_basename_stream_instance :
  exists keys closed cur,
    ts_view rst_c1 0 (wfs (s_w (fst (run (sys0 0 0) (OStart rst_c1 :: rst_ops ++ [OStop]))))) keys closed cur
    /\ concat closed ++ cur = bs "abcde" /\ keys_ok keys /\ (forall k, In k keys -> (0 <= fst k <= 1)%Z).
Proof.
  destruct (timestamps_stream rst_c1 (CSize 100) 0 0 rst_ops rst_c1_ok (proj1 rst_c1_tag_ok) rst_ops_basic rst_ops_ticks)
    as [[_ H]|H]; [change (0 <= 0)%Z; lia | change (1 < sec_max)%Z; unfold sec_max; lia | vm_compute; discriminate | discriminate H | exact H].
Qed.

(* ------------------------------------------------------------------ the hypotheses are needed *)
(* (1) tag_ok, the suffix does not start with "restart-": with the suffix "restart-5" the name of the first file of a second,
   <ts>.restart-5, still reads like a restart sibling of <ts> with the counter 5 - it contains <ts> ++ ".restart-", and the
   digits that follow are taken for the counter.  Nothing is lost, but the counters start at 0006 instead of 0000, so the
   positions in keys_ok are not the ones of the names.  (The model mirrors file_spec.rs after the repair.) *)
Definition bad_sp2 : file_spec := {| fbase := bs "a"; fdisc := None; fts := false; fsfx := Some (bs "restart-5") |}.
Example tag_in_suffix_shifts_counters :
  snap_of (fst (run (sys0 0 0) (OStart (ext_cfg bad_sp2 false (CSize 100) None false) :: rst_ops ++ [OStop])))
  = [ (bs "a_r1970-01-01_00-00-00.restart-0006.restart-5", 0%N, bs "b");
      (bs "a_r1970-01-01_00-00-00.restart-0007.restart-5", 0%N, bs "c");
      (bs "a_r1970-01-01_00-00-00.restart-0008.restart-5", 0%N, bs "d");
      (bs "a_r1970-01-01_00-00-00.restart-5", 0%N, bs "a");
      (bs "a_rCURRENT.restart-5", 0%N, bs "e") ]
  /\ ~ tag_ok (ext_cfg bad_sp2 false (CSize 100) None false).
Proof. split; [vm_compute; reflexivity|]. intros [_ [_ H]]. vm_compute in H. discriminate. Qed.

(* a suffix that merely contains ".restart-" (not at its start, no time stamp in front of it) is harmless now *)
Definition rst_sp3 : file_spec := {| fbase := bs "a"; fdisc := None; fts := false; fsfx := Some (bs "x.restart-5") |}.
Example tag_inside_suffix_harmless :
  snap_of (fst (run (sys0 0 0) (OStart (ext_cfg rst_sp3 false (CSize 100) None false) :: rst_ops ++ [OStop])))
  = [ (bs "a_r1970-01-01_00-00-00.restart-0000.x.restart-5", 0%N, bs "b");
      (bs "a_r1970-01-01_00-00-00.restart-0001.x.restart-5", 0%N, bs "c");
      (bs "a_r1970-01-01_00-00-00.restart-0002.x.restart-5", 0%N, bs "d");
      (bs "a_r1970-01-01_00-00-00.x.restart-5", 0%N, bs "a");
      (bs "a_rCURRENT.x.restart-5", 0%N, bs "e") ]
  /\ tag_ok (ext_cfg rst_sp3 false (CSize 100) None false) /\ ~ tag_free (ext_cfg rst_sp3 false (CSize 100) None false).
Proof.
  split; [vm_compute; reflexivity|]. split.
  - split; [apply short_no_stamp_tag; vm_compute; lia|]. split; [apply short_no_stamp_tag; vm_compute; lia | vm_compute; reflexivity].
  - intros [_ H]. vm_compute in H. discriminate.
Qed.

(* (2) tick_ok: when the clock goes backwards the closing order is no longer the order of the time stamps: "b" is closed
   before "c" but carries the later second; nothing is lost *)
Definition back_ops : list op :=
  [OWrite (bs "a"); OTick 5; OTrigger; OWrite (bs "b"); OTick (-5); OTrigger; OWrite (bs "c"); OTrigger; OWrite (bs "d")].
Example clock_backwards_order :
  snap_of (fst (run (sys0 0 0) (OStart ext_c :: back_ops ++ [OStop])))
  = [ (bs "app_r1970-01-01_00-00-00.log", 0%N, bs "a");
      (bs "app_r1970-01-01_00-00-00.restart-0000.log", 0%N, bs "c");
      (bs "app_r1970-01-01_00-00-05.log", 0%N, bs "b");
      (bs "app_rCURRENT.log", 0%N, bs "d") ].
Proof. vm_compute. reflexivity. Qed.
