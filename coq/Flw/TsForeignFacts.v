(* Foreign files with the time-stamp namings (Timestamps, TimestampsDirect): the family test, and the embedding lemmas
   for what these namings list in the directory: collision_free_infix (two listings with the filter "the infix IS this
   time stamp" and two lookups: the new name and the name of its archive) and latest_timestamp_file (one listing with
   the time-stamp filter; before the repair of the code it was the number filter).  The lemmas hold for every world,
   faults and kills included.

   The family test (fam_q): the listing of the model extracts an infix from the name (infix_candidate: the name ends
   with the suffix asked for, starts with the fixed name part and "_"; a tail ".restart-NNNN" is cut off) and the infix
   passes the infix filter of these namings: the time-stamp filter IFTs std_fmt (chrono's parser reads it as
   r%Y-%m-%d_%H-%M-%S): cleanup, the queries and - since the repair of the code - latest_timestamp_file.  (Before the
   repair latest_timestamp_file listed with the number filter IFNum, which accepted "r", a digit and at least one more
   byte, and the family test had to be "the time-stamp filter OR the number filter": a file with a number infix like
   a_r00001.log or a_r1x.log was not foreign for these namings.  Now it is.)
   The other kind of listing, "the infix is the time stamp T" (collision_free_infix), accepts nothing that this filter
   rejects as long as T is the text of an instant of the years 1970..9999.
   tsd_member: the name passes the test as a plain file or as an archive, or it is the name of a plain member followed by
   ".gz" (collision_free_infix looks that name up; unless the suffix of the family is "gz" this is nothing new:
   tsd_member_simple). *)
Require Import FL.Base.Bytes FL.Base.BytesFacts FL.Base.PathName FL.Fs.Fs FL.Fs.FsFacts FL.Time.Civil FL.Time.TsFormat
  FL.Names.FileSpec FL.Names.NamesFacts FL.Names.SortFacts FL.Names.FamilyFacts
  FL.Flw.Model FL.Flw.ModelFacts FL.Flw.NumFs FL.Flw.NumInv FL.Flw.NumListing FL.Flw.CleanupFacts
  FL.Flw.Run FL.Flw.TsCal FL.Flw.TsTime FL.Flw.TsNames FL.Flw.TsInv FL.Flw.TsRun FL.Flw.TsParse
  FL.Flw.ForeignFs FL.Flw.ForeignSort FL.Flw.ForeignModel FL.Flw.ForeignGen.
From Coq Require Import ZifyN ZifyNat ZifyBool.
Open Scope nat_scope.

(* ------------------------------------------------------------------ the family test *)
Definition ts_like (i : bytes) : bool := filter_infix 0 (IFTs std_fmt) i.

Definition fam_q (c : config) (o : option bytes) (n : bytes) : bool :=
  match infix_candidate (fsfx (c_spec c)) o (fixed0 c) n with Some i => ts_like i | None => false end.

Definition tsd_member (c : config) (n : bytes) : bool :=
  fam_q c (fsfx (c_spec c)) n || fam_q c (Some gz_sfx) n
  || match strip_suffix dot_gz n with Some m => fam_q c (fsfx (c_spec c)) m | None => false end.

(* Timestamps naming: the current file is a member, too *)
Definition ts_member (c : config) (n : bytes) : bool := tsd_member c n || beq n (cname c).

Lemma fam_q_qf c o n off :
  fam_q c o n = qf off (fsfx (c_spec c)) (fixed0 c) (IFTs std_fmt) o n.
Proof. unfold fam_q, qf, ts_like. destruct (infix_candidate (fsfx (c_spec c)) o (fixed0 c) n); reflexivity. Qed.

Lemma ts_like_nonempty i : ts_like i = true -> i <> [].
Proof. intros H ->. vm_compute in H. discriminate. Qed.

(* the archive name of a plain member is listed among the archives, unless the suffix of the family is "gz" *)
Lemma fam_q_gz_name c n : fsfx (c_spec c) <> Some gz_sfx ->
  fam_q c (fsfx (c_spec c)) n = true -> fam_q c (Some gz_sfx) (n ++ dot_gz) = true.
Proof.
  intros Hs H. rewrite (fam_q_qf c _ _ 0%Z) in H. rewrite (fam_q_qf c _ _ 0%Z). rewrite <- gz_name_app.
  apply qf_plain_gz_name; assumption.
Qed.

Lemma tsd_member_simple c n : fsfx (c_spec c) <> Some gz_sfx ->
  tsd_member c n = fam_q c (fsfx (c_spec c)) n || fam_q c (Some gz_sfx) n.
Proof.
  intros Hs. unfold tsd_member. destruct (strip_suffix dot_gz n) as [m|] eqn:E; [|apply orb_false_r].
  apply strip_suffix_spec in E. subst n. destruct (fam_q c (fsfx (c_spec c)) m) eqn:Q; [|apply orb_false_r].
  rewrite (fam_q_gz_name c m Hs Q). rewrite !orb_true_r. reflexivity.
Qed.

(* the infix of an instant of the years 1970..9999 *)
Lemma tsx_like e t : in_years e t -> ts_like (tsx e t) = true.
Proof. intros H. unfold ts_like. cbn [filter_infix]. rewrite (canonical_tsx e t H). reflexivity. Qed.

Lemma restart_tag_word : restart_tag = dot :: restart_word.
Proof. reflexivity. Qed.

Lemma restart_part_digits k : restart_part (restart_tag ++ pad_left 4 48%N (dec k)).
Proof.
  right. exists (restart_digits k). split; [reflexivity|]. split; [apply restart_digits_length | apply restart_digits_all].
Qed.

(* what collision_free_infix answers: the infix, possibly with a restart counter *)
Lemma collision_free_infix_shape off sp fixed f infix i :
  collision_free_infix off sp fixed f infix = Some (Some i) -> exists rs, restart_part rs /\ i = infix ++ rs.
Proof.
  unfold collision_free_infix. rewrite !filter_files_total. cbv zeta.
  match goal with |- (if ?B then _ else _) = _ -> _ => destruct B end.
  - match goal with |- match ?M with _ => _ end = _ -> _ => destruct M as [k|] end.
    + destruct (k <? usize_max)%N; [|discriminate]. intros H. injection H as <-. eexists. split; [apply restart_part_digits | reflexivity].
    + intros H. injection H as <-. eexists. split; [apply restart_part_digits | reflexivity].
  - intros H. injection H as <-. exists []. split; [left; reflexivity | rewrite app_nil_r; reflexivity].
Qed.

Lemma collision_free_shape c w infix i w' :
  collision_free c w infix = (Ok i, w') -> exists rs, restart_part rs /\ i = infix ++ rs.
Proof.
  unfold collision_free. destruct (tick w) as [fl1 w1]. destruct fl1; [discriminate|].
  destruct (tick w1) as [fl2 w2]. destruct fl2; [discriminate|].
  destruct (collision_free_infix (woff w2) (c_spec c) (fixed_of c w2) (wfs w2) infix) as [[j|]|] eqn:E; try discriminate.
  intros H. injection H as <- _. eapply collision_free_infix_shape. exact E.
Qed.

(* the predecessor that a writer with append looks for *)
Lemma newest_of_next_shape infix next newest :
  newest_of_next infix next = Some newest -> exists rs, restart_part rs /\ newest = infix ++ rs.
Proof.
  unfold newest_of_next. destruct (strip_prefix (infix ++ restart_tag) next) as [digits|]; [|discriminate].
  destruct (parse_uint usize_max digits) as [k|]; [|discriminate]. destruct k as [|p].
  - intros H. injection H as <-. exists []. split; [left; reflexivity | rewrite app_nil_r; reflexivity].
  - intros H. injection H as <-. eexists. split; [apply restart_part_digits | reflexivity].
Qed.

Section TsF.
Variable fn : list (bytes * nat).
Variable fi : list file.
Variable c : config.
Hypothesis Hts : fts (c_spec c) = false.
Hypothesis Hforeign : forall n, In n (fnames fn) -> tsd_member c n = false.
Notation fnm := (fnames fn).
Notation embw := (embedw fn fi).
Notation emb := (embed fn fi).

Lemma foreign_q n : In n fnm ->
  fam_q c (fsfx (c_spec c)) n = false /\ fam_q c (Some gz_sfx) n = false
  /\ match strip_suffix dot_gz n with Some m => fam_q c (fsfx (c_spec c)) m | None => false end = false.
Proof. intros H. apply Hforeign in H. unfold tsd_member in H. rewrite !orb_false_iff in H. tauto. Qed.

(* a listing "the infix is T" rejects the foreign names *)
Lemma foreign_eq off infix o n : ts_like infix = true -> (o = fsfx (c_spec c) \/ o = Some gz_sfx) -> In n fnm ->
  qf off (fsfx (c_spec c)) (fixed0 c) (IFEq infix) o n = false.
Proof.
  intros Hl Ho Hn. destruct (foreign_q n Hn) as [Q1 [Q2 _]].
  assert (Q : fam_q c o n = false) by (destruct Ho as [->| ->]; assumption).
  unfold qf. unfold fam_q in Q. destruct (infix_candidate (fsfx (c_spec c)) o (fixed0 c) n) as [i|]; [|reflexivity].
  cbn [filter_infix]. destruct (beq_spec i infix) as [->|_]; [congruence | reflexivity].
Qed.

(* the time-stamp listing (latest_timestamp_file) rejects them *)
Lemma foreign_tsl off n : In n fnm -> qf off (fsfx (c_spec c)) (fixed0 c) (IFTs std_fmt) (fsfx (c_spec c)) n = false.
Proof.
  intros Hn. destruct (foreign_q n Hn) as [Q1 _]. rewrite (fam_q_qf c _ _ off) in Q1. exact Q1.
Qed.

(* the names that the writer builds from a time stamp are members *)
Lemma built_name_member infix rs : ts_like infix = true -> no_dot infix -> restart_part rs ->
  fam_q c (fsfx (c_spec c)) (nm c (infix ++ rs)) = true.
Proof.
  intros Hl Hd Hr. unfold fam_q. pose proof (ts_like_nonempty infix Hl) as Hne.
  rewrite (family_is_candidate (c_spec c) (fixed0 c) (nm c (infix ++ rs)) infix); [exact Hl|].
  apply family_plain_alt. exists rs. split; [exact Hr|]. split; [exact Hne|]. split; [exact Hd|].
  unfold nm. rewrite as_name_some by (intros E; apply app_eq_nil in E; destruct E as [E _]; exact (Hne E)).
  rewrite with_suffix_sfxs, <- !app_assoc. reflexivity.
Qed.

Lemma built_name_own infix rs : ts_like infix = true -> no_dot infix -> restart_part rs -> ~ In (nm c (infix ++ rs)) fnm.
Proof.
  intros Hl Hd Hr Hn. destruct (foreign_q _ Hn) as [Q _]. rewrite (built_name_member infix rs Hl Hd Hr) in Q. discriminate.
Qed.

Lemma built_name_gz_own infix rs : ts_like infix = true -> no_dot infix -> restart_part rs ->
  ~ In (nm c (infix ++ rs) ++ dot :: gz_sfx) fnm.
Proof.
  intros Hl Hd Hr Hn. destruct (foreign_q _ Hn) as [_ [_ Q]]. fold dot_gz in Q. rewrite strip_suffix_app in Q.
  rewrite (built_name_member infix rs Hl Hd Hr) in Q. discriminate.
Qed.

Lemma name_of_nm w i : name_of c w (Some i) = nm c i.
Proof. rewrite name_of_fixed by exact Hts. reflexivity. Qed.

(* the names of the files of a run: the time stamp of an instant, possibly with a counter *)
Lemma kname_own e k : in_years e (fst k) -> ~ In (kname c e k) fnm.
Proof.
  intros Y. unfold kname. rewrite infix_of_tail.
  apply built_name_own; [apply tsx_like; exact Y | exact (tsx_no_dot e _ Y) | apply ktail_restart_part].
Qed.

(* ------------------------------------------------------------------ collision_free_infix *)
Lemma collision_free_infix_embed off f infix : ts_like infix = true -> no_dot infix ->
  collision_free_infix off (c_spec c) (fixed0 c) (emb f) infix = collision_free_infix off (c_spec c) (fixed0 c) f infix.
Proof.
  intros Hl Hd. unfold collision_free_infix.
  rewrite !(filter_files_embed fn fi) by (intros n Hn; apply foreign_eq; auto).
  destruct (filter_files off (fsfx (c_spec c)) (fixed0 c) (related_files f (fsfx (c_spec c)) (fixed0 c)) (IFEq infix) (fsfx (c_spec c))) as [unc|]; [|reflexivity].
  destruct (filter_files off (fsfx (c_spec c)) (fixed0 c) (related_files f (fsfx (c_spec c)) (fixed0 c)) (IFEq infix) (Some gz_sfx)) as [cmp|]; [|reflexivity].
  cbv zeta.
  assert (O1 : ~ In (as_name (c_spec c) (fixed0 c) (Some infix)) fnm).
  { pose proof (built_name_own infix [] Hl Hd (or_introl eq_refl)) as X. rewrite app_nil_r in X. exact X. }
  assert (O2 : ~ In (as_name (c_spec c) (fixed0 c) (Some infix) ++ dot :: gz_sfx) fnm).
  { pose proof (built_name_gz_own infix [] Hl Hd (or_introl eq_refl)) as X. rewrite app_nil_r in X. exact X. }
  rewrite (lookup_is_some_embed fn fi f _ O1), (lookup_is_some_embed fn fi f _ O2). reflexivity.
Qed.

Lemma fixed_of_0 w : fixed_of c w = fixed0 c.
Proof. apply fixed_of_fixed0. exact Hts. Qed.

Lemma collision_free_embed w infix : ts_like infix = true -> no_dot infix ->
  collision_free c (embw w) infix = lw fn fi (collision_free c w infix).
Proof.
  intros Hl Hd. unfold collision_free. rewrite tick_embed. destruct (tick w) as [fl1 w1]. cbn [lw fst snd].
  destruct fl1; [reflexivity|]. rewrite tick_embed. destruct (tick w1) as [fl2 w2]. cbn [lw fst snd].
  destruct fl2; [reflexivity|]. rewrite !fixed_of_0. change (wfs (embw w2)) with (emb (wfs w2)). change (woff (embw w2)) with (woff w2).
  rewrite collision_free_infix_embed by assumption.
  destruct (collision_free_infix (woff w2) (c_spec c) (fixed0 c) (wfs w2) infix) as [[i|]|]; reflexivity.
Qed.

(* the name that is opened or that the current file is renamed to *)
Lemma collision_free_name_own w infix i w' : ts_like infix = true -> no_dot infix ->
  collision_free c w infix = (Ok i, w') -> forall w'', ~ In (name_of c w'' (Some i)) fnm.
Proof.
  intros Hl Hd E w''. destruct (collision_free_shape c w infix i w' E) as [rs [Hr ->]]. rewrite name_of_nm.
  apply built_name_own; assumption.
Qed.

(* the time stamp in the file names *)
Lemma infix_from_ts_embed w t : infix_from_ts c (embw w) std_fmt t = infix_from_ts c w std_fmt t.
Proof. reflexivity. Qed.

Lemma infix_ok w t : in_years (eoff c w) t ->
  ts_like (infix_from_ts c w std_fmt t) = true /\ no_dot (infix_from_ts c w std_fmt t).
Proof. intros Y. rewrite infix_from_ts_tsx. split; [apply tsx_like; exact Y | exact (tsx_no_dot _ _ Y)]. Qed.

(* ------------------------------------------------------------------ latest_timestamp_file *)
Lemma latest_timestamp_file_embed w rot :
  latest_timestamp_file c (embw w) rot std_fmt = lw fn fi (latest_timestamp_file c w rot std_fmt).
Proof.
  unfold latest_timestamp_file. destruct rot; [reflexivity|].
  apply with_listing_embed. intros w'. rewrite !fixed_of_0.
  change (wfs (embw w')) with (emb (wfs w')). change (woff (embw w')) with (woff w'). change (wnow (embw w')) with (wnow w').
  rewrite (filter_files_embed fn fi) by (intros n Hn; apply foreign_tsl; exact Hn).
  destruct (filter_files (woff w') (fsfx (c_spec c)) (fixed0 c) (related_files (wfs w') (fsfx (c_spec c)) (fixed0 c)) (IFTs std_fmt) (fsfx (c_spec c))) as [files|]; [|reflexivity].
  destruct (map_opt (ts_infix_from_name (c_spec c) (fixed0 c)) files) as [infixes|]; [|reflexivity].
  reflexivity.
Qed.

Lemma cleanup_never_q w bg flt d : cleanup_or_queue c w bg KNever flt d = (Ok tt, w).
Proof. unfold cleanup_or_queue. destruct bg; reflexivity. Qed.

End TsF.

(* ------------------------------------------------------------------ the clock along a history *)
Lemma elapsed_firstn_le ops : Forall tick_ok ops -> forall i, (0 <= elapsed (firstn i ops) <= elapsed ops)%Z.
Proof.
  induction 1 as [|o r Ho Hr IH]; intros i; destruct i; cbn [firstn elapsed]; try lia.
  - pose proof (elapsed_nonneg r Hr). assert (0 <= dt_of o)%Z by (destruct o; cbn [dt_of tick_ok] in *; lia). lia.
  - specialize (IH i). assert (0 <= dt_of o)%Z by (destruct o; cbn [dt_of tick_ok] in *; lia). lia.
Qed.

Lemma firstn_length_le {A} (l : list A) i : length (firstn i l) <= length l.
Proof. rewrite firstn_length. lia. Qed.

Lemma eoff_same_env c w w' : same_env w w' -> eoff c w' = eoff c w.
Proof. intros [_ [_ [H _]]]. unfold eoff. rewrite H. reflexivity. Qed.

(* ------------------------------------------------------------------ which names are foreign *)
(* the time-stamp filter wants an "r" in front *)
Lemma ts_like_head i : ts_like i = true -> exists r, i = r_char :: r.
Proof.
  unfold ts_like. intros H.
  cbn [filter_infix] in H. unfold canonical_ts in H.
  destruct (parse_ts_local std_fmt i) as [l|] eqn:P; [|discriminate]. clear H. rename P into H.
  unfold parse_ts_local, std_fmt in H. cbn [parse_items parse_item] in H.
  destruct i as [|a r]; [discriminate|]. destruct (N.eqb_spec a 114%N) as [->|_]; [|discriminate]. exists r. reflexivity.
Qed.

Lemma fam_q_shape c o n : fam_q c o n = true -> exists y, n = under (fixed0 c) ++ r_char :: y.
Proof.
  unfold fam_q. destruct (infix_candidate (fsfx (c_spec c)) o (fixed0 c) n) as [i|] eqn:E; [|discriminate].
  intros H. apply ts_like_head in H. destruct H as [r ->]. apply infix_candidate_prefix in E. destruct E as [y ->].
  exists (r ++ y). reflexivity.
Qed.

(* a member has the shape  <fixed>_ r ... : every name of another shape is foreign, in particular every name that does
   not start with the fixed name part *)
Theorem tsd_member_shape c n : tsd_member c n = true -> exists y, n = under (fixed0 c) ++ r_char :: y.
Proof.
  unfold tsd_member. intros H. apply orb_true_iff in H. destruct H as [H|H].
  - apply orb_true_iff in H. destruct H as [H|H]; eapply fam_q_shape; exact H.
  - destruct (strip_suffix dot_gz n) as [m|] eqn:E; [|discriminate]. apply strip_suffix_spec in E. subst n.
    apply fam_q_shape in H. destruct H as [y ->]. exists (y ++ dot_gz). rewrite <- app_assoc. reflexivity.
Qed.

Corollary foreign_no_prefix_ts c n : is_prefix (fixed0 c) n = false -> tsd_member c n = false.
Proof.
  intros Hp. destruct (tsd_member c n) eqn:E; [|reflexivity]. exfalso.
  apply tsd_member_shape in E. destruct E as [y ->]. rewrite is_prefix_under in Hp. discriminate.
Qed.

Theorem ts_member_shape c n : ts_member c n = true -> exists y, n = under (fixed0 c) ++ r_char :: y.
Proof.
  unfold ts_member. intros H. apply orb_true_iff in H. destruct H as [H|H]; [apply tsd_member_shape; exact H|].
  apply beq_eq in H. subst n. rewrite cname_shape. eexists. reflexivity.
Qed.

(* the test on a name of the documented shape  <fixed>_<infix>[.restart-NNNN].<suffix>  (infix without a dot): it is the
   test of the time-stamp filter on the infix - a_rXYZ.log, a_r1x.log and a_r00001.log are foreign, a_r2024-05-06_07-08-09.log is
   not *)
Theorem fam_q_built_name c infix rs : infix <> [] -> no_dot infix -> restart_part rs ->
  fam_q c (fsfx (c_spec c)) (nm c (infix ++ rs)) = ts_like infix.
Proof.
  intros Hne Hd Hr. unfold fam_q.
  rewrite (family_is_candidate (c_spec c) (fixed0 c) (nm c (infix ++ rs)) infix); [reflexivity|].
  apply family_plain_alt. exists rs. split; [exact Hr|]. split; [exact Hne|]. split; [exact Hd|].
  unfold nm. rewrite as_name_some by (intros E; apply app_eq_nil in E; destruct E as [E _]; exact (Hne E)).
  rewrite with_suffix_sfxs, <- !app_assoc. reflexivity.
Qed.
