(* Numbers naming with a cleanup strategy, killed process (C11), part 2: the cleanup with a kill budget.
   Every effectful primitive of the cleanup is a kill point: remove_file; in compress_file the creation of the archive,
   the copy, finish, and the removal of the original.  One cleanup after a rotation compresses at most one file (the
   oldest plain one) and removes at most one (the oldest archive - or, with deletion only, the oldest plain file):
   all directories that a kill in it can leave are enumerated. *)
Require Import FL.Base.Bytes FL.Base.BytesFacts FL.Base.PathName FL.Fs.Fs FL.Fs.FsFacts FL.Time.Civil FL.Time.TsFormat
  FL.Names.FileSpec FL.Names.NamesFacts FL.Names.SortFacts FL.Names.FamilyFacts FL.Flw.Model FL.Flw.ModelFacts FL.Flw.NumFs
  FL.Flw.NumInv FL.Flw.Run FL.Flw.RunFacts FL.Flw.NumRun FL.Flw.NumListing FL.Flw.CleanupFacts
  FL.Flw.NumCleanupNames FL.Flw.NumCleanupStep FL.Flw.NumCleanupRun FL.Flw.KillFacts FL.Flw.NumCleanupKillDir.
From Coq Require Import ZifyN ZifyNat ZifyBool.
Open Scope nat_scope.

(* ------------------------------------------------------------------ primitives with a budget *)
Lemma p_remove_kw q k a : quiet q ->
  p_remove (kw q k) a = match lookup (wfs q) a with
                        | Some _ => (true, eff q k (fun f => unlink f a))
                        | None => (false, kw q k) end.
Proof.
  intros Q. unfold p_remove. rewrite tick_kw by exact Q. change (wfs (kw q k)) with (wfs q).
  destruct (lookup (wfs q) a); [|reflexivity]. rewrite effect_kw. reflexivity.
Qed.

Lemma wfs_kw q k : wfs (kw q k) = wfs q.
Proof. reflexivity. Qed.
Lemma wnow_kw q k : wnow (kw q k) = wnow q.
Proof. reflexivity. Qed.
Lemma wfs_set_fs q f : wfs (set_fs q f) = f.
Proof. reflexivity. Qed.
Lemma set_fs_set_fs q a b : set_fs (set_fs q a) b = set_fs q b.
Proof. reflexivity. Qed.

Lemma quiet_set_fs2 q f : quiet q -> quiet (set_fs q f).
Proof. intros [A B]. split; assumption. Qed.

Lemma same_env_set_fs2 q f : quiet q -> same_env q (set_fs q f).
Proof. intros Q. apply set_fs_env. exact Q. Qed.

(* compress_file n: create n.gz (kill point 1), open n, copy (2), finish (3), remove n (4) *)
Lemma compress_file_kw q n i j : quiet q -> fs_wf (wfs q) -> lookup (wfs q) n = Some i -> lookup (wfs q) (gz_name n) = None ->
  let f := wfs q in
  let fa := fst (create_file f (gz_name n) 2%N (wnow q)) in
  let fb := set_gz fa (length (inodes f)) 1%N (content f i) in
  let fc := unlink fb n in
  match j with
  | 0 => exists r, compress_file (kw q 1) n = (r, kw q 0)
  | 1 => exists r, compress_file (kw q 2) n = (r, kw (set_fs q fa) 0)
  | 2 => exists r, compress_file (kw q 3) n = (r, kw (set_fs q fa) 0)
  | 3 => exists r, compress_file (kw q 4) n = (r, kw (set_fs q fb) 0)
  | S (S (S (S j'))) => compress_file (kw q (S j)) n = (true, kw (set_fs q fc) (S j'))
  end.
Proof.
  intros Q W Hn0 Hg f fa fb fc. assert (Hn : lookup f n = Some i) by exact Hn0.
  assert (Hng : n <> gz_name n) by (intros E; exact (gz_name_neq n (eq_sym E))).
  assert (F0 : file_of f (gz_name n) = None) by (apply file_of_none; exact Hg).
  assert (OT : open_trunc f (gz_name n) 2%N (wnow q) = create_file f (gz_name n) 2%N (wnow q)) by (apply open_trunc_fresh; exact Hg).
  pose proof (create_file_spec f (gz_name n) 2%N (wnow q)) as CS. unfold create_file in CS. destruct CS as (_ & _ & La0 & Lo0).
  assert (Hino : inodes fa = inodes f ++ [{| fdata := []; fgz := 2%N; fborn := wnow q; fdir := false |}]) by reflexivity.
  assert (Lo : forall m, m <> gz_name n -> lookup fa m = lookup f m) by exact Lo0.
  assert (EA : fst (open_trunc f (gz_name n) 2%N (wnow q)) = fa) by (rewrite OT; reflexivity).
  assert (Eino : snd (create_file f (gz_name n) 2%N (wnow q)) = length (inodes f)) by reflexivity.
  assert (Lna : lookup fa n = Some i) by (rewrite Lo by exact Hng; exact Hn).
  assert (Ci : content fa i = content f i).
  { unfold content, inode. rewrite Hino, inode_app_old by (apply (wf_bound _ W _ _ Hn)). reflexivity. }
  assert (Qa : quiet (set_fs q fa)) by (apply quiet_set_fs2; exact Q).
  assert (Qb : quiet (set_fs q fb)) by (apply quiet_set_fs2; exact Q).
  assert (Lnb : lookup fb n = Some i) by exact Lna.
  unfold compress_file.
  destruct j as [|[|[|[|j']]]].
  - (* dies at the creation *)
    rewrite tick_kw by exact Q. rewrite !wfs_kw, !wnow_kw. fold f. rewrite F0, OT, Eino. rewrite !effect_kw. cbn [eff].
    rewrite tick_kw by exact Q. rewrite !wfs_kw. fold f. rewrite Hn.
    rewrite tick_kw by exact Q. rewrite !effect_kw. cbn [eff]. rewrite tick_kw by exact Q. rewrite !effect_kw. cbn [eff].
    rewrite p_remove_kw by exact Q. fold f. rewrite Hn. cbn [eff]. eauto.
  - (* dies at the copy *)
    rewrite tick_kw by exact Q. rewrite !wfs_kw, !wnow_kw. fold f. rewrite F0, OT, Eino. rewrite !effect_kw. cbn [eff]. fold f. rewrite EA.
    rewrite tick_kw by exact Qa. rewrite !wfs_kw, !wfs_set_fs. rewrite Lna.
    rewrite tick_kw by exact Qa. rewrite !effect_kw. cbn [eff]. rewrite tick_kw by exact Qa. rewrite !effect_kw. cbn [eff].
    rewrite p_remove_kw by exact Qa. rewrite !wfs_set_fs. rewrite Lna. cbn [eff]. eauto.
  - (* dies at finish *)
    rewrite tick_kw by exact Q. rewrite !wfs_kw, !wnow_kw. fold f. rewrite F0, OT, Eino. rewrite !effect_kw. cbn [eff]. fold f. rewrite EA.
    rewrite tick_kw by exact Qa. rewrite !wfs_kw, !wfs_set_fs. rewrite Lna.
    rewrite tick_kw by exact Qa. rewrite !effect_kw. cbn [eff]. rewrite !wfs_set_fs, !set_fs_set_fs.
    rewrite tick_kw by exact Qa. rewrite !effect_kw. cbn [eff].
    rewrite p_remove_kw by exact Qa. rewrite !wfs_set_fs. rewrite Lna. cbn [eff]. eauto.
  - (* dies at the removal of the original *)
    rewrite tick_kw by exact Q. rewrite !wfs_kw, !wnow_kw. fold f. rewrite F0, OT, Eino. rewrite !effect_kw. cbn [eff]. fold f. rewrite EA.
    rewrite tick_kw by exact Qa. rewrite !wfs_kw, !wfs_set_fs. rewrite Lna, Ci.
    rewrite tick_kw by exact Qa. rewrite !effect_kw. cbn [eff]. rewrite !wfs_set_fs, !set_fs_set_fs.
    rewrite tick_kw by exact Qa. rewrite !effect_kw. cbn [eff]. rewrite !wfs_set_fs, !set_fs_set_fs. fold fb.
    rewrite p_remove_kw by exact Qb. rewrite !wfs_set_fs. rewrite Lnb. cbn [eff]. eauto.
  - (* completed *)
    rewrite tick_kw by exact Q. rewrite !wfs_kw, !wnow_kw. fold f. rewrite F0, OT, Eino. rewrite !effect_kw. cbn [eff]. fold f. rewrite EA.
    rewrite tick_kw by exact Qa. rewrite !wfs_kw, !wfs_set_fs. rewrite Lna, Ci.
    rewrite tick_kw by exact Qa. rewrite !effect_kw. cbn [eff]. rewrite !wfs_set_fs, !set_fs_set_fs.
    rewrite tick_kw by exact Qa. rewrite !effect_kw. cbn [eff]. rewrite !wfs_set_fs, !set_fs_set_fs. fold fb.
    rewrite p_remove_kw by exact Qb. rewrite !wfs_set_fs. rewrite Lnb. cbn [eff]. rewrite !wfs_set_fs, !set_fs_set_fs. reflexivity.
Qed.

Lemma p_remove_budget q x i j : quiet q -> lookup (wfs q) x = Some i ->
  p_remove (kw q (S j)) x = (true, match j with 0 => kw q 0 | S j' => kw (set_fs q (unlink (wfs q) x)) (S j') end).
Proof. intros Q H. rewrite p_remove_kw by exact Q. rewrite H. destruct j; reflexivity. Qed.

(* ------------------------------------------------------------------ the loop: entries that are kept *)
Lemma cleanup_loop_skip ll total : forall a w b idx,
  (forall k x, nth_error a k = Some x -> act ll total (idx + k) x = AKeep) ->
  cleanup_loop w (a ++ b) idx ll total None = cleanup_loop w b (idx + length a) ll total None.
Proof.
  induction a as [|x a IH]; intros w b idx H.
  - cbn [app length]. rewrite Nat.add_0_r. reflexivity.
  - cbn [app]. rewrite cleanup_loop_cons. pose proof (H 0 x eq_refl) as H0. rewrite Nat.add_0_r in H0. rewrite H0.
    rewrite IH.
    + cbn [length]. replace (S idx + length a) with (idx + S (length a)) by lia. reflexivity.
    + intros k y Hk. replace (S idx + k) with (idx + S k) by lia. apply (H (S k) y Hk).
Qed.

Lemma cleanup_loop_all_keep ll total a w idx :
  (forall k x, nth_error a k = Some x -> act ll total (idx + k) x = AKeep) -> cleanup_loop w a idx ll total None = (true, w).
Proof. intros H. rewrite <- (app_nil_r a). rewrite cleanup_loop_skip by exact H. reflexivity. Qed.

Lemma act_keep_below ll total idx x : idx < ll -> ll <= total -> act ll total idx x = AKeep.
Proof. intros H1 H2. apply act_keep. split; [lia | left; exact H1]. Qed.
Lemma act_keep_gz ll total idx x : idx < total -> ext_is x gz_sfx = true -> act ll total idx x = AKeep.
Proof. intros H1 H2. apply act_keep. split; [exact H1 | right; exact H2]. Qed.

Lemma nth_error_rev_map_in {A} (g : nat -> A) a cnt k x : nth_error (rev (map g (seq a cnt))) k = Some x ->
  k < cnt /\ exists i, a <= i < a + cnt /\ x = g i.
Proof.
  rewrite nth_error_rev_map_seq. destruct (Nat.ltb_spec k cnt) as [H|H]; [|discriminate]. intros E. injection E as <-.
  split; [exact H|]. exists (a + cnt - 1 - k). split; [lia | reflexivity].
Qed.

Lemma rev_map_seq_S {A} (g : nat -> A) a cnt : rev (map g (seq a (S cnt))) = rev (map g (seq (S a) cnt)) ++ [g a].
Proof. reflexivity. Qed.
Lemma rev_map_seq_length {A} (g : nat -> A) a cnt : length (rev (map g (seq a cnt))) = cnt.
Proof. rewrite rev_length, map_length, seq_length. reflexivity. Qed.

(* ------------------------------------------------------------------ the states of the file system *)
(* f0: the file system before the cleanup (rCURRENT is not touched) *)
Record kst (c : config) (f0 f : fs) (closed : list bytes) (ocur : option bytes) (lo mid : nat) (red : option bool) : Prop := {
  ks_wf : fs_wf f;
  ks_nd : nodup_names f;
  ks_x : xdir c (file_of f) closed ocur lo mid red;
  ks_cur : same_at f0 f (cname c) }.

Lemma same_at_upd f f' a v m : lookup f' m = lookup f m -> (forall y, file_of f' y = fupd (file_of f) a v y) -> m <> a -> same_at f f' m.
Proof. intros H1 H2 H3. split; [exact H1|]. rewrite H2. apply fupd_other. exact H3. Qed.

Lemma kst_lookup_red c f0 f closed ocur lo mid : kst c f0 f closed ocur lo mid None -> mid <= length closed ->
  lookup f (gname c mid) = None.
Proof. intros K H. apply file_of_none. apply (xdir_no_gz c _ closed ocur lo mid None mid (ks_x _ _ _ _ _ _ _ _ K)); [lia | left; reflexivity]. Qed.

Lemma kst_create c f0 f closed ocur lo mid now : kst c f0 f closed ocur lo mid None -> mid < length closed ->
  kst c f0 (fst (create_file f (gname c mid) 2%N now)) closed ocur lo mid (Some false).
Proof.
  intros K Hm. pose proof K as [W Nd X Sc].
  assert (Lg : lookup f (gname c mid) = None) by (apply (kst_lookup_red c f0 f closed ocur lo mid K); lia).
  constructor.
  - apply wf_create; assumption.
  - apply nd_create; assumption.
  - eapply xdir_ext; [intros y; apply file_of_create; exact W|]. apply xdir_create_gz; [exact X | exact Hm|]. repeat split.
  - apply (same_at_trans _ f); [exact Sc|].
    apply (same_at_upd f _ (gname c mid) (Some {| fdata := []; fgz := 2%N; fborn := now; fdir := false |})).
    + pose proof (create_file_spec f (gname c mid) 2%N now) as CS. destruct (create_file f (gname c mid) 2%N now) as [f' i].
      destruct CS as (_ & _ & _ & Lo). cbn [fst]. apply Lo. intros E. exact (gname_not_cname _ _ (eq_sym E)).
    + intros y. apply file_of_create. exact W.
    + intros E. exact (gname_not_cname _ _ (eq_sym E)).
Qed.

Lemma kst_finish c f0 f closed ocur lo mid ino : kst c f0 f closed ocur lo mid (Some false) ->
  lookup f (gname c mid) = Some ino ->
  kst c f0 (set_gz f ino 1%N (nth mid closed [])) closed ocur lo mid (Some true).
Proof.
  intros K Lg. pose proof K as [W Nd X Sc]. constructor.
  - apply wf_set_gz. exact W.
  - apply nd_set_gz. exact Nd.
  - eapply xdir_ext; [intros y; apply (file_of_set_gz f (gname c mid)); assumption|]. apply xdir_finish_gz; [exact X|]. repeat split.
  - apply (same_at_trans _ f); [exact Sc|].
    apply (same_at_upd f _ (gname c mid) (Some {| fdata := nth mid closed []; fgz := 1%N; fborn := fborn (inode f ino); fdir := false |})).
    + reflexivity.
    + intros y. apply (file_of_set_gz f (gname c mid)); assumption.
    + intros E. exact (gname_not_cname _ _ (eq_sym E)).
Qed.

Lemma same_at_unlink f a m : m <> a -> same_at f (unlink f a) m.
Proof.
  intros H. apply (same_at_upd f _ a None); [|apply file_of_unlink | exact H].
  destruct (unlink_spec f a) as (_ & _ & UO). apply UO. exact H.
Qed.

Lemma kst_rm_orig c f0 f closed ocur lo mid : kst c f0 f closed ocur lo mid (Some true) ->
  kst c f0 (unlink f (rname c mid)) closed ocur lo (S mid) None.
Proof.
  intros [W Nd X Sc]. constructor.
  - apply wf_unlink. exact W.
  - apply nd_unlink. exact Nd.
  - eapply xdir_ext; [intros y; apply file_of_unlink|]. apply xdir_remove_orig. exact X.
  - apply (same_at_trans _ f); [exact Sc|]. apply same_at_unlink. intros E. exact (rname_not_cname _ _ (eq_sym E)).
Qed.

Lemma kst_rm_lo c f0 f closed ocur lo mid : kst c f0 f closed ocur lo mid None -> lo < mid ->
  kst c f0 (unlink f (gname c lo)) closed ocur (S lo) mid None.
Proof.
  intros [W Nd X Sc] Hl. constructor.
  - apply wf_unlink. exact W.
  - apply nd_unlink. exact Nd.
  - eapply xdir_ext; [intros y; apply file_of_unlink|]. apply xdir_remove_lo; assumption.
  - apply (same_at_trans _ f); [exact Sc|]. apply same_at_unlink. intros E. exact (gname_not_cname _ _ (eq_sym E)).
Qed.

Lemma kst_rm_mid c f0 f closed ocur mid : kst c f0 f closed ocur mid mid None -> mid < length closed ->
  kst c f0 (unlink f (rname c mid)) closed ocur (S mid) (S mid) None.
Proof.
  intros [W Nd X Sc] Hl. constructor.
  - apply wf_unlink. exact W.
  - apply nd_unlink. exact Nd.
  - eapply xdir_ext; [intros y; apply file_of_unlink|]. apply xdir_remove_mid; assumption.
  - apply (same_at_trans _ f); [exact Sc|]. apply same_at_unlink. intros E. exact (rname_not_cname _ _ (eq_sym E)).
Qed.

Lemma kst_plain_lookup c f0 f closed ocur lo mid red i : kst c f0 f closed ocur lo mid red -> mid <= i < length closed ->
  exists j, lookup f (rname c i) = Some j /\ content f j = nth i closed [].
Proof.
  intros K Hi. destruct (xd_plain _ _ _ _ _ _ _ (ks_x _ _ _ _ _ _ _ _ K) i Hi) as (fl & Ff & _ & _ & C).
  apply file_of_some in Ff. destruct Ff as (j & Lj & ->). exists j. split; [exact Lj | exact C].
Qed.
Lemma kst_arch_lookup c f0 f closed ocur lo mid red i : kst c f0 f closed ocur lo mid red -> lo <= i < mid ->
  exists j, lookup f (gname c i) = Some j.
Proof.
  intros K Hi. destruct (xd_arch _ _ _ _ _ _ _ (ks_x _ _ _ _ _ _ _ _ K) i Hi) as (fl & Ff & _).
  apply file_of_some in Ff. destruct Ff as (j & Lj & _). exists j. exact Lj.
Qed.

(* ------------------------------------------------------------------ one compression with a budget *)
Lemma compress_budget c q closed ocur lo mid j : quiet q -> kst c (wfs q) (wfs q) closed ocur lo mid None -> mid < length closed ->
  exists r w1, compress_file (kw q (S j)) (rname c mid) = (r, w1) /\
    ( (exists fc j', j = S (S (S (S j'))) /\ r = true /\ w1 = kw (set_fs q fc) (S j') /\ kst c (wfs q) fc closed ocur lo (S mid) None)
      \/ (exists f' red, w1 = kw (set_fs q f') 0 /\ kst c (wfs q) f' closed ocur lo mid red) ).
Proof.
  intros Q K Hm. pose proof K as [W Nd X Sc].
  destruct (kst_plain_lookup c _ _ closed ocur lo mid None mid K ltac:(lia)) as (i & Li & Ci).
  assert (Lg : lookup (wfs q) (gz_name (rname c mid)) = None) by (apply (kst_lookup_red c _ _ closed ocur lo mid K); lia).
  pose proof (compress_file_kw q (rname c mid) i j Q W Li Lg) as CF. cbv zeta in CF. rewrite Ci in CF.
  fold (gname c mid) in CF.
  pose proof (kst_create c (wfs q) (wfs q) closed ocur lo mid (wnow q) K Hm) as Ka.
  set (fa := fst (create_file (wfs q) (gname c mid) 2%N (wnow q))) in *.
  assert (Lga : lookup fa (gname c mid) = Some (length (inodes (wfs q)))).
  { pose proof (create_file_spec (wfs q) (gname c mid) 2%N (wnow q)) as CS. unfold create_file in CS. destruct CS as (_ & _ & La & _). exact La. }
  pose proof (kst_finish c (wfs q) fa closed ocur lo mid _ Ka Lga) as Kb.
  set (fb := set_gz fa (length (inodes (wfs q))) 1%N (nth mid closed [])) in *.
  pose proof (kst_rm_orig c (wfs q) fb closed ocur lo mid Kb) as Kc.
  destruct j as [|[|[|[|j']]]].
  - destruct CF as [r E]. exists r, (kw q 0). split; [exact E|]. right. exists (wfs q), None. split; [reflexivity | exact K].
  - destruct CF as [r E]. exists r, (kw (set_fs q fa) 0). split; [exact E|]. right. exists fa, (Some false). split; [reflexivity | exact Ka].
  - destruct CF as [r E]. exists r, (kw (set_fs q fa) 0). split; [exact E|]. right. exists fa, (Some false). split; [reflexivity | exact Ka].
  - destruct CF as [r E]. exists r, (kw (set_fs q fb) 0). split; [exact E|]. right. exists fb, (Some true). split; [reflexivity | exact Kb].
  - eexists _, _. split; [exact CF|]. left. exists (unlink fb (rname c mid)), j'. split; [reflexivity|]. split; [reflexivity|].
    split; [reflexivity | exact Kc].
Qed.

(* ------------------------------------------------------------------ one cleanup with a budget *)
Lemma cleanup_impl_kw_unfold c q j k flt n m : klim k = Some (n, m) -> quiet q ->
  cleanup_impl c (kw q j) k flt None =
  match list_log_gz (woff q) (c_spec c) (fixed_of c (kw q j)) (wfs q) flt with
  | None => (Panic, kw q j)
  | Some files =>
    let '(ok0, w1', files') := remove_redundant (kw q j) (redundant_gz files) files in
    if negb ok0 then (Err, w1') else
    let '(ok, w2) := cleanup_loop w1' files' 0 n (n + m) None in ((if ok then Ok tt else Err), w2)
  end.
Proof.
  intros H Q. destruct k; cbn [klim] in H; try discriminate; injection H as <- <-;
    unfold cleanup_impl; cbn [andb]; rewrite (tick_kw q j Q); reflexivity.
Qed.

Lemma loop_tail_dead w files idx ll total (r1 : bool) : dead w ->
  exists r, (if r1 then cleanup_loop w files idx ll total None else (false, w)) = (r, w).
Proof. intros D. destruct r1; [apply cleanup_loop_dead; exact D | eauto]. Qed.

Lemma cleanup_budget c crit k n m q closed ocur j :
  numkcfg c crit k -> klim k = Some (n, m) -> sfx_ok (c_spec c) -> quiet q ->
  kst c (wfs q) (wfs q) closed ocur (k_lo k (length closed - 1)) (k_mid k (length closed - 1)) None ->
  exists r w', cleanup_impl c (kw q (S j)) k IFNum None = (r, w') /\
    ( (exists f' j', w' = kw (set_fs q f') (S j') /\ r = Ok tt
                      /\ kst c (wfs q) f' closed ocur (k_lo k (length closed)) (k_mid k (length closed)) None)
      \/ (exists f' lo mid red, w' = kw (set_fs q f') 0 /\ kst c (wfs q) f' closed ocur lo mid red
                                /\ uncl k (length closed) lo mid) ).
Proof.
  intros (Hrot & Hts & Hlink & Has & Hbg) Hk Hsfx Q K. unfold uncl, k_lo, k_mid in *. rewrite Hk in *.
  set (L := length closed) in *. pose proof K as [W Nd X Sc].
  assert (KD : kdir c (wfs q) closed (L - 1 - (n + m)) (L - 1 - n)) by (eapply xdir_kdir; eassumption).
  pose proof (kd_le _ _ _ _ _ KD) as Hle. fold L in Hle.
  rewrite (cleanup_impl_kw_unfold c q (S j) k IFNum n m Hk Q), (fixed_of_fixed0 c _ Hts).
  rewrite (list_log_gz_numbers c (wfs q) (woff q) _ _ L Hsfx (kdir_shape _ _ _ _ _ KD)).
  rewrite (listing_no_redundant c _ _ L Hsfx Hle). cbn [remove_redundant negb].
  destruct (Nat.le_gt_cases L n) as [HLn|HLn].
  - (* fewer closed files than the limit: nothing to do *)
    rewrite cleanup_loop_all_keep.
    + exists (Ok tt), (kw q (S j)). split; [reflexivity|]. left. exists (wfs q), j. split; [reflexivity|]. split; [reflexivity|].
      replace (L - (n + m)) with (L - 1 - (n + m)) by lia. replace (L - n) with (L - 1 - n) by lia. exact K.
    + intros k0 x Hk0. apply listing_nth_inv in Hk0; [|exact Hle]. apply act_keep_below; lia.
  - (* position n: the oldest plain file *)
    assert (Emid : L - (L - 1 - n) = S n) by lia.
    unfold listing. rewrite Emid, rev_map_seq_S, <- app_assoc. cbn [app].
    rewrite cleanup_loop_skip by (intros k0 x Hk0; apply nth_error_rev_map_in in Hk0; apply act_keep_below; lia).
    rewrite rev_map_seq_length. cbn [Nat.add]. rewrite cleanup_loop_cons.
    destruct (kst_plain_lookup c _ _ closed ocur _ _ None (L - 1 - n) K ltac:(fold L; lia)) as (i & Li & Ci).
    destruct (Nat.eq_dec m 0) as [->|Hm0].
    + (* deletion only *)
      rewrite (proj2 (act_remove n (n + 0) n (rname c (L - 1 - n)))) by lia.
      rewrite (p_remove_budget q _ i j Q Li).
      replace (L - 1 - (n + 0) ) with (L - 1 - n) in * by lia.
      replace (L - 1 - n - (L - 1 - n)) with 0 by lia. cbn [seq map rev].
      destruct j as [|j'].
      * exists (Ok tt), (kw q 0). split; [reflexivity|]. right. exists (wfs q), (L - 1 - n), (L - 1 - n), None.
        split; [reflexivity|]. split; [exact K | lia].
      * eexists (Ok tt), _. split; [reflexivity|]. left. exists (unlink (wfs q) (rname c (L - 1 - n))), j'.
        split; [reflexivity|]. split; [reflexivity|].
        replace (L - (n + 0)) with (S (L - 1 - n)) by lia. replace (L - n) with (S (L - 1 - n)) by lia.
        apply kst_rm_mid; [exact K | fold L; lia].
    + (* compression of the oldest plain file *)
      rewrite (proj2 (act_compress n (n + m) n (rname c (L - 1 - n)))) by (split; [lia | apply rname_not_gz; exact Hsfx]).
      destruct (compress_budget c q closed ocur _ _ j Q K ltac:(fold L; lia)) as (r1 & w1 & E1 & [(fc & j' & -> & -> & -> & Kc) | (f' & red & -> & Kd)]).
      * rewrite E1.
        destruct (Nat.lt_ge_cases (L - 1 - n) m) as [Hlt|Hge].
        -- (* fewer archives than the limit *)
           rewrite cleanup_loop_all_keep.
           ++ eexists (Ok tt), _. split; [reflexivity|]. left. exists fc, j'. split; [reflexivity|]. split; [reflexivity|].
              replace (L - (n + m)) with (L - 1 - (n + m)) by lia. replace (L - n) with (S (L - 1 - n)) by lia. exact Kc.
           ++ intros k0 x Hk0. apply nth_error_rev_map_in in Hk0. destruct Hk0 as (Hk1 & i0 & _ & ->).
              apply act_keep_gz; [lia | apply gname_is_gz].
        -- (* the oldest archive is removed *)
           assert (Ear : L - 1 - n - (L - 1 - (n + m)) = S (m - 1)) by lia.
           rewrite Ear, rev_map_seq_S.
           rewrite cleanup_loop_skip by (intros k0 x Hk0; apply nth_error_rev_map_in in Hk0; destruct Hk0 as (Hk1 & i0 & _ & ->);
                                          apply act_keep_gz; [lia | apply gname_is_gz]).
           rewrite rev_map_seq_length. replace (S n + (m - 1)) with (n + m) by lia. rewrite cleanup_loop_cons.
           rewrite (proj2 (act_remove n (n + m) (n + m) (gname c (L - 1 - (n + m))))) by lia.
           destruct (kst_arch_lookup c _ _ closed ocur _ _ None (L - 1 - (n + m)) Kc ltac:(lia)) as (ig & Lig).
           rewrite (p_remove_budget (set_fs q fc) _ ig j' (quiet_set_fs2 q fc Q) Lig).
           destruct j' as [|j''].
           ++ eexists (Ok tt), _. split; [reflexivity|]. right. exists fc, (L - 1 - (n + m)), (S (L - 1 - n)), None.
              split; [reflexivity|]. split; [exact Kc | lia].
           ++ eexists (Ok tt), _. split; [reflexivity|]. left. exists (unlink fc (gname c (L - 1 - (n + m)))), j''.
              split; [reflexivity|]. split; [reflexivity|].
              replace (L - (n + m)) with (S (L - 1 - (n + m))) by lia. replace (L - n) with (S (L - 1 - n)) by lia.
              apply kst_rm_lo; [exact Kc | lia].
      * rewrite E1.
        destruct (loop_tail_dead (kw (set_fs q f') 0) (rev (map (gname c) (seq (L - 1 - (n + m)) (L - 1 - n - (L - 1 - (n + m)))))) (S n) n (n + m) r1
                    (dead_kw _ (quiet_set_fs2 q f' Q))) as [r2 E2].
        rewrite E2. eexists _, _. split; [reflexivity|]. right. exists f', (L - 1 - (n + m)), (L - 1 - n), red.
        split; [reflexivity|]. split; [exact Kd | lia].
Qed.

(* fewer closed files than the limit for plain files: the cleanup has no effect (and no kill point) *)
Lemma cleanup_budget_noop c crit k n m q closed lo mid j :
  numkcfg c crit k -> klim k = Some (n, m) -> sfx_ok (c_spec c) -> quiet q ->
  kdir c (wfs q) closed lo mid -> length closed <= n ->
  cleanup_impl c (kw q j) k IFNum None = (Ok tt, kw q j).
Proof.
  intros (Hrot & Hts & Hlink & Has & Hbg) Hk Hsfx Q KD Hn.
  pose proof (kd_le _ _ _ _ _ KD) as Hle.
  rewrite (cleanup_impl_kw_unfold c q j k IFNum n m Hk Q), (fixed_of_fixed0 c _ Hts).
  rewrite (list_log_gz_numbers c (wfs q) (woff q) _ _ _ Hsfx (kdir_shape _ _ _ _ _ KD)).
  rewrite (listing_no_redundant c _ _ _ Hsfx Hle). cbn [remove_redundant negb].
  rewrite cleanup_loop_all_keep; [reflexivity|].
  intros k0 x Hk0. apply listing_nth_inv in Hk0; [|exact Hle]. apply act_keep_below; lia.
Qed.
