(* C19 with rotation: the executable SPECIFICATION of what a FileLogWriter with Numbers naming (rCURRENT, r00000,
   r00001, ...), size criterion, direct mode (no buffer), no cleanup, synchronous, makes of a list of records when
   the file-system calls fail as an arbitrary fault oracle says; and what the specification implies.
   The refinement proof (the model `run` does exactly this) is in FaultRotation.v.

   What the model (and the code) does, read off write_buffer / mount_next / initialize:

   (iii) a failing step of the INITIALISATION (the listing read_dir, the rename of an old rCURRENT [no append],
         the open/create of rCURRENT, the metadata call [append]): initialize returns Err, write_buffer returns Err
         BEFORE anything is written, the record is LOST, the handle reports EWrite, the state stays `Initial`:
         the next record initialises again from the beginning (lists again).  With append, an rCURRENT that was
         created before the failing metadata call stays (empty) and is continued later.
   (i)   the RENAME of rCURRENT at a rotation fails: mount_next returns Err with the state unchanged, write_buffer
         reports ELogFile and then WRITES THE RECORD WITH THE OLD WRITER, i.e. into the (over-full) rCURRENT.
         Nothing is lost; the size counter still exceeds the limit, so the next record tries the rotation again.
   (ii)  the rename succeeds, the OPEN/CREATE of the new rCURRENT fails: mount_next returns Err, the naming state
         has been advanced (index + 1), the writer is still the old one, whose file is now called r<index>;
         write_buffer reports ELogFile and WRITES THE RECORD INTO THE RENAMED FILE.  Nothing is lost and the order
         is kept (that file is the newest closed file, there is no rCURRENT).  The next record tries the rotation
         again: the rename finds no rCURRENT (NotFound is tolerated, the index is not advanced a second time), a
         new rCURRENT is created.
   (iv)  the WRITE itself fails: write_buffer returns Err, the size counter is not increased, the record is LOST,
         the handle reports EWrite; the writer state is as before.
   Every oracle entry `true` that is consumed yields exactly one reported error (ELogFile: rotation step, record
   kept; EWrite: record lost).  No log call panics or returns an error. *)
Require Import FL.Base.Bytes FL.Base.BytesFacts FL.Fs.Fs FL.Flw.Model FL.Flw.Run FL.Flw.NumRun FL.Flw.FaultFacts.
From Coq Require Import ZifyN ZifyNat ZifyBool.
Open Scope nat_scope.

(* ------------------------------------------------------------------ the specification *)
(* the abstract state: directory and writer *)
Inductive sst :=
| SInit (created : bool)             (* writer not initialised; no closed files; rCURRENT absent / present and empty *)
| SCur (cl : list bytes) (d : bytes) (* closed files cl, rCURRENT holds d, the writer writes into rCURRENT *)
| SOld (cl : list bytes) (d : bytes). (* closed files cl ++ [d], NO rCURRENT: it was renamed to r<length cl>, the new one
                                        could not be created; the writer still writes into the renamed file *)

Definition st_closed (st : sst) : list bytes :=
  match st with SInit _ => [] | SCur cl _ => cl | SOld cl d => cl ++ [d] end.
Definition st_cur (st : sst) : option bytes :=
  match st with SInit created => if created then Some [] else None | SCur _ d => Some d | SOld _ _ => None end.
(* what a reader finds: r00000 ++ r00001 ++ ... ++ rCURRENT *)
Definition stream (st : sst) : bytes := concat (st_closed st) ++ match st_cur st with Some d => d | None => [] end.

(* one fallible call takes the next oracle entry (true = the call fails); an exhausted oracle lets everything succeed *)
Definition pop (fl : list bool) : bool * list bool := (hd false fl, tl fl).
(* the write(2) call of one record: none for an empty record *)
Definition wr_pop (b : bytes) (fl : list bool) : bool * list bool := match b with [] => (false, fl) | _ => pop fl end.

(* the record is written into the file that holds d *)
Definition s_write (d b : bytes) (fl : list bool) : bytes * list ecode * list bool :=
  let '(f, fl1) := wr_pop b fl in if f then (d, [EWrite], fl1) else (d ++ b, [], fl1).

(* an initialised writer whose file (rCURRENT, or - old = true - the newest closed file) holds d *)
Definition s_active (m : N) (old : bool) (cl : list bytes) (d b : bytes) (fl : list bool) : sst * list ecode * list bool :=
  let same d' := if old then SOld cl d' else SCur cl d' in
  if (m <? N.of_nat (length d))%N then
    let '(f1, fl1) := pop fl in                               (* rename rCURRENT -> r<index> *)
    if f1 then let '(d', e, fl2) := s_write d b fl1 in (same d', ELogFile :: e, fl2)
    else
      let '(f2, fl2) := pop fl1 in                            (* create the new rCURRENT *)
      if f2 then let '(d', e, fl3) := s_write d b fl2 in (SOld cl d', ELogFile :: e, fl3)
      else let '(d', e, fl3) := s_write [] b fl2 in (SCur (cl ++ [d]) d', e, fl3)
  else let '(d', e, fl1) := s_write d b fl in (same d', e, fl1).

(* a writer that is not initialised yet, in a directory without closed files *)
Definition s_init (app : bool) (m : N) (created : bool) (b : bytes) (fl : list bool) : sst * list ecode * list bool :=
  let '(f1, fl1) := pop fl in                                 (* read_dir *)
  if f1 then (SInit created, [EWrite], fl1) else
  let '(f2, fl2) := if app then (false, fl1) else pop fl1 in  (* rename of an old rCURRENT (not with append) *)
  if f2 then (SInit created, [EWrite], fl2) else
  let '(f3, fl3) := pop fl2 in                                (* open/create rCURRENT *)
  if f3 then (SInit created, [EWrite], fl3) else
  let '(f4, fl4) := if app then pop fl3 else (false, fl3) in  (* metadata (with append) *)
  if f4 then (SInit true, [EWrite], fl4) else
  s_active m false [] [] b fl4.

Definition sstep (app : bool) (m : N) (st : sst) (fl : list bool) (b : bytes) : sst * list ecode * list bool :=
  match st with
  | SInit created => s_init app m created b fl
  | SCur cl d => s_active m false cl d b fl
  | SOld cl d => s_active m true cl d b fl
  end.

Fixpoint simr_st (app : bool) (m : N) (st : sst) (fl : list bool) (recs : list bytes) : sst * list ecode * list bool :=
  match recs with
  | [] => (st, [], fl)
  | b :: rest =>
    let '(st1, e1, fl1) := sstep app m st fl b in
    let '(st2, e2, fl2) := simr_st app m st1 fl1 rest in (st2, e1 ++ e2, fl2)
  end.

(* the specification in the form asked for: closed files, current file, reported errors (with their codes; their
   number is the length), the rest of the oracle *)
Definition simr (app : bool) (m : N) (fl : list bool) (recs : list bytes) : list bytes * option bytes * list ecode * list bool :=
  let '(st, e, fl') := simr_st app m (SInit false) fl recs in (st_closed st, st_cur st, e, fl').

(* ------------------------------------------------------------------ one record *)
Definition is_ewrite (e : ecode) : bool := match e with EWrite => true | _ => false end.
(* the record of a log call with these reports is lost / the number of lost records *)
Definition lost (e : list ecode) : bool := existsb is_ewrite e.
Definition nlost (e : list ecode) : nat := length (filter is_ewrite e).
(* the number of failing calls among the oracle entries *)
Definition ntrue (l : list bool) : nat := length (filter (fun x => x) l).

Lemma stream_cur cl d : stream (SCur cl d) = concat cl ++ d.
Proof. reflexivity. Qed.
Lemma stream_old cl d : stream (SOld cl d) = concat cl ++ d.
Proof. unfold stream. cbn [st_closed st_cur]. rewrite concat_app. cbn [concat]. rewrite !app_nil_r. reflexivity. Qed.
Lemma stream_init created : stream (SInit created) = [].
Proof. destruct created; reflexivity. Qed.

(* what one step does, in terms of: the oracle entries it uses, the reports, the stream *)
Definition step_ok (st : sst) (fl : list bool) (b : bytes) (r : sst * list ecode * list bool) : Prop :=
  let '(st', e, fl') := r in
  exists used, fl = used ++ fl' /\ length e = ntrue used /\ nlost e <= 1
    /\ stream st' = stream st ++ (if lost e then [] else b).

Lemma pop_cases fl : (fl = [] /\ pop fl = (false, [])) \/ exists f r, fl = f :: r /\ pop fl = (f, r).
Proof. destruct fl as [|f r]; [left; split; reflexivity | right; exists f, r; split; reflexivity]. Qed.

Lemma s_write_ok d b fl :
  let '(d', e, fl') := s_write d b fl in
  exists used, fl = used ++ fl' /\ length e = ntrue used /\ (e = [] \/ e = [EWrite])
    /\ d' = d ++ (if lost e then [] else b).
Proof.
  unfold s_write, wr_pop. destruct b as [|x b].
  - cbv beta iota zeta. exists []. cbn. rewrite app_nil_r. auto.
  - destruct fl as [|[|] r]; cbn [pop hd tl]; cbv beta iota zeta.
    + exists []. cbn. auto.
    + exists [true]. cbn. rewrite app_nil_r. auto.
    + exists [false]. cbn. auto.
Qed.

Lemma ntrue_cons f l : ntrue (f :: l) = (if f then 1 else 0) + ntrue l.
Proof. unfold ntrue. cbn [filter]. destruct f; reflexivity. Qed.

Lemma s_active_ok m (old : bool) cl d b fl :
  step_ok (if old then SOld cl d else SCur cl d) fl b (s_active m old cl d b fl).
Proof.
  assert (St : stream (if old then SOld cl d else SCur cl d) = concat cl ++ d)
    by (destruct old; [apply stream_old | apply stream_cur]).
  assert (Same : forall d', stream (if old then SOld cl d' else SCur cl d') = concat cl ++ d')
    by (intros d'; destruct old; [apply stream_old | apply stream_cur]).
  unfold s_active, step_ok. rewrite St.
  (* the plain write *)
  assert (W : forall pre fl0 errs0, fl = pre ++ fl0 -> ntrue pre = length errs0 -> lost errs0 = false -> nlost errs0 = 0 ->
     let '(d', e, fl1) := s_write d b fl0 in
     exists used, fl = used ++ fl1 /\ length (errs0 ++ e) = ntrue used /\ nlost (errs0 ++ e) <= 1
       /\ concat cl ++ d' = (concat cl ++ d) ++ (if lost (errs0 ++ e) then [] else b)).
  { intros pre fl0 errs0 Hfl Hn Hl Hnl. pose proof (s_write_ok d b fl0) as S.
    destruct (s_write d b fl0) as [[d' e] fl1]. destruct S as [used [Hu [He [Hc Hd]]]].
    exists (pre ++ used). split; [rewrite Hfl, Hu, app_assoc; reflexivity|].
    split. { rewrite app_length. unfold ntrue in *. rewrite filter_app, app_length. lia. }
    split. { unfold nlost in *. rewrite filter_app, app_length. destruct Hc as [->| ->]; cbn; lia. }
    unfold lost in *. rewrite existsb_app, Hl. cbn [orb]. rewrite Hd, app_assoc. reflexivity. }
  destruct (m <? N.of_nat (length d))%N.
  - destruct (pop_cases fl) as [[-> ->] | [f1 [r1 [-> ->]]]].
    + (* oracle exhausted *)
      cbn [pop hd tl].
      pose proof (s_write_ok [] b []) as S. destruct (s_write [] b []) as [[d' e] fl1]. destruct S as [used [Hu [He [Hc Hd]]]].
      exists used. split; [exact Hu|]. split; [exact He|]. split; [destruct Hc as [->| ->]; cbn; lia|].
      rewrite stream_cur, concat_app. cbn [concat]. rewrite Hd, app_nil_r, <- !app_assoc. reflexivity.
    + destruct f1.
      * (* the rename fails *)
        pose proof (W [true] r1 [ELogFile] eq_refl eq_refl eq_refl eq_refl) as S.
        destruct (s_write d b r1) as [[d' e] fl2]. rewrite Same. exact S.
      * destruct (pop_cases r1) as [[-> ->] | [f2 [r2 [-> ->]]]].
        -- pose proof (s_write_ok [] b []) as S. destruct (s_write [] b []) as [[d' e] fl1]. destruct S as [used [Hu [He [Hc Hd]]]].
           exists (false :: used). split; [cbn [app]; rewrite <- Hu; reflexivity|].
           split; [rewrite ntrue_cons; exact He|]. split; [destruct Hc as [->| ->]; cbn; lia|].
           rewrite stream_cur, concat_app. cbn [concat]. rewrite Hd, app_nil_r, <- !app_assoc. reflexivity.
        -- destruct f2.
           ++ (* the creation of the new current file fails *)
              pose proof (W [false; true] r2 [ELogFile] eq_refl eq_refl eq_refl eq_refl) as S.
              destruct (s_write d b r2) as [[d' e] fl3]. rewrite stream_old. exact S.
           ++ pose proof (s_write_ok [] b r2) as S. destruct (s_write [] b r2) as [[d' e] fl1]. destruct S as [used [Hu [He [Hc Hd]]]].
              exists (false :: false :: used). split; [cbn [app]; rewrite <- Hu; reflexivity|].
              split; [rewrite !ntrue_cons; exact He|]. split; [destruct Hc as [->| ->]; cbn; lia|].
              rewrite stream_cur, concat_app. cbn [concat]. rewrite Hd, app_nil_r, <- !app_assoc. reflexivity.
  - pose proof (W [] fl [] eq_refl eq_refl eq_refl eq_refl) as S.
    destruct (s_write d b fl) as [[d' e] fl1]. rewrite Same. exact S.
Qed.

Lemma step_ok_prefix st st0 fl pre fl0 b r : fl = pre ++ fl0 -> ntrue pre = 0 -> stream st0 = stream st ->
  step_ok st0 fl0 b r -> step_ok st fl b r.
Proof.
  intros Hfl Hn Hs. destruct r as [[st' e] fl']. unfold step_ok. intros [used [Hu [He [Hl Hst]]]].
  exists (pre ++ used). split; [rewrite Hfl, Hu, app_assoc; reflexivity|].
  split. { unfold ntrue in *. rewrite filter_app, app_length. lia. }
  split; [exact Hl|]. rewrite Hst, Hs. reflexivity.
Qed.

Lemma s_init_ok app m created b fl : step_ok (SInit created) fl b (s_init app m created b fl).
Proof.
  (* a failing step of the initialisation *)
  assert (Fail : forall pre fl' cr, fl = pre ++ true :: fl' -> ntrue pre = 0 -> step_ok (SInit created) fl b (SInit cr, [EWrite], fl')).
  { intros pre fl' cr Hfl Hn. exists (pre ++ [true]). split; [rewrite Hfl, <- app_assoc; reflexivity|].
    split. { unfold ntrue in *. rewrite filter_app, app_length. cbn. lia. }
    split; [cbn; lia|]. rewrite !stream_init. reflexivity. }
  assert (Go : forall pre fl', fl = pre ++ fl' -> ntrue pre = 0 -> step_ok (SInit created) fl b (s_active m false [] [] b fl')).
  { intros pre fl' Hfl Hn. apply (step_ok_prefix (SInit created) (SCur [] []) fl pre fl' b _ Hfl Hn).
    - rewrite stream_init. reflexivity.
    - apply (s_active_ok m false [] [] b fl'). }
  unfold s_init.
  destruct (pop_cases fl) as [[-> ->] | [f1 [r1 [-> ->]]]].
  - (* no faults at all *)
    destruct app; cbn [pop hd tl]; apply (Go [] []); reflexivity.
  - destruct f1; [apply (Fail [] r1 created); reflexivity|].
    destruct app.
    + destruct (pop_cases r1) as [[-> ->] | [f3 [r3 [-> ->]]]].
      * cbn [pop hd tl]. apply (Go [false] []); reflexivity.
      * destruct f3; [apply (Fail [false] r3 created); reflexivity|].
        destruct (pop_cases r3) as [[-> ->] | [f4 [r4 [-> ->]]]].
        -- apply (Go [false; false] []); reflexivity.
        -- destruct f4; [apply (Fail [false; false] r4 true); reflexivity|].
           apply (Go [false; false; false] r4); reflexivity.
    + destruct (pop_cases r1) as [[-> ->] | [f2 [r2 [-> ->]]]].
      * cbn [pop hd tl]. apply (Go [false] []); reflexivity.
      * destruct f2; [apply (Fail [false] r2 created); reflexivity|].
        destruct (pop_cases r2) as [[-> ->] | [f3 [r3 [-> ->]]]].
        -- apply (Go [false; false] []); reflexivity.
        -- destruct f3; [apply (Fail [false; false] r3 created); reflexivity|].
           apply (Go [false; false; false] r3); reflexivity.
Qed.

Theorem sstep_ok app m st fl b : step_ok st fl b (sstep app m st fl b).
Proof.
  destruct st as [created|cl d|cl d]; cbn [sstep].
  - apply s_init_ok.
  - apply (s_active_ok m false cl d b fl).
  - apply (s_active_ok m true cl d b fl).
Qed.

(* ------------------------------------------------------------------ whole lists of records *)
(* per record: the record, the reports of its log call, the oracle entries its log call consumed *)
Record entry := { t_rec : bytes; t_errs : list ecode; t_used : list bool }.
Fixpoint trace (app : bool) (m : N) (st : sst) (fl : list bool) (recs : list bytes) : list entry :=
  match recs with
  | [] => []
  | b :: rest =>
    let '(st1, e1, fl1) := sstep app m st fl b in
    {| t_rec := b; t_errs := e1; t_used := firstn (length fl - length fl1) fl |} :: trace app m st1 fl1 rest
  end.
(* what the record contributes to the stream *)
Definition t_kept (x : entry) : bytes := if lost (t_errs x) then [] else t_rec x.

Lemma firstn_used {A} (used rest : list A) : firstn (length (used ++ rest) - length rest) (used ++ rest) = used.
Proof.
  rewrite app_length. replace (length used + length rest - length rest) with (length used + 0) by lia.
  rewrite firstn_app_2. cbn. apply app_nil_r.
Qed.

Lemma ntrue_0_all_false l : ntrue l = 0 <-> (forall f, In f l -> f = false).
Proof.
  induction l as [|f r IH]; [cbn; tauto|]. rewrite ntrue_cons. split.
  - intros H x [<-|Hx]; [destruct f; [cbn in H; lia | reflexivity] | apply IH; [destruct f; cbn in H; lia | exact Hx]].
  - intros H. rewrite (H f (or_introl eq_refl)). cbn. apply IH. intros x Hx. apply H. right. exact Hx.
Qed.

Lemma lost_nlost e : lost e = true <-> 1 <= nlost e.
Proof.
  unfold lost, nlost. induction e as [|x r IH]; cbn [existsb filter length]; [split; [discriminate | lia]|].
  destruct (is_ewrite x); cbn [orb length]; [split; [lia | reflexivity] | exact IH].
Qed.

Lemma nlost_app a b : nlost (a ++ b) = nlost a + nlost b.
Proof. unfold nlost. rewrite filter_app, app_length. reflexivity. Qed.
Lemma nlost_le e : nlost e <= length e.
Proof. unfold nlost. induction e as [|x r IH]; cbn [filter length]; [lia|]. destruct (is_ewrite x); cbn [length]; lia. Qed.

(* the run of the specification, described record by record *)
Theorem simr_trace app m : forall recs st fl,
  let '(st', e, fl') := simr_st app m st fl recs in
  let t := trace app m st fl recs in
  List.map t_rec t = recs
  /\ fl = concat (List.map t_used t) ++ fl'
  /\ e = concat (List.map t_errs t)
  /\ stream st' = stream st ++ concat (List.map t_kept t)
  /\ Forall (fun x => length (t_errs x) = ntrue (t_used x) /\ nlost (t_errs x) <= 1) t.
Proof.
  induction recs as [|b rest IH]; intros st fl; cbn [simr_st trace].
  - cbn. rewrite app_nil_r. repeat split. constructor.
  - pose proof (sstep_ok app m st fl b) as S. destruct (sstep app m st fl b) as [[st1 e1] fl1].
    specialize (IH st1 fl1). destruct (simr_st app m st1 fl1 rest) as [[st2 e2] fl2].
    destruct S as [used [Hu [He [Hl Hs]]]]. destruct IH as [H1 [H2 [H3 [H4 H5]]]].
    cbn [List.map concat t_rec t_used t_errs]. subst fl. rewrite firstn_used.
    split; [rewrite H1; reflexivity|].
    split; [rewrite <- app_assoc, <- H2; reflexivity|].
    split; [rewrite H3; reflexivity|].
    split. { rewrite H4, Hs, <- app_assoc. reflexivity. }
    constructor; [cbn [t_errs t_used]; split; assumption | exact H5].
Qed.

Lemma simr_st_app app m : forall recs1 recs2 st fl,
  simr_st app m st fl (recs1 ++ recs2)
  = let '(st1, e1, fl1) := simr_st app m st fl recs1 in
    let '(st2, e2, fl2) := simr_st app m st1 fl1 recs2 in (st2, e1 ++ e2, fl2).
Proof.
  induction recs1 as [|b rest IH]; intros recs2 st fl; cbn [Datatypes.app simr_st].
  - destruct (simr_st app m st fl recs2) as [[st2 e2] fl2]. reflexivity.
  - destruct (sstep app m st fl b) as [[st1 e1] fl1]. rewrite IH.
    destruct (simr_st app m st1 fl1 rest) as [[st2 e2] fl2].
    destruct (simr_st app m st2 fl2 recs2) as [[st3 e3] fl3]. rewrite app_assoc. reflexivity.
Qed.

(* (2) Only records during whose own log call a failing call was consumed can be missing; the stream consists of the
   other records, in order, each once.  More precisely, with t the list of log calls (record, reports, oracle
   entries consumed):  the consumed entries partition the consumed part of the oracle; the reports are those of
   the calls; the stream is the concatenation of the records that were not lost; a record is lost only if its
   call reported EWrite, and a call reports exactly as many errors as it consumed failing entries - so a record
   whose call consumed only `false` entries is in the stream and nothing is reported for it. *)
Theorem lost_only_around_failures app m fl recs :
  let '(st', e, fl') := simr_st app m (SInit false) fl recs in
  let t := trace app m (SInit false) fl recs in
  List.map t_rec t = recs
  /\ fl = concat (List.map t_used t) ++ fl'
  /\ e = concat (List.map t_errs t)
  /\ stream st' = concat (List.map t_kept t)
  /\ (forall x, In x t -> length (t_errs x) = ntrue (t_used x))
  /\ (forall x, In x t -> (forall f, In f (t_used x) -> f = false) -> t_errs x = [] /\ t_kept x = t_rec x)
  /\ (forall x, In x t -> t_kept x <> t_rec x -> In true (t_used x) /\ In EWrite (t_errs x)).
Proof.
  pose proof (simr_trace app m recs (SInit false) fl) as T.
  destruct (simr_st app m (SInit false) fl recs) as [[st' e] fl']. cbv zeta in T |- *.
  destruct T as [H1 [H2 [H3 [H4 H5]]]]. rewrite Forall_forall in H5.
  split; [exact H1|]. split; [exact H2|]. split; [exact H3|]. split; [exact H4|].
  split; [intros x Hx; apply (H5 x Hx)|].
  split.
  - intros x Hx Hall. destruct (H5 x Hx) as [Hn _]. apply ntrue_0_all_false in Hall. rewrite Hall in Hn.
    destruct (t_errs x) eqn:E; [|discriminate]. unfold t_kept. rewrite E. split; reflexivity.
  - intros x Hx Hk. destruct (H5 x Hx) as [Hn _]. unfold t_kept in Hk.
    destruct (lost (t_errs x)) eqn:El; [|congruence]. split.
    + destruct (in_dec Bool.bool_dec true (t_used x)) as [Hi|Hi]; [exact Hi|]. exfalso.
      assert (Hall : forall f, In f (t_used x) -> f = false) by (intros [|] Hf; [contradiction | reflexivity]).
      apply ntrue_0_all_false in Hall. rewrite Hall in Hn. destruct (t_errs x); [discriminate El | discriminate Hn].
    + unfold lost in El. apply existsb_exists in El. destruct El as [c [Hc Ec]]. destruct c; try discriminate. exact Hc.
Qed.

(* the same in the form of FaultFacts.lost_only_failed: the stream is the concatenation of a subsequence of the
   records (no duplication, no reordering), and (3) each missing record is one reported EWrite: the number of
   missing records is at most the number of reported errors *)
Theorem loss_is_reported app m : forall recs st fl,
  let '(st', e, _) := simr_st app m st fl recs in
  exists kept, Subseq kept recs /\ stream st' = stream st ++ concat kept
    /\ length recs = length kept + nlost e /\ nlost e <= length e.
Proof.
  induction recs as [|b rest IH]; intros st fl; cbn [simr_st].
  - exists []. cbn. rewrite app_nil_r. repeat split; [constructor | lia].
  - pose proof (sstep_ok app m st fl b) as S. destruct (sstep app m st fl b) as [[st1 e1] fl1].
    specialize (IH st1 fl1). destruct (simr_st app m st1 fl1 rest) as [[st2 e2] fl2].
    destruct S as [used [Hu [He [Hl Hs]]]]. destruct IH as [kept [Hsub [Hst [Hlen Hle]]]].
    pose proof (nlost_le (e1 ++ e2)) as Hle2. rewrite nlost_app in Hle2.
    destruct (lost e1) eqn:El.
    + exists kept. split; [constructor; exact Hsub|]. rewrite Hst, Hs, app_nil_r. split; [reflexivity|].
      apply lost_nlost in El. rewrite nlost_app. cbn [length]. split; lia.
    + exists (b :: kept). split; [constructor; exact Hsub|]. rewrite Hst, Hs, <- app_assoc. split; [reflexivity|].
      assert (nlost e1 = 0). { destruct (nlost e1) eqn:E; [reflexivity|]. assert (lost e1 = true) by (apply lost_nlost; lia). congruence. }
      rewrite nlost_app. cbn [length]. split; lia.
Qed.

(* ------------------------------------------------------------------ (4) recovery *)
(* the view of the fault-free development (NumRun.aview): closed files and the content of the writer's file *)
Definition aview_of (st : sst) : aview :=
  match st with SInit _ => None | SCur cl d => Some (cl, d) | SOld cl d => Some (cl, d) end.
(* in the state SOld a rotation is pending *)
Definition pending_ok (m : N) (st : sst) : Prop :=
  match st with SOld _ d => (m <? N.of_nat (length d))%N = true | _ => True end.

Definition all_false (fl : list bool) : Prop := forall f, In f fl -> f = false.
Lemma pop_all_false fl : all_false fl -> fst (pop fl) = false /\ all_false (snd (pop fl)).
Proof.
  intros H. destruct fl as [|f r]; cbn [pop hd tl fst snd]; [split; [reflexivity | exact H]|].
  split; [apply H; left; reflexivity | intros x Hx; apply H; right; exact Hx].
Qed.

Lemma s_write_pending d b fl : let '(d', _, _) := s_write d b fl in length d <= length d'.
Proof.
  unfold s_write. destruct (wr_pop b fl) as [f fl1]. destruct f; [lia | rewrite app_length; lia].
Qed.

Lemma sstep_pending app m st fl b : pending_ok m st -> pending_ok m (fst (fst (sstep app m st fl b))).
Proof.
  assert (A : forall (old : bool) cl d fl, pending_ok m (if old then SOld cl d else SCur cl d : sst) ->
              pending_ok m (fst (fst (s_active m old cl d b fl)))).
  { intros old cl d fl0 P. unfold s_active.
    destruct (m <? N.of_nat (length d))%N eqn:Em.
    - destruct (pop fl0) as [f1 fl1]. destruct f1.
      + pose proof (s_write_pending d b fl1) as L. destruct (s_write d b fl1) as [[d' e] fl2]. cbn [fst].
        destruct old; cbn [pending_ok]; [lia | exact I].
      + destruct (pop fl1) as [f2 fl2]. destruct f2.
        * pose proof (s_write_pending d b fl2) as L. destruct (s_write d b fl2) as [[d' e] fl3]. cbn [fst pending_ok]. lia.
        * destruct (s_write [] b fl2) as [[d' e] fl3]. exact I.
    - pose proof (s_write_pending d b fl0) as L. destruct (s_write d b fl0) as [[d' e] fl1]. cbn [fst].
      destruct old; cbn [pending_ok] in *; [congruence | exact I]. }
  intros P. destruct st as [created|cl d|cl d]; cbn [sstep].
  - unfold s_init. destruct (pop fl) as [f1 fl1]. destruct f1; [exact I|].
    destruct (if app then (false, fl1) else pop fl1) as [f2 fl2]. destruct f2; [exact I|].
    destruct (pop fl2) as [f3 fl3]. destruct f3; [exact I|].
    destruct (if app then pop fl3 else (false, fl3)) as [f4 fl4]. destruct f4; [exact I|].
    apply (A false [] [] fl4). exact I.
  - apply (A false cl d fl). exact I.
  - apply (A true cl d fl). exact P.
Qed.

Lemma simr_st_pending app m : forall recs st fl, pending_ok m st -> pending_ok m (fst (fst (simr_st app m st fl recs))).
Proof.
  induction recs as [|b rest IH]; intros st fl P; cbn [simr_st]; [exact P|].
  pose proof (sstep_pending app m st fl b P) as P1. destruct (sstep app m st fl b) as [[st1 e1] fl1]. cbn [fst] in P1.
  specialize (IH st1 fl1 P1). destruct (simr_st app m st1 fl1 rest) as [[st2 e2] fl2]. exact IH.
Qed.

(* one record when no more failures come: nothing is reported, the record is appended, a pending rotation is
   carried out, and the state is that of the fault-free size rule *)
Lemma sstep_recovered app m st fl b : all_false fl -> pending_ok m st ->
  let '(st', e, fl') := sstep app m st fl b in
  e = [] /\ all_false fl' /\ (exists cl d, st' = SCur cl d)
  /\ aview_of st' = a_step (aview_of st) (OWrite b) (m <? N.of_nat (length (cur_of (aview_of st))))%N.
Proof.
  intros Hf P.
  assert (W : forall d fl0, all_false fl0 -> let '(d', e, fl1) := s_write d b fl0 in d' = d ++ b /\ e = [] /\ all_false fl1).
  { intros d fl0 H0. unfold s_write, wr_pop. destruct b as [|x b']; [rewrite app_nil_r; auto|].
    destruct (pop_all_false fl0 H0) as [E1 E2]. destruct (pop fl0) as [f fl1]. cbn [fst snd] in *. subst f. auto. }
  assert (A : forall (old : bool) cl d fl0, all_false fl0 -> (old = true -> (m <? N.of_nat (length d))%N = true) ->
     let '(st', e, fl') := s_active m old cl d b fl0 in
     e = [] /\ all_false fl' /\ (exists cl' d', st' = SCur cl' d')
     /\ aview_of st' = a_step (Some (cl, d)) (OWrite b) (m <? N.of_nat (length d))%N).
  { intros old cl d fl0 H0 Ho. unfold s_active. cbn [a_step].
    destruct (m <? N.of_nat (length d))%N eqn:Em.
    - destruct (pop_all_false fl0 H0) as [E1 E2]. destruct (pop fl0) as [f1 fl1]. cbn [fst snd] in *. subst f1.
      destruct (pop_all_false fl1 E2) as [E3 E4]. destruct (pop fl1) as [f2 fl2]. cbn [fst snd] in *. subst f2.
      pose proof (W [] fl2 E4) as S. destruct (s_write [] b fl2) as [[d' e] fl3]. destruct S as [-> [-> S3]].
      split; [reflexivity|]. split; [exact S3|]. split; [eauto | reflexivity].
    - pose proof (W d fl0 H0) as S. destruct (s_write d b fl0) as [[d' e] fl1]. destruct S as [-> [-> S3]].
      destruct old; [specialize (Ho eq_refl); congruence|].
      split; [reflexivity|]. split; [exact S3|]. split; [eauto | reflexivity]. }
  destruct st as [created|cl d|cl d]; cbn [sstep aview_of cur_of].
  - unfold s_init.
    destruct (pop_all_false fl Hf) as [E1 E2]. destruct (pop fl) as [f1 fl1]. cbn [fst snd] in *. subst f1.
    assert (X2 : fst (if app then (false, fl1) else pop fl1) = false /\ all_false (snd (if app then (false, fl1) else pop fl1))).
    { destruct app; [split; [reflexivity | exact E2] | apply pop_all_false; exact E2]. }
    destruct (if app then (false, fl1) else pop fl1) as [f2 fl2]. cbn [fst snd] in X2. destruct X2 as [-> E3].
    destruct (pop_all_false fl2 E3) as [E4 E5]. destruct (pop fl2) as [f3 fl3]. cbn [fst snd] in *. subst f3.
    assert (X4 : fst (if app then pop fl3 else (false, fl3)) = false /\ all_false (snd (if app then pop fl3 else (false, fl3)))).
    { destruct app; [apply pop_all_false; exact E5 | split; [reflexivity | exact E5]]. }
    destruct (if app then pop fl3 else (false, fl3)) as [f4 fl4]. cbn [fst snd] in X4. destruct X4 as [-> E6].
    pose proof (A false [] [] fl4 E6 (fun H => False_ind _ (Bool.diff_false_true H))) as S.
    destruct (s_active m false [] [] b fl4) as [[st' e] fl']. exact S.
  - apply (A false cl d fl Hf). discriminate.
  - apply (A true cl d fl Hf). intros _. exact P.
Qed.

Lemma s_run_write_cons m a b rest :
  s_run m a (OWrite b :: rest) = s_run m (a_step a (OWrite b) (m <? N.of_nat (length (cur_of a)))%N) rest.
Proof. reflexivity. Qed.

(* (4) Once no more failures come (the rest of the oracle is empty or all `false`), nothing more is reported, every
   further record is in the stream, and rotation works again: the view develops exactly by the fault-free size rule
   NumRun.s_run (rotate before a record iff the file holds more than m bytes), starting with the rotation that is
   still pending if the last failure left the writer on a renamed file; after the first such record rCURRENT
   exists again. *)
Theorem recovery_spec app m : forall recs st fl, all_false fl -> pending_ok m st ->
  let '(st', e, fl') := simr_st app m st fl recs in
  e = [] /\ all_false fl' /\ stream st' = stream st ++ concat recs
  /\ aview_of st' = s_run m (aview_of st) (List.map OWrite recs)
  /\ (recs <> [] -> exists cl d, st' = SCur cl d).
Proof.
  induction recs as [|b rest IH]; intros st fl Hf P; cbn [simr_st List.map].
  - cbn. rewrite app_nil_r. repeat split; try assumption. intros H; contradiction.
  - rewrite s_run_write_cons.
    pose proof (sstep_recovered app m st fl b Hf P) as S. pose proof (sstep_ok app m st fl b) as K.
    destruct (sstep app m st fl b) as [[st1 e1] fl1]. destruct S as [-> [Hf1 [[cl1 [d1 Est]] Hv]]].
    destruct K as [used [_ [_ [_ Hs]]]]. cbn [lost existsb] in Hs.
    assert (P1 : pending_ok m st1) by (rewrite Est; exact I).
    specialize (IH st1 fl1 Hf1 P1). destruct (simr_st app m st1 fl1 rest) as [[st2 e2] fl2] eqn:Er.
    destruct IH as [-> [Hf2 [Hs2 [Hv2 Hc2]]]].
    split; [reflexivity|]. split; [exact Hf2|].
    split; [rewrite Hs2, Hs; cbn [concat]; rewrite <- app_assoc; reflexivity|].
    split; [rewrite Hv2, Hv; reflexivity|].
    intros _. destruct rest as [|b2 rest2]; [|apply Hc2; discriminate].
    cbn [simr_st] in Er. injection Er as <- _. eauto.
Qed.

Theorem recovery_rotation app m fl recs1 recs2 :
  let '(st1, e1, fl1) := simr_st app m (SInit false) fl recs1 in
  all_false fl1 ->
  let '(st2, e2, fl2) := simr_st app m (SInit false) fl (recs1 ++ recs2) in
  e2 = e1 /\ stream st2 = stream st1 ++ concat recs2
  /\ aview_of st2 = s_run m (aview_of st1) (List.map OWrite recs2)
  /\ (recs2 <> [] -> exists cl d, st2 = SCur cl d).
Proof.
  rewrite simr_st_app.
  pose proof (simr_st_pending app m recs1 (SInit false) fl I) as P.
  destruct (simr_st app m (SInit false) fl recs1) as [[st1 e1] fl1]. cbn [fst] in P. intros Hf.
  pose proof (recovery_spec app m recs2 st1 fl1 Hf P) as R.
  destruct (simr_st app m st1 fl1 recs2) as [[st2 e2] fl2]. destruct R as [-> [_ [Hs [Hv Hc]]]].
  rewrite app_nil_r. auto.
Qed.

(* without failures: the fault-free size rule from the start *)
Corollary no_faults_rotation app m recs :
  let '(st, e, _) := simr_st app m (SInit false) [] recs in
  e = [] /\ stream st = concat recs /\ aview_of st = s_run m None (List.map OWrite recs).
Proof.
  assert (Hf : all_false []) by (intros f []).
  pose proof (recovery_spec app m recs (SInit false) [] Hf I) as R.
  destruct (simr_st app m (SInit false) [] recs) as [[st e] fl']. destruct R as [-> [_ [Hs [Hv _]]]]. auto.
Qed.

Print Assumptions lost_only_around_failures.
Print Assumptions loss_is_reported.
Print Assumptions recovery_rotation.
