(* TimestampsDirect naming with a cleanup strategy, part 2: the invariant TsdKInv, one cleanup, one rotation (mount_next with
   cleanup), every history of basic operations with a clock that does not go backwards, and the end-to-end theorem
   timestampsdirect_cleanup_stream:  after the writer is stopped the directory holds exactly the file that was written last
   (the newest key), the newest n - 1 closed files as plain files, the next m closed files as archives with the same
   content, nothing else ((n, m) = klimd k, the effective limits of a direct naming: the current file counts as one of the n
   plain files, NumDCleanupStep.v).  The files are named by keys (second of their start, position within the second) as in
   TsdInv.v; `keys` lists the keys of ALL files ever written, also of those that have been removed.
   The abstract side (aview, a_run, ...) is the one of Numbers naming (NumRun.v). *)
Require Import FL.Base.Bytes FL.Base.BytesFacts FL.Base.PathName FL.Fs.Fs FL.Fs.FsFacts FL.Time.Civil FL.Time.TsFormat
  FL.Names.FileSpec FL.Names.NamesFacts FL.Names.SortFacts FL.Names.FamilyFacts FL.Flw.Model FL.Flw.ModelFacts FL.Flw.NumFs
  FL.Flw.NumInv FL.Flw.Run FL.Flw.RunFacts FL.Flw.NumRun FL.Oracles.O_Flw FL.Flw.NumTheorems FL.Flw.NumListing FL.Flw.CleanupFacts
  FL.Flw.NumKillRestart FL.Flw.NumDInv FL.Flw.NumDRun
  FL.Flw.NumCleanupNames FL.Flw.NumCleanupStep FL.Flw.NumCleanupRun FL.Flw.NumDCleanupStep FL.Flw.NumDCleanupRun
  FL.Flw.TsCal FL.Flw.TsTime FL.Flw.TsNames FL.Flw.TsInv FL.Flw.TsRun FL.Flw.TsTheorems FL.Flw.TsdInv FL.Flw.TsdRun
  FL.Flw.GenCleanup FL.Flw.TsCleanupNames.
From Coq Require Import ZifyN ZifyNat ZifyBool.
Open Scope nat_scope.

(* ------------------------------------------------------------------ configurations *)
Definition tsdkcfg (c : config) (crit : criterion) (k : cleanup) : Prop :=
  c_rot c = Some (crit, NTimestampsDirect, k) /\ fts (c_spec c) = false /\ c_symlink c = false /\ c_async c = false
  /\ c_bg c = false.

(* the side condition, as for the number namings: the suffix is not (and does not end with .)gz.  It is asked for whatever
   the strategy is (for KNever, which is covered by TsdTheorems.v without it, too) *)
Definition tside (c : config) (k : cleanup) : Prop := sfx_ok (c_spec c).

(* ------------------------------------------------------------------ the invariant *)
Record TsdKInv (c : config) (e lo0 : Z) (w : world) (wr : writer) (keys : list key) (closed : list bytes) (lo mid : nat) : Prop := {
  tk_quiet : quiet w;
  tk_wf : fs_wf (wfs w);
  tk_off : eoff c w = e;
  tk_len : length keys = S (length closed);
  tk_cur : lookup (wfs w) (tname c e keys (length closed)) = Some (wino wr);
  tk_curplain : plain (inode (wfs w) (wino wr));
  tk_mid : mid <= length closed;
  tk_dir : gdir (tname c e keys) (cname c) (wfs w) (closed ++ [content (wfs w) (wino wr)]) lo mid;
  tk_nocur : lookup (wfs w) (cname c) = None;
  tk_keys : keys_ok keys;
  tk_range : forall k, In k keys -> (lo0 <= fst k <= wnow w)%Z;
  tk_wr : wr_ok wr;
  tk_cap : wcap wr = c_cap c }.

Definition st_tsdk (c : config) (kc : cleanup) (e : Z) (k : key) (roll : roll_state) (wr : writer) : flw :=
  {| f_cfg := c; f_inner := Active (Some (mk_rsk kc (NSTs (fst k) None std_fmt) roll)) wr (kname c e k); f_poisoned := false |}.

Lemma tk_years c e lo0 hi w wr keys closed lo mid :
  years_ok e lo0 hi -> (wnow w <= hi)%Z -> TsdKInv c e lo0 w wr keys closed lo mid -> forall k, In k keys -> in_years e (fst k).
Proof. intros Y Hhi I k Ik. apply (years_in e lo0 hi); [exact Y|]. pose proof (tk_range _ _ _ _ _ _ _ _ _ I k Ik). lia. Qed.

Lemma tk_now c e lo0 w wr keys closed lo mid : TsdKInv c e lo0 w wr keys closed lo mid -> (lo0 <= wnow w)%Z.
Proof.
  intros I. pose proof (tk_len _ _ _ _ _ _ _ _ _ I) as Hlen.
  assert (Ik : In (nth 0 keys kd) keys) by (apply nth_In; lia).
  pose proof (tk_range _ _ _ _ _ _ _ _ _ I _ Ik). lia.
Qed.

(* ---- the cleanup keeps the invariant and moves the limits; the current file is not touched ---- *)
Lemma cleanup_tk c crit k e lo0 hi w wr keys closed lo mid :
  tsdkcfg c crit k -> tside c k -> years_ok e lo0 hi -> (wnow w <= hi)%Z -> TsdKInv c e lo0 w wr keys closed lo mid ->
  exists w', cleanup_impl c w k (IFTs std_fmt) (Some (tname c e keys (length closed))) = (Ok tt, w') /\ same_env w w'
    /\ TsdKInv c e lo0 w' wr keys closed (dnew_lo k lo (length closed)) (dnew_mid k mid (length closed))
    /\ cur_view w' wr = cur_view w wr.
Proof.
  intros (Hrot & Hts & Hlink & Has & Hbg) Hside Y Hhi I. pose proof I as [Q W Hoff Hlen Hc Hcp Hmid KD Hnc Hko Hrg Hwr Hcap].
  pose proof (tk_years _ _ _ _ _ _ _ _ _ _ Y Hhi I) as Yk.
  unfold tside, dnew_lo, dnew_mid in *. destruct (klimd k) as [[n m]|] eqn:Ek.
  - pose proof Hside as Hsfx. pose proof (klimd_pos _ _ _ Ek) as Hn.
    set (all := closed ++ [content (wfs w) (wino wr)]) in *.
    assert (Elen : length all = S (length closed)) by (unfold all; apply glen_snoc).
    assert (Hlen' : length keys = length all) by (rewrite Elen; exact Hlen).
    pose proof (gnames_ts c e keys Hsfx Hko Yk) as GN. rewrite Hlen' in GN.
    rewrite (cleanup_impl_unfold_d c w k (IFTs std_fmt) n m _ Ek Q), (fixed_of_fixed0 c w Hts).
    rewrite (list_log_gz_ts c e (woff w) (wfs w) keys all lo mid Hsfx Hko Yk Hlen' KD).
    destruct (gcleanup_d (tname c e keys) (cname c) w n m all lo mid GN Q W KD Hn) as (w' & E & S & W' & KD' & SC & SR).
    replace (length all - 1) with (length closed) in E by (rewrite Elen; lia).
    unfold cleanup_body in E. rewrite E. clear E.
    rewrite Elen in KD', SR.
    assert (SL : same_at (wfs w) (wfs w') (tname c e keys (length closed))) by (apply SR; lia).
    destruct (same_at_content _ _ _ _ SL Hc) as [Lc' Ic'].
    assert (Ec : content (wfs w') (wino wr) = content (wfs w) (wino wr)) by (unfold content; rewrite Ic'; reflexivity).
    exists w'. split; [reflexivity|]. split; [exact S|]. split.
    + constructor; auto.
      * apply S.
      * unfold eoff in *. destruct S as [_ [_ [-> _]]]. exact Hoff.
      * rewrite Ic'. exact Hcp.
      * lia.
      * rewrite Ec. exact KD'.
      * destruct SC as [SC _]. rewrite SC. exact Hnc.
      * destruct S as [_ [-> _]]. exact Hrg.
    + unfold cur_view. rewrite Ec. reflexivity.
  - apply klimd_none in Ek. subst k. exists w. split; [reflexivity|]. split; [apply same_env_refl; exact Q|]. split; [exact I | reflexivity].
Qed.

(* the newest key is the one of the current file: if a key with the present second exists, the last one has it *)
Lemma last_key_newest (keys : list key) t n L :
  keys_ok keys -> length keys = S L -> (forall k, In k keys -> (fst k <= t)%Z) -> (forall m, In (t, m) keys <-> m < n) -> 0 < n ->
  nth L keys kd = (t, n - 1).
Proof.
  intros K Hlen Hle Hn Hpos.
  assert (I1 : In (t, n - 1) keys) by (apply Hn; lia).
  destruct (In_nth keys _ kd I1) as [j [Hj Ej]]. rewrite Hlen in Hj.
  destruct (Nat.eq_dec j L) as [->|Hne]; [exact Ej|]. exfalso.
  pose proof (keys_sorted keys K j L ltac:(lia)) as X. rewrite Ej in X.
  assert (IL : In (nth L keys kd) keys) by (apply nth_In; lia).
  pose proof (Hle _ IL) as HL. destruct (nth L keys kd) as [tl ml] eqn:El. cbn [fst snd] in *.
  destruct X as [X|[X1 X2]]; cbn [fst snd] in *; [lia|]. subst tl. apply Hn in IL. lia.
Qed.

(* ---- one rotation ---- *)
Lemma mount_next_rotates_tk c crit k e lo0 hi w wr keys closed roll force :
  tsdkcfg c crit k -> tside c k -> tag_ok c -> years_ok e lo0 hi ->
  TsdKInv c e lo0 w wr keys closed (d_lo k (length closed)) (d_mid k (length closed)) ->
  (wnow w <= hi)%Z -> (N.of_nat (length keys) <= usize_max)%N ->
  force || rotation_necessary w roll = true ->
  exists w' wr' roll',
    mount_next c w (Active (Some (mk_rsk k (NSTs (fst (nth (length closed) keys kd)) None std_fmt) roll)) wr
                           (kname c e (nth (length closed) keys kd))) force
      = (Ok tt, w', Active (Some (mk_rsk k (NSTs (wnow w) None std_fmt) roll')) wr' (kname c e (wnow w, count (wnow w) keys)))
    /\ TsdKInv c e lo0 w' wr' (keys ++ [(wnow w, count (wnow w) keys)]) (closed ++ [cur_view w wr])
                (d_lo k (S (length closed))) (d_mid k (S (length closed)))
    /\ cur_view w' wr' = [] /\ roll_size_ok roll' 0 /\ same_env w w'
    /\ (forall m cur, roll = RSize m cur -> exists cur', roll' = RSize m cur')
    /\ roll' = roll_reset roll (wnow w).
Proof.
  intros Hcfg Hside T Y I Hhi Hmax Hnec. pose proof Hcfg as (Hrot & Hts & Hlink & Has & Hbg).
  pose proof I as [Q W Hoff Hlen Hc Hcp Hmid KD Hnc Hko Hrg Hwr Hcap].
  pose proof (tk_now _ _ _ _ _ _ _ _ _ I) as Hlo.
  pose proof (tk_years _ _ _ _ _ _ _ _ _ _ Y Hhi I) as Yk.
  assert (Ynow : in_years e (wnow w)) by (apply (years_in e lo0 hi); [exact Y | lia]).
  set (L := length closed) in *.
  set (knew := (wnow w, count (wnow w) keys)).
  set (keys' := keys ++ [knew]).
  assert (Hko' : keys_ok keys') by (apply ko_snoc; [exact Hko|]; intros k0 Ik; specialize (Hrg k0 Ik); lia).
  assert (Yk' : forall k0, In k0 keys' -> in_years e (fst k0)).
  { intros k0 Ik. apply in_app_or in Ik. destruct Ik as [Ik|[<-|[]]]; [exact (Yk _ Ik) | exact Ynow]. }
  assert (Hlen' : length keys' = S (S L)) by (unfold keys'; rewrite glen_snoc, Hlen; reflexivity).
  unfold mount_next. cbn [mk_rsk rs_roll rs_naming rs_cleanup rs_bg]. rewrite Hnec.
  unfold collision_free. rewrite !tick_quiet by assumption.
  rewrite (fixed_of_fixed0 c w Hts), infix_from_ts_tsx, Hoff.
  (* the answer of collision_free_infix: the next position of the present second *)
  assert (Eall : length keys = length (closed ++ [content (wfs w) (wino wr)])) by (rewrite glen_snoc; exact Hlen).
  pose proof Hside as Hsfx. unfold tside in Hsfx.
  assert (CF : collision_free_infix (woff w) (c_spec c) (fixed0 c) (wfs w) (tsx e (wnow w)) = Some (Some (infix_of e knew))).
  { apply (collision_free_infix_tsk c e (woff w) (wfs w) keys _ _ _ (wnow w) (count (wnow w) keys) T Hsfx Ynow Yk Eall KD).
    - exact (keys_count keys Hko (wnow w)).
    - pose proof (count_le_length (wnow w) keys). lia.
    - intros Hpos. exists L. rewrite glen_snoc. fold L. split; [pose proof (gd_le _ _ _ _ _ _ KD); lia|].
      apply last_key_newest; auto.
      + intros k0 Ik. specialize (Hrg k0 Ik). lia.
      + exact (keys_count keys Hko (wnow w)). }
  rewrite CF.
  unfold open_log_file. rewrite (name_of_fixed c w) by assumption.
  change (as_name (c_spec c) (fixed0 c) (Some (infix_of e knew))) with (kname c e knew).
  (* the directory after create + flush *)
  assert (Ext : forall i, i < length (closed ++ [content (wfs w) (wino wr)]) -> tname c e keys' i = tname c e keys i).
  { intros i Hi. apply tname_snoc. rewrite Eall. exact Hi. }
  pose proof (gdir_ext _ _ _ _ _ _ _ Ext KD) as KD1.
  assert (Enew : tname c e keys' (S L) = kname c e knew) by (unfold keys'; rewrite <- Hlen; apply tname_last).
  assert (Eold : tname c e keys' L = tname c e keys L) by (apply tname_snoc; lia).
  assert (GN : gnames (tname c e keys') (cname c) (S (S L))) by (rewrite <- Hlen'; apply gnames_ts; assumption).
  assert (ROT : lookup (wfs w) (kname c e knew) = None /\
          let f3 := append_ino (fst (create_file (wfs w) (kname c e knew) 0%N (wnow w))) (wino wr) (wpend wr) in
          let new := snd (create_file (wfs w) (kname c e knew) 0%N (wnow w)) in
          fs_wf f3 /\ lookup f3 (kname c e knew) = Some new /\ inode f3 new = fresh_file (wnow w)
          /\ lookup f3 (cname c) = None
          /\ gdir (tname c e keys') (cname c) f3 ((closed ++ [content (wfs w) (wino wr) ++ wpend wr]) ++ [content f3 new])
                  (d_lo k L) (d_mid k L)).
  { rewrite <- Enew.
    apply (gdir_rotate_d (tname c e keys') (cname c) (wfs w) closed _ _ (wino wr) (wpend wr) (wnow w) GN W KD1 Hmid); auto.
    fold L. rewrite Eold. exact Hc. }
  destruct ROT as (Ht & R). cbn zeta in R. destruct R as (W3 & L3t & Inew & Hnc3 & KD3).
  destruct (open_fresh_quiet c w (kname c e knew) Q Hlink Ht) as [w2 [Eop [F2 S2]]]. rewrite Eop.
  unfold w_drop. destruct (w_flush_quiet w2 wr (proj1 S2)) as [w3 [Efl [F3 S3]]]. rewrite Efl. cbn [fst snd].
  change (w_flush w3 {| wino := wino wr; wpend := []; wcap := wcap wr |})
    with (true, w3, {| wino := wino wr; wpend := []; wcap := wcap wr |}). cbn [fst snd].
  unfold cleanup_or_queue. cbn [ns_filter ns_writes_direct].
  set (new := snd (create_file (wfs w) (kname c e knew) 0%N (wnow w))) in *.
  set (f3 := append_ino (fst (create_file (wfs w) (kname c e knew) 0%N (wnow w))) (wino wr) (wpend wr)) in *.
  assert (F3' : wfs w3 = f3) by (rewrite F3, F2; reflexivity).
  set (wr' := {| wino := new; wpend := []; wcap := c_cap c |}).
  assert (SE : same_env w w3) by (eapply same_env_trans; eassumption).
  assert (Elen : length (closed ++ [cur_view w wr]) = S L) by apply glen_snoc.
  assert (I3 : TsdKInv c e lo0 w3 wr' keys' (closed ++ [cur_view w wr]) (d_lo k L) (d_mid k L)).
  { constructor.
    - exact (proj1 S3).
    - rewrite F3'. exact W3.
    - unfold eoff in *. destruct SE as [_ [_ [-> _]]]. exact Hoff.
    - rewrite Hlen', Elen. reflexivity.
    - rewrite F3', Elen, Enew. exact L3t.
    - rewrite F3'. cbn [wr' wino]. rewrite Inew. split; reflexivity.
    - rewrite Elen. lia.
    - rewrite F3'. exact KD3.
    - rewrite F3'. exact Hnc3.
    - exact Hko'.
    - destruct SE as [_ [-> _]]. intros k0 Ik. apply in_app_or in Ik. destruct Ik as [Ik|[<-|[]]].
      + exact (Hrg k0 Ik).
      + unfold knew. cbn [fst]. lia.
    - unfold wr_ok, wr'. cbn. destruct (c_cap c); [lia | reflexivity].
    - reflexivity. }
  assert (Hhi3 : (wnow w3 <= hi)%Z) by (rewrite (same_env_now _ _ SE); exact Hhi).
  destruct (cleanup_tk c crit k e lo0 hi w3 wr' _ _ _ _ Hcfg Hside Y Hhi3 I3) as (w4 & Ecl & S4 & I4 & V4).
  rewrite Elen, Enew in Ecl. rewrite Ecl. rewrite Elen, dnew_lo_step, dnew_mid_step in I4.
  exists w4, wr', (reset_size_and_date w3 roll (kname c e knew)).
  split; [reflexivity|]. split; [exact I4|].
  split. { rewrite V4. unfold cur_view. rewrite F3'. cbn [wr' wino wpend]. unfold content. rewrite Inew. reflexivity. }
  split. { destruct roll; cbn; auto. }
  split; [eapply same_env_trans; eassumption|].
  split; [intros m cur ->; cbn; eauto|].
  assert (B : birth_or_now w3 (kname c e knew) = wnow w).
  { unfold birth_or_now, file_of. rewrite F3', L3t. fold new. rewrite Inew. reflexivity. }
  unfold reset_size_and_date. rewrite B. destruct roll; reflexivity.
Qed.

(* ---- appending to the current inode keeps the invariant ---- *)
Lemma tsdkinv_append c e lo0 hi w w' wr wr' keys closed lo mid x :
  sfx_ok (c_spec c) -> years_ok e lo0 hi -> (wnow w <= hi)%Z ->
  TsdKInv c e lo0 w wr keys closed lo mid -> wfs w' = append_ino (wfs w) (wino wr) x -> same_env w w' ->
  wino wr' = wino wr -> wcap wr' = wcap wr -> wr_ok wr' ->
  TsdKInv c e lo0 w' wr' keys closed lo mid /\ content (wfs w') (wino wr') = content (wfs w) (wino wr) ++ x.
Proof.
  intros Hsfx Y Hhi I F SE Ei Ec Hok. pose proof (tk_years _ _ _ _ _ _ _ _ _ _ Y Hhi I) as Yk.
  destruct I as [Q W Hoff Hlen Hc Hcp Hmid KD Hnc Hko Hrg Hwr Hcap].
  pose proof (wf_bound _ W _ _ Hc) as Hold.
  assert (C' : content (wfs w') (wino wr') = content (wfs w) (wino wr) ++ x).
  { rewrite F, Ei, content_append, Nat.eqb_refl by assumption. reflexivity. }
  assert (GN : gnames (tname c e keys) (cname c) (S (length closed))) by (rewrite <- Hlen; apply gnames_ts; assumption).
  split; [|exact C'].
  constructor.
  - exact (proj1 SE).
  - rewrite F. apply wf_append. exact W.
  - unfold eoff in *. destruct SE as [_ [_ [-> _]]]. exact Hoff.
  - exact Hlen.
  - rewrite F, lookup_append, Ei. exact Hc.
  - rewrite F, Ei, inode_append, Nat.eqb_refl by assumption. exact Hcp.
  - exact Hmid.
  - rewrite C', F. apply gdir_append; assumption.
  - rewrite F, lookup_append. exact Hnc.
  - exact Hko.
  - destruct SE as [_ [-> _]]. exact Hrg.
  - exact Hok.
  - congruence.
Qed.

(* ---- a write on an active writer ---- *)
Lemma write_active_tk c crit k e lo0 hi w wr keys closed roll b :
  tsdkcfg c crit k -> tside c k -> tag_ok c -> years_ok e lo0 hi ->
  TsdKInv c e lo0 w wr keys closed (d_lo k (length closed)) (d_mid k (length closed)) ->
  (wnow w <= hi)%Z -> (N.of_nat (length keys) <= usize_max)%N -> roll_size_ok roll (length (cur_view w wr)) ->
  let rot := rotation_necessary w roll in
  exists w' wr' roll' keys' closed',
    write_buffer (st_tsdk c k e (nth (length closed) keys kd) roll wr) w b
      = (Ok tt, w', st_tsdk c k e (nth (length closed') keys' kd) roll' wr', rot)
    /\ TsdKInv c e lo0 w' wr' keys' closed' (d_lo k (length closed')) (d_mid k (length closed'))
    /\ roll_size_ok roll' (length (cur_view w' wr')) /\ same_env w w'
    /\ (closed', cur_view w' wr') = (if rot then (closed ++ [cur_view w wr], b) else (closed, cur_view w wr ++ b))
    /\ (forall m cur, roll = RSize m cur -> exists cur', roll' = RSize m cur')
    /\ roll' = increase_size (if rot then roll_reset roll (wnow w) else roll) (N.of_nat (length b)).
Proof.
  intros Hcfg Hside T Y I Hhi Hmax Hsz rot.
  unfold write_buffer, st_tsdk. cbn [f_cfg f_inner f_poisoned mk_rsk rs_roll]. fold rot.
  assert (M : exists w1 wr1 roll1 keys1 closed1,
            mount_next c w (Active (Some (mk_rsk k (NSTs (fst (nth (length closed) keys kd)) None std_fmt) roll)) wr
                                   (kname c e (nth (length closed) keys kd))) false
            = (Ok tt, w1, Active (Some (mk_rsk k (NSTs (fst (nth (length closed1) keys1 kd)) None std_fmt) roll1)) wr1
                                 (kname c e (nth (length closed1) keys1 kd)))
            /\ TsdKInv c e lo0 w1 wr1 keys1 closed1 (d_lo k (length closed1)) (d_mid k (length closed1))
            /\ roll_size_ok roll1 (length (cur_view w1 wr1)) /\ same_env w w1
            /\ (closed1, cur_view w1 wr1) = (if rot then (closed ++ [cur_view w wr], []) else (closed, cur_view w wr))
            /\ (forall m cur, roll = RSize m cur -> exists cur', roll1 = RSize m cur')
            /\ roll1 = (if rot then roll_reset roll (wnow w) else roll)).
  { destruct rot eqn:Er.
    - destruct (mount_next_rotates_tk c crit k e lo0 hi w wr keys closed roll false Hcfg Hside T Y I Hhi Hmax)
        as [w1 [wr1 [roll1 [E [I1 [V1 [Z1 [S1 [R1 RR1]]]]]]]]]; [exact Er|].
      exists w1, wr1, roll1, (keys ++ [(wnow w, count (wnow w) keys)]), (closed ++ [cur_view w wr]). rewrite V1.
      assert (En : nth (length (closed ++ [cur_view w wr])) (keys ++ [(wnow w, count (wnow w) keys)]) kd = (wnow w, count (wnow w) keys)).
      { apply nth_snoc_last. rewrite glen_snoc. rewrite (tk_len _ _ _ _ _ _ _ _ _ I). reflexivity. }
      rewrite En. cbn [fst]. rewrite glen_snoc.
      split; [exact E|]. split; [exact I1|]. split; [exact Z1|]. split; [exact S1|]. split; [reflexivity|]. split; [exact R1 | exact RR1].
    - exists w, wr, roll, keys, closed. split.
      + unfold mount_next. cbn [mk_rsk rs_roll orb]. unfold rot in Er. rewrite Er. reflexivity.
      + split; [exact I|]. split; [exact Hsz|]. split; [apply same_env_refl; apply I|]. split; [reflexivity|]. split; [eauto | reflexivity]. }
  destruct M as [w1 [wr1 [roll1 [keys1 [closed1 [E [I1 [Z1 [S1 [V1 [R1 RR1]]]]]]]]]]].
  rewrite E.
  destruct (w_write_quiet w1 wr1 b (tk_quiet _ _ _ _ _ _ _ _ _ I1) (tk_wr _ _ _ _ _ _ _ _ _ I1)) as [w2 [wr2 [fl [Ew [S2 [F2 [Ei [Ec [Ep Hok]]]]]]]]].
  rewrite Ew.
  assert (Hhi1 : (wnow w1 <= hi)%Z) by (rewrite (same_env_now _ _ S1); exact Hhi).
  destruct (tsdkinv_append c e lo0 hi w1 w2 wr1 wr2 keys1 closed1 _ _ fl Hside Y Hhi1 I1 F2 S2 Ei Ec Hok) as [I2 C2].
  exists w2, wr2, (increase_size roll1 (N.of_nat (length b))), keys1, closed1.
  assert (V2 : cur_view w2 wr2 = cur_view w1 wr1 ++ b).
  { unfold cur_view. rewrite C2, <- !app_assoc, Ep. reflexivity. }
  split; [reflexivity|]. split; [exact I2|].
  split. { rewrite V2, app_length. apply roll_size_increase. exact Z1. }
  split; [eapply same_env_trans; eassumption|].
  split. { rewrite V2. destruct rot; injection V1 as -> ->; reflexivity. }
  split; [intros m cur Hr; destruct (R1 m cur Hr) as [cur' ->]; cbn; eauto|].
  rewrite RR1. reflexivity.
Qed.

(* ---- flush ---- *)
Lemma flush_active_tk c kc e lo0 hi w wr keys closed lo mid roll k :
  sfx_ok (c_spec c) -> years_ok e lo0 hi -> (wnow w <= hi)%Z ->
  TsdKInv c e lo0 w wr keys closed lo mid ->
  exists w' wr', flush_state (st_tsdk c kc e k roll wr) w = (true, w', st_tsdk c kc e k roll wr')
    /\ TsdKInv c e lo0 w' wr' keys closed lo mid /\ cur_view w' wr' = cur_view w wr /\ wpend wr' = [] /\ same_env w w'.
Proof.
  intros Hsfx Y Hhi I. unfold flush_state, st_tsdk. cbn [f_inner].
  destruct (w_flush_quiet w wr (tk_quiet _ _ _ _ _ _ _ _ _ I)) as [w1 [E [F S]]]. rewrite E.
  set (wr' := {| wino := wino wr; wpend := []; wcap := wcap wr |}).
  assert (Hok : wr_ok wr') by (unfold wr_ok, wr'; cbn; destruct (wcap wr); [lia | reflexivity]).
  destruct (tsdkinv_append c e lo0 hi w w1 wr wr' keys closed lo mid (wpend wr) Hsfx Y Hhi I F S eq_refl eq_refl Hok) as [I1 C1].
  exists w1, wr'. split; [reflexivity|]. split; [exact I1|]. split; [|split; [reflexivity | exact S]].
  unfold cur_view. rewrite C1. cbn [wr' wpend]. rewrite app_nil_r. reflexivity.
Qed.

(* ---- the first write initialises the writer on the empty directory; the initial cleanup finds only the new file ---- *)
Lemma initialize_empty_tk c crit k e lo0 hi w :
  tsdkcfg c crit k -> tside c k -> years_ok e lo0 hi -> (wnow w <= hi)%Z ->
  quiet w -> names (wfs w) = [] -> inodes (wfs w) = [] -> eoff c w = e -> (lo0 <= wnow w)%Z ->
  exists w' wr roll,
    initialize c w = (Ok (Active (Some (mk_rsk k (NSTs (wnow w) None std_fmt) roll)) wr (kname c e (wnow w, 0))), w')
    /\ TsdKInv c e lo0 w' wr [(wnow w, 0)] [] 0 0 /\ cur_view w' wr = [] /\ roll_size_ok roll 0 /\ same_env w w'
    /\ (forall m, crit = CSize m -> roll = RSize m 0)
    /\ roll = roll_init crit (wnow w).
Proof.
  intros Hcfg Hside Y Hhi Q Hn Hi Hoff Hlo. pose proof Hcfg as (Hrot & Hts & Hlink & Has & Hbg).
  unfold initialize. rewrite Hrot. unfold init_naming.
  rewrite (latest_timestamp_file_empty c w _ Q Hn). cbn [bind].
  unfold collision_free. rewrite !tick_quiet by assumption. rewrite collision_free_infix_empty by assumption. cbn [bind].
  rewrite newest_of_next_same.
  assert (E0 : (if c_append c then (Ok (NSTs (wnow w) None std_fmt, infix_from_ts c w std_fmt (wnow w)), w)
                else (Ok (NSTs (wnow w) None std_fmt, infix_from_ts c w std_fmt (wnow w)), w))
               = (Ok (NSTs (wnow w) None std_fmt, infix_from_ts c w std_fmt (wnow w)), w)) by (destruct (c_append c); reflexivity).
  rewrite E0. clear E0. cbn [bind].
  rewrite infix_from_ts_tsx, Hoff.
  unfold open_log_file. rewrite (name_of_fixed c w) by assumption.
  change (as_name (c_spec c) (fixed0 c) (Some (tsx e (wnow w)))) with (kname c e (wnow w, 0)).
  set (k0 := (wnow w, 0)).
  destruct (open_fresh_quiet c w (kname c e k0) Q Hlink (lookup_empty _ _ Hn)) as [w2 [Eop [F2 S2]]]. rewrite Eop. cbn [bind fst snd].
  unfold create_file in F2. cbn [fst snd] in F2. rewrite Hn, Hi in F2. cbn [length app] in F2.
  unfold create_file. cbn [snd]. rewrite Hi. cbn [length].
  set (wr := {| wino := 0; wpend := []; wcap := c_cap c |}).
  destruct (gdir_first (tname c e [k0]) (cname c) (wnow w)) as (KD0 & Lc0 & W0 & C0 & I0).
  change (tname c e [k0] 0) with (kname c e k0) in KD0, Lc0, W0, C0, I0.
  change (fresh_file (wnow w)) with {| fdata := []; fgz := 0%N; fborn := wnow w; fdir := false |} in KD0, Lc0, W0, C0, I0.
  rewrite <- F2 in KD0, Lc0, W0, C0, I0.
  assert (Fo : file_of (wfs w2) (kname c e k0) = Some (fresh_file (wnow w))) by (unfold file_of; rewrite Lc0, I0; reflexivity).
  assert (RN : exists roll, roll_new w2 crit (c_append c) (kname c e k0) = (Ok roll, w2) /\ roll_size_ok roll 0
               /\ (forall m, crit = CSize m -> roll = RSize m 0) /\ roll = roll_init crit (wnow w)).
  { assert (B : birth_or_now w2 (kname c e k0) = wnow w) by (unfold birth_or_now; rewrite Fo; reflexivity).
    unfold roll_new. destruct (c_append c).
    - rewrite tick_quiet by apply S2. rewrite Fo. cbn [fresh_file fdata length]. rewrite B.
      eexists. split; [reflexivity|]. split; [destruct crit; reflexivity|]. split; [intros m ->; reflexivity | destruct crit; reflexivity].
    - rewrite B. eexists. split; [reflexivity|]. split; [destruct crit; reflexivity|]. split; [intros m ->; reflexivity | destruct crit; reflexivity]. }
  destruct RN as [roll [Ern [Z [R RI]]]]. rewrite Ern. cbn [bind].
  assert (Ynow : in_years e (wnow w)) by (apply (years_in e lo0 hi); [exact Y | lia]).
  assert (I2 : TsdKInv c e lo0 w2 wr [k0] [] 0 0).
  { constructor; cbn [length app].
    - apply S2.
    - exact W0.
    - unfold eoff in *. destruct S2 as [_ [_ [-> _]]]. exact Hoff.
    - reflexivity.
    - exact Lc0.
    - cbn [wr wino]. rewrite I0. split; reflexivity.
    - lia.
    - exact KD0.
    - destruct (lookup (wfs w2) (cname c)) as [j|] eqn:E; [|reflexivity]. exfalso.
      destruct (gd_only _ _ _ _ _ _ KD0 _ _ E) as [X|[(i & Hi' & X)|(i & Hi' & _)]]; [| |lia].
      + rewrite F2 in E. unfold lookup in E. cbn in E. destruct (beq_spec (kname c e k0) (cname c)) as [X'|]; [|discriminate].
        exact (kname_not_cname c e k0 Ynow X').
      + cbn [length] in Hi'. assert (i = 0) by lia. subst i. symmetry in X. exact (kname_not_cname c e k0 Ynow X).
    - exact (ko_snoc [] (wnow w) ko_nil (fun k1 (H : In k1 []) => match H with end)).
    - destruct S2 as [_ [-> _]]. intros k1 [<-|[]]. unfold k0. cbn [fst]. lia.
    - unfold wr_ok, wr. cbn. destruct (c_cap c); [lia | reflexivity].
    - reflexivity. }
  (* the initial cleanup *)
  assert (Ecl : forall d, match k with KNever => (Ok tt, w2) | _ => cleanup_impl c w2 k (ns_filter (NSTs (wnow w) None std_fmt)) (if naming_writes_direct NTimestampsDirect then Some d else None) end
                = cleanup_impl c w2 k (IFTs std_fmt) (Some d)) by (intros d; destruct k; reflexivity).
  rewrite Ecl. clear Ecl.
  assert (Hhi2 : (wnow w2 <= hi)%Z) by (rewrite (same_env_now _ _ S2); exact Hhi).
  destruct (cleanup_tk c crit k e lo0 hi w2 wr [k0] [] 0 0 Hcfg Hside Y Hhi2 I2) as (w4 & E4 & S4 & I4 & V4).
  change (tname c e [k0] (length (@nil bytes))) with (kname c e k0) in E4. rewrite E4. cbn [bind].
  assert (Ebg : match k with KNever => false | _ => c_bg c end = false) by (destruct k; auto).
  rewrite Ebg.
  assert (Z0 : dnew_lo k 0 (length (@nil bytes)) = 0 /\ dnew_mid k 0 (length (@nil bytes)) = 0).
  { unfold dnew_lo, dnew_mid. destruct (klimd k) as [[n m]|] eqn:Ek; cbn [length]; [|split; reflexivity].
    apply klimd_pos in Ek. split; lia. }
  destruct Z0 as [Z1 Z2]. rewrite Z1, Z2 in I4.
  exists w4, wr, roll. split; [reflexivity|]. split; [exact I4|].
  split. { rewrite V4. unfold cur_view. cbn [wr wino wpend]. rewrite C0. reflexivity. }
  split; [exact Z|]. split; [eapply same_env_trans; eassumption|]. split; [exact R | exact RI].
Qed.

(* ------------------------------------------------------------------ the run *)
(* n bounds the number of closed files (it grows by at most one with every operation) *)
Definition RelTK (c : config) (crit : criterion) (k : cleanup) (e lo0 : Z) (n : nat) (x : sys) (a : aview) : Prop :=
  s_tl x = [] /\ wacts (s_w x) = 0 /\
  match a with
  | None => s_flw x = Some (new_flw c) /\ quiet (s_w x) /\ names (wfs (s_w x)) = [] /\ inodes (wfs (s_w x)) = []
            /\ eoff c (s_w x) = e /\ (lo0 <= wnow (s_w x))%Z
  | Some (closed, cur) =>
    exists keys wr roll, s_flw x = Some (st_tsdk c k e (nth (length closed) keys kd) roll wr)
      /\ TsdKInv c e lo0 (s_w x) wr keys closed (d_lo k (length closed)) (d_mid k (length closed))
      /\ cur_view (s_w x) wr = cur /\ length closed <= n
      /\ roll_size_ok roll (length cur) /\ (forall m, crit = CSize m -> exists z, roll = RSize m z)
  end.

Lemma write_rel_tk c crit k e lo0 hi n x a b :
  tsdkcfg c crit k -> tside c k -> tag_ok c -> years_ok e lo0 hi -> RelTK c crit k e lo0 n x a ->
  (wnow (s_w x) <= hi)%Z -> (N.of_nat (S n) <= usize_max)%N ->
  exists s w' s' rot, s_flw x = Some s /\ f_poisoned s = false /\
    write_buffer s (s_w x) b = (Ok tt, w', s', rot)
    /\ RelTK c crit k e lo0 (S n) {| s_flw := Some s'; s_w := w'; s_tl := []; s_dead := s_dead x |} (a_step a (OWrite b) rot)
    /\ wnow w' = wnow (s_w x)
    /\ (forall m, crit = CSize m ->
          rot = (m <? N.of_nat (length (match a with Some (_, cu) => cu | None => [] end)))%N)
    /\ (rot = flag_of crit (s_w x) (roll_of_sys x) (OWrite b)
        /\ roll_of_flw s' = ro_step crit (wnow (s_w x)) (roll_of_sys x) (OWrite b) rot
        /\ woff w' = woff (s_w x)).
Proof.
  intros Hcfg Hside T Y [Ht [Ha R]] Hhi Hmax. destruct a as [[closed cur]|].
  - destruct R as [keys [wr [roll [Es [I [V [Hn [Z RS]]]]]]]].
    rewrite <- V in Z.
    assert (Hk : (N.of_nat (length keys) <= usize_max)%N) by (rewrite (tk_len _ _ _ _ _ _ _ _ _ I); lia).
    destruct (write_active_tk c crit k e lo0 hi (s_w x) wr keys closed roll b Hcfg Hside T Y I Hhi Hk Z)
      as [w' [wr' [roll' [keys' [closed' [E [I' [Z' [S' [V' [R' RR']]]]]]]]]]].
    exists (st_tsdk c k e (nth (length closed) keys kd) roll wr), w', (st_tsdk c k e (nth (length closed') keys' kd) roll' wr'),
           (rotation_necessary (s_w x) roll).
    split; [exact Es|]. split; [reflexivity|]. split; [exact E|].
    split; [|split; [exact (same_env_now _ _ S')|split]].
    + split; [reflexivity|]. split; [cbn [s_w]; exact (same_env_acts _ _ S' Ha)|].
      cbn [a_step]. rewrite V in V'.
      destruct (rotation_necessary (s_w x) roll); injection V' as -> V''; (exists keys', wr', roll'; cbn [s_flw s_w];
        split; [reflexivity|]; split; [exact I'|]; split; [exact V''|]; split; [rewrite ?app_length; cbn [length]; lia|];
        split; [rewrite <- V''; exact Z'|];
        intros m Hm; destruct (RS m Hm) as [z ->]; destruct (R' m z eq_refl) as [z' ->]; eauto).
    + intros m Hm. destruct (RS m Hm) as [z ->]. cbn in Z. subst z. rewrite V. reflexivity.
    + unfold roll_of_sys. rewrite Es. cbn [roll_of_flw st_tsdk f_inner mk_rsk rs_roll flag_of is_write ro_step].
      split; [reflexivity|]. split; [rewrite RR'; reflexivity|]. apply same_env_clock. exact S'.
  - destruct R as [Es [Q [Hn [Hi [Hoff Hlo]]]]].
    destruct (initialize_empty_tk c crit k e lo0 hi (s_w x) Hcfg Hside Y Hhi Q Hn Hi Hoff Hlo) as [w1 [wr [roll [Ei [I [V [Z [S1 [RS RI]]]]]]]]].
    assert (Hhi1 : (wnow w1 <= hi)%Z) by (rewrite (same_env_now _ _ S1); exact Hhi).
    assert (Z0 : roll_size_ok roll (length (cur_view w1 wr))) by (rewrite V; exact Z).
    assert (I0 : TsdKInv c e lo0 w1 wr [(wnow (s_w x), 0)] [] (d_lo k (length (@nil bytes))) (d_mid k (length (@nil bytes))))
      by (cbn [length]; rewrite d_lo_0, d_mid_0; exact I).
    destruct (write_active_tk c crit k e lo0 hi w1 wr [(wnow (s_w x), 0)] [] roll b Hcfg Hside T Y I0 Hhi1 ltac:(cbn [length]; lia) Z0)
      as [w' [wr' [roll' [keys' [closed' [E [I' [Z' [S' [V' [R' RR']]]]]]]]]]].
    exists (new_flw c), w', (st_tsdk c k e (nth (length closed') keys' kd) roll' wr'), (rotation_necessary w1 roll).
    split; [exact Es|]. split; [reflexivity|].
    split. { rewrite (write_buffer_init c (s_w x) b _ _ _ w1 Ei). exact E. }
    split; [|split; [rewrite (same_env_now _ _ S'); exact (same_env_now _ _ S1)|split]].
    + split; [reflexivity|]. split; [cbn [s_w]; exact (same_env_acts _ _ (same_env_trans _ _ _ S1 S') Ha)|].
      cbn [a_step]. rewrite V in V'. cbn [app] in V'.
      destruct (rotation_necessary w1 roll); injection V' as -> V''; (exists keys', wr', roll'; cbn [s_flw s_w];
        split; [reflexivity|]; split; [exact I'|]; split; [exact V''|]; split; [cbn [app length]; lia|];
        split; [rewrite <- V''; exact Z'|]).
      * intros m Hm. rewrite (RS m Hm) in R'. destruct (R' m 0%N eq_refl) as [z' ->]; eauto.
      * intros m Hm. rewrite (RS m Hm) in R'. destruct (R' m 0%N eq_refl) as [z' ->]; eauto.
    + intros m Hm. rewrite (RS m Hm). reflexivity.
    + destruct (same_env_clock _ _ S1) as [C1 C2]. destruct (same_env_clock _ _ S') as [C3 C4].
      unfold roll_of_sys. rewrite Es. cbn [roll_of_flw new_flw st_tsdk f_inner mk_rsk rs_roll flag_of is_write ro_step].
      rewrite <- RI. split; [apply rotation_necessary_env; assumption|]. split; [rewrite RR', C1; reflexivity|]. congruence.
Qed.

(* the clock may advance under the invariant *)
Lemma tsdkinv_tick c e lo0 w wr keys closed lo mid dt : TsdKInv c e lo0 w wr keys closed lo mid -> (0 <= dt)%Z ->
  TsdKInv c e lo0 (set_now w (wnow w + dt)%Z) wr keys closed lo mid.
Proof.
  intros [Q W Hoff Hlen Hc Hcp Hmid KD Hnc Hko Hrg Hwr Hcap] Hdt. constructor; try assumption.
  intros k Ik. specialize (Hrg k Ik). cbn [set_now wnow]. lia.
Qed.

Lemma step_sync_rel_tk c crit k e lo0 n x a o : tsdkcfg c crit k -> RelTK c crit k e lo0 n x a -> step x o = sync_step x o.
Proof.
  intros (_ & Hts & _ & Ha & _) [_ [_ R]].
  assert (E : exists s, s_flw x = Some s /\ f_cfg s = c).
  { destruct a as [[closed cur]|]; [destruct R as [keys [wr [roll [Es _]]]] | destruct R as [Es _]]; rewrite Es; eexists; split; reflexivity. }
  destruct E as [s [Es Ec]].
  rewrite step_plain by (intros s' Es'; rewrite Es in Es'; injection Es' as <-; rewrite Ec; exact Hts).
  unfold step_core. rewrite Es. unfold is_async. rewrite Ec, Ha. reflexivity.
Qed.

Lemma RelTK_mono c crit k e lo0 n x a : RelTK c crit k e lo0 n x a -> RelTK c crit k e lo0 (S n) x a.
Proof.
  intros [Ht [Ha R]]. split; [exact Ht|]. split; [exact Ha|]. destruct a as [[closed cur]|]; [|exact R].
  destruct R as [keys [wr [roll [Es [I [V [Hn ZR]]]]]]]. exists keys, wr, roll.
  split; [exact Es|]. split; [exact I|]. split; [exact V|]. split; [lia | exact ZR].
Qed.

(* one basic operation: the relation is kept, the operation succeeds (no error, no panic) *)
Lemma step_rel_tk c crit k e lo0 hi n x a o :
  tsdkcfg c crit k -> tside c k -> tag_ok c -> years_ok e lo0 hi -> RelTK c crit k e lo0 n x a -> basic_op o -> tick_ok o ->
  (wnow (s_w x) <= hi)%Z -> (N.of_nat (S n) <= usize_max)%N ->
  let '(x', ob) := step x o in
  RelTK c crit k e lo0 (S n) x' (a_step a o (rot_of ob)) /\ wnow (s_w x') = (wnow (s_w x) + dt_of o)%Z
  /\ (forall b m, (o = OWrite b \/ o = OPlain b) -> crit = CSize m ->
        ob = ObsRes 0 (m <? N.of_nat (length (match a with Some (_, cu) => cu | None => [] end)))%N)
  /\ obs_ok ob
  /\ trace_ok crit x x' o ob.
Proof.
  intros Hcfg Hside T Y R Hb Htk Hhi Hmax. rewrite (step_sync_rel_tk c crit k e lo0 n x a o Hcfg R). unfold trace_ok.
  destruct o; try contradiction; cbn [sync_step dt_of].
  - (* OWrite *)
    destruct (write_rel_tk c crit k e lo0 hi n x a b Hcfg Hside T Y R Hhi Hmax) as [s [w' [s' [rot [Es [Hp [E [R' [Hw [C (T1 & T2 & T3)]]]]]]]]]].
    rewrite Es, Hp. rewrite (proj1 R). cbn [app]. rewrite E. cbn [rot_of s_w]. split; [exact R'|]. split; [lia|].
    split; [intros b0 m _ Hm; rewrite (C m Hm); reflexivity|]. split; [reflexivity|].
    unfold roll_of_sys at 2. cbn [s_flw clock_step]. auto.
  - (* OPlain *)
    destruct (write_rel_tk c crit k e lo0 hi n x a b Hcfg Hside T Y R Hhi Hmax) as [s [w' [s' [rot [Es [Hp [E [R' [Hw [C (T1 & T2 & T3)]]]]]]]]]].
    rewrite Es, Hp, E. cbn [rot_of code_of s_w]. rewrite (proj1 R). split; [exact R'|]. split; [lia|].
    split; [intros b0 m _ Hm; rewrite (C m Hm); reflexivity|]. split; [reflexivity|].
    unfold roll_of_sys at 2. cbn [s_flw clock_step]. auto.
  - (* OFlush *)
    destruct R as [Ht [Ha R]]. destruct a as [[closed cur]|].
    + destruct R as [keys [wr [roll [Es [I [V [Hn ZR]]]]]]]. unfold roll_of_sys. rewrite Es. cbn [st_tsdk f_poisoned].
      destruct (flush_active_tk c k e lo0 hi (s_w x) wr keys closed _ _ roll (nth (length closed) keys kd) Hside Y Hhi I) as [w' [wr' [E [I' [V' [P' S']]]]]].
      fold (st_tsdk c k e (nth (length closed) keys kd) roll wr). rewrite E. cbn [rot_of a_step s_w].
      split; [|split; [rewrite (same_env_now _ _ S'); lia | split; [intros b m [H|H]; discriminate | split; [reflexivity|]]]].
      * split; [exact Ht|]. split; [exact (same_env_acts _ _ S' Ha)|]. exists keys, wr', roll. cbn [s_flw s_w].
        split; [reflexivity|]. split; [exact I'|]. split; [congruence|]. split; [lia | exact ZR].
      * cbn [s_flw s_w]. split; [reflexivity|]. split; [reflexivity|]. apply same_env_clock. exact S'.
    + destruct R as [Es R]. unfold roll_of_sys. rewrite Es. cbn [new_flw f_poisoned flush_state f_inner rot_of a_step s_w].
      split; [|split; [lia | split; [intros b m [H|H]; discriminate | split; [reflexivity|]]]].
      * split; [exact Ht|]. split; [exact Ha|]. split; [reflexivity | exact R].
      * cbn [s_flw s_w]. repeat split.
  - (* OTrigger *)
    destruct R as [Ht [Ha R]]. destruct a as [[closed cur]|].
    + destruct R as [keys [wr [roll [Es [I [V [Hn [Z RS]]]]]]]]. unfold roll_of_sys. rewrite Es. cbn [st_tsdk f_poisoned f_cfg f_inner].
      assert (Hk : (N.of_nat (length keys) <= usize_max)%N) by (rewrite (tk_len _ _ _ _ _ _ _ _ _ I); lia).
      destruct (mount_next_rotates_tk c crit k e lo0 hi (s_w x) wr keys closed roll true Hcfg Hside T Y I Hhi Hk eq_refl)
        as [w' [wr' [roll' [E [I' [V' [Z' [S' [R' RR']]]]]]]]].
      rewrite E. cbn [rot_of a_step code_of with_inner f_cfg f_poisoned s_w].
      split; [|split; [rewrite (same_env_now _ _ S'); lia | split; [intros b m [H|H]; discriminate | split; [reflexivity|]]]].
      * split; [exact Ht|]. split; [exact (same_env_acts _ _ S' Ha)|]. rewrite V in *.
        exists (keys ++ [(wnow (s_w x), count (wnow (s_w x)) keys)]), wr', roll'. cbn [s_flw s_w].
        split.
        { rewrite nth_snoc_last by (rewrite glen_snoc; rewrite (tk_len _ _ _ _ _ _ _ _ _ I); reflexivity). reflexivity. }
        rewrite glen_snoc. split; [exact I'|]. split; [exact V'|]. split; [lia|]. split; [exact Z'|].
        intros m Hm. destruct (RS m Hm) as [z ->]. destruct (R' m z eq_refl) as [z' ->]. eauto.
      * cbn [s_flw s_w roll_of_flw f_inner mk_rsk rs_roll flag_of is_write ro_step clock_step].
        split; [reflexivity|]. split; [rewrite RR'; reflexivity|]. apply same_env_clock. exact S'.
    + destruct R as [Es R]. unfold roll_of_sys. rewrite Es.
      cbn [new_flw f_poisoned f_cfg f_inner mount_next with_inner rot_of a_step code_of s_w].
      split; [|split; [lia | split; [intros b m [H|H]; discriminate | split; [reflexivity|]]]].
      * split; [exact Ht|]. split; [exact Ha|]. split; [reflexivity | exact R].
      * cbn [s_flw s_w]. repeat split.
  - (* OTick *)
    cbn [rot_of a_step s_w set_now wnow tick_ok] in *. split; [|split; [reflexivity | split; [intros b m [H|H]; discriminate | split; [reflexivity|]]]].
    + destruct R as [Ht [Ha R]]. split; [exact Ht|]. split; [exact Ha|]. destruct a as [[closed cur]|].
      * destruct R as [keys [wr [roll [Es [I [V [Hn ZR]]]]]]]. exists keys, wr, roll. cbn [s_flw s_w].
        split; [exact Es|]. split; [apply tsdkinv_tick; assumption|]. split; [exact V|]. split; [lia | exact ZR].
      * cbn [s_flw s_w]. destruct R as [Es [Q [Hn [Hi [Hoff Hlo]]]]]. repeat split; try assumption; try apply Q. cbn [set_now wnow]. lia.
    + unfold roll_of_sys. cbn [s_flw s_w set_now wnow woff]. repeat split.
  - (* OSnap *)
    cbn [rot_of a_step]. split; [apply RelTK_mono; exact R|]. split; [lia|]. split; [intros b m [H|H]; discriminate|]. split; [exact Logic.I | repeat split].
Qed.

Lemma run_rel_tk c crit k e lo0 hi : tsdkcfg c crit k -> tside c k -> tag_ok c -> years_ok e lo0 hi ->
  forall ops x a n, RelTK c crit k e lo0 n x a -> Forall basic_op ops -> Forall tick_ok ops ->
  (wnow (s_w x) + elapsed ops <= hi)%Z -> (N.of_nat (n + length ops) <= usize_max)%N ->
  RelTK c crit k e lo0 (n + length ops) (fst (run x ops)) (a_run a ops (snd (run x ops)))
  /\ wnow (s_w (fst (run x ops))) = (wnow (s_w x) + elapsed ops)%Z
  /\ Forall obs_ok (snd (run x ops))
  /\ (forall m, crit = CSize m -> a_run a ops (snd (run x ops)) = s_run m a ops).
Proof.
  intros Hcfg Hside T Y. induction ops as [|o r IH]; intros x a n R Hb Htk Hhi Hmax.
  - cbn [run fst snd a_run length elapsed]. rewrite Nat.add_0_r. split; [exact R|]. split; [lia|]. split; [constructor|].
    intros m _. reflexivity.
  - cbn [run]. inversion Hb as [|o' r' Ho Hr]; subst. inversion Htk as [|o' r' Hto Htr]; subst.
    cbn [elapsed length] in *. pose proof (elapsed_nonneg r Htr) as Er.
    assert (Hdt : (0 <= dt_of o)%Z) by (destruct o; cbn [dt_of tick_ok] in *; lia).
    pose proof (step_rel_tk c crit k e lo0 hi n x a o Hcfg Hside T Y R Ho Hto ltac:(lia) ltac:(lia)) as S. destruct (step x o) as [x1 ob].
    destruct S as [R1 [W1 [C1 [K1 _]]]]. specialize (IH x1 _ (S n) R1 Hr Htr ltac:(lia) ltac:(lia)). destruct (run x1 r) as [x2 obs].
    cbn [fst snd a_run] in *. replace (n + S (length r)) with (S n + length r) by lia. destruct IH as [IH1 [IH2 [IH3 IH4]]].
    split; [exact IH1|]. split; [lia|]. split; [constructor; assumption|].
    intros m Hm.
    assert (Erot : a_step a o (rot_of ob) = a_step a o (m <? N.of_nat (length (cur_of a)))%N).
    { destruct o; try reflexivity.
      - rewrite (C1 b m (or_introl eq_refl) Hm). reflexivity.
      - rewrite (C1 b m (or_intror eq_refl) Hm). reflexivity. }
    cbn [s_run]. rewrite <- Erot. exact (IH4 m Hm).
Qed.

(* ------------------------------------------------------------------ stop: what is left in the directory *)
(* keys: the keys of ALL files ever written (length closed + 1 of them); the files of the keys at the positions lo .. L
   exist: archives below mid, plain from mid on (the last one is the file that was being written); no rCURRENT; nothing else *)
Definition tsdk_view (c : config) (e : Z) (f : fs) (keys : list key) (closed : list bytes) (cur : bytes) (lo mid : nat) : Prop :=
  length keys = S (length closed)
  /\ gdir (tname c e keys) (cname c) f (closed ++ [cur]) lo mid /\ mid <= length closed /\ lookup f (cname c) = None.

Lemma shutdown_active_tk c kc e lo0 hi w wr keys closed lo mid roll k :
  sfx_ok (c_spec c) -> years_ok e lo0 hi -> (wnow w <= hi)%Z ->
  TsdKInv c e lo0 w wr keys closed lo mid -> wacts w = 0 ->
  exists w' wr', shutdown_state (st_tsdk c kc e k roll wr) w = (w', st_tsdk c kc e k roll wr')
    /\ TsdKInv c e lo0 w' wr' keys closed lo mid /\ cur_view w' wr' = cur_view w wr /\ wpend wr' = [] /\ wacts w' = 0
    /\ wnow w' = wnow w.
Proof.
  intros Hsfx Y Hhi I Ha. unfold shutdown_state, st_tsdk, drain_acts. cbn [f_inner f_cfg mk_rsk rs_cleanup rs_naming rs_roll].
  destruct (w_flush_quiet w wr (tk_quiet _ _ _ _ _ _ _ _ _ I)) as [w1 [E [F S]]]. rewrite E.
  set (wr' := {| wino := wino wr; wpend := []; wcap := wcap wr |}).
  assert (Hok : wr_ok wr') by (unfold wr_ok, wr'; cbn; destruct (wcap wr); [lia | reflexivity]).
  destruct (tsdkinv_append c e lo0 hi w w1 wr wr' keys closed lo mid (wpend wr) Hsfx Y Hhi I F S eq_refl eq_refl Hok) as [I1 C1].
  exists w1, wr'. split; [reflexivity|]. split; [exact I1|]. split; [|split; [reflexivity | split; [exact (same_env_acts _ _ S Ha) | exact (same_env_now _ _ S)]]].
  unfold cur_view. rewrite C1. cbn [wr' wpend]. rewrite app_nil_r. reflexivity.
Qed.

Lemma stop_rel_tk c crit k e lo0 hi n x a : tsdkcfg c crit k -> tside c k -> years_ok e lo0 hi -> (wnow (s_w x) <= hi)%Z ->
  RelTK c crit k e lo0 n x a ->
  let '(x', ob) := step x OStop in
  ob = ObsRes 0%N false /\
  match a with
  | None => names (wfs (s_w x')) = []
  | Some (closed, cur) => exists keys, tsdk_view c e (wfs (s_w x')) keys closed cur (d_lo k (length closed)) (d_mid k (length closed))
                                       /\ keys_ok keys /\ (forall key, In key keys -> (lo0 <= fst key <= wnow (s_w x))%Z)
  end.
Proof.
  intros Hcfg Hside Y Hhi R0. rewrite (step_sync_rel_tk c crit k e lo0 n x a OStop Hcfg R0). destruct R0 as [Ht [Ha R]]. cbn [sync_step].
  destruct a as [[closed cur]|].
  - destruct R as [keys [wr [roll [Es [I [V _]]]]]]. rewrite Es. cbn [st_tsdk f_poisoned]. split; [reflexivity|]. unfold drop_state.
    set (k0 := nth (length closed) keys kd).
    destruct (shutdown_active_tk c k e lo0 hi (s_w x) wr keys closed _ _ roll k0 Hside Y Hhi I Ha) as [w1 [wr1 [E1 [I1 [V1 [P1 [A1 N1]]]]]]].
    fold (st_tsdk c k e k0 roll wr). rewrite E1.
    destruct (shutdown_active_tk c k e lo0 hi w1 wr1 keys closed _ _ roll k0 Hside Y ltac:(lia) I1 A1) as [w2 [wr2 [E2 [I2 [V2 [P2 [A2 N2]]]]]]]. rewrite E2.
    cbn [st_tsdk f_inner s_w]. unfold w_drop.
    destruct (w_flush_quiet w2 wr2 (tk_quiet _ _ _ _ _ _ _ _ _ I2)) as [w3 [E3 [F3 S3]]]. rewrite E3. cbn [fst snd].
    rewrite P2, append_ino_nil_id in F3. rewrite F3.
    exists keys. split; [|split; [exact (tk_keys _ _ _ _ _ _ _ _ _ I) | exact (tk_range _ _ _ _ _ _ _ _ _ I)]].
    destruct I2 as [Q W Hoff Hlen Hc Hcp Hmid KD Hnc Hko Hrg Hwr Hcap].
    assert (Ec : content (wfs w2) (wino wr2) = cur).
    { unfold cur_view in *. rewrite P2, app_nil_r in V2. congruence. }
    rewrite Ec in KD. split; [exact Hlen|]. split; [exact KD|]. split; [exact Hmid | exact Hnc].
  - destruct R as [Es [Q [Hn Hi]]]. rewrite Es. cbn [new_flw f_poisoned drop_state shutdown_state f_inner s_w]. split; [reflexivity | exact Hn].
Qed.

Lemma start_rel_tk c crit k t0 off : RelTK c crit k (ts_e c off) t0 0 (fst (step (sys0 t0 off) (OStart c))) None.
Proof. cbn. repeat split. cbn. lia. Qed.

(* ------------------------------------------------------------------ THE THEOREM (stream form) *)
(* a is the view reconstructed from the reported rotation flags (what each closed file held, the file being written): its
   concatenation is what was written.  The directory left behind holds the file being written, the newest n - 1 closed
   files as they are and the next m as archives - and nothing else; and no operation fails or panics. *)
Theorem timestampsdirect_cleanup_stream c crit k t0 off ops :
  tsdkcfg c crit k -> tag_ok c -> sfx_ok (c_spec c) -> Forall basic_op ops -> Forall tick_ok ops ->
  (0 <= t0 + ts_e c off)%Z -> (t0 + elapsed ops + ts_e c off < sec_max)%Z -> (N.of_nat (length ops) <= usize_max)%N ->
  let x0 := fst (step (sys0 t0 off) (OStart c)) in
  let a := a_run None ops (snd (run x0 ops)) in
  let r := run (sys0 t0 off) (OStart c :: ops ++ [OStop]) in
  let f := wfs (s_w (fst r)) in
  flat a = written ops
  /\ match a with
     | None => names f = []
     | Some (closed, cur) =>
       exists keys, tsdk_view c (ts_e c off) f keys closed cur (d_lo k (length closed)) (d_mid k (length closed))
                    /\ keys_ok keys /\ (forall key, In key keys -> (t0 <= fst key <= t0 + elapsed ops)%Z)
     end
  /\ Forall obs_ok (snd r)
  /\ (forall m, crit = CSize m -> a = s_run m None ops).
Proof.
  intros Hcfg T Hsfx Hb Htk Hlo Hhi Hmax x0 a r f. unfold f, r. clear f r. cbn [run]. fold x0.
  destruct (step (sys0 t0 off) (OStart c)) as [x0' ob0] eqn:E0. cbn [fst] in x0. subst x0.
  pose proof (start_rel_tk c crit k t0 off) as R0. rewrite E0 in R0. cbn [fst] in R0.
  assert (K0 : obs_ok ob0) by (cbn in E0; injection E0 as _ <-; reflexivity).
  assert (W0 : wnow (s_w x0') = t0) by (cbn in E0; injection E0 as <- _; reflexivity).
  assert (Y : years_ok (ts_e c off) t0 (t0 + elapsed ops)) by (split; assumption).
  rewrite run_app.
  pose proof (run_rel_tk c crit k _ _ _ Hcfg Hsfx T Y ops x0' None 0 R0 Hb Htk ltac:(lia) ltac:(cbn [Nat.add]; exact Hmax)) as [R1 [W1 [K1 Z1]]].
  pose proof (run_length ops x0') as Len.
  fold a in R1, Z1. unfold a in *. clear a.
  destruct (run x0' ops) as [x1 obs1]. cbn [fst snd] in *.
  pose proof (stop_rel_tk c crit k _ _ _ _ x1 _ Hcfg Hsfx Y ltac:(lia) R1) as S. cbn [run]. destruct (step x1 OStop) as [x2 ob2]. cbn [fst snd].
  destruct S as [-> S].
  split; [|split; [|split; [|exact Z1]]].
  - rewrite (a_run_flat ops None obs1 Hb Len). reflexivity.
  - destruct (a_run None ops obs1) as [[cl cu]|]; [|exact S].
    destruct S as [keys [V [K Rg]]]. exists keys. split; [exact V|]. split; [exact K|].
    intros key Ik. specialize (Rg key Ik). lia.
  - constructor; [exact K0|]. apply Forall_app. split; [exact K1|]. repeat constructor.
Qed.
Print Assumptions timestampsdirect_cleanup_stream.
