(* Cleanup in a background thread (FileLogWriterBuilder::cleanup_in_background_thread, c_bg c = true).

   SCHEDULING ASSUMPTION of the model and of the harness (Model.cleanup_or_queue): the cleanup thread finishes each
   request before the logging thread starts its next operation, so the model works a request off at once; the caller
   ignores the result of the request; a panic would end the thread for good (wacts = 1).  Everything below is under this
   assumption: nothing is said about a cleanup that runs WHILE the logging thread goes on.

   nobg c = c with c_bg := false (cleanup in the logging thread).  For synchronous configurations without symlink:
   as long as the run under nobg c returns normal results and reports nothing on the error channel (clean_run: in
   particular no cleanup fails, so that ignoring its result changes nothing), the run under c goes through THE SAME
   WORLDS with the same observations; the writer states differ in the flag rs_bg only (bg_run, bg_sim_whole).
   For Numbers naming with a cleanup strategy the hypothesis is a theorem (numk_run_clean, in the worlds of
   numbers_cleanup_stream), hence numbers_cleanup_stream / numbers_cleanup_properties / the no-panic theorem hold for
   cleanup in the background thread: numbers_cleanup_stream_bg, numbers_cleanup_bg, numbers_cleanup_no_panic_bg. *)
Require Import FL.Base.Bytes FL.Base.BytesFacts FL.Base.PathName FL.Fs.Fs FL.Fs.FsFacts FL.Time.Civil FL.Time.TsFormat
  FL.Names.FileSpec FL.Names.NamesFacts FL.Flw.Model FL.Flw.ModelFacts FL.Flw.NumFs FL.Flw.NumInv FL.Flw.Run FL.Flw.RunFacts
  FL.Flw.NumRun FL.Oracles.O_Flw FL.Flw.NumTheorems FL.Flw.NumListing FL.Flw.NumRestart FL.Flw.NumKillRestart
  FL.Flw.CleanupFacts FL.Flw.NumCleanupNames FL.Flw.NumCleanupStep FL.Flw.NumCleanupRun FL.Flw.NumCleanup
  FL.Flw.NoPanic FL.Flw.AsyncSim FL.Flw.WorldPar FL.Flw.LinkSim.
From Coq Require Import ZifyN ZifyNat ZifyBool.
Open Scope nat_scope.

(* ------------------------------------------------------------------ 1. the state machine under c and under nobg c *)
Definition nobg (c : config) : config :=
  {| c_spec := c_spec c; c_append := c_append c; c_cap := c_cap c; c_rot := c_rot c; c_utc := c_utc c;
     c_symlink := c_symlink c; c_bg := false; c_async := c_async c; c_start := c_start c |}.
Definition clear_rs (rs : rot_state) : rot_state :=
  {| rs_naming := rs_naming rs; rs_roll := rs_roll rs; rs_cleanup := rs_cleanup rs; rs_bg := false |}.
Definition clear_bg (st : inner) : inner :=
  match st with Active (Some rs) wr p => Active (Some (clear_rs rs)) wr p | _ => st end.
Definition unb (s : flw) : flw :=
  {| f_cfg := nobg (f_cfg s); f_inner := clear_bg (f_inner s); f_poisoned := f_poisoned s |}.

Ltac bg_norm :=
  unfold mount_next, init_naming, latest_timestamp_file, creation_ts_of_current, collision_free, index_for_rcurrent,
    cleanup_or_queue, cleanup_impl, open_log_file, do_symlink, infix_from_ts, name_of, fixed_of, starttxt;
  cbn [nobg c_spec c_append c_cap c_rot c_utc c_symlink c_async c_start].

Lemma mount_next_nobg c w st f : mount_next (nobg c) w st f = mount_next c w st f.
Proof. bg_norm. reflexivity. Qed.
Lemma init_naming_nobg c w nam : init_naming (nobg c) w nam = init_naming c w nam.
Proof. bg_norm. reflexivity. Qed.
Lemma open_log_file_nobg c w i : open_log_file (nobg c) w i = open_log_file c w i.
Proof. bg_norm. reflexivity. Qed.
Lemma cleanup_impl_nobg c w k flt d : cleanup_impl (nobg c) w k flt d = cleanup_impl c w k flt d.
Proof. bg_norm. reflexivity. Qed.

Lemma set_acts_0 w : wacts w = 0 -> set_acts w 0 = w.
Proof. destruct w; cbn. intros ->. reflexivity. Qed.

(* the end of a rotation: the cleanup request.  In the logging thread its result is the result of the rotation; if that
   is Ok, the background variant does the same to the world *)
Lemma finish_rotation_bg c w2 rs ns1 wr wr' p' w' st' :
  wkill w2 = None -> wacts w2 = 0 ->
  finish_rotation c w2 (clear_rs rs) ns1 wr wr' p' = (Ok tt, w', st') ->
  exists st, finish_rotation c w2 rs ns1 wr wr' p' = (Ok tt, w', st) /\ clear_bg st = st'
    /\ wkill w' = None /\ wacts w' = 0.
Proof.
  intros K A. unfold finish_rotation. cbn [clear_rs rs_roll rs_bg rs_cleanup].
  destruct (w_flush w2 wr) as [[okf w2a] wra] eqn:EF. destruct (U3_env _ _ _ _ _ (w_flush_U wr w2) K EF) as [K1 [A1 _]].
  set (w2b := if okf then w2a else report EFlush w2a).
  assert (K2 : wkill w2b = None /\ wacts w2b = 0).
  { unfold w2b. destruct okf; [split; congruence|]. destruct (report_env EFlush w2a K1) as [Kr [Ar _]]. split; congruence. }
  destruct K2 as [K2 A2]. destruct (U1_env _ _ (w_drop_U wra w2b) K2) as [K3 [A3 _]]. cbv beta in K3, A3.
  set (w3 := w_drop w2b wra) in *. unfold cleanup_or_queue at 1.
  destruct (cleanup_impl c w3 (rs_cleanup rs) (ns_filter ns1) (if ns_writes_direct ns1 then Some p' else None)) as [rc w4] eqn:EC.
  destruct (U2_env _ _ _ _ (cleanup_impl_U c (rs_cleanup rs) (ns_filter ns1) (if ns_writes_direct ns1 then Some p' else None) w3) K3 EC) as [K4 [A4 _]].
  destruct rc as [[]| |]; intros E; try discriminate E. injection E as <- <-.
  unfold cleanup_or_queue. destruct (rs_bg rs) eqn:Eb.
  - assert (EQ : match rs_cleanup rs with
                 | KNever => (Ok tt, w3)
                 | _ => if Nat.eqb (wacts w3) 1 then (Ok tt, w3) else
                        match cleanup_impl c w3 (rs_cleanup rs) (ns_filter ns1) (if ns_writes_direct ns1 then Some p' else None) with
                        | (Panic, w1) => (Ok tt, set_acts w1 1)
                        | (_, w1) => (Ok tt, w1)
                        end
                 end = (Ok tt, w4)).
    { destruct (rs_cleanup rs); [cbn in EC; exact EC | | |]; rewrite A3, A2; cbn [Nat.eqb]; rewrite EC; reflexivity. }
    rewrite EQ. eexists. split; [reflexivity|]. cbn [clear_bg clear_rs rs_naming rs_roll rs_cleanup rs_bg].
    split; [reflexivity|]. split; [exact K4 | congruence].
  - rewrite EC. eexists. split; [reflexivity|]. cbn [clear_bg clear_rs rs_naming rs_roll rs_cleanup rs_bg].
    split; [reflexivity|]. split; [exact K4 | congruence].
Qed.

Lemma mount_next_bg c w st f w' stn' :
  wkill w = None -> wacts w = 0 -> mount_next c w (clear_bg st) f = (Ok tt, w', stn') ->
  exists st', mount_next c w st f = (Ok tt, w', st') /\ clear_bg st' = stn' /\ wkill w' = None /\ wacts w' = 0.
Proof.
  intros K A. rewrite !mount_next_g_eq. unfold mount_next_g.
  destruct st as [|[rs|] wr p]; cbn [clear_bg];
    try (intros E; injection E as <- <-; eexists; split; [reflexivity|]; split; [reflexivity|]; split; assumption).
  cbn [clear_rs rs_roll rs_naming rs_cleanup rs_bg].
  destruct (f || rotation_necessary w (rs_roll rs))%bool;
    [|intros E; injection E as <- <-; eexists; split; [reflexivity|]; split; [reflexivity|]; split; assumption].
  destruct (next_naming c w (rs_naming rs)) as [[r0 w1] ns1] eqn:EN.
  destruct (U3_env _ _ _ _ _ (next_naming_U c (rs_naming rs) w) K EN) as [K1 [A1 _]].
  destruct r0 as [infix| |]; try (intros E; discriminate E).
  destruct (open_log_file c w1 (Some infix)) as [[[wr' p']| |] w2] eqn:EO; try (intros E; discriminate E).
  destruct (open_log_file_env c w1 (Some infix) _ w2 K1 EO) as [K2 A2].
  apply finish_rotation_bg; [exact K2 | congruence].
Qed.

(* initialize: the flag, and the reset of the request counter (which is 0 anyway) *)
Lemma initialize_bg c w r w' : wkill w = None -> wacts w = 0 -> initialize (nobg c) w = (r, w') ->
  exists r2, initialize c w = (r2, w')
    /\ match r with
       | Ok stn => exists st, r2 = Ok st /\ clear_bg st = stn
       | Err => r2 = Err
       | Panic => r2 = Panic
       end
    /\ wkill w' = None /\ wacts w' = 0.
Proof.
  intros K A. unfold initialize. cbn [nobg c_rot c_append c_bg]. destruct (c_rot c) as [[[crit nam] k]|].
  - rewrite init_naming_nobg. destruct (init_naming c w nam) as [r0 w1] eqn:E0.
    destruct (U2_env _ _ _ _ (init_naming_U c nam w) K E0) as [K1 [A1 _]].
    destruct r0 as [[ns infix]| |]; cbn [bind];
      [| intros E; injection E as <- <-; eexists; split; [reflexivity|]; split; [reflexivity|]; split; congruence
       | intros E; injection E as <- <-; eexists; split; [reflexivity|]; split; [reflexivity|]; split; congruence].
    rewrite open_log_file_nobg. destruct (open_log_file c w1 (Some infix)) as [r1 w2] eqn:E1.
    destruct (open_log_file_env c w1 _ _ _ K1 E1) as [K2 A2].
    destruct r1 as [[wr path]| |]; cbn [bind];
      [| intros E; injection E as <- <-; eexists; split; [reflexivity|]; split; [reflexivity|]; split; congruence
       | intros E; injection E as <- <-; eexists; split; [reflexivity|]; split; [reflexivity|]; split; congruence].
    destruct (roll_new w2 crit (c_append c) path) as [r2 w3] eqn:E2.
    destruct (U2_env _ _ _ _ (roll_new_U crit (c_append c) path w2) K2 E2) as [K3 [A3 _]].
    destruct r2 as [roll| |]; cbn [bind];
      [| intros E; injection E as <- <-; eexists; split; [reflexivity|]; split; [reflexivity|]; split; congruence
       | intros E; injection E as <- <-; eexists; split; [reflexivity|]; split; [reflexivity|]; split; congruence].
    assert (EC : exists r3 w4,
               match k with KNever => (Ok tt, w3) | _ => cleanup_impl (nobg c) w3 k (ns_filter ns) (if naming_writes_direct nam then Some path else None) end = (r3, w4)
               /\ match k with KNever => (Ok tt, w3) | _ => cleanup_impl c w3 k (ns_filter ns) (if naming_writes_direct nam then Some path else None) end = (r3, w4)
               /\ wkill w4 = None /\ wacts w4 = 0).
    { destruct k; [exists (Ok tt), w3; repeat split; congruence | | |]; rewrite cleanup_impl_nobg;
        (destruct (cleanup_impl c w3 _ (ns_filter ns) (if naming_writes_direct nam then Some path else None)) as [r3 w4] eqn:E3; exists r3, w4;
         split; [reflexivity|]; split; [reflexivity|];
         destruct (U2_env _ _ _ _ (cleanup_impl_U c _ (ns_filter ns) (if naming_writes_direct nam then Some path else None) w3) K3 E3) as [K4 [A4 _]]; split; congruence). }
    destruct EC as [r3 [w4 [E3n [E3 [K4 A4]]]]]. rewrite E3n, E3.
    destruct r3 as [[]| |]; cbn [bind];
      [| intros E; injection E as <- <-; eexists; split; [reflexivity|]; split; [reflexivity|]; split; congruence
       | intros E; injection E as <- <-; eexists; split; [reflexivity|]; split; [reflexivity|]; split; congruence].
    assert (Eb : match k with KNever => false | _ => false end = false) by (destruct k; reflexivity). rewrite Eb.
    intros E; injection E as <- <-.
    destruct (match k with KNever => false | _ => c_bg c end); rewrite ?(set_acts_0 w4 A4);
      (eexists; split; [reflexivity|]; split; [eexists; split; [reflexivity|]; reflexivity|]; split; assumption).
  - rewrite open_log_file_nobg. destruct (open_log_file c w None) as [r1 w2] eqn:E1.
    destruct (open_log_file_env c w _ _ _ K E1) as [K2 A2].
    destruct r1 as [[wr path]| |]; cbn [bind]; intros E; injection E as <- <-; eexists; (split; [reflexivity|]);
      (split; [first [reflexivity | eexists; split; reflexivity]|]); split; congruence.
Qed.

(* write_buffer: if the variant with cleanup in the logging thread returns Ok and reports nothing (in particular: the
   rotation, cleanup included, did not fail), the background variant does the same *)
Lemma write_rest_bg s w0 st0 b w' sn' rot :
  c_symlink (f_cfg s) = false -> wkill w0 = None -> wacts w0 = 0 ->
  write_rest (open_log_file (nobg (f_cfg s))) (unb s) w0 (clear_bg st0) b = (Ok tt, w', sn', rot) ->
  werrs w' = werrs w0 ->
  exists s', write_rest (open_log_file (f_cfg s)) s w0 st0 b = (Ok tt, w', s', rot) /\ unb s' = sn'
    /\ wkill w' = None /\ wacts w' = 0.
Proof.
  intros Hs K A. unfold write_rest. cbn [unb f_cfg].
  rewrite <- !mount_next_g_eq, mount_next_nobg.
  assert (Erot : match clear_bg st0 with Active (Some rs) _ _ => rotation_necessary w0 (rs_roll rs) | _ => false end
                 = match st0 with Active (Some rs) _ _ => rotation_necessary w0 (rs_roll rs) | _ => false end).
  { destruct st0 as [|[rs|] wr p]; reflexivity. }
  rewrite Erot. clear Erot.
  destruct (mount_next (f_cfg s) w0 (clear_bg st0) false) as [[r1 w1] stn1] eqn:EM.
  destruct (mount_next_grow _ _ _ _ _ _ _ Hs K EM) as [K1 [e1 Gr1]].
  destruct r1 as [[]| |].
  - destruct (mount_next_bg _ _ _ _ _ _ K A EM) as [st1 [EM' [Ec [_ A1]]]]. rewrite EM'. subst stn1.
    destruct st1 as [|o_rot wr path]; cbn [clear_bg].
    + intros E _. injection E as <- <- <-. eexists. split; [reflexivity|]. split; [reflexivity|]. split; assumption.
    + assert (Ei : clear_bg (Active o_rot wr path) = Active (match o_rot with Some rs => Some (clear_rs rs) | None => None end) wr path)
        by (destruct o_rot; reflexivity).
      cbn [clear_bg] in Ei. rewrite Ei. clear Ei.
      destruct (w_write w1 wr b) as [[ok w3] wr3] eqn:EW. destruct (U3_env _ _ _ _ _ (w_write_U wr b w1) K1 EW) as [K3 [A3 _]].
      destruct ok; intros E _; [|discriminate E]. injection E as <- <- <-. eexists. split; [reflexivity|].
      split; [|split; congruence]. unfold unb, with_inner. cbn [f_cfg f_inner f_poisoned clear_bg]. destruct o_rot; reflexivity.
  - (* the rotation failed: ELogFile is reported *)
    intros E He. exfalso.
    destruct (report_env ELogFile w1 K1) as [Kr [_ Er]].
    destruct stn1 as [|o_rot wr path].
    + injection E as <- _ _. rewrite Er, Gr1, <- app_assoc in He. apply app_self_nil in He. destruct e1; discriminate He.
    + destruct (w_write (report ELogFile w1) wr b) as [[ok w3] wr3] eqn:EW.
      destruct (w_write_grow_c _ _ _ _ _ _ Kr EW) as [e3 Gr3].
      assert (He' : werrs w3 = werrs w0) by (destruct ok; [injection E as <- _; exact He | discriminate E]).
      rewrite Gr3, Er, Gr1, <- !app_assoc in He'. apply app_self_nil in He'. destruct e1; discriminate He'.
  - intros E. discriminate E.
Qed.

Lemma write_buffer_bg s w b w' sn' rot :
  c_symlink (f_cfg s) = false -> wkill w = None -> wacts w = 0 ->
  write_buffer (unb s) w b = (Ok tt, w', sn', rot) -> werrs w' = werrs w ->
  exists s', write_buffer s w b = (Ok tt, w', s', rot) /\ unb s' = sn' /\ wkill w' = None /\ wacts w' = 0.
Proof.
  intros Hs K A. rewrite !write_buffer_g_eq. unfold write_buffer_g, init_part. cbn [unb f_cfg f_inner].
  rewrite <- !initialize_g_eq. destruct (f_inner s) as [|o wr p] eqn:Ei; cbn [clear_bg].
  - destruct (initialize (nobg (f_cfg s)) w) as [r0 w0] eqn:EI.
    destruct (initialize_bg _ _ _ _ K A EI) as [r2 [EI' [Hr [K0 A0]]]]. rewrite EI'.
    destruct r0 as [stn| |]; [|intros E; discriminate E | intros E; discriminate E].
    destruct Hr as [st [-> <-]]. intros E He.
    assert (Gr0 : exists e, werrs w0 = werrs w ++ e).
    { rewrite initialize_g_eq in EI'. pose proof (OPs_same (f_cfg s) Hs) as OP.
      destruct (initialize_g_pair False _ _ OP (f_cfg s) (wacts w) w) as [r3 [w3 [n3 [ol [AA _]]]]].
      destruct (initialize_g_grow _ _ _ _ _ _ _ OP AA) as [e Gr]. specialize (AA (wlink w) []).
      rewrite <- (alive_X w K), EI' in AA. injection AA as _ ->. exists e. exact Gr. }
    destruct Gr0 as [e0 Gr0].
    assert (Gr : exists e, werrs w' = werrs w0 ++ e).
    { fold (unb s) in E. change (write_rest (open_log_file (nobg (f_cfg s))) (unb s) w0 (clear_bg st) b)
        with (write_rest (open_log_file (f_cfg (unb s))) (unb s) w0 (clear_bg st) b) in E.
      pose proof (OPs_same (f_cfg (unb s)) Hs) as OP.
      destruct (write_rest_pair False _ _ OP (unb s) (wacts w0) w0 (clear_bg st) b) as [r3 [w3 [s3 [rot3 [n3 [ol [AA [_ [Gr _]]]]]]]]].
      specialize (AA (wlink w0) []). rewrite <- (alive_X w0 K0), E in AA. injection AA as _ -> _ _. exact Gr. }
    destruct Gr as [e Gr].
    assert (E0 : e0 = []).
    { rewrite Gr, Gr0, <- app_assoc in He. apply app_self_nil in He. destruct e0; [reflexivity | discriminate He]. }
    subst e0. rewrite app_nil_r in Gr0.
    destruct (write_rest_bg s w0 st b w' sn' rot Hs K0 A0 E ltac:(congruence)) as [s' [E' R]]. exists s'. split; [exact E' | exact R].
  - destruct o as [rs|]; intros E He.
    + exact (write_rest_bg s w (Active (Some rs) wr p) b w' sn' rot Hs K A E He).
    + exact (write_rest_bg s w (Active None wr p) b w' sn' rot Hs K A E He).
Qed.

Lemma flush_state_unb s w : flush_state (unb s) w = let '(ok, w', s') := flush_state s w in (ok, w', unb s').
Proof.
  unfold flush_state. cbn [unb f_inner]. destruct (f_inner s) as [|[rs|] wr p]; cbn [clear_bg]; [reflexivity | |];
    destruct (w_flush w wr) as [[ok w1] wr']; reflexivity.
Qed.
Lemma shutdown_state_unb s w : shutdown_state (unb s) w = let '(w', s') := shutdown_state s w in (w', unb s').
Proof.
  unfold shutdown_state, drain_acts. cbn [unb f_inner]. destruct (f_inner s) as [|[rs|] wr p]; cbn [clear_bg]; [reflexivity | |];
    destruct (w_flush w wr) as [[ok w1] wr']; reflexivity.
Qed.
Lemma drop_state_unb s w : drop_state (unb s) w = drop_state s w.
Proof.
  unfold drop_state. rewrite shutdown_state_unb. destruct (shutdown_state s w) as [w1 s1].
  rewrite shutdown_state_unb. destruct (shutdown_state s1 w1) as [w2 s2]. cbn [unb f_inner].
  destruct (f_inner s2) as [|[rs|] wr p]; reflexivity.
Qed.
Lemma ensure_start_unb s w : ensure_start (unb s) w = unb (ensure_start s w).
Proof.
  unfold ensure_start. cbn [unb f_cfg nobg c_spec c_start]. destruct (fts (c_spec (f_cfg s))); [|reflexivity].
  destruct (c_start (f_cfg s)); reflexivity.
Qed.

(* ------------------------------------------------------------------ 2. the simulation *)
(* xb: cleanup in the background thread, xn: in the logging thread.  Same world (no kill pending, no request left over),
   the writer states differ in the flag only; synchronous handle, no symlink *)
Definition BSim (xb xn : sys) : Prop :=
  s_w xb = s_w xn /\ wkill (s_w xn) = None /\ wacts (s_w xn) = 0 /\ s_tl xb = s_tl xn /\ s_dead xb = s_dead xn
  /\ exists s, s_flw xb = Some s /\ s_flw xn = Some (unb s) /\ c_async (f_cfg s) = false /\ c_symlink (f_cfg s) = false.

Lemma apply_start_bsim xb xn o : BSim xb xn -> BSim (apply_start xb o) (apply_start xn o).
Proof.
  intros [Ew [K [A [Et [Hd [s [Eb [En [Ha Hs]]]]]]]]]. unfold apply_start. rewrite Eb, En. cbn [unb f_poisoned].
  destruct (names_computed o && negb (f_poisoned s)); [|repeat split; try assumption; exists s; repeat split; assumption].
  cbn [s_w s_flw s_tl s_dead]. repeat split; try assumption. exists (ensure_start s (s_w xb)).
  split; [reflexivity|]. split; [fold (unb s); rewrite ensure_start_unb, Ew; reflexivity|].
  unfold ensure_start. destruct (fts (c_spec (f_cfg s))); [|split; assumption]. destruct (c_start (f_cfg s)); split; assumption.
Qed.

Lemma BSim_intro xb xn s : s_w xb = s_w xn -> wkill (s_w xn) = None -> wacts (s_w xn) = 0 -> s_tl xb = s_tl xn ->
  s_dead xb = s_dead xn -> s_flw xb = Some s -> s_flw xn = Some (unb s) -> c_async (f_cfg s) = false ->
  c_symlink (f_cfg s) = false -> BSim xb xn.
Proof. intros. repeat split; try assumption. exists s. repeat split; assumption. Qed.

Ltac bsim s' := apply (BSim_intro _ _ s'); cbn [s_w s_flw s_tl s_dead]; try assumption; try reflexivity; try congruence.

Lemma sync_step_bsim xb xn o : BSim xb xn -> basic_op o ->
  obs_ok (snd (sync_step xn o)) -> werrs (s_w (fst (sync_step xn o))) = werrs (s_w xn) ->
  BSim (fst (sync_step xb o)) (fst (sync_step xn o)) /\ snd (sync_step xb o) = snd (sync_step xn o).
Proof.
  intros [Ew [K [A [Et [Hd [s [Eb [En [Ha Hs]]]]]]]]] Hb.
  destruct o; try contradiction; cbn [sync_step]; rewrite ?Eb, ?En; cbn [unb f_poisoned]; fold (unb s); rewrite ?Ew, ?Et, ?Hd.
  - (* OWrite *)
    destruct (f_poisoned s) eqn:Hp.
    + cbn [fst snd s_w]. intros _ _. split; [|reflexivity]. bsim s.
    + destruct (write_buffer (unb s) (s_w xn) (s_tl xn ++ b)) as [[[r w'] sn'] rot] eqn:EW. cbn [fst snd s_w obs_ok].
      destruct (write_buffer_grow (unb s) _ _ _ _ _ _ Hs K EW) as [K' [e Gr]].
      destruct r as [[]| |]; [| |intros H; discriminate H].
      * intros _ He. destruct (write_buffer_bg s _ _ _ _ _ Hs K A EW He) as [s' [EW' [Eu [K1 A1]]]]. rewrite EW'.
        destruct (write_buffer_keeps _ _ _ _ _ _ _ EW') as [Kc _]. cbn [fst snd]. split; [|reflexivity]. bsim s'.
      * intros _ He. exfalso. destruct (report_env EWrite w' K') as [_ [_ Er]]. rewrite Er, Gr, <- app_assoc in He.
        apply app_self_nil in He. destruct e; discriminate He.
  - (* OPlain *)
    destruct (f_poisoned s) eqn:Hp.
    + cbn [fst snd]. intros _ _. split; [|reflexivity]. bsim s.
    + destruct (write_buffer (unb s) (s_w xn) b) as [[[r w'] sn'] rot] eqn:EW. cbn [fst snd s_w obs_ok code_of].
      destruct r as [[]| |]; [|intros H; discriminate H | intros H; discriminate H].
      intros _ He. destruct (write_buffer_bg s _ _ _ _ _ Hs K A EW He) as [s' [EW' [Eu [K1 A1]]]]. rewrite EW'.
      destruct (write_buffer_keeps _ _ _ _ _ _ _ EW') as [Kc _]. cbn [fst snd]. split; [|reflexivity]. bsim s'.
  - (* OFlush *)
    destruct (f_poisoned s) eqn:Hp.
    + cbn [fst snd]. intros _ _. split; [|reflexivity]. bsim s.
    + rewrite flush_state_unb. destruct (flush_state s (s_w xn)) as [[ok w'] s'] eqn:EF. cbn [fst snd s_w]. intros _ _.
      destruct (U3_env _ _ _ _ _ (flush_state_U s (s_w xn)) K EF) as [K1 [A1 _]].
      destruct (flush_state_keeps _ _ _ _ _ EF) as [Kc _]. split; [|reflexivity]. bsim s'.
  - (* OTrigger *)
    destruct (f_poisoned s) eqn:Hp.
    + cbn [fst snd]. intros _ _. split; [|reflexivity]. bsim s.
    + cbn [unb f_cfg f_inner]. rewrite mount_next_nobg.
      destruct (mount_next (f_cfg s) (s_w xn) (clear_bg (f_inner s)) true) as [[r w'] stn'] eqn:EM. cbn [fst snd s_w obs_ok code_of].
      destruct r as [[]| |]; [|intros H; discriminate H | intros H; discriminate H]. intros _ _.
      destruct (mount_next_bg _ _ _ _ _ _ K A EM) as [st' [EM' [Ec [K1 A1]]]]. rewrite EM'. cbn [fst snd]. split; [|reflexivity].
      bsim (with_inner s st'). unfold unb, with_inner; cbn [f_cfg f_inner f_poisoned]; rewrite Ec; reflexivity.
  - (* OTick *)
    cbn [fst snd]. intros _ _. split; [|reflexivity]. bsim s.
  - (* OSnap *)
    cbn [fst snd]. intros _ _. split; [|reflexivity]. bsim s.
Qed.

Lemma step_bsim xb xn o : BSim xb xn -> basic_op o ->
  obs_ok (snd (step xn o)) -> werrs (s_w (fst (step xn o))) = werrs (s_w xn) ->
  BSim (fst (step xb o)) (fst (step xn o)) /\ snd (step xb o) = snd (step xn o).
Proof.
  intros S0 Hb. pose proof (apply_start_bsim xb xn o S0) as S.
  assert (W0 : s_w (apply_start xn o) = s_w xn).
  { unfold apply_start. destruct (s_flw xn) as [s|]; [|reflexivity]. destruct (names_computed o && negb (f_poisoned s)); reflexivity. }
  unfold step. rewrite <- W0. revert S. generalize (apply_start xb o) (apply_start xn o). clear S0 W0. intros yb yn S.
  pose proof S as [_ [_ [_ [_ [_ [s [Eb [En [Ha _]]]]]]]]].
  unfold step_core. rewrite Eb, En. unfold is_async. cbn [unb f_cfg nobg c_async]. rewrite Ha.
  apply sync_step_bsim; assumption.
Qed.

Lemma run_bsim : forall ops xb xn, BSim xb xn -> Forall basic_op ops -> clean_run xn ops ->
  BSim (fst (run xb ops)) (fst (run xn ops)) /\ snd (run xb ops) = snd (run xn ops).
Proof.
  induction ops as [|o r IH]; intros xb xn S Hb Hc; [split; [exact S | reflexivity]|].
  inversion Hb as [|o' r' Ho Hr]; subst. cbn [run clean_run] in *. destruct Hc as [Hok [He Hc]].
  pose proof (step_bsim xb xn o S Ho Hok He) as St.
  destruct (step xb o) as [xb1 ob1]. destruct (step xn o) as [xn1 on1]. cbn [fst snd] in *. destruct St as [S1 O1].
  specialize (IH xb1 xn1 S1 Hr Hc). destruct (run xb1 r) as [xb2 lb]. destruct (run xn1 r) as [xn2 ln]. cbn [fst snd] in *.
  destruct IH as [S2 O2]. split; [exact S2|]. rewrite O1, O2. reflexivity.
Qed.

Lemma stop_bsim xb xn : BSim xb xn ->
  s_w (fst (step xb OStop)) = s_w (fst (step xn OStop)) /\ snd (step xb OStop) = snd (step xn OStop).
Proof.
  intros S0. pose proof (apply_start_bsim xb xn OStop S0) as S. unfold step.
  revert S. generalize (apply_start xb OStop) (apply_start xn OStop). clear. intros xb xn [Ew [K [A [Et [Hd [s [Eb [En [Ha Hs]]]]]]]]].
  unfold step_core. rewrite Eb, En. unfold is_async. cbn [unb f_cfg nobg c_async]. rewrite Ha.
  cbn [sync_step]. rewrite Eb, En. cbn [unb f_poisoned f_inner]. fold (unb s). rewrite drop_state_unb, Ew. cbn [fst snd s_w].
  split; [|reflexivity]. destruct (f_poisoned s); [|reflexivity].
  unfold drain_acts. destruct (f_inner s) as [|[rs|] wr p]; reflexivity.
Qed.

Lemma start_bsim c t0 off : c_async c = false -> c_symlink c = false ->
  BSim (fst (step (sys0 t0 off) (OStart c))) (fst (step (sys0 t0 off) (OStart (nobg c)))).
Proof. intros Ha Hs. cbn. repeat split. exists (new_flw c). repeat split; assumption. Qed.

(* HYPOTHESIS: the run with cleanup in the logging thread returns normal results and reports nothing.
   CONCLUSION: with cleanup in the background thread (and the scheduling assumption: each request is finished before
   the next operation) the run goes through the same worlds and returns the same observations; also after the drop. *)
Theorem bg_sim_whole c t0 off ops :
  c_async c = false -> c_symlink c = false -> Forall basic_op ops ->
  clean_run (fst (step (sys0 t0 off) (OStart (nobg c)))) ops ->
  let rb := run (sys0 t0 off) (OStart c :: ops) in
  let rn := run (sys0 t0 off) (OStart (nobg c) :: ops) in
  let rb' := run (sys0 t0 off) (OStart c :: ops ++ [OStop]) in
  let rn' := run (sys0 t0 off) (OStart (nobg c) :: ops ++ [OStop]) in
  (s_w (fst rb) = s_w (fst rn) /\ snd rb = snd rn) /\ (s_w (fst rb') = s_w (fst rn') /\ snd rb' = snd rn').
Proof.
  intros Ha Hs Hb Hc. cbn zeta. cbn [run]. pose proof (start_bsim c t0 off Ha Hs) as S0.
  assert (O0 : snd (step (sys0 t0 off) (OStart c)) = ObsRes 0%N false) by reflexivity.
  assert (O0' : snd (step (sys0 t0 off) (OStart (nobg c))) = ObsRes 0%N false) by reflexivity.
  destruct (step (sys0 t0 off) (OStart c)) as [xb0 ob0]. destruct (step (sys0 t0 off) (OStart (nobg c))) as [xn0 on0].
  cbn [fst snd] in *. subst ob0 on0. rewrite !run_app.
  destruct (run_bsim ops xb0 xn0 S0 Hb Hc) as [S1 E1].
  destruct (run xb0 ops) as [xb1 lb]. destruct (run xn0 ops) as [xn1 ln]. cbn [fst snd] in *. subst lb.
  split; [split; [apply S1 | reflexivity]|].
  destruct (stop_bsim xb1 xn1 S1) as [W2 O2]. cbn [run].
  destruct (step xb1 OStop) as [xb2 ob2]. destruct (step xn1 OStop) as [xn2 on2]. cbn [fst snd] in *. subst ob2.
  split; [exact W2 | reflexivity].
Qed.
Print Assumptions bg_sim_whole.

(* ------------------------------------------------------------------ 3. Numbers naming with a cleanup strategy *)
(* the runs of numbers_cleanup_stream report nothing: the cleanup never fails there *)
Lemma numk_step_clean c crit k x a o : numkcfg c crit k -> RelK c crit k x a -> basic_op o ->
  kside c k (nclosed (a_step a o (rot_of (snd (step x o))))) ->
  obs_ok (snd (step x o)) /\ werrs (s_w (fst (step x o))) = werrs (s_w x).
Proof.
  intros Hcfg R Hb Hside. split; [exact (step_rel_k_ok c crit k x a o Hcfg R Hb Hside)|]. revert Hside.
  rewrite (step_sync_rel_k c crit k x a o Hcfg R). destruct R as [Ht [Ha R]].
  assert (WB : forall b, exists s, s_flw x = Some s /\ f_poisoned s = false /\
            let '(r, w', s', rot) := write_buffer s (s_w x) b in
            kside c k (nclosed (a_step a (OWrite b) rot)) -> r = Ok tt /\ werrs w' = werrs (s_w x)).
  { intros b. destruct a as [[closed cur]|].
    - destruct R as [wr [roll [Es [I [V [Z RS]]]]]]. rewrite <- V in Z.
      exists (st_ofk c k (length closed) roll wr). split; [exact Es|]. split; [reflexivity|].
      pose proof (write_buffer_rotflag c k (length closed) roll wr (s_w x) b) as RF.
      destruct (write_buffer (st_ofk c k (length closed) roll wr) (s_w x) b) as [[[r w'] s'] rot] eqn:E. cbn [snd] in RF. subst rot.
      intros Hside.
      assert (Hs : rotation_necessary (s_w x) roll = true -> kside c k (S (length closed))).
      { intros Er. rewrite Er in Hside. cbn [a_step nclosed] in Hside. rewrite app_length in Hside. cbn [length] in Hside.
        replace (length closed + 1) with (S (length closed)) in Hside by lia. exact Hside. }
      destruct (write_active_k c crit k (s_w x) wr closed roll b Hcfg I Z Hs) as [w1 [wr' [roll' [closed' [E' [_ [_ [S' _]]]]]]]].
      rewrite E in E'. injection E' as -> -> _. split; [reflexivity | exact (same_env_errs _ _ S')].
    - destruct R as [Es [Q [Hn Hi]]].
      exists (new_flw c). split; [exact Es|]. split; [reflexivity|].
      destruct (write_buffer (new_flw c) (s_w x) b) as [[[r w'] s'] rot] eqn:E. intros Hside.
      assert (Hs0 : kside c k 0) by (eapply kside_le; [|exact Hside]; lia).
      destruct (initialize_empty_k c crit k (s_w x) Hcfg Hs0 Q Hn Hi) as [w1 [wr [roll [Ei [I [V [Z [S1 _]]]]]]]].
      rewrite (write_buffer_init c (s_w x) b _ _ _ w1 Ei) in E.
      change {| f_cfg := c; f_inner := Active (Some (mk_rsk k (NSNumR 0) roll)) wr (cname c); f_poisoned := false |}
        with (st_ofk c k (length (@nil bytes)) roll wr) in E.
      pose proof (write_buffer_rotflag c k (length (@nil bytes)) roll wr w1 b) as RF. rewrite E in RF. cbn [snd] in RF. subst rot.
      assert (Z0 : roll_size_ok roll (length (cur_view w1 wr))) by (rewrite V; exact Z).
      assert (Hs : rotation_necessary w1 roll = true -> kside c k (S (length (@nil bytes)))).
      { intros Er. rewrite Er in Hside. cbn [a_step nclosed app length] in Hside. exact Hside. }
      assert (I0 : NumKInv c w1 wr [] (k_lo k (length (@nil bytes))) (k_mid k (length (@nil bytes))))
        by (cbn [length]; rewrite k_lo_0, k_mid_0; exact I).
      destruct (write_active_k c crit k w1 wr [] roll b Hcfg I0 Z0 Hs) as [w2 [wr' [roll' [closed' [E' [_ [_ [S' _]]]]]]]].
      rewrite E in E'. injection E' as -> -> _. split; [reflexivity|]. rewrite (same_env_errs _ _ S'). exact (same_env_errs _ _ S1). }
  destruct o; try contradiction; cbn [sync_step].
  - destruct (WB (s_tl x ++ b)) as [s [Es [Hp W]]]. rewrite Es, Hp. rewrite Ht in *. cbn [app] in *.
    destruct (write_buffer s (s_w x) b) as [[[r w'] s'] rot]. cbn [fst snd s_w rot_of]. intros Hside.
    destruct (W Hside) as [-> He]. exact He.
  - destruct (WB b) as [s [Es [Hp W]]]. rewrite Es, Hp.
    destruct (write_buffer s (s_w x) b) as [[[r w'] s'] rot]. cbn [fst snd s_w rot_of]. intros Hside.
    destruct (W Hside) as [-> He]. exact He.
  - intros _. destruct a as [[closed cur]|].
    + destruct R as [wr [roll [Es [I _]]]]. rewrite Es. cbn [st_ofk f_poisoned].
      destruct (flush_active_k c k (s_w x) wr closed _ _ roll I) as [w' [wr' [E [_ [_ [_ S']]]]]].
      fold (st_ofk c k (length closed) roll wr). rewrite E. exact (same_env_errs _ _ S').
    + destruct R as [Es _]. rewrite Es. reflexivity.
  - destruct a as [[closed cur]|].
    + destruct R as [wr [roll [Es [I _]]]]. rewrite Es. cbn [st_ofk f_poisoned f_cfg f_inner].
      destruct (mount_next c (s_w x) (Active (Some (mk_rsk k (NSNumR (N.of_nat (length closed))) roll)) wr (cname c)) true)
        as [[r1 w1] st1] eqn:EM. cbn [rot_of a_step snd fst s_w]. intros Hside.
      assert (Hs : kside c k (S (length closed))).
      { cbn [nclosed] in Hside. rewrite app_length in Hside. cbn [length] in Hside.
        replace (length closed + 1) with (S (length closed)) in Hside by lia. exact Hside. }
      destruct (mount_next_rotates_k c crit k (s_w x) wr closed roll true Hcfg Hs I eq_refl) as [w' [wr' [roll' [E [_ [_ [_ [S' _]]]]]]]].
      rewrite EM in E. injection E as _ -> _. exact (same_env_errs _ _ S').
    + intros _. destruct R as [Es _]. rewrite Es. reflexivity.
  - intros _. reflexivity.
  - intros _. reflexivity.
Qed.

Lemma numk_run_clean c crit k : numkcfg c crit k -> forall ops x a, RelK c crit k x a -> Forall basic_op ops ->
  kside c k (nclosed (a_run a ops (snd (run x ops)))) -> clean_run x ops.
Proof.
  intros Hcfg. induction ops as [|o r IH]; intros x a R Hb Hside; [exact I|].
  cbn [run clean_run] in *. inversion Hb as [|o' r' Ho Hr]; subst.
  pose proof (step_rel_k c crit k x a o Hcfg R Ho) as S. pose proof (numk_step_clean c crit k x a o Hcfg R Ho) as C.
  destruct (step x o) as [x1 ob].
  specialize (IH x1 (a_step a o (rot_of ob))). destruct (run x1 r) as [x2 obs]. cbn [fst snd a_run] in *.
  assert (Hs1 : kside c k (nclosed (a_step a o (rot_of ob)))) by (eapply kside_le; [apply nclosed_run | exact Hside]).
  destruct (S Hs1) as [R1 _]. destruct (C Hs1) as [K E]. split; [exact K|]. split; [exact E|]. apply IH; assumption.
Qed.

(* the configuration is of the family numkcfg but for c_bg *)
Lemma numkcfg_nobg c crit k : numkcfg (nobg c) crit k -> c_async c = false /\ c_symlink c = false.
Proof. intros (_ & _ & Hs & Ha & _). split; assumption. Qed.

(* the worlds of numbers_cleanup_stream, with cleanup in the background thread: identical *)
Theorem bg_worlds_numbers_cleanup c crit k t0 off ops :
  numkcfg (nobg c) crit k -> Forall basic_op ops ->
  kside (nobg c) k (nclosed (a_run None ops (snd (run (fst (step (sys0 t0 off) (OStart (nobg c)))) ops)))) ->
  let rb := run (sys0 t0 off) (OStart c :: ops) in
  let rn := run (sys0 t0 off) (OStart (nobg c) :: ops) in
  let rb' := run (sys0 t0 off) (OStart c :: ops ++ [OStop]) in
  let rn' := run (sys0 t0 off) (OStart (nobg c) :: ops ++ [OStop]) in
  (s_w (fst rb) = s_w (fst rn) /\ snd rb = snd rn) /\ (s_w (fst rb') = s_w (fst rn') /\ snd rb' = snd rn').
Proof.
  intros Hcfg Hb Hside. destruct (numkcfg_nobg c crit k Hcfg) as [Ha Hs].
  apply bg_sim_whole; try assumption.
  exact (numk_run_clean (nobg c) crit k Hcfg ops _ None (start_rel_k (nobg c) crit k t0 off) Hb Hside).
Qed.

(* in particular the observations, hence the reader's view a, are the same *)
Corollary bg_view_numbers_cleanup c crit k t0 off ops :
  numkcfg (nobg c) crit k -> Forall basic_op ops ->
  kside (nobg c) k (nclosed (a_run None ops (snd (run (fst (step (sys0 t0 off) (OStart (nobg c)))) ops)))) ->
  a_run None ops (snd (run (fst (step (sys0 t0 off) (OStart c))) ops))
  = a_run None ops (snd (run (fst (step (sys0 t0 off) (OStart (nobg c)))) ops)).
Proof.
  intros Hcfg Hb Hside. destruct (bg_worlds_numbers_cleanup c crit k t0 off ops Hcfg Hb Hside) as [[_ E] _]. cbn zeta in E.
  cbn [run] in E. destruct (step (sys0 t0 off) (OStart c)) as [xb0 ob0]. destruct (step (sys0 t0 off) (OStart (nobg c))) as [xn0 on0].
  cbn [fst]. destruct (run xb0 ops) as [xb1 lb]. destruct (run xn0 ops) as [xn1 ln]. cbn [snd] in *. injection E as _ ->. reflexivity.
Qed.

(* the views mention the configuration through the file names only *)
Lemma kreader_view_nobg c f closed cur lo mid : kreader_view (nobg c) f closed cur lo mid -> kreader_view c f closed cur lo mid.
Proof. intros [[A B C D E] H]. split; [constructor; assumption | exact H]. Qed.

(* numbers_cleanup_stream for cleanup in the background thread *)
Theorem numbers_cleanup_stream_bg c crit k t0 off ops :
  numkcfg (nobg c) crit k -> Forall basic_op ops ->
  let a := a_run None ops (snd (run (fst (step (sys0 t0 off) (OStart (nobg c)))) ops)) in
  kside (nobg c) k (nclosed a) ->
  let f := wfs (s_w (fst (run (sys0 t0 off) (OStart c :: ops ++ [OStop])))) in
  flat a = written ops
  /\ match a with
     | None => names f = []
     | Some (closed, cur) => kreader_view c f closed cur (k_lo k (length closed)) (k_mid k (length closed))
     end.
Proof.
  intros Hcfg Hb a Hside f. destruct (bg_worlds_numbers_cleanup c crit k t0 off ops Hcfg Hb Hside) as [_ [E _]]. cbn zeta in E.
  unfold f. rewrite E.
  pose proof (numbers_cleanup_stream (nobg c) crit k t0 off ops Hcfg Hb Hside) as [T1 T2]. split; [exact T1|].
  fold a in T2. destruct a as [[closed cur]|]; [apply kreader_view_nobg; exact T2 | exact T2].
Qed.

(* numbers_cleanup_properties for cleanup in the background thread.  closed, cur: the reader's view that the run would
   leave without cleanup (by bg_view_numbers_cleanup it is the same for both variants) *)
Theorem numbers_cleanup_bg c crit k n m t0 off ops closed cur :
  numkcfg (nobg c) crit k -> klim k = Some (n, m) -> Forall basic_op ops ->
  sfx_ok (c_spec c) ->
  a_run None ops (snd (run (fst (step (sys0 t0 off) (OStart (nobg c)))) ops)) = Some (closed, cur) ->
  let f := wfs (s_w (fst (run (sys0 t0 off) (OStart c :: ops ++ [OStop])))) in
  let L := length closed in let lo := L - (n + m) in let mid := L - n in
  concat closed ++ cur = written ops
  /\ (forall x, (exists j, lookup f x = Some j) <->
        x = cname c \/ (exists i, mid <= i < L /\ x = rname c i) \/ (exists i, lo <= i < mid /\ x = gname c i))
  /\ NoDup (dir_names f)
  /\ L - mid <= n /\ mid - lo <= m
  /\ (forall off', list_log_gz off' (c_spec c) (fixed0 c) f IFNum = Some (listing c lo mid L))
  /\ (forall i, mid <= i < L -> lookup f (gname c i) = None /\
        exists fl, file_of f (rname c i) = Some fl /\ fdata fl = nth i closed [] /\ fgz fl = 0%N /\ fdir fl = false)
  /\ (forall i, lo <= i < mid -> lookup f (rname c i) = None /\
        exists fl, file_of f (gname c i) = Some fl /\ fdata fl = nth i closed [] /\ fgz fl = 1%N /\ fdir fl = false)
  /\ (forall i, i < lo -> lookup f (rname c i) = None /\ lookup f (gname c i) = None)
  /\ written ops = concat (firstn lo closed) ++ concat (map (fun i => data_at f (entry c mid i)) (seq lo (L - lo))) ++ cur
  /\ (exists fl, file_of f (cname c) = Some fl /\ fdata fl = cur /\ fgz fl = 0%N /\ fdir fl = false).
Proof.
  intros Hcfg Hk Hb Hsfx Ea f.
  assert (Hside : kside (nobg c) k (nclosed (a_run None ops (snd (run (fst (step (sys0 t0 off) (OStart (nobg c)))) ops))))).
  { rewrite Ea. unfold kside. rewrite Hk. exact Hsfx. }
  destruct (bg_worlds_numbers_cleanup c crit k t0 off ops Hcfg Hb Hside) as [_ [E _]]. cbn zeta in E.
  unfold f. rewrite E.
  exact (numbers_cleanup_properties (nobg c) crit k n m t0 off ops closed cur Hcfg Hk Hb Hsfx Ea).
Qed.

(* size criterion: the view is a function of the operations *)
Theorem numbers_cleanup_partition_bg c k m t0 off ops :
  numkcfg (nobg c) (CSize m) k -> Forall basic_op ops ->
  kside (nobg c) k (nclosed (s_run m None ops)) ->
  let f := wfs (s_w (fst (run (sys0 t0 off) (OStart c :: ops ++ [OStop])))) in
  match s_run m None ops with
  | None => names f = []
  | Some (closed, cur) =>
    closed ++ [cur] = expected_files m None (items false ops)
    /\ kreader_view c f closed cur (k_lo k (length closed)) (k_mid k (length closed))
  end.
Proof.
  intros Hcfg Hb Hside f.
  assert (Hside' : kside (nobg c) k (nclosed (a_run None ops (snd (run (fst (step (sys0 t0 off) (OStart (nobg c)))) ops))))).
  { pose proof (start_rel_k (nobg c) (CSize m) k t0 off) as R0.
    rewrite (run_size_k' (nobg c) k m Hcfg ops _ None R0 Hb Hside). exact Hside. }
  destruct (bg_worlds_numbers_cleanup c (CSize m) k t0 off ops Hcfg Hb Hside') as [_ [E _]]. cbn zeta in E.
  unfold f. rewrite E. pose proof (numbers_cleanup_partition (nobg c) k m t0 off ops Hcfg Hb Hside) as T. cbn zeta in T.
  destruct (s_run m None ops) as [[closed cur]|]; [|exact T]. destruct T as [T1 T2]. split; [exact T1 | apply kreader_view_nobg; exact T2].
Qed.

Theorem numbers_cleanup_no_panic_bg c crit k t0 off ops :
  numkcfg (nobg c) crit k -> Forall basic_op ops ->
  kside (nobg c) k (nclosed (a_run None ops (snd (run (fst (step (sys0 t0 off) (OStart (nobg c)))) ops)))) ->
  Forall obs_ok (snd (run (sys0 t0 off) (OStart c :: ops ++ [OStop]))).
Proof.
  intros Hcfg Hb Hside. destruct (bg_worlds_numbers_cleanup c crit k t0 off ops Hcfg Hb Hside) as [_ [_ E]]. cbn zeta in E.
  rewrite E. exact (numbers_cleanup_no_panic (nobg c) crit k t0 off ops Hcfg Hb Hside).
Qed.

Print Assumptions bg_worlds_numbers_cleanup.
Print Assumptions numbers_cleanup_stream_bg.
Print Assumptions numbers_cleanup_bg.
Print Assumptions numbers_cleanup_partition_bg.
Print Assumptions numbers_cleanup_no_panic_bg.

(* ------------------------------------------------------------------ examples *)
Section Examples.
Import String.StringSyntax.
Definition with_bg (c : config) : config :=
  {| c_spec := c_spec c; c_append := c_append c; c_cap := c_cap c; c_rot := c_rot c; c_utc := c_utc c;
     c_symlink := c_symlink c; c_bg := true; c_async := c_async c; c_start := c_start c |}.

(* the history of NumCleanup.v (six records, a rotation before each but the first), KLogGz 1 1: with the cleanup in the
   background thread and in the logging thread - the same directory, the same observations, nothing reported *)
Definition exb_c : config := with_bg (ex_cfg (KLogGz 1 1) log_sfx).
Example exb_nobg : nobg exb_c = ex_cfg (KLogGz 1 1) log_sfx.
Proof. reflexivity. Qed.

Example exb_side_by_side :
  let rb := run (sys0 0 0) (OStart exb_c :: ex_ops ++ [OSnap; OStop]) in
  let rn := run (sys0 0 0) (OStart (nobg exb_c) :: ex_ops ++ [OSnap; OStop]) in
  snapshot (s_w (fst rb)) = snapshot (s_w (fst rn)) /\ snd rb = snd rn
  /\ snapshot (s_w (fst rb))
     = ObsSnap [(bs "a_r00003.log.gz"%string, 1%N, bs "abcd"%string ++ [3%N]);
                (bs "a_r00004.log"%string, 0%N, bs "abcd"%string ++ [4%N]);
                (bs "a_rCURRENT.log"%string, 0%N, bs "abcd"%string ++ [5%N])] None []
  /\ wacts (s_w (fst rb)) = 0.
Proof. vm_compute. repeat split. Qed.

(* the flag in the writer state is what differs under way *)
Example exb_flag :
  let bg_of x := match s_flw x with
                 | Some s => match f_inner s with Active (Some rs) _ _ => Some (rs_bg rs) | _ => None end
                 | None => None end in
  (bg_of (fst (run (sys0 0 0) (OStart exb_c :: ex_ops))), bg_of (fst (run (sys0 0 0) (OStart (nobg exb_c) :: ex_ops))))
  = (Some true, Some false).
Proof. vm_compute. reflexivity. Qed.

(* instance of the theorem *)
Example exb_instance :
  let f := wfs (s_w (fst (run (sys0 0 0) (OStart exb_c :: ex_ops ++ [OStop])))) in
  let closed := map (fun i => bs "abcd"%string ++ [N.of_nat i]) (seq 0 5) in
  let cur := bs "abcd"%string ++ [5%N] in
  kreader_view exb_c f closed cur 3 4.
Proof.
  intros f closed cur.
  assert (Es : s_run 3 None ex_ops = Some (closed, cur)) by (vm_compute; reflexivity).
  pose proof (numbers_cleanup_partition_bg exb_c (KLogGz 1 1) 3 0 0 ex_ops (ex_numkcfg _ _) ex_ops_basic) as T.
  cbv zeta in T. rewrite Es in T. fold f in T.
  destruct T as [_ V]. { exact ex_sfx_ok. }
  exact V.
Qed.

(* Where the two variants differ (not covered by the theorems, and the reason for their hypothesis): when the cleanup
   fails - here by an injected fault in its directory listing; OSetFaults is not a basic operation - the logging thread
   reports the failed rotation (ELogFile), whereas nobody looks at the result of the background thread *)
Definition exb_ops_fault : list op :=
  [OWrite (bs "abcd"%string); OSetFaults [false; false; true]; OWrite (bs "efgh"%string)].
Example exb_fault :
  (werrs (s_w (fst (run (sys0 0 0) (OStart exb_c :: exb_ops_fault)))),
   werrs (s_w (fst (run (sys0 0 0) (OStart (nobg exb_c) :: exb_ops_fault)))))
  = ([], [ELogFile]).
Proof. vm_compute. reflexivity. Qed.
End Examples.
