(* NumbersDirect naming WITH a cleanup strategy (KeepLogFiles, KeepCompressedFiles, or both), cleanup in the logging
   thread, direct mode, a process that is killed at an arbitrary effect: the creation of the next numbered file, a write,
   and inside the cleanup: remove_file and the four effects of compress_file (create archive, copy, finish, remove original).
   Theorem numbersdirect_cleanup_kill_keeps_acked: the directory left behind, read as the reader does (kill_view of
   NumCleanupKillDir.v with no rCURRENT: files by number, archives decompressed, an archive next to its original ignored),
   holds a tail of the acknowledged records that is at least as long as the limits allow; the newest numbered file - the
   one that was being written - is a plain file, never an archive.
   `all` lists the contents of ALL numbered files ever created, the newest (the file being written) last; (n, m) = klimd k are
   the effective limits: n >= 1 plain files INCLUDING the file being written, m archives (NumDCleanupStep.v). *)
Require Import FL.Base.Bytes FL.Base.BytesFacts FL.Base.PathName FL.Fs.Fs FL.Fs.FsFacts FL.Time.Civil FL.Time.TsFormat
  FL.Names.FileSpec FL.Names.NamesFacts FL.Names.SortFacts FL.Names.FamilyFacts FL.Flw.Model FL.Flw.ModelFacts FL.Flw.NumFs
  FL.Flw.NumInv FL.Flw.Run FL.Flw.RunFacts FL.Flw.NumRun FL.Flw.NumListing FL.Oracles.O_Flw FL.Flw.NumTheorems FL.Flw.CleanupFacts
  FL.Flw.NumCleanupNames FL.Flw.NumCleanupStep FL.Flw.NumCleanupRun FL.Flw.NumRestart FL.Flw.KillFacts FL.Flw.NumKill
  FL.Flw.NumKillRestart FL.Flw.NumDInv FL.Flw.NumDRun
  FL.Flw.NumCleanupKillDir FL.Flw.NumCleanupKillStep FL.Flw.NumDCleanupStep FL.Flw.NumDCleanupRun FL.Flw.NumDCleanupKillStep.
From Coq Require Import ZifyN ZifyNat ZifyBool.
Open Scope nat_scope.

(* ------------------------------------------------------------------ the directory of a killed process *)
(* a well-formed file system that holds the numbered files in one of the shapes of xdir (no rCURRENT), not cleaned beyond
   the effective limits (n plain files, the newest included; m archives) *)
Definition XDD (c : config) (n m : nat) (f : fs) (all : list bytes) : Prop :=
  exists lo mid red, fs_wf f /\ nodup_names f /\ xdir c (file_of f) all None lo mid red
    /\ lo <= length all - (n + m) /\ mid <= length all - n.

Definition DeadKD (c : config) (n m : nat) (w : world) (all : list bytes) : Prop := dead w /\ XDD c n m (wfs w) all.

Lemma kstd_xdd c n m f0 f all lo mid red : kstd c f0 f all lo mid red -> lo <= length all - (n + m) -> mid <= length all - n ->
  XDD c n m f all.
Proof. intros [[W Nd X _] _] U1 U2. exists lo, mid, red. auto. Qed.

Lemma numdkinv_kstd c q wr closed lo mid : NumDKInv c q wr closed lo mid -> wpend wr = [] ->
  kstd c (wfs q) (wfs q) (closed ++ [cur_view q wr]) lo mid None.
Proof.
  intros [Q W Hc Hcp Hmid KD Hnc Hwr Hcap] P.
  assert (Ecv : cur_view q wr = content (wfs q) (wino wr)) by (unfold cur_view; rewrite P, app_nil_r; reflexivity).
  rewrite Ecv. split; [|apply same_at_refl]. constructor.
  - exact W.
  - exact (kd_nodup _ _ _ _ _ KD).
  - apply kdir_xdir; [exact KD | exact Hnc].
  - apply same_at_refl.
Qed.

Lemma kstd_numdkinv c q f0 f' wr closed lo mid cu :
  quiet q -> kstd c f0 f' (closed ++ [cu]) lo mid None -> mid <= length closed ->
  lookup f0 (rname c (length closed)) = Some (wino wr) -> wr_ok wr -> wcap wr = c_cap c -> wpend wr = [] ->
  NumDKInv c (set_fs q f') wr closed lo mid /\ cur_view (set_fs q f') wr = cu.
Proof.
  intros Q [[W Nd X Sc] SL] Hmid Lc Hok Hcap P.
  rewrite len_snoc in SL. replace (S (length closed) - 1) with (length closed) in SL by lia.
  destruct (same_at_content _ _ _ _ SL Lc) as [Lc' Ic'].
  destruct (xd_plain _ _ _ _ _ _ _ X (length closed)) as (fl & Ff & G & D & C); [rewrite len_snoc; lia|].
  rewrite app_nth2, Nat.sub_diag in C by lia. cbn [nth] in C.
  apply file_of_some in Ff. destruct Ff as (j & Lj & ->). rewrite Lc' in Lj. injection Lj as <-.
  assert (Ec : content f' (wino wr) = cu) by exact C.
  split.
  - constructor.
    + apply quiet_set_fs2. exact Q.
    + exact W.
    + exact Lc'.
    + split; assumption.
    + exact Hmid.
    + rewrite wfs_set_fs, Ec. eapply xdir_kdir; eassumption.
    + rewrite wfs_set_fs. apply file_of_none. exact (xd_cur _ _ _ _ _ _ _ X).
    + exact Hok.
    + exact Hcap.
  - unfold cur_view. rewrite wfs_set_fs, P, app_nil_r. exact Ec.
Qed.

Lemma cleanup_budget_noop_d c k n m q all lo mid j :
  fts (c_spec c) = false -> klimd k = Some (n, m) -> sfx_ok (c_spec c) -> quiet q ->
  kdir c (wfs q) all lo mid -> length all <= n ->
  cleanup_impl c (kw q j) k IFNum (Some (rname c (length all - 1))) = (Ok tt, kw q j).
Proof.
  intros Hts Hk Hsfx Q KD Hn.
  pose proof (kd_le _ _ _ _ _ KD) as Hle.
  rewrite (cleanup_impl_kw_unfold_d c q j k IFNum n m _ Hk Q), (fixed_of_fixed0 c _ Hts).
  rewrite (list_log_gz_numbers c (wfs q) (woff q) _ _ _ Hsfx (kdir_shape _ _ _ _ _ KD)).
  rewrite (listing_no_redundant c _ _ _ Hsfx Hle). cbn [remove_redundant negb].
  rewrite cleanup_loop_cur_kept.
  - rewrite cleanup_loop_all_keep; [reflexivity|].
    intros k0 x Hk0. apply listing_nth_inv in Hk0; [|exact Hle]. apply act_keep_below; lia.
  - intros k0 Hk0. apply listing_nth_inv in Hk0; [|exact Hle]. apply act_keep_below; lia.
Qed.

Section Direct.
Variables (c : config) (crit : criterion) (k : cleanup) (n m : nat).
Hypothesis Hcfg : numdkcfg c crit k.
Hypothesis Hk : klimd k = Some (n, m).
Hypothesis Hcap : c_cap c = None.
Hypothesis Hsfx : sfx_ok (c_spec c).

Lemma d_lo_eq L : d_lo k L = S L - (n + m).
Proof. unfold d_lo. rewrite Hk. reflexivity. Qed.
Lemma d_mid_eq L : d_mid k L = S L - n.
Proof. unfold d_mid. rewrite Hk. reflexivity. Qed.
Lemma n_pos : 1 <= n.
Proof. exact (klimd_pos _ _ _ Hk). Qed.
Lemma dside_of L : dside c k L.
Proof. unfold dside. rewrite Hk. exact Hsfx. Qed.

Lemma direct_wr_dk q wr cl lo mid : NumDKInv c q wr cl lo mid -> wpend wr = [] /\ wcap wr = None.
Proof.
  intros I. pose proof (dk_wr _ _ _ _ _ _ I) as Hw. pose proof (dk_cap _ _ _ _ _ _ I) as Hc. rewrite Hcap in Hc.
  unfold wr_ok in Hw. rewrite Hc in Hw. split; assumption.
Qed.

Lemma numdkinv_xdd q wr closed : NumDKInv c q wr closed (d_lo k (length closed)) (d_mid k (length closed)) -> wpend wr = [] ->
  XDD c n m (wfs q) (closed ++ [cur_view q wr]).
Proof.
  intros I P. eapply kstd_xdd; [apply (numdkinv_kstd c q wr closed _ _ I P) | |]; rewrite len_snoc.
  - rewrite d_lo_eq. lia.
  - rewrite d_mid_eq. lia.
Qed.

(* ---- one rotation with a budget: create the next file, cleanup ---- *)
Lemma mount_next_kdk q wr closed roll force j :
  NumDKInv c q wr closed (d_lo k (length closed)) (d_mid k (length closed)) ->
  force || rotation_necessary q roll = true ->
  exists r w' st',
    mount_next c (kw q (S j)) (Active (Some (mk_rsk k (NSNumD (N.of_nat (length closed))) roll)) wr (rname c (length closed))) force = (r, w', st') /\
    ( (exists q' j' wr' roll', w' = kw q' (S j') /\ r = Ok tt
         /\ st' = Active (Some (mk_rsk k (NSNumD (N.of_nat (S (length closed)))) roll')) wr' (rname c (S (length closed)))
         /\ NumDKInv c q' wr' (closed ++ [cur_view q wr]) (d_lo k (S (length closed))) (d_mid k (S (length closed)))
         /\ cur_view q' wr' = [] /\ roll_size_ok roll' 0 /\ same_env q q'
         /\ (forall m0 cur, roll = RSize m0 cur -> exists cur', roll' = RSize m0 cur'))
      \/ (exists qd all, w' = kw qd 0 /\ quiet qd /\ XDD c n m (wfs qd) all
            /\ concat all = concat closed ++ cur_view q wr /\ length all <= S (S (length closed))) ).
Proof.
  intros I Hnec. pose proof Hcfg as (Hrot & Hts & Hlink & Has & Hbg). pose proof n_pos as Hn1.
  pose proof I as [Q W Hc Hcp Hmid KD Hnc Hwr Hcapw]. destruct (direct_wr_dk q wr closed _ _ I) as [Hp Hc0].
  destruct (kdir_rotate_d c (wfs q) closed _ _ (wino wr) (wpend wr) (wnow q) W KD Hmid Hc Hnc) as (Ht & R).
  cbn zeta in R. destruct R as (W3 & L3t & Inew & Hnc3 & KD3). rewrite Hp, append_ino_nil_id in W3, L3t, Inew, Hnc3, KD3.
  rewrite app_nil_r in KD3.
  set (f2 := fst (create_file (wfs q) (rname c (S (length closed))) 0%N (wnow q))) in *.
  set (new := snd (create_file (wfs q) (rname c (S (length closed))) 0%N (wnow q))) in *.
  assert (Ecv : cur_view q wr = content (wfs q) (wino wr)) by (unfold cur_view; rewrite Hp, app_nil_r; reflexivity).
  assert (Hfree : match file_of (wfs q) (rname c (S (length closed))) with Some fl => fdir fl | None => false end = false).
  { unfold file_of. rewrite Ht. reflexivity. }
  assert (D0 : exists qd all, kw q 0 = kw qd 0 /\ quiet qd /\ XDD c n m (wfs qd) all
            /\ concat all = concat closed ++ cur_view q wr /\ length all <= S (S (length closed))).
  { exists q, (closed ++ [cur_view q wr]). split; [reflexivity|]. split; [exact Q|].
    split; [apply (numdkinv_xdd q wr closed I Hp)|].
    split; [rewrite concat_app; cbn [concat]; rewrite app_nil_r; reflexivity | rewrite len_snoc; lia]. }
  unfold mount_next. cbn [mk_rsk rs_roll rs_naming rs_cleanup rs_bg]. rewrite rot_nec_kw, Hnec.
  unfold open_log_file. rewrite (name_of_fixed c (kw q (S j))) by assumption.
  fold (nm c (number_infix (N.of_nat (length closed) + 1))). rewrite rname_S.
  unfold do_symlink. rewrite Hlink. rewrite p_open_kw by exact Q. rewrite Hfree.
  destruct j as [|j']; cbn [eff].
  - (* killed at the creation of the next file *)
    pose proof (dead_kw q Q) as Hd.
    destruct (w_flush_dead (kw q 0) wr Hd) as [wra Ef]. rewrite Ef. cbv beta iota zeta. rewrite w_drop_dead by assumption.
    unfold cleanup_or_queue. cbn [ns_filter ns_writes_direct].
    destruct (cleanup_impl_dead c (kw q 0) k IFNum (Some (rname c (S (length closed)))) Hd) as [rc Ec].
    rewrite Ec. eexists _, _, _. split; [reflexivity | right; exact D0].
  - (* the creation is done: the cleanup *)
    assert (Eopen : (if c_append c then open_append (wfs q) (rname c (S (length closed))) (wnow q)
                     else open_trunc (wfs q) (rname c (S (length closed))) 0%N (wnow q))
                    = create_file (wfs q) (rname c (S (length closed))) 0%N (wnow q)).
    { destruct (c_append c); [apply open_append_fresh | apply open_trunc_fresh]; exact Ht. }
    rewrite !Eopen. fold f2 new. cbv beta iota zeta.
    rewrite w_flush_nop by exact Hp. cbv beta iota zeta. rewrite w_drop_nop by reflexivity.
    unfold cleanup_or_queue. cbn [ns_filter ns_writes_direct].
    set (q2 := set_fs q f2).
    assert (Q2 : quiet q2) by (apply quiet_set_fs; exact Q).
    set (wr' := {| wino := new; wpend := []; wcap := c_cap c |}).
    set (closed' := closed ++ [content (wfs q) (wino wr)]) in *.
    assert (EL : length closed' = S (length closed)) by (unfold closed'; apply len_snoc).
    assert (I3 : NumDKInv c q2 wr' closed' (d_lo k (length closed)) (d_mid k (length closed))).
    { constructor.
      - exact Q2.
      - exact W3.
      - rewrite EL. exact L3t.
      - cbn [wr' wino]. unfold q2. rewrite wfs_set_fs, Inew. split; reflexivity.
      - rewrite EL. lia.
      - exact KD3.
      - exact Hnc3.
      - unfold wr_ok, wr'. cbn. rewrite Hcap. reflexivity.
      - reflexivity. }
    pose proof (numdkinv_kstd c q2 wr' closed' _ _ I3 eq_refl) as K2.
    assert (V2 : cur_view q2 wr' = []).
    { unfold cur_view, q2. rewrite wfs_set_fs. cbn [wr' wino wpend]. unfold content. rewrite Inew. reflexivity. }
    rewrite V2 in K2. set (all' := closed' ++ [[]]) in *.
    assert (EL' : length all' = S (S (length closed))) by (unfold all'; rewrite len_snoc, EL; reflexivity).
    assert (K2' : kstd c (wfs q2) (wfs q2) all' (length all' - 1 - (n + m)) (length all' - 1 - n) None).
    { rewrite EL'. rewrite d_lo_eq, d_mid_eq in K2.
      replace (S (S (length closed)) - 1 - (n + m)) with (S (length closed) - (n + m)) by lia.
      replace (S (S (length closed)) - 1 - n) with (S (length closed) - n) by lia. exact K2. }
    pose proof (cleanup_budget_d c k n m q2 all' j' Hts Hk Hsfx Q2 K2') as CB.
    rewrite EL' in CB. replace (S (S (length closed)) - 1) with (S (length closed)) in CB by lia.
    destruct CB as (rc & w4 & Ec & [(f' & j2 & -> & -> & K4) | (f' & lo & mid & red & -> & K4 & U4 & U5)]).
    + rewrite Ec. eexists _, _, _. split; [reflexivity|]. left.
      exists (set_fs q2 f'), j2, wr', (reset_size_and_date (kw q2 (S j')) roll (rname c (S (length closed)))).
      split; [reflexivity|]. split; [reflexivity|].
      split. { replace (N.of_nat (length closed) + 1)%N with (N.of_nat (S (length closed))) by lia. reflexivity. }
      assert (Lc2 : lookup (wfs q2) (rname c (length closed')) = Some (wino wr')) by (rewrite EL; exact L3t).
      destruct (kstd_numdkinv c q2 (wfs q2) f' wr' closed' _ _ [] Q2 K4 ltac:(rewrite EL; pose proof n_pos; lia) Lc2) as [I4 V4].
      { unfold wr_ok, wr'. cbn. rewrite Hcap. reflexivity. } { reflexivity. } { reflexivity. }
      rewrite Ecv. fold closed'.
      split. { rewrite d_lo_eq, d_mid_eq. exact I4. }
      split; [exact V4|].
      split. { rewrite reset_kw. destruct roll; cbn; auto. }
      split. { unfold q2. rewrite set_fs_set_fs. apply same_env_set_fs. exact Q. }
      intros m0 cur ->. cbn. eauto.
    + rewrite Ec. eexists _, _, _. split; [reflexivity|]. right.
      exists (set_fs q2 f'), all'. split; [reflexivity|]. split; [apply quiet_set_fs; exact Q2|].
      split; [rewrite wfs_set_fs; apply (kstd_xdd c n m _ _ _ _ _ _ K4); rewrite EL'; assumption|].
      split. { unfold all', closed'. rewrite !concat_app, Ecv. cbn [concat]. rewrite !app_nil_r. reflexivity. }
      rewrite EL'. lia.
Qed.

(* ---- one write(2) of the unbuffered writer with a budget ---- *)
Lemma w_write_kdk q wr cl lo mid b j :
  NumDKInv c q wr cl lo mid ->
  exists w', w_write (kw q (S j)) wr b = (true, w', wr) /\
   ( (exists q' j', w' = kw q' (S j') /\ NumDKInv c q' wr cl lo mid /\ cur_view q' wr = cur_view q wr ++ b /\ same_env q q')
     \/ w' = kw q 0 ).
Proof.
  intros I. destruct (direct_wr_dk q wr cl lo mid I) as [Hp Hc0]. pose proof (dk_quiet _ _ _ _ _ _ I) as Q.
  unfold w_write. rewrite Hc0. rewrite p_write_kw by exact Q.
  destruct b as [|x b].
  - eexists. split; [reflexivity|]. left. exists q, j. split; [reflexivity|]. split; [exact I|].
    split; [rewrite app_nil_r; reflexivity | apply same_env_refl; exact Q].
  - destruct j as [|j']; cbn [eff].
    + eexists. split; [reflexivity|]. right. reflexivity.
    + eexists. split; [reflexivity|]. left. exists (set_fs q (append_ino (wfs q) (wino wr) (x :: b))), j'.
      split; [reflexivity|].
      destruct (numdkinv_append c q (set_fs q (append_ino (wfs q) (wino wr) (x :: b))) wr wr cl lo mid (x :: b) I eq_refl
                  (same_env_set_fs q _ Q) eq_refl eq_refl (dk_wr _ _ _ _ _ _ I)) as [I2 C2].
      split; [exact I2|]. split; [|apply same_env_set_fs; exact Q].
      unfold cur_view. rewrite C2, Hp, !app_nil_r. reflexivity.
Qed.

(* ---- a write on an active writer with a budget: every kill point ---- *)
Lemma write_active_kdk q wr cl roll b j :
  NumDKInv c q wr cl (d_lo k (length cl)) (d_mid k (length cl)) -> roll_size_ok roll (length (cur_view q wr)) ->
  exists r w' s' rot', write_buffer (st_ofdk c k (length cl) roll wr) (kw q (S j)) b = (r, w', s', rot') /\
  ( (exists q' j' wr' roll' cl', w' = kw q' (S j') /\ r = Ok tt /\ s' = st_ofdk c k (length cl') roll' wr'
       /\ rot' = rotation_necessary q roll
       /\ NumDKInv c q' wr' cl' (d_lo k (length cl')) (d_mid k (length cl')) /\ roll_size_ok roll' (length (cur_view q' wr')) /\ same_env q q'
       /\ (cl', cur_view q' wr') = (if rotation_necessary q roll then (cl ++ [cur_view q wr], b) else (cl, cur_view q wr ++ b))
       /\ (forall m0 cur, roll = RSize m0 cur -> exists cur', roll' = RSize m0 cur'))
    \/ (exists qd all, w' = kw qd 0 /\ quiet qd /\ XDD c n m (wfs qd) all
          /\ concat all = concat cl ++ cur_view q wr /\ length all <= S (S (length cl))) ).
Proof.
  intros I Hsz. destruct (direct_wr_dk q wr cl _ _ I) as [Hp Hc0]. pose proof (dk_quiet _ _ _ _ _ _ I) as Q.
  unfold write_buffer, st_ofdk. cbn [f_cfg f_inner f_poisoned mk_rsk rs_roll]. rewrite rot_nec_kw.
  destruct (rotation_necessary q roll) eqn:Er.
  - (* the write rotates first *)
    destruct (mount_next_kdk q wr cl roll false j I) as (r1 & w1 & st1 & E1 & M); [cbn [orb]; exact Er|].
    rewrite E1.
    destruct M as [(q1 & j1 & wr1 & roll1 & -> & -> & -> & I1 & V1 & Z1 & S1 & R1) | (qd & all & -> & Qd & Xd & Fl & Len)].
    + cbv beta iota zeta.
      assert (EL : length (cl ++ [cur_view q wr]) = S (length cl)) by apply len_snoc.
      rewrite <- EL in I1.
      destruct (w_write_kdk q1 wr1 (cl ++ [cur_view q wr]) _ _ b j1 I1) as [w2 [Ew Out]]. rewrite Ew.
      eexists _, w2, _, true. split; [reflexivity|].
      destruct Out as [[q2 [j2 [-> [I2 [V2 S2]]]]] | ->].
      * left. exists q2, j2, wr1, (increase_size roll1 (N.of_nat (length b))), (cl ++ [cur_view q wr]).
        split; [reflexivity|]. split; [reflexivity|]. split; [unfold st_ofdk; rewrite EL; reflexivity|]. split; [reflexivity|].
        split; [exact I2|]. rewrite V1 in V2. cbn [app] in V2.
        split. { rewrite V2. apply (roll_size_increase roll1 0 (length b)). exact Z1. }
        split; [eapply same_env_trans; eassumption|].
        split; [rewrite V2; reflexivity|].
        intros m0 cur Hr. destruct (R1 m0 cur Hr) as [cur' ->]. cbn. eauto.
      * right. destruct (direct_wr_dk q1 wr1 _ _ _ I1) as [Hp1 _].
        exists q1, ((cl ++ [cur_view q wr]) ++ [cur_view q1 wr1]).
        split; [reflexivity|]. split; [apply I1|]. split; [exact (numdkinv_xdd q1 wr1 _ I1 Hp1)|].
        split.
        -- rewrite V1, !concat_app. cbn [concat]. rewrite !app_nil_r. reflexivity.
        -- rewrite !len_snoc. lia.
    + destruct (wb_tail_dead {| f_cfg := c; f_inner := Active (Some (mk_rsk k (NSNumD (N.of_nat (length cl))) roll)) wr (rname c (length cl)); f_poisoned := false |}
                  b r1 (kw qd 0) st1 true (dead_kw qd Qd)) as [r [s' ET]].
      exists r, (kw qd 0), s', true. split; [exact ET|]. right. exists qd, all. auto.
  - (* no rotation *)
    unfold mount_next. cbn [mk_rsk rs_roll orb]. rewrite rot_nec_kw, Er.
    destruct (w_write_kdk q wr cl _ _ b j I) as [w2 [Ew Out]]. rewrite Ew.
    eexists _, w2, _, false. split; [reflexivity|].
    destruct Out as [[q2 [j2 [-> [I2 [V2 S2]]]]] | ->].
    + left. exists q2, j2, wr, (increase_size roll (N.of_nat (length b))), cl.
      split; [reflexivity|]. split; [reflexivity|]. split; [reflexivity|]. split; [reflexivity|].
      split; [exact I2|].
      split. { rewrite V2, app_length. apply roll_size_increase. exact Hsz. }
      split; [exact S2|]. split; [rewrite V2; reflexivity|].
      intros m0 cur ->. cbn. eauto.
    + right. exists q, (cl ++ [cur_view q wr]). split; [reflexivity|]. split; [exact Q|].
      split; [exact (numdkinv_xdd q wr cl I Hp)|].
      split; [rewrite concat_app; cbn [concat]; rewrite app_nil_r; reflexivity | rewrite len_snoc; lia].
Qed.

(* ---- the first write: initialisation in the empty directory with a budget (one effect: the creation of r00000;
        the initial cleanup finds one file and does nothing) ---- *)
Lemma initialize_empty_kdk q j :
  quiet q -> names (wfs q) = [] -> inodes (wfs q) = [] ->
  match j with
  | 0 => exists r, initialize c (kw q 1) = (r, kw q 0)
  | S j' => exists q' wr roll,
      initialize c (kw q (S (S j'))) = (Ok (Active (Some (mk_rsk k (NSNumD 0) roll)) wr (rname c 0)), kw q' (S j'))
      /\ NumDKInv c q' wr [] 0 0 /\ cur_view q' wr = [] /\ roll_size_ok roll 0 /\ same_env q q'
      /\ (forall m0, crit = CSize m0 -> roll = RSize m0 0)
  end.
Proof.
  intros Q Hn Hi. pose proof Hcfg as (Hrot & Hts & Hlink & Has & Hbg).
  assert (Hnd : match file_of (wfs q) (rname c 0) with Some fl => fdir fl | None => false end = false).
  { unfold file_of. rewrite lookup_empty by assumption. reflexivity. }
  assert (Eopen : (if c_append c then open_append (wfs q) (rname c 0) (wnow q) else open_trunc (wfs q) (rname c 0) 0%N (wnow q))
                  = create_file (wfs q) (rname c 0) 0%N (wnow q)).
  { destruct (c_append c); [apply open_append_fresh | apply open_trunc_fresh]; apply lookup_empty; assumption. }
  assert (Ecl : forall w d, match k with KNever => (Ok tt, w) | _ => cleanup_impl c w k (ns_filter (NSNumD 0)) (if naming_writes_direct NNumbersDirect then Some d else None) end
                = cleanup_impl c w k IFNum (Some d)) by (intros w d; destruct k; reflexivity).
  assert (Ebg : match k with KNever => false | _ => c_bg c end = false) by (destruct k; auto).
  destruct j as [|j'].
  - unfold initialize. rewrite Hrot. unfold init_naming, with_listing.
    rewrite tick_kw by assumption. cbn [kw set_kill wfs woff].
    unfold get_highest_index, list_log_gz. rewrite existing_rot_empty by exact Hn. cbn [filter_map_opt max_opt bind].
    unfold open_log_file. rewrite (name_of_fixed c (kw q 1)) by assumption. fold (nm c (number_infix 0)).
    change (nm c (number_infix 0)) with (rname c 0).
    unfold do_symlink. rewrite Hlink. rewrite p_open_kw by exact Q. rewrite Hnd. cbn [eff bind fst snd].
    destruct (roll_new_dead (kw q 0) crit (c_append c) (rname c 0) (dead_kw q Q)) as [r3 E3]. rewrite E3.
    destruct r3; cbn [bind]; eauto.
    rewrite Ecl. destruct (cleanup_impl_dead c (kw q 0) k IFNum (Some (rname c 0)) (dead_kw q Q)) as [r4 E4].
    rewrite E4. destruct r4; cbn [bind]; eauto. rewrite Ebg. eauto.
  - unfold initialize. rewrite Hrot. unfold init_naming, with_listing.
    rewrite tick_kw by assumption. cbn [kw set_kill wfs woff].
    unfold get_highest_index, list_log_gz. rewrite existing_rot_empty by exact Hn. cbn [filter_map_opt max_opt bind].
    unfold open_log_file. rewrite (name_of_fixed c (kw q (S (S j')))) by assumption. fold (nm c (number_infix 0)).
    change (nm c (number_infix 0)) with (rname c 0).
    unfold do_symlink. rewrite Hlink. rewrite p_open_kw by exact Q. rewrite Hnd. cbn [eff bind fst snd].
    rewrite !Eopen.
    set (q2 := set_fs q (fst (create_file (wfs q) (rname c 0) 0%N (wnow q)))).
    assert (Q2 : quiet q2) by (apply quiet_set_fs; exact Q).
    destruct (numdinv_first c q2 (wfs q) (wnow q) Q2 Hn Hi eq_refl) as [ID [V2 Fo]].
    assert (Eino : snd (create_file (wfs q) (rname c 0) 0%N (wnow q)) = 0) by (unfold create_file; cbn [snd]; rewrite Hi; reflexivity).
    rewrite Eino.
    set (wr := {| wino := 0; wpend := []; wcap := c_cap c |}) in *.
    assert (RN : exists roll, roll_new (kw q2 (S j')) crit (c_append c) (rname c 0) = (Ok roll, kw q2 (S j')) /\ roll_size_ok roll 0
                 /\ (forall m0, crit = CSize m0 -> roll = RSize m0 0)).
    { unfold roll_new. destruct (c_append c).
      - rewrite tick_kw by exact Q2. cbn [kw set_kill wfs]. rewrite Fo. cbn [fresh_file fdata length].
        eexists. split; [reflexivity|]. split; [destruct crit; reflexivity|]. intros m0 ->. reflexivity.
      - eexists. split; [reflexivity|]. split; [destruct crit; reflexivity|]. intros m0 ->. reflexivity. }
    destruct RN as [roll [Ern [Z R]]]. rewrite Ern. cbn [bind].
    pose proof ID as [_ WD HcD HcpD _ HonD HwrD _]. cbn [length] in HcD, HonD.
    assert (C0 : content (wfs q2) (wino wr) = []).
    { unfold cur_view in V2. cbn [wr wpend] in V2. rewrite app_nil_r in V2. exact V2. }
    assert (F2' : wfs q2 = {| names := [(rname c 0, 0)]; inodes := [fresh_file (wnow q)] |}).
    { unfold q2. rewrite wfs_set_fs. unfold create_file. cbn [fst]. rewrite Hn, Hi. reflexivity. }
    assert (I2 : NumDKInv c q2 wr [] 0 0).
    { constructor; cbn [length]; auto.
      - rewrite C0. constructor.
        + cbn [length app]. lia.
        + rewrite F2'. unfold nodup_names, dir_names. cbn [names map fst]. constructor; [intros [] | constructor].
        + cbn [length app]. intros i Hi'. assert (i = 0) by lia. subst i. exists 0. split; [exact HcD|].
          split; [exact HcpD|]. exact C0.
        + intros i Hi'. lia.
        + intros x j Lj. destruct (HonD _ _ Lj) as (i & Hi' & ->). right. left. exists i. cbn [length app]. split; [lia | reflexivity].
      - destruct (lookup (wfs q2) (cname c)) as [j|] eqn:E; [|reflexivity].
        destruct (HonD _ _ E) as (i & _ & X). symmetry in X. exfalso. exact (rname_not_cname _ _ X). }
    rewrite Ecl.
    pose proof (cleanup_budget_noop_d c k n m q2 ([] ++ [content (wfs q2) (wino wr)]) 0 0 (S j') Hts Hk Hsfx Q2 (dk_dir _ _ _ _ _ _ I2)) as CN.
    cbn [app length Nat.sub] in CN. rewrite CN by (pose proof n_pos; lia).
    cbn [bind]. rewrite Ebg.
    exists q2, wr, roll. split; [reflexivity|]. split; [exact I2|].
    split; [exact V2|].
    split; [exact Z|]. split; [apply same_env_set_fs; exact Q | exact R].
Qed.

(* ------------------------------------------------------------------ the relation for a process with a budget *)
Definition KRelDK (x : sys) (a : aview) : Prop :=
  exists q j, s_w x = kw q (S j) /\ RelDK c crit k (with_w x q) a.

(* the acknowledged stream in files: all numbered files of the abstract view *)
Lemma empty_xdd f : names f = [] -> XDD c n m f [].
Proof.
  intros Hn. destruct (empty_view c f Hn) as [W _]. exists 0, 0, None. split; [exact W|].
  split; [unfold nodup_names, dir_names; rewrite Hn; constructor|].
  split; [|cbn [length]; split; lia].
  assert (E : forall y, file_of f y = None) by (intros y; apply file_of_none; apply lookup_empty; exact Hn).
  constructor.
  - cbn [length]. lia.
  - cbn [length]. intros i Hi. lia.
  - intros i Hi. lia.
  - apply E.
  - exact I.
  - intros x fl Hx. rewrite E in Hx. discriminate.
Qed.

(* ---- a write, from either kind of state ---- *)
Lemma write_rel_kdk x a b q j :
  s_w x = kw q (S j) -> RelDK c crit k (with_w x q) a ->
  exists s r w' s' rot, s_flw x = Some s /\ f_poisoned s = false /\
    write_buffer s (s_w x) b = (r, w', s', rot) /\
    ( (r = Ok tt /\ KRelDK {| s_flw := Some s'; s_w := w'; s_tl := []; s_dead := s_dead x |} (a_step a (OWrite b) rot))
      \/ (exists all, DeadKD c n m w' all /\ concat all = flat a /\ length all <= S (S (apot a))) ).
Proof.
  intros Ew [Ht [Ha R]]. cbn [with_w s_tl s_w s_flw] in Ht, Ha, R. rewrite Ew. destruct a as [[cl cu]|].
  - destruct R as [wr [roll [Es [I [V [Z RS]]]]]]. rewrite <- V in Z.
    destruct (write_active_kdk q wr cl roll b j I Z) as [r [w' [s' [rot' [E Out]]]]].
    exists (st_ofdk c k (length cl) roll wr), r, w', s', rot'. split; [exact Es|]. split; [reflexivity|]. split; [exact E|].
    destruct Out as [[q' [j' [wr' [roll' [cl' [-> [-> [-> [-> [I' [Z' [S' [V' R']]]]]]]]]]]]] | [qd [all [-> [Qd [Xd [Fl Len]]]]]]].
    + left. split; [reflexivity|]. exists q', j'. split; [reflexivity|].
      split; [reflexivity|]. split; [cbn [with_w s_w]; exact (same_env_acts _ _ S' Ha)|].
      cbn [a_step]. rewrite V in V'.
      destruct (rotation_necessary q roll); injection V' as <- V''; (exists wr', roll'; cbn [with_w s_flw s_w];
        split; [reflexivity|]; split; [exact I'|]; split; [exact V''|]; split; [rewrite <- V''; exact Z'|];
        intros m0 Hm; destruct (RS m0 Hm) as [z ->]; destruct (R' m0 z eq_refl) as [z' ->]; eauto).
    + right. exists all. split; [split; [apply dead_kw; exact Qd | exact Xd]|].
      split; [rewrite Fl, V; reflexivity | exact Len].
  - destruct R as [Es [Q [Hn Hi]]].
    pose proof (initialize_empty_kdk q j Q Hn Hi) as IE. destruct j as [|j'].
    + destruct IE as [r0 Ei].
      destruct (wb_initial_dead (new_flw c) (kw q 1) b r0 (kw q 0) eq_refl Ei (dead_kw q Q)) as [r [w' [s' [rot [E F]]]]].
      exists (new_flw c), r, w', s', rot. split; [exact Es|]. split; [reflexivity|]. split; [exact E|].
      right. exists []. destruct F as [D F]. cbn [kw set_kill wfs] in F.
      split; [split; [exact D | apply empty_xdd; rewrite F; exact Hn]|]. split; [reflexivity | cbn; lia].
    + destruct IE as [q1 [wr [roll [Ei [I [V [Z [S1 RS]]]]]]]].
      assert (Z0 : roll_size_ok roll (length (cur_view q1 wr))) by (rewrite V; exact Z).
      assert (I0 : NumDKInv c q1 wr [] (d_lo k (length (@nil bytes))) (d_mid k (length (@nil bytes))))
        by (cbn [length]; rewrite d_lo_0, d_mid_0; exact I).
      destruct (write_active_kdk q1 wr [] roll b j' I0 Z0) as [r [w' [s' [rot' [E Out]]]]].
      exists (new_flw c), r, w', s', rot'. split; [exact Es|]. split; [reflexivity|].
      split. { rewrite (write_buffer_init c (kw q (S (S j'))) b _ _ _ (kw q1 (S j')) Ei). exact E. }
      destruct Out as [[q' [j2 [wr' [roll' [cl' [-> [-> [-> [-> [I' [Z' [S' [V' R']]]]]]]]]]]]] | [qd [all [-> [Qd [Xd [Fl Len]]]]]]].
      * left. split; [reflexivity|]. exists q', j2. split; [reflexivity|].
        split; [reflexivity|]. split; [cbn [with_w s_w]; exact (same_env_acts _ _ (same_env_trans _ _ _ S1 S') Ha)|].
        cbn [a_step]. rewrite V in V'. cbn [app] in V'.
        destruct (rotation_necessary q1 roll); injection V' as <- V''; (exists wr', roll'; cbn [with_w s_flw s_w];
          split; [reflexivity|]; split; [exact I'|]; split; [exact V''|]; split; [rewrite <- V''; exact Z'|]).
        -- intros m0 Hm. rewrite (RS m0 Hm) in R'. destruct (R' m0 0%N eq_refl) as [z' ->]; eauto.
        -- intros m0 Hm. rewrite (RS m0 Hm) in R'. destruct (R' m0 0%N eq_refl) as [z' ->]; eauto.
      * right. exists all. split; [split; [apply dead_kw; exact Qd | exact Xd]|].
        split; [rewrite Fl, V; reflexivity | exact Len].
Qed.

Lemma kreldk_flw x a : KRelDK x a -> exists s, s_flw x = Some s /\ f_cfg s = c.
Proof.
  intros [q [j [_ [_ [_ R]]]]]. cbn [with_w s_flw] in R.
  destruct a as [[cl cu]|]; [destruct R as [wr [roll [Es _]]] | destruct R as [Es _]]; rewrite Es; eexists; split; reflexivity.
Qed.

Lemma step_sync_kdk x a o : KRelDK x a -> step x o = sync_step x o.
Proof.
  intros K. destruct (kreldk_flw x a K) as [s [Es Ec]]. destruct Hcfg as (_ & Hts & _ & Ha & _).
  apply (step_sync_cfg x o s Es); rewrite Ec; assumption.
Qed.

(* ---- one basic operation of a process with a budget: it either completes (and is acknowledged), or the process dies
        in it, and then the directory holds a tail of what was acknowledged before ---- *)
Lemma kstep_dk x a o : KRelDK x a -> basic_op o ->
  let '(x', ob) := step x o in
  (alive (s_w x') = true /\ KRelDK x' (a_step a o (rot_of ob)))
  \/ (alive (s_w x') = false /\ exists all, DeadKD c n m (s_w x') all /\ concat all = flat a /\ length all <= S (S (apot a))).
Proof.
  intros K Hb. rewrite (step_sync_kdk x a o K). destruct K as [q [j [Ew R]]].
  destruct o; try contradiction; cbn [sync_step].
  - (* OWrite *)
    destruct (write_rel_kdk x a b q j Ew R) as [s [r [w' [s' [rot [Es [Hp [E Out]]]]]]]].
    rewrite Es, Hp. pose proof (proj1 R) as Ht. cbn [with_w s_tl] in Ht. rewrite Ht. cbn [app]. rewrite E. cbn [rot_of].
    destruct Out as [[-> K'] | [all [D [Fl Len]]]].
    + left. split; [|exact K']. destruct K' as [q' [j' [E' _]]]. cbn [s_w] in E' |- *. rewrite E'. reflexivity.
    + right. cbn [s_w].
      assert (Ew' : match r with Err => report EWrite w' | _ => w' end = w') by (destruct r; try reflexivity; apply report_dead; apply D).
      rewrite Ew'. split; [apply dead_not_alive; apply D|]. exists all. auto.
  - (* OPlain *)
    destruct (write_rel_kdk x a b q j Ew R) as [s [r [w' [s' [rot [Es [Hp [E Out]]]]]]]].
    rewrite Es, Hp, E. cbn [rot_of]. pose proof (proj1 R) as Ht. cbn [with_w s_tl] in Ht. rewrite Ht.
    destruct Out as [[-> K'] | [all [D [Fl Len]]]].
    + left. split; [|exact K']. destruct K' as [q' [j' [E' _]]]. cbn [s_w] in E' |- *. rewrite E'. reflexivity.
    + right. cbn [s_w]. split; [apply dead_not_alive; apply D|]. exists all. auto.
  - (* OFlush *)
    destruct R as [Ht [Ha R]]. cbn [with_w s_tl s_w s_flw] in Ht, Ha, R. destruct a as [[cl cu]|].
    + destruct R as [wr [roll [Es [I [V [Z RS]]]]]]. rewrite Es. cbn [st_ofdk f_poisoned].
      destruct (direct_wr_dk q wr cl _ _ I) as [Pw _].
      unfold flush_state, st_ofdk. cbn [f_inner]. rewrite w_flush_nop by exact Pw. rewrite (writer_eta wr Pw).
      cbn [rot_of a_step s_w]. left. split; [rewrite Ew; reflexivity|].
      exists q, j. split; [exact Ew|]. split; [exact Ht|]. split; [exact Ha|].
      exists wr, roll. cbn [with_w s_flw s_w]. split; [reflexivity|]. split; [exact I|]. split; [exact V|]. split; assumption.
    + destruct R as [Es R]. rewrite Es. cbn [new_flw f_poisoned flush_state f_inner rot_of a_step s_w].
      left. split; [rewrite Ew; reflexivity|]. exists q, j. split; [exact Ew|]. split; [exact Ht|]. split; [exact Ha|].
      split; [reflexivity | exact R].
  - (* OTrigger *)
    destruct R as [Ht [Ha R]]. cbn [with_w s_tl s_w s_flw] in Ht, Ha, R. destruct a as [[cl cu]|].
    + destruct R as [wr [roll [Es [I [V [Z RS]]]]]]. rewrite Es. cbn [st_ofdk f_poisoned f_cfg f_inner]. rewrite Ew.
      destruct (mount_next_kdk q wr cl roll true j I eq_refl) as (r1 & w1 & st1 & E1 & M). rewrite E1.
      destruct M as [(q1 & j1 & wr1 & roll1 & -> & -> & -> & I1 & V1 & Z1 & S1 & R1) | (qd & all & -> & Qd & Xd & Fl & Len)].
      * left. cbn [rot_of a_step code_of with_inner f_cfg f_poisoned s_w]. split; [reflexivity|].
        exists q1, j1. split; [reflexivity|]. split; [exact Ht|]. split; [cbn [with_w s_w]; exact (same_env_acts _ _ S1 Ha)|].
        rewrite V in *. exists wr1, roll1. cbn [with_w s_flw s_w].
        assert (EL : length (cl ++ [cu]) = S (length cl)) by apply len_snoc.
        split; [unfold st_ofdk; rewrite EL; reflexivity|]. split; [rewrite EL; exact I1|]. split; [exact V1|]. split; [exact Z1|].
        intros m0 Hm. destruct (RS m0 Hm) as [z ->]. destruct (R1 m0 z eq_refl) as [z' ->]. eauto.
      * right. cbn [s_w fst]. destruct r1; cbn [s_w]; (split; [reflexivity|]); exists all;
          (split; [split; [apply dead_kw; exact Qd | exact Xd]|]; split; [rewrite Fl, V; reflexivity | exact Len]).
    + destruct R as [Es R]. rewrite Es. cbn [new_flw f_poisoned f_cfg f_inner mount_next with_inner rot_of a_step code_of s_w].
      left. split; [rewrite Ew; reflexivity|]. exists q, j. split; [exact Ew|]. split; [exact Ht|]. split; [exact Ha|].
      split; [reflexivity | exact R].
  - (* OTick *)
    cbn [rot_of a_step s_w]. left. rewrite Ew. split; [reflexivity|].
    exists (set_now q (wnow q + dt)%Z), j. split; [reflexivity|].
    destruct R as [Ht [Ha R]]. cbn [with_w s_tl s_w s_flw] in Ht, Ha, R.
    split; [exact Ht|]. split; [exact Ha|]. destruct a as [[cl cu]|].
    + destruct R as [wr [roll [Es [I [V [Z RS]]]]]]. exists wr, roll. cbn [with_w s_flw s_w].
      split; [exact Es|]. split; [apply (numdkinv_env c q); [exact I | reflexivity | apply quiet_set_now; apply I]|].
      split; [exact V|]. split; assumption.
    + cbn [with_w s_flw s_w]. destruct R as [Es [Q [Hn Hi]]]. split; [exact Es|]. split; [apply quiet_set_now; exact Q|]. split; assumption.
  - (* OSnap *)
    cbn [rot_of a_step]. left. split; [rewrite Ew; reflexivity|]. exists q, j. split; [exact Ew | exact R].
Qed.

(* ---- the operations after the counter has been armed ---- *)
Lemma krun_dk : forall ops x a, KRelDK x a -> Forall basic_op ops ->
  (exists a', KRelDK (fst (run x ops)) a' /\ flat a' = flat a ++ acked x ops /\ apot a' <= apot a + length ops)
  \/ (exists all, DeadKD c n m (s_w (fst (run x ops))) all /\ concat all = flat a ++ acked x ops
                /\ length all <= S (S (apot a + length ops))).
Proof.
  induction ops as [|o r IH]; intros x a K Hb.
  - left. exists a. cbn [run fst acked length]. rewrite app_nil_r. split; [exact K|]. split; [reflexivity | lia].
  - inversion Hb as [|o' r' Ho Hr]; subst. rewrite fst_run_cons. cbn [acked length] in *.
    pose proof (kstep_dk x a o K Ho) as S. destruct (step x o) as [x1 ob] eqn:Est. cbn [fst].
    pose proof (a_step_apot a o (rot_of ob)) as Hpot.
    destruct S as [[Al K1] | [Al [all [D [Fl Len]]]]]; rewrite Al.
    + destruct (IH x1 _ K1 Hr) as [[a' [K' [F' P']]] | [all [D [F' P']]]].
      * left. exists a'. split; [exact K'|]. split.
        -- rewrite F', a_step_flat by exact Ho. rewrite app_assoc. reflexivity.
        -- lia.
      * right. exists all. split; [exact D|]. split.
        -- rewrite F', a_step_flat by exact Ho. rewrite app_assoc. reflexivity.
        -- lia.
    + cbn [app]. destruct D as [D X].
      pose proof (dead_run r x1 D Hr) as [D2 F2]. rewrite (acked_dead r x1 D Hr), app_nil_r.
      right. exists all. split; [split; [exact D2 | rewrite F2; exact X]|]. split; [exact Fl | lia].
Qed.

(* the directory when no writer is there *)
Definition IdleKD (x : sys) (all : list bytes) : Prop :=
  s_tl x = [] /\ wacts (s_w x) = 0 /\ s_flw x = None /\ quiet (s_w x) /\ XDD c n m (wfs (s_w x)) all.

Definition files_of_a (a : aview) : list bytes := match a with Some (cl, cu) => cl ++ [cu] | None => [] end.
Lemma files_of_a_flat a : concat (files_of_a a) = flat a.
Proof. destruct a as [[cl cu]|]; cbn [files_of_a flat concat]; [|reflexivity]. rewrite concat_app. cbn [concat]. rewrite app_nil_r. reflexivity. Qed.

Lemma crash_alive_dk x a : KRelDK x a ->
  exists all, IdleKD (fst (step x OCrash)) all /\ concat all = flat a /\ length all <= S (apot a).
Proof.
  intros [q [j [Ew [Ht [Ha R]]]]]. rewrite step_crash. cbn [sync_step fst]. cbn [with_w s_tl s_w s_flw] in Ht, Ha, R.
  unfold IdleKD. cbn [s_tl s_w s_flw]. rewrite Ew. cbn [kw set_kill set_acts wfs wacts].
  exists (files_of_a a). split; [|split; [apply files_of_a_flat|]].
  - destruct a as [[cl cu]|].
    + destruct R as [wr [roll [Es [I [V [Z RS]]]]]]. destruct (direct_wr_dk q wr cl _ _ I) as [Pw _].
      pose proof (numdkinv_xdd q wr cl I Pw) as X. rewrite V in X. pose proof (dk_quiet _ _ _ _ _ _ I) as [Qf _].
      split; [reflexivity|]. split; [reflexivity|]. split; [reflexivity|]. split; [split; [exact Qf | reflexivity] | exact X].
    + destruct R as [Es [[Qf _] [Hn Hi]]].
      split; [reflexivity|]. split; [reflexivity|]. split; [reflexivity|]. split; [split; [exact Qf | reflexivity] | apply empty_xdd; exact Hn].
  - destruct a as [[cl cu]|]; cbn [files_of_a apot length]; [rewrite len_snoc; cbn [apot]; lia | lia].
Qed.

Lemma crash_dead_dk x all : DeadKD c n m (s_w x) all -> IdleKD (fst (step x OCrash)) all.
Proof.
  intros [[_ Df] X]. rewrite step_crash. cbn [sync_step fst]. unfold IdleKD. cbn [s_tl s_w s_flw set_kill set_acts wfs wacts].
  split; [reflexivity|]. split; [reflexivity|]. split; [reflexivity|]. split; [split; [exact Df | reflexivity] | exact X].
Qed.

Lemma arm_kreldk x a j : RelDK c crit k x a -> KRelDK (fst (step x (OSetKill j))) a.
Proof.
  intros R. rewrite (step_sync_rel_dk c crit k x a _ Hcfg R). cbn [sync_step fst].
  exists (s_w x), j. split; [reflexivity|]. unfold with_w. cbn [s_flw s_tl s_dead]. destruct x; exact R.
Qed.

(* ---- the whole history of the killed process ---- *)
Lemma kill_history_dk t0 off ops1 kp ops2 : Forall basic_op ops1 -> Forall basic_op ops2 ->
  exists all, IdleKD (fst (run (sys0 t0 off) (OStart c :: ops1 ++ [OSetKill kp] ++ ops2 ++ [OCrash]))) all
    /\ concat all = written ops1 ++ acked (fst (run (sys0 t0 off) (OStart c :: ops1 ++ [OSetKill kp]))) ops2
    /\ length all <= S (S (length ops1 + length ops2)).
Proof.
  intros Hb1 Hb2. rewrite !fst_run_cons, !fst_run_app, !fst_run_cons. cbn [run fst].
  pose proof (start_rel_dk c crit k t0 off) as R0. set (x0 := fst (step (sys0 t0 off) (OStart c))) in *.
  pose proof (a_run_apot ops1 None (snd (run x0 ops1))) as P1. cbn [apot] in P1.
  pose proof (run_rel_dk c crit k Hcfg ops1 x0 None R0 Hb1 (dside_of _)) as [R1 _]. pose proof (run_length ops1 x0) as L1.
  pose proof (a_run_flat ops1 None (snd (run x0 ops1)) Hb1 L1) as F1. cbn [flat app] in F1.
  set (x1 := fst (run x0 ops1)) in *. set (a1 := a_run None ops1 (snd (run x0 ops1))) in *.
  pose proof (arm_kreldk x1 a1 kp R1) as K2. set (x2 := fst (step x1 (OSetKill kp))) in *.
  destruct (krun_dk ops2 x2 a1 K2 Hb2) as [[a' [K' [F' P']]] | [all [D [F' P']]]].
  - destruct (crash_alive_dk _ a' K') as [all [Id [Fv Lv]]]. exists all. split; [exact Id|].
    split; [rewrite Fv, F', F1; reflexivity | lia].
  - exists all. split; [apply crash_dead_dk; exact D|]. split; [rewrite F', F1; reflexivity | lia].
Qed.

(* the acknowledged bytes are the bytes written by a prefix of the operations: the process dies once *)
Lemma acked_prefix_kdk : forall ops x a, KRelDK x a -> Forall basic_op ops ->
  exists j, acked x ops = written (firstn j ops).
Proof.
  induction ops as [|o r IH]; intros x a K Hb; [exists 0; reflexivity|].
  inversion Hb as [|o' r' Ho Hr]; subst. cbn [acked].
  pose proof (kstep_dk x a o K Ho) as S. destruct (step x o) as [x1 ob] eqn:Est. cbn [fst].
  destruct S as [[Al K1] | [Al [v [D _]]]]; rewrite Al.
  - destruct (IH x1 _ K1 Hr) as [j E]. exists (S j). cbn [firstn]. rewrite E, (written_cons o (firstn j r)). reflexivity.
  - exists 0. rewrite (acked_dead r x1 (proj1 D) Hr). reflexivity.
Qed.

Lemma kill_history_prefix_dk t0 off ops1 kp ops2 : Forall basic_op ops1 -> Forall basic_op ops2 ->
  exists j, acked (fst (run (sys0 t0 off) (OStart c :: ops1 ++ [OSetKill kp]))) ops2 = written (firstn j ops2).
Proof.
  intros Hb1 Hb2. rewrite !fst_run_cons, !fst_run_app, !fst_run_cons. cbn [run fst].
  pose proof (start_rel_dk c crit k t0 off) as R0. set (x0 := fst (step (sys0 t0 off) (OStart c))) in *.
  pose proof (run_rel_dk c crit k Hcfg ops1 x0 None R0 Hb1 (dside_of _)) as [R1 _].
  exact (acked_prefix_kdk ops2 _ _ (arm_kreldk _ _ kp R1) Hb2).
Qed.

End Direct.

(* the newest numbered file of such a directory is a plain file (n >= 1: the cleanup never compresses or removes it) *)
Lemma xdd_newest_plain c n m f all : 1 <= n -> XDD c n m f all -> all <> [] ->
  exists fl, file_of f (rname c (length all - 1)) = Some fl /\ isplain fl (last all []).
Proof.
  intros Hn (lo & mid & red & _ & _ & X & _ & U) Hne.
  assert (Hl : 1 <= length all) by (destruct all; [congruence | cbn [length]; lia]).
  destruct (xd_plain _ _ _ _ _ _ _ X (length all - 1)) as (fl & Ff & Hfl); [lia|].
  exists fl. split; [exact Ff|]. replace (last all []) with (nth (length all - 1) all []); [exact Hfl|].
  destruct (exists_last Hne) as (l & x & ->). rewrite last_last, app_length. cbn [length].
  rewrite app_nth2 by lia. replace (length l + 1 - 1 - length l) with 0 by lia. reflexivity.
Qed.

(* ------------------------------------------------------------------ Theorem 1 *)
(* After any history  OStart c :: ops1 ++ [OSetKill kp] ++ ops2 ++ [OCrash]  from the empty directory (NumbersDirect naming
   with KeepLogFiles / KeepCompressedFiles / both, cleanup in the logging thread, direct mode; ops1, ops2 any basic
   operations; ANY kill point kp, those inside the cleanup included), there is `files` (the contents of all numbered files
   that were ever created, in order; the last one is the file that was being written) with  concat files = acknowledged
   records, and the directory, read as the reader does (kill_view, no rCURRENT), holds the files from number lo on:
   the stream the reader obtains, kv_stream files None lo, is a TAIL of the acknowledged records, and
   lo <= length files - (n + m) with (n, m) = klimd k, the effective limits: every record that a completed cleanup would
   have kept is there, none twice.  An unfinished archive (gzip state 2) occurs only next to its intact original and is
   ignored by the reader; a complete archive next to its original holds the same content.  The newest numbered file (the
   one being written, possibly empty: kill between its creation and the first write) is a PLAIN file: it is never
   compressed or removed.  Side condition as for C07: the suffix does not end with .gz. *)
Theorem numbersdirect_cleanup_kill_keeps_acked c crit k n m t0 off ops1 kp ops2 :
  numdkcfg c crit k -> klimd k = Some (n, m) -> c_cap c = None -> sfx_ok (c_spec c) ->
  Forall basic_op ops1 -> Forall basic_op ops2 ->
  let x1 := fst (run (sys0 t0 off) (OStart c :: ops1 ++ [OSetKill kp])) in
  let xe := fst (run (sys0 t0 off) (OStart c :: ops1 ++ [OSetKill kp] ++ ops2 ++ [OCrash])) in
  exists files lo,
    kill_view c (wfs (s_w xe)) files None lo
    /\ concat files = written ops1 ++ acked x1 ops2
    /\ lo <= length files - (n + m)
    /\ written ops1 ++ acked x1 ops2 = concat (firstn lo files) ++ kv_stream files None lo
    /\ (files <> [] -> exists fl, file_of (wfs (s_w xe)) (rname c (length files - 1)) = Some fl /\ isplain fl (last files [])).
Proof.
  intros Hcfg Hk Hcap Hsfx Hb1 Hb2 x1 xe.
  destruct (kill_history_dk c crit k n m Hcfg Hk Hcap Hsfx t0 off ops1 kp ops2 Hb1 Hb2) as (all & Id & F & _).
  destruct Id as (_ & _ & _ & _ & XD). fold xe in XD. fold x1 in F.
  pose proof XD as (lo & mid & red & W & Nd & X & U1 & U2).
  exists all, lo. split; [exact (xdir_kill_view c _ all None lo mid red X)|]. split; [exact F|].
  split; [exact U1|]. split.
  - rewrite <- F. pose proof (kv_stream_tail all None lo) as T. rewrite app_nil_r in T. exact T.
  - intros Hne. exact (xdd_newest_plain c n m _ all (klimd_pos _ _ _ Hk) XD Hne).
Qed.
Print Assumptions numbersdirect_cleanup_kill_keeps_acked.

(* what is acknowledged is what a prefix of ops2 wrote *)
Theorem acked_is_prefix_dk c crit k n m t0 off ops1 kp ops2 :
  numdkcfg c crit k -> klimd k = Some (n, m) -> c_cap c = None -> sfx_ok (c_spec c) ->
  Forall basic_op ops1 -> Forall basic_op ops2 ->
  exists j, acked (fst (run (sys0 t0 off) (OStart c :: ops1 ++ [OSetKill kp]))) ops2 = written (firstn j ops2).
Proof. intros Hcfg Hk Hcap Hsfx. apply (kill_history_prefix_dk c crit k n m Hcfg Hk Hcap Hsfx). Qed.
Print Assumptions acked_is_prefix_dk.
