(* M5 (world, primitives with fault oracle and kill counter) and M6 (the FileLogWriter state machine).
   Mirrors src/writers/file_log_writer/{state.rs, state/numbers.rs, state/timestamps.rs,
   state/list_and_cleanup.rs, state_handle.rs (sync part), builder.rs}.
   No proofs in this file. *)
Require Import FL.Base.Bytes FL.Base.PathName FL.Fs.Fs FL.Time.Civil FL.Time.Period FL.Time.TsFormat FL.Names.FileSpec.
Require Export FL.Time.Period.
Open Scope N_scope.

(* ------------------------------------------------------------------ configuration *)
Inductive criterion := CSize (n : N) | CAge (a : age) | CAgeOrSize (a : age) (n : N).
Inductive naming := NTimestamps | NTimestampsDirect | NCustom (cur : option bytes) (f : tsfmt)
                  | NNumbers | NNumbersDirect.
Inductive cleanup := KNever | KLog (k : nat) | KGz (m : nat) | KLogGz (k m : nat).

Record config := { c_spec : file_spec;
                   c_append : bool;
                   c_cap : option nat;                            (* write_mode.buffersize() *)
                   c_rot : option (criterion * naming * cleanup);
                   c_utc : bool;                                  (* FileLogWriterBuilder::use_utc *)
                   c_symlink : bool;
                   c_bg : bool;                                   (* cleanup in a background thread *)
                   c_async : bool;                                (* WriteMode::AsyncWith: records travel through a channel *)
                   c_start : option Z }.                          (* the start time of the name part, once it has been determined *)

(* ------------------------------------------------------------------ world *)
Inductive ecode := EWrite | EFlush | EFormat | ELogFile | ESymlink | EPoison | EWriterSpec.

Record world := { wfs : fs;
                  wnow : Z;                  (* clock, seconds *)
                  woff : Z;                  (* fixed offset of the local time zone *)
                  wfaults : list bool;       (* fault oracle: one entry per fallible file-system call *)
                  wkill : option nat;        (* Some k: the process dies before its (k+1)-th further effect *)
                  werrs : list ecode;        (* error channel *)
                  wlink : option bytes;      (* target of the configured symlink *)
                  wacts : nat }.             (* cleanup requests queued for the background thread *)

Definition set_fs (w : world) (f : fs) : world :=
  {| wfs := f; wnow := wnow w; woff := woff w; wfaults := wfaults w; wkill := wkill w; werrs := werrs w;
     wlink := wlink w; wacts := wacts w |}.
Definition set_faults (w : world) (l : list bool) : world :=
  {| wfs := wfs w; wnow := wnow w; woff := woff w; wfaults := l; wkill := wkill w; werrs := werrs w;
     wlink := wlink w; wacts := wacts w |}.
Definition set_kill (w : world) (k : option nat) : world :=
  {| wfs := wfs w; wnow := wnow w; woff := woff w; wfaults := wfaults w; wkill := k; werrs := werrs w;
     wlink := wlink w; wacts := wacts w |}.
Definition report (e : ecode) (w : world) : world :=
  (* a dead process reports nothing *)
  match wkill w with Some O => w | _ =>
  {| wfs := wfs w; wnow := wnow w; woff := woff w; wfaults := wfaults w; wkill := wkill w; werrs := werrs w ++ [e];
     wlink := wlink w; wacts := wacts w |} end.
Definition set_link (w : world) (l : option bytes) : world :=
  {| wfs := wfs w; wnow := wnow w; woff := woff w; wfaults := wfaults w; wkill := wkill w; werrs := werrs w;
     wlink := l; wacts := wacts w |}.
Definition set_now (w : world) (t : Z) : world :=
  {| wfs := wfs w; wnow := t; woff := woff w; wfaults := wfaults w; wkill := wkill w; werrs := werrs w;
     wlink := wlink w; wacts := wacts w |}.
Definition set_acts (w : world) (n : nat) : world :=
  {| wfs := wfs w; wnow := wnow w; woff := woff w; wfaults := wfaults w; wkill := wkill w; werrs := werrs w;
     wlink := wlink w; wacts := n |}.

(* one fallible call consults the oracle *)
Definition tick (w : world) : bool * world :=
  match wfaults w with [] => (false, w) | b :: r => (b, set_faults w r) end.

(* wkill = Some (S k): k further effects happen, the one after them is the kill point; Some 0: the process is dead *)
Definition alive (w : world) : bool := match wkill w with Some O => false | _ => true end.
Definition kill_step (w : world) : option (option nat) :=      (* None: dies here; Some k': the effect happens *)
  match wkill w with
  | Some O => None
  | Some (S O) => None
  | Some (S (S k)) => Some (Some (S k))
  | None => Some None
  end.
(* an effect on the file system: happens only while the process is alive; at the kill point the process dies
   instead of performing it *)
Definition effect (w : world) (g : fs -> fs) : world :=
  match kill_step w with
  | Some k' => set_kill (set_fs w (g (wfs w))) k'
  | None => set_kill w (match wkill w with None => None | Some _ => Some O end)
  end.
Definition effect_link (w : world) (l : option bytes) : world :=
  match kill_step w with
  | Some k' => set_kill (set_link w l) k'
  | None => set_kill w (match wkill w with None => None | Some _ => Some O end)
  end.

Inductive rres := ROk | RNotFound | RErr.

Definition p_rename (w : world) (a b : bytes) : rres * world :=
  let '(flt, w1) := tick w in
  if flt then (RErr, w1) else
  match rename (wfs w1) a b with
  | Some _ => (ROk, effect w1 (fun f => match rename f a b with Some f' => f' | None => f end))
  | None => (RNotFound, w1)
  end.

(* remove_file: false = error (an injected fault, or the file does not exist) *)
Definition p_remove (w : world) (a : bytes) : bool * world :=
  let '(flt, w1) := tick w in
  if flt then (false, w1) else
  match lookup (wfs w1) a with
  | Some _ => (true, effect w1 (fun f => unlink f a))
  | None => (false, w1)
  end.

(* OpenOptions::new().write(true).create(true).append(a).truncate(!a).open(name) *)
Definition p_open (w : world) (name : bytes) (append : bool) : option nat * world :=
  let '(flt, w1) := tick w in
  if flt then (None, w1) else
  if match file_of (wfs w1) name with Some fl => fdir fl | None => false end then (None, w1) else
  let now := wnow w1 in
  let ino := snd (if append then open_append (wfs w1) name now else open_trunc (wfs w1) name 0 now) in
  (Some ino, effect w1 (fun f => fst (if append then open_append f name now else open_trunc f name 0 now))).

(* one write(2) call on an open file; nothing is called for an empty buffer *)
Definition p_write (w : world) (i : nat) (b : bytes) : bool * world :=
  match b with
  | [] => (true, w)
  | _ => let '(flt, w1) := tick w in
         if flt then (false, w1) else (true, effect w1 (fun f => append_ino f i b))
  end.

Definition birth_or_now (w : world) (name : bytes) : Z :=
  match file_of (wfs w) name with Some fl => fborn fl | None => wnow w end.

(* ------------------------------------------------------------------ BufWriter<File> / File *)
Record writer := { wino : nat; wpend : bytes; wcap : option nat }.

Definition w_flush (w : world) (wr : writer) : bool * world * writer :=
  let '(ok, w1) := p_write w (wino wr) (wpend wr) in
  if ok then (true, w1, {| wino := wino wr; wpend := []; wcap := wcap wr |}) else (false, w1, wr).

(* write_all: std's BufWriter rule *)
Definition w_write (w : world) (wr : writer) (b : bytes) : bool * world * writer :=
  match wcap wr with
  | None => let '(ok, w1) := p_write w (wino wr) b in (ok, w1, wr)
  | Some c =>
    let spare := (c - length (wpend wr))%nat in
    if Nat.ltb (length b) spare then (true, w, {| wino := wino wr; wpend := wpend wr ++ b; wcap := wcap wr |})
    else
      let '(ok1, w1, wr1) := if Nat.ltb spare (length b) then w_flush w wr else (true, w, wr) in
      if ok1 then
        if Nat.leb c (length b) then let '(ok, w2) := p_write w1 (wino wr1) b in (ok, w2, wr1)
        else (true, w1, {| wino := wino wr1; wpend := wpend wr1 ++ b; wcap := wcap wr1 |})
      else (false, w1, wr1)
  end.

(* Drop of the boxed writer: flush, errors ignored, unwritten bytes are gone *)
Definition w_drop (w : world) (wr : writer) : world := snd (fst (w_flush w wr)).

(* ------------------------------------------------------------------ state *)
Inductive naming_state :=
| NSTs (ts : Z) (cur : option bytes) (fmt : tsfmt)
| NSNumR (i : N)
| NSNumD (i : N).
Inductive roll_state :=
| RSize (max cur : N)
| RAge (a : age) (created : Z)
| RAgeSize (a : age) (created : Z) (max cur : N).
Record rot_state := { rs_naming : naming_state; rs_roll : roll_state; rs_cleanup : cleanup; rs_bg : bool }.
Inductive inner := Initial | Active (o_rot : option rot_state) (wr : writer) (path : bytes).
Record flw := { f_cfg : config; f_inner : inner; f_poisoned : bool }.

Definition ns_writes_direct (n : naming_state) : bool :=
  match n with NSNumD _ => true | NSTs _ None _ => true | _ => false end.
Definition naming_writes_direct (n : naming) : bool :=
  match n with NNumbersDirect | NTimestampsDirect | NCustom None _ | NCustom (Some []) _ => true | _ => false end.
Definition ns_filter (n : naming_state) : infix_filter :=
  match n with NSTs _ _ fmt => IFTs fmt | _ => IFNum end.
(* the filter before the naming state exists (state Initial) *)
Definition naming_filter (n : naming) : infix_filter :=
  match n with
  | NTimestamps | NTimestampsDirect => IFTs std_fmt
  | NCustom _ fmt => IFTs fmt
  | NNumbers | NNumbersDirect => IFNum
  end.

(* ------------------------------------------------------------------ names and time *)
Definition local_civil (w : world) (t : Z) : civil := civil_of (t + woff w).
(* the start-time part of the name: determined once per writer, at the first computation of a file name *)
Definition starttxt (c : config) (w : world) : bytes :=
  format_ts start_fmt (local_civil w (match c_start c with Some t => t | None => wnow w end)).
Definition fixed_of (c : config) (w : world) : bytes := fixed_name_part (c_spec c) (starttxt c w).
Definition name_of (c : config) (w : world) (o_infix : option bytes) : bytes :=
  as_name (c_spec c) (fixed_of c w) o_infix.

Definition infix_from_ts (c : config) (w : world) (fmt : tsfmt) (t : Z) : bytes :=
  format_ts fmt (if c_utc c then civil_of t else local_civil w t).
(* timestamp_from_ts_infix + the conversion in latest_timestamp_file: the infix is read the way it was written *)
Definition ts_from_infix (c : config) (w : world) (fmt : tsfmt) (infix : bytes) : option Z :=
  match parse_ts_local fmt infix with
  | Some l => Some (if c_utc c then l else l - woff w)%Z      (* with use_utc the infix was written as UTC *)
  | None => None
  end.

Definition age_rotation_necessary (w : world) (a : age) (created : Z) : bool :=
  negb (same_period a (local_civil w created) (local_civil w (wnow w))).
Definition size_rotation_necessary (max cur : N) : bool := max <? cur.
Definition rotation_necessary (w : world) (r : roll_state) : bool :=
  match r with
  | RSize max cur => size_rotation_necessary max cur
  | RAge a created => age_rotation_necessary w a created
  | RAgeSize a created max cur => size_rotation_necessary max cur || age_rotation_necessary w a created
  end.
Definition reset_size_and_date (w : world) (r : roll_state) (path : bytes) : roll_state :=
  match r with
  | RSize max _ => RSize max 0
  | RAge a _ => RAge a (birth_or_now w path)
  | RAgeSize a _ max _ => RAgeSize a (birth_or_now w path) max 0
  end.
Definition increase_size (r : roll_state) (n : N) : roll_state :=
  match r with
  | RSize max cur => RSize max (cur + n)
  | RAge a c => RAge a c
  | RAgeSize a c max cur => RAgeSize a c max (cur + n)
  end.

(* ------------------------------------------------------------------ results *)
Inductive res (A : Type) := Ok (a : A) | Err | Panic.
Arguments Ok {A} a. Arguments Err {A}. Arguments Panic {A}.

(* ------------------------------------------------------------------ open_log_file *)
(* the symlink calls are not subject to injected faults (they cannot fail the operation: errors are only reported) *)
Definition do_symlink (c : config) (w : world) (target : bytes) : world :=
  if c_symlink c then
    let w1 := match wlink w with
              | Some _ => effect_link w None
              | None => w end in
    match wlink w1 with Some _ => report ESymlink w1 | None => effect_link w1 (Some target) end
  else w.

Definition open_log_file (c : config) (w : world) (o_infix : option bytes) : res (writer * bytes) * world :=
  let path := name_of c w o_infix in
  let w1 := do_symlink c w path in
  let '(o, w2) := p_open w1 path (c_append c) in
  match o with
  | None => (Err, w2)
  | Some i => (Ok ({| wino := i; wpend := []; wcap := c_cap c |}, path), w2)
  end.

(* ------------------------------------------------------------------ cleanup *)
Definition gz_name (n : bytes) : bytes :=
  match extension n with
  | Some e => set_extension n (e ++ dot :: gz_sfx)
  | None => set_extension n gz_sfx
  end.

Definition set_gz (f : fs) (i : nat) (state : N) (d : bytes) : fs :=
  {| names := names f;
     inodes := upd (inodes f) i {| fdata := d; fgz := state; fborn := fborn (inode f i); fdir := false |} |}.

(* compress one file: create .gz, open the original, copy, finish, remove the original.
   When a step after the creation fails, the encoder is dropped, which finishes the (empty) gzip stream *)
Definition compress_file (w : world) (n : bytes) : bool * world :=
  let g := gz_name n in
  let '(flt1, w1) := tick w in
  if flt1 then (false, w1) else
  (* File::create fails on a directory of that name *)
  if match file_of (wfs w1) g with Some fl => fdir fl | None => false end then (false, w1) else
  let now := wnow w1 in
  let ino := snd (open_trunc (wfs w1) g 2 now) in
  let w2 := effect w1 (fun f => fst (open_trunc f g 2 now)) in     (* File::create: an empty file named *.gz *)
  let dropped w' := effect w' (fun f => set_gz f ino 1 []) in
  let '(flt2, w3) := tick w2 in                                        (* File::open(original) *)
  if flt2 then (false, dropped w3) else
  match lookup (wfs w3) n with
  | None => (false, dropped w3)
  | Some src =>
    let data := content (wfs w3) src in
    let '(flt3, w4) := tick w3 in                                      (* io::copy *)
    if flt3 then (false, dropped w4) else
    let w5 := effect w4 (fun f => f) in
    let '(flt4, w6) := tick w5 in                                      (* finish *)
    (* the copy has gone into the encoder: when finish is not reached, its Drop completes the stream with the data *)
    if flt4 then (false, effect w6 (fun f => set_gz f ino 1 data)) else
    let w7 := effect w6 (fun f => set_gz f ino 1 data) in
    p_remove w7 n
  end.

(* the loop over the listing.  cur = o_current: with a direct naming the current output file *)
Fixpoint cleanup_loop (w : world) (files : list bytes) (index log_limit total : nat) (cur : option bytes)
  : bool * world :=
  match files with
  | [] => (true, w)
  | n :: r =>
    (* the current output file is never touched, wherever the listing puts it
       (its name sorts behind older files e.g. after the clock was set back): continue; the index counts it *)
    if match cur with Some p => beq p n | None => false end then cleanup_loop w r (S index) log_limit total cur
    else if Nat.leb total index then
      let '(ok, w1) := p_remove w n in
      if ok then cleanup_loop w1 r (S index) log_limit total cur else (false, w1)
    else if Nat.leb log_limit index then
      match extension n with
      | Some e => if beq e gz_sfx then cleanup_loop w r (S index) log_limit total cur
                  else let '(ok, w1) := compress_file w n in
                       if ok then cleanup_loop w1 r (S index) log_limit total cur else (false, w1)
      | None => (* a log file without suffix has no extension *)
                let '(ok, w1) := compress_file w n in
                if ok then cleanup_loop w1 r (S index) log_limit total cur else (false, w1)
      end
    else cleanup_loop w r (S index) log_limit total cur
  end.

(* archives whose original is listed too (an interrupted compression): removed before the cleanup proper *)
Definition redundant_gz (files : list bytes) : list bytes :=
  filter (fun n => ext_is n gz_sfx && existsb (beq (set_extension n [])) files) files.
Fixpoint remove_redundant (w : world) (red files : list bytes) : bool * world * list bytes :=
  match red with
  | [] => (true, w, files)
  | n :: r => let '(ok, w1) := p_remove w n in
              if ok then remove_redundant w1 r (filter (fun m => negb (beq m n)) files) else (false, w1, files)
  end.

(* remove_or_compress_too_old_logfiles_impl.  cur = o_current: Some (the current output file) with a direct naming
   (there the current output file is one of the listed files), None otherwise *)
Definition cleanup_impl (c : config) (w : world) (k : cleanup) (flt : infix_filter) (cur : option bytes)
  : res unit * world :=
  match k with
  | KNever => (Ok tt, w)
  | _ =>
    let '(ll, cl) := match k with KLog a => (a, O) | KGz b => (O, b) | KLogGz a b => (a, b) | KNever => (O, O) end in
    (* we must not clean up the current output file: o_current.is_some() && log_limit == 0 *)
    let ll := if match cur with Some _ => true | None => false end && Nat.eqb ll 0 then 1%nat else ll in
    let '(fl, w1) := tick w in                                        (* read_dir(..)? *)
    if fl then (Err, w1) else
    match list_log_gz (woff w1) (c_spec c) (fixed_of c w1) (wfs w1) flt with
    | None => (Panic, w1)
    | Some files =>
      let '(ok0, w1', files') := remove_redundant w1 (redundant_gz files) files in
      if negb ok0 then (Err, w1') else
      let '(ok, w2) := cleanup_loop w1' files' 0 ll (ll + cl) cur in
      ((if ok then Ok tt else Err), w2)
    end
  end.

(* remove_or_compress_too_old_logfiles: with a background thread a request is sent to it.  The correspondence
   check lets the thread finish each request before the next operation (schedule points), so the request is
   worked off here; its result is ignored by the code, and a panic kills the thread for good (wacts = 1).
   cur = o_current is the payload of the request, MessageToCleanupThread::Act(Option<PathBuf>): as the request is
   worked off at once, the queue itself (wacts) carries no payload *)
Definition cleanup_or_queue (c : config) (w : world) (bg : bool) (k : cleanup) (flt : infix_filter) (cur : option bytes)
  : res unit * world :=
  if bg then
    match k with
    | KNever => (Ok tt, w)
    | _ => if Nat.eqb (wacts w) 1 then (Ok tt, w) else
           match cleanup_impl c w k flt cur with
           | (Panic, w1) => (Ok tt, set_acts w1 1)
           | (_, w1) => (Ok tt, w1)
           end
    end
  else cleanup_impl c w k flt cur.

(* ------------------------------------------------------------------ naming helpers *)
(* the listing functions call read_dir(..)?: one oracle entry, a fault is an error that the caller hands on *)
Definition with_listing {A} (w : world) (g : world -> option A) : res A * world :=
  let '(fl, w1) := tick w in
  if fl then (Err, w1) else
  match g w1 with Some a => (Ok a, w1) | None => (Panic, w1) end.

(* numbers::index_for_rcurrent *)
Definition index_for_rcurrent (c : config) (w : world) (o_idx : option N) (rotate : bool) : res N * world :=
  let '(r0, w0) :=
    match o_idx with
    | Some i => (Ok i, w)
    | None => with_listing w (fun w' =>
                match get_highest_index (woff w') (c_spec c) (fixed_of c w') (wfs w') with
                | None => None
                | Some (Some i) => Some (i + 1)
                | Some None => Some 0
                end)
    end in
  match r0 with
  | Ok idx =>
    if rotate then
      let '(r, w1) := p_rename w0 (name_of c w0 (Some cur_infix)) (name_of c w0 (Some (number_infix idx))) in
      match r with
      | ROk => (Ok (idx + 1), w1)
      | RNotFound => (Ok idx, w1)
      | RErr => (Err, w1)
      end
    else (Ok idx, w0)
  | Err => (Err, w0)
  | Panic => (Panic, w0)
  end.

(* collision_free_infix_for_rotated_file: two directory listings *)
Definition collision_free (c : config) (w : world) (infix : bytes) : res bytes * world :=
  let '(fl1, w1) := tick w in
  if fl1 then (Err, w1) else
  let '(fl2, w2) := tick w1 in
  if fl2 then (Err, w2) else
  match collision_free_infix (woff w2) (c_spec c) (fixed_of c w2) (wfs w2) infix with
  | Some (Some i) => (Ok i, w2)
  | Some None => (Err, w2)
  | None => (Panic, w2)
  end.

(* timestamps::creation_timestamp_of_currentfile *)
Definition creation_ts_of_current (c : config) (w : world) (cur : bytes) (rotate : bool) (o_date : option Z) (fmt : tsfmt)
  : res Z * world :=
  let cur_path := name_of c w (Some cur) in
  if rotate then
    let date := match o_date with Some d => d | None => birth_or_now w cur_path end in
    let '(r, w1) := collision_free c w (infix_from_ts c w fmt date) in
    match r with
    | Ok infix =>
      let '(rr, w2) := p_rename w1 cur_path (name_of c w1 (Some infix)) in
      match rr with
      | RErr => (Err, w2)
      | _ => (Ok (birth_or_now w2 cur_path), w2)
      end
    | Err => (Err, w1)
    | Panic => (Panic, w1)
    end
  else (Ok (birth_or_now w cur_path), w).

Fixpoint max_z (l : list Z) : option Z :=
  match l with
  | [] => None
  | x :: r => match max_z r with Some m => Some (Z.max x m) | None => Some x end
  end.
Fixpoint filter_some {A} (l : list (option A)) : list A :=
  match l with [] => [] | Some x :: r => x :: filter_some r | None :: r => filter_some r end.

(* timestamps::latest_timestamp_file *)
Definition latest_timestamp_file (c : config) (w : world) (rotate : bool) (fmt : tsfmt) : res Z * world :=
  if rotate then (Ok (wnow w), w) else
  with_listing w (fun w' =>
    let fixed := fixed_of c w' in
    match filter_files (woff w') (fsfx (c_spec c)) fixed (related_files (wfs w') (fsfx (c_spec c)) fixed) (IFTs fmt) (fsfx (c_spec c)) with
    | None => None
    | Some files =>
      match map_opt (ts_infix_from_name (c_spec c) fixed) files with
      | None => None
      | Some infixes =>
        Some (match max_z (filter_some (List.map (ts_from_infix c w' fmt) infixes)) with
              | Some t => t
              | None => wnow w' end)
      end
    end).

(* ------------------------------------------------------------------ initialize *)
Definition bind {A B} (x : res A * world) (g : A -> world -> res B * world) : res B * world :=
  match x with
  | (Ok a, w) => g a w
  | (Err, w) => (Err, w)
  | (Panic, w) => (Panic, w)
  end.

Definition roll_new (w : world) (crit : criterion) (append : bool) (path : bytes) : res roll_state * world :=
  let '(r, w1) :=
    if append then
      let '(fl, w') := tick w in                                     (* fs::metadata(path)? *)
      if fl then (Err, w') else
      match file_of (wfs w') path with
      | Some f => (Ok (N.of_nat (length (fdata f))), w')
      | None => (Err, w')
      end
    else (Ok 0, w) in
  match r with
  | Ok size =>
    let created := birth_or_now w1 path in
    (Ok (match crit with
         | CSize n => RSize n size
         | CAge a => RAge a created
         | CAgeOrSize a n => RAgeSize a created n size
         end), w1)
  | Err => (Err, w1)
  | Panic => (Panic, w1)
  end.

(* infix_for_new_direct_file with append: the predecessor of the next free infix *)
Definition newest_of_next (infix next : bytes) : option bytes :=
  match strip_prefix (infix ++ restart_tag) next with
  | None => None
  | Some digits =>
    match parse_uint usize_max digits with
    | None => None
    | Some 0%N => Some infix
    | Some k => Some (infix ++ restart_tag ++ pad_left 4 48 (dec (k - 1)))
    end
  end.

Definition init_naming (c : config) (w : world) (n : naming) : res (naming_state * bytes) * world :=
  let direct_ts fmt :=
    bind (latest_timestamp_file c w (negb (c_append c)) fmt)
         (fun ts w1 =>
            (* with append the file with the latest time stamp is continued; without, a new file is started
               under a name that does not exist yet (infix_for_new_direct_file) *)
            let infix := infix_from_ts c w1 fmt ts in
            bind (collision_free c w1 infix)
                 (fun next w2 =>
                    if c_append c then
                      (* the newest file with this time stamp - possibly a restart sibling - is continued if it is
                         there as a plain file *)
                      match newest_of_next infix next with
                      | None => (Ok (NSTs ts None fmt, next), w2)
                      | Some newest =>
                        match lookup (wfs w2) (name_of c w2 (Some newest)) with
                        | Some _ => (Ok (NSTs ts None fmt, newest), w2)
                        | None => (Ok (NSTs ts None fmt, next), w2)
                        end
                      end
                    else (Ok (NSTs ts None fmt, next), w2))) in
  let current_ts cur fmt :=
    bind (creation_ts_of_current c w cur (negb (c_append c)) None fmt)
         (fun ts w1 => (Ok (NSTs ts (Some cur) fmt, cur), w1)) in
  match n with
  | NTimestampsDirect => direct_ts std_fmt
  | NTimestamps => current_ts cur_infix std_fmt
  | NCustom (Some cur) fmt => current_ts cur fmt
  | NCustom None fmt => direct_ts fmt
  | NNumbers =>
    bind (index_for_rcurrent c w None (negb (c_append c)))
         (fun idx w1 => (Ok (NSNumR idx, cur_infix), w1))
  | NNumbersDirect =>
    bind (with_listing w (fun w' => get_highest_index (woff w') (c_spec c) (fixed_of c w') (wfs w')))
         (fun o w1 =>
            (* the newest file is continued only if it is still there as a plain file *)
            let idx := match o with
                       | None => 0
                       | Some i => if c_append c && match lookup (wfs w1) (name_of c w1 (Some (number_infix i))) with Some _ => true | None => false end
                                   then i else i + 1
                       end in
            (Ok (NSNumD idx, number_infix idx), w1))
  end.

Definition initialize (c : config) (w : world) : res inner * world :=
  match c_rot c with
  | None =>
    bind (open_log_file c w None) (fun wp w1 => (Ok (Active None (fst wp) (snd wp)), w1))
  | Some (crit, nam, k) =>
    bind (init_naming c w nam) (fun ni w1 =>
    let '(ns, infix) := ni in
    (* a writer that has been opened is dropped again (without pending bytes) when a later step fails *)
    bind (open_log_file c w1 (Some infix)) (fun wp w2 =>
    let '(wr, path) := wp in
    bind (roll_new w2 crit (c_append c) path) (fun roll w3 =>
    bind (match k with
          | KNever => (Ok tt, w3)
          | _ => (* o_current = if writes_direct { Some(path) } else { None }: the file just opened *)
                 cleanup_impl c w3 k (ns_filter ns) (if naming_writes_direct nam then Some path else None)
          end) (fun _ w4 =>
    let bg := match k with KNever => false | _ => c_bg c end in
    (Ok (Active (Some {| rs_naming := ns; rs_roll := roll; rs_cleanup := k; rs_bg := bg |}) wr path),
     if bg then set_acts w4 0 else w4)))))
  end.

(* ------------------------------------------------------------------ rotation *)
(* mount_next_linewriter_if_necessary.  Returns the new state even on Err: the naming state may have
   been advanced before the failing step, exactly as in the code. *)
Definition mount_next (c : config) (w : world) (st : inner) (force : bool) : res unit * world * inner :=
  match st with
  | Active (Some rs) wr path =>
    if force || rotation_necessary w (rs_roll rs) then
      let with_ns ns := Active (Some {| rs_naming := ns; rs_roll := rs_roll rs; rs_cleanup := rs_cleanup rs; rs_bg := rs_bg rs |}) wr path in
      let '(r, w1, ns1) :=
        match rs_naming rs with
        | NSTs ts (Some cur) fmt =>
          match creation_ts_of_current c w cur true (Some ts) fmt with
          | (Ok ts', w') => (Ok cur, w', NSTs ts' (Some cur) fmt)
          | (Err, w') => (Err, w', rs_naming rs)
          | (Panic, w') => (Panic, w', rs_naming rs)
          end
        | NSTs _ None fmt =>
          let ts' := wnow w in
          match collision_free c w (infix_from_ts c w fmt ts') with
          | (Ok i, w') => (Ok i, w', NSTs ts' None fmt)
          | (Err, w') => (Err, w', NSTs ts' None fmt)
          | (Panic, w') => (Panic, w', NSTs ts' None fmt)
          end
        | NSNumR idx =>
          match index_for_rcurrent c w (Some idx) true with
          | (Ok idx', w') => (Ok cur_infix, w', NSNumR idx')
          | (Err, w') => (Err, w', NSNumR idx)
          | (Panic, w') => (Panic, w', NSNumR idx)
          end
        | NSNumD idx => (Ok (number_infix (idx + 1)), w, NSNumD (idx + 1))
        end in
      match r with
      | Ok infix =>
        match open_log_file c w1 (Some infix) with
        | (Ok (wr', path'), w2) =>
          (* what is still buffered is flushed into the file that is closed now, a failure is reported;
             then the old writer is dropped (which tries once more, silently, if something is left) *)
          let '(okf, w2a, wra) := w_flush w2 wr in
          let w2b := if okf then w2a else report EFlush w2a in
          let w3 := w_drop w2b wra in
          let roll' := reset_size_and_date w3 (rs_roll rs) path' in
          let '(rc, w4) := (* o_current: with a direct naming the NEW file *)
            cleanup_or_queue c w3 (rs_bg rs) (rs_cleanup rs) (ns_filter ns1)
                             (if ns_writes_direct ns1 then Some path' else None) in
          let st' := Active (Some {| rs_naming := ns1; rs_roll := roll'; rs_cleanup := rs_cleanup rs; rs_bg := rs_bg rs |}) wr' path' in
          (match rc with Ok _ => Ok tt | Err => Err | Panic => Panic end, w4, st')
        | (Err, w2) => (Err, w2, with_ns ns1)
        | (Panic, w2) => (Panic, w2, with_ns ns1)
        end
      | Err => (Err, w1, with_ns ns1)
      | Panic => (Panic, w1, with_ns ns1)
      end
    else (Ok tt, w, st)
  | _ => (Ok tt, w, st)
  end.

(* ------------------------------------------------------------------ operations on the state *)
Definition with_inner (s : flw) (i : inner) : flw := {| f_cfg := f_cfg s; f_inner := i; f_poisoned := f_poisoned s |}.
Definition poison (s : flw) : flw := {| f_cfg := f_cfg s; f_inner := f_inner s; f_poisoned := true |}.

(* State::write_buffer; the bool says whether a rotation was attempted (ghost, for C08/C09) *)
Definition write_buffer (s : flw) (w : world) (b : bytes) : res unit * world * flw * bool :=
  let c := f_cfg s in
  let '(r0, w0, st0) :=
    match f_inner s with
    | Initial => match initialize c w with
                 | (Ok i, w') => (Ok tt, w', i)
                 | (Err, w') => (Err, w', Initial)
                 | (Panic, w') => (Panic, w', Initial)
                 end
    | i => (Ok tt, w, i)
    end in
  match r0 with
  | Ok _ =>
    let rotating := match st0 with
                    | Active (Some rs) _ _ => rotation_necessary w0 (rs_roll rs)
                    | _ => false end in
    let '(r1, w1, st1) := mount_next c w0 st0 false in
    match r1 with
    | Panic => (Panic, w1, poison (with_inner s st1), rotating)
    | _ =>
      let w2 := match r1 with Err => report ELogFile w1 | _ => w1 end in
      match st1 with
      | Active o_rot wr path =>
        let '(ok, w3, wr') := w_write w2 wr b in
        if ok then
          let o_rot' := match o_rot with
                        | Some rs => Some {| rs_naming := rs_naming rs; rs_roll := increase_size (rs_roll rs) (N.of_nat (length b));
                                             rs_cleanup := rs_cleanup rs; rs_bg := rs_bg rs |}
                        | None => None end in
          (Ok tt, w3, with_inner s (Active o_rot' wr' path), rotating)
        else (Err, w3, with_inner s (Active o_rot wr' path), rotating)
      | Initial => (Ok tt, w2, with_inner s st1, rotating)
      end
    end
  | Err => (Err, w0, with_inner s st0, false)
  | Panic => (Panic, w0, poison (with_inner s st0), false)
  end.

Definition flush_state (s : flw) (w : world) : bool * world * flw :=
  match f_inner s with
  | Active o_rot wr path =>
    let '(ok, w1, wr') := w_flush w wr in (ok, w1, with_inner s (Active o_rot wr' path))
  | Initial => (true, w, s)
  end.

(* shutdown joins the cleanup thread; every request has been worked off by then *)
Definition drain_acts (s : flw) (w : world) : world := w.

(* State::shutdown: join the cleanup thread, flush (error ignored) *)
Definition shutdown_state (s : flw) (w : world) : world * flw :=
  match f_inner s with
  | Active o_rot wr path =>
    let w0 := drain_acts s w in
    let o_rot' := match o_rot with
                  | Some rs => Some {| rs_naming := rs_naming rs; rs_roll := rs_roll rs; rs_cleanup := rs_cleanup rs; rs_bg := false |}
                  | None => None end in
    let '(okf, w1, wr') := w_flush w0 wr in
    ((if okf then w1 else report EFlush w1), with_inner s (Active o_rot' wr' path))
  | Initial => (w, s)
  end.

(* dropping the writer pair (FileLogWriterHandle, then the last Arc<FileLogWriter>): both Drop impls call
   shutdown, then the State and with it the boxed writer is dropped *)
Definition drop_state (s : flw) (w : world) : world :=
  let '(w1, s1) := shutdown_state s w in
  let '(w2, s2) := shutdown_state s1 w1 in
  match f_inner s2 with
  | Active _ wr _ => w_drop w2 wr
  | Initial => w2
  end.

(* State::reopen_outputfile: the new writer is an unbuffered File; the old one is dropped *)
Definition reopen_state (s : flw) (w : world) : res unit * world * flw :=
  match f_inner s with
  | Active o_rot wr path =>
    let '(fl, w1) := tick w in
    if fl then
      (* the fallback path through a temporary file is not modelled beyond its first failing step *)
      (Err, w1, s)
    else
      let now := wnow w1 in
      let ino := snd (open_append (wfs w1) path now) in
      let w2 := effect w1 (fun f => fst (open_append f path now)) in
      let w3 := w_drop w2 wr in
      (Ok tt, w3, with_inner s (Active o_rot {| wino := ino; wpend := []; wcap := None |} path))
  | Initial => (Ok tt, w, s)
  end.

Definition new_flw (c : config) : flw := {| f_cfg := c; f_inner := Initial; f_poisoned := false |}.
