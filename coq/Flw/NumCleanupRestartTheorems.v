(* Numbers naming with a cleanup strategy: sequences of runs on one directory (C06 with cleanup), part 2: any number of
   runs, the theorems numbers_cleanup_restarts (shape of the final directory, the stream), numbers_cleanup_restarts_properties
   (spelled out name by name), numbers_cleanup_restarts_keep (a later run never changes what an earlier run closed) and
   numbers_cleanup_restarts_keep_files (the same file by file). *)
Require Import FL.Base.Bytes FL.Base.BytesFacts FL.Base.PathName FL.Fs.Fs FL.Fs.FsFacts FL.Time.Civil FL.Time.TsFormat
  FL.Names.FileSpec FL.Names.NamesFacts FL.Names.SortFacts FL.Names.FamilyFacts FL.Flw.Model FL.Flw.ModelFacts FL.Flw.NumFs
  FL.Flw.NumInv FL.Flw.Run FL.Flw.RunFacts FL.Flw.NumRun FL.Flw.NumListing FL.Oracles.O_Flw FL.Flw.NumTheorems FL.Flw.CleanupFacts
  FL.Flw.NumCleanupNames FL.Flw.NumCleanupStep FL.Flw.NumCleanupRun FL.Flw.NumCleanup FL.Flw.NumRestart FL.Flw.KillFacts FL.Flw.NumKill
  FL.Flw.NumKillRestart FL.Flw.NoPanic FL.Flw.NumCleanupKillDir FL.Flw.NumCleanupKillStep FL.Flw.NumCleanupKill
  FL.Flw.NumCleanupKillListing FL.Flw.NumCleanupKillRestart FL.Flw.NumCleanupRestart.
From Coq Require Import ZifyN ZifyNat ZifyBool.
Open Scope nat_scope.

(* ------------------------------------------------------------------ sequences of runs *)
Definition krun_ok (sp : file_spec) (k : cleanup) (r : config * list op) : Prop :=
  c_spec (fst r) = sp /\ (exists crit, numkcfg (fst r) crit k) /\ Forall basic_op (snd r).

Lemma runs_rel_k sp k n m : klim k = Some (n, m) -> sfx_ok sp ->
  forall rs x v c0, c_spec c0 = sp -> Forall (krun_ok sp k) rs -> IdleR c0 k x v ->
  (N.of_nat (length (closed_of v) + length (runs_ops rs)) <= u32_max)%N ->
  exists v', IdleR c0 k (fst (run x (runs_ops rs))) v' /\ flat v' = flat v ++ runs_written rs /\ extends v v'
    /\ length (closed_of v') <= length (closed_of v) + length (runs_ops rs).
Proof.
  intros Hk Hsfx. induction rs as [|[c ops] r IH]; intros x v c0 Ec0 Hrs Id Hb.
  - exists v. split; [exact Id|]. cbn [runs_written runs_ops length]. rewrite app_nil_r.
    split; [reflexivity|]. split; [apply extends_refl | lia].
  - inversion Hrs as [|r0 r' [Ec [[crit Hcfg] Hops]] Hr]; subst. cbn [fst snd] in *.
    rewrite runs_ops_cons in *.
    assert (Esp : c_spec c0 = c_spec c) by congruence.
    assert (Hb1 : (N.of_nat (length (closed_of v)) <= u32_max)%N) by lia.
    assert (Hsfx' : sfx_ok (c_spec c)) by (rewrite <- Esp; exact Hsfx).
    destruct (one_run_r c crit k n m Hcfg Hk Hsfx' x v ops Hb1 Hops (idler_spec c0 c k x v Esp Id)) as [v1 [Id1 [F1 [P1 [X1 _]]]]].
    rewrite run_app. destruct (run x (OStart c :: ops ++ [OStop])) as [x1 obs1]. cbn [fst] in Id1.
    assert (Hb2 : (N.of_nat (length (closed_of v1) + length (runs_ops r)) <= u32_max)%N).
    { rewrite app_length in Hb. cbn [length] in Hb. rewrite app_length in Hb. cbn [length] in Hb. lia. }
    destruct (IH x1 v1 c0 eq_refl Hr (idler_spec c c0 k x1 v1 (eq_sym Esp) Id1) Hb2) as [v2 [Id2 [F2 [X2 P2]]]].
    destruct (run x1 (runs_ops r)) as [x2 obs2]. cbn [fst] in *.
    exists v2. split; [exact Id2|]. split; [rewrite F2, F1; cbn [runs_written]; rewrite app_assoc; reflexivity|].
    split; [exact (extends_trans _ _ _ X1 X2)|].
    rewrite app_length. cbn [length]. rewrite app_length. cbn [length]. lia.
Qed.

Lemma idler0 c k t0 off : IdleR c k (sys0 t0 off) None.
Proof. cbn. repeat split. Qed.

Lemma idler_view sp k n m c0 x v : klim k = Some (n, m) -> c_spec c0 = sp -> IdleR c0 k x v ->
  match v with
  | None => names (wfs (s_w x)) = []
  | Some (cl, cu) => forall c, c_spec c = sp -> kreader_view c (wfs (s_w x)) cl cu (length cl - (n + m)) (length cl - n)
  end.
Proof.
  intros Hk E0 (_ & _ & _ & _ & D). destruct v as [[cl cu]|]; cbn [kdir_view] in D; [|tauto].
  intros c Ec. destruct D as [_ V]. unfold k_lo, k_mid in V. rewrite Hk in V.
  apply (kreader_view_spec c0 c); [congruence | exact V].
Qed.

(* ------------------------------------------------------------------ THEOREM 1 *)
(* Any number of runs on one directory, each with its own criterion, buffer capacity, append flag and history; the same
   file specification and the same cleanup strategy (limits n: plain files, m: archives) in all runs.  After the last
   run the directory is empty (nothing was written), or it holds exactly: rCURRENT (plain), the plain files r<i> for
   L - n <= i < L and the complete archives r<i>.gz for L - (n+m) <= i < L - n, where closed (of length L) is the list
   of everything that was closed, in the order of closing, and cur the current file: every survivor holds exactly what
   was closed under its number, min(L, n+m) closed files survive, and concat closed ++ cur is what all runs wrote - so the
   survivors, read by index, then rCURRENT, are a SUFFIX of it (numbers_cleanup_restarts_properties).
   Side conditions: the suffix does not end with .gz (as numbers_cleanup), less than 2^32 operations (as
   numbers_restarts: the index read back from a file name is a u32).
   (With n + m = 0 no closed file survives and the numbering starts again at 0 in every run; `closed` is then only the
   bookkeeping of what was closed - see index_restarts_at_0.) *)
Theorem numbers_cleanup_restarts sp k n m t0 off rs :
  klim k = Some (n, m) -> sfx_ok sp ->
  (N.of_nat (length (runs_ops rs)) <= u32_max)%N ->
  Forall (fun r => c_spec (fst r) = sp /\ (exists crit, numkcfg (fst r) crit k) /\ Forall basic_op (snd r)) rs ->
  let f := wfs (s_w (fst (run (sys0 t0 off) (runs_ops rs)))) in
  (names f = [] /\ runs_written rs = [])
  \/ exists closed cur,
       (forall c, c_spec c = sp -> kreader_view c f closed cur (length closed - (n + m)) (length closed - n))
       /\ concat closed ++ cur = runs_written rs.
Proof.
  intros Hk Hsfx Hb Hrs f.
  destruct (runs_rel_k sp k n m Hk Hsfx rs (sys0 t0 off) None (sp_config sp) eq_refl Hrs (idler0 _ k t0 off) Hb) as [v' [Id [F _]]].
  pose proof (idler_view sp k n m (sp_config sp) _ v' Hk eq_refl Id) as V. fold f in V.
  destruct v' as [[cl cu]|].
  - right. exists cl, cu. split; [exact V|]. cbn [flat app] in F. exact F.
  - left. split; [exact V|]. cbn [flat app] in F. symmetry. exact F.
Qed.
Print Assumptions numbers_cleanup_restarts.

(* ------------------------------------------------------------------ the shape, name by name *)
Lemma kview_properties c f closed cur lo mid :
  sfx_ok (c_spec c) -> kreader_view c f closed cur lo mid ->
  let L := length closed in
  lo <= mid <= L
  /\ (forall x, (exists j, lookup f x = Some j) <->
        x = cname c \/ (exists i, mid <= i < L /\ x = rname c i) \/ (exists i, lo <= i < mid /\ x = gname c i))
  /\ NoDup (dir_names f)
  /\ (forall off', list_log_gz off' (c_spec c) (fixed0 c) f IFNum = Some (listing c lo mid L))
  /\ (forall i, mid <= i < L -> lookup f (gname c i) = None /\
        exists fl, file_of f (rname c i) = Some fl /\ fdata fl = nth i closed [] /\ fgz fl = 0%N /\ fdir fl = false)
  /\ (forall i, lo <= i < mid -> lookup f (rname c i) = None /\
        exists fl, file_of f (gname c i) = Some fl /\ fdata fl = nth i closed [] /\ fgz fl = 1%N /\ fdir fl = false)
  /\ (forall i, i < lo \/ L <= i -> lookup f (rname c i) = None /\ lookup f (gname c i) = None)
  /\ concat (map (fun i => data_at f (entry c mid i)) (seq lo (L - lo))) = concat (skipn lo closed)
  /\ (exists fl, file_of f (cname c) = Some fl /\ fdata fl = cur /\ fgz fl = 0%N /\ fdir fl = false).
Proof.
  intros Hsfx V L.
  pose proof (kview_names _ _ _ _ _ _ V) as Names. fold L in Names.
  destruct V as [KD (jc & Lc & [Gc Dc] & Cc)]. pose proof KD as [Hle Hnd Hp Ha Hon]. fold L in Hle, Hp, Hon.
  assert (NoName : forall x, ~ (x = cname c \/ (exists i, mid <= i < L /\ x = rname c i) \/ (exists i, lo <= i < mid /\ x = gname c i)) ->
                   lookup f x = None).
  { intros x H. destruct (lookup f x) as [j|] eqn:E; [|reflexivity]. exfalso. apply H, Names. eauto. }
  assert (Data : forall i, lo <= i < L -> data_at f (entry c mid i) = nth i closed []).
  { intros i Hi. unfold data_at, file_of. destruct (Nat.le_gt_cases mid i) as [H|H].
    - rewrite entry_plain by exact H. destruct (Hp i ltac:(lia)) as (j & -> & _ & Cj). exact Cj.
    - rewrite entry_arch by exact H. destruct (Ha i ltac:(lia)) as (j & -> & Dj & _). exact Dj. }
  split; [exact Hle|]. split; [exact Names|]. split; [exact Hnd|].
  split. { intros off'. apply list_log_gz_numbers; [exact Hsfx | apply kdir_shape; exact KD]. }
  split.
  { intros i Hi. split.
    - apply NoName. intros [X|[(j & Hj & X)|(j & Hj & X)]].
      + exact (gname_not_cname _ _ X).
      + exact (gname_ne_rname _ _ _ X).
      + apply gname_inj in X. lia.
    - destruct (Hp i Hi) as (j & Lj & [Gj Dj] & Cj). exists (inode f j). unfold file_of. rewrite Lj. auto. }
  split.
  { intros i Hi. split.
    - apply NoName. intros [X|[(j & Hj & X)|(j & Hj & X)]].
      + exact (rname_not_cname _ _ X).
      + apply rname_inj in X. lia.
      + symmetry in X. exact (gname_ne_rname _ _ _ X).
    - destruct (Ha i Hi) as (j & Lj & Dj & Gj & Fj). exists (inode f j). unfold file_of. rewrite Lj. auto. }
  split.
  { intros i Hi. split; apply NoName; intros [X|[(j & Hj & X)|(j & Hj & X)]].
    - exact (rname_not_cname _ _ X).
    - apply rname_inj in X. lia.
    - symmetry in X. exact (gname_ne_rname _ _ _ X).
    - exact (gname_not_cname _ _ X).
    - exact (gname_ne_rname _ _ _ X).
    - apply gname_inj in X. lia. }
  split.
  { rewrite (map_seq_skipn (fun i => data_at f (entry c mid i)) closed [] (L - lo) lo); [reflexivity | unfold L; lia | exact Data]. }
  exists (inode f jc). unfold file_of. rewrite Lc. auto.
Qed.

(* n = number of log files kept as they are, m = number of files kept as archives; closed: everything that was closed,
   in the order of closing; cur: the current file *)
Theorem numbers_cleanup_restarts_properties sp k n m t0 off rs c :
  klim k = Some (n, m) -> sfx_ok sp ->
  (N.of_nat (length (runs_ops rs)) <= u32_max)%N ->
  Forall (fun r => c_spec (fst r) = sp /\ (exists crit, numkcfg (fst r) crit k) /\ Forall basic_op (snd r)) rs ->
  c_spec c = sp ->
  let f := wfs (s_w (fst (run (sys0 t0 off) (runs_ops rs)))) in
  (names f = [] /\ runs_written rs = [])
  \/ exists closed cur,
    let L := length closed in let lo := L - (n + m) in let mid := L - n in
    (* what was written *)
    concat closed ++ cur = runs_written rs
    (* exactly these names exist, each once *)
    /\ (forall x, (exists j, lookup f x = Some j) <->
          x = cname c \/ (exists i, mid <= i < L /\ x = rname c i) \/ (exists i, lo <= i < mid /\ x = gname c i))
    /\ NoDup (dir_names f)
    (* the limits are respected and used: min(L, n) plain files, min(L - n, m) archives, min(L, n + m) closed files survive *)
    /\ L - mid = Nat.min L n /\ mid - lo = Nat.min (L - n) m /\ L - lo = Nat.min L (n + m)
    (* the next cleanup would see them like this *)
    /\ (forall off', list_log_gz off' (c_spec c) (fixed0 c) f IFNum = Some (listing c lo mid L))
    (* the newest n closed files are there as they were closed *)
    /\ (forall i, mid <= i < L -> lookup f (gname c i) = None /\
          exists fl, file_of f (rname c i) = Some fl /\ fdata fl = nth i closed [] /\ fgz fl = 0%N /\ fdir fl = false)
    (* the next m are complete archives of what the file held when it was closed; the original is gone *)
    /\ (forall i, lo <= i < mid -> lookup f (rname c i) = None /\
          exists fl, file_of f (gname c i) = Some fl /\ fdata fl = nth i closed [] /\ fgz fl = 1%N /\ fdir fl = false)
    (* older files are gone, no higher number is in use *)
    /\ (forall i, i < lo \/ L <= i -> lookup f (rname c i) = None /\ lookup f (gname c i) = None)
    (* the survivors, read by index, then rCURRENT: a suffix of what all runs wrote *)
    /\ runs_written rs = concat (firstn lo closed)
                         ++ concat (map (fun i => data_at f (entry c mid i)) (seq lo (L - lo))) ++ data_at f (cname c)
    (* the current file is plain *)
    /\ (exists fl, file_of f (cname c) = Some fl /\ fdata fl = cur /\ fgz fl = 0%N /\ fdir fl = false).
Proof.
  intros Hk Hsfx Hb Hrs Ec f.
  destruct (numbers_cleanup_restarts sp k n m t0 off rs Hk Hsfx Hb Hrs) as [E|(closed & cur & V & Fl)]; [left; exact E|].
  right. exists closed, cur. intros L lo mid. fold f in V. specialize (V c Ec). fold L lo mid in V.
  assert (Hsfx' : sfx_ok (c_spec c)) by (rewrite Ec; exact Hsfx).
  destruct (kview_properties c f closed cur lo mid Hsfx' V) as (Hle & Names & Nd & Li & Pl & Ar & Go & St & Cu).
  fold L in Hle, Names, Li, Pl, Go, St.
  split; [exact Fl|]. split; [exact Names|]. split; [exact Nd|].
  split; [unfold mid; lia|]. split; [unfold lo, mid; lia|]. split; [unfold lo; lia|].
  split; [exact Li|]. split; [exact Pl|]. split; [exact Ar|]. split; [exact Go|].
  split; [|exact Cu].
  destruct Cu as (fl & Ff & Df & _).
  assert (Ecu : data_at f (cname c) = cur) by (unfold data_at; rewrite Ff; exact Df).
  rewrite Ecu. transitivity (concat (firstn lo closed) ++ concat (skipn lo closed) ++ cur).
  - rewrite app_assoc, <- concat_app, firstn_skipn. symmetry. exact Fl.
  - f_equal. f_equal. symmetry. exact St.
Qed.
Print Assumptions numbers_cleanup_restarts_properties.

(* ------------------------------------------------------------------ THEOREM 2 *)
(* Whatever further runs follow: the list of what was closed only grows (closed2 = closed1 ++ ...; with n + m > 0 the
   position in it is the number in the file name), the file that was the current one is continued and then closed under
   the next number (or is still the current one); since both directories show these lists through the window of the
   same limits, every file or archive that survives still holds what was closed under its number
   (numbers_cleanup_restarts_keep_files). *)
Theorem numbers_cleanup_restarts_keep sp k n m t0 off rs1 rs2 :
  klim k = Some (n, m) -> sfx_ok sp ->
  (N.of_nat (length (runs_ops (rs1 ++ rs2))) <= u32_max)%N ->
  Forall (fun r => c_spec (fst r) = sp /\ (exists crit, numkcfg (fst r) crit k) /\ Forall basic_op (snd r)) (rs1 ++ rs2) ->
  let f1 := wfs (s_w (fst (run (sys0 t0 off) (runs_ops rs1)))) in
  let f2 := wfs (s_w (fst (run (sys0 t0 off) (runs_ops (rs1 ++ rs2))))) in
  (names f1 = [] /\ runs_written rs1 = [])
  \/ exists closed1 cur1 closed2 cur2 t more,
       (forall c, c_spec c = sp -> kreader_view c f1 closed1 cur1 (length closed1 - (n + m)) (length closed1 - n))
       /\ concat closed1 ++ cur1 = runs_written rs1
       /\ (forall c, c_spec c = sp -> kreader_view c f2 closed2 cur2 (length closed2 - (n + m)) (length closed2 - n))
       /\ concat closed2 ++ cur2 = runs_written (rs1 ++ rs2)
       /\ closed2 ++ [cur2] = closed1 ++ [cur1 ++ t] ++ more.
Proof.
  intros Hk Hsfx Hb Hrs f1 f2. apply Forall_app in Hrs. destruct Hrs as [Hrs1 Hrs2].
  rewrite runs_ops_app, app_length in Hb.
  assert (Hb1 : (N.of_nat (length (closed_of None) + length (runs_ops rs1)) <= u32_max)%N) by (cbn [closed_of length]; lia).
  destruct (runs_rel_k sp k n m Hk Hsfx rs1 (sys0 t0 off) None (sp_config sp) eq_refl Hrs1 (idler0 _ k t0 off) Hb1) as [v1 [Id1 [F1 [_ P1]]]].
  unfold f1, f2. rewrite runs_ops_app, run_app. destruct (run (sys0 t0 off) (runs_ops rs1)) as [x1 obs1]. cbn [fst] in *.
  assert (Hb2 : (N.of_nat (length (closed_of v1) + length (runs_ops rs2)) <= u32_max)%N) by (cbn [closed_of length] in P1; lia).
  destruct (runs_rel_k sp k n m Hk Hsfx rs2 x1 v1 (sp_config sp) eq_refl Hrs2 Id1 Hb2) as [v2 [Id2 [F2 [X2 _]]]].
  destruct (run x1 (runs_ops rs2)) as [x2 obs2]. cbn [fst] in *.
  pose proof (idler_view sp k n m (sp_config sp) _ v1 Hk eq_refl Id1) as V1. pose proof (idler_view sp k n m (sp_config sp) _ v2 Hk eq_refl Id2) as V2.
  destruct v1 as [[cl1 cu1]|].
  - right. cbn [extends] in X2. destruct X2 as [t [more E]].
    destruct v2 as [[cl2 cu2]|]; [|cbn [files_of] in E; destruct cl1; discriminate].
    exists cl1, cu1, cl2, cu2, t, more. cbn [flat app files_of] in *.
    split; [exact V1|]. split; [exact F1|]. split; [exact V2|]. split; [rewrite F2, F1, runs_written_app; reflexivity | exact E].
  - left. split; [exact V1|]. cbn [flat app] in F1. symmetry. exact F1.
Qed.
Print Assumptions numbers_cleanup_restarts_keep.

(* ------------------------------------------------------------------ file by file *)
(* reads_at c f i d (NumCleanupKillDir.v): the reader finds d under the number i - in the plain file r<i>, or, when there
   is no plain file, in the complete archive r<i>.gz *)
Lemma reads_at_fun c f i d d' : reads_at c f i d -> reads_at c f i d' -> d = d'.
Proof.
  unfold reads_at. destruct (file_of f (rname c i)) as [fl|].
  - intros [(_ & _ & E1) _] [(_ & _ & E2) _]. congruence.
  - intros (g & E1 & _ & _ & D1) (g' & E2 & _ & _ & D2). congruence.
Qed.

Lemma kview_reads_in c f cl cu lo mid i : kreader_view c f cl cu lo mid -> lo <= i < length cl -> reads_at c f i (nth i cl []).
Proof.
  intros [KD Hc] Hi.
  destruct (xdir_kill_view c f cl (Some cu) lo mid None (kdir_xdir c f cl lo mid (Some cu) KD Hc)) as (_ & R & _).
  apply R. exact Hi.
Qed.

Lemma kview_gone c f cl cu lo mid i : kreader_view c f cl cu lo mid -> i < lo \/ length cl <= i ->
  lookup f (rname c i) = None /\ lookup f (gname c i) = None.
Proof.
  intros [[Hle _ _ _ Hon] _] Hi. split.
  - destruct (lookup f (rname c i)) as [j|] eqn:E; [exfalso | reflexivity].
    destruct (Hon _ _ E) as [X|[(i' & Hi' & X)|(i' & Hi' & X)]].
    + exact (rname_not_cname _ _ X).
    + apply rname_inj in X. lia.
    + symmetry in X. exact (gname_ne_rname _ _ _ X).
  - destruct (lookup f (gname c i)) as [j|] eqn:E; [exfalso | reflexivity].
    destruct (Hon _ _ E) as [X|[(i' & Hi' & X)|(i' & Hi' & X)]].
    + exact (gname_not_cname _ _ X).
    + exact (gname_ne_rname _ _ _ X).
    + apply gname_inj in X. lia.
Qed.

Lemma kview_no_plain c f cl cu lo mid i : kreader_view c f cl cu lo mid -> i < mid -> lookup f (rname c i) = None.
Proof.
  intros [[Hle _ _ _ Hon] _] Hi. destruct (lookup f (rname c i)) as [j|] eqn:E; [exfalso | reflexivity].
  destruct (Hon _ _ E) as [X|[(i' & Hi' & X)|(i' & Hi' & X)]].
  - exact (rname_not_cname _ _ X).
  - apply rname_inj in X. lia.
  - symmetry in X. exact (gname_ne_rname _ _ _ X).
Qed.

Lemma kview_reads_at c f cl cu lo mid i d : kreader_view c f cl cu lo mid -> reads_at c f i d ->
  lo <= i < length cl /\ d = nth i cl [].
Proof.
  intros V R. destruct (Nat.le_gt_cases lo i) as [H1|H1]; [destruct (Nat.lt_ge_cases i (length cl)) as [H2|H2]|].
  - split; [lia|]. exact (reads_at_fun c f i _ _ R (kview_reads_in c f cl cu lo mid i V ltac:(lia))).
  - exfalso. destruct (kview_gone c f cl cu lo mid i V ltac:(lia)) as [G1 G2]. unfold reads_at, file_of in R. rewrite G1, G2 in R.
    destruct R as (g & E & _). discriminate.
  - exfalso. destruct (kview_gone c f cl cu lo mid i V ltac:(lia)) as [G1 G2]. unfold reads_at, file_of in R. rewrite G1, G2 in R.
    destruct R as (g & E & _). discriminate.
Qed.

(* Whatever the reader finds under a number i after the first runs, it finds under the same number after all runs - as
   long as the cleanup has not removed it; a file that has become an archive does not come back as a plain file. *)
Theorem numbers_cleanup_restarts_keep_files sp k n m t0 off rs1 rs2 c i d :
  klim k = Some (n, m) -> sfx_ok sp ->
  (N.of_nat (length (runs_ops (rs1 ++ rs2))) <= u32_max)%N ->
  Forall (fun r => c_spec (fst r) = sp /\ (exists crit, numkcfg (fst r) crit k) /\ Forall basic_op (snd r)) (rs1 ++ rs2) ->
  c_spec c = sp ->
  let f1 := wfs (s_w (fst (run (sys0 t0 off) (runs_ops rs1)))) in
  let f2 := wfs (s_w (fst (run (sys0 t0 off) (runs_ops (rs1 ++ rs2))))) in
  reads_at c f1 i d ->
  (reads_at c f2 i d /\ (lookup f1 (rname c i) = None -> lookup f2 (rname c i) = None))
  \/ (lookup f2 (rname c i) = None /\ lookup f2 (gname c i) = None).
Proof.
  intros Hk Hsfx Hb Hrs Ec f1 f2 R.
  pose proof (numbers_cleanup_restarts_keep sp k n m t0 off rs1 rs2 Hk Hsfx Hb Hrs) as T. cbv zeta in T. fold f1 f2 in T.
  destruct T as [[Hn _]|(cl1 & cu1 & cl2 & cu2 & t & more & V1 & _ & V2 & _ & E)].
  - exfalso. unfold reads_at, file_of in R. rewrite !(lookup_empty f1) in R by exact Hn. destruct R as (g & X & _). discriminate.
  - specialize (V1 c Ec). specialize (V2 c Ec).
    destruct (kview_reads_at c f1 cl1 cu1 _ _ i d V1 R) as [Hi Ed].
    assert (HL : length cl1 <= length cl2).
    { apply (f_equal (@length bytes)) in E. rewrite !app_length in E. cbn [length] in E. lia. }
    assert (En : nth i cl2 [] = nth i cl1 []).
    { apply (f_equal (fun l => nth i l [])) in E. rewrite app_nth1 in E by lia. rewrite app_nth1 in E by lia. exact E. }
    destruct (Nat.le_gt_cases (length cl2 - (n + m)) i) as [H2|H2].
    + left. split.
      * rewrite Ed, <- En. apply (kview_reads_in c f2 cl2 cu2 _ _ i V2). lia.
      * intros N1. apply (kview_no_plain c f2 cl2 cu2 _ _ i V2).
        destruct (Nat.lt_ge_cases i (length cl1 - n)) as [H3|H3]; [lia|]. exfalso.
        destruct V1 as [[_ _ Hp _ _] _]. destruct (Hp i ltac:(lia)) as (j & Lj & _). congruence.
    + right. apply (kview_gone c f2 cl2 cu2 _ _ i V2). left. exact H2.
Qed.
Print Assumptions numbers_cleanup_restarts_keep_files.

(* ------------------------------------------------------------------ a run without a write *)
(* A run that is started and stopped without a record (flushes, ticks, even OTrigger) does not look at the directory:
   no rotation of the rCURRENT that it finds, no cleanup - the directory is the same file system as before. *)
Theorem numbers_cleanup_run_without_write sp k n m t0 off rs c crit ops :
  klim k = Some (n, m) -> sfx_ok sp ->
  (N.of_nat (length (runs_ops rs)) <= u32_max)%N ->
  Forall (fun r => c_spec (fst r) = sp /\ (exists crit, numkcfg (fst r) crit k) /\ Forall basic_op (snd r)) rs ->
  c_spec c = sp -> numkcfg c crit k -> Forall basic_op ops -> existsb is_wr ops = false ->
  wfs (s_w (fst (run (sys0 t0 off) (runs_ops (rs ++ [(c, ops)]))))) = wfs (s_w (fst (run (sys0 t0 off) (runs_ops rs)))).
Proof.
  intros Hk Hsfx Hb Hrs Ec Hcfg Hops Hw.
  destruct (runs_rel_k sp k n m Hk Hsfx rs (sys0 t0 off) None c Ec Hrs (idler0 _ k t0 off) Hb) as [v [Id [_ [_ P]]]].
  cbn [closed_of length] in P.
  assert (Hsfx' : sfx_ok (c_spec c)) by (rewrite Ec; exact Hsfx).
  destruct (one_run_r c crit k n m Hcfg Hk Hsfx' _ v ops ltac:(lia) Hops Id) as (v' & _ & _ & _ & _ & U).
  destruct (U Hw) as [_ E].
  rewrite runs_ops_app, run_app. cbn [runs_ops app].
  destruct (run (sys0 t0 off) (runs_ops rs)) as [x1 obs1]. cbn [fst] in *.
  destruct (run x1 (OStart c :: ops ++ [OStop])) as [x2 obs2]. cbn [fst] in *. exact E.
Qed.
Print Assumptions numbers_cleanup_run_without_write.
