(* The standard time-stamp infix is read back: parse_ts_local std_fmt (the parser of the listing filter, of
   timestamp_from_ts_infix and of the oracle valid_infix) accepts the text that format_ts std_fmt produces for an instant of
   the years 1970..9999, and returns this instant (local seconds). *)
Require Import FL.Base.Bytes FL.Base.BytesFacts FL.Time.Civil FL.Time.TsFormat FL.Names.NamesFacts FL.Names.SortFacts
  FL.Flw.TsCal FL.Flw.TsTime.
From Coq Require Import ZifyN ZifyNat ZifyBool.
Open Scope Z_scope.

(* ------------------------------------------------------------------ the day of the month exists: one sweep over an era *)
Definition dim_ok (doe : Z) : bool :=
  (146097 <=? doe) ||
  let '(yoe, m, d) := cfd_core doe in d <=? days_in_month (yoe + (if m <=? 2 then 1 else 0)) m.

Lemma dim_ok_all : all_range 18 0 dim_ok = true.
Proof. vm_cast_no_check (eq_refl true). Qed.

Lemma is_leap_era y era : is_leap (y + era * 400) = is_leap y.
Proof.
  unfold is_leap.
  replace (y + era * 400) with (y + (era * 100) * 4) at 1 by lia. rewrite Z.mod_add by lia.
  replace (y + era * 400) with (y + (era * 4) * 100) at 1 by lia. rewrite Z.mod_add by lia.
  rewrite Z.mod_add by lia. reflexivity.
Qed.

Lemma days_in_month_era y era m : days_in_month (y + era * 400) m = days_in_month y m.
Proof. unfold days_in_month. rewrite is_leap_era. reflexivity. Qed.

Lemma civil_day_exists z : let '(y, m, d) := civil_from_days z in d <= days_in_month y m.
Proof.
  rewrite cfd_era. cbv zeta.
  set (era := (z + 719468) / 146097). set (doe := z + 719468 - era * 146097).
  assert (Hd : 0 <= doe < 146097).
  { subst doe era. pose proof (Z.div_mod (z + 719468) 146097 ltac:(lia)) as D.
    pose proof (Z.mod_pos_bound (z + 719468) 146097 ltac:(lia)) as M. lia. }
  pose proof (all_range_sound 18 0 dim_ok dim_ok_all doe) as X.
  assert (Hr : 0 <= doe < 0 + p2 18) by (change (p2 18) with 262144; lia). specialize (X Hr).
  unfold dim_ok in X. destruct (cfd_core doe) as [[yoe m] d].
  destruct (Z.leb_spec 146097 doe) as [Hx|_]; [lia|]. cbn [orb] in X.
  assert (E : (if m <=? 2 then yoe + era * 400 + 1 else yoe + era * 400) = (yoe + (if m <=? 2 then 1 else 0)) + era * 400)
    by (destruct (m <=? 2); lia).
  rewrite E, days_in_month_era. lia.
Qed.

Lemma civil_of_day_exists t : cd (civil_of t) <= days_in_month (cy (civil_of t)) (cmo (civil_of t)).
Proof.
  unfold civil_of. pose proof (civil_day_exists (t / 86400)) as H. destruct (civil_from_days (t / 86400)) as [[y m] d].
  cbn [cy cmo cd]. exact H.
Qed.

(* ------------------------------------------------------------------ scanning digits *)
Lemma take_digits_exact : forall (D rest acc : bytes), all_digits D = true ->
  take_digits (length D) (D ++ rest) acc = (acc ++ D, rest).
Proof.
  induction D as [|d D IH]; intros rest acc H; cbn [length app take_digits].
  - rewrite app_nil_r. destruct rest; reflexivity.
  - cbn [all_digits] in H. apply andb_prop in H. destruct H as [H1 H2]. rewrite H1, IH by exact H2.
    rewrite <- app_assoc. reflexivity.
Qed.

Lemma scan_number_exact n (D rest : bytes) : length D = n -> D <> [] -> all_digits D = true ->
  scan_number n (D ++ rest) = Some (Z.of_N (dec_value D), rest).
Proof.
  intros <- Hne H. unfold scan_number. rewrite take_digits_exact by exact H. cbn [app]. destruct D; [congruence | reflexivity].
Qed.

Lemma digit_not_ws d : is_digit d = true -> is_ws d = false.
Proof. unfold is_digit, is_ws. lia. Qed.

Lemma trim_digits (D rest : bytes) : D <> [] -> all_digits D = true -> trim_start (D ++ rest) = D ++ rest.
Proof.
  destruct D as [|d D]; [congruence|]. intros _ H. cbn [all_digits] in H. apply andb_prop in H. destruct H as [H _].
  cbn [app trim_start]. rewrite (digit_not_ws d H). reflexivity.
Qed.

Lemma digit_cases d : is_digit d = true ->
  d = 48%N \/ d = 49%N \/ d = 50%N \/ d = 51%N \/ d = 52%N \/ d = 53%N \/ d = 54%N \/ d = 55%N \/ d = 56%N \/ d = 57%N.
Proof. unfold is_digit. lia. Qed.

(* %Y on a text that starts with a digit: neither sign nor white space *)
Lemma parse_year_digit d r p : is_digit d = true ->
  parse_item TY (d :: r) p =
  match scan_number 4 (d :: r) with
  | Some (v, r') => match set_field (py p) v with
                    | Some y => Some (r', {| py := y; pmo := pmo p; pd := pd p; ph := ph p; pmi := pmi p; ps := ps p |})
                    | None => None end
  | None => None
  end.
Proof.
  intros H. destruct (digit_cases d H) as [E|[E|[E|[E|[E|[E|[E|[E|[E|E]]]]]]]]]; subst d; reflexivity.
Qed.

Lemma len_nonempty {A} (l : list A) n : length l = S n -> l <> [].
Proof. destruct l; [discriminate | discriminate]. Qed.

Lemma parse_year (D rest : bytes) p : length D = 4%nat -> all_digits D = true -> py p = None ->
  parse_item TY (D ++ rest) p
  = Some (rest, {| py := Some (Z.of_N (dec_value D)); pmo := pmo p; pd := pd p; ph := ph p; pmi := pmi p; ps := ps p |}).
Proof.
  intros L H Hp. pose proof (len_nonempty D 3 L) as Hne.
  assert (E : exists d D', D = d :: D' /\ is_digit d = true).
  { destruct D as [|d D']; [congruence|]. cbn [all_digits] in H. apply andb_prop in H. exists d, D'. tauto. }
  destruct E as [d [D' [E Hd]]]. rewrite E at 1. cbn [app]. rewrite (parse_year_digit d _ p Hd).
  change (d :: D' ++ rest) with ((d :: D') ++ rest). rewrite <- E.
  rewrite (scan_number_exact 4 D rest L Hne H), Hp. reflexivity.
Qed.

(* ------------------------------------------------------------------ the six fields, then the whole text *)
Section Parse.
Variable c : civil.
Hypothesis Hc : civil_ok c.
Hypothesis Hd : cd c <= days_in_month (cy c) (cmo c).

Let P2 : forall z, 0 <= z <= 99 -> length (pad_dec 2 z) = 2%nat.
Proof. intros z Hz. apply (pad_dec_length 2 _ 99); [exact Hz | vm_compute; lia]. Qed.

Lemma scan2 z rest : 0 <= z <= 99 -> scan_number 2 (trim_start (pad_dec 2 z ++ rest)) = Some (z, rest).
Proof.
  intros Hz. pose proof (P2 z Hz) as L. pose proof (len_nonempty _ 1 L) as Hne.
  rewrite trim_digits by (auto; apply pad_dec_digits).
  rewrite (scan_number_exact 2 _ rest L Hne (pad_dec_digits 2 z)), pad_dec_value. f_equal. f_equal. lia.
Qed.

Lemma in_range_true lo hi v : lo <= v <= hi -> in_range lo hi v = true.
Proof. unfold in_range. lia. Qed.

Lemma parse_lit b r p : parse_item (TLit b) (b :: r) p = Some (r, p).
Proof. cbn [parse_item]. rewrite N.eqb_refl. reflexivity. Qed.

Lemma parse_items_cons i f s p :
  parse_items (i :: f) s p = match parse_item i s p with Some (s', p') => parse_items f s' p' | None => None end.
Proof. reflexivity. Qed.

Lemma parse_mo z rest p : 1 <= z <= 12 -> pmo p = None ->
  parse_item Tmo (pad_dec 2 z ++ rest) p = Some (rest, {| py := py p; pmo := Some z; pd := pd p; ph := ph p; pmi := pmi p; ps := ps p |}).
Proof. intros Hz Hp. cbn [parse_item]. rewrite scan2 by lia. rewrite in_range_true by lia. rewrite Hp. reflexivity. Qed.
Lemma parse_d z rest p : 1 <= z <= 31 -> pd p = None ->
  parse_item Td (pad_dec 2 z ++ rest) p = Some (rest, {| py := py p; pmo := pmo p; pd := Some z; ph := ph p; pmi := pmi p; ps := ps p |}).
Proof. intros Hz Hp. cbn [parse_item]. rewrite scan2 by lia. rewrite in_range_true by lia. rewrite Hp. reflexivity. Qed.
Lemma parse_h z rest p : 0 <= z <= 23 -> ph p = None ->
  parse_item TH (pad_dec 2 z ++ rest) p = Some (rest, {| py := py p; pmo := pmo p; pd := pd p; ph := Some z; pmi := pmi p; ps := ps p |}).
Proof. intros Hz Hp. cbn [parse_item]. rewrite scan2 by lia. rewrite in_range_true by lia. rewrite Hp. reflexivity. Qed.
Lemma parse_mi z rest p : 0 <= z <= 59 -> pmi p = None ->
  parse_item TMi (pad_dec 2 z ++ rest) p = Some (rest, {| py := py p; pmo := pmo p; pd := pd p; ph := ph p; pmi := Some z; ps := ps p |}).
Proof. intros Hz Hp. cbn [parse_item]. rewrite scan2 by lia. rewrite in_range_true by lia. rewrite Hp. reflexivity. Qed.
Lemma parse_s z rest p : 0 <= z <= 59 -> ps p = None ->
  parse_item TS (pad_dec 2 z ++ rest) p = Some (rest, {| py := py p; pmo := pmo p; pd := pd p; ph := ph p; pmi := pmi p; ps := Some z |}).
Proof. intros Hz Hp. cbn [parse_item]. rewrite scan2 by lia. rewrite in_range_true by lia. rewrite Hp. reflexivity. Qed.

Theorem parse_std_text : parse_ts_local std_fmt (std_text c) = Some (secs_of_civil c).
Proof.
  destruct Hc as [Hy Hmo Hdd Hh Hmi Hs].
  assert (L4 : length (pad_dec 4 (cy c)) = 4%nat) by (apply (pad_dec_length 4 _ 9999); [exact Hy | vm_compute; lia]).
  assert (E : parse_items std_fmt (std_text c) parsed0
              = Some {| py := Some (cy c); pmo := Some (cmo c); pd := Some (cd c); ph := Some (ch c); pmi := Some (cmi c); ps := Some (cs c) |}).
  { unfold std_fmt, std_text.
    rewrite parse_items_cons, parse_lit. cbv beta iota.
    rewrite parse_items_cons, (parse_year _ _ parsed0 L4 (pad_dec_digits 4 (cy c)) eq_refl), pad_dec_value. cbv beta iota.
    rewrite parse_items_cons, parse_lit. cbv beta iota.
    rewrite parse_items_cons, parse_mo by (auto; reflexivity). cbv beta iota.
    rewrite parse_items_cons, parse_lit. cbv beta iota.
    rewrite parse_items_cons, parse_d by (auto; reflexivity). cbv beta iota.
    rewrite parse_items_cons, parse_lit. cbv beta iota.
    rewrite parse_items_cons, parse_h by (auto; reflexivity). cbv beta iota.
    rewrite parse_items_cons, parse_lit. cbv beta iota.
    rewrite parse_items_cons, parse_mi by (auto; reflexivity). cbv beta iota.
    rewrite parse_items_cons, parse_lit. cbv beta iota.
    rewrite <- (app_nil_r (pad_dec 2 (cs c))).
    rewrite parse_items_cons, parse_s by (auto; reflexivity). cbv beta iota.
    cbn [parse_items py pmo pd ph pmi ps parsed0]. replace (Z.of_N (Z.to_N (cy c))) with (cy c) by lia. reflexivity. }
  unfold parse_ts_local. rewrite E. cbn [py pmo pd ph pmi ps].
  assert (Yk : year_ok (cy c) = true) by (unfold year_ok; apply in_range_true; lia).
  rewrite Yk. destruct (Z.leb_spec (cd c) (days_in_month (cy c) (cmo c))) as [_|X]; [|lia]. cbn [andb].
  destruct (Z.eqb_spec (cs c) 60) as [X|_]; [lia|]. unfold secs_of_civil. reflexivity.
Qed.
End Parse.

(* the infix of an instant is parsed back to the instant (as local seconds: shifted by the offset) *)
Theorem parse_tsx e t : in_years e t -> parse_ts_local std_fmt (tsx e t) = Some (t + e).
Proof.
  intros H. destruct (tsx_text e t H) as [-> Ok]. rewrite (parse_std_text _ Ok (civil_of_day_exists (t + e))).
  f_equal. exact (proj2 (civil_of_ok (t + e) H)).
Qed.

(* ... and it is the canonical text of that instant: the infix filter of the time-stamp namings accepts it *)
Lemma canonical_tsx e t : in_years e t -> canonical_ts std_fmt (tsx e t) = true.
Proof. intros H. unfold canonical_ts. rewrite (parse_tsx e t H). unfold tsx. rewrite beq_refl. reflexivity. Qed.
Print Assumptions parse_tsx.

Example parse_tsx_instance : parse_ts_local std_fmt (tsx 7200 1700000000) = Some 1700007200.
Proof. apply parse_tsx. unfold in_years, sec_max. lia. Qed.
Print Assumptions parse_std_text.
