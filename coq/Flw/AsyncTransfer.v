(* From the generic simulation of AsyncSim.v to statements about ANY write mode.

   1. same_but_mode c1 c2: the two configurations differ in nothing but the write mode (c_cap: Direct / BufWriter of any
      capacity; c_async: the records travel through a channel to a writer thread).
   2. async_transfer: an asynchronous run and the synchronous run of the same operations with the same capacity are in
      the relation Sim after the history (same world, same state up to the mode - hence the same pending bytes -, the
      writer thread runs); after the drop of the writer the worlds are equal, there is no writer and no thread; the
      caller of the asynchronous writer has seen "ok, no rotation" for every operation (aobs of NumAsync.v).
      Hypotheses (as in AsyncSim.async_sim_whole): the synchronous run returns normal results and its world is free of
      faults - both are theorems for the families of naming schemes.
   3. to_sync: the same for a configuration of either kind (c_async c = false: sync_of c = c). *)
Require Import FL.Base.Bytes FL.Base.BytesFacts FL.Base.PathName FL.Fs.Fs FL.Fs.FsFacts FL.Time.Civil FL.Time.TsFormat
  FL.Names.FileSpec FL.Names.NamesFacts FL.Flw.Model FL.Flw.ModelFacts FL.Flw.NumFs FL.Flw.NumInv FL.Flw.Run FL.Flw.RunFacts
  FL.Flw.NumRun FL.Oracles.O_Flw FL.Flw.NumTheorems FL.Flw.NumListing FL.Flw.NumKillRestart FL.Flw.NoPanic FL.Flw.NumCfg0 FL.Flw.NumAsync
  FL.Flw.AsyncSim FL.Flw.TsReader FL.Flw.ListingExact.
From Coq Require Import ZifyN ZifyNat ZifyBool.
Open Scope nat_scope.

(* ------------------------------------------------------------------ configurations that differ in the mode only *)
Definition same_but_mode (c1 c2 : config) : Prop :=
  c_spec c1 = c_spec c2 /\ c_append c1 = c_append c2 /\ c_rot c1 = c_rot c2 /\ c_utc c1 = c_utc c2
  /\ c_symlink c1 = c_symlink c2 /\ c_bg c1 = c_bg c2 /\ c_start c1 = c_start c2.

Definition with_mode (c : config) (cap : option nat) (async : bool) : config :=
  {| c_spec := c_spec c; c_append := c_append c; c_cap := cap; c_rot := c_rot c; c_utc := c_utc c;
     c_symlink := c_symlink c; c_bg := c_bg c; c_async := async; c_start := c_start c |}.

Lemma same_but_mode_refl c : same_but_mode c c.
Proof. repeat split. Qed.
Lemma same_but_mode_sym c1 c2 : same_but_mode c1 c2 -> same_but_mode c2 c1.
Proof. intros [H1 [H2 [H3 [H4 [H5 [H6 H7]]]]]]. repeat split; congruence. Qed.
Lemma same_but_mode_with c cap async : same_but_mode c (with_mode c cap async).
Proof. repeat split. Qed.
Lemma same_but_mode_sync c : same_but_mode c (sync_of c).
Proof. repeat split. Qed.

(* the file names depend on the file spec only *)
Lemma same_mode_nm c1 c2 : same_but_mode c1 c2 -> nm c1 = nm c2.
Proof. intros [H _]. unfold nm, fixed0. rewrite H. reflexivity. Qed.

(* ------------------------------------------------------------------ the relation after a history *)
Lemma sim_pending xa xs : Sim xa xs -> pending xa = pending xs.
Proof. intros [_ [_ [_ [s [Ea [Es _]]]]]]. unfold pending. rewrite Ea, Es. reflexivity. Qed.

Lemma aobs_no_rot o ob : basic_op o -> obs_normal o ob -> aobs o (no_rot ob).
Proof.
  intros Hb. destruct o; try contradiction; cbn [obs_normal aobs]; try (intros [rot ->]; reflexivity).
  intros [f [l [e ->]]]. cbn [no_rot]. eauto.
Qed.

Lemma aobs_map_no_rot : forall ops l, Forall basic_op ops -> Forall2 obs_normal ops l -> Forall2 aobs ops (List.map no_rot l).
Proof.
  induction ops as [|o r IH]; intros l Hb F; inversion F as [|o' ob r' l' Ho Hr]; subst; [constructor|].
  inversion Hb as [|o'' r'' Hbo Hbr]; subst. cbn [List.map]. constructor; [apply aobs_no_rot; assumption | apply IH; assumption].
Qed.

Theorem async_transfer c t0 off ops :
  c_async c = true -> Forall basic_op ops ->
  let ra := run (sys0 t0 off) (OStart c :: ops) in
  let rs := run (sys0 t0 off) (OStart (sync_of c) :: ops) in
  let ra' := run (sys0 t0 off) (OStart c :: ops ++ [OStop]) in
  let rs' := run (sys0 t0 off) (OStart (sync_of c) :: ops ++ [OStop]) in
  Forall obs_ok (snd rs) -> quiet (s_w (fst rs)) ->
  Sim (fst ra) (fst rs)
  /\ s_w (fst ra') = s_w (fst rs') /\ s_flw (fst ra') = None /\ s_dead (fst ra') = true
  /\ Forall2 aobs (OStart c :: ops ++ [OStop]) (snd ra').
Proof.
  intros Ha Hb. cbn zeta. cbn [run]. pose proof (sim_start c t0 off Ha) as S0.
  assert (O0 : snd (step (sys0 t0 off) (OStart c)) = ObsRes 0%N false) by reflexivity.
  destruct (step (sys0 t0 off) (OStart c)) as [xa0 oa0]. destruct (step (sys0 t0 off) (OStart (sync_of c))) as [xs0 os0].
  cbn [fst snd] in S0, O0. subst oa0. rewrite !run_app.
  pose proof (sim_run ops xa0 xs0 S0 Hb) as SR. pose proof (run_shapes ops xs0 Hb) as Sh.
  destruct (run xa0 ops) as [xa1 la]. destruct (run xs0 ops) as [xs1 ls]. cbn [fst snd] in *.
  intros K Q. inversion K as [|ob' l' K0 K1]; subst. destruct (SR K1) as [S1 E1].
  split; [exact S1|].
  rewrite (proj1 S1) in Q. destruct (sim_stop xa1 xs1 S1 Q) as [Ew [Fa [Fs [Da [Oa Os]]]]].
  cbn [run]. destruct (step xa1 OStop) as [xa2 oa2]. destruct (step xs1 OStop) as [xs2 os2]. cbn [fst snd] in *. subst oa2 os2.
  split; [exact Ew|]. split; [exact Fa|]. split; [exact Da|].
  constructor; [reflexivity|]. apply Forall2_app; [|constructor; [reflexivity | constructor]].
  rewrite E1. apply aobs_map_no_rot; [exact Hb | exact (Sh K1)].
Qed.

(* a configuration of either kind and its synchronous counterpart: same world and same pending bytes after the history,
   same world after the drop of the writer *)
Theorem to_sync c t0 off ops :
  Forall basic_op ops ->
  let r := run (sys0 t0 off) (OStart c :: ops) in
  let rs := run (sys0 t0 off) (OStart (sync_of c) :: ops) in
  let r' := run (sys0 t0 off) (OStart c :: ops ++ [OStop]) in
  let rs' := run (sys0 t0 off) (OStart (sync_of c) :: ops ++ [OStop]) in
  Forall obs_ok (snd rs) -> quiet (s_w (fst rs)) ->
  s_w (fst r) = s_w (fst rs) /\ pending (fst r) = pending (fst rs) /\ s_w (fst r') = s_w (fst rs').
Proof.
  intros Hb. cbn zeta. destruct (c_async c) eqn:Ha.
  - intros K Q. destruct (async_transfer c t0 off ops Ha Hb K Q) as [S [E _]].
    split; [symmetry; apply S|]. split; [apply sim_pending; exact S | exact E].
  - rewrite (sync_of_sync c Ha). intros _ _. repeat split.
Qed.

(* ------------------------------------------------------------------ "the same directory" *)
(* what a directory holds under a name: kind (plain / gz), directory flag, content *)
Definition dview (f : fs) (n : bytes) : option (N * bool * bytes) :=
  match lookup f n with Some j => Some (fgz (inode f j), fdir (inode f j), content f j) | None => None end.
(* the two directories are the same map from names to files *)
Definition same_dir (f1 f2 : fs) : Prop := forall n, dview f1 n = dview f2 n.

(* two directories that consist of the same plain files nmf 0 .. nmf (len-1) with the same contents, and nothing else *)
Lemma same_dir_of_entries (f1 f2 : fs) (nmf : nat -> bytes) (cnt : nat -> bytes) (len : nat) :
  (forall i, i < len -> exists j, lookup f1 (nmf i) = Some j /\ plain (inode f1 j) /\ content f1 j = cnt i) ->
  (forall n j, lookup f1 n = Some j -> exists i, i < len /\ n = nmf i) ->
  (forall i, i < len -> exists j, lookup f2 (nmf i) = Some j /\ plain (inode f2 j) /\ content f2 j = cnt i) ->
  (forall n j, lookup f2 n = Some j -> exists i, i < len /\ n = nmf i) ->
  same_dir f1 f2.
Proof.
  intros A1 B1 A2 B2 n. unfold dview. destruct (lookup f1 n) as [j1|] eqn:L1.
  - destruct (B1 n j1 L1) as [i [Hi ->]]. destruct (A1 i Hi) as [j1' [L1' [[G1 D1] C1]]]. rewrite L1 in L1'. injection L1' as <-.
    destruct (A2 i Hi) as [j2 [L2 [[G2 D2] C2]]]. rewrite L2, G1, D1, C1, G2, D2, C2. reflexivity.
  - destruct (lookup f2 n) as [j2|] eqn:L2; [|reflexivity]. destruct (B2 n j2 L2) as [i [Hi ->]].
    destruct (A1 i Hi) as [j1 [L1' _]]. congruence.
Qed.

(* hence the same snapshot (names in sorted order, kind, content), when no name is listed twice *)
Lemma same_dir_snap f1 f2 : NoDup (dir_names f1) -> NoDup (dir_names f2) -> same_dir f1 f2 -> snap_list f1 = snap_list f2.
Proof.
  intros N1 N2 S. unfold snap_list.
  assert (M : forall n, In n (dir_names f1) <-> In n (dir_names f2)).
  { intros n. rewrite !dir_names_lookup. specialize (S n). unfold dview in S.
    destruct (lookup f1 n), (lookup f2 n); try discriminate; split; intros [j H]; eauto; discriminate. }
  rewrite (sort_names_same _ _ N1 N2 M). apply map_ext. intros n. unfold snap_entry, file_of.
  specialize (S n). unfold dview, content in S.
  destruct (lookup f1 n), (lookup f2 n); try discriminate; [|reflexivity]. injection S as E1 E2 E3. rewrite E1, E2, E3. reflexivity.
Qed.

Print Assumptions async_transfer.
Print Assumptions to_sync.
