(* Timestamps naming with rCURRENT (rCURRENT + r<time stamp>[.restart-NNNN]) with an age criterion (or age-or-size, or size):
   C09 for whole runs from an empty directory.
   The timed abstract view of NumAgeInv.v (closed files and the current file, each with the instant at which it was started)
   is refined by the model.  Three things are tied to the start instant st of the current file:
   - the roll state's `created` (the birth time of rCURRENT, read back from the file system right after it was opened),
   - the time stamp `ts` of the naming state (creation_timestamp_of_currentfile: after the rename rCURRENT does not exist, so
     the clock is read - the same second in which the new rCURRENT is then created),
   - and, at the NEXT rotation, the second of the key under which the file is closed: rCURRENT is renamed to r<ts>, i.e. the
     time stamp in the name of a closed file is the second in which it was STARTED, not the second of its closing.
   The lemmas of TsInv.v hide the roll state of the new file behind an existential and do not say when the file was born;
   the three of them that create a file are proved again here with that information (same proofs, more conclusions). *)
Require Import FL.Base.Bytes FL.Base.BytesFacts FL.Base.PathName FL.Fs.Fs FL.Fs.FsFacts FL.Time.Civil FL.Time.Period FL.Time.TsFormat
  FL.Names.FileSpec FL.Names.NamesFacts FL.Names.SortFacts FL.Names.FamilyFacts FL.Flw.Model FL.Flw.ModelFacts FL.Flw.NumFs
  FL.Flw.NumInv FL.Flw.Run FL.Flw.RunFacts FL.Flw.NumRun FL.Oracles.O_Flw FL.Oracles.O_Age FL.Oracles.ReaderOrder FL.Flw.NumTheorems
  FL.Flw.NumListing FL.Flw.NumRestart FL.Flw.NumAgeInv FL.Flw.NumAge FL.Flw.NumDInv FL.Flw.NumDTheorems
  FL.Flw.TsCal FL.Flw.TsTime FL.Flw.TsMono FL.Flw.TsNames FL.Flw.TsInv FL.Flw.TsRun FL.Flw.TsTheorems FL.Flw.TsReader
  FL.Flw.TsdInv FL.Flw.TsdRun FL.Flw.TsdTheorems FL.Flw.TsPartition FL.Flw.TsdAge.
From Coq Require Import ZifyN ZifyNat ZifyBool Sorted.
Open Scope nat_scope.

(* ------------------------------------------------------------------ one rotation, with the birth of the new rCURRENT *)
Lemma mount_next_rotates_ts_t c crit e lo hi w wr keys closed ts roll force :
  tscfg c crit -> tag_ok c -> years_ok e lo hi -> TsInv c e lo w wr keys closed ts ->
  (wnow w <= hi)%Z -> (N.of_nat (length closed) <= usize_max)%N ->
  force || rotation_necessary w roll = true ->
  exists w' wr' roll',
    mount_next c w (Active (Some (mk_rs (NSTs ts (Some cur_infix) std_fmt) roll)) wr (cname c)) force
      = (Ok tt, w', Active (Some (mk_rs (NSTs (wnow w) (Some cur_infix) std_fmt) roll')) wr' (cname c))
    /\ TsInv c e lo w' wr' (keys ++ [(ts, count ts keys)]) (closed ++ [cur_view w wr]) (wnow w)
    /\ cur_view w' wr' = [] /\ roll_size_ok roll' 0 /\ same_env w w'
    /\ (forall st, roll_ok crit st roll -> roll_ok crit (wnow w) roll').
Proof.
  intros [Hrot [Hts [Hlink _]]] T Y I Hhi Hmax Hnec.
  pose proof I as [Q W Hnd Hoff Hc Hcp Hlen Hcl Hon Hko Hrg Htsr Hwr Hcap].
  assert (Yk : forall k, In k keys -> in_years e (fst k)).
  { intros k Ik. apply (years_in e lo hi); [exact Y|]. specialize (Hrg k Ik). lia. }
  assert (Yts : in_years e ts) by (apply (years_in e lo hi); [exact Y | lia]).
  set (knew := (ts, count ts keys)).
  unfold mount_next. cbn [mk_rs rs_roll rs_naming rs_cleanup rs_bg]. rewrite Hnec.
  unfold creation_ts_of_current, collision_free. rewrite !tick_quiet by assumption.
  rewrite !(name_of_fixed c w) by assumption. rewrite (fixed_of_fixed0 c w Hts), infix_from_ts_tsx, Hoff.
  rewrite (collision_free_infix_ts c e (woff w) (wfs w) keys ts (count ts keys) T Yts Yk (tsinv_dir _ _ _ _ _ _ _ _ I)
             (keys_count keys Hko ts)) by (pose proof (count_le_length ts keys); lia).
  rewrite ?(name_of_fixed c w) by assumption.
  fold (nm c cur_infix). fold (cname c).
  change (as_name (c_spec c) (fixed0 c) (Some (infix_of e (ts, count ts keys)))) with (kname c e knew).
  (* the target name is free *)
  assert (Ht : lookup (wfs w) (kname c e knew) = None).
  { destruct (lookup (wfs w) (kname c e knew)) as [j|] eqn:E; [|reflexivity].
    destruct (Hon _ _ E) as [E1|[i [Hi E1]]]; [exfalso; exact (kname_not_cname c e knew Yts E1)|].
    apply kname_inj in E1; [|exact Yts | apply Yk, nth_In; lia].
    assert (Ik : In knew keys) by (rewrite E1; apply nth_In; lia).
    apply (keys_count keys Hko) in Ik. lia. }
  destruct (rotate_fs_spec (wfs w) (cname c) (kname c e knew) (wino wr) (wpend wr) (wnow w) W
              (fun E => kname_not_cname c e knew Yts (eq_sym E)) Hc Ht) as [f1 [Er R]].
  cbn zeta in R. destruct R as [L1c [Hino1 [W3 [Hnew [L3c [L3t [L3o [Hlenf [Inew [Iold Ioth]]]]]]]]]].
  pose proof (p_rename_quiet w (cname c) (kname c e knew) Q) as PR. rewrite Er in PR.
  destruct PR as [w1 [Epr [F1 S1]]]. rewrite Epr.
  (* the creation time of the new current file: it does not exist yet, so the clock is read *)
  assert (Eb : birth_or_now w1 (cname c) = wnow w).
  { unfold birth_or_now, file_of. rewrite F1, L1c. apply S1. }
  rewrite Eb.
  (* open the new current file *)
  unfold open_log_file. rewrite (name_of_fixed c w1) by assumption. fold (nm c cur_infix) (cname c).
  unfold do_symlink. rewrite Hlink.
  assert (D1 : match file_of (wfs w1) (cname c) with Some fl => fdir fl = false | None => True end).
  { unfold file_of. rewrite F1, L1c. exact Logic.I. }
  destruct (p_open_quiet w1 (cname c) (c_append c) (proj1 S1) D1) as [w2 [Eop [F2 S2]]]. rewrite Eop.
  assert (Eopen : (if c_append c then open_append (wfs w1) (cname c) (wnow w1) else open_trunc (wfs w1) (cname c) 0%N (wnow w1))
                  = create_file f1 (cname c) 0%N (wnow w)).
  { rewrite F1. destruct S1 as [_ [-> _]]. destruct (c_append c); [apply open_append_fresh | apply open_trunc_fresh]; exact L1c. }
  rewrite Eopen in *. clear Eopen.
  (* the old writer is dropped *)
  unfold w_drop. destruct (w_flush_quiet w2 wr (proj1 S2)) as [w3 [Efl [F3 S3]]]. rewrite Efl. cbn [fst snd].
  unfold cleanup_or_queue. cbn [mk_rs rs_roll rs_naming rs_cleanup rs_bg cleanup_impl].
  set (new := snd (create_file f1 (cname c) 0%N (wnow w))) in *.
  set (f3 := append_ino (fst (create_file f1 (cname c) 0%N (wnow w))) (wino wr) (wpend wr)) in *.
  assert (F3' : wfs w3 = f3) by (rewrite F3, F2; reflexivity).
  set (wr' := {| wino := new; wpend := []; wcap := c_cap c |}).
  exists w3, wr', (reset_size_and_date w3 roll (cname c)).
  split; [reflexivity|].
  assert (SE : same_env w w3) by (eapply same_env_trans; [eapply same_env_trans|]; eassumption).
  pose proof (wf_bound _ W _ _ Hc) as Hold.
  split.
  { constructor.
    - exact (proj1 S3).
    - rewrite F3'. exact W3.
    - rewrite F3'. unfold f3. change (dir_names (append_ino ?g _ _)) with (dir_names g).
      apply create_nodup; [exact (rename_nodup _ _ _ _ Hnd Er) | exact L1c].
    - unfold eoff in *. destruct SE as [_ [_ [-> _]]]. exact Hoff.
    - rewrite F3'. exact L3c.
    - rewrite F3'. cbn [wr' wino]. rewrite Inew. split; reflexivity.
    - rewrite !app_length, Hlen. reflexivity.
    - intros i Hi. rewrite app_length in Hi. cbn [length] in Hi. rewrite F3'.
      destruct (Nat.eq_dec i (length closed)) as [->|Hne].
      + exists (wino wr). rewrite app_nth2, Hlen, Nat.sub_diag by lia. cbn [nth]. split; [exact L3t|]. split.
        * rewrite Iold. exact Hcp.
        * split; [|cbn [wr' wino]; rewrite Hnew; lia].
          unfold content at 1. rewrite Iold. cbn [with_data fdata]. rewrite app_nth2, Nat.sub_diag by lia. reflexivity.
      + assert (Hi' : i < length closed) by lia. destruct (Hcl i Hi') as [j [Lj [Pj [Cj Hj2]]]].
        assert (Ik : In (nth i keys kd) keys) by (apply nth_In; lia).
        exists j. rewrite (app_nth1 keys _ kd) by lia.
        rewrite L3o; [|apply kname_not_cname, Yk, Ik |].
        2:{ intros E. apply kname_inj in E; [|apply Yk, Ik | exact Yts]. rewrite E in Ik. apply (keys_count keys Hko) in Ik. lia. }
        split; [exact Lj|].
        assert (Hj1 : j <> new). { pose proof (wf_bound _ W _ _ Lj). rewrite Hnew. lia. }
        unfold content. rewrite Ioth by assumption. split; [exact Pj|]. rewrite app_nth1 by assumption. split; [exact Cj | exact Hj1].
    - intros n j Hn. rewrite F3' in Hn.
      destruct (beq_spec n (cname c)) as [->|Hn1]; [left; reflexivity|].
      destruct (beq_spec n (kname c e knew)) as [->|Hn2].
      + right. exists (length closed). rewrite app_length. cbn [length]. split; [lia|].
        rewrite app_nth2, Hlen, Nat.sub_diag by lia. reflexivity.
      + rewrite L3o in Hn by assumption. destruct (Hon _ _ Hn) as [E|[i [Hi E]]]; [contradiction|].
        right. exists i. rewrite app_length. cbn [length]. split; [lia|]. rewrite (app_nth1 keys _ kd) by lia. exact E.
    - apply ko_snoc; [exact Hko|]. intros k Ik. specialize (Hrg k Ik). lia.
    - intros k Ik. apply in_app_or in Ik. destruct Ik as [Ik|[<-|[]]].
      + specialize (Hrg k Ik). lia.
      + unfold knew. cbn [fst]. lia.
    - destruct SE as [_ [-> _]]. lia.
    - unfold wr_ok, wr'. cbn. destruct (c_cap c); [lia | reflexivity].
    - reflexivity. }
  split. { unfold cur_view. rewrite F3'. cbn [wr' wino wpend]. unfold content. rewrite Inew. reflexivity. }
  split. { destruct roll; cbn; auto. }
  split; [exact SE|].
  (* the new rCURRENT was born now: this is what reset_size_and_date reads back *)
  assert (B : birth_or_now w3 (cname c) = wnow w).
  { unfold birth_or_now, file_of. rewrite F3', L3c, Inew. reflexivity. }
  intros st Hst. destruct crit, roll; cbn [roll_ok reset_size_and_date] in *; try contradiction; rewrite ?B; tauto.
Qed.

(* ------------------------------------------------------------------ a write on an active writer *)
Lemma write_active_ts_t c crit e lo hi w wr keys closed ts roll b :
  tscfg c crit -> tag_ok c -> years_ok e lo hi -> TsInv c e lo w wr keys closed ts ->
  (wnow w <= hi)%Z -> (N.of_nat (length closed) <= usize_max)%N -> roll_size_ok roll (length (cur_view w wr)) ->
  let rot := rotation_necessary w roll in
  exists w' wr' roll' keys' closed',
    write_buffer (st_ts c ts roll wr) w b = (Ok tt, w', st_ts c (if rot then wnow w else ts) roll' wr', rot)
    /\ TsInv c e lo w' wr' keys' closed' (if rot then wnow w else ts)
    /\ roll_size_ok roll' (length (cur_view w' wr')) /\ same_env w w'
    /\ (closed', cur_view w' wr') = (if rot then (closed ++ [cur_view w wr], b) else (closed, cur_view w wr ++ b))
    /\ List.map fst keys' = (if rot then List.map fst keys ++ [ts] else List.map fst keys)
    /\ (forall st, roll_ok crit st roll -> roll_ok crit (if rot then wnow w else st) roll').
Proof.
  intros Hcfg T Y I Hhi Hmax Hsz rot.
  unfold write_buffer, st_ts. cbn [f_cfg f_inner f_poisoned mk_rs rs_roll]. fold rot.
  assert (M : exists w1 wr1 roll1 keys1 closed1,
            mount_next c w (Active (Some (mk_rs (NSTs ts (Some cur_infix) std_fmt) roll)) wr (cname c)) false
            = (Ok tt, w1, Active (Some (mk_rs (NSTs (if rot then wnow w else ts) (Some cur_infix) std_fmt) roll1)) wr1 (cname c))
            /\ TsInv c e lo w1 wr1 keys1 closed1 (if rot then wnow w else ts)
            /\ roll_size_ok roll1 (length (cur_view w1 wr1)) /\ same_env w w1
            /\ (closed1, cur_view w1 wr1) = (if rot then (closed ++ [cur_view w wr], []) else (closed, cur_view w wr))
            /\ List.map fst keys1 = (if rot then List.map fst keys ++ [ts] else List.map fst keys)
            /\ (forall st, roll_ok crit st roll -> roll_ok crit (if rot then wnow w else st) roll1)).
  { destruct rot eqn:Er.
    - destruct (mount_next_rotates_ts_t c crit e lo hi w wr keys closed ts roll false Hcfg T Y I Hhi Hmax)
        as [w1 [wr1 [roll1 [E [I1 [V1 [Z1 [S1 R1]]]]]]]]; [exact Er|].
      exists w1, wr1, roll1, (keys ++ [(ts, count ts keys)]), (closed ++ [cur_view w wr]). rewrite V1.
      split; [exact E|]. split; [exact I1|]. split; [exact Z1|]. split; [exact S1|]. split; [reflexivity|].
      split; [rewrite map_app; reflexivity | exact R1].
    - exists w, wr, roll, keys, closed. split.
      + unfold mount_next. cbn [mk_rs rs_roll orb]. unfold rot in Er. rewrite Er. reflexivity.
      + split; [exact I|]. split; [exact Hsz|]. split; [apply same_env_refl; apply I|]. split; [reflexivity|]. split; [reflexivity | auto]. }
  destruct M as [w1 [wr1 [roll1 [keys1 [closed1 [E [I1 [Z1 [S1 [V1 [K1 R1]]]]]]]]]]].
  rewrite E.
  destruct (w_write_quiet w1 wr1 b (ti_quiet _ _ _ _ _ _ _ _ I1) (ti_wr _ _ _ _ _ _ _ _ I1)) as [w2 [wr2 [fl [Ew [S2 [F2 [Ei [Ec [Ep Hok]]]]]]]]].
  rewrite Ew.
  destruct (tsinv_append c e lo w1 w2 wr1 wr2 keys1 closed1 _ fl I1 F2 S2 Ei Ec Hok) as [I2 C2].
  exists w2, wr2, (increase_size roll1 (N.of_nat (length b))), keys1, closed1.
  assert (V2 : cur_view w2 wr2 = cur_view w1 wr1 ++ b).
  { unfold cur_view. rewrite C2, <- !app_assoc, Ep. reflexivity. }
  split; [reflexivity|]. split; [exact I2|].
  split. { rewrite V2, app_length. apply roll_size_increase. exact Z1. }
  split; [eapply same_env_trans; eassumption|].
  split. { rewrite V2. destruct rot; injection V1 as -> ->; reflexivity. }
  split; [exact K1|].
  intros st Hst. apply roll_ok_increase. apply R1. exact Hst.
Qed.

(* ------------------------------------------------------------------ the first write: rCURRENT is born now *)
Lemma initialize_empty_ts_t c crit e lo w :
  tscfg c crit -> quiet w -> names (wfs w) = [] -> inodes (wfs w) = [] -> eoff c w = e -> (lo <= wnow w)%Z ->
  exists w' wr roll,
    initialize c w = (Ok (Active (Some (mk_rs (NSTs (wnow w) (Some cur_infix) std_fmt) roll)) wr (cname c)), w')
    /\ TsInv c e lo w' wr [] [] (wnow w) /\ cur_view w' wr = [] /\ roll_size_ok roll 0 /\ same_env w w'
    /\ roll_ok crit (wnow w) roll.
Proof.
  intros [Hrot [Hts [Hlink _]]] Q Hn Hi Hoff Hlo.
  unfold initialize. rewrite Hrot. unfold init_naming.
  assert (E0 : creation_ts_of_current c w cur_infix (negb (c_append c)) None std_fmt = (Ok (wnow w), w)).
  { unfold creation_ts_of_current. rewrite (name_of_fixed c w) by assumption. fold (nm c cur_infix) (cname c).
    assert (Eb : birth_or_now w (cname c) = wnow w).
    { unfold birth_or_now, file_of. rewrite lookup_empty by assumption. reflexivity. }
    rewrite Eb. destruct (negb (c_append c)); [|reflexivity].
    unfold collision_free. rewrite !tick_quiet by assumption. rewrite collision_free_infix_empty by assumption.
    pose proof (p_rename_quiet w (cname c) (name_of c w (Some (infix_from_ts c w std_fmt (wnow w)))) Q) as PR.
    rewrite rename_none in PR by (apply lookup_empty; assumption). rewrite PR, Eb. reflexivity. }
  rewrite E0. cbn [bind].
  unfold open_log_file. rewrite (name_of_fixed c w) by assumption. fold (nm c cur_infix) (cname c).
  unfold do_symlink. rewrite Hlink.
  assert (D1 : match file_of (wfs w) (cname c) with Some fl => fdir fl = false | None => True end).
  { unfold file_of. rewrite lookup_empty by assumption. exact Logic.I. }
  destruct (p_open_quiet w (cname c) (c_append c) Q D1) as [w2 [Eop [F2 S2]]]. rewrite Eop.
  assert (Eopen : (if c_append c then open_append (wfs w) (cname c) (wnow w) else open_trunc (wfs w) (cname c) 0%N (wnow w))
                  = create_file (wfs w) (cname c) 0%N (wnow w)).
  { destruct (c_append c); [apply open_append_fresh | apply open_trunc_fresh]; apply lookup_empty; assumption. }
  rewrite Eopen in *. clear Eopen. cbn [bind fst snd].
  unfold create_file in F2. cbn [fst snd] in F2. rewrite Hn, Hi in F2. cbn [length app] in F2.
  unfold create_file. cbn [snd]. rewrite Hi. cbn [length].
  set (wr := {| wino := 0; wpend := []; wcap := c_cap c |}).
  assert (Lc : lookup (wfs w2) (cname c) = Some 0) by (rewrite F2; unfold lookup; cbn; rewrite beq_refl; reflexivity).
  assert (Fo : file_of (wfs w2) (cname c) = Some (fresh_file (wnow w))) by (unfold file_of; rewrite Lc, F2; reflexivity).
  assert (RN : exists roll, roll_new w2 crit (c_append c) (cname c) = (Ok roll, w2) /\ roll_size_ok roll 0
               /\ roll_ok crit (wnow w) roll).
  { unfold roll_new, birth_or_now. destruct (c_append c).
    - rewrite tick_quiet by apply S2. rewrite Fo. cbn [fresh_file fdata fborn length].
      eexists. split; [reflexivity|]. split; destruct crit; cbn; rewrite ?Fo; cbn; auto.
    - rewrite Fo. cbn [fresh_file fborn]. eexists. split; [reflexivity|]. split; destruct crit; cbn; rewrite ?Fo; cbn; auto. }
  destruct RN as [roll [Ern [Z R]]]. rewrite Ern. cbn [bind].
  exists w2, wr, roll. split; [reflexivity|].
  split.
  { constructor.
    - apply S2.
    - rewrite F2. split.
      + intros a j. unfold lookup; cbn. destruct (beq (cname c) a); [|discriminate]. intros E; injection E as <-. lia.
      + intros a b j. unfold lookup; cbn. destruct (beq_spec (cname c) a), (beq_spec (cname c) b); try discriminate. congruence.
    - rewrite F2. unfold dir_names. cbn [names List.map fst]. constructor; [intros [] | constructor].
    - unfold eoff in *. destruct S2 as [_ [_ [-> _]]]. exact Hoff.
    - exact Lc.
    - rewrite F2. split; reflexivity.
    - reflexivity.
    - cbn [length]. intros i Hi'. lia.
    - intros n j. rewrite F2. unfold lookup; cbn. destruct (beq_spec (cname c) n); [auto | discriminate].
    - constructor.
    - intros k [].
    - destruct S2 as [_ [-> _]]. lia.
    - unfold wr_ok, wr. cbn. destruct (c_cap c); [lia | reflexivity].
    - reflexivity. }
  split. { unfold cur_view, content, inode. rewrite F2. reflexivity. }
  split; [exact Z|]. split; [exact S2 | exact R].
Qed.

(* ------------------------------------------------------------------ the invariant against the timed view *)
(* the roll state's `created` AND the naming state's time stamp are the start instant st of the current file; the seconds of
   the keys - the time stamps in the names of the closed files - are the start instants of the closed files, in order *)
Definition RelTsT (c : config) (crit : criterion) (e lo : Z) (n : nat) (x : sys) (v : tview) : Prop :=
  s_tl x = [] /\ wacts (s_w x) = 0 /\
  match v with
  | None => s_flw x = Some (new_flw c) /\ quiet (s_w x) /\ names (wfs (s_w x)) = [] /\ inodes (wfs (s_w x)) = []
            /\ eoff c (s_w x) = e /\ (lo <= wnow (s_w x))%Z
  | Some (cl, (st, cu)) =>
    exists keys wr roll, s_flw x = Some (st_ts c st roll wr)
      /\ TsInv c e lo (s_w x) wr keys (List.map snd cl) st
      /\ cur_view (s_w x) wr = cu /\ length (List.map snd cl) <= n
      /\ roll_size_ok roll (length cu) /\ roll_ok crit st roll
      /\ List.map fst keys = List.map fst cl
  end.

Lemma RelTsT_RelT c crit e lo n x v : RelTsT c crit e lo n x v -> TsRun.RelT c e lo n x (untime v).
Proof.
  intros [Ht [Ha R]]. split; [exact Ht|]. split; [exact Ha|].
  destruct v as [[cl [st cu]]|]; cbn [untime]; [|exact R].
  destruct R as [keys [wr [roll [Es [I [V [Hn _]]]]]]]. exists keys, wr, roll, st. auto.
Qed.

Lemma start_relTsT c crit t0 off : RelTsT c crit (ts_e c off) t0 0 (fst (step (sys0 t0 off) (OStart c))) None.
Proof. cbn. repeat split. cbn. lia. Qed.

(* what a write does, from either kind of state *)
Lemma write_relTsT c crit e lo hi n x v b :
  tscfg c crit -> tag_ok c -> years_ok e lo hi -> RelTsT c crit e lo n x v ->
  (wnow (s_w x) <= hi)%Z -> (N.of_nat n <= usize_max)%N ->
  exists s w' s', s_flw x = Some s /\ f_poisoned s = false /\
    write_buffer s (s_w x) b = (Ok tt, w', s', t_flag crit (woff (s_w x)) v (wnow (s_w x)))
    /\ RelTsT c crit e lo (S n) {| s_flw := Some s'; s_w := w'; s_tl := []; s_dead := s_dead x |}
              (t_step crit (woff (s_w x)) v (wnow (s_w x)) (OWrite b))
    /\ same_env (s_w x) w'.
Proof.
  intros Hcfg T Y [Ht [Ha R]] Hhi Hmax. destruct v as [[cl [st cu]]|].
  - destruct R as [keys [wr [roll [Es [I [V [Hn [Z [K Kf]]]]]]]]].
    rewrite <- V in Z.
    destruct (write_active_ts_t c crit e lo hi (s_w x) wr keys (List.map snd cl) st roll b Hcfg T Y I Hhi ltac:(lia) Z)
      as [w' [wr' [roll' [keys' [closed' [E [I' [Z' [S' [V' [K' R']]]]]]]]]]].
    assert (D : rotation_necessary (s_w x) roll = due crit (woff (s_w x)) st cu (wnow (s_w x))).
    { apply roll_decision; [exact K | rewrite <- V; exact Z]. }
    eexists (st_ts c st roll wr), w', _.
    split; [exact Es|]. split; [reflexivity|]. cbn [t_flag]. rewrite <- D. split; [exact E|].
    split; [|exact S'].
    split; [reflexivity|]. split; [cbn [s_w]; exact (same_env_acts _ _ S' Ha)|].
    cbn [t_step]. rewrite <- D. rewrite V in V'. specialize (R' st K).
    destruct (rotation_necessary (s_w x) roll); injection V' as -> V''; exists keys', wr', roll'; cbn [s_flw s_w].
    + rewrite !map_app. cbn [List.map snd fst].
      split; [reflexivity|]. split; [exact I'|]. split; [exact V''|].
      split; [rewrite app_length; cbn [length]; unfold tfile in *; lia|]. split; [rewrite <- V''; exact Z'|]. split; [exact R'|].
      rewrite K', Kf. reflexivity.
    + split; [reflexivity|]. split; [exact I'|]. split; [exact V''|]. split; [lia|].
      split; [rewrite <- V''; exact Z'|]. split; [exact R'|]. rewrite K'. exact Kf.
  - destruct R as [Es [Q [Hn [Hi [Hoff Hlo]]]]].
    destruct (initialize_empty_ts_t c crit e lo (s_w x) Hcfg Q Hn Hi Hoff Hlo) as [w1 [wr [roll [Ei [I [V [Z [S1 K]]]]]]]].
    assert (Hhi1 : (wnow w1 <= hi)%Z) by (rewrite (same_env_now _ _ S1); exact Hhi).
    assert (Z0 : roll_size_ok roll (length (cur_view w1 wr))) by (rewrite V; exact Z).
    destruct (write_active_ts_t c crit e lo hi w1 wr [] [] (wnow (s_w x)) roll b Hcfg T Y I Hhi1 ltac:(cbn [length]; lia) Z0)
      as [w' [wr' [roll' [keys' [closed' [E [I' [Z' [S' [V' [K' R']]]]]]]]]]].
    assert (D : rotation_necessary w1 roll = false).
    { rewrite (roll_decision crit w1 (wnow (s_w x)) roll [] K Z).
      destruct S1 as [_ [-> _]]. apply due_self. }
    rewrite D in *.
    eexists (new_flw c), w', _.
    split; [exact Es|]. split; [reflexivity|].
    split. { rewrite (write_buffer_init c (s_w x) b _ _ _ w1 Ei). exact E. }
    split; [|eapply same_env_trans; eassumption].
    split; [reflexivity|]. split; [cbn [s_w]; exact (same_env_acts _ _ (same_env_trans _ _ _ S1 S') Ha)|].
    cbn [t_step]. rewrite V in V'. cbn [app] in V'. injection V' as -> V''.
    exists keys', wr', roll'. cbn [s_flw s_w List.map length].
    split; [reflexivity|]. split; [exact I'|]. split; [exact V''|]. split; [lia|].
    split; [rewrite <- V''; exact Z'|]. split; [exact (R' _ K)|]. rewrite K'. reflexivity.
Qed.

Lemma step_sync_relTsT c crit e lo n x v o : tscfg c crit -> RelTsT c crit e lo n x v -> step x o = sync_step x o.
Proof. intros Hcfg R. exact (step_sync_rel_ts c crit e lo n x _ o Hcfg (RelTsT_RelT _ _ _ _ _ _ _ R)). Qed.

Lemma RelTsT_mono c crit e lo n x v : RelTsT c crit e lo n x v -> RelTsT c crit e lo (S n) x v.
Proof.
  intros [Ht [Ha R]]. split; [exact Ht|]. split; [exact Ha|]. destruct v as [[cl [st cu]]|]; [|exact R].
  destruct R as [keys [wr [roll [Es [I [V [Hn ZR]]]]]]]. exists keys, wr, roll.
  split; [exact Es|]. split; [exact I|]. split; [exact V|]. split; [lia | exact ZR].
Qed.

(* one basic operation *)
Lemma step_relTsT c crit e lo hi n x v o :
  tscfg c crit -> tag_ok c -> years_ok e lo hi -> RelTsT c crit e lo n x v -> basic_op o -> tick_ok o ->
  (wnow (s_w x) <= hi)%Z -> (N.of_nat n <= usize_max)%N ->
  let '(x', ob) := step x o in
  RelTsT c crit e lo (S n) x' (t_step crit (woff (s_w x)) v (wnow (s_w x)) o)
  /\ woff (s_w x') = woff (s_w x) /\ wnow (s_w x') = clock (wnow (s_w x)) o
  /\ (forall b, (o = OWrite b \/ o = OPlain b) -> ob = ObsRes 0 (t_flag crit (woff (s_w x)) v (wnow (s_w x)))).
Proof.
  intros Hcfg T Y R Hb Htk Hhi Hmax. rewrite (step_sync_relTsT c crit e lo n x v o Hcfg R).
  destruct o; try contradiction; cbn [sync_step clock].
  - (* OWrite *)
    destruct (write_relTsT c crit e lo hi n x v b Hcfg T Y R Hhi Hmax) as [s [w' [s' [Es [Hp [E [R' S']]]]]]].
    rewrite Es, Hp. rewrite (proj1 R). cbn [app]. rewrite E. cbn [s_w].
    split; [exact R'|]. split; [apply S'|]. split; [apply S'|]. intros b0 _. reflexivity.
  - (* OPlain *)
    destruct (write_relTsT c crit e lo hi n x v b Hcfg T Y R Hhi Hmax) as [s [w' [s' [Es [Hp [E [R' S']]]]]]].
    rewrite Es, Hp, E. cbn [code_of s_w]. rewrite (proj1 R).
    split; [exact R'|]. split; [apply S'|]. split; [apply S'|]. intros b0 _. reflexivity.
  - (* OFlush *)
    destruct R as [Ht [Ha R]]. destruct v as [[cl [st cu]]|].
    + destruct R as [keys [wr [roll [Es [I [V [Hn ZR]]]]]]]. rewrite Es. cbn [st_ts f_poisoned].
      destruct (flush_active_ts c e lo (s_w x) wr keys (List.map snd cl) st roll I) as [w' [wr' [E [I' [V' [P' S']]]]]].
      fold (st_ts c st roll wr). rewrite E. cbn [t_step s_w].
      split; [|split; [apply S' | split; [apply S' | intros b [H|H]; discriminate]]].
      split; [exact Ht|]. split; [exact (same_env_acts _ _ S' Ha)|]. exists keys, wr', roll. cbn [s_flw s_w].
      split; [reflexivity|]. split; [exact I'|]. split; [congruence|]. split; [lia | exact ZR].
    + destruct R as [Es R]. rewrite Es. cbn [new_flw f_poisoned flush_state f_inner t_step s_w].
      split; [|split; [reflexivity | split; [reflexivity | intros b [H|H]; discriminate]]].
      split; [exact Ht|]. split; [exact Ha|]. split; [reflexivity | exact R].
  - (* OTrigger *)
    destruct R as [Ht [Ha R]]. destruct v as [[cl [st cu]]|].
    + destruct R as [keys [wr [roll [Es [I [V [Hn [Z [K Kf]]]]]]]]]. rewrite Es. cbn [st_ts f_poisoned f_cfg f_inner].
      destruct (mount_next_rotates_ts_t c crit e lo hi (s_w x) wr keys (List.map snd cl) st roll true Hcfg T Y I Hhi ltac:(lia) eq_refl)
        as [w' [wr' [roll' [E [I' [V' [Z' [S' R']]]]]]]].
      rewrite E. cbn [t_step code_of with_inner f_cfg f_poisoned s_w].
      split; [|split; [apply S' | split; [apply S' | intros b [H|H]; discriminate]]].
      split; [exact Ht|]. split; [exact (same_env_acts _ _ S' Ha)|]. rewrite V in *.
      exists (keys ++ [(st, count st keys)]), wr', roll'. cbn [s_flw s_w].
      rewrite !map_app. cbn [List.map snd fst].
      split; [reflexivity|]. split; [exact I'|]. split; [exact V'|].
      split; [rewrite app_length; cbn [length]; unfold tfile in *; lia|]. split; [exact Z'|].
      split; [exact (R' _ K)|]. f_equal. exact Kf.
    + destruct R as [Es R]. rewrite Es. cbn [new_flw f_poisoned f_cfg f_inner mount_next with_inner t_step code_of s_w].
      split; [|split; [reflexivity | split; [reflexivity | intros b [H|H]; discriminate]]].
      split; [exact Ht|]. split; [exact Ha|]. split; [reflexivity | exact R].
  - (* OTick *)
    cbn [t_step s_w set_now woff wnow tick_ok] in *.
    split; [|split; [reflexivity | split; [reflexivity | intros b [H|H]; discriminate]]].
    destruct R as [Ht [Ha R]]. split; [exact Ht|]. split; [exact Ha|]. destruct v as [[cl [st cu]]|].
    + destruct R as [keys [wr [roll [Es [I [V [Hn ZR]]]]]]]. exists keys, wr, roll. cbn [s_flw s_w].
      split; [exact Es|]. split; [apply tsinv_tick; assumption|]. split; [exact V|]. split; [lia | exact ZR].
    + cbn [s_flw s_w]. destruct R as [Es [Q [Hn [Hi [Hoff Hlo]]]]]. repeat split; try assumption; try apply Q. cbn [set_now wnow]. lia.
  - (* OSnap *)
    cbn [t_step]. split; [apply RelTsT_mono; exact R|]. split; [reflexivity|]. split; [reflexivity | intros b [H|H]; discriminate].
Qed.

(* a whole run: the invariant, the clock, and every rotation flag *)
Lemma run_relTsT c crit e lo hi : tscfg c crit -> tag_ok c -> years_ok e lo hi ->
  forall ops x v n, RelTsT c crit e lo n x v -> Forall basic_op ops -> Forall tick_ok ops ->
  (wnow (s_w x) + elapsed ops <= hi)%Z -> (N.of_nat (n + length ops) <= usize_max)%N ->
  let off := woff (s_w x) in let t := wnow (s_w x) in
  RelTsT c crit e lo (n + length ops) (fst (run x ops)) (t_run crit off v t ops)
  /\ woff (s_w (fst (run x ops))) = off /\ wnow (s_w (fst (run x ops))) = clock_run t ops
  /\ (forall i o, nth_error ops i = Some o -> forall b, (o = OWrite b \/ o = OPlain b) ->
        nth_error (snd (run x ops)) i
        = Some (ObsRes 0 (t_flag crit off (t_run crit off v t (firstn i ops)) (clock_run t (firstn i ops))))).
Proof.
  intros Hcfg T Y. induction ops as [|o r IH]; intros x v n R Hb Htk Hhi Hmax; cbn zeta.
  - cbn [run fst snd length t_run]. rewrite Nat.add_0_r.
    split; [exact R|]. split; [reflexivity|]. split; [reflexivity|]. intros i o H. destruct i; discriminate.
  - cbn [run]. inversion Hb as [|o' r' Ho Hr]; subst. inversion Htk as [|o' r' Hto Htr]; subst.
    cbn [elapsed length] in *. pose proof (elapsed_nonneg r Htr) as Er.
    assert (Hdt : (0 <= dt_of o)%Z) by (destruct o; cbn [dt_of tick_ok] in *; lia).
    pose proof (step_relTsT c crit e lo hi n x v o Hcfg T Y R Ho Hto ltac:(lia) ltac:(lia)) as S. destruct (step x o) as [x1 ob] eqn:Est.
    destruct S as [R1 [O1 [N1 F1]]].
    assert (Hhi1 : (wnow (s_w x1) + elapsed r <= hi)%Z) by (rewrite N1, clock_dt; lia).
    specialize (IH x1 _ (S n) R1 Hr Htr Hhi1 ltac:(lia)). cbn zeta in IH. rewrite O1, N1 in IH.
    destruct (run x1 r) as [x2 obs] eqn:Er'. cbn [fst snd] in *.
    replace (n + S (length r)) with (S n + length r) by lia.
    destruct IH as [IH1 [IH2 [IH3 IH4]]].
    split; [exact IH1|]. split; [exact IH2|]. split; [exact IH3|].
    intros i o0 Hi b Hw. destruct i as [|i].
    + cbn in Hi. injection Hi as <-. cbn [nth_error firstn t_run clock_run fold_left]. f_equal. exact (F1 b Hw).
    + cbn [nth_error firstn t_run clock_run fold_left] in *. exact (IH4 i o0 Hi b Hw).
Qed.

(* ------------------------------------------------------------------ stop: what the reader finds, with the keys' seconds *)
Lemma stop_relTsT c crit e lo n x v : tscfg c crit -> RelTsT c crit e lo n x v ->
  let '(x', _) := step x OStop in
  match v with
  | None => names (wfs (s_w x')) = []
  | Some (cl, (st, cu)) =>
    exists keys, ts_view c e (wfs (s_w x')) keys (List.map snd cl) cu /\ keys_ok keys
                 /\ (forall k, In k keys -> (lo <= fst k <= st)%Z) /\ (lo <= st <= wnow (s_w x))%Z
                 /\ List.map fst keys = List.map fst cl
  end.
Proof.
  intros Hcfg R0. rewrite (step_sync_relTsT c crit e lo n x v OStop Hcfg R0). destruct R0 as [Ht [Ha R]]. cbn [sync_step].
  destruct v as [[cl [st cu]]|].
  - destruct R as [keys [wr [roll [Es [I [V [_ [_ [_ Kf]]]]]]]]]. rewrite Es. cbn [st_ts f_poisoned]. unfold drop_state.
    destruct (shutdown_active_ts c e lo (s_w x) wr keys (List.map snd cl) st roll I Ha) as [w1 [wr1 [E1 [I1 [V1 [P1 A1]]]]]].
    fold (st_ts c st roll wr). rewrite E1.
    destruct (shutdown_active_ts c e lo w1 wr1 keys (List.map snd cl) st roll I1 A1) as [w2 [wr2 [E2 [I2 [V2 [P2 A2]]]]]]. rewrite E2.
    cbn [st_ts f_inner s_w]. unfold w_drop.
    destruct (w_flush_quiet w2 wr2 (ti_quiet _ _ _ _ _ _ _ _ I2)) as [w3 [E3 [F3 S3]]]. rewrite E3. cbn [fst snd].
    rewrite P2, append_ino_nil_id in F3. rewrite F3.
    pose proof (ti_range _ _ _ _ _ _ _ _ I) as Hrg0. pose proof (ti_ts _ _ _ _ _ _ _ _ I) as Hts0.
    destruct I2 as [Q W Hnd Hoff Hc Hcp Hlen Hcl Hon Hko Hrg Htsr Hwr Hcap]. exists keys.
    split; [|split; [exact Hko | split; [exact Hrg0 | split; [exact Hts0 | exact Kf]]]].
    split; [exact Hlen|]. split.
    { intros i Hi. destruct (Hcl i Hi) as [j [Lj [Pj [Cj _]]]]. eauto. }
    split; [|split; [exact Hon | exact Hnd]].
    exists (wino wr2). split; [exact Hc|]. split; [exact Hcp|].
    unfold cur_view in *. rewrite P2, app_nil_r in V2. congruence.
  - destruct R as [Es [Q [Hn Hi]]]. rewrite Es. cbn [new_flw f_poisoned drop_state shutdown_state f_inner s_w]. exact Hn.
Qed.

(* ------------------------------------------------------------------ the view of a whole run *)
Definition ts_final (c : config) (t0 off : Z) (ops : list op) : fs :=
  wfs (s_w (fst (run (sys0 t0 off) (OStart c :: ops ++ [OStop])))).

Lemma run_view_ts_t c crit t0 off ops :
  tscfg c crit -> tag_ok c -> Forall basic_op ops -> Forall tick_ok ops ->
  (0 <= t0 + ts_e c off)%Z -> (t0 + elapsed ops + ts_e c off < sec_max)%Z -> (N.of_nat (length ops) <= usize_max)%N ->
  exists x0 ob0, step (sys0 t0 off) (OStart c) = (x0, ob0) /\
    match t_run crit off None t0 ops with
    | None => names (ts_final c t0 off ops) = []
    | Some (cl, (st, cu)) =>
      exists keys, ts_view c (ts_e c off) (ts_final c t0 off ops) keys (List.map snd cl) cu /\ keys_ok keys
                   /\ (forall k, In k keys -> (t0 <= fst k <= st)%Z) /\ (t0 <= st <= t0 + elapsed ops)%Z
                   /\ List.map fst keys = List.map fst cl
    end
    /\ (forall i o, nth_error ops i = Some o -> forall b, (o = OWrite b \/ o = OPlain b) ->
          nth_error (snd (run x0 ops)) i
          = Some (ObsRes 0 (t_flag crit off (t_run crit off None t0 (firstn i ops)) (clock_run t0 (firstn i ops))))).
Proof.
  intros Hcfg T Hb Htk Hlo Hhi Hmax. unfold ts_final. cbn [run]. destruct (step (sys0 t0 off) (OStart c)) as [x0 ob0] eqn:E0.
  exists x0, ob0. split; [reflexivity|].
  pose proof (start_relTsT c crit t0 off) as R0. pose proof (start_clock c t0 off) as [N0 O0].
  rewrite E0 in R0, N0, O0. cbn [fst] in R0, N0, O0.
  assert (Y : years_ok (ts_e c off) t0 (t0 + elapsed ops)) by (split; assumption).
  rewrite run_app.
  pose proof (run_relTsT c crit _ _ _ Hcfg T Y ops x0 None 0 R0 Hb Htk ltac:(lia) ltac:(cbn [Nat.add]; exact Hmax)) as [R1 [O1 [W1 F1]]].
  rewrite N0, O0 in *.
  destruct (run x0 ops) as [x1 obs1]. cbn [fst snd] in *.
  pose proof (stop_relTsT c crit _ _ _ x1 _ Hcfg R1) as S. cbn [run]. destruct (step x1 OStop) as [x2 ob2]. cbn [fst].
  split; [|exact F1].
  destruct (t_run crit off None t0 ops) as [[cl [st cu]]|]; [|exact S].
  destruct S as [keys [V [K [Rg [Rs Kf]]]]]. exists keys.
  split; [exact V|]. split; [exact K|]. split; [exact Rg|]. split; [|exact Kf].
  rewrite W1, clock_run_elapsed in Rs. exact Rs.
Qed.

(* ------------------------------------------------------------------ 1. the rotation flags *)
(* The flag observed for the i-th operation, a write at clock value t = t0 + the ticks before it, is the oracle's decision
   `rotate_due` on the state before it: the start instant and the content (disk + buffer) of rCURRENT, which is the last file of
   the oracle's partition of the history so far.  No file yet: no rotation.  The period is taken in LOCAL time (offset off)
   whether or not use_utc is set (use_utc concerns the text of the time stamp in the name only). *)
Theorem timestamps_age_flags c crit t0 off ops i o b :
  tscfg c crit -> tag_ok c -> Forall basic_op ops -> Forall tick_ok ops ->
  (0 <= t0 + ts_e c off)%Z -> (t0 + elapsed ops + ts_e c off < sec_max)%Z -> (N.of_nat (length ops) <= usize_max)%N ->
  nth_error ops i = Some o -> (o = OWrite b \/ o = OPlain b) ->
  nth_error (snd (run (sys0 t0 off) (OStart c :: ops))) (S i)
  = Some (ObsRes 0
      match last_opt (tpartition (age_of crit) (lim_of crit) off [] None (titems t0 (firstn i ops))) with
      | None => false
      | Some (start, content) => rotate_due (age_of crit) (lim_of crit) off start content (clock_run t0 (firstn i ops))
      end).
Proof.
  intros Hcfg T Hb Htk Hlo Hhi Hmax Hi Ho.
  destruct (run_view_ts_t c crit t0 off ops Hcfg T Hb Htk Hlo Hhi Hmax) as [x0 [ob0 [E0 [_ Hr]]]].
  cbn [run]. rewrite E0. destruct (run x0 ops) as [x1 obs1]. cbn [snd nth_error] in *. rewrite (Hr i o Hi b Ho). do 2 f_equal.
  pose proof (t_run_partition crit off (firstn i ops) None t0) as P. cbn [tcl tcu] in P. rewrite <- P, tfiles_last.
  unfold t_flag, tcu, due, age_of, lim_of. destruct (t_run crit off None t0 (firstn i ops)) as [[cl [st cu]]|]; reflexivity.
Qed.
Print Assumptions timestamps_age_flags.

(* the same for the pure age criterion, the decision spelled out: a write rotates exactly when it comes in another period
   than the one in which rCURRENT was started *)
Corollary timestamps_age_flags_age c a t0 off ops i o b :
  tscfg c (CAge a) -> tag_ok c -> Forall basic_op ops -> Forall tick_ok ops ->
  (0 <= t0 + ts_e c off)%Z -> (t0 + elapsed ops + ts_e c off < sec_max)%Z -> (N.of_nat (length ops) <= usize_max)%N ->
  nth_error ops i = Some o -> (o = OWrite b \/ o = OPlain b) ->
  nth_error (snd (run (sys0 t0 off) (OStart c :: ops))) (S i)
  = Some (ObsRes 0
      match last_opt (tpartition (Some a) None off [] None (titems t0 (firstn i ops))) with
      | None => false
      | Some (start, _) => negb (period_of a (start + off) =? period_of a (clock_run t0 (firstn i ops) + off))%Z
      end).
Proof.
  intros Hcfg T Hb Htk Hlo Hhi Hmax Hi Ho. rewrite (timestamps_age_flags c (CAge a) t0 off ops i o b Hcfg T Hb Htk Hlo Hhi Hmax Hi Ho).
  do 2 f_equal. cbn [age_of lim_of crit_parts fst snd]. destruct (last_opt _) as [[st cu]|]; [|reflexivity].
  unfold rotate_due. apply Bool.orb_false_r.
Qed.

Corollary timestamps_age_flags_age_or_size c a m t0 off ops i o b :
  tscfg c (CAgeOrSize a m) -> tag_ok c -> Forall basic_op ops -> Forall tick_ok ops ->
  (0 <= t0 + ts_e c off)%Z -> (t0 + elapsed ops + ts_e c off < sec_max)%Z -> (N.of_nat (length ops) <= usize_max)%N ->
  nth_error ops i = Some o -> (o = OWrite b \/ o = OPlain b) ->
  nth_error (snd (run (sys0 t0 off) (OStart c :: ops))) (S i)
  = Some (ObsRes 0
      match last_opt (tpartition (Some a) (Some m) off [] None (titems t0 (firstn i ops))) with
      | None => false
      | Some (start, content) =>
        negb (period_of a (start + off) =? period_of a (clock_run t0 (firstn i ops) + off))%Z
        || (m <? N.of_nat (length content))%N
      end).
Proof.
  intros Hcfg T Hb Htk Hlo Hhi Hmax Hi Ho. rewrite (timestamps_age_flags c (CAgeOrSize a m) t0 off ops i o b Hcfg T Hb Htk Hlo Hhi Hmax Hi Ho).
  reflexivity.
Qed.

(* ------------------------------------------------------------------ 2. the files *)
(* After the writer is stopped
   - either nothing was written: the oracle expects nothing, and the directory is empty;
   - or the oracle's files are  closed ++ [(st, cur)]  with: the directory consists exactly (ts_view) of the closed files, named
     by their keys r<second>[.restart-NNNN] in the order of their closing, with the contents of `closed`, and of rCURRENT with the
     content cur; and THE SECOND OF EACH KEY IS THE INSTANT AT WHICH THAT FILE WAS STARTED (List.map fst keys = List.map fst
     closed): the instant of its first record, or of the rotate() that created it - not the instant of its closing, which
     is the start instant of the next file.  rCURRENT was started at st. *)
Theorem timestamps_age_partition c crit t0 off ops :
  tscfg c crit -> tag_ok c -> Forall basic_op ops -> Forall tick_ok ops ->
  (0 <= t0 + ts_e c off)%Z -> (t0 + elapsed ops + ts_e c off < sec_max)%Z -> (N.of_nat (length ops) <= usize_max)%N ->
  let tf := tpartition (age_of crit) (lim_of crit) off [] None (titems t0 ops) in
  let f := wfs (s_w (fst (run (sys0 t0 off) (OStart c :: ops ++ [OStop])))) in
  (tf = [] /\ names f = [])
  \/ exists keys closed st cur,
       tf = closed ++ [(st, cur)]
       /\ ts_view c (ts_e c off) f keys (List.map snd closed) cur
       /\ List.map fst keys = List.map fst closed
       /\ keys_ok keys
       /\ (forall k, In k keys -> (t0 <= fst k <= st)%Z) /\ (t0 <= st <= t0 + elapsed ops)%Z.
Proof.
  intros Hcfg T Hb Htk Hlo Hhi Hmax tf f.
  destruct (run_view_ts_t c crit t0 off ops Hcfg T Hb Htk Hlo Hhi Hmax) as [x0 [ob0 [E0 [V _]]]].
  fold (ts_final c t0 off ops) in f. fold f in V.
  pose proof (t_run_partition crit off ops None t0) as P. cbn [tcl tcu] in P. fold tf in P.
  destruct (t_run crit off None t0 ops) as [[cl [st cu]]|]; cbn [tfiles] in P.
  - right. destruct V as [keys [V [K [Rg [Rs Kf]]]]]. exists keys, cl, st, cu. rewrite <- P. auto 10.
  - left. split; [symmetry; exact P | exact V].
Qed.
Print Assumptions timestamps_age_partition.

(* the reader (time stamp, then restart counter, rCURRENT last) finds these contents: the executable oracle of C09 accepts *)
Corollary timestamps_age_oracle c crit t0 off ops :
  tscfg c crit -> tag_ok c -> not_gz c -> Forall basic_op ops -> Forall tick_ok ops ->
  (0 <= t0 + ts_e c off)%Z -> (t0 + elapsed ops + ts_e c off < sec_max)%Z -> (N.of_nat (length ops) <= usize_max)%N ->
  oracle_C09_partition crit off None (titems t0 ops)
    (family_in_order c (snap_of (fst (run (sys0 t0 off) (OStart c :: ops ++ [OStop]))))) = true.
Proof.
  intros Hcfg T G Hb Htk Hlo Hhi Hmax.
  assert (E : family_in_order c (snap_of (fst (run (sys0 t0 off) (OStart c :: ops ++ [OStop]))))
              = List.map snd (tpartition (age_of crit) (lim_of crit) off [] None (titems t0 ops))).
  { destruct (timestamps_age_partition c crit t0 off ops Hcfg T Hb Htk Hlo Hhi Hmax) as [[Ef Hn]|[keys [cl [st [cu [Ef [V [_ [K [Rg Rs]]]]]]]]]];
      cbv zeta in *; rewrite Ef.
    - rewrite snap_of_list. unfold snap_list, dir_names. rewrite Hn. reflexivity.
    - assert (Y : years_ok (ts_e c off) t0 (t0 + elapsed ops)) by (split; assumption).
      assert (Rg' : forall k, In k keys -> (t0 <= fst k <= t0 + elapsed ops)%Z) by (intros k Ik; specialize (Rg k Ik); lia).
      pose proof (ts_reader_order c crit _ _ _ _ keys _ cu Hcfg G Y Rg' K V) as E. rewrite <- snap_of_list in E.
      rewrite E, map_app. reflexivity. }
  rewrite E. unfold oracle_C09_partition, age_of, lim_of. destruct (crit_parts crit) as [a lim]. apply list_beq2_refl.
Qed.
Print Assumptions timestamps_age_oracle.

(* ------------------------------------------------------------------ 3. the record-level view *)
(* whatever the criterion: a file not started by rotate() starts with, and at the instant of, its first record *)
Lemma r_step_starts crit off v t o :
  Forall starts_with_record (rfiles v) -> Forall starts_with_record (rfiles (r_step crit off v t o)).
Proof.
  intros H.
  assert (New : forall b, starts_with_record {| rstart := t; rtrig := false; rrecs := [(t, b)] |}).
  { intros b _. exists b, []. reflexivity. }
  assert (W : forall b, Forall starts_with_record (rfiles (r_step crit off v t (OWrite b)))).
  { intros b. cbn [r_step]. destruct v as [[cl cur]|]; [|constructor; [apply New | constructor]].
    cbn [rfiles] in H. apply Forall_app in H. destruct H as [Hcl Hcur].
    destruct (due crit off (rstart cur) (rbytes cur) t) eqn:D; cbn [rfiles].
    - apply Forall_app. split; [apply Forall_app; split; assumption|]. constructor; [apply New | constructor].
    - apply Forall_app. split; [exact Hcl|]. constructor; [|constructor].
      inversion Hcur as [|f l P2 _]; subst.
      intros Htr. cbn [rtrig rrecs rstart] in *. destruct (P2 Htr) as [b0 [rest E]]. rewrite E. exists b0, (rest ++ [(t, b)]). reflexivity. }
  destruct o; try exact H.
  - apply W.
  - exact (W b).
  - cbn [r_step]. destruct v as [[cl cur]|]; [|exact H]. cbn [rfiles] in *.
    apply Forall_app. split; [exact H|]. constructor; [|constructor]. intros Htr. discriminate Htr.
Qed.

Lemma r_run_starts crit off ops : forall v t,
  Forall starts_with_record (rfiles v) -> Forall starts_with_record (rfiles (r_run crit off v t ops)).
Proof. induction ops as [|o r IH]; intros v t H; [exact H|]. cbn [r_run]. apply IH. apply r_step_starts. exact H. Qed.

(* The record-level specification of NumAge.v (age_files: which record goes into which file, when each file was started and
   whether by rotate()) is independent of the naming.  For Timestamps naming the directory consists of these files - all but the
   last one closed, the last one rCURRENT -, and the second of the i-th key - the time stamp in the name of the i-th closed
   file - is the start instant of the i-th file. *)
Theorem timestamps_age_records c crit t0 off ops :
  tscfg c crit -> tag_ok c -> Forall basic_op ops -> Forall tick_ok ops ->
  (0 <= t0 + ts_e c off)%Z -> (t0 + elapsed ops + ts_e c off < sec_max)%Z -> (N.of_nat (length ops) <= usize_max)%N ->
  let fl := age_files crit off t0 ops in
  let f := wfs (s_w (fst (run (sys0 t0 off) (OStart c :: ops ++ [OStop])))) in
  ((fl = [] /\ names f = [])
   \/ exists keys cl cur,
        fl = cl ++ [cur]
        /\ ts_view c (ts_e c off) f keys (List.map rbytes cl) (rbytes cur)
        /\ List.map fst keys = List.map rstart cl
        /\ keys_ok keys
        /\ (forall k, In k keys -> (t0 <= fst k <= rstart cur)%Z) /\ (t0 <= rstart cur <= t0 + elapsed ops)%Z)
  /\ concat (List.map rrecs fl) = trecs t0 ops
  /\ (forall a, age_of crit = Some a -> forall g, In g fl -> one_period a off g)
  /\ (forall g, In g fl -> starts_with_record g)
  /\ trig_starts fl = trig_times false t0 ops
  /\ (forall i f1 f2, nth_error fl i = Some f1 -> nth_error fl (S i) = Some f2 -> was_due crit off f1 f2)
  /\ (forall i f1 f2, nth_error fl i = Some f1 -> nth_error fl (S i) = Some f2 -> start_le f1 f2).
Proof.
  intros Hcfg T Hb Htk Hlo Hhi Hmax fl f. unfold fl, age_files.
  split.
  { destruct (run_view_ts_t c crit t0 off ops Hcfg T Hb Htk Hlo Hhi Hmax) as [x0 [ob0 [E0 [V _]]]].
    fold (ts_final c t0 off ops) in f. fold f in V.
    change (@None (list tfile * tfile)) with (forget None) in V. rewrite <- r_run_forget in V.
    destruct (r_run crit off None t0 ops) as [[rcl rcur]|]; cbn [forget forget_file rfiles] in *.
    - right. destruct V as [keys [V [K [Rg [Rs Kf]]]]]. exists keys, rcl, rcur.
      rewrite !map_map in *. cbn [fst snd] in *.
      split; [reflexivity|]. split; [exact V|]. split; [exact Kf|]. split; [exact K|]. split; [exact Rg | exact Rs].
    - left. split; [reflexivity | exact V]. }
  split. { rewrite r_run_recs. reflexivity. }
  split. { intros a Ha g Hg. pose proof (r_run_files_ok crit a off ops Ha None t0 (Forall_nil _)) as X.
           rewrite Forall_forall in X. exact (proj1 (X g Hg)). }
  split. { apply Forall_forall. apply r_run_starts. constructor. }
  split. { rewrite r_run_trigs. reflexivity. }
  split. { apply chain_nth. apply r_run_chain. exact Logic.I. }
  apply chain_nth. apply r_run_mono; [exact Htk|]. split; exact Logic.I.
Qed.
Print Assumptions timestamps_age_records.

(* ------------------------------------------------------------------ 4. the names of the closed files *)
Lemma map_filter_eqb {A} (g : A -> Z) st (l : list A) :
  List.map g (filter (fun x => (g x =? st)%Z) l) = filter (fun z => (z =? st)%Z) (List.map g l).
Proof. induction l as [|x l IH]; [reflexivity|]. cbn [filter List.map]. destruct (g x =? st)%Z; cbn [List.map]; rewrite IH; reflexivity. Qed.

Lemma count_filter_fst t (l : list key) : count t l = length (filter (fun z => (z =? t)%Z) (List.map fst l)).
Proof.
  unfold count. induction l as [|k l IH]; [reflexivity|]. cbn [filter List.map].
  destruct (fst k =? t)%Z; cbn [length]; rewrite IH; reflexivity.
Qed.

Lemma nth_map_fst_eq {A} (g : A -> Z) (keys : list key) (l : list A) i x :
  List.map fst keys = List.map g l -> nth_error l i = Some x -> fst (nth i keys kd) = g x.
Proof.
  intros Kf Hi. assert (Hi' : i < length l) by (apply nth_error_Some; rewrite Hi; discriminate).
  pose proof (map_nth fst keys kd i) as X. rewrite Kf in X. etransitivity; [symmetry; exact X|].
  rewrite (nth_indep _ (fst kd) (g x)) by (rewrite map_length; exact Hi'). rewrite map_nth.
  rewrite (nth_error_nth l i _ Hi). reflexivity.
Qed.

(* THE TIME STAMP IN THE NAME OF A CLOSED FILE IS THE SECOND IN WHICH THE FILE WAS STARTED.
   Any criterion.  Let fi be the i-th file of the record-level specification and let it have a successor fnext (so fi has been
   closed: by the rotation that started fnext, at the instant rstart fnext).  Then the directory holds fi's bytes under the name
   whose time stamp is the text (local time, or UTC with use_utc: expected_ts_infix) of rstart fi - the instant at which
   rCURRENT was created for it, which is the instant of its first record unless rotate() started it - followed by
   .restart-NNNN when it is not the first file started in that second (NNNN + 1 = the number of earlier files started in the
   same second).  The instant of closing, rstart fnext, does not enter the name; it is not earlier than rstart fi. *)
Theorem timestamps_name_is_start c crit t0 off ops :
  tscfg c crit -> tag_ok c -> Forall basic_op ops -> Forall tick_ok ops ->
  (0 <= t0 + ts_e c off)%Z -> (t0 + elapsed ops + ts_e c off < sec_max)%Z -> (N.of_nat (length ops) <= usize_max)%N ->
  let fl := age_files crit off t0 ops in
  let f := wfs (s_w (fst (run (sys0 t0 off) (OStart c :: ops ++ [OStop])))) in
  forall i fi fnext, nth_error fl i = Some fi -> nth_error fl (S i) = Some fnext ->
    let pos := length (filter (fun g : rfile => Z.eqb (rstart g) (rstart fi)) (firstn i fl)) in
    (exists j, lookup f (nm c (expected_ts_infix (c_utc c) off std_fmt (rstart fi)
                               ++ match pos with O => [] | S k => restart_tag ++ pad_left 4 48%N (dec (N.of_nat k)) end)) = Some j
               /\ plain (inode f j) /\ content f j = rbytes fi)
    /\ (rtrig fi = false -> exists b rest, rrecs fi = (rstart fi, b) :: rest)
    /\ (rstart fi <= rstart fnext)%Z.
Proof.
  intros Hcfg T Hb Htk Hlo Hhi Hmax fl f i fi fnext Hi Hn pos.
  destruct (timestamps_age_records c crit t0 off ops Hcfg T Hb Htk Hlo Hhi Hmax) as [D [_ [_ [Hs [_ [_ Hle]]]]]].
  fold fl in D, Hs, Hle. fold f in D.
  split; [|split; [exact (Hs fi (nth_error_In _ _ Hi)) | exact (Hle i fi fnext Hi Hn)]].
  destruct D as [[Ef _]|[keys [cl [cur [Ef [V [Kf [K _]]]]]]]]; [rewrite Ef in Hi; destruct i; discriminate|].
  assert (Hil : i < length cl).
  { assert (X : S i < length fl) by (apply nth_error_Some; rewrite Hn; discriminate).
    rewrite Ef, app_length in X. cbn [length] in X. lia. }
  assert (Hic : nth_error cl i = Some fi) by (rewrite Ef, nth_error_app1 in Hi by exact Hil; exact Hi).
  assert (Efn : firstn i fl = firstn i cl).
  { rewrite Ef, firstn_app. replace (i - length cl) with 0 by lia. cbn [firstn]. apply app_nil_r. }
  destruct V as [Hl [Hcl _]]. rewrite map_length in Hl, Hcl.
  destruct (Hcl i Hil) as [j [Lj [Pj Cj]]].
  assert (Ed : nth i (List.map rbytes cl) [] = rbytes fi).
  { rewrite (nth_indep _ [] (rbytes fi)) by (rewrite map_length; exact Hil). rewrite map_nth.
    rewrite (nth_error_nth cl i _ Hic). reflexivity. }
  assert (Ek1 : fst (nth i keys kd) = rstart fi) by exact (nth_map_fst_eq rstart keys cl i fi Kf Hic).
  assert (Ek2 : snd (nth i keys kd) = pos).
  { rewrite (keys_position keys K i) by lia. rewrite Ek1, count_filter_fst. unfold pos. rewrite Efn.
    rewrite <- (map_length rstart (filter _ (firstn i cl))), (map_filter_eqb rstart), <- !firstn_map. do 3 f_equal. exact Kf. }
  exists j. split; [|split; [exact Pj | rewrite Cj; exact Ed]].
  rewrite <- Lj. f_equal. unfold kname. f_equal.
  destruct (nth i keys kd) as [t m]. cbn [fst snd] in Ek1, Ek2. subst t m. symmetry. apply infix_of_expected.
Qed.
Print Assumptions timestamps_name_is_start.

(* C09 for Timestamps naming with an age criterion, the headline: the time stamp in the name of a closed file is the instant at
   which the file was started, and it lies in the period (day / hour / minute / second of LOCAL time) of every record of the
   file; a file that was not started by rotate() starts with its first record, at that very instant; rCURRENT holds records of
   one period as well (that of its start) *)
Corollary timestamps_name_in_period c crit a t0 off ops :
  tscfg c crit -> tag_ok c -> Forall basic_op ops -> Forall tick_ok ops ->
  (0 <= t0 + ts_e c off)%Z -> (t0 + elapsed ops + ts_e c off < sec_max)%Z -> (N.of_nat (length ops) <= usize_max)%N ->
  age_of crit = Some a ->
  let fl := age_files crit off t0 ops in
  let f := wfs (s_w (fst (run (sys0 t0 off) (OStart c :: ops ++ [OStop])))) in
  (fl = [] /\ names f = [])
  \/ exists keys cl cur,
       fl = cl ++ [cur]
       /\ ts_view c (ts_e c off) f keys (List.map rbytes cl) (rbytes cur)
       /\ keys_ok keys
       /\ (forall i g, nth_error cl i = Some g ->
             fst (nth i keys kd) = rstart g
             /\ (forall t b, In (t, b) (rrecs g) -> period_of a (t + off) = period_of a (fst (nth i keys kd) + off))
             /\ (rtrig g = false -> exists b rest, rrecs g = (fst (nth i keys kd), b) :: rest))
       /\ (forall t b, In (t, b) (rrecs cur) -> period_of a (t + off) = period_of a (rstart cur + off)).
Proof.
  intros Hcfg T Hb Htk Hlo Hhi Hmax Ha fl f.
  destruct (timestamps_age_records c crit t0 off ops Hcfg T Hb Htk Hlo Hhi Hmax) as [D [_ [Hp [Hs _]]]].
  fold fl in D, Hp, Hs. fold f in D. specialize (Hp a Ha).
  destruct D as [D|[keys [cl [cur [Ef [V [Kf [K _]]]]]]]]; [left; exact D | right].
  exists keys, cl, cur. split; [exact Ef|]. split; [exact V|]. split; [exact K|].
  split.
  - intros i g Hi. assert (Ig : In g fl) by (rewrite Ef; apply in_or_app; left; exact (nth_error_In _ _ Hi)).
    rewrite (nth_map_fst_eq rstart keys cl i g Kf Hi). split; [reflexivity|]. split; [exact (Hp g Ig) | exact (Hs g Ig)].
  - apply Hp. rewrite Ef. apply in_or_app. right. left. reflexivity.
Qed.
Print Assumptions timestamps_name_in_period.

(* ------------------------------------------------------------------ examples (non-vacuity) *)
Import String.StringSyntax.
Open Scope string_scope.

(* Age::Minute, the history NumAge.minute_ops: the writer is started 59 s before the full minute, a record every 30 s -
   two records in minute 0, two in minute 1, one in minute 2 -, then rotate() and one more record in minute 2 *)
Definition tsa_c : config := ext_cfg (ex_sp "log") false (CAge AMinute) (Some 8%nat) false.
Lemma tsa_c_ok : tscfg tsa_c (CAge AMinute).
Proof. apply ext_cfg_ok. reflexivity. Qed.
Lemma tsa_c_tag_ok : tag_ok tsa_c.
Proof. apply tag_free_ok. split; vm_compute; reflexivity. Qed.
Lemma tsa_c_not_gz : not_gz tsa_c.
Proof. vm_compute. reflexivity. Qed.

(* the directory that the model computes, the flags, and what the oracle expects.  "ab" was started in second 1 and closed in
   second 61 (by the write of "c"): its name carries 00-00-01; "cd" was started in second 61 and closed in second 121: 00-01-01;
   "e" was started in second 121 and closed by rotate() in the same second: 00-02-01; "f" is in rCURRENT *)
Example ts_age_minute_dir :
  snap_of (fst (run (sys0 1 0) (OStart tsa_c :: minute_ops ++ [OStop])))
  = [ (bs "app_r1970-01-01_00-00-01.log", 0%N, bs "ab");
      (bs "app_r1970-01-01_00-01-01.log", 0%N, bs "cd");
      (bs "app_r1970-01-01_00-02-01.log", 0%N, bs "e");
      (bs "app_rCURRENT.log", 0%N, bs "f") ]
  /\ List.map rot_of (snd (run (sys0 1 0) (OStart tsa_c :: minute_ops)))
     = [false; false; false; false; false; true; false; false; false; false; true; false; false]
  /\ tpartition (Some AMinute) None 0 [] None (titems 1 minute_ops) = [(1%Z, bs "ab"); (61%Z, bs "cd"); (121%Z, bs "e"); (121%Z, bs "f")].
Proof. repeat split; vm_compute; reflexivity. Qed.

(* the theorems apply: their hypotheses can be met *)
Example ts_age_partition_instance :
  exists keys,
    ts_view tsa_c 0 (wfs (s_w (fst (run (sys0 1 0) (OStart tsa_c :: minute_ops ++ [OStop]))))) keys [bs "ab"; bs "cd"; bs "e"] (bs "f")
    /\ List.map fst keys = [1%Z; 61%Z; 121%Z]
    /\ keys_ok keys.
Proof.
  destruct (timestamps_age_partition tsa_c (CAge AMinute) 1 0 minute_ops tsa_c_ok tsa_c_tag_ok minute_ops_basic minute_ops_ticks)
    as [[Ef _]|[keys [cl [st [cu [Ef [V [Kf [K _]]]]]]]]].
  - change (0 <= 1)%Z. lia.
  - change (121 < sec_max)%Z. unfold sec_max. lia.
  - vm_compute. discriminate.
  - vm_compute in Ef. discriminate Ef.
  - cbv zeta in *.
    assert (E : tpartition (age_of (CAge AMinute)) (lim_of (CAge AMinute)) 0 [] None (titems 1 minute_ops)
                = [(1%Z, bs "ab"); (61%Z, bs "cd"); (121%Z, bs "e")] ++ [(121%Z, bs "f")]) by (vm_compute; reflexivity).
    rewrite E in Ef. apply app_inj_tail in Ef. destruct Ef as [<- Ec]. injection Ec as <- <-.
    exists keys. split; [exact V|]. split; [exact Kf | exact K].
Qed.

Example ts_age_flag_instance :
  nth_error (snd (run (sys0 1 0) (OStart tsa_c :: minute_ops))) 5 = Some (ObsRes 0 true).
Proof.
  rewrite (timestamps_age_flags_age tsa_c AMinute 1 0 minute_ops 4 (OWrite (bs "c")) (bs "c") tsa_c_ok tsa_c_tag_ok
             minute_ops_basic minute_ops_ticks).
  - vm_compute. reflexivity.
  - change (0 <= 1)%Z. lia.
  - change (121 < sec_max)%Z. unfold sec_max. lia.
  - vm_compute. discriminate.
  - reflexivity.
  - left. reflexivity.
Qed.

Example ts_age_oracle_instance :
  oracle_C09_partition (CAge AMinute) 0 None (titems 1 minute_ops)
    (family_in_order tsa_c (snap_of (fst (run (sys0 1 0) (OStart tsa_c :: minute_ops ++ [OStop]))))) = true.
Proof.
  apply (timestamps_age_oracle tsa_c (CAge AMinute) 1 0 minute_ops tsa_c_ok tsa_c_tag_ok tsa_c_not_gz minute_ops_basic minute_ops_ticks).
  - change (0 <= 1)%Z. lia.
  - change (121 < sec_max)%Z. unfold sec_max. lia.
  - vm_compute. discriminate.
Qed.

(* timestamps_name_is_start for the first file of this history: started in second 1 (its first record), closed in second 61 -
   it is found under the time stamp of second 1 *)
Example ts_name_is_start_instance :
  exists j, lookup (wfs (s_w (fst (run (sys0 1 0) (OStart tsa_c :: minute_ops ++ [OStop]))))) (bs "app_r1970-01-01_00-00-01.log") = Some j
            /\ plain (inode (wfs (s_w (fst (run (sys0 1 0) (OStart tsa_c :: minute_ops ++ [OStop]))))) j)
            /\ content (wfs (s_w (fst (run (sys0 1 0) (OStart tsa_c :: minute_ops ++ [OStop]))))) j = bs "ab".
Proof.
  pose proof (timestamps_name_is_start tsa_c (CAge AMinute) 1 0 minute_ops tsa_c_ok tsa_c_tag_ok minute_ops_basic minute_ops_ticks) as H.
  cbv zeta in H.
  specialize (H ltac:(change (0 <= 1)%Z; lia) ltac:(change (121 < sec_max)%Z; unfold sec_max; lia) ltac:(vm_compute; discriminate)
                0 {| rstart := 1; rtrig := false; rrecs := [(1%Z, bs "a"); (31%Z, bs "b")] |}
                {| rstart := 61; rtrig := false; rrecs := [(61%Z, bs "c"); (91%Z, bs "d")] |}
                ltac:(vm_compute; reflexivity) ltac:(vm_compute; reflexivity)).
  destruct H as [[j [L [P C]]] [_ Hle]]. exists j.
  split; [|split; [exact P | exact C]].
  rewrite <- L. f_equal.
Qed.

(* age-or-size, limit 1 byte: "ab" is closed by the write of "c" (size) in second 1; "cd" is started in second 1 as well and
   closed by the write of "e" in second 61 (another minute): its name carries the second of its START, 1 (hence the restart
   counter), not the second of its closing, 61 *)
Example ts_age_or_size_dir :
  snap_of (fst (run (sys0 1 0) (OStart (ext_cfg (ex_sp "log") false (CAgeOrSize AMinute 1) (Some 8%nat) false) ::
                                [OWrite (bs "ab"); OWrite (bs "c"); OWrite (bs "d"); OTick 60; OWrite (bs "e"); OStop])))
  = [ (bs "app_r1970-01-01_00-00-01.log", 0%N, bs "ab");
      (bs "app_r1970-01-01_00-00-01.restart-0000.log", 0%N, bs "cd");
      (bs "app_rCURRENT.log", 0%N, bs "e") ].
Proof. vm_compute. reflexivity. Qed.

(* use_utc with a zone offset that is not a multiple of the period (cf. TsdAge.tsd_age_utc_names_local_periods): the decision
   compares LOCAL periods, the name shows the start instant in UTC *)
Example ts_age_utc_names_local_periods :
  snap_of (fst (run (sys0 1700000000 1800) (OStart (ext_cfg (ex_sp "log") true (CAge AHour) None true) :: tsda_ops2 ++ [OStop])))
  = [ (bs "app_r2023-11-14_22-13-20.log", 0%N, bs "a"); (bs "app_rCURRENT.log", 0%N, bs "bc") ]
  /\ tpartition (Some AHour) None 1800 [] None (titems 1700000000 tsda_ops2) = [(1700000000%Z, bs "a"); (1700001800%Z, bs "bc")].
Proof. split; vm_compute; reflexivity. Qed.

(* outside the scope of the theorems (which start from the empty directory): a writer that is restarted finds an rCURRENT
   from an earlier period.  With append it continues rCURRENT: the time stamp of the naming state and the roll state's
   `created` are both the file's creation time read from the file system (creation_ts_of_current, roll_new: birth_or_now), not
   the instant of the restart - so the first write of the second writer, in minute 1, closes the file of minute 0 under the
   name of ITS start, second 1.  Without append the initialisation itself rotates rCURRENT, under the same name.  One period per
   file and "the name is the start" hold in both cases. *)
Example ts_restart_rcurrent_birth_time :
  snap_of (fst (run (sys0 1 0) [OStart (ext_cfg (ex_sp "log") true (CAge AMinute) None false); OWrite (bs "a"); OStop; OTick 60;
                                OStart (ext_cfg (ex_sp "log") true (CAge AMinute) None false); OWrite (bs "b"); OTick 1; OWrite (bs "c"); OStop]))
  = [ (bs "app_r1970-01-01_00-00-01.log", 0%N, bs "a"); (bs "app_rCURRENT.log", 0%N, bs "bc") ]
  /\ snap_of (fst (run (sys0 1 0) [OStart (ext_cfg (ex_sp "log") false (CAge AMinute) None false); OWrite (bs "a"); OStop; OTick 60;
                                   OStart (ext_cfg (ex_sp "log") false (CAge AMinute) None false); OWrite (bs "b"); OTick 1; OWrite (bs "c"); OStop]))
     = [ (bs "app_r1970-01-01_00-00-01.log", 0%N, bs "a"); (bs "app_rCURRENT.log", 0%N, bs "bc") ].
Proof. split; vm_compute; reflexivity. Qed.

(* THE HYPOTHESIS tick_ok IS NEEDED for this naming (unlike Numbers and NumbersDirect): when the clock is set back, the
   rotation decisions are still the oracle's ("another period": flags false, true, true) and every file still holds the
   records of one period under the name of its start - but the names no longer sort in the order of writing: "a" (started
   in second 61) is closed first, "b" (started in second 1) second, and the reader, who sorts by time stamp, finds b, a, c.
   The oracle, applied to what the reader finds, rejects; keys_ok (seconds non-decreasing) does not hold. *)
Definition tsa_back_ops : list op := [OWrite (bs "a"); OTick (-60); OWrite (bs "b"); OTick 60; OWrite (bs "c")].
Example ts_age_clock_set_back :
  snap_of (fst (run (sys0 61 0) (OStart tsa_c :: tsa_back_ops ++ [OStop])))
  = [ (bs "app_r1970-01-01_00-00-01.log", 0%N, bs "b");
      (bs "app_r1970-01-01_00-01-01.log", 0%N, bs "a");
      (bs "app_rCURRENT.log", 0%N, bs "c") ]
  /\ List.map rot_of (snd (run (sys0 61 0) (OStart tsa_c :: tsa_back_ops))) = [false; false; false; true; false; true]
  /\ tpartition (Some AMinute) None 0 [] None (titems 61 tsa_back_ops) = [(61%Z, bs "a"); (1%Z, bs "b"); (61%Z, bs "c")]
  /\ family_in_order tsa_c (snap_of (fst (run (sys0 61 0) (OStart tsa_c :: tsa_back_ops ++ [OStop])))) = [bs "b"; bs "a"; bs "c"]
  /\ oracle_C09_partition (CAge AMinute) 0 None (titems 61 tsa_back_ops)
       (family_in_order tsa_c (snap_of (fst (run (sys0 61 0) (OStart tsa_c :: tsa_back_ops ++ [OStop]))))) = false
  /\ ~ Forall tick_ok tsa_back_ops.
Proof.
  repeat split; try (vm_compute; reflexivity).
  intros H. inversion H as [|o1 r1 _ H1]; subst. inversion H1 as [|o2 r2 H2 _]; subst. cbn [tick_ok] in H2. lia.
Qed.
