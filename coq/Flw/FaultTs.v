(* C19 with rotation, Timestamps naming (rCURRENT): the model does what the specification FaultTsSpec.simts says - for EVERY
   fault oracle and EVERY list of records with clock advances (Timestamps naming, size criterion, direct mode, no
   cleanup, synchronous, no symlink, no start-time part in the name; both with and without append, use_utc either way;
   empty records included). *)
Require Import FL.Base.Bytes FL.Base.BytesFacts FL.Base.PathName FL.Fs.Fs FL.Fs.FsFacts FL.Time.Civil FL.Time.TsFormat
  FL.Names.FileSpec FL.Names.NamesFacts FL.Names.SortFacts FL.Flw.Model FL.Flw.ModelFacts FL.Flw.NumFs FL.Flw.NumInv FL.Flw.Run FL.Flw.RunFacts
  FL.Flw.NumRun FL.Flw.NumListing FL.Oracles.O_Flw FL.Flw.NumTheorems FL.Flw.NumRestart FL.Flw.KillFacts FL.Flw.NumKill
  FL.Flw.NumDInv FL.Flw.TsCal FL.Flw.TsTime FL.Flw.TsMono FL.Flw.TsNames FL.Flw.TsInv FL.Flw.TsRun FL.Flw.TsTheorems
  FL.Flw.TsdInv FL.Flw.TsdRun FL.Flw.TsdTheorems FL.Flw.TsdRestartInv FL.Flw.TsAsync
  FL.Flw.FaultFacts FL.Flw.FaultRotSpec FL.Flw.FaultRotation FL.Flw.FaultTsdSpec FL.Flw.FaultTsd FL.Flw.FaultTsSpec.
From Coq Require Import ZifyN ZifyNat ZifyBool.
Open Scope nat_scope.

Section Ts.
Variables (c : config) (m : N) (e lo hi : Z).
Hypothesis Hcfg : tscfg c (CSize m).
Hypothesis Hcap : c_cap c = None.
Hypothesis Htag : tag_ok c.
Hypothesis Hyears : years_ok e lo hi.

(* the state of an initialised writer: the path stays that of rCURRENT, also while the writer is on the renamed file *)
Definition actz (ts : Z) (cur : N) (wr : writer) : inner :=
  Active (Some (mk_rs (NSTs ts (Some cur_infix) std_fmt) (RSize m cur))) wr (cname c).

(* ---- the two listings of the collision-free infix ---- *)
Lemma collision_free_fwz q fl infix :
  collision_free c (fw q fl) infix =
    if fst (pop fl) then (Err, fw q (snd (pop fl)))
    else if fst (pop (snd (pop fl))) then (Err, fw q (snd (pop (snd (pop fl)))))
    else match collision_free_infix (woff q) (c_spec c) (fixed0 c) (wfs q) infix with
         | Some (Some i) => (Ok i, fw q (snd (pop (snd (pop fl)))))
         | Some None => (Err, fw q (snd (pop (snd (pop fl)))))
         | None => (Panic, fw q (snd (pop (snd (pop fl)))))
         end.
Proof.
  destruct Hcfg as [_ [Hts _]]. unfold collision_free. rewrite tick_fw. destruct (pop fl) as [f1 fl1]. cbn [fst snd].
  destruct f1; [reflexivity|]. rewrite tick_fw. destruct (pop fl1) as [f2 fl2]. cbn [fst snd].
  destruct f2; [reflexivity|]. rewrite (fixed_of_fixed0 c (fw q fl2) Hts). reflexivity.
Qed.

(* ---- the rotation check of one write, computed: infix is the collision-free infix for the time stamp of the naming
        state, o what the rename of rCURRENT finds ---- *)
Lemma mount_next_z_gen q fl ts cur wr infix o :
  quiet q -> wpend wr = [] -> eoff c q = e ->
  collision_free_infix (woff q) (c_spec c) (fixed0 c) (wfs q) (tsx e ts) = Some (Some infix) ->
  rename (wfs q) (cname c) (nm c infix) = o ->
  let q1 := match o with Some f1 => set_fs q f1 | None => q end in
  lookup (wfs q1) (cname c) = None ->
  let fl1 := snd (pop fl) in let fl2 := snd (pop fl1) in let fl3 := snd (pop fl2) in let fl4 := snd (pop fl3) in
  mount_next c (fw q fl) (actz ts cur wr) false =
    if (m <? cur)%N then
      if fst (pop fl) then (Err, fw q fl1, actz ts cur wr)
      else if fst (pop fl1) then (Err, fw q fl2, actz ts cur wr)
      else if fst (pop fl2) then (Err, fw q fl3, actz ts cur wr)
      else if fst (pop fl3) then (Err, fw q1 fl4, actz (wnow q) cur wr)
      else (Ok tt, fw (set_fs q1 (fst (create_file (wfs q1) (cname c) 0%N (wnow q)))) fl4,
            actz (wnow q) 0 {| wino := snd (create_file (wfs q1) (cname c) 0%N (wnow q)); wpend := []; wcap := c_cap c |})
    else (Ok tt, fw q fl, actz ts cur wr).
Proof.
  intros Q Hp Hoff Hcf Eo q1 L1 fl1 fl2 fl3 fl4. pose proof Hcfg as [Hrot [Hts [Hlink _]]].
  unfold mount_next, actz. cbn [mk_rs rs_roll rs_naming rs_cleanup rs_bg orb rotation_necessary]. unfold size_rotation_necessary.
  destruct (m <? cur)%N; [|reflexivity].
  unfold creation_ts_of_current. rewrite (name_of_fixed c (fw q fl)) by assumption. fold (nm c cur_infix) (cname c).
  rewrite infix_from_ts_tsx. change (eoff c (fw q fl)) with (eoff c q). rewrite Hoff.
  rewrite collision_free_fwz. unfold fl4, fl3, fl2, fl1.
  destruct (pop fl) as [f1 r1]. cbn [fst snd]. destruct f1; [reflexivity|].
  destruct (pop r1) as [f2 r2]. cbn [fst snd]. destruct f2; [reflexivity|].
  rewrite Hcf. rewrite (name_of_fixed c (fw q r2)) by assumption. fold (nm c infix).
  rewrite p_rename_fw by exact Q. rewrite Eo.
  destruct (pop r2) as [f3 r3]. cbn [fst snd]. destruct f3; [reflexivity|].
  assert (Q1 : quiet q1) by (unfold q1; destruct o; [apply quiet_set_fs|]; exact Q).
  assert (N1 : wnow q1 = wnow q) by (unfold q1; destruct o; reflexivity).
  assert (B : birth_or_now (fw q1 r3) (cname c) = wnow q).
  { unfold birth_or_now, file_of. change (wfs (fw q1 r3)) with (wfs q1). rewrite L1. exact N1. }
  assert (X :
    (let (r0, w2) := open_log_file c (fw q1 r3) (Some cur_infix) in
     match r0 with
     | Ok (wr', path') =>
       let '(okf, w2a, wra) := w_flush w2 wr in
       let '(rc, w4) := cleanup_or_queue c (w_drop (if okf then w2a else report EFlush w2a) wra) false KNever
                          (ns_filter (NSTs (wnow q) (Some cur_infix) std_fmt))
                          (if ns_writes_direct (NSTs (wnow q) (Some cur_infix) std_fmt) then Some path' else None) in
       (match rc with Ok _ => Ok tt | Err => Err | Panic => Panic end, w4,
        Active (Some {| rs_naming := NSTs (wnow q) (Some cur_infix) std_fmt;
                        rs_roll := reset_size_and_date (w_drop (if okf then w2a else report EFlush w2a) wra) (RSize m cur) path';
                        rs_cleanup := KNever; rs_bg := false |}) wr' path')
     | Err => (Err, w2, Active (Some {| rs_naming := NSTs (wnow q) (Some cur_infix) std_fmt; rs_roll := RSize m cur; rs_cleanup := KNever; rs_bg := false |}) wr (cname c))
     | Panic => (Panic, w2, Active (Some {| rs_naming := NSTs (wnow q) (Some cur_infix) std_fmt; rs_roll := RSize m cur; rs_cleanup := KNever; rs_bg := false |}) wr (cname c))
     end) =
    (if fst (pop r3)
     then (Err, fw q1 (snd (pop r3)), Active (Some (mk_rs (NSTs (wnow q) (Some cur_infix) std_fmt) (RSize m cur))) wr (cname c))
     else (Ok tt, fw (set_fs q1 (fst (create_file (wfs q1) (cname c) 0%N (wnow q)))) (snd (pop r3)),
           Active (Some (mk_rs (NSTs (wnow q) (Some cur_infix) std_fmt) (RSize m 0)))
                  {| wino := snd (create_file (wfs q1) (cname c) 0%N (wnow q)); wpend := []; wcap := c_cap c |} (cname c)))).
  { unfold open_log_file. rewrite (name_of_fixed c (fw q1 r3)) by assumption. fold (nm c cur_infix) (cname c).
    unfold do_symlink. rewrite Hlink. rewrite p_open_fw by exact Q1.
    destruct (pop r3) as [f4 r4]. cbn [fst snd]. destruct f4; [reflexivity|].
    unfold file_of at 1. rewrite L1.
    assert (Eopen : (if c_append c then open_append (wfs q1) (cname c) (wnow q1) else open_trunc (wfs q1) (cname c) 0%N (wnow q1))
                    = create_file (wfs q1) (cname c) 0%N (wnow q)).
    { rewrite N1. destruct (c_append c); [apply open_append_fresh | apply open_trunc_fresh]; exact L1. }
    rewrite Eopen. rewrite w_flush_nop by exact Hp. cbv beta iota zeta. rewrite w_drop_nop by reflexivity.
    unfold cleanup_or_queue. cbn [cleanup_impl reset_size_and_date]. reflexivity. }
  unfold q1 in B, X |- *. destruct o as [f1|]; cbn beta iota; rewrite B; exact X.
Qed.

(* ------------------------------------------------------------------ the two halves of a rotation *)
(* rCURRENT is renamed to the name of the key (ts, count ts keys): the directory is that of a writer that writes into the
   file of the last key (TsdInv) *)
Lemma tsinv_rename q wr keys closed ts :
  TsInv c e lo q wr keys closed ts -> (wnow q <= hi)%Z ->
  let knew := (ts, count ts keys) in
  exists f1, rename (wfs q) (cname c) (kname c e knew) = Some f1 /\ lookup f1 (cname c) = None /\
    forall q1, quiet q1 -> wfs q1 = f1 -> eoff c q1 = e -> wnow q1 = wnow q ->
      TsdInv c e lo q1 wr (keys ++ [knew]) closed /\ cur_view q1 wr = cur_view q wr.
Proof.
  intros I Hhi knew. pose proof I as [Q W Hnd Hoff Hc Hcp Hlen Hcl Hon Hko Hrg Htsr Hwr Hcp2].
  assert (Yk : forall k, In k keys -> in_years e (fst k)).
  { intros k Ik. apply (years_in e lo hi); [exact Hyears|]. specialize (Hrg k Ik). lia. }
  assert (Yts : in_years e ts) by (apply (years_in e lo hi); [exact Hyears | lia]).
  assert (Hnk : ~ In knew keys) by (intros Ik; apply (keys_count keys Hko) in Ik; lia).
  assert (Hne : cname c <> kname c e knew) by (intros E; exact (kname_not_cname c e knew Yts (eq_sym E))).
  destruct (rename_spec (wfs q) (cname c) (kname c e knew) (wino wr) Hne Hc) as [f1 [Er [Hino [Lt [Lc Lo]]]]].
  exists f1. split; [exact Er|]. split; [exact Lc|]. intros q1 Q1 F1 Hoff1 Hnow1.
  assert (Ein : forall j, inode (wfs q1) j = inode (wfs q) j) by (intros j; unfold inode; rewrite F1, Hino; reflexivity).
  assert (Hneq : forall i, i < length closed -> kname c e (nth i keys kd) <> kname c e knew).
  { intros i Hi E. apply kname_inj in E; [|apply Yk, nth_In; lia | exact Yts]. apply Hnk. rewrite <- E. apply nth_In. lia. }
  split.
  - constructor.
    + exact Q1.
    + rewrite F1. exact (wf_rename _ _ _ _ W Er).
    + rewrite F1. exact (rename_nodup _ _ _ _ Hnd Er).
    + exact Hoff1.
    + rewrite app_length, Hlen. cbn [length]. lia.
    + rewrite nth_snoc_last by exact Hlen. rewrite F1. exact Lt.
    + rewrite Ein. exact Hcp.
    + intros i Hi. destruct (Hcl i Hi) as [j [Lj [Pj [Cj Hj]]]]. exists j.
      rewrite (app_nth1 keys _ kd) by lia. rewrite F1, Lo; [|apply kname_not_cname, Yk, nth_In; lia | apply Hneq; exact Hi].
      split; [exact Lj|]. unfold content. rewrite <- F1, Ein. split; [exact Pj|]. split; [exact Cj | exact Hj].
    + intros n j L. rewrite F1 in L.
      destruct (beq_spec n (kname c e knew)) as [->|Hn2].
      * exists (length closed). split; [lia|]. rewrite nth_snoc_last by exact Hlen. reflexivity.
      * destruct (beq_spec n (cname c)) as [->|Hn1]; [rewrite Lc in L; discriminate|].
        rewrite Lo in L by assumption. destruct (Hon _ _ L) as [E|[i [Hi E]]]; [contradiction|].
        exists i. split; [lia|]. rewrite (app_nth1 keys _ kd) by lia. exact E.
    + apply ko_snoc; [exact Hko|]. intros k Ik. specialize (Hrg k Ik). lia.
    + rewrite Hnow1. intros k Ik. apply in_app_or in Ik. destruct Ik as [Ik|[<-|[]]].
      * specialize (Hrg k Ik). lia.
      * unfold knew. cbn [fst]. lia.
    + exact Hwr.
    + exact Hcp2.
  - unfold cur_view, content. rewrite Ein. reflexivity.
Qed.

Lemma tsdinv_no_cname q wr keys closed : TsdInv c e lo q wr keys closed -> (wnow q <= hi)%Z -> lookup (wfs q) (cname c) = None.
Proof.
  intros I Hhi. destruct (lookup (wfs q) (cname c)) as [j|] eqn:E; [exfalso | reflexivity].
  destruct (td_only _ _ _ _ _ _ _ I _ _ E) as [i [Hi E1]]. symmetry in E1. revert E1. apply kname_not_cname.
  apply (years_in e lo hi); [exact Hyears|]. pose proof (td_len _ _ _ _ _ _ _ I) as Hlen.
  pose proof (td_range _ _ _ _ _ _ _ I (nth i keys kd) ltac:(apply nth_In; lia)). lia.
Qed.

(* a new rCURRENT is created beside the files of the keys, the writer (nothing pending) leaves the file of the last key *)
Lemma tsdinv_create q wr keys closed :
  TsdInv c e lo q wr keys closed -> wpend wr = [] -> (wnow q <= hi)%Z ->
  forall q3, quiet q3 -> wfs q3 = fst (create_file (wfs q) (cname c) 0%N (wnow q)) -> eoff c q3 = e -> wnow q3 = wnow q ->
    let wr' := {| wino := snd (create_file (wfs q) (cname c) 0%N (wnow q)); wpend := []; wcap := c_cap c |} in
    TsInv c e lo q3 wr' keys (closed ++ [cur_view q wr]) (wnow q) /\ cur_view q3 wr' = [].
Proof.
  intros I Hp Hhi q3 Q3 F3 Hoff3 Hnow3 wr'.
  pose proof (tsdinv_no_cname q wr keys closed I Hhi) as Ht.
  pose proof I as [Q W Hnd Hoff Hlen Hc Hcp Hcl Hon Hko Hrg Hwr Hcp2].
  pose proof (tsdinv_now _ _ _ _ _ _ _ I) as Hlo.
  assert (Yk : forall k, In k keys -> in_years e (fst k)).
  { intros k Ik. apply (years_in e lo hi); [exact Hyears|]. specialize (Hrg k Ik). lia. }
  pose proof (wf_bound _ W _ _ Hc) as Hold.
  pose proof (direct_fs_spec (wfs q) (cname c) (wino wr) [] (wnow q) W Hold Ht) as R.
  cbn zeta in R. rewrite append_ino_nil_id in R. rewrite <- F3 in R.
  destruct R as [W3 [Hnew [L3t [L3o [Inew [Iold Ioth]]]]]].
  set (new := snd (create_file (wfs q) (cname c) 0%N (wnow q))) in *.
  assert (Elen : length (closed ++ [cur_view q wr]) = S (length closed)) by (rewrite app_length; cbn [length]; lia).
  assert (Hnc : forall i, i <= length closed -> kname c e (nth i keys kd) <> cname c).
  { intros i Hi. apply kname_not_cname, Yk, nth_In. lia. }
  split.
  - constructor.
    + exact Q3.
    + exact W3.
    + rewrite F3. apply create_nodup; [exact Hnd | exact Ht].
    + exact Hoff3.
    + exact L3t.
    + cbn [wr' wino]. rewrite Inew. split; reflexivity.
    + rewrite Elen. exact Hlen.
    + intros i Hi. rewrite Elen in Hi.
      destruct (Nat.eq_dec i (length closed)) as [->|Hne].
      * exists (wino wr). rewrite L3o by (apply Hnc; lia). split; [exact Hc|]. split; [rewrite Iold; exact Hcp|].
        split; [|cbn [wr' wino]; rewrite Hnew; lia].
        unfold content at 1. rewrite Iold. cbn [with_data fdata]. rewrite app_nth2, Nat.sub_diag by lia. cbn [nth].
        unfold cur_view. rewrite Hp. reflexivity.
      * assert (Hi' : i < length closed) by lia. destruct (Hcl i Hi') as [j [Lj [Pj [Cj Hj2]]]].
        exists j. rewrite L3o by (apply Hnc; lia). split; [exact Lj|].
        assert (Hj1 : j <> new). { pose proof (wf_bound _ W _ _ Lj). rewrite Hnew. lia. }
        unfold content. rewrite Ioth by assumption. split; [exact Pj|]. rewrite app_nth1 by assumption. split; [exact Cj | exact Hj1].
    + intros n j Hn. destruct (beq_spec n (cname c)) as [->|Hn1]; [left; reflexivity | right].
      rewrite L3o in Hn by assumption. destruct (Hon _ _ Hn) as [i [Hi E]]. exists i. rewrite Elen. split; [lia | exact E].
    + exact Hko.
    + exact Hrg.
    + rewrite Hnow3. lia.
    + unfold wr_ok, wr'. cbn. destruct (c_cap c); [lia | reflexivity].
    + reflexivity.
  - unfold cur_view. cbn [wr' wino wpend]. unfold content. rewrite Inew. reflexivity.
Qed.

(* ------------------------------------------------------------------ the writer and its file *)
(* on rCURRENT (old = false: the invariant of the fault-free development), or on the file that was rCURRENT and has been
   renamed to the name of the last key while no new rCURRENT could be created (old = true: the directory is that of a
   writer with TimestampsDirect naming) *)
Definition ZA (old : bool) (q : world) (wr : writer) (keys : list key) (closed : list bytes) (ts : Z) : Prop :=
  if old then TsdInv c e lo q wr keys closed /\ (lo <= ts <= wnow q)%Z else TsInv c e lo q wr keys closed ts.
Definition z_same (old : bool) (keys : list key) (closed : list bytes) (ts : Z) (d : bytes) : zst :=
  if old then ZOld keys closed ts d else ZCur keys closed ts d.

Lemma za_quiet old q wr keys closed ts : ZA old q wr keys closed ts -> quiet q.
Proof. destruct old; [intros [I _] | intros I]; apply I. Qed.
Lemma za_cap old q wr keys closed ts : ZA old q wr keys closed ts -> wcap wr = None.
Proof. destruct old; [intros [I _]; rewrite (td_cap _ _ _ _ _ _ _ I) | intros I; rewrite (ti_cap _ _ _ _ _ _ _ _ I)]; exact Hcap. Qed.
Lemma za_lo old q wr keys closed ts : ZA old q wr keys closed ts -> (lo <= wnow q)%Z.
Proof. destruct old; [intros [I _]; exact (tsdinv_now _ _ _ _ _ _ _ I) | intros I; pose proof (ti_ts _ _ _ _ _ _ _ _ I); lia]. Qed.
Lemma za_off old q wr keys closed ts : ZA old q wr keys closed ts -> eoff c q = e.
Proof. destruct old; [intros [I _] | intros I]; apply I. Qed.

Lemma eoff_woff q q' : woff q' = woff q -> eoff c q' = eoff c q.
Proof. intros H. unfold eoff. rewrite H. reflexivity. Qed.

Lemma za_env old q q' wr keys closed ts : ZA old q wr keys closed ts ->
  wfs q' = wfs q -> quiet q' -> wnow q' = wnow q -> woff q' = woff q -> ZA old q' wr keys closed ts.
Proof.
  destruct old; cbn [ZA].
  - intros [[Q W Hnd Hoff Hlen Hc Hcp Hcl Hon Hko Hrg Hwr Hca] T] F Q' N' O'. split; [|rewrite N'; exact T].
    constructor; try rewrite F; try assumption; [rewrite (eoff_woff _ _ O'); exact Hoff | rewrite N'; exact Hrg].
  - intros I F Q' N' O'. exact (TsRun.tsinv_env c e lo q q' wr keys closed ts I F Q' O' N').
Qed.

Lemma za_append old q q' wr keys closed ts x : ZA old q wr keys closed ts -> wpend wr = [] ->
  wfs q' = append_ino (wfs q) (wino wr) x -> quiet q' -> wnow q' = wnow q -> woff q' = woff q ->
  ZA old q' wr keys closed ts /\ cur_view q' wr = cur_view q wr ++ x.
Proof.
  intros A Hp F Q' N' O'. pose proof (za_quiet _ _ _ _ _ _ A) as Q.
  set (q2 := set_fs q (append_ino (wfs q) (wino wr) x)).
  assert (A2 : ZA old q2 wr keys closed ts /\ content (wfs q2) (wino wr) = content (wfs q) (wino wr) ++ x).
  { destruct old; cbn [ZA] in *.
    - destruct A as [I T].
      destruct (tsdinv_append c e lo q q2 wr wr keys closed x I eq_refl (same_env_set_fs q _ Q) eq_refl eq_refl (td_wr _ _ _ _ _ _ _ I)) as [I2 C2].
      split; [split; [exact I2 | exact T] | exact C2].
    - exact (tsinv_append c e lo q q2 wr wr keys closed ts x A eq_refl (same_env_set_fs q _ Q) eq_refl eq_refl (ti_wr _ _ _ _ _ _ _ _ A)). }
  destruct A2 as [A2 C2]. split; [apply (za_env old q2); [exact A2 | rewrite F; reflexivity | exact Q' | exact N' | exact O']|].
  unfold cur_view. rewrite Hp, !app_nil_r, F. exact C2.
Qed.

(* ---- the log call around write_buffer ---- *)
Lemma step_write_z x i b r w1 i1 rot :
  s_flw x = Some (flw_of c i) -> s_tl x = [] -> write_buffer (flw_of c i) (s_w x) b = (r, w1, flw_of c i1, rot) -> r <> Panic ->
  step x (OWrite b) = ({| s_flw := Some (flw_of c i1); s_w := match r with Err => report EWrite w1 | _ => w1 end; s_tl := []; s_dead := s_dead x |},
                       ObsRes 0 rot).
Proof.
  intros Es Ht E Hr. destruct Hcfg as [_ [Hts [_ Ha]]].
  rewrite (NumKill.step_sync_cfg x (OWrite b) (flw_of c i) Es Hts Ha). cbn [sync_step]. rewrite Es. cbn [flw_of f_poisoned].
  rewrite Ht. cbn [app]. fold (flw_of c i). rewrite E. destruct r; [reflexivity | reflexivity | contradiction].
Qed.

Lemma step_write_eq_z x x1 i i1 b :
  s_flw x = Some (flw_of c i) -> s_flw x1 = Some (flw_of c i1) -> s_tl x = [] -> s_tl x1 = [] -> s_dead x1 = s_dead x ->
  write_buffer (flw_of c i) (s_w x) b = write_buffer (flw_of c i1) (s_w x1) b ->
  step x (OWrite b) = step x1 (OWrite b).
Proof.
  intros Es Es1 Ht Ht1 Hd E. destruct Hcfg as [_ [Hts [_ Ha]]].
  rewrite (NumKill.step_sync_cfg x (OWrite b) (flw_of c i) Es Hts Ha), (NumKill.step_sync_cfg x1 (OWrite b) (flw_of c i1) Es1 Hts Ha).
  cbn [sync_step]. rewrite Es, Es1. cbn [flw_of f_poisoned]. rewrite Ht, Ht1, Hd. cbn [app].
  fold (flw_of c i) (flw_of c i1). rewrite E. reflexivity.
Qed.

(* ------------------------------------------------------------------ the invariant of the run *)
(* the directory while the writer is not initialised: empty, or the one empty rCURRENT born in second t0 (append; as the
   file of a writer wr0 that does not exist any more) *)
Definition InitDirZ (q : world) (created : option Z) : Prop :=
  match created with
  | None => names (wfs q) = [] /\ inodes (wfs q) = []
  | Some t0 => c_append c = true /\ exists wr0, TsInv c e lo q wr0 [] [] t0 /\ wpend wr0 = [] /\ cur_view q wr0 = []
                                                /\ fborn (inode (wfs q) (wino wr0)) = t0
  end.

(* n bounds the number of closed files *)
Definition ZFInv (x : sys) (st : zst) (errs : list ecode) (fl : list bool) (now : Z) (n : nat) : Prop :=
  exists q, s_w x = fw q fl /\ quiet q /\ wacts q = 0 /\ werrs q = errs /\ s_tl x = [] /\ wnow q = now /\ eoff c q = e /\ (lo <= now)%Z /\
  match st with
  | ZInit created => s_flw x = Some (flw_of c Initial) /\ InitDirZ q created
  | ZCur keys closed ts d =>
    exists wr, s_flw x = Some (flw_of c (actz ts (N.of_nat (length d)) wr))
      /\ ZA false q wr keys closed ts /\ wpend wr = [] /\ cur_view q wr = d /\ length closed <= n
  | ZOld keys closed ts d =>
    exists wr, s_flw x = Some (flw_of c (actz ts (N.of_nat (length d)) wr))
      /\ ZA true q wr keys closed ts /\ wpend wr = [] /\ cur_view q wr = d /\ length closed <= n
  end.

Lemma zfinv_same x old keys closed ts d errs fl q wr n :
  s_w x = fw q fl -> wacts q = 0 -> werrs q = errs -> s_tl x = [] ->
  s_flw x = Some (flw_of c (actz ts (N.of_nat (length d)) wr)) -> ZA old q wr keys closed ts -> wpend wr = [] ->
  cur_view q wr = d -> length closed <= n ->
  ZFInv x (z_same old keys closed ts d) errs fl (wnow q) n.
Proof.
  intros Ew Ha He Ht Es A Hp V Hn. exists q.
  split; [exact Ew|]. split; [exact (za_quiet _ _ _ _ _ _ A)|]. split; [exact Ha|]. split; [exact He|]. split; [exact Ht|].
  split; [reflexivity|]. split; [exact (za_off _ _ _ _ _ _ A)|]. split; [exact (za_lo _ _ _ _ _ _ A)|].
  destruct old; cbn [z_same]; exists wr; auto.
Qed.

(* the rotation check has been made (result r1, world q1, oracle fl1, writer wr1 on a file that holds d1): the write *)
Lemma tail_step_z x q fl ts cur wr r1 q1 fl1 old1 keys1 closed1 ts1 d1 wr1 errs1 b n1 :
  s_w x = fw q fl -> s_tl x = [] -> s_flw x = Some (flw_of c (actz ts cur wr)) ->
  mount_next c (fw q fl) (actz ts cur wr) false = (r1, fw q1 fl1, actz ts1 (N.of_nat (length d1)) wr1) ->
  r1 <> Panic -> wacts q1 = 0 -> werrs q1 = errs1 -> ZA old1 q1 wr1 keys1 closed1 ts1 -> wpend wr1 = [] ->
  cur_view q1 wr1 = d1 -> length closed1 <= n1 ->
  let '(d', e', fl2) := s_write d1 b fl1 in
  exists x' rot, step x (OWrite b) = (x', ObsRes 0 rot)
    /\ ZFInv x' (z_same old1 keys1 closed1 ts1 d') (errs1 ++ (match r1 with Err => [ELogFile] | _ => [] end) ++ e') fl2 (wnow q1) n1.
Proof.
  intros Ew Ht Es M Hr Ha1 He1 A1 Hp1 V1 Hn1. pose proof (za_quiet _ _ _ _ _ _ A1) as Q1.
  pose proof (za_cap _ _ _ _ _ _ A1) as Hc1.
  unfold actz in M.
  destruct (wb_active_gen c m q fl _ _ cur wr r1 q1 fl1 _ _ _ wr1 b M Hr Q1 Hc1) as [q3 [E [R3 F3]]].
  fold (actz ts cur wr) in E.
  unfold s_write. destruct (wr_pop b fl1) as [f fl2]. cbn [fst snd] in *.
  rewrite <- Ew in E. pose proof (step_write_z x _ b _ _ _ _ Es Ht E) as S.
  destruct f.
  - (* the write fails: reported by the handle *)
    eexists _, _. split; [apply S; discriminate|].
    destruct (report_reported EWrite q3 (proj1 R3)) as [R4 F4].
    pose proof (reported_trans _ _ _ _ _ R3 R4) as R.
    rewrite <- (reported_now _ _ _ R).
    apply (zfinv_same _ old1 keys1 closed1 ts1 d1 _ fl2 (report EWrite q3) wr1 n1); cbn [s_w s_tl s_flw].
    + apply report_fw. apply R3.
    + exact (reported_acts _ _ _ R Ha1).
    + rewrite (reported_errs _ _ _ _ R He1). reflexivity.
    + reflexivity.
    + reflexivity.
    + apply (za_env old1 q1); [exact A1 | rewrite F4; exact F3 | apply R | exact (reported_now _ _ _ R) | apply R].
    + exact Hp1.
    + unfold cur_view in *. rewrite F4, F3. exact V1.
    + exact Hn1.
  - eexists _, _. split; [apply S; discriminate|].
    destruct (za_append old1 q1 q3 wr1 keys1 closed1 ts1 b A1 Hp1 F3 (proj1 R3) (reported_now _ _ _ R3) ltac:(apply R3)) as [A3 V3].
    rewrite <- (reported_now _ _ _ R3).
    apply (zfinv_same _ old1 keys1 closed1 ts1 (d1 ++ b) _ fl2 q3 wr1 n1); cbn [s_w s_tl s_flw].
    + reflexivity.
    + exact (reported_acts _ _ _ R3 Ha1).
    + rewrite (reported_errs _ _ _ _ R3 He1), app_nil_r. reflexivity.
    + reflexivity.
    + rewrite app_length, Nat2N.inj_add. reflexivity.
    + exact A3.
    + exact Hp1.
    + rewrite V3, V1. reflexivity.
    + exact Hn1.
Qed.

(* one record on an initialised writer that is on rCURRENT *)
Lemma active_step_z x q fl errs ts keys closed d wr b n :
  s_w x = fw q fl -> wacts q = 0 -> werrs q = errs -> s_tl x = [] ->
  s_flw x = Some (flw_of c (actz ts (N.of_nat (length d)) wr)) ->
  TsInv c e lo q wr keys closed ts -> wpend wr = [] -> cur_view q wr = d -> length closed <= n ->
  (wnow q <= hi)%Z -> (N.of_nat (S n) <= usize_max)%N ->
  let '(st', e', fl') := z_active m (wnow q) keys closed ts d b fl in
  exists x' rot, step x (OWrite b) = (x', ObsRes 0 rot) /\ ZFInv x' st' (errs ++ e') fl' (wnow q) (S n).
Proof.
  intros Ew Ha He Ht Es I Hp V Hn Hhi Hmax.
  pose proof I as [Q W Hnd Hoff Hc Hcp Hlen Hcl Hon Hko Hrg Htsr Hwr Hcp2].
  assert (Yk : forall k, In k keys -> in_years e (fst k)).
  { intros k Ik. apply (years_in e lo hi); [exact Hyears|]. specialize (Hrg k Ik). lia. }
  assert (Yts : in_years e ts) by (apply (years_in e lo hi); [exact Hyears | lia]).
  set (knew := (ts, count ts keys)).
  assert (Hcf : collision_free_infix (woff q) (c_spec c) (fixed0 c) (wfs q) (tsx e ts) = Some (Some (infix_of e knew))).
  { apply (collision_free_infix_ts c e (woff q) (wfs q) keys ts (count ts keys) Htag Yts Yk (tsinv_dir _ _ _ _ _ _ _ _ I) (keys_count keys Hko ts)).
    pose proof (count_le_length ts keys). lia. }
  destruct (tsinv_rename q wr keys closed ts I Hhi) as [f1 [Er [Lc RI]]]. fold knew in Er, RI.
  pose proof (mount_next_z_gen q fl ts (N.of_nat (length d)) wr (infix_of e knew) (Some f1) Q Hp Hoff Hcf Er Lc) as M. cbv zeta in M.
  set (q1 := set_fs q f1) in *.
  assert (Q1 : quiet q1) by (apply quiet_set_fs; exact Q).
  destruct (RI q1 Q1 eq_refl Hoff eq_refl) as [Id Vd]. rewrite V in Vd.
  assert (Hn' : length closed <= S n) by lia.
  (* a failing step before the rename is done: the record goes into rCURRENT *)
  assert (Stay : forall fl0, mount_next c (fw q fl) (actz ts (N.of_nat (length d)) wr) false
                             = (Err, fw q fl0, actz ts (N.of_nat (length d)) wr) ->
            let '(st', e', fl') := (let '(d', e', fl') := s_write d b fl0 in (ZCur keys closed ts d', ELogFile :: e', fl')) in
            exists x' rot, step x (OWrite b) = (x', ObsRes 0 rot) /\ ZFInv x' st' (errs ++ e') fl' (wnow q) (S n)).
  { intros fl0 M0.
    pose proof (tail_step_z x q fl ts _ wr Err q fl0 false keys closed ts d wr errs b (S n) Ew Ht Es M0
                  (fun H => ltac:(discriminate H)) Ha He I Hp V Hn') as T0.
    destruct (s_write d b fl0) as [[d' e'] fl2]. exact T0. }
  unfold z_active. fold knew.
  destruct (m <? N.of_nat (length d))%N eqn:Em.
  - destruct (pop fl) as [p1 fl1]. cbn [fst snd] in M. destruct p1; [exact (Stay fl1 M)|].
    destruct (pop fl1) as [p2 fl2]. cbn [fst snd] in M. destruct p2; [exact (Stay fl2 M)|].
    destruct (pop fl2) as [p3 fl3]. cbn [fst snd] in M. destruct p3; [exact (Stay fl3 M)|].
    destruct (pop fl3) as [p4 fl4]. cbn [fst snd] in M. destruct p4.
    + (* renamed, but the new rCURRENT cannot be created: the record goes into the renamed file *)
      assert (A1 : ZA true q1 wr (keys ++ [knew]) closed (wnow q)) by (split; [exact Id | cbn [q1 set_fs wnow]; lia]).
      pose proof (tail_step_z x q fl ts _ wr Err q1 fl4 true (keys ++ [knew]) closed (wnow q) d wr errs b (S n) Ew Ht Es M
                    (fun H => ltac:(discriminate H)) Ha He A1 Hp Vd Hn') as T0.
      destruct (s_write d b fl4) as [[d' e'] fl5]. exact T0.
    + (* the rotation is completed *)
      set (q3 := set_fs q1 (fst (create_file (wfs q1) (cname c) 0%N (wnow q)))) in *.
      set (wr3 := {| wino := snd (create_file (wfs q1) (cname c) 0%N (wnow q)); wpend := []; wcap := c_cap c |}) in *.
      assert (Q3 : quiet q3) by (apply quiet_set_fs; exact Q1).
      destruct (tsdinv_create q1 wr (keys ++ [knew]) closed Id Hp Hhi q3 Q3 eq_refl Hoff eq_refl) as [I3 V3].
      rewrite Vd in I3. fold wr3 in I3, V3.
      change 0%N with (N.of_nat (length (@nil N))) in M.
      assert (Hn3 : length (closed ++ [d]) <= S n) by (rewrite app_length; cbn [length]; lia).
      pose proof (tail_step_z x q fl ts _ wr (Ok tt) q3 fl4 false (keys ++ [knew]) (closed ++ [d]) (wnow q) [] wr3 errs b (S n) Ew Ht Es M
                    (fun H => ltac:(discriminate H)) Ha He I3 eq_refl V3 Hn3) as T0.
      destruct (s_write [] b fl4) as [[d' e'] fl5]. exact T0.
  - pose proof (tail_step_z x q fl ts _ wr (Ok tt) q fl false keys closed ts d wr errs b (S n) Ew Ht Es M
                  (fun H => ltac:(discriminate H)) Ha He I Hp V Hn') as T0.
    destruct (s_write d b fl) as [[d' e'] fl1]. exact T0.
Qed.

(* one record on an initialised writer that is on the renamed file *)
Lemma active_step_zold x q fl errs ts keys closed d wr b n :
  s_w x = fw q fl -> wacts q = 0 -> werrs q = errs -> s_tl x = [] ->
  s_flw x = Some (flw_of c (actz ts (N.of_nat (length d)) wr)) ->
  TsdInv c e lo q wr keys closed -> (lo <= ts <= wnow q)%Z -> wpend wr = [] -> cur_view q wr = d -> length closed <= n ->
  (wnow q <= hi)%Z -> (N.of_nat (S n) <= usize_max)%N ->
  let '(st', e', fl') := z_old m (wnow q) keys closed ts d b fl in
  exists x' rot, step x (OWrite b) = (x', ObsRes 0 rot) /\ ZFInv x' st' (errs ++ e') fl' (wnow q) (S n).
Proof.
  intros Ew Ha He Ht Es I T Hp V Hn Hhi Hmax.
  pose proof I as [Q W Hnd Hoff Hlen Hc Hcp Hcl Hon Hko Hrg Hwr Hcp2].
  assert (Yk : forall k, In k keys -> in_years e (fst k)).
  { intros k Ik. apply (years_in e lo hi); [exact Hyears|]. specialize (Hrg k Ik). lia. }
  assert (Yts : in_years e ts) by (apply (years_in e lo hi); [exact Hyears | lia]).
  assert (Hcf : collision_free_infix (woff q) (c_spec c) (fixed0 c) (wfs q) (tsx e ts) = Some (Some (infix_of e (ts, count ts keys)))).
  { apply (collision_free_infix_ts c e (woff q) (wfs q) keys ts (count ts keys) Htag Yts Yk (tsdinv_dir _ _ _ _ _ _ _ I) (keys_count keys Hko ts)).
    pose proof (count_le_length ts keys). lia. }
  pose proof (tsdinv_no_cname q wr keys closed I Hhi) as Lc.
  pose proof (mount_next_z_gen q fl ts (N.of_nat (length d)) wr (infix_of e (ts, count ts keys)) None Q Hp Hoff Hcf
                (rename_none _ _ _ Lc) Lc) as M. cbv zeta in M.
  assert (Hn' : length closed <= S n) by lia.
  assert (Stay : forall fl0 t, (lo <= t <= wnow q)%Z ->
                             mount_next c (fw q fl) (actz ts (N.of_nat (length d)) wr) false
                             = (Err, fw q fl0, actz t (N.of_nat (length d)) wr) ->
            let '(st', e', fl') := (let '(d', e', fl') := s_write d b fl0 in (ZOld keys closed t d', ELogFile :: e', fl')) in
            exists x' rot, step x (OWrite b) = (x', ObsRes 0 rot) /\ ZFInv x' st' (errs ++ e') fl' (wnow q) (S n)).
  { intros fl0 t Tt M0.
    assert (A0 : ZA true q wr keys closed t) by (split; [exact I | exact Tt]).
    pose proof (tail_step_z x q fl ts _ wr Err q fl0 true keys closed t d wr errs b (S n) Ew Ht Es M0
                  (fun H => ltac:(discriminate H)) Ha He A0 Hp V Hn') as T0.
    destruct (s_write d b fl0) as [[d' e'] fl2]. exact T0. }
  pose proof (tsdinv_now _ _ _ _ _ _ _ I) as Hlo.
  unfold z_old.
  destruct (m <? N.of_nat (length d))%N eqn:Em.
  - destruct (pop fl) as [p1 fl1]. cbn [fst snd] in M. destruct p1; [exact (Stay fl1 ts T M)|].
    destruct (pop fl1) as [p2 fl2]. cbn [fst snd] in M. destruct p2; [exact (Stay fl2 ts T M)|].
    destruct (pop fl2) as [p3 fl3]. cbn [fst snd] in M. destruct p3; [exact (Stay fl3 ts T M)|].
    destruct (pop fl3) as [p4 fl4]. cbn [fst snd] in M. destruct p4; [exact (Stay fl4 (wnow q) ltac:(lia) M)|].
    (* the rotation is completed *)
    set (q3 := set_fs q (fst (create_file (wfs q) (cname c) 0%N (wnow q)))) in *.
    set (wr3 := {| wino := snd (create_file (wfs q) (cname c) 0%N (wnow q)); wpend := []; wcap := c_cap c |}) in *.
    assert (Q3 : quiet q3) by (apply quiet_set_fs; exact Q).
    destruct (tsdinv_create q wr keys closed I Hp Hhi q3 Q3 eq_refl Hoff eq_refl) as [I3 V3].
    rewrite V in I3. fold wr3 in I3, V3.
    change 0%N with (N.of_nat (length (@nil N))) in M.
    assert (Hn3 : length (closed ++ [d]) <= S n) by (rewrite app_length; cbn [length]; lia).
    pose proof (tail_step_z x q fl ts _ wr (Ok tt) q3 fl4 false keys (closed ++ [d]) (wnow q) [] wr3 errs b (S n) Ew Ht Es M
                  (fun H => ltac:(discriminate H)) Ha He I3 eq_refl V3 Hn3) as T0.
    destruct (s_write [] b fl4) as [[d' e'] fl5]. exact T0.
  - assert (A0 : ZA true q wr keys closed ts) by (split; [exact I | exact T]).
    pose proof (tail_step_z x q fl ts _ wr (Ok tt) q fl true keys closed ts d wr errs b (S n) Ew Ht Es M
                  (fun H => ltac:(discriminate H)) Ha He A0 Hp V Hn') as T0.
    destruct (s_write d b fl) as [[d' e'] fl1]. exact T0.
Qed.

(* ------------------------------------------------------------------ the initialisation *)
Lemma z_init_pops_nested app fl :
  z_init_pops app fl =
    let '(f1, fl1) := if app then (false, fl) else pop fl in
    if f1 then (Some false, fl1) else
    let '(f2, fl2) := if app then (false, fl1) else pop fl1 in
    if f2 then (Some false, fl2) else
    let '(f3, fl3) := if app then (false, fl2) else pop fl2 in
    if f3 then (Some false, fl3) else
    let '(f4, fl4) := pop fl3 in
    if f4 then (Some false, fl4) else
    let '(f5, fl5) := if app then pop fl4 else (false, fl4) in
    if f5 then (Some true, fl5) else (None, fl5).
Proof.
  unfold z_init_pops. destruct app; cbn [npops].
  - destruct (pop fl) as [f4 fl4]. destruct f4; [reflexivity|]. destruct (pop fl4) as [f5 fl5]. destruct f5; reflexivity.
  - destruct (pop fl) as [f1 fl1]. destruct f1; [reflexivity|].
    destruct (pop fl1) as [f2 fl2]. destruct f2; [reflexivity|].
    destruct (pop fl2) as [f3 fl3]. destruct f3; [reflexivity|].
    destruct (pop fl3) as [f4 fl4]. destruct f4; reflexivity.
Qed.

Lemma tsinv_first q2 f t born : quiet q2 -> names f = [] -> inodes f = [] ->
  wfs q2 = fst (create_file f (cname c) 0%N born) -> eoff c q2 = e -> (lo <= t <= wnow q2)%Z ->
  TsInv c e lo q2 {| wino := 0; wpend := []; wcap := c_cap c |} [] [] t
  /\ cur_view q2 {| wino := 0; wpend := []; wcap := c_cap c |} = []
  /\ lookup (wfs q2) (cname c) = Some 0 /\ inode (wfs q2) 0 = fresh_file born.
Proof.
  intros Q Hn Hi F2 Hoff Ht. unfold create_file in F2. cbn [fst] in F2. rewrite Hn, Hi in F2. cbn [length app] in F2.
  assert (Lc : lookup (wfs q2) (cname c) = Some 0) by (rewrite F2; unfold lookup; cbn; rewrite beq_refl; reflexivity).
  split; [|split; [|split]].
  - constructor; cbn [length nth wino wpend wcap].
    + exact Q.
    + rewrite F2. split.
      * intros a j. unfold lookup; cbn. destruct (beq (cname c) a); [|discriminate]. intros E; injection E as <-. lia.
      * intros a b j. unfold lookup; cbn. destruct (beq_spec (cname c) a), (beq_spec (cname c) b); try discriminate. congruence.
    + rewrite F2. unfold dir_names. cbn [names List.map fst]. constructor; [intros [] | constructor].
    + exact Hoff.
    + exact Lc.
    + rewrite F2. split; reflexivity.
    + reflexivity.
    + intros i Hi'. lia.
    + intros n j. rewrite F2. unfold lookup; cbn. destruct (beq_spec (cname c) n); [auto | discriminate].
    + constructor.
    + intros k [].
    + exact Ht.
    + unfold wr_ok. cbn. destruct (c_cap c); [lia | reflexivity].
    + reflexivity.
  - unfold cur_view, content, inode. rewrite F2. reflexivity.
  - exact Lc.
  - unfold inode. rewrite F2. reflexivity.
Qed.

(* the name part of the initialisation: the time stamp of the naming state *)
Lemma naming_z_fw q fl created :
  quiet q -> eoff c q = e -> InitDirZ q created ->
  init_naming c (fw q fl) NTimestamps =
    let '(f1, fl1) := if c_append c then (false, fl) else pop fl in
    if f1 then (Err, fw q fl1) else
    let '(f2, fl2) := if c_append c then (false, fl1) else pop fl1 in
    if f2 then (Err, fw q fl2) else
    let '(f3, fl3) := if c_append c then (false, fl2) else pop fl2 in
    if f3 then (Err, fw q fl3) else
    (Ok (NSTs (z_first (wnow q) created) (Some cur_infix) std_fmt, cur_infix), fw q fl3).
Proof.
  intros Q Hoff D. pose proof Hcfg as [Hrot [Hts [Hlink _]]].
  assert (B : forall fl0, birth_or_now (fw q fl0) (cname c) = z_first (wnow q) created).
  { intros fl0. unfold birth_or_now, file_of. change (wfs (fw q fl0)) with (wfs q). destruct created as [t0|]; cbn [InitDirZ z_first] in *.
    - destruct D as [_ [wr0 [I0 [_ [_ Hb]]]]]. rewrite (ti_cur _ _ _ _ _ _ _ _ I0). exact Hb.
    - destruct D as [Hn _]. rewrite lookup_empty by exact Hn. reflexivity. }
  unfold init_naming, creation_ts_of_current. rewrite (name_of_fixed c (fw q fl)) by assumption. fold (nm c cur_infix) (cname c).
  destruct (c_append c) eqn:Ha; cbn [negb].
  - rewrite B. reflexivity.
  - destruct created as [t0|]; [destruct D as [Ha' _]; congruence|]. cbn [InitDirZ z_first] in *. destruct D as [Hn Hi].
    rewrite collision_free_fwz.
    destruct (pop fl) as [f1 fl1]. cbn [fst snd]. destruct f1; [reflexivity|].
    destruct (pop fl1) as [f2 fl2]. cbn [fst snd]. destruct f2; [reflexivity|].
    rewrite collision_free_infix_empty by exact Hn.
    rewrite p_rename_fw by exact Q. rewrite rename_none by (apply lookup_empty; exact Hn).
    destruct (pop fl2) as [f3 fl3]. cbn [fst snd]. destruct f3; [reflexivity|].
    cbn [bind]. rewrite (B fl3). reflexivity.
Qed.

(* the open/create of rCURRENT by a writer that is being initialised *)
Lemma open_init_z q fl created :
  quiet q -> eoff c q = e -> (lo <= wnow q)%Z -> InitDirZ q created ->
  let t := z_first (wnow q) created in
  exists f2 ino,
    open_log_file c (fw q fl) (Some cur_infix)
    = (if fst (pop fl) then (Err, fw q (snd (pop fl)))
       else (Ok ({| wino := ino; wpend := []; wcap := c_cap c |}, cname c), fw (set_fs q f2) (snd (pop fl))))
    /\ TsInv c e lo (set_fs q f2) {| wino := ino; wpend := []; wcap := c_cap c |} [] [] t
    /\ cur_view (set_fs q f2) {| wino := ino; wpend := []; wcap := c_cap c |} = []
    /\ lookup f2 (cname c) = Some ino /\ fdata (inode f2 ino) = [] /\ fborn (inode f2 ino) = t.
Proof.
  intros Q Hoff Hlo D t. destruct Hcfg as [Hrot [Hts [Hlink _]]].
  unfold open_log_file. rewrite (name_of_fixed c (fw q fl)) by assumption. fold (nm c cur_infix) (cname c).
  unfold do_symlink. rewrite Hlink. rewrite p_open_fw by exact Q.
  destruct created as [t0|]; cbn [InitDirZ z_first] in *; unfold t in *; clear t.
  - destruct D as [Ha [wr0 [I0 [Hp0 [V0 Hb]]]]].
    pose proof (ti_cur _ _ _ _ _ _ _ _ I0) as Lc.
    pose proof (ti_curplain _ _ _ _ _ _ _ _ I0) as [_ Pd].
    assert (Ewr : {| wino := wino wr0; wpend := []; wcap := c_cap c |} = wr0).
    { pose proof (ti_cap _ _ _ _ _ _ _ _ I0) as Hc0. destruct wr0 as [i p k]. cbn [wino wpend wcap] in *. subst. reflexivity. }
    exists (wfs q), (wino wr0).
    split.
    { unfold file_of. rewrite Lc, Pd, Ha. unfold open_append. rewrite Lc. cbn [fst snd]. destruct (fst (pop fl)); reflexivity. }
    rewrite Ewr.
    split; [apply (TsRun.tsinv_env c e lo q); [exact I0 | reflexivity | apply quiet_set_fs; exact Q | reflexivity | reflexivity]|].
    split; [exact V0|]. split; [exact Lc|]. split; [|exact Hb].
    unfold cur_view in V0. rewrite Hp0, app_nil_r in V0. exact V0.
  - destruct D as [Hn Hi].
    pose proof (lookup_empty (wfs q) (cname c) Hn) as Lc.
    assert (Eopen : (if c_append c then open_append (wfs q) (cname c) (wnow q) else open_trunc (wfs q) (cname c) 0%N (wnow q))
                    = create_file (wfs q) (cname c) 0%N (wnow q)).
    { destruct (c_append c); [apply open_append_fresh | apply open_trunc_fresh]; exact Lc. }
    rewrite Eopen. unfold file_of at 1. rewrite Lc.
    set (q2 := set_fs q (fst (create_file (wfs q) (cname c) 0%N (wnow q)))).
    assert (Q2 : quiet q2) by (apply quiet_set_fs; exact Q).
    destruct (tsinv_first q2 (wfs q) (wnow q) (wnow q) Q2 Hn Hi eq_refl Hoff) as [I2 [V2 [L2 Fo]]]; [cbn [q2 set_fs wnow]; lia|].
    exists (fst (create_file (wfs q) (cname c) 0%N (wnow q))), 0.
    assert (Esnd : snd (create_file (wfs q) (cname c) 0%N (wnow q)) = 0)
      by (unfold create_file; cbn [snd]; rewrite Hi; reflexivity).
    split. { rewrite Esnd. destruct (fst (pop fl)); reflexivity. }
    split; [exact I2|]. split; [exact V2|]. split; [exact L2|]. change (wfs q2) with (fst (create_file (wfs q) (cname c) 0%N (wnow q))) in Fo.
    rewrite Fo. split; reflexivity.
Qed.

Lemma initialize_z_fw q fl created :
  quiet q -> eoff c q = e -> (lo <= wnow q)%Z -> InitDirZ q created ->
  let t := z_first (wnow q) created in
  match z_init_pops (c_append c) fl with
  | (Some k, fl') =>
    exists q', initialize c (fw q fl) = (Err, fw q' fl') /\ same_env q q'
      /\ InitDirZ q' (if k then Some t else created)
  | (None, fl') =>
    exists q' wr, initialize c (fw q fl) = (Ok (actz t 0 wr), fw q' fl') /\ same_env q q'
      /\ TsInv c e lo q' wr [] [] t /\ wpend wr = [] /\ cur_view q' wr = []
  end.
Proof.
  intros Q Hoff Hlo D t. pose proof Hcfg as [Hrot [Hts [Hlink _]]].
  assert (Fail : forall fl', exists q', (Err : res inner, fw q fl') = (Err, fw q' fl') /\ same_env q q' /\ InitDirZ q' created).
  { intros fl'. exists q. split; [reflexivity|]. split; [apply same_env_refl; exact Q | exact D]. }
  unfold initialize. rewrite Hrot. rewrite (naming_z_fw q fl created Q Hoff D). fold t.
  rewrite z_init_pops_nested.
  destruct (if c_append c then (false, fl) else pop fl) as [f1 fl1]. destruct f1; [cbn [bind]; apply Fail|].
  destruct (if c_append c then (false, fl1) else pop fl1) as [f2 fl2]. destruct f2; [cbn [bind]; apply Fail|].
  destruct (if c_append c then (false, fl2) else pop fl2) as [f3 fl3]. destruct f3; [cbn [bind]; apply Fail|].
  cbn [bind].
  destruct (open_init_z q fl3 created Q Hoff Hlo D) as [f2 [ino [Eop [I2 [V2 [L2 [Fd Fb]]]]]]]. fold t in I2, Fb.
  rewrite Eop. destruct (pop fl3) as [f4 fl4]. cbn [fst snd]. destruct f4; [cbn [bind]; apply Fail|]. cbn [bind].
  set (q2 := set_fs q f2) in *. assert (Q2 : quiet q2) by (apply quiet_set_fs; exact Q).
  assert (RN : roll_new (fw q2 fl4) (CSize m) (c_append c) (cname c)
               = (let '(f5, fl5) := if c_append c then pop fl4 else (false, fl4) in
                  if f5 then (Err, fw q2 fl5) else (Ok (RSize m 0), fw q2 fl5))).
  { unfold roll_new. destruct (c_append c); [|reflexivity]. rewrite tick_fw. destruct (pop fl4) as [f5 fl5]. cbn [fst snd].
    destruct f5; [reflexivity|]. change (wfs (fw q2 fl5)) with f2. unfold file_of. rewrite L2, Fd. reflexivity. }
  rewrite RN. clear RN.
  destruct (if c_append c then pop fl4 else (false, fl4)) as [f5 fl5] eqn:E5. destruct f5; cbn [bind].
  - (* the metadata call fails: rCURRENT has been created *)
    exists q2. split; [reflexivity|]. split; [apply same_env_set_fs; exact Q|].
    cbn [InitDirZ]. split; [destruct (c_append c); [reflexivity | discriminate E5]|].
    exists {| wino := ino; wpend := []; wcap := c_cap c |}. cbn [wino]. auto.
  - exists q2, {| wino := ino; wpend := []; wcap := c_cap c |}. split; [reflexivity|]. split; [apply same_env_set_fs; exact Q|].
    auto.
Qed.

(* one record on a writer that is not initialised *)
Lemma init_step_z x created errs fl b now n : ZFInv x (ZInit created) errs fl now n ->
  (now <= hi)%Z -> (N.of_nat (S n) <= usize_max)%N ->
  let '(st', e', fl') := z_init (c_append c) m now created b fl in
  exists x' rot, step x (OWrite b) = (x', ObsRes 0 rot) /\ ZFInv x' st' (errs ++ e') fl' now (S n).
Proof.
  intros [q [Ew [Q [Ha [He [Ht [Hnow [Hoff [Hlo [Es D]]]]]]]]]] Hhi Hmax. rewrite z_init_alt.
  pose proof (initialize_z_fw q fl created Q Hoff ltac:(lia) D) as IF. cbv zeta in IF. rewrite Hnow in IF.
  destruct (z_init_pops (c_append c) fl) as [[k|] fl'].
  - (* the initialisation fails: the record is lost, the handle reports it, the writer stays uninitialised *)
    destruct IF as [q' [Ei [S D']]].
    assert (E : write_buffer (flw_of c Initial) (s_w x) b = (Err, fw q' fl', flw_of c Initial, false)).
    { rewrite Ew. unfold write_buffer. cbn [flw_of f_cfg f_inner]. rewrite Ei. reflexivity. }
    eexists _, _. split; [apply (step_write_z x Initial b Err _ Initial false Es Ht E); discriminate|].
    destruct (report_reported EWrite q' (proj1 S)) as [R4 F4].
    pose proof (reported_trans _ _ _ _ _ (same_env_reported _ _ S) R4) as RR. cbn [app] in RR.
    exists (report EWrite q'). cbn [s_w s_tl s_flw].
    split; [apply report_fw; apply S|]. split; [apply R4|]. split; [exact (reported_acts _ _ _ RR Ha)|].
    split; [exact (reported_errs _ _ _ _ RR He)|]. split; [reflexivity|].
    split; [rewrite (reported_now _ _ _ RR); exact Hnow|]. split; [rewrite (reported_eoff c _ _ _ RR); exact Hoff|]. split; [exact Hlo|].
    split; [reflexivity|].
    (* the directory is that of q' *)
    assert (N4 : wnow (report EWrite q') = wnow q') by exact (reported_now _ _ _ R4).
    assert (O4 : woff (report EWrite q') = woff q') by apply R4.
    destruct (if k then Some (z_first now created) else created) as [t1|]; cbn [InitDirZ] in *.
    + destruct D' as [Ha' [wr0 [I0 [Hp0 [V0 Hb0]]]]]. split; [exact Ha'|]. exists wr0.
      split; [apply (TsRun.tsinv_env c e lo q'); [exact I0 | exact F4 | apply R4 | exact O4 | exact N4]|]. split; [exact Hp0|].
      unfold cur_view in *. rewrite F4. split; [exact V0 | exact Hb0].
    + rewrite F4. exact D'.
  - destruct IF as [q' [wr [Ei [S [A [Hp V]]]]]].
    set (t := z_first now created) in *.
    set (x1 := {| s_flw := Some (flw_of c (actz t 0 wr)); s_w := fw q' fl'; s_tl := []; s_dead := s_dead x |}).
    assert (E : step x (OWrite b) = step x1 (OWrite b)).
    { apply (step_write_eq_z x x1 Initial (actz t 0 wr) b Es eq_refl Ht eq_refl eq_refl). rewrite Ew. cbn [x1 s_w].
      exact (write_buffer_init c (fw q fl) b _ wr (cname c) (fw q' fl') Ei). }
    rewrite E.
    assert (Nq' : wnow q' = now) by (destruct S as [_ [H _]]; congruence).
    pose proof (active_step_z x1 q' fl' errs t [] [] [] wr b n eq_refl) as AS. rewrite Nq' in AS.
    apply AS.
    + exact (same_env_acts _ _ S Ha).
    + destruct S as [_ [_ [_ [H _]]]]. congruence.
    + reflexivity.
    + reflexivity.
    + exact A.
    + exact Hp.
    + exact V.
    + cbn [length]. lia.
    + exact Hhi.
    + exact Hmax.
Qed.

(* the clock advances *)
Lemma tick_step_z x st errs fl now n dt : ZFInv x st errs fl now n -> (0 <= dt)%Z ->
  exists x', step x (OTick dt) = (x', ObsRes 0 false) /\ ZFInv x' st errs fl (now + dt) n.
Proof.
  intros [q [Ew [Q [Ha [He [Ht [Hnow [Hoff [Hlo I]]]]]]]]] Hdt. destruct Hcfg as [_ [Hts [_ Has]]].
  assert (Es : exists s, s_flw x = Some s /\ f_cfg s = c).
  { destruct st as [created|keys closed ts d|keys closed ts d]; [destruct I as [Es _] | destruct I as [wr [Es _]] | destruct I as [wr [Es _]]];
      rewrite Es; eexists; split; reflexivity. }
  destruct Es as [s [Es Ec]].
  rewrite (NumKill.step_sync_cfg x (OTick dt) s Es) by (rewrite Ec; assumption). cbn [sync_step].
  eexists. split; [reflexivity|].
  exists (set_now q (wnow q + dt)%Z). cbn [s_w s_tl s_flw]. rewrite Ew.
  split; [reflexivity|]. split; [exact Q|]. split; [exact Ha|]. split; [exact He|]. split; [exact Ht|].
  split; [cbn [set_now wnow]; rewrite Hnow; reflexivity|]. split; [exact Hoff|]. split; [lia|].
  destruct st as [created|keys closed ts d|keys closed ts d].
  - destruct I as [Es' D]. split; [exact Es'|]. destruct created as [t0|]; cbn [InitDirZ] in *; [|exact D].
    destruct D as [Ha' [wr0 [I0 [Hp0 [V0 Hb0]]]]]. split; [exact Ha'|]. exists wr0.
    split; [apply tsinv_tick; assumption|]. split; [exact Hp0|]. split; [exact V0 | exact Hb0].
  - destruct I as [wr [Es' [A [Hp [V Hn]]]]]. exists wr. split; [exact Es'|].
    split; [cbn [ZA] in *; apply tsinv_tick; assumption|]. split; [exact Hp|]. split; [exact V | exact Hn].
  - destruct I as [wr [Es' [[A T] [Hp [V Hn]]]]]. exists wr. split; [exact Es'|].
    split; [split; [apply tsdinv_tick; assumption | cbn [set_now wnow]; lia]|]. split; [exact Hp|]. split; [exact V | exact Hn].
Qed.

(* one record: the clock advances, then the record is logged *)
Theorem zfstep x st errs fl now n r : ZFInv x st errs fl now n ->
  (0 <= fst r)%Z -> (now + fst r <= hi)%Z -> (N.of_nat (S n) <= usize_max)%N ->
  let '(st', e', fl') := zstep (c_append c) m now st fl r in
  exists x' rot, run x (tops [r]) = (x', [ObsRes 0 false; ObsRes 0 rot]) /\ ZFInv x' st' (errs ++ e') fl' (now + fst r) (S n).
Proof.
  intros I Hdt Hhi Hmax. destruct (tick_step_z x st errs fl now n (fst r) I Hdt) as [x1 [S1 I1]].
  assert (W : let '(st', e', fl') := zstep (c_append c) m now st fl r in
              exists x' rot, step x1 (OWrite (snd r)) = (x', ObsRes 0 rot) /\ ZFInv x' st' (errs ++ e') fl' (now + fst r) (S n)).
  { destruct st as [created|keys closed ts d|keys closed ts d]; cbn [zstep].
    - apply (init_step_z x1 created errs fl (snd r) (now + fst r)%Z n I1 Hhi Hmax).
    - destruct I1 as [q [Ew [Q [Ha [He [Ht [Hnow [Hoff [Hlo [wr [Es [A [Hp [V Hn]]]]]]]]]]]]]]. cbn [ZA] in A.
      pose proof (active_step_z x1 q fl errs ts keys closed d wr (snd r) n Ew Ha He Ht Es A Hp V Hn) as AS.
      rewrite Hnow in AS. apply AS; assumption.
    - destruct I1 as [q [Ew [Q [Ha [He [Ht [Hnow [Hoff [Hlo [wr [Es [[A T] [Hp [V Hn]]]]]]]]]]]]]].
      pose proof (active_step_zold x1 q fl errs ts keys closed d wr (snd r) n Ew Ha He Ht Es A T Hp V Hn) as AS.
      rewrite Hnow in AS. apply AS; assumption. }
  destruct (zstep (c_append c) m now st fl r) as [[st' e'] fl']. destruct W as [x' [rot [S2 I2]]].
  exists x', rot. split; [|exact I2].
  cbn [tops flat_map app run]. rewrite S1, S2. reflexivity.
Qed.

Theorem zfrun : forall recs x st errs fl now n, ZFInv x st errs fl now n ->
  ticks_ok recs -> (now + telapsed recs <= hi)%Z -> (N.of_nat (n + length recs) <= usize_max)%N ->
  let '(st', e', fl') := simts_st (c_append c) m now st fl recs in
  exists x' obs, run x (tops recs) = (x', obs) /\ ZFInv x' st' (errs ++ e') fl' (now + telapsed recs) (n + length recs)
    /\ Forall obs_normal_t obs.
Proof.
  induction recs as [|r rest IH]; intros x st errs fl now n I Ht Hhi Hmax; cbn [simts_st telapsed length].
  - exists x, []. rewrite app_nil_r, Z.add_0_r, Nat.add_0_r. split; [reflexivity|]. split; [exact I | constructor].
  - inversion Ht as [|r' rest' Hr Hrest]; subst. pose proof (telapsed_nonneg rest Hrest) as Hnn.
    cbn [telapsed length] in Hhi, Hmax.
    pose proof (zfstep x st errs fl now n r I Hr ltac:(lia) ltac:(lia)) as S.
    destruct (zstep (c_append c) m now st fl r) as [[st1 e1] fl1].
    destruct S as [x1 [rot [S1 I1]]].
    specialize (IH x1 st1 (errs ++ e1) fl1 (now + fst r)%Z (S n) I1 Hrest ltac:(lia) ltac:(lia)).
    destruct (simts_st (c_append c) m (now + fst r) st1 fl1 rest) as [[st2 e2] fl2]. destruct IH as [x2 [obs [R [I2 O]]]].
    exists x2, (ObsRes 0 false :: ObsRes 0 rot :: obs).
    change (tops (r :: rest)) with (tops [r] ++ tops rest). rewrite run_app, S1. cbn [fst snd]. rewrite R. cbn [fst snd app].
    split; [reflexivity|]. split.
    + rewrite app_assoc, Z.add_assoc. replace (n + S (length rest)) with (S n + length rest) by lia. exact I2.
    + constructor; [exists false; reflexivity|]. constructor; [exists rot; reflexivity | exact O].
Qed.

(* ------------------------------------------------------------------ what the invariant says about the world *)
(* the directory: the plain files named by the keys, with the contents listed, and - if there is one - rCURRENT; nothing else *)
Definition ts_view_opt (f : fs) (keys : list key) (conts : list bytes) (ocur : option bytes) : Prop :=
  match ocur with Some d => ts_view c e f keys conts d | None => tsd_view c e f keys conts end.

(* the time stamp of the naming state *)
Definition ns_ts_of (x : sys) : option Z :=
  match s_flw x with
  | Some s => match f_inner s with
              | Active (Some rs) _ _ => match rs_naming rs with NSTs ts _ _ => Some ts | _ => None end
              | _ => None end
  | None => None
  end.

Lemma tsinv_view q wr keys closed ts : TsInv c e lo q wr keys closed ts -> wpend wr = [] ->
  ts_view c e (wfs q) keys closed (cur_view q wr).
Proof.
  intros [Q W Hnd Hoff Hc Hcp Hlen Hcl Hon Hko Hrg Htsr Hwr Hcp2] P.
  split; [exact Hlen|]. split.
  { intros i Hi. destruct (Hcl i Hi) as [j [Lj [Pj [Cj _]]]]. eauto. }
  split; [|split; [exact Hon | exact Hnd]].
  exists (wino wr). split; [exact Hc|]. split; [exact Hcp|]. unfold cur_view. rewrite P, app_nil_r. reflexivity.
Qed.

Lemma zfinv_final x st errs fl now n : ZFInv x st errs fl now n ->
  fs_wf (wfs (s_w x)) /\ ts_view_opt (wfs (s_w x)) (z_keys st) (z_closed st) (z_cur st)
  /\ werrs (s_w x) = errs /\ wfaults (s_w x) = fl /\ wkill (s_w x) = None /\ ns_ts_of x = z_ts st.
Proof.
  intros [q [Ew [Q [Ha [He [Ht [Hnow [Hoff [Hlo I]]]]]]]]]. rewrite Ew. cbn [fw set_faults wfs werrs wfaults wkill].
  assert (V : fs_wf (wfs q) /\ ts_view_opt (wfs q) (z_keys st) (z_closed st) (z_cur st) /\ ns_ts_of x = z_ts st).
  { destruct st as [[t0|]|keys closed ts d|keys closed ts d]; cbn [z_keys z_closed z_cur z_ts ts_view_opt].
    - destruct I as [Es [_ [wr0 [I0 [Hp0 [V0 _]]]]]]. split; [apply I0|].
      pose proof (tsinv_view q wr0 _ _ _ I0 Hp0) as TV. rewrite V0 in TV. split; [exact TV|]. unfold ns_ts_of. rewrite Es. reflexivity.
    - destruct I as [Es [Hn _]]. split; [apply names_nil_wf; exact Hn|]. split; [apply tsd_view_nil; auto|]. unfold ns_ts_of. rewrite Es. reflexivity.
    - destruct I as [wr [Es [A [Hp [V _]]]]]. cbn [ZA] in A. split; [apply A|].
      pose proof (tsinv_view q wr _ _ _ A Hp) as TV. rewrite V in TV. split; [exact TV|]. unfold ns_ts_of. rewrite Es. reflexivity.
    - destruct I as [wr [Es [[A T] [Hp [V _]]]]]. split; [apply A|].
      pose proof (tsdinv_view c e lo q wr _ _ A Hp) as TV. rewrite V in TV. split; [exact TV|]. unfold ns_ts_of. rewrite Es. reflexivity. }
  destruct V as [W [V Tn]]. split; [exact W|]. split; [exact V|]. split; [exact He|]. split; [reflexivity|]. split; [apply Q | exact Tn].
Qed.

Lemma zfinv_start t0 off fl : ts_e c off = e -> (lo <= t0)%Z ->
  ZFInv (fst (step {| s_flw := None; s_w := set_faults (world0 t0 off) fl; s_tl := []; s_dead := false |} (OStart c))) (ZInit None) [] fl t0 0.
Proof.
  intros He Hlo. exists (world0 t0 off). split; [reflexivity|]. split; [split; reflexivity|]. split; [reflexivity|]. split; [reflexivity|].
  split; [reflexivity|]. split; [reflexivity|]. split; [exact He|]. split; [exact Hlo|]. split; [reflexivity|]. split; reflexivity.
Qed.

(* when the oracle is used up and the writer is on rCURRENT, the state is related to the view (closed contents, current
   content), the keys and the time stamp by the very relation of the fault-free development (TsAsync.RelTK) *)
Theorem zfinv_reltk x keys closed ts d errs now n : ZFInv x (ZCur keys closed ts d) errs [] now n ->
  RelTK c (CSize m) e lo n x (Some (closed, d)) keys ts.
Proof.
  intros [q [Ew [Q [Ha [He [Ht [Hnow [Hoff [Hlo [wr [Es [A [Hp [V Hn]]]]]]]]]]]]]]. cbn [ZA] in A.
  assert (Eq : s_w x = q). { rewrite Ew. destruct q. destruct Q as [F K]. cbn in F, K. subst. reflexivity. }
  split; [exact Ht|]. split; [rewrite Eq; exact Ha|].
  exists wr, (RSize m (N.of_nat (length d))). rewrite Eq.
  split; [exact Es|]. split; [exact A|]. split; [exact V|]. split; [exact Hn|].
  intros m' E'. injection E' as <-. reflexivity.
Qed.

End Ts.


(* ------------------------------------------------------------------ the theorems *)
(* (1) For every fault oracle fl and every list of records with clock advances: after  OStart c :: tops recs  (before each
   record the clock advances by the given number of seconds) from the empty directory with the oracle fl, the directory is
   exactly what simts says - the plain files named by the keys, with the contents listed, and rCURRENT with its content, or
   (ocur = None: before the first successful initialisation, or after a rotation whose rename succeeded and whose open
   failed) NO rCURRENT; nothing else -; the keys are those of keys_ok (seconds non-decreasing, within a second <ts>,
   <ts>.restart-0000, <ts>.restart-0001, ...: all names different), each key carrying the second at which its file was
   started; the error channel holds exactly the errors simts lists (with their codes, in order), the oracle is consumed as
   simts says, and every operation returns normally: no panic, no error result, the state is never poisoned. *)
Theorem faults_timestamps c m t0 off fl recs :
  tscfg c (CSize m) -> c_cap c = None -> tag_ok c -> ticks_ok recs ->
  (0 <= t0 + ts_e c off)%Z -> (t0 + telapsed recs + ts_e c off < sec_max)%Z -> (N.of_nat (length recs) <= usize_max)%N ->
  let r := run (fsys t0 off fl) (OStart c :: tops recs) in
  let '(keys, conts, ocur, errs, rest) := simts (c_append c) m t0 fl recs in
  fs_wf (wfs (s_w (fst r)))
  /\ ts_view_opt c (ts_e c off) (wfs (s_w (fst r))) keys conts ocur
  /\ keys_ok keys /\ (forall k, In k keys -> (t0 <= fst k <= t0 + telapsed recs)%Z)
  /\ werrs (s_w (fst r)) = errs
  /\ wfaults (s_w (fst r)) = rest
  /\ (forall o, In o (snd r) -> exists rot, o = ObsRes 0 rot).
Proof.
  intros Hcfg Hcap T Ht Hlo Hhi Hmax. cbv zeta. unfold simts.
  assert (Y : years_ok (ts_e c off) t0 (t0 + telapsed recs)) by (split; assumption).
  pose proof (zfinv_start c m (ts_e c off) t0 t0 off fl eq_refl (Z.le_refl _)) as I0. fold (fsys t0 off fl) in I0.
  pose proof (zfrun c m (ts_e c off) t0 (t0 + telapsed recs) Hcfg Hcap T Y recs _ _ _ _ _ _ I0 Ht (Z.le_refl _) Hmax) as R.
  pose proof (simts_keys (c_append c) m t0 recs t0 (ZInit None) fl (Z.le_refl _) Ht) as SK.
  destruct (simts_st (c_append c) m t0 (ZInit None) fl recs) as [[st e'] fl']. cbn [fst] in SK.
  destruct R as [x' [obs [R [I O]]]]. cbn [app] in I.
  assert (Rn : run (fsys t0 off fl) (OStart c :: tops recs) = (x', ObsRes 0 false :: obs)).
  { cbn [run]. destruct (step (fsys t0 off fl) (OStart c)) as [x1 ob] eqn:E1.
    assert (ob = ObsRes 0 false) by (unfold fsys in E1; cbv in E1; injection E1 as _ <-; reflexivity).
    cbn [fst] in R. rewrite R. subst ob. reflexivity. }
  rewrite Rn. cbn [fst snd].
  destruct (zfinv_final c m (ts_e c off) t0 x' st e' fl' _ _ I) as [W [V [He [Hf _]]]].
  destruct SK as [SK _]. destruct (z_ok_keys _ _ _ (SK (z_ok_init t0 t0))) as [K Rg].
  split; [exact W|]. split; [exact V|]. split; [exact K|]. split; [exact Rg|]. split; [exact He|]. split; [exact Hf|].
  intros o [<-|Ho]; [eexists; reflexivity|]. rewrite Forall_forall in O. exact (O o Ho).
Qed.
Print Assumptions faults_timestamps.

(* the state-level form, with the time stamp of the naming state: after a rotation whose open failed (state ZOld) it is
   the second of that failed attempt - not the time stamp under which the file was renamed, and not the name of any file *)
Theorem faults_timestamps_st c m t0 off fl recs :
  tscfg c (CSize m) -> c_cap c = None -> tag_ok c -> ticks_ok recs ->
  (0 <= t0 + ts_e c off)%Z -> (t0 + telapsed recs + ts_e c off < sec_max)%Z -> (N.of_nat (length recs) <= usize_max)%N ->
  let r := run (fsys t0 off fl) (OStart c :: tops recs) in
  let '(st, errs, rest) := simts_st (c_append c) m t0 (ZInit None) fl recs in
  ts_view_opt c (ts_e c off) (wfs (s_w (fst r))) (z_keys st) (z_closed st) (z_cur st)
  /\ ns_ts_of (fst r) = z_ts st
  /\ z_ok t0 (t0 + telapsed recs) st
  /\ werrs (s_w (fst r)) = errs /\ wfaults (s_w (fst r)) = rest
  /\ (forall o, In o (snd r) -> exists rot, o = ObsRes 0 rot).
Proof.
  intros Hcfg Hcap T Ht Hlo Hhi Hmax. cbv zeta.
  assert (Y : years_ok (ts_e c off) t0 (t0 + telapsed recs)) by (split; assumption).
  pose proof (zfinv_start c m (ts_e c off) t0 t0 off fl eq_refl (Z.le_refl _)) as I0. fold (fsys t0 off fl) in I0.
  pose proof (zfrun c m (ts_e c off) t0 (t0 + telapsed recs) Hcfg Hcap T Y recs _ _ _ _ _ _ I0 Ht (Z.le_refl _) Hmax) as R.
  pose proof (simts_keys (c_append c) m t0 recs t0 (ZInit None) fl (Z.le_refl _) Ht) as SK.
  destruct (simts_st (c_append c) m t0 (ZInit None) fl recs) as [[st e'] fl']. cbn [fst] in SK.
  destruct R as [x' [obs [R [I O]]]]. cbn [app] in I.
  assert (Rn : run (fsys t0 off fl) (OStart c :: tops recs) = (x', ObsRes 0 false :: obs)).
  { cbn [run]. destruct (step (fsys t0 off fl) (OStart c)) as [x1 ob] eqn:E1.
    assert (ob = ObsRes 0 false) by (unfold fsys in E1; cbv in E1; injection E1 as _ <-; reflexivity).
    cbn [fst] in R. rewrite R. subst ob. reflexivity. }
  rewrite Rn. cbn [fst snd].
  destruct (zfinv_final c m (ts_e c off) t0 x' st e' fl' _ _ I) as [W [V [He [Hf [_ Tn]]]]].
  destruct SK as [SK _].
  split; [exact V|]. split; [exact Tn|]. split; [exact (SK (z_ok_init t0 t0))|]. split; [exact He|]. split; [exact Hf|].
  intros o [<-|Ho]; [eexists; reflexivity|]. rewrite Forall_forall in O. exact (O o Ho).
Qed.
Print Assumptions faults_timestamps_st.

(* (2) in terms of the run, record by record: with t the list of log calls (record, its reports, the oracle entries its
   call consumed - they partition the consumed part of the oracle, and the reports are those on the error channel), the
   directory (the files of the keys in their order, then rCURRENT if there is one) reads as the concatenation of the
   records that were kept; a record whose log call consumed only `false` entries is kept and nothing is reported for it; a
   record that is missing had a failing call in its own log call and was reported with EWrite *)
Theorem ts_lost_only_around_failures c m t0 off fl recs :
  tscfg c (CSize m) -> c_cap c = None -> tag_ok c -> ticks_ok recs ->
  (0 <= t0 + ts_e c off)%Z -> (t0 + telapsed recs + ts_e c off < sec_max)%Z -> (N.of_nat (length recs) <= usize_max)%N ->
  let x := fst (run (fsys t0 off fl) (OStart c :: tops recs)) in
  let t := tracez (c_append c) m t0 (ZInit None) fl recs in
  exists keys conts ocur,
    ts_view_opt c (ts_e c off) (wfs (s_w x)) keys conts ocur /\ keys_ok keys
    /\ dir_stream conts ocur = concat (List.map t_kept t)
    /\ List.map t_rec t = List.map snd recs
    /\ werrs (s_w x) = concat (List.map t_errs t)
    /\ fl = concat (List.map t_used t) ++ wfaults (s_w x)
    /\ (forall e, In e t -> length (t_errs e) = ntrue (t_used e))
    /\ (forall e, In e t -> (forall f, In f (t_used e) -> f = false) -> t_errs e = [] /\ t_kept e = t_rec e)
    /\ (forall e, In e t -> t_kept e <> t_rec e -> In true (t_used e) /\ In EWrite (t_errs e)).
Proof.
  intros Hcfg Hcap T Ht Hlo Hhi Hmax. cbv zeta.
  pose proof (faults_timestamps c m t0 off fl recs Hcfg Hcap T Ht Hlo Hhi Hmax) as Fr. cbv zeta in Fr. unfold simts in Fr.
  pose proof (ts_lost_only_around_failures_spec (c_append c) m t0 fl recs) as L.
  destruct (simts_st (c_append c) m t0 (ZInit None) fl recs) as [[st e'] fl']. cbv zeta in L.
  destruct Fr as [_ [V [K [_ [He [Hf _]]]]]]. destruct L as [H1 [H2 [H3 [H4 [H5 [H6 H7]]]]]].
  exists (z_keys st), (z_closed st), (z_cur st). rewrite He, Hf.
  split; [exact V|]. split; [exact K|]. split; [exact H4|]. split; [exact H1|]. split; [exact H3|]. split; [exact H2|]. auto.
Qed.
Print Assumptions ts_lost_only_around_failures.

(* (2), (3) in terms of the run only: the directory reads (files in the order of the keys, then rCURRENT) as the
   concatenation of a subsequence `kept` of the records; each missing record is announced by one EWrite: #missing = #EWrite
   <= #reports; the only other code that occurs is ELogFile (a failed step of a rotation; the record of that call is not
   lost) *)
Theorem ts_loss_is_reported c m t0 off fl recs :
  tscfg c (CSize m) -> c_cap c = None -> tag_ok c -> ticks_ok recs ->
  (0 <= t0 + ts_e c off)%Z -> (t0 + telapsed recs + ts_e c off < sec_max)%Z -> (N.of_nat (length recs) <= usize_max)%N ->
  let x := fst (run (fsys t0 off fl) (OStart c :: tops recs)) in
  exists keys conts ocur kept,
    ts_view_opt c (ts_e c off) (wfs (s_w x)) keys conts ocur /\ keys_ok keys
    /\ dir_stream conts ocur = concat kept /\ Subseq kept (List.map snd recs)
    /\ length recs = length kept + nlost (werrs (s_w x))
    /\ nlost (werrs (s_w x)) <= length (werrs (s_w x))
    /\ (forall e, In e (werrs (s_w x)) -> e = EWrite \/ e = ELogFile).
Proof.
  intros Hcfg Hcap T Ht Hlo Hhi Hmax. cbv zeta.
  pose proof (faults_timestamps c m t0 off fl recs Hcfg Hcap T Ht Hlo Hhi Hmax) as F. cbv zeta in F. unfold simts in F.
  pose proof (ts_loss_is_reported_spec (c_append c) m recs t0 (ZInit None) fl) as L.
  destruct (simts_st (c_append c) m t0 (ZInit None) fl recs) as [[st e'] fl'].
  destruct F as [_ [V [K [_ [He _]]]]]. destruct L as [kept [Hs [Hst [Hl [Hle Hco]]]]].
  exists (z_keys st), (z_closed st), (z_cur st), kept. rewrite He. split; [exact V|]. split; [exact K|]. split; [exact Hst|]. auto.
Qed.
Print Assumptions ts_loss_is_reported.

(* (4) recovery at the level of the run.  x1: after recs1; r2: after recs1 ++ recs2.  When the oracle that is left after
   recs1 holds no failure any more: nothing more is reported, every record of recs2 is in the stream, the contents (closed
   files, file of the writer) develop by the fault-free size rule s_run - a rotation whose steps failed is carried out with
   the first record, one that was left half done (renamed, no new rCURRENT) is completed with it: after the first record the
   writer is on rCURRENT again -, keys and closed files are only extended (a file that was closed keeps name and content),
   all keys are different (keys_ok): no name is used twice, no file is overwritten; every call returns normally *)
Theorem ts_recovery c m t0 off fl recs1 recs2 :
  tscfg c (CSize m) -> c_cap c = None -> tag_ok c -> ticks_ok (recs1 ++ recs2) ->
  (0 <= t0 + ts_e c off)%Z -> (t0 + telapsed (recs1 ++ recs2) + ts_e c off < sec_max)%Z ->
  (N.of_nat (length (recs1 ++ recs2)) <= usize_max)%N ->
  let x1 := fst (run (fsys t0 off fl) (OStart c :: tops recs1)) in
  let r2 := run (fsys t0 off fl) (OStart c :: tops (recs1 ++ recs2)) in
  let '(st1, _, _) := simts_st (c_append c) m t0 (ZInit None) fl recs1 in
  let '(st2, _, _) := simts_st (c_append c) m t0 (ZInit None) fl (recs1 ++ recs2) in
  all_false (wfaults (s_w x1)) ->
  ts_view_opt c (ts_e c off) (wfs (s_w x1)) (z_keys st1) (z_closed st1) (z_cur st1)
  /\ ts_view_opt c (ts_e c off) (wfs (s_w (fst r2))) (z_keys st2) (z_closed st2) (z_cur st2)
  /\ werrs (s_w (fst r2)) = werrs (s_w x1)
  /\ dir_stream (z_closed st2) (z_cur st2) = dir_stream (z_closed st1) (z_cur st1) ++ concat (List.map snd recs2)
  /\ zaview st2 = s_run m (zaview st1) (tops recs2)
  /\ zextends st1 st2
  /\ keys_ok (z_keys st2)
  /\ (recs2 <> [] -> exists keys closed ts d, st2 = ZCur keys closed ts d)
  /\ (forall o, In o (snd r2) -> exists rot, o = ObsRes 0 rot).
Proof.
  intros Hcfg Hcap T Ht Hlo Hhi Hmax. cbv zeta.
  pose proof Ht as Ht'. apply Forall_app in Ht'. destruct Ht' as [Ht1 Ht2].
  pose proof (telapsed_nonneg recs2 Ht2) as Hn2. rewrite telapsed_app in Hhi. rewrite app_length in Hmax.
  pose proof (faults_timestamps_st c m t0 off fl recs1 Hcfg Hcap T Ht1 Hlo ltac:(lia) ltac:(lia)) as F1.
  pose proof (faults_timestamps_st c m t0 off fl (recs1 ++ recs2) Hcfg Hcap T Ht Hlo
                ltac:(rewrite telapsed_app; lia) ltac:(rewrite app_length; lia)) as F2.
  pose proof (ts_recovery_st (c_append c) m t0 fl recs1 recs2 Ht) as R.
  cbv zeta in F1, F2.
  destruct (simts_st (c_append c) m t0 (ZInit None) fl recs1) as [[st1 e1] fl1].
  destruct (simts_st (c_append c) m t0 (ZInit None) fl (recs1 ++ recs2)) as [[st2 e2] fl2].
  destruct F1 as [V1 [_ [_ [He1 [Hf1 _]]]]]. destruct F2 as [V2 [_ [_ [He2 [_ O2]]]]].
  intros Hf. rewrite Hf1 in Hf. destruct (R Hf) as [-> [Hs [Hv [Hx [Zk Hc]]]]].
  split; [exact V1|]. split; [exact V2|]. split; [congruence|]. split; [exact Hs|]. split; [exact Hv|].
  split; [exact Hx|]. split; [exact (proj1 (z_ok_keys _ _ _ Zk))|]. split; [exact Hc | exact O2].
Qed.
Print Assumptions ts_recovery.

(* (4) for arbitrary further operations.  When the oracle has been used up and the writer is on rCURRENT (state ZCur - also
   with an over-full file, i.e. a rotation whose first steps failed), the state is related to the view (closed contents,
   current content), the keys and the time stamp by RelTK, the invariant of the fault-free development: whatever basic
   operations follow (writes, flushes, rotate(), clock ticks), they behave exactly as in a run without failures from that
   directory - the contents develop by the size rule s_run, the keys by kts_run (TsAsync), each write rotates iff the size
   rule says so.  (The state ZOld - renamed, no rCURRENT - is left by the next record, see ts_recovery.) *)
Theorem ts_recovery_ops c m t0 off fl recs ops :
  tscfg c (CSize m) -> c_cap c = None -> tag_ok c -> ticks_ok recs ->
  Forall basic_op ops -> Forall tick_ok ops ->
  (0 <= t0 + ts_e c off)%Z -> (t0 + telapsed recs + elapsed ops + ts_e c off < sec_max)%Z ->
  (N.of_nat (length recs + length ops) <= usize_max)%N ->
  let x := fst (run (fsys t0 off fl) (OStart c :: tops recs)) in
  let '(st, _, rest) := simts_st (c_append c) m t0 (ZInit None) fl recs in
  rest = [] -> forall keys closed ts d, st = ZCur keys closed ts d ->
    let kt := kts_run m (keys, ts) (Some (closed, d)) (t0 + telapsed recs) ops in
    RelTK c (CSize m) (ts_e c off) t0 (length recs) x (Some (closed, d)) keys ts
    /\ RelTK c (CSize m) (ts_e c off) t0 (length recs + length ops) (fst (run x ops)) (s_run m (Some (closed, d)) ops) (fst kt) (snd kt)
    /\ (forall i o b, nth_error ops i = Some o -> (o = OWrite b \/ o = OPlain b) ->
          nth_error (snd (run x ops)) i
          = Some (ObsRes 0 (m <? N.of_nat (length (cur_of (s_run m (Some (closed, d)) (firstn i ops)))))%N)).
Proof.
  intros Hcfg Hcap T Ht Hb Htk Hlo Hhi Hmax. cbv zeta.
  pose proof (telapsed_nonneg recs Ht) as Hn1. pose proof (elapsed_nonneg ops Htk) as Hn2.
  assert (Y : years_ok (ts_e c off) t0 (t0 + telapsed recs)) by (split; [assumption | lia]).
  pose proof (zfinv_start c m (ts_e c off) t0 t0 off fl eq_refl (Z.le_refl _)) as I0. fold (fsys t0 off fl) in I0.
  pose proof (zfrun c m (ts_e c off) t0 (t0 + telapsed recs) Hcfg Hcap T Y recs _ _ _ _ _ _ I0 Ht (Z.le_refl _) ltac:(lia)) as R.
  destruct (simts_st (c_append c) m t0 (ZInit None) fl recs) as [[st e'] fl'].
  destruct R as [x' [obs [R [I O]]]]. intros -> keys closed ts d ->.
  assert (Ex : fst (run (fsys t0 off fl) (OStart c :: tops recs)) = x').
  { cbn [run]. destruct (step (fsys t0 off fl) (OStart c)) as [x1 ob]. cbn [fst] in R. rewrite R. reflexivity. }
  rewrite Ex. cbn [Nat.add] in I.
  pose proof (zfinv_reltk c m (ts_e c off) t0 _ Y x' keys closed ts d _ _ _ I) as Rl.
  split; [exact Rl|].
  assert (Wn : wnow (s_w x') = (t0 + telapsed recs)%Z).
  { destruct I as [q [Ew [_ [_ [_ [_ [Hnow _]]]]]]]. rewrite Ew. exact Hnow. }
  assert (Y2 : years_ok (ts_e c off) t0 (t0 + telapsed recs + elapsed ops)) by (split; [assumption | lia]).
  pose proof (run_rel_ts_k c (CSize m) _ _ _ Hcfg T Y2 ops x' _ (keys, ts) (length recs) Rl Hb Htk ltac:(lia) ltac:(lia)) as [R1 [W1 Z1]].
  destruct (Z1 m eq_refl) as [E2 [E3 O2]]. rewrite E2, E3, Wn in R1.
  split; [exact R1|]. intros i o b Hi Hw. exact (O2 i o Hi b Hw).
Qed.
Print Assumptions ts_recovery_ops.

(* ------------------------------------------------------------------ the statement, computed on examples *)
Import String.StringSyntax.
Open Scope string_scope.
Definition zx_cfg (app : bool) (m : N) : config := ext_cfg (NumRestart.ex_sp "log") app (CSize m) None false.
Lemma zx_cfg_ok app m : tscfg (zx_cfg app m) (CSize m) /\ c_cap (zx_cfg app m) = None /\ tag_ok (zx_cfg app m).
Proof.
  split; [apply ext_cfg_ok; reflexivity|]. split; [reflexivity|].
  apply tag_free_ok; split; vm_compute; reflexivity.
Qed.

(* the run: the directory (name, kind, content; sorted by name), the time stamp of the naming state, the error channel,
   the rest of the oracle, and whether every operation returned normally *)
Definition zx_run (app : bool) (m : N) (fl : list bool) (recs : list (Z * bytes))
  : list (bytes * N * bytes) * option Z * list ecode * list bool * bool :=
  let r := run (fsys 0 0 fl) (OStart (zx_cfg app m) :: tops recs) in
  (snap_of (fst r), ns_ts_of (fst r), werrs (s_w (fst r)), wfaults (s_w (fst r)), forallb obs_normalb (snd r)).
(* the specification, as a directory *)
Definition zx_sim (app : bool) (m : N) (fl : list bool) (recs : list (Z * bytes))
  : list (bytes * N * bytes) * option Z * list ecode * list bool * bool :=
  let '(st, e, rest) := simts_st app m 0 (ZInit None) fl recs in
  (List.map (fun p => (kname (zx_cfg app m) 0 (fst p), 0%N, snd p)) (combine (z_keys st) (z_closed st))
   ++ match z_cur st with Some d => [(cname (zx_cfg app m), 0%N, d)] | None => [] end, z_ts st, e, rest, true).
Definition oz_eqb (a b : option Z) : bool :=
  match a, b with Some x, Some y => Z.eqb x y | None, None => true | _, _ => false end.
Definition zagree (app : bool) (m : N) (recs : list (Z * bytes)) (fl : list bool) : bool :=
  let '(d1, t1, e1, f1, ok1) := zx_run app m fl recs in
  let '(d2, t2, e2, f2, ok2) := zx_sim app m fl recs in
  leqb ent_eqb d1 d2 && oz_eqb t1 t2 && leqb ec_eqb e1 e2 && leqb Bool.eqb f1 f2 && Bool.eqb ok1 ok2.

Definition z00 := bs "app_r1970-01-01_00-00-00.log".
Definition z00r0 := bs "app_r1970-01-01_00-00-00.restart-0000.log".
Definition z01 := bs "app_r1970-01-01_00-00-01.log".
Definition z03 := bs "app_r1970-01-01_00-00-03.log".
Definition zC := bs "app_rCURRENT.log".

(* trecs5: "abcd" and "ef" in second 0, "gh" and "ijkl" in second 1, "mn" in second 3.  Size limit 3, no append: the first
   log call makes five fallible calls (read_dir, read_dir, rename, open, write); a rotation makes four (read_dir, read_dir,
   rename, open).  A closed file carries the second in which it was STARTED. *)
(* no failure *)
Example zx_none :
  simts false 3 0 [] trecs5 = ([(0%Z, 0); (0%Z, 1); (1%Z, 0)], [bs "abcd"; bs "efgh"; bs "ijkl"], Some (bs "mn"), [], [])
  /\ zx_run false 3 [] trecs5
     = ([(z00, 0%N, bs "abcd"); (z00r0, 0%N, bs "efgh"); (z01, 0%N, bs "ijkl"); (zC, 0%N, bs "mn")], Some 3%Z, [], [], true)
  /\ zx_sim false 3 [] trecs5 = zx_run false 3 [] trecs5.
Proof. repeat split; vm_compute; reflexivity. Qed.
(* (i) a listing of the rotation before "ef" fails: reported (ELogFile), "ef" goes into the over-full rCURRENT, the time stamp
   of the naming state is unchanged; the next record ("gh", second 1) rotates *)
Example zx_listing_of_rotation_fails :
  zx_run false 3 [F;F;F;F;F; F;T] trecs5
  = ([(z00, 0%N, bs "abcdef"); (z01, 0%N, bs "ghijkl"); (zC, 0%N, bs "mn")], Some 3%Z, [ELogFile], [], true)
  /\ zx_sim false 3 [F;F;F;F;F; F;T] trecs5 = zx_run false 3 [F;F;F;F;F; F;T] trecs5.
Proof. split; vm_compute; reflexivity. Qed.
(* ... the same when the rename fails *)
Example zx_rename_fails :
  zx_run false 3 [F;F;F;F;F; F;F;T] (firstn 2 trecs5) = ([(zC, 0%N, bs "abcdef")], Some 0%Z, [ELogFile], [], true)
  /\ zx_sim false 3 [F;F;F;F;F; F;F;T] (firstn 2 trecs5) = zx_run false 3 [F;F;F;F;F; F;F;T] (firstn 2 trecs5).
Proof. split; vm_compute; reflexivity. Qed.
(* (ii) THE HALF-FAILED ROTATION.  "ef" (second 0): rename done, open fails: reported (ELogFile); "ef" is written into the file
   that is now called r..00-00-00; there is NO rCURRENT.  "gh" (second 1): the second attempt - listing ok, but the open fails
   again: "gh" goes into the renamed file, too; the time stamp of the naming state is now 1 (the second of the failed
   attempt) - no file carries it *)
Example zx_open_fails :
  zx_run false 3 [F;F;F;F;F; F;F;F;T] (firstn 2 trecs5) = ([(z00, 0%N, bs "abcdef")], Some 0%Z, [ELogFile], [], true)
  /\ zx_run false 3 [F;F;F;F;F; F;F;F;T;F; F;F;F;T] (firstn 3 trecs5)
     = ([(z00, 0%N, bs "abcdefgh")], Some 1%Z, [ELogFile; ELogFile], [], true)
  /\ simts false 3 0 [F;F;F;F;F; F;F;F;T;F; F;F;F;T] (firstn 3 trecs5)
     = ([(0%Z, 0)], [bs "abcdefgh"], None, [ELogFile; ELogFile], [])
  /\ zx_sim false 3 [F;F;F;F;F; F;F;F;T] (firstn 2 trecs5) = zx_run false 3 [F;F;F;F;F; F;F;F;T] (firstn 2 trecs5)
  /\ zx_sim false 3 [F;F;F;F;F; F;F;F;T;F; F;F;F;T] (firstn 3 trecs5) = zx_run false 3 [F;F;F;F;F; F;F;F;T;F; F;F;F;T] (firstn 3 trecs5).
Proof. repeat split; vm_compute; reflexivity. Qed.
(* ... then no more failures: "ijkl" (second 1) completes the rotation: a new rCURRENT is created, nothing is renamed (the
   name r..00-00-00 is not used a second time, nothing is overwritten); the new rCURRENT carries the second of THIS attempt
   (1), under which it is closed before "mn" (second 3).  Nothing is lost: abcdefgh | ijkl | mn *)
Example zx_open_fails_then_recovers :
  zx_run false 3 [F;F;F;F;F; F;F;F;T;F; F;F;F;T] trecs5
  = ([(z00, 0%N, bs "abcdefgh"); (z01, 0%N, bs "ijkl"); (zC, 0%N, bs "mn")], Some 3%Z, [ELogFile; ELogFile], [], true)
  /\ zx_sim false 3 [F;F;F;F;F; F;F;F;T;F; F;F;F;T] trecs5 = zx_run false 3 [F;F;F;F;F; F;F;F;T;F; F;F;F;T] trecs5.
Proof. split; vm_compute; reflexivity. Qed.
(* ... all in one second (limit 0: every record rotates): the renamed file is <ts>, the files closed after the recovery are
   <ts>.restart-0000, <ts>.restart-0001: the counter goes on, no name twice *)
Example zx_open_fails_same_second :
  zx_run false 0 [F;F;F;F;F; F;F;F;T] [(0%Z, bs "a"); (0%Z, bs "b"); (0%Z, bs "c"); (0%Z, bs "d"); (0%Z, bs "e")]
  = ([(z00, 0%N, bs "ab"); (z00r0, 0%N, bs "c"); (bs "app_r1970-01-01_00-00-00.restart-0001.log", 0%N, bs "d"); (zC, 0%N, bs "e")],
     Some 0%Z, [ELogFile], [], true)
  /\ zx_sim false 0 [F;F;F;F;F; F;F;F;T] [(0%Z, bs "a"); (0%Z, bs "b"); (0%Z, bs "c"); (0%Z, bs "d"); (0%Z, bs "e")]
     = zx_run false 0 [F;F;F;F;F; F;F;F;T] [(0%Z, bs "a"); (0%Z, bs "b"); (0%Z, bs "c"); (0%Z, bs "d"); (0%Z, bs "e")].
Proof. split; vm_compute; reflexivity. Qed.
(* (iii) a listing of the initialisation fails: "abcd" is lost and reported (EWrite); the next record initialises again *)
Example zx_init_fails :
  zx_run false 3 [T] trecs5 = ([(z00, 0%N, bs "efgh"); (z01, 0%N, bs "ijkl"); (zC, 0%N, bs "mn")], Some 3%Z, [EWrite], [], true)
  /\ zx_sim false 3 [T] trecs5 = zx_run false 3 [T] trecs5.
Proof. split; vm_compute; reflexivity. Qed.
(* with append the calls of the initialisation are open, metadata: when metadata fails the created (empty) rCURRENT stays; the
   next initialisation - five seconds later - continues it; its birth time (second 0) is the time stamp under which it is
   closed *)
Example zx_metadata_fails :
  zx_run true 3 [F;T] [(0%Z, bs "abcd")] = ([(zC, 0%N, [])], None, [EWrite], [], true)
  /\ zx_run true 3 [F;T] [(0%Z, bs "abcd"); (5%Z, bs "efgh"); (0%Z, bs "i")]
     = ([(z00, 0%N, bs "efgh"); (zC, 0%N, bs "i")], Some 5%Z, [EWrite], [], true)
  /\ zx_sim true 3 [F;T] [(0%Z, bs "abcd")] = zx_run true 3 [F;T] [(0%Z, bs "abcd")]
  /\ zx_sim true 3 [F;T] [(0%Z, bs "abcd"); (5%Z, bs "efgh"); (0%Z, bs "i")] = zx_run true 3 [F;T] [(0%Z, bs "abcd"); (5%Z, bs "efgh"); (0%Z, bs "i")].
Proof. repeat split; vm_compute; reflexivity. Qed.
(* (iv) the write fails: the record is lost and reported (EWrite) *)
Example zx_write_fails :
  zx_run false 3 [F;F;F;F;T] trecs5 = ([(z00, 0%N, bs "efgh"); (z01, 0%N, bs "ijkl"); (zC, 0%N, bs "mn")], Some 3%Z, [EWrite], [], true)
  /\ zx_sim false 3 [F;F;F;F;T] trecs5 = zx_run false 3 [F;F;F;F;T] trecs5.
Proof. split; vm_compute; reflexivity. Qed.
(* one log call, two reports: the open of the rotation fails (ELogFile) and then the write into the renamed file fails
   (EWrite): one record lost *)
Example zx_two_reports :
  zx_run false 3 [F;F;F;F;F; F;F;F;T;T] trecs5
  = ([(z00, 0%N, bs "abcd"); (z01, 0%N, bs "ghijkl"); (zC, 0%N, bs "mn")], Some 3%Z, [ELogFile; EWrite], [], true)
  /\ zx_sim false 3 [F;F;F;F;F; F;F;F;T;T] trecs5 = zx_run false 3 [F;F;F;F;F; F;F;F;T;T] trecs5.
Proof. split; vm_compute; reflexivity. Qed.

(* run and specification agree (directory, time stamp of the naming state, error codes, rest of the oracle, normal returns)
   on ALL fault oracles up to length 8 (511 oracles) for six settings, and on all oracles of the form F^5 ++ l, l up to
   length 10, for two settings in which every record rotates (several files per second; the failures hit the second and
   third rotation); empty records included *)
Definition zrecs1 : list (Z * bytes) := [(0%Z, bs "abcd"); (3%Z, bs ""); (0%Z, bs "efgh"); (0%Z, bs ""); (1%Z, bs "i")].
Example zx_agree_all :
  forallb (zagree false 3 trecs5) (all_lists 8) = true
  /\ forallb (zagree true 3 trecs5) (all_lists 8) = true
  /\ forallb (zagree true 0 trecs0) (all_lists 8) = true
  /\ forallb (zagree false 0 trecs0) (all_lists 8) = true
  /\ forallb (zagree true 1 zrecs1) (all_lists 8) = true
  /\ forallb (zagree false 1 zrecs1) (all_lists 8) = true
  /\ forallb (zagree false 0 trecs0) (List.map (fun l => [F;F;F;F;F] ++ l) (all_lists 10)) = true
  /\ forallb (zagree false 1 zrecs1) (List.map (fun l => [F;F;F;F;F] ++ l) (all_lists 10)) = true.
Proof. repeat split; vm_compute; reflexivity. Qed.

(* ------------------------------------------------------------------ instances of the theorems (non-vacuity) *)
Definition zx_fl : list bool := [F;F;F;F;F; F;F;F;T;F; F;F;F;T].
Lemma zx_hyps n : n <= 5 ->
  ticks_ok (firstn n trecs5) /\ (0 <= 0 + ts_e (zx_cfg false 3) 0)%Z
  /\ (0 + telapsed (firstn n trecs5) + ts_e (zx_cfg false 3) 0 < sec_max)%Z /\ (N.of_nat (length (firstn n trecs5)) <= usize_max)%N.
Proof.
  intros Hn. assert (C : n = 0 \/ n = 1 \/ n = 2 \/ n = 3 \/ n = 4 \/ n = 5) by lia.
  destruct C as [->|[->|[->|[->|[->| ->]]]]]; (split; [repeat constructor; cbn; lia|]); vm_compute; repeat split; discriminate.
Qed.

(* faults_timestamps on the half-failed rotation: after three records the directory is the one file r..00-00-00 with
   "abcdefgh", no rCURRENT, two ELogFile reports *)
Example zx_instance_faults :
  let r := run (fsys 0 0 zx_fl) (OStart (zx_cfg false 3) :: tops (firstn 3 trecs5)) in
  ts_view_opt (zx_cfg false 3) 0 (wfs (s_w (fst r))) [(0%Z, 0)] [bs "abcdefgh"] None
  /\ werrs (s_w (fst r)) = [ELogFile; ELogFile] /\ wfaults (s_w (fst r)) = [] /\ ns_ts_of (fst r) = Some 1%Z.
Proof.
  destruct (zx_cfg_ok false 3) as [H1 [H2 H3]]. destruct (zx_hyps 3 ltac:(lia)) as [H4 [H5 [H6 H7]]].
  pose proof (faults_timestamps (zx_cfg false 3) 3 0 0 zx_fl (firstn 3 trecs5) H1 H2 H3 H4 H5 H6 H7) as F0.
  pose proof (faults_timestamps_st (zx_cfg false 3) 3 0 0 zx_fl (firstn 3 trecs5) H1 H2 H3 H4 H5 H6 H7) as F1.
  cbv zeta in F0, F1 |- *.
  change (simts (c_append (zx_cfg false 3)) 3 0 zx_fl (firstn 3 trecs5))
    with ([(0%Z, 0)], [bs "abcdefgh"], @None bytes, [ELogFile; ELogFile], @nil bool) in F0.
  change (simts_st (c_append (zx_cfg false 3)) 3 0 (ZInit None) zx_fl (firstn 3 trecs5))
    with (ZOld [(0%Z, 0)] [] 1%Z (bs "abcdefgh"), [ELogFile; ELogFile], @nil bool) in F1.
  destruct F0 as [_ [V [_ [_ [He [Hf _]]]]]]. destruct F1 as [_ [Tn _]].
  split; [exact V|]. split; [exact He|]. split; [exact Hf | exact Tn].
Qed.

(* ts_lost_only_around_failures / ts_loss_is_reported: the oracle zx_fl ++ [F; F;F;F;F;T] on the five records - the write of
   "ijkl" (the record that completes the rotation) fails: four records kept, one EWrite; "mn" goes into the new, empty
   rCURRENT *)
Example zx_instance_loss :
  let x := fst (run (fsys 0 0 (zx_fl ++ [F; F;F;F;F;T])) (OStart (zx_cfg false 3) :: tops trecs5)) in
  exists keys conts ocur kept,
    ts_view_opt (zx_cfg false 3) 0 (wfs (s_w x)) keys conts ocur /\ keys_ok keys
    /\ dir_stream conts ocur = concat kept /\ Subseq kept (List.map snd trecs5)
    /\ length trecs5 = length kept + nlost (werrs (s_w x))
    /\ nlost (werrs (s_w x)) <= length (werrs (s_w x))
    /\ (forall e, In e (werrs (s_w x)) -> e = EWrite \/ e = ELogFile).
Proof.
  destruct (zx_cfg_ok false 3) as [H1 [H2 H3]]. destruct (zx_hyps 5 ltac:(lia)) as [H4 [H5 [H6 H7]]].
  exact (ts_loss_is_reported (zx_cfg false 3) 3 0 0 (zx_fl ++ [F; F;F;F;F;T]) trecs5 H1 H2 H3 H4 H5 H6 H7).
Qed.
Example zx_instance_loss_values :
  zx_run false 3 (zx_fl ++ [F; F;F;F;F;T]) trecs5
  = ([(z00, 0%N, bs "abcdefgh"); (zC, 0%N, bs "mn")], Some 1%Z, [ELogFile; ELogFile; EWrite], [], true)
  /\ List.map t_kept (tracez false 3 0 (ZInit None) (zx_fl ++ [F; F;F;F;F;T]) trecs5) = [bs "abcd"; bs "ef"; bs "gh"; []; bs "mn"]
  /\ List.map t_used (tracez false 3 0 (ZInit None) (zx_fl ++ [F; F;F;F;F;T]) trecs5) = [[F;F;F;F;F]; [F;F;F;T;F]; [F;F;F;T;F]; [F;F;F;F;T]; []].
Proof. repeat split; vm_compute; reflexivity. Qed.

(* ts_recovery: recs1 = the first three records (the oracle zx_fl is used up, the writer is on the renamed file), recs2 =
   the other two *)
Example zx_instance_recovery :
  let '(st1, _, rest1) := simts_st false 3 0 (ZInit None) zx_fl (firstn 3 trecs5) in
  let '(st2, _, _) := simts_st false 3 0 (ZInit None) zx_fl (firstn 3 trecs5 ++ skipn 3 trecs5) in
  rest1 = [] /\ st1 = ZOld [(0%Z, 0)] [] 1%Z (bs "abcdefgh")
  /\ st2 = ZCur [(0%Z, 0); (1%Z, 0)] [bs "abcdefgh"; bs "ijkl"] 3%Z (bs "mn")
  /\ zaview st2 = s_run 3 (zaview st1) (tops (skipn 3 trecs5)).
Proof. vm_compute. repeat split. Qed.
Example zx_instance_recovery_run :
  let x1 := fst (run (fsys 0 0 zx_fl) (OStart (zx_cfg false 3) :: tops (firstn 3 trecs5))) in
  let r2 := run (fsys 0 0 zx_fl) (OStart (zx_cfg false 3) :: tops (firstn 3 trecs5 ++ skipn 3 trecs5)) in
  ts_view_opt (zx_cfg false 3) 0 (wfs (s_w x1)) [(0%Z, 0)] [bs "abcdefgh"] None
  /\ ts_view_opt (zx_cfg false 3) 0 (wfs (s_w (fst r2))) [(0%Z, 0); (1%Z, 0)] [bs "abcdefgh"; bs "ijkl"] (Some (bs "mn"))
  /\ werrs (s_w (fst r2)) = werrs (s_w x1).
Proof.
  destruct (zx_cfg_ok false 3) as [H1 [H2 H3]]. destruct (zx_hyps 5 ltac:(lia)) as [H4 [H5 [H6 H7]]].
  pose proof (ts_recovery (zx_cfg false 3) 3 0 0 zx_fl (firstn 3 trecs5) (skipn 3 trecs5) H1 H2 H3 H4 H5 H6 H7) as R.
  cbv zeta in R |- *.
  change (simts_st (c_append (zx_cfg false 3)) 3 0 (ZInit None) zx_fl (firstn 3 trecs5))
    with (ZOld [(0%Z, 0)] [] 1%Z (bs "abcdefgh"), [ELogFile; ELogFile], @nil bool) in R.
  change (simts_st (c_append (zx_cfg false 3)) 3 0 (ZInit None) zx_fl (firstn 3 trecs5 ++ skipn 3 trecs5))
    with (ZCur [(0%Z, 0); (1%Z, 0)] [bs "abcdefgh"; bs "ijkl"] 3%Z (bs "mn"), [ELogFile; ELogFile], @nil bool) in R.
  assert (Hf : all_false (wfaults (s_w (fst (run (fsys 0 0 zx_fl) (OStart (zx_cfg false 3) :: tops (firstn 3 trecs5))))))).
  { vm_compute. intros f []. }
  destruct (R Hf) as [V1 [V2 [He _]]]. split; [exact V1|]. split; [exact V2 | exact He].
Qed.

(* ts_recovery_ops: an instance of its hypotheses - the oracle used up, the writer on rCURRENT, a rotation pending *)
Example zx_instance_ops :
  let '(st, e, rest) := simts_st false 3 0 (ZInit None) [F;F;F;F;F; F;F;T] (firstn 2 trecs5) in
  rest = [] /\ st = ZCur [] [] 0%Z (bs "abcdef") /\ e = [ELogFile].
Proof. vm_compute. repeat split. Qed.
Example zx_instance_trace :
  let x := fst (run (fsys 0 0 (zx_fl ++ [F; F;F;F;F;T])) (OStart (zx_cfg false 3) :: tops trecs5)) in
  let t := tracez false 3 0 (ZInit None) (zx_fl ++ [F; F;F;F;F;T]) trecs5 in
  exists keys conts ocur,
    ts_view_opt (zx_cfg false 3) 0 (wfs (s_w x)) keys conts ocur /\ keys_ok keys
    /\ dir_stream conts ocur = concat (List.map t_kept t)
    /\ werrs (s_w x) = concat (List.map t_errs t)
    /\ (forall e, In e t -> t_kept e <> t_rec e -> In true (t_used e) /\ In EWrite (t_errs e)).
Proof.
  destruct (zx_cfg_ok false 3) as [H1 [H2 H3]]. destruct (zx_hyps 5 ltac:(lia)) as [H4 [H5 [H6 H7]]].
  destruct (ts_lost_only_around_failures (zx_cfg false 3) 3 0 0 (zx_fl ++ [F; F;F;F;F;T]) trecs5 H1 H2 H3 H4 H5 H6 H7)
    as [keys [conts [ocur [V [K [S1 [_ [S3 [_ [_ [_ S7]]]]]]]]]]].
  exists keys, conts, ocur. auto.
Qed.

(* ts_recovery_ops: after "abcd", "ef" with a failing rename (oracle used up, rCURRENT over-full, writer on rCURRENT) the
   operations write "gh" / tick / write "i" behave as without failures: the first write rotates, the second does not *)
Example zx_instance_ops_run :
  let x := fst (run (fsys 0 0 [F;F;F;F;F; F;F;T]) (OStart (zx_cfg false 3) :: tops (firstn 2 trecs5))) in
  let ops := [OWrite (bs "gh"); OTick 1; OWrite (bs "i")] in
  RelTK (zx_cfg false 3) (CSize 3) 0 0 (2 + 3) (fst (run x ops)) (Some ([bs "abcdef"], bs "ghi")) [(0%Z, 0)] 0%Z
  /\ nth_error (snd (run x ops)) 0 = Some (ObsRes 0 true) /\ nth_error (snd (run x ops)) 2 = Some (ObsRes 0 false).
Proof.
  destruct (zx_cfg_ok false 3) as [H1 [H2 H3]]. destruct (zx_hyps 2 ltac:(lia)) as [H4 [H5 _]].
  assert (Hb : Forall basic_op [OWrite (bs "gh"); OTick 1; OWrite (bs "i")]) by (repeat constructor).
  assert (Htk : Forall tick_ok [OWrite (bs "gh"); OTick 1; OWrite (bs "i")]) by (repeat constructor; cbn; lia).
  pose proof (ts_recovery_ops (zx_cfg false 3) 3 0 0 [F;F;F;F;F; F;F;T] (firstn 2 trecs5) [OWrite (bs "gh"); OTick 1; OWrite (bs "i")]
                H1 H2 H3 H4 Hb Htk H5 ltac:(vm_compute; reflexivity) ltac:(vm_compute; discriminate)) as R.
  cbv zeta in R |- *.
  change (simts_st (c_append (zx_cfg false 3)) 3 0 (ZInit None) [F;F;F;F;F; F;F;T] (firstn 2 trecs5))
    with (ZCur [] [] 0%Z (bs "abcdef"), [ELogFile], @nil bool) in R.
  destruct (R eq_refl [] [] 0%Z (bs "abcdef") eq_refl) as [_ [R2 O]].
  split; [exact R2|].
  split; [exact (O 0 _ (bs "gh") eq_refl (or_introl eq_refl)) | exact (O 2 _ (bs "i") eq_refl (or_introl eq_refl))].
Qed.
