(* Numbers naming, age (and age-or-size) criterion: the refinement of the timed abstract view.
   The abstract view of NumRun (closed files, current content) is extended by the instant at which each file was
   started; the invariant additionally ties the roll state of the writer (`created`) to that instant.  The
   rotation decision of the model then is the decision `rotate_due` of the executable oracle O_Age. *)
Require Import FL.Base.Bytes FL.Base.BytesFacts FL.Base.PathName FL.Fs.Fs FL.Fs.FsFacts FL.Time.Civil FL.Time.Period
  FL.Time.TsFormat FL.Names.FileSpec FL.Names.NamesFacts FL.Flw.Model FL.Flw.ModelFacts FL.Flw.NumFs FL.Flw.NumInv
  FL.Flw.Run FL.Flw.RunFacts FL.Flw.NumRun FL.Oracles.O_Age.
From Coq Require Import ZifyN ZifyNat ZifyBool.
Open Scope nat_scope.

(* ------------------------------------------------------------------ the roll state and the decision *)
(* the roll state belongs to the criterion, and its `created` is the instant st *)
Definition roll_ok (crit : criterion) (st : Z) (roll : roll_state) : Prop :=
  match crit, roll with
  | CSize m, RSize m' _ => m' = m
  | CAge a, RAge a' cr => a' = a /\ cr = st
  | CAgeOrSize a m, RAgeSize a' cr m' _ => a' = a /\ cr = st /\ m' = m
  | _, _ => False
  end.

(* the oracle's decision for a criterion *)
Definition due (crit : criterion) (off st : Z) (cu : bytes) (t : Z) : bool :=
  rotate_due (fst (crit_parts crit)) (snd (crit_parts crit)) off st cu t.

Lemma roll_decision crit w st roll (cu : bytes) :
  roll_ok crit st roll -> roll_size_ok roll (length cu) ->
  rotation_necessary w roll = due crit (woff w) st cu (wnow w).
Proof.
  intros Hr Hs. unfold due, rotate_due.
  destruct crit as [m|a|a m], roll as [m' k|a' cr|a' cr m' k]; cbn [roll_ok] in Hr; try contradiction;
    cbn [crit_parts fst snd rotation_necessary roll_size_ok] in *.
  - subst m' k. unfold size_rotation_necessary. reflexivity.
  - destruct Hr as [-> ->]. unfold age_rotation_necessary, local_civil. rewrite same_period_spec, Bool.orb_false_r. reflexivity.
  - destruct Hr as [-> [-> ->]]. subst k. unfold age_rotation_necessary, local_civil, size_rotation_necessary.
    rewrite same_period_spec. apply Bool.orb_comm.
Qed.

Lemma due_self crit off t : due crit off t [] t = false.
Proof.
  unfold due, rotate_due. destruct crit as [m|a|a m]; cbn [crit_parts fst snd length].
  - cbn [orb]. apply N.ltb_ge. lia.
  - rewrite Z.eqb_refl. reflexivity.
  - rewrite Z.eqb_refl. cbn [negb orb]. apply N.ltb_ge. lia.
Qed.

Lemma roll_ok_increase crit st roll n : roll_ok crit st roll -> roll_ok crit st (increase_size roll n).
Proof. destruct crit, roll; cbn; auto. Qed.

Lemma roll_ok_size crit st roll m : roll_ok crit st roll -> crit = CSize m -> exists k, roll = RSize m k.
Proof. intros H ->. destruct roll; cbn in H; try contradiction. subst. eauto. Qed.

(* ------------------------------------------------------------------ one rotation, with the new start instant *)
Lemma mount_next_rotates_t c crit w wr closed roll force :
  numcfg c crit -> NumInv c w wr closed ->
  force || rotation_necessary w roll = true ->
  exists w' wr' roll',
    mount_next c w (Active (Some (mk_rs (NSNumR (N.of_nat (length closed))) roll)) wr (cname c)) force
      = (Ok tt, w', Active (Some (mk_rs (NSNumR (N.of_nat (length (closed ++ [cur_view w wr])))) roll')) wr' (cname c))
    /\ NumInv c w' wr' (closed ++ [cur_view w wr])
    /\ cur_view w' wr' = [] /\ roll_size_ok roll' 0 /\ same_env w w'
    /\ (forall st, roll_ok crit st roll -> roll_ok crit (wnow w) roll').
Proof.
  intros [Hrot [Hts [Hlink _]]] I Hnec.
  pose proof I as [Q W Hc Hcp Hcl Hon Hwr Hcap].
  unfold mount_next. cbn [mk_rs rs_roll rs_naming rs_cleanup rs_bg]. rewrite Hnec.
  unfold index_for_rcurrent. rewrite !(name_of_fixed c w) by assumption. fold (nm c cur_infix) (nm c (number_infix (N.of_nat (length closed)))).
  fold (cname c) (rname c (length closed)).
  assert (Ht : lookup (wfs w) (rname c (length closed)) = None).
  { destruct (lookup (wfs w) (rname c (length closed))) as [j|] eqn:E; [|reflexivity].
    destruct (Hon _ _ E) as [E1|[i [Hi E1]]]; [exfalso; exact (rname_not_cname _ _ E1)|]. apply rname_inj in E1. lia. }
  destruct (rotate_fs_spec (wfs w) (cname c) (rname c (length closed)) (wino wr) (wpend wr) (wnow w) W
              (fun E => rname_not_cname c _ (eq_sym E)) Hc Ht) as [f1 [Er R]].
  cbn zeta in R. destruct R as [L1c [Hino1 [W3 [Hnew [L3c [L3t [L3o [Hlen [Inew [Iold Ioth]]]]]]]]]].
  pose proof (p_rename_quiet w (cname c) (rname c (length closed)) Q) as PR. rewrite Er in PR.
  destruct PR as [w1 [Epr [F1 S1]]]. rewrite Epr.
  unfold open_log_file. rewrite (name_of_fixed c w1) by assumption. fold (nm c cur_infix) (cname c).
  unfold do_symlink. rewrite Hlink.
  assert (D1 : match file_of (wfs w1) (cname c) with Some fl => fdir fl = false | None => True end).
  { unfold file_of. rewrite F1, L1c. exact Logic.I. }
  destruct (p_open_quiet w1 (cname c) (c_append c) (proj1 S1) D1) as [w2 [Eop [F2 S2]]]. rewrite Eop.
  assert (Eopen : (if c_append c then open_append (wfs w1) (cname c) (wnow w1) else open_trunc (wfs w1) (cname c) 0%N (wnow w1))
                  = create_file f1 (cname c) 0%N (wnow w)).
  { rewrite F1. destruct S1 as [_ [-> _]]. destruct (c_append c); [apply open_append_fresh | apply open_trunc_fresh]; exact L1c. }
  rewrite Eopen in *. clear Eopen.
  unfold w_drop. destruct (w_flush_quiet w2 wr (proj1 S2)) as [w3 [Efl [F3 S3]]]. rewrite Efl. cbn [fst snd].
  unfold cleanup_or_queue. cbn [mk_rs rs_roll rs_naming rs_cleanup rs_bg cleanup_impl].
  set (new := snd (create_file f1 (cname c) 0%N (wnow w))) in *.
  set (f3 := append_ino (fst (create_file f1 (cname c) 0%N (wnow w))) (wino wr) (wpend wr)) in *.
  assert (F3' : wfs w3 = f3) by (rewrite F3, F2; reflexivity).
  set (wr' := {| wino := new; wpend := []; wcap := c_cap c |}).
  exists w3, wr', (reset_size_and_date w3 roll (cname c)).
  assert (Elen : N.of_nat (length (closed ++ [cur_view w wr])) = (N.of_nat (length closed) + 1)%N).
  { rewrite app_length. cbn [length]. lia. }
  split. { rewrite Elen. reflexivity. }
  assert (SE : same_env w w3) by (eapply same_env_trans; [eapply same_env_trans|]; eassumption).
  pose proof (wf_bound _ W _ _ Hc) as Hold.
  split.
  { constructor.
    - exact (proj1 S3).
    - rewrite F3'. exact W3.
    - rewrite F3'. exact L3c.
    - rewrite F3'. cbn [wr' wino]. rewrite Inew. split; reflexivity.
    - intros i Hi. rewrite app_length in Hi. cbn [length] in Hi. rewrite F3'.
      destruct (Nat.eq_dec i (length closed)) as [->|Hne].
      + exists (wino wr). split; [exact L3t|]. split.
        * rewrite Iold. exact Hcp.
        * unfold content at 1. rewrite Iold. cbn [with_data fdata]. rewrite app_nth2, Nat.sub_diag by lia. reflexivity.
      + assert (Hi' : i < length closed) by lia. destruct (Hcl i Hi') as [j [Lj [Pj Cj]]].
        exists j. rewrite L3o; [|apply rname_not_cname | intros E; apply rname_inj in E; lia].
        split; [exact Lj|].
        assert (Hj1 : j <> new). { pose proof (wf_bound _ W _ _ Lj). rewrite Hnew. lia. }
        assert (Hj2 : j <> wino wr). { intros ->. pose proof (wf_inj _ W _ _ _ Lj Hc) as E. exact (rname_not_cname _ _ E). }
        unfold content. rewrite Ioth by assumption. split; [exact Pj|]. rewrite app_nth1 by assumption. exact Cj.
    - intros n j Hn. rewrite F3' in Hn.
      destruct (beq_spec n (cname c)) as [->|Hn1]; [left; reflexivity|].
      destruct (beq_spec n (rname c (length closed))) as [->|Hn2].
      + right. exists (length closed). rewrite app_length. cbn [length]. split; [lia | reflexivity].
      + rewrite L3o in Hn by assumption. destruct (Hon _ _ Hn) as [E|[i [Hi E]]]; [contradiction|].
        right. exists i. rewrite app_length. cbn [length]. split; [lia | exact E].
    - unfold wr_ok, wr'. cbn. destruct (c_cap c); [lia | reflexivity].
    - reflexivity. }
  split. { unfold cur_view. rewrite F3'. cbn [wr' wino wpend]. unfold content. rewrite Inew. reflexivity. }
  split. { destruct roll; cbn; auto. }
  split; [exact SE|].
  (* the new file was born now *)
  assert (B : birth_or_now w3 (cname c) = wnow w).
  { unfold birth_or_now, file_of. rewrite F3', L3c, Inew. reflexivity. }
  intros st Hst. destruct crit, roll; cbn [roll_ok reset_size_and_date] in *; try contradiction; rewrite ?B; tauto.
Qed.

(* ---- a write on an active writer ---- *)
Lemma write_active_t c crit w wr closed roll b :
  numcfg c crit -> NumInv c w wr closed -> roll_size_ok roll (length (cur_view w wr)) ->
  let rot := rotation_necessary w roll in
  exists w' wr' roll' closed',
    write_buffer (st_of c (length closed) roll wr) w b = (Ok tt, w', st_of c (length closed') roll' wr', rot)
    /\ NumInv c w' wr' closed' /\ roll_size_ok roll' (length (cur_view w' wr')) /\ same_env w w'
    /\ (closed', cur_view w' wr') = (if rot then (closed ++ [cur_view w wr], b) else (closed, cur_view w wr ++ b))
    /\ (forall st, roll_ok crit st roll -> roll_ok crit (if rot then wnow w else st) roll').
Proof.
  intros Hcfg I Hsz rot.
  unfold write_buffer, st_of. cbn [f_cfg f_inner f_poisoned mk_rs rs_roll]. fold rot.
  assert (M : exists w1 wr1 roll1 closed1,
            mount_next c w (Active (Some (mk_rs (NSNumR (N.of_nat (length closed))) roll)) wr (cname c)) false
            = (Ok tt, w1, Active (Some (mk_rs (NSNumR (N.of_nat (length closed1))) roll1)) wr1 (cname c))
            /\ NumInv c w1 wr1 closed1 /\ roll_size_ok roll1 (length (cur_view w1 wr1)) /\ same_env w w1
            /\ (closed1, cur_view w1 wr1) = (if rot then (closed ++ [cur_view w wr], []) else (closed, cur_view w wr))
            /\ (forall st, roll_ok crit st roll -> roll_ok crit (if rot then wnow w else st) roll1)).
  { destruct rot eqn:Er.
    - destruct (mount_next_rotates_t c crit w wr closed roll false Hcfg I) as [w1 [wr1 [roll1 [E [I1 [V1 [Z1 [S1 R1]]]]]]]]; [exact Er|].
      exists w1, wr1, roll1, (closed ++ [cur_view w wr]). rewrite V1.
      split; [exact E|]. split; [exact I1|]. split; [exact Z1|]. split; [exact S1|]. split; [reflexivity | exact R1].
    - exists w, wr, roll, closed. split.
      + unfold mount_next. cbn [mk_rs rs_roll orb]. unfold rot in Er. rewrite Er. reflexivity.
      + split; [exact I|]. split; [exact Hsz|]. split; [apply same_env_refl; apply I|]. split; [reflexivity | auto]. }
  destruct M as [w1 [wr1 [roll1 [closed1 [E [I1 [Z1 [S1 [V1 R1]]]]]]]]].
  rewrite E.
  destruct (w_write_quiet w1 wr1 b (ni_quiet _ _ _ _ I1) (ni_wr _ _ _ _ I1)) as [w2 [wr2 [fl [Ew [S2 [F2 [Ei [Ec [Ep Hok]]]]]]]]].
  rewrite Ew.
  destruct (numinv_append c w1 w2 wr1 wr2 closed1 fl I1 F2 S2 Ei Ec Hok) as [I2 C2].
  exists w2, wr2, (increase_size roll1 (N.of_nat (length b))), closed1.
  assert (V2 : cur_view w2 wr2 = cur_view w1 wr1 ++ b).
  { unfold cur_view. rewrite C2, <- !app_assoc, Ep. reflexivity. }
  split; [reflexivity|]. split; [exact I2|].
  split. { rewrite V2, app_length. apply roll_size_increase. exact Z1. }
  split; [eapply same_env_trans; eassumption|].
  split. { rewrite V2. destruct rot; injection V1 as -> ->; reflexivity. }
  intros st Hst. apply roll_ok_increase. apply R1. exact Hst.
Qed.

(* ---- the first write initialises the writer: empty directory; the file is born now ---- *)
Lemma initialize_empty_t c crit w :
  numcfg c crit -> quiet w -> names (wfs w) = [] -> inodes (wfs w) = [] ->
  exists w' wr roll,
    initialize c w = (Ok (Active (Some (mk_rs (NSNumR 0) roll)) wr (cname c)), w')
    /\ NumInv c w' wr [] /\ cur_view w' wr = [] /\ roll_size_ok roll 0 /\ same_env w w'
    /\ roll_ok crit (wnow w) roll.
Proof.
  intros [Hrot [Hts [Hlink _]]] Q Hn Hi.
  unfold initialize. rewrite Hrot. unfold init_naming, index_for_rcurrent, with_listing.
  rewrite tick_quiet by assumption.
  unfold get_highest_index, list_log_gz. rewrite existing_rot_empty by assumption. cbn [filter_map_opt max_opt bind].
  assert (E0 : (if negb (c_append c)
                then let '(r, w1) := p_rename w (name_of c w (Some cur_infix)) (name_of c w (Some (number_infix 0))) in
                     match r with ROk => (Ok (0 + 1)%N, w1) | RNotFound => (Ok 0%N, w1) | RErr => (Err, w1) end
                else (Ok 0%N, w)) = (Ok 0%N, w)).
  { destruct (negb (c_append c)); [|reflexivity].
    pose proof (p_rename_quiet w (name_of c w (Some cur_infix)) (name_of c w (Some (number_infix 0))) Q) as PR.
    rewrite rename_none in PR by (apply lookup_empty; assumption). rewrite PR. reflexivity. }
  rewrite E0. cbn [bind].
  unfold open_log_file. rewrite (name_of_fixed c w) by assumption. fold (nm c cur_infix) (cname c).
  unfold do_symlink. rewrite Hlink.
  assert (D1 : match file_of (wfs w) (cname c) with Some fl => fdir fl = false | None => True end).
  { unfold file_of. rewrite lookup_empty by assumption. exact Logic.I. }
  destruct (p_open_quiet w (cname c) (c_append c) Q D1) as [w2 [Eop [F2 S2]]]. rewrite Eop.
  assert (Eopen : (if c_append c then open_append (wfs w) (cname c) (wnow w) else open_trunc (wfs w) (cname c) 0%N (wnow w))
                  = create_file (wfs w) (cname c) 0%N (wnow w)).
  { destruct (c_append c); [apply open_append_fresh | apply open_trunc_fresh]; apply lookup_empty; assumption. }
  rewrite Eopen in *. clear Eopen. cbn [bind fst snd].
  unfold create_file in F2. cbn [fst snd] in F2. rewrite Hn, Hi in F2. cbn [length app] in F2.
  unfold create_file. cbn [snd]. rewrite Hi. cbn [length].
  set (wr := {| wino := 0; wpend := []; wcap := c_cap c |}).
  assert (Lc : lookup (wfs w2) (cname c) = Some 0) by (rewrite F2; unfold lookup; cbn; rewrite beq_refl; reflexivity).
  assert (Fo : file_of (wfs w2) (cname c) = Some (fresh_file (wnow w))) by (unfold file_of; rewrite Lc, F2; reflexivity).
  assert (RN : exists roll, roll_new w2 crit (c_append c) (cname c) = (Ok roll, w2) /\ roll_size_ok roll 0
               /\ roll_ok crit (wnow w) roll).
  { unfold roll_new, birth_or_now. destruct (c_append c).
    - rewrite tick_quiet by apply S2. rewrite Fo. cbn [fresh_file fdata fborn length].
      eexists. split; [reflexivity|]. split; destruct crit; cbn; rewrite ?Fo; cbn; auto.
    - rewrite Fo. cbn [fresh_file fborn]. eexists. split; [reflexivity|]. split; destruct crit; cbn; rewrite ?Fo; cbn; auto. }
  destruct RN as [roll [Ern [Z R]]]. rewrite Ern. cbn [bind].
  exists w2, wr, roll. split; [reflexivity|].
  split.
  { constructor.
    - apply S2.
    - rewrite F2. split.
      + intros a j. unfold lookup; cbn. destruct (beq (cname c) a); [|discriminate]. intros E; injection E as <-. lia.
      + intros a b j. unfold lookup; cbn. destruct (beq_spec (cname c) a), (beq_spec (cname c) b); try discriminate. congruence.
    - exact Lc.
    - rewrite F2. split; reflexivity.
    - cbn [length]. intros i Hi'. lia.
    - intros n j. rewrite F2. unfold lookup; cbn. destruct (beq_spec (cname c) n); [auto | discriminate].
    - unfold wr_ok, wr. cbn. destruct (c_cap c); [lia | reflexivity].
    - reflexivity. }
  split. { unfold cur_view, content, inode. rewrite F2. reflexivity. }
  split; [exact Z|]. split; [exact S2 | exact R].
Qed.

(* ------------------------------------------------------------------ the timed abstract view *)
Definition tfile := (Z * bytes)%type.                       (* (instant at which the file was started, content) *)
Definition tview := option (list tfile * tfile).            (* closed files in order, current file *)

Definition untime (v : tview) : aview :=
  match v with None => None | Some (cl, (_, cu)) => Some (List.map snd cl, cu) end.

(* the timed specification: one operation at clock value t *)
Definition t_step (crit : criterion) (off : Z) (v : tview) (t : Z) (o : op) : tview :=
  match o with
  | OWrite b | OPlain b =>
    match v with
    | None => Some ([], (t, b))
    | Some (cl, (st, cu)) =>
      if due crit off st cu t then Some (cl ++ [(st, cu)], (t, b)) else Some (cl, (st, cu ++ b))
    end
  | OTrigger => match v with Some (cl, cur) => Some (cl ++ [cur], (t, [])) | None => None end
  | _ => v
  end.

Definition clock (t : Z) (o : op) : Z := match o with OTick dt => (t + dt)%Z | _ => t end.
Definition clock_run (t : Z) (ops : list op) : Z := fold_left clock ops t.

Fixpoint t_run (crit : criterion) (off : Z) (v : tview) (t : Z) (ops : list op) : tview :=
  match ops with
  | [] => v
  | o :: r => t_run crit off (t_step crit off v t o) (clock t o) r
  end.

(* the rotation flag a write at t reports *)
Definition t_flag (crit : criterion) (off : Z) (v : tview) (t : Z) : bool :=
  match v with None => false | Some (_, (st, cu)) => due crit off st cu t end.

(* the invariant *)
Definition RelT (c : config) (crit : criterion) (x : sys) (v : tview) : Prop :=
  s_tl x = [] /\ wacts (s_w x) = 0 /\
  match v with
  | None => s_flw x = Some (new_flw c) /\ quiet (s_w x) /\ names (wfs (s_w x)) = [] /\ inodes (wfs (s_w x)) = []
  | Some (cl, (st, cu)) =>
    exists wr roll, s_flw x = Some (st_of c (length (List.map snd cl)) roll wr) /\ NumInv c (s_w x) wr (List.map snd cl)
      /\ cur_view (s_w x) wr = cu /\ roll_size_ok roll (length cu) /\ roll_ok crit st roll
  end.

Lemma RelT_Rel c crit x v : RelT c crit x v -> Rel c crit x (untime v).
Proof.
  intros [Ht [Ha R]]. split; [exact Ht|]. split; [exact Ha|].
  destruct v as [[cl [st cu]]|]; cbn [untime]; [|exact R].
  destruct R as [wr [roll [Es [I [V [Z K]]]]]]. exists wr, roll.
  split; [exact Es|]. split; [exact I|]. split; [exact V|]. split; [exact Z|].
  intros m Hm. exact (roll_ok_size _ _ _ _ K Hm).
Qed.

(* what a write does, from either kind of state *)
Lemma write_relT c crit x v b :
  numcfg c crit -> RelT c crit x v ->
  exists s w' s', s_flw x = Some s /\ f_poisoned s = false /\
    write_buffer s (s_w x) b = (Ok tt, w', s', t_flag crit (woff (s_w x)) v (wnow (s_w x)))
    /\ RelT c crit {| s_flw := Some s'; s_w := w'; s_tl := []; s_dead := s_dead x |}
            (t_step crit (woff (s_w x)) v (wnow (s_w x)) (OWrite b))
    /\ same_env (s_w x) w'.
Proof.
  intros Hcfg [Ht [Ha R]]. destruct v as [[cl [st cu]]|].
  - destruct R as [wr [roll [Es [I [V [Z K]]]]]].
    rewrite <- V in Z.
    destruct (write_active_t c crit (s_w x) wr (List.map snd cl) roll b Hcfg I Z) as [w' [wr' [roll' [closed' [E [I' [Z' [S' [V' R']]]]]]]]].
    assert (D : rotation_necessary (s_w x) roll = due crit (woff (s_w x)) st cu (wnow (s_w x))).
    { apply roll_decision; [exact K | rewrite <- V; exact Z]. }
    exists (st_of c (length (List.map snd cl)) roll wr), w', (st_of c (length closed') roll' wr').
    split; [exact Es|]. split; [reflexivity|]. cbn [t_flag]. rewrite <- D. split; [exact E|].
    split; [|exact S'].
    split; [reflexivity|]. split; [cbn [s_w]; exact (same_env_acts _ _ S' Ha)|].
    cbn [t_step]. rewrite <- D. rewrite V in V'. specialize (R' st K).
    destruct (rotation_necessary (s_w x) roll); injection V' as -> V''; exists wr', roll'; cbn [s_flw s_w].
    + rewrite map_app. cbn [List.map snd].
      split; [reflexivity|]. split; [exact I'|]. split; [exact V''|]. split; [rewrite <- V''; exact Z' | exact R'].
    + split; [reflexivity|]. split; [exact I'|]. split; [exact V''|]. split; [rewrite <- V''; exact Z' | exact R'].
  - destruct R as [Es [Q [Hn Hi]]].
    destruct (initialize_empty_t c crit (s_w x) Hcfg Q Hn Hi) as [w1 [wr [roll [Ei [I [V [Z [S1 K]]]]]]]].
    assert (Z0 : roll_size_ok roll (length (cur_view w1 wr))) by (rewrite V; exact Z).
    destruct (write_active_t c crit w1 wr [] roll b Hcfg I Z0) as [w' [wr' [roll' [closed' [E [I' [Z' [S' [V' R']]]]]]]]].
    assert (D : rotation_necessary w1 roll = false).
    { rewrite (roll_decision crit w1 (wnow (s_w x)) roll [] K Z).
      destruct S1 as [_ [-> _]]. apply due_self. }
    rewrite D in *.
    exists (new_flw c), w', (st_of c (length closed') roll' wr').
    split; [exact Es|]. split; [reflexivity|].
    split. { rewrite (write_buffer_init c (s_w x) b _ _ _ w1 Ei). exact E. }
    split; [|eapply same_env_trans; eassumption].
    split; [reflexivity|]. split; [cbn [s_w]; exact (same_env_acts _ _ (same_env_trans _ _ _ S1 S') Ha)|].
    cbn [t_step]. rewrite V in V'. cbn [app] in V'. injection V' as -> V''.
    exists wr', roll'. cbn [s_flw s_w List.map].
    split; [reflexivity|]. split; [exact I'|]. split; [exact V''|]. split; [rewrite <- V''; exact Z' | exact (R' _ K)].
Qed.

Lemma step_sync_relT c crit x v o : numcfg c crit -> RelT c crit x v -> step x o = sync_step x o.
Proof. intros Hcfg R. exact (step_sync_rel c crit x _ o Hcfg (RelT_Rel _ _ _ _ R)). Qed.

(* one basic operation *)
Lemma step_relT c crit x v o :
  numcfg c crit -> RelT c crit x v -> basic_op o ->
  let '(x', ob) := step x o in
  RelT c crit x' (t_step crit (woff (s_w x)) v (wnow (s_w x)) o)
  /\ woff (s_w x') = woff (s_w x) /\ wnow (s_w x') = clock (wnow (s_w x)) o
  /\ (forall b, (o = OWrite b \/ o = OPlain b) -> ob = ObsRes 0 (t_flag crit (woff (s_w x)) v (wnow (s_w x)))).
Proof.
  intros Hcfg R Hb. rewrite (step_sync_relT c crit x v o Hcfg R). destruct o; try contradiction; cbn [sync_step clock].
  - (* OWrite *)
    destruct (write_relT c crit x v b Hcfg R) as [s [w' [s' [Es [Hp [E [R' S']]]]]]].
    rewrite Es, Hp. rewrite (proj1 R). cbn [app]. rewrite E. cbn [s_w].
    split; [exact R'|]. split; [apply S'|]. split; [apply S'|]. intros b0 _. reflexivity.
  - (* OPlain *)
    destruct (write_relT c crit x v b Hcfg R) as [s [w' [s' [Es [Hp [E [R' S']]]]]]].
    rewrite Es, Hp, E. cbn [code_of s_w]. rewrite (proj1 R).
    split; [exact R'|]. split; [apply S'|]. split; [apply S'|]. intros b0 _. reflexivity.
  - (* OFlush *)
    destruct R as [Ht [Ha R]]. destruct v as [[cl [st cu]]|].
    + destruct R as [wr [roll [Es [I [V [Z K]]]]]]. rewrite Es. cbn [st_of f_poisoned].
      destruct (flush_active c (s_w x) wr (List.map snd cl) roll I) as [w' [wr' [E [I' [V' [P' S']]]]]].
      rewrite E. cbn [t_step s_w].
      split; [|split; [apply S' | split; [apply S' | intros b [H|H]; discriminate]]].
      split; [exact Ht|]. split; [exact (same_env_acts _ _ S' Ha)|]. exists wr', roll. cbn [s_flw s_w].
      split; [reflexivity|]. split; [exact I'|]. split; [congruence|]. split; assumption.
    + destruct R as [Es R]. rewrite Es. cbn [new_flw f_poisoned flush_state f_inner t_step s_w].
      split; [|split; [reflexivity | split; [reflexivity | intros b [H|H]; discriminate]]].
      split; [exact Ht|]. split; [exact Ha|]. split; [reflexivity | exact R].
  - (* OTrigger *)
    destruct R as [Ht [Ha R]]. destruct v as [[cl [st cu]]|].
    + destruct R as [wr [roll [Es [I [V [Z K]]]]]]. rewrite Es. cbn [st_of f_poisoned f_cfg f_inner].
      destruct (mount_next_rotates_t c crit (s_w x) wr (List.map snd cl) roll true Hcfg I eq_refl) as [w' [wr' [roll' [E [I' [V' [Z' [S' R']]]]]]]].
      rewrite E. cbn [t_step code_of with_inner f_cfg f_poisoned s_w].
      split; [|split; [apply S' | split; [apply S' | intros b [H|H]; discriminate]]].
      split; [exact Ht|]. split; [exact (same_env_acts _ _ S' Ha)|]. rewrite V in *. exists wr', roll'. cbn [s_flw s_w].
      rewrite map_app. cbn [List.map snd].
      split; [reflexivity|]. split; [exact I'|]. split; [exact V'|]. split; [exact Z' | exact (R' _ K)].
    + destruct R as [Es R]. rewrite Es. cbn [new_flw f_poisoned f_cfg f_inner mount_next with_inner t_step code_of s_w].
      split; [|split; [reflexivity | split; [reflexivity | intros b [H|H]; discriminate]]].
      split; [exact Ht|]. split; [exact Ha|]. split; [reflexivity | exact R].
  - (* OTick *)
    cbn [t_step s_w set_now woff wnow].
    split; [|split; [reflexivity | split; [reflexivity | intros b [H|H]; discriminate]]].
    destruct R as [Ht [Ha R]]. split; [exact Ht|]. split; [exact Ha|]. destruct v as [[cl [st cu]]|].
    + destruct R as [wr [roll [Es [I [V [Z K]]]]]]. exists wr, roll. cbn [s_flw s_w].
      split; [exact Es|]. split; [apply (numinv_env c (s_w x)); [exact I | reflexivity | apply I]|].
      split; [exact V|]. split; assumption.
    + cbn [s_flw s_w]. exact R.
  - (* OSnap *)
    cbn [t_step]. split; [exact R|]. split; [reflexivity|]. split; [reflexivity | intros b [H|H]; discriminate].
Qed.

(* a whole run: the invariant, the clock, and every rotation flag *)
Lemma run_relT c crit : numcfg c crit -> forall ops x v, RelT c crit x v -> Forall basic_op ops ->
  let off := woff (s_w x) in let t := wnow (s_w x) in
  RelT c crit (fst (run x ops)) (t_run crit off v t ops)
  /\ woff (s_w (fst (run x ops))) = off /\ wnow (s_w (fst (run x ops))) = clock_run t ops
  /\ (forall i o, nth_error ops i = Some o -> forall b, (o = OWrite b \/ o = OPlain b) ->
        nth_error (snd (run x ops)) i
        = Some (ObsRes 0 (t_flag crit off (t_run crit off v t (firstn i ops)) (clock_run t (firstn i ops))))).
Proof.
  intros Hcfg. induction ops as [|o r IH]; intros x v R Hb; cbn zeta.
  - split; [exact R|]. split; [reflexivity|]. split; [reflexivity|]. intros i o H. destruct i; discriminate.
  - cbn [run]. inversion Hb as [|o' r' Ho Hr]; subst.
    pose proof (step_relT c crit x v o Hcfg R Ho) as S. destruct (step x o) as [x1 ob] eqn:Est.
    destruct S as [R1 [O1 [N1 F1]]]. specialize (IH x1 _ R1 Hr). cbn zeta in IH. rewrite O1, N1 in IH.
    destruct (run x1 r) as [x2 obs] eqn:Er. cbn [fst snd] in *.
    destruct IH as [IH1 [IH2 [IH3 IH4]]].
    split; [exact IH1|]. split; [exact IH2|]. split; [exact IH3|].
    intros i o0 Hi b Hw. destruct i as [|i].
    + cbn in Hi. injection Hi as <-. cbn [nth_error firstn t_run clock_run fold_left]. f_equal. exact (F1 b Hw).
    + cbn [nth_error firstn t_run clock_run fold_left] in *. exact (IH4 i o0 Hi b Hw).
Qed.
