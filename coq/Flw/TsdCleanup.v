(* TimestampsDirect naming with a cleanup strategy: "the cleanup keeps exactly the newest files, compresses losslessly and
   spares the file that is being written", end to end, for every history  OStart c :: ops ++ [OStop]  of basic operations
   from the empty directory with a clock that does not go backwards.  Parts: GenCleanup.v (the cleanup on abstractly named
   files), TsCleanupNames.v (the listing of the cleanup is the keys in descending order; collision_free_infix after
   cleanups), TsdCleanupRun.v (invariant, rotation, run; theorem timestampsdirect_cleanup_stream).  Here: the properties
   spelled out (timestampsdirect_cleanup), no operation fails or panics (timestampsdirect_cleanup_no_panic), the version
   for a size criterion, examples, and the counterexamples that show that the hypotheses are necessary.

   WHAT THE MODEL DOES (determined by vm_compute, see the examples at the end).  The files are named by keys (second in
   which the file was started, position within that second): r<time stamp>, r<time stamp>.restart-0000, ...; `keys` lists the
   keys of ALL files ever written in the order of writing, L = number of closed files, the file being written has the key at
   position L.  As for NumbersDirect naming there is no rCURRENT, the file being written is the first entry of the listing
   that the cleanup works on and COUNTS for the first limit; cleanup_impl raises a first limit of 0 to 1 for the direct
   namings; besides (repaired code) the cleanup is told which file it is and skips it - CurrentSpared.v.  With (n, m) = klimd k = (max 1 n0, m) for KeepLogAndCompressedFiles(n0, m):
     - the plain files are those of the keys at the positions L+1-n .. L: the current file and the newest n - 1 closed files;
     - the archives are the m closed files before them, each with exactly the content of the file it replaces;
     - everything older is gone; the current file is never compressed or removed.
   The listing of the cleanup is in DESCENDING KEY ORDER - for different seconds by the time-stamp text, within a second by
   the restart counter -; this needs a clock that does not go backwards: see clock_backwards_current_removed. *)
Require Import FL.Base.Bytes FL.Base.BytesFacts FL.Base.PathName FL.Fs.Fs FL.Fs.FsFacts FL.Time.Civil FL.Time.TsFormat
  FL.Names.FileSpec FL.Names.NamesFacts FL.Names.SortFacts FL.Names.FamilyFacts FL.Flw.Model FL.Flw.ModelFacts FL.Flw.NumFs
  FL.Flw.NumInv FL.Flw.Run FL.Flw.RunFacts FL.Flw.NumRun FL.Oracles.O_Flw FL.Flw.NumTheorems FL.Flw.NumListing FL.Flw.CleanupFacts
  FL.Flw.NumKillRestart FL.Flw.NumDInv FL.Flw.NumDRun FL.Flw.NumRestart
  FL.Flw.NumCleanupNames FL.Flw.NumCleanupStep FL.Flw.NumCleanupRun FL.Flw.NumCleanup FL.Flw.NumDCleanupStep FL.Flw.NumDCleanupRun
  FL.Flw.TsCal FL.Flw.TsTime FL.Flw.TsNames FL.Flw.TsInv FL.Flw.TsRun FL.Flw.TsTheorems FL.Flw.TsReader FL.Flw.TsdInv FL.Flw.TsdRun FL.Flw.TsdTheorems
  FL.Flw.GenCleanup FL.Flw.TsCleanupNames FL.Flw.TsdCleanupRun.
From Coq Require Import ZifyN ZifyNat ZifyBool.
Open Scope nat_scope.

(* ------------------------------------------------------------------ the final directory, name by name *)
Lemma gdir_names nmf cn f all lo mid : gdir nmf cn f all lo mid -> lookup f cn = None ->
  forall x, (exists j, lookup f x = Some j) <->
    (exists i, mid <= i < length all /\ x = nmf i) \/ (exists i, lo <= i < mid /\ x = gzf nmf i).
Proof.
  intros [Hle Hnd Hp Ha Hon] Hnc x. split.
  - intros [j Lj]. destruct (Hon _ _ Lj) as [->|[(i & Hi & ->)|(i & Hi & ->)]].
    + congruence.
    + left. exists i. split; [lia | reflexivity].
    + right. exists i. split; [lia | reflexivity].
  - intros [(i & Hi & ->)|(i & Hi & ->)].
    + destruct (Hp i ltac:(lia)) as (j & Lj & _). eauto.
    + destruct (Ha i Hi) as (j & Lj & _). eauto.
Qed.

(* ------------------------------------------------------------------ 1. THE PROPERTIES *)
(* (n, m) = klimd k: n = number of plain files kept, the file being written INCLUDED (n >= 1); m = number of files kept
   as archives.  closed, cur: the reader's view that the run would leave without cleanup (timestampsdirect_cleanup_vs_never; with a
   size criterion it is the greedy partition, timestampsdirect_cleanup_partition) (the contents of the closed files
   in the order of writing, and of the file being written).  K i: the name of the i-th file, G i: the name of its archive. *)
Theorem timestampsdirect_cleanup c crit k n m t0 off ops closed cur :
  tsdkcfg c crit k -> klimd k = Some (n, m) -> tag_ok c -> sfx_ok (c_spec c) ->
  Forall basic_op ops -> Forall tick_ok ops ->
  (0 <= t0 + ts_e c off)%Z -> (t0 + elapsed ops + ts_e c off < sec_max)%Z -> (N.of_nat (length ops) <= usize_max)%N ->
  a_run None ops (snd (run (fst (step (sys0 t0 off) (OStart c))) ops)) = Some (closed, cur) ->
  let f := wfs (s_w (fst (run (sys0 t0 off) (OStart c :: ops ++ [OStop])))) in
  let L := length closed in let lo := S L - (n + m) in let mid := S L - n in
  (* what was written *)
  concat closed ++ cur = written ops
  /\ exists keys : list key,
       let K i := kname c (ts_e c off) (nth i keys kd) in
       let G i := gz_name (K i) in
       (* the keys: one for every file ever written; seconds non-decreasing, within a second the positions 0, 1, 2, .. *)
       length keys = S L /\ keys_ok keys /\ (forall key, In key keys -> (t0 <= fst key <= t0 + elapsed ops)%Z)
       (* exactly these names exist, each once: the current file is among the plain ones; there is no rCURRENT *)
       /\ (forall x, (exists j, lookup f x = Some j) <->
             (exists i, mid <= i <= L /\ x = K i) \/ (exists i, lo <= i < mid /\ x = G i))
       /\ NoDup (dir_names f)
       /\ lookup f (cname c) = None
       (* (a) the limits: at most n plain files, the current one included (so at most n - 1 closed ones), at most m archives;
              the next cleanup would see them like this: NEWEST KEY FIRST, the plain files, then the archives *)
       /\ 1 <= n /\ mid <= L /\ S L - mid <= n /\ mid - lo <= m
       /\ (forall off', list_log_gz off' (c_spec c) (fixed0 c) f (IFTs std_fmt)
                        = Some (rev (map K (seq mid (S L - mid))) ++ rev (map G (seq lo (mid - lo)))))
       (* the newest n - 1 closed files are there as they were closed *)
       /\ (forall i, mid <= i < L -> lookup f (G i) = None /\
             exists fl, file_of f (K i) = Some fl /\ fdata fl = nth i closed [] /\ fgz fl = 0%N /\ fdir fl = false)
       (* (c) the next m are complete archives of what the file held when it was closed; the original is gone *)
       /\ (forall i, lo <= i < mid -> lookup f (K i) = None /\
             exists fl, file_of f (G i) = Some fl /\ fdata fl = nth i closed [] /\ fgz fl = 1%N /\ fdir fl = false)
       (* older files are gone *)
       /\ (forall i, i < lo -> lookup f (K i) = None /\ lookup f (G i) = None)
       (* (b) the survivors, read in key order (the last one is the current file): a suffix of what was written *)
       /\ written ops = concat (firstn lo closed) ++ concat (map (fun i => data_at f (if mid <=? i then K i else G i)) (seq lo (S L - lo)))
       (* (d) the current file is never compressed or removed: it is plain and holds what it would hold without cleanup *)
       /\ lookup f (G L) = None
       /\ (exists fl, file_of f (K L) = Some fl /\ fdata fl = cur /\ fgz fl = 0%N /\ fdir fl = false).
Proof.
  intros Hcfg Hk T Hsfx Hb Htk Hlo Hhi Hmax Ea f L lo mid.
  pose proof (timestampsdirect_cleanup_stream c crit k t0 off ops Hcfg T Hsfx Hb Htk Hlo Hhi Hmax) as S. cbv zeta in S. rewrite Ea in S. fold f in S.
  destruct S as [Fl [[keys [V [Hko Hrg]]] _]]. cbn [flat] in Fl. split; [exact Fl|].
  unfold d_lo, d_mid in V. rewrite Hk in V. fold L lo mid in V.
  pose proof (klimd_pos _ _ _ Hk) as Hn.
  destruct V as (Hlen & KD & Hmid & Hnc). fold L in Hlen, Hmid.
  exists keys. cbv zeta. set (e := ts_e c off) in *.
  set (all := closed ++ [cur]) in *.
  assert (Elen : length all = S L) by (unfold all; apply glen_snoc).
  assert (Y : years_ok e t0 (t0 + elapsed ops)) by (split; assumption).
  assert (Yk : forall key, In key keys -> in_years e (fst key)).
  { intros key Ik. apply (years_in e t0 (t0 + elapsed ops)); [exact Y | exact (Hrg key Ik)]. }
  assert (Hlen' : length keys = length all) by (rewrite Elen; exact Hlen).
  pose proof (gnames_ts c e keys Hsfx Hko Yk) as GN. rewrite Hlen in GN.
  pose proof (gdir_names _ _ _ _ _ _ KD Hnc) as Names. rewrite Elen in Names.
  pose proof KD as [Hle Hnd Hp Ha Hon]. rewrite Elen in Hle, Hp, Hon.
  assert (Nth1 : forall i, i < L -> nth i all [] = nth i closed []) by (intros i Hi; unfold all; apply app_nth1; exact Hi).
  assert (NthL : nth L all [] = cur) by (unfold all, L; rewrite app_nth2, Nat.sub_diag by lia; reflexivity).
  assert (NoName : forall x, ~ ((exists i, mid <= i < S L /\ x = tname c e keys i) \/ (exists i, lo <= i < mid /\ x = gzf (tname c e keys) i)) ->
                   lookup f x = None).
  { intros x H. destruct (lookup f x) as [j|] eqn:E; [|reflexivity]. exfalso. apply H, Names. eauto. }
  assert (LG : forall off', list_log_gz off' (c_spec c) (fixed0 c) f (IFTs std_fmt) = Some (glisting (tname c e keys) lo mid (S L))).
  { intros off'. rewrite <- Elen. apply (list_log_gz_ts c e off' f keys all lo mid Hsfx Hko Yk Hlen' KD). }
  assert (Data : forall i, lo <= i < S L -> data_at f (gentry (tname c e keys) mid i) = nth i all []).
  { intros i Hi. unfold data_at, file_of. destruct (Nat.le_gt_cases mid i) as [H|H].
    - rewrite gentry_plain by exact H. destruct (Hp i ltac:(lia)) as (j & -> & _ & Cj). exact Cj.
    - rewrite gentry_arch by exact H. destruct (Ha i ltac:(lia)) as (j & -> & Dj & _). exact Dj. }
  split; [exact Hlen|]. split; [exact Hko|]. split; [exact Hrg|].
  split.
  { intros x. rewrite (Names x). split; (intros [(i & Hi & ->)|(i & Hi & ->)]; [left | right]; exists i; (split; [lia | reflexivity])). }
  split; [exact Hnd|]. split; [exact Hnc|].
  split; [exact Hn|]. split; [exact Hmid|]. split; [unfold mid; lia|]. split; [unfold lo, mid; lia|].
  split; [exact LG|].
  split.
  { intros i Hi. split.
    - apply NoName. intros [(j & Hj & X)|(j & Hj & X)].
      + apply (gzf_not_nmf _ _ _ GN) in X; [exact X | lia | lia].
      + apply (gzf_inj _ _ _ GN) in X; lia.
    - destruct (Hp i ltac:(lia)) as (j & Lj & [Gj Dj] & Cj). exists (inode f j). unfold file_of. fold (tname c e keys i). rewrite Lj.
      rewrite Nth1 in Cj by lia. auto. }
  split.
  { intros i Hi. split.
    - apply NoName. intros [(j & Hj & X)|(j & Hj & X)].
      + apply (gn_inj _ _ _ GN) in X; lia.
      + symmetry in X. apply (gzf_not_nmf _ _ _ GN) in X; [exact X | lia | lia].
    - destruct (Ha i Hi) as (j & Lj & Dj & Gj & Fj). exists (inode f j). unfold file_of. fold (tname c e keys i). fold (gzf (tname c e keys) i).
      rewrite Lj. rewrite Nth1 in Dj by lia. auto. }
  split.
  { intros i Hi. split; apply NoName; intros [(j & Hj & X)|(j & Hj & X)].
    - apply (gn_inj _ _ _ GN) in X; lia.
    - symmetry in X. apply (gzf_not_nmf _ _ _ GN) in X; [exact X | lia | lia].
    - apply (gzf_not_nmf _ _ _ GN) in X; [exact X | lia | lia].
    - apply (gzf_inj _ _ _ GN) in X; lia. }
  split.
  { change (fun i => data_at f (if mid <=? i then kname c e (nth i keys kd) else gz_name (kname c e (nth i keys kd))))
      with (fun i => data_at f (gentry (tname c e keys) mid i)).
    rewrite (map_seq_skipn (fun i => data_at f (gentry (tname c e keys) mid i)) all [] (S L - lo) lo); [|rewrite Elen; unfold lo; lia | rewrite Elen; exact Data].
    replace (firstn lo closed) with (firstn lo all) by (unfold all; rewrite firstn_app; replace (lo - length closed) with 0 by (fold L; lia); cbn [firstn]; apply app_nil_r).
    rewrite <- concat_app, firstn_skipn. unfold all. rewrite concat_app. cbn [concat]. rewrite app_nil_r. symmetry. exact Fl. }
  split.
  { apply NoName. intros [(j & Hj & X)|(j & Hj & X)].
    - apply (gzf_not_nmf _ _ _ GN) in X; [exact X | lia | lia].
    - apply (gzf_inj _ _ _ GN) in X; lia. }
  destruct (Hp L ltac:(lia)) as (j & Lj & [Gj Dj] & Cj). exists (inode f j). unfold file_of. fold (tname c e keys L). rewrite Lj.
  rewrite NthL in Cj. auto.
Qed.
Print Assumptions timestampsdirect_cleanup.

(* ------------------------------------------------------------------ 2. NO OPERATION FAILS OR PANICS *)
Theorem timestampsdirect_cleanup_no_panic c crit k t0 off ops :
  tsdkcfg c crit k -> tag_ok c -> sfx_ok (c_spec c) -> Forall basic_op ops -> Forall tick_ok ops ->
  (0 <= t0 + ts_e c off)%Z -> (t0 + elapsed ops + ts_e c off < sec_max)%Z -> (N.of_nat (length ops) <= usize_max)%N ->
  Forall obs_ok (snd (run (sys0 t0 off) (OStart c :: ops ++ [OStop]))).
Proof.
  intros Hcfg T Hsfx Hb Htk Hlo Hhi Hmax.
  pose proof (timestampsdirect_cleanup_stream c crit k t0 off ops Hcfg T Hsfx Hb Htk Hlo Hhi Hmax) as S. cbv zeta in S.
  exact (proj1 (proj2 (proj2 S))).
Qed.
Print Assumptions timestampsdirect_cleanup_no_panic.

(* ------------------------------------------------------------------ size criterion: the view is a function of the operations *)
(* C08 + cleanup: the closed files and the current file are the greedy partition of what was written *)
Theorem timestampsdirect_cleanup_partition c k m t0 off ops :
  tsdkcfg c (CSize m) k -> tag_ok c -> sfx_ok (c_spec c) -> Forall basic_op ops -> Forall tick_ok ops ->
  (0 <= t0 + ts_e c off)%Z -> (t0 + elapsed ops + ts_e c off < sec_max)%Z -> (N.of_nat (length ops) <= usize_max)%N ->
  let f := wfs (s_w (fst (run (sys0 t0 off) (OStart c :: ops ++ [OStop])))) in
  match s_run m None ops with
  | None => names f = []
  | Some (closed, cur) =>
    closed ++ [cur] = expected_files m None (items false ops)
    /\ exists keys, tsdk_view c (ts_e c off) f keys closed cur (d_lo k (length closed)) (d_mid k (length closed)) /\ keys_ok keys
  end.
Proof.
  intros Hcfg T Hsfx Hb Htk Hlo Hhi Hmax f.
  pose proof (timestampsdirect_cleanup_stream c (CSize m) k t0 off ops Hcfg T Hsfx Hb Htk Hlo Hhi Hmax) as S. cbv zeta in S.
  destruct S as (_ & V & _ & Z). rewrite (Z m eq_refl) in V. fold f in V.
  pose proof (s_run_none m ops Hb) as P.
  destruct (s_run m None ops) as [[closed cur]|]; [|exact V]. split; [exact P|].
  destruct V as [keys [V [K _]]]. exists keys. auto.
Qed.
Print Assumptions timestampsdirect_cleanup_partition.

(* ------------------------------------------------------------------ examples *)
Import String.StringSyntax.
Open Scope string_scope.

Definition tk_cfg (k : cleanup) (sfx : String.string) : config :=
  {| c_spec := ex_sp sfx; c_append := false; c_cap := Some 3%nat; c_rot := Some (CSize 100, NTimestampsDirect, k); c_utc := false;
     c_symlink := false; c_bg := false; c_async := false; c_start := None |}.
Definition tk_final (k : cleanup) (sfx : String.string) (ops : list op) : list (bytes * N * bytes) :=
  snap_of (fst (run (sys0 0 0) (OStart (tk_cfg k sfx) :: ops ++ [OStop]))).

(* ext_ops (TsTheorems.v): four files in second 0 ("a", "b", "c", "d": <ts>, restart-0000 .. restart-0002), then the clock
   advances, two files in second 1 ("e", "f").  Without cleanup: all six, the last one is the file being written *)
Example tk_never :
  tk_final KNever "log" ext_ops
  = [ (bs "app_r1970-01-01_00-00-00.log", 0%N, bs "a");
      (bs "app_r1970-01-01_00-00-00.restart-0000.log", 0%N, bs "b");
      (bs "app_r1970-01-01_00-00-00.restart-0001.log", 0%N, bs "c");
      (bs "app_r1970-01-01_00-00-00.restart-0002.log", 0%N, bs "d");
      (bs "app_r1970-01-01_00-00-01.log", 0%N, bs "e");
      (bs "app_r1970-01-01_00-00-01.restart-0000.log", 0%N, bs "f") ].
Proof. vm_compute. reflexivity. Qed.

(* KLog 2: TWO plain files in total - the current file and ONE closed file *)
Example tk_log_2 :
  tk_final (KLog 2) "log" ext_ops
  = [ (bs "app_r1970-01-01_00-00-01.log", 0%N, bs "e"); (bs "app_r1970-01-01_00-00-01.restart-0000.log", 0%N, bs "f") ].
Proof. vm_compute. reflexivity. Qed.

(* KLog 1 and KLog 0: the current file only *)
Example tk_log_1_0 :
  tk_final (KLog 1) "log" ext_ops = [ (bs "app_r1970-01-01_00-00-01.restart-0000.log", 0%N, bs "f") ]
  /\ tk_final (KLog 0) "log" ext_ops = [ (bs "app_r1970-01-01_00-00-01.restart-0000.log", 0%N, bs "f") ].
Proof. split; vm_compute; reflexivity. Qed.

(* KGz 2 = KLogGz 0 2 = KLogGz 1 2: the current file stays PLAIN (it is neither compressed nor removed although the first
   limit is 0); the two closed files before it - one of second 0, one of second 1 - are archives *)
Example tk_gz_2 :
  let d := [ (bs "app_r1970-01-01_00-00-00.restart-0002.log.gz", 1%N, bs "d"); (bs "app_r1970-01-01_00-00-01.log.gz", 1%N, bs "e");
             (bs "app_r1970-01-01_00-00-01.restart-0000.log", 0%N, bs "f") ] in
  tk_final (KGz 2) "log" ext_ops = d /\ tk_final (KLogGz 0 2) "log" ext_ops = d /\ tk_final (KLogGz 1 2) "log" ext_ops = d.
Proof. repeat split; vm_compute; reflexivity. Qed.

Example tk_loggz_2_2 :
  tk_final (KLogGz 2 2) "log" ext_ops
  = [ (bs "app_r1970-01-01_00-00-00.restart-0001.log.gz", 1%N, bs "c");
      (bs "app_r1970-01-01_00-00-00.restart-0002.log.gz", 1%N, bs "d");
      (bs "app_r1970-01-01_00-00-01.log", 0%N, bs "e");
      (bs "app_r1970-01-01_00-00-01.restart-0000.log", 0%N, bs "f") ].
Proof. vm_compute. reflexivity. Qed.

(* both limits 0: only the current file is left - it is never touched *)
Example tk_loggz_0_0 :
  tk_final (KLogGz 0 0) "log" ext_ops = [ (bs "app_r1970-01-01_00-00-01.restart-0000.log", 0%N, bs "f") ]
  /\ tk_final (KGz 0) "log" ext_ops = [ (bs "app_r1970-01-01_00-00-01.restart-0000.log", 0%N, bs "f") ].
Proof. split; vm_compute; reflexivity. Qed.

(* the listing that the NEXT cleanup would work on, in the state before the stop: newest key first - the plain files, then
   the archives; within second 0 the higher restart counter first *)
Example tk_listing_order :
  snd (step (fst (run (sys0 0 0) (OStart (tk_cfg (KLogGz 2 3) "log") :: ext_ops))) (OQuery sel_log_gz))
  = ObsList 0%N (List.map bs ["app_r1970-01-01_00-00-01.restart-0000.log"; "app_r1970-01-01_00-00-01.log";
                              "app_r1970-01-01_00-00-00.restart-0002.log.gz"; "app_r1970-01-01_00-00-00.restart-0001.log.gz";
                              "app_r1970-01-01_00-00-00.restart-0000.log.gz"]).
Proof. vm_compute. reflexivity. Qed.

(* the hypotheses of the theorems hold for this history (they are not vacuous), and the conclusion is what was computed *)
Lemma tk_cfg_ok k sfx : tsdkcfg (tk_cfg k sfx) (CSize 100) k.
Proof. repeat split. Qed.
Lemma tk_tag_ok k : tag_ok (tk_cfg k "log").
Proof. apply tag_free_ok. split; vm_compute; reflexivity. Qed.
Lemma tk_sfx_ok k : sfx_ok (c_spec (tk_cfg k "log")).
Proof. vm_compute. reflexivity. Qed.
Lemma tk_bounds k : (0 <= 0 + ts_e (tk_cfg k "log") 0)%Z /\ (0 + elapsed ext_ops + ts_e (tk_cfg k "log") 0 < sec_max)%Z
  /\ (N.of_nat (length ext_ops) <= usize_max)%N.
Proof. split; [vm_compute; discriminate|]. split; [vm_compute; reflexivity | vm_compute; discriminate]. Qed.

Example tk_view :
  a_run None ext_ops (snd (run (fst (step (sys0 0 0) (OStart (tk_cfg (KLogGz 2 2) "log")))) ext_ops))
  = Some ([bs "a"; bs "b"; bs "c"; bs "d"; bs "e"], bs "f").
Proof. vm_compute. reflexivity. Qed.

(* timestampsdirect_cleanup for KLogGz 2 2 and five rotations: L = 5, n = 2, m = 2, lo = 2, mid = 4.  The keys are determined
   by the names that exist: the names at the positions 2 .. 5 are those of tk_loggz_2_2 *)
Example tk_instance :
  let c := tk_cfg (KLogGz 2 2) "log" in
  let f := wfs (s_w (fst (run (sys0 0 0) (OStart c :: ext_ops ++ [OStop])))) in
  exists keys : list key,
    let K i := kname c 0 (nth i keys kd) in
    let G i := gz_name (K i) in
    length keys = 6 /\ keys_ok keys
    /\ (forall x, (exists j, lookup f x = Some j) <-> (exists i, 4 <= i <= 5 /\ x = K i) \/ (exists i, 2 <= i < 4 /\ x = G i))
    /\ list_log_gz 0 (c_spec c) (fixed0 c) f (IFTs std_fmt) = Some [K 5; K 4; G 3; G 2]
    /\ (exists fl, file_of f (K 4) = Some fl /\ fdata fl = bs "e" /\ fgz fl = 0%N /\ fdir fl = false)
    /\ (exists fl, file_of f (G 3) = Some fl /\ fdata fl = bs "d" /\ fgz fl = 1%N /\ fdir fl = false)
    /\ lookup f (K 3) = None /\ lookup f (K 1) = None /\ lookup f (G 1) = None
    /\ lookup f (G 5) = None
    /\ (exists fl, file_of f (K 5) = Some fl /\ fdata fl = bs "f" /\ fgz fl = 0%N /\ fdir fl = false).
Proof.
  intros c f. destruct (tk_bounds (KLogGz 2 2)) as (B1 & B2 & B3).
  pose proof (timestampsdirect_cleanup c (CSize 100) (KLogGz 2 2) 2 2 0 0 ext_ops _ _
                (tk_cfg_ok _ _) eq_refl (tk_tag_ok _) (tk_sfx_ok _) ext_ops_basic ext_ops_ticks B1 B2 B3 tk_view) as T.
  cbv zeta in T. fold f in T. destruct T as (_ & keys & T). exists keys. cbv zeta.
  change (length [bs "a"; bs "b"; bs "c"; bs "d"; bs "e"]) with 5 in T. cbn [Nat.sub Nat.add] in T.
  change (ts_e c 0) with 0%Z in T.
  destruct T as (Hl & Hko & _ & Names & _ & _ & _ & _ & _ & _ & LG & Pl & Ar & Old & _ & NoG & Cur).
  split; [exact Hl|]. split; [exact Hko|]. split; [exact Names|].
  split; [exact (LG 0%Z)|].
  split; [exact (proj2 (Pl 4 ltac:(lia)))|].
  split; [exact (proj2 (Ar 3 ltac:(lia)))|].
  split; [exact (proj1 (Ar 3 ltac:(lia)))|].
  split; [exact (proj1 (Old 1 ltac:(lia)))|].
  split; [exact (proj2 (Old 1 ltac:(lia)))|].
  split; [exact NoG | exact Cur].
Qed.

Example tk_no_panic_instance :
  Forall obs_ok (snd (run (sys0 0 0) (OStart (tk_cfg (KGz 2) "log") :: ext_ops ++ [OStop]))).
Proof.
  destruct (tk_bounds (KGz 2)) as (B1 & B2 & B3).
  exact (timestampsdirect_cleanup_no_panic _ (CSize 100) (KGz 2) 0 0 ext_ops (tk_cfg_ok _ _) (tk_tag_ok _) (tk_sfx_ok _)
           ext_ops_basic ext_ops_ticks B1 B2 B3).
Qed.

(* a history with append, a discriminant, no suffix, use_utc with a zone offset, an age-or-size criterion, triggers (also
   before the first record), flushes and clock ticks *)
Definition tk_c2 : config :=
  {| c_spec := {| fbase := bs "srv"; fdisc := Some (bs "a1"); fts := false; fsfx := None |};
     c_append := true; c_cap := Some 4%nat; c_rot := Some (CAgeOrSize ADay 6, NTimestampsDirect, KLogGz 1 1); c_utc := true; c_symlink := false;
     c_bg := false; c_async := false; c_start := None |}.
Definition tk_ops2 : list op :=
  [OTrigger; OWrite (bs "abcd"); OTick 3; OWrite (bs "ef"); OFlush; OTrigger; OPlain (bs "g"); OSnap;
   OTick 90000; OWrite (bs "hi"); OWrite (bs "jklmnop"); OWrite (bs "q"); OTrigger].
Example tk2_dir :
  snap_of (fst (run (sys0 1700000000 7200) (OStart tk_c2 :: tk_ops2 ++ [OStop])))
  = [ (bs "srv_a1_r2023-11-15_23-13-23.restart-0000.gz", 1%N, bs "q"); (bs "srv_a1_r2023-11-15_23-13-23.restart-0001", 0%N, bs "") ].
Proof. vm_compute. reflexivity. Qed.
Example tk2_view :
  a_run None tk_ops2 (snd (run (fst (step (sys0 1700000000 7200) (OStart tk_c2))) tk_ops2))
  = Some ([bs "abcdef"; bs "g"; bs "hijklmnop"; bs "q"], []).
Proof. vm_compute. reflexivity. Qed.
Example tk2_instance :
  Forall obs_ok (snd (run (sys0 1700000000 7200) (OStart tk_c2 :: tk_ops2 ++ [OStop])))
  /\ written tk_ops2 = bs "abcdefghijklmnopq".
Proof.
  split; [|vm_compute; reflexivity].
  apply (timestampsdirect_cleanup_no_panic tk_c2 (CAgeOrSize ADay 6) (KLogGz 1 1)).
  - repeat split.
  - apply tag_free_ok. split; vm_compute; reflexivity.
  - exact I.
  - repeat constructor.
  - repeat (apply Forall_cons; [cbn [tick_ok]; first [exact Logic.I | lia]|]). apply Forall_nil.
  - vm_compute. discriminate.
  - vm_compute. reflexivity.
  - vm_compute. discriminate.
Qed.

(* ------------------------------------------------------------------ the hypotheses are necessary (findings) *)
(* 1. A CLOCK THAT GOES BACKWARDS (tick_ok violated), REPAIRED (this was the finding clock_backwards_current_removed: the
      cleanup protected the file that is being written only through its position in the listing; KLog 1 REMOVED it,
      KGz 1 compressed it, the later records were lost without any error).  back_ops (TsTheorems.v) writes "a" in second 0,
      "b" in second 5, then the clock is set back to second 0 and "c" and "d" are written.  The files of "c" and "d" carry
      the time stamp of second 0 and are listed BEHIND the file of second 5.  The cleanup is now told which file is being
      written (cleanup_impl: cur = Some path) and skips it wherever the listing puts it (Flw/CurrentSpared.v:
      cleanup_spares_current, timestampsdirect_current_never_cleaned):
      - after "c" was written (the first seven operations) the file that is being written exists and holds "c";
      - at the end it exists and holds "d", with KLog 1, KGz 1 and KLog 2; no operation fails.
      What remains of the finding (the clock hypothesis is still needed for the retention statement): the limits count
      positions of the listing, and the file of second 5 is listed first - "b" survives as "the newest file" while the
      younger record "c" is removed with its file, and KGz 1 leaves "b" uncompressed. *)
Example clock_backwards_current_spared :
  ~ Forall tick_ok back_ops
  /\ written back_ops = bs "abcd"
  /\ tk_final KNever "log" back_ops
     = [ (bs "app_r1970-01-01_00-00-00.log", 0%N, bs "a");
         (bs "app_r1970-01-01_00-00-00.restart-0000.log", 0%N, bs "c");
         (bs "app_r1970-01-01_00-00-00.restart-0001.log", 0%N, bs "d");
         (bs "app_r1970-01-01_00-00-05.log", 0%N, bs "b") ]
  (* after the clock was set back and "c" was written *)
  /\ tk_final (KLog 1) "log" (firstn 7 back_ops)
     = [ (bs "app_r1970-01-01_00-00-00.log", 0%N, bs "c"); (bs "app_r1970-01-01_00-00-05.log", 0%N, bs "b") ]
  /\ tk_final (KGz 1) "log" (firstn 7 back_ops)
     = [ (bs "app_r1970-01-01_00-00-00.restart-0000.log", 0%N, bs "c"); (bs "app_r1970-01-01_00-00-05.log", 0%N, bs "b") ]
  (* at the end *)
  /\ tk_final (KLog 1) "log" back_ops
     = [ (bs "app_r1970-01-01_00-00-00.restart-0000.log", 0%N, bs "d"); (bs "app_r1970-01-01_00-00-05.log", 0%N, bs "b") ]
  /\ tk_final (KGz 1) "log" back_ops
     = [ (bs "app_r1970-01-01_00-00-00.restart-0001.log", 0%N, bs "d"); (bs "app_r1970-01-01_00-00-05.log", 0%N, bs "b") ]
  /\ tk_final (KLog 2) "log" back_ops
     = [ (bs "app_r1970-01-01_00-00-00.restart-0001.log", 0%N, bs "d"); (bs "app_r1970-01-01_00-00-05.log", 0%N, bs "b") ]
  /\ Forall obs_ok (snd (run (sys0 0 0) (OStart (tk_cfg (KLog 1) "log") :: back_ops ++ [OStop])))
  /\ Forall obs_ok (snd (run (sys0 0 0) (OStart (tk_cfg (KGz 1) "log") :: back_ops ++ [OStop]))).
Proof.
  split.
  { intros H. rewrite Forall_forall in H. specialize (H (OTick (-5))). cbn [tick_ok] in H.
    assert (X : (0 <= -5)%Z) by (apply H; unfold back_ops; cbn [In]; tauto). lia. }
  split; [vm_compute; reflexivity|]. split; [vm_compute; reflexivity|]. split; [vm_compute; reflexivity|].
  split; [vm_compute; reflexivity|]. split; [vm_compute; reflexivity|]. split; [vm_compute; reflexivity|].
  split; [vm_compute; reflexivity|].
  split; vm_compute; repeat constructor.
Qed.

(* 2. The suffix "gz": every file is listed twice (as a log file and as an archive), the current file included.  With
      KLogGz 2 1 one expects the current file, one closed file plain and one archive; what is left is the current file only. *)
Example tk_sfx_gz_counterexample :
  ~ sfx_ok (c_spec (tk_cfg (KLogGz 2 1) "gz"))
  /\ tk_final (KLogGz 2 1) "gz" ext_ops = [ (bs "app_r1970-01-01_00-00-01.restart-0000.gz", 0%N, bs "f") ].
Proof. split; [vm_compute; discriminate | vm_compute; reflexivity]. Qed.

(* 3. A suffix that ends with ".gz": the closed files are taken for archives and are never compressed; with KGz 2 the two
      files before the current one are kept PLAIN (kind 0) and there is no archive. *)
Example tk_sfx_log_gz_counterexample :
  ~ sfx_ok (c_spec (tk_cfg (KGz 2) "log.gz"))
  /\ tk_final (KGz 2) "log.gz" ext_ops
     = [ (bs "app_r1970-01-01_00-00-00.restart-0002.log.gz", 0%N, bs "d"); (bs "app_r1970-01-01_00-00-01.log.gz", 0%N, bs "e");
         (bs "app_r1970-01-01_00-00-01.restart-0000.log.gz", 0%N, bs "f") ].
Proof. split; [vm_compute; discriminate | vm_compute; reflexivity]. Qed.

(* ------------------------------------------------------------------ THE SAME HISTORY WITHOUT CLEANUP *)
(* The rotation flags - and with them the view (closed, cur) - do not depend on the cleanup strategy: they are decided by the
   clock and the rotation state alone (trace_ok).  So the view of the run with cleanup IS what the same history leaves in the
   directory when the strategy is KNever (TsdTheorems.v: all files plain, named by the keys). *)
Close Scope string_scope.
Lemma runs_agree_tk c c' crit k k' e lo0 hi :
  tsdkcfg c crit k -> tsdkcfg c' crit k' -> sfx_ok (c_spec c) -> sfx_ok (c_spec c') -> tag_ok c -> tag_ok c' -> years_ok e lo0 hi ->
  forall ops x x' a n, RelTK c crit k e lo0 n x a -> RelTK c' crit k' e lo0 n x' a ->
  wnow (s_w x') = wnow (s_w x) -> woff (s_w x') = woff (s_w x) -> roll_of_sys x' = roll_of_sys x ->
  Forall basic_op ops -> Forall tick_ok ops ->
  (wnow (s_w x) + elapsed ops <= hi)%Z -> (N.of_nat (n + length ops) <= usize_max)%N ->
  a_run a ops (snd (run x' ops)) = a_run a ops (snd (run x ops)).
Proof.
  intros Hcfg Hcfg' Hs Hs' T T' Y. induction ops as [|o r IH]; intros x x' a n R R' Hn Ho Hr Hb Htk Hhi Hmax; [reflexivity|].
  inversion Hb as [|o' r' Hbo Hbr]; subst. inversion Htk as [|o' r' Hto Htr]; subst. cbn [run elapsed length] in *.
  pose proof (elapsed_nonneg r Htr) as Er.
  assert (Hdt : (0 <= dt_of o)%Z) by (destruct o; cbn [dt_of tick_ok] in *; lia).
  pose proof (step_rel_tk c crit k e lo0 hi n x a o Hcfg Hs T Y R Hbo Hto ltac:(lia) ltac:(lia)) as S.
  pose proof (step_rel_tk c' crit k' e lo0 hi n x' a o Hcfg' Hs' T' Y R' Hbo Hto ltac:(lia) ltac:(lia)) as S'.
  destruct (step x o) as [x1 ob]. destruct (step x' o) as [x1' ob'].
  specialize (IH x1 x1'). destruct (run x1 r) as [x2 obs]. destruct (run x1' r) as [x2' obs']. cbn [snd a_run] in *.
  destruct S as (R1 & W1 & _ & _ & (F1 & G1 & N1 & O1)). destruct S' as (R1' & W1' & _ & _ & (F1' & G1' & N1' & O1')).
  assert (Ef : rot_of ob' = rot_of ob) by (rewrite F1, F1', Hr; apply flag_of_env; assumption).
  rewrite Ef in *. apply (IH _ (S n)); auto; try congruence; lia.
Qed.

Definition never_cfg_t (c : config) (crit : criterion) : config :=
  {| c_spec := c_spec c; c_append := c_append c; c_cap := c_cap c; c_rot := Some (crit, NTimestampsDirect, KNever); c_utc := c_utc c;
     c_symlink := c_symlink c; c_bg := c_bg c; c_async := c_async c; c_start := c_start c |}.

(* the configuration of the comparison run is one of TsdInv.v / TsdTheorems.v (tsdcfg): the run without cleanup leaves all the
   files, plain, named by keys, with the contents closed ++ [cur] (tsd_view), or nothing *)
Theorem timestampsdirect_cleanup_vs_never c crit k t0 off ops :
  tsdkcfg c crit k -> tag_ok c -> sfx_ok (c_spec c) -> Forall basic_op ops -> Forall tick_ok ops ->
  (0 <= t0 + ts_e c off)%Z -> (t0 + elapsed ops + ts_e c off < sec_max)%Z -> (N.of_nat (length ops) <= usize_max)%N ->
  let a := a_run None ops (snd (run (fst (step (sys0 t0 off) (OStart c))) ops)) in
  let f0 := wfs (s_w (fst (run (sys0 t0 off) (OStart (never_cfg_t c crit) :: ops ++ [OStop])))) in
  tsdcfg (never_cfg_t c crit) crit
  /\ exists keys, tsd_view (never_cfg_t c crit) (ts_e c off) f0 keys (files_of a) /\ keys_ok keys
                  /\ (forall key, In key keys -> (t0 <= fst key <= t0 + elapsed ops)%Z).
Proof.
  intros Hcfg T Hsfx Hb Htk Hlo Hhi Hmax a f0.
  assert (Hc0 : tsdcfg (never_cfg_t c crit) crit) by (destruct Hcfg as (_ & ? & ? & ? & _); repeat split; assumption).
  assert (Hk0 : tsdkcfg (never_cfg_t c crit) crit KNever) by (destruct Hcfg as (_ & ? & ? & ? & ?); repeat split; assumption).
  split; [exact Hc0|].
  assert (T0 : tag_ok (never_cfg_t c crit)) by exact T.
  destruct (run_view_tsd (never_cfg_t c crit) crit t0 off ops Hc0 T0 Hb Htk Hlo Hhi Hmax) as [x0 [ob0 [E0 [[keys [V [K Rg]]] _]]]].
  cbv zeta in V. fold f0 in V.
  assert (Ea : a_run None ops (snd (run x0 ops)) = a).
  { replace x0 with (fst (step (sys0 t0 off) (OStart (never_cfg_t c crit)))) by (rewrite E0; reflexivity).
    assert (Y : years_ok (ts_e c off) t0 (t0 + elapsed ops)) by (split; assumption).
    apply (runs_agree_tk c (never_cfg_t c crit) crit k KNever (ts_e c off) t0 (t0 + elapsed ops) Hcfg Hk0 Hsfx Hsfx T T0 Y ops _ _ None 0); auto.
    - apply start_rel_tk.
    - exact (start_rel_tk (never_cfg_t c crit) crit KNever t0 off).
    - cbn. lia. }
  rewrite Ea in V. exists keys. auto.
Qed.
Print Assumptions timestampsdirect_cleanup_vs_never.

Example tk_vs_never_instance :
  let c := tk_cfg (KLogGz 2 2) "log"%string in
  exists keys, tsd_view (never_cfg_t c (CSize 100)) 0 (wfs (s_w (fst (run (sys0 0 0) (OStart (never_cfg_t c (CSize 100)) :: ext_ops ++ [OStop])))))
                 keys ([bs "a"; bs "b"; bs "c"; bs "d"; bs "e"] ++ [bs "f"])%string /\ keys_ok keys.
Proof.
  intros c. subst c. destruct (tk_bounds (KLogGz 2 2)) as (B1 & B2 & B3).
  pose proof (timestampsdirect_cleanup_vs_never (tk_cfg (KLogGz 2 2) "log"%string) (CSize 100) (KLogGz 2 2) 0 0 ext_ops (tk_cfg_ok _ _) (tk_tag_ok _) (tk_sfx_ok _)
                ext_ops_basic ext_ops_ticks B1 B2 B3) as T.
  cbv zeta in T. rewrite tk_view in T. destruct T as (_ & keys & V & K & _). exists keys. split; [exact V | exact K].
Qed.
