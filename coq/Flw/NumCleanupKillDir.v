(* Numbers naming with a cleanup strategy, killed process (C11), part 1: the directories that a kill can leave.
   A directory is seen as a function from names to files (file_of); the primitive effects are point updates of it.
   xdir: rCURRENT (optional), plain files r<i> for mid <= i < L, complete archives r<i>.gz for lo <= i < mid, and
   optionally the archive r<mid>.gz NEXT TO its original r<mid> (an interrupted compression: unfinished and empty
   (gzip state 2), or complete with the same content but the original not yet removed).
   kill_view: what a reader makes of such a directory. *)
Require Import FL.Base.Bytes FL.Base.BytesFacts FL.Base.PathName FL.Fs.Fs FL.Fs.FsFacts FL.Time.Civil FL.Time.TsFormat
  FL.Names.FileSpec FL.Names.NamesFacts FL.Names.SortFacts FL.Names.FamilyFacts FL.Flw.Model FL.Flw.ModelFacts FL.Flw.NumFs
  FL.Flw.NumInv FL.Flw.Run FL.Flw.RunFacts FL.Flw.NumRun FL.Flw.NumListing FL.Flw.CleanupFacts
  FL.Flw.NumCleanupNames FL.Flw.NumCleanupStep FL.Flw.NumCleanupRun.
From Coq Require Import ZifyN ZifyNat ZifyBool.
Open Scope nat_scope.

(* ------------------------------------------------------------------ directories as functions *)
Definition dirf := bytes -> option file.
Definition fupd (F : dirf) (x : bytes) (v : option file) : dirf := fun y => if beq y x then v else F y.

Lemma fupd_same F x v : fupd F x v x = v.
Proof. unfold fupd. rewrite beq_refl. reflexivity. Qed.
Lemma fupd_other F x v y : y <> x -> fupd F x v y = F y.
Proof. intros H. unfold fupd. rewrite beq_neq by exact H. reflexivity. Qed.

Definition isplain (fl : file) (d : bytes) : Prop := fgz fl = 0%N /\ fdir fl = false /\ fdata fl = d.
Definition isarch (fl : file) (st : N) (d : bytes) : Prop := fgz fl = st /\ fdir fl = false /\ fdata fl = d.

(* the archive next to its original: complete (true: state 1, the content of the original) or unfinished (false: state 2, empty) *)
Definition red_st (b : bool) : N := if b then 1%N else 2%N.
Definition red_data (b : bool) (d : bytes) : bytes := if b then d else [].

Record xdir (c : config) (F : dirf) (closed : list bytes) (ocur : option bytes) (lo mid : nat) (red : option bool) : Prop := {
  xd_le : lo <= mid <= length closed;
  xd_plain : forall i, mid <= i < length closed -> exists fl, F (rname c i) = Some fl /\ isplain fl (nth i closed []);
  xd_arch : forall i, lo <= i < mid -> exists fl, F (gname c i) = Some fl /\ isarch fl 1%N (nth i closed []);
  xd_cur : match ocur with
           | Some cu => exists fl, F (cname c) = Some fl /\ isplain fl cu
           | None => F (cname c) = None end;
  xd_red : match red with
           | Some b => mid < length closed
                       /\ exists fl, F (gname c mid) = Some fl /\ isarch fl (red_st b) (red_data b (nth mid closed []))
           | None => True end;
  xd_only : forall n fl, F n = Some fl ->
      n = cname c \/ (exists i, mid <= i < length closed /\ n = rname c i) \/ (exists i, lo <= i < mid /\ n = gname c i)
      \/ (red <> None /\ n = gname c mid) }.

Lemma xdir_ext c F G closed ocur lo mid red : (forall y, G y = F y) -> xdir c F closed ocur lo mid red -> xdir c G closed ocur lo mid red.
Proof.
  intros E [H1 H2 H3 H4 H5 H6]. constructor.
  - exact H1.
  - intros i Hi. rewrite E. apply H2. exact Hi.
  - intros i Hi. rewrite E. apply H3. exact Hi.
  - destruct ocur; rewrite E; exact H4.
  - destruct red; [rewrite E|]; exact H5.
  - intros n fl. rewrite E. apply H6.
Qed.

(* names of the family are pairwise different *)
Ltac nmneq :=
  let E := fresh "E" in intros E;
  first [ apply rname_inj in E; lia | apply gname_inj in E; lia
        | exact (rname_not_cname _ _ E) | exact (rname_not_cname _ _ (eq_sym E))
        | exact (gname_not_cname _ _ E) | exact (gname_not_cname _ _ (eq_sym E))
        | exact (gname_ne_rname _ _ _ E) | exact (gname_ne_rname _ _ _ (eq_sym E)) ].

(* no archive exists next to a plain file, except the redundant one *)
Lemma xdir_no_gz c F closed ocur lo mid red i : xdir c F closed ocur lo mid red -> mid <= i -> (red = None \/ i <> mid) ->
  F (gname c i) = None.
Proof.
  intros X Hi Hr. destruct (F (gname c i)) as [fl|] eqn:E; [exfalso | reflexivity].
  destruct (xd_only _ _ _ _ _ _ _ X _ _ E) as [H|[(j & Hj & H)|[(j & Hj & H)|(Hn & H)]]].
  - exact (gname_not_cname _ _ H).
  - exact (gname_ne_rname _ _ _ H).
  - apply gname_inj in H. lia.
  - apply gname_inj in H. destruct Hr as [Hr|Hr]; [exact (Hn Hr) | exact (Hr H)].
Qed.
Lemma xdir_no_plain c F closed ocur lo mid red i : xdir c F closed ocur lo mid red -> (i < mid \/ length closed <= i) ->
  F (rname c i) = None.
Proof.
  intros X Hi. destruct (F (rname c i)) as [fl|] eqn:E; [exfalso | reflexivity].
  destruct (xd_only _ _ _ _ _ _ _ X _ _ E) as [H|[(j & Hj & H)|[(j & Hj & H)|(Hn & H)]]].
  - exact (rname_not_cname _ _ H).
  - apply rname_inj in H. lia.
  - exact (gname_ne_rname _ _ _ (eq_sym H)).
  - exact (gname_ne_rname _ _ _ (eq_sym H)).
Qed.

(* ------------------------------------------------------------------ the effects, on the level of names *)
(* File::create of the archive of the oldest plain file *)
Lemma xdir_create_gz c F closed ocur lo mid fl : xdir c F closed ocur lo mid None -> mid < length closed ->
  isarch fl 2%N [] -> xdir c (fupd F (gname c mid) (Some fl)) closed ocur lo mid (Some false).
Proof.
  intros X Hm Hfl. pose proof X as [H1 H2 H3 H4 _ H6]. constructor.
  - exact H1.
  - intros i Hi. rewrite fupd_other by nmneq. apply H2. exact Hi.
  - intros i Hi. rewrite fupd_other by nmneq. apply H3. exact Hi.
  - destruct ocur; rewrite fupd_other by nmneq; exact H4.
  - split; [exact Hm|]. exists fl. rewrite fupd_same. split; [reflexivity | exact Hfl].
  - intros n fl0 Hn. destruct (beq_spec n (gname c mid)) as [->|Hne].
    + right. right. right. split; [discriminate | reflexivity].
    + rewrite fupd_other in Hn by exact Hne.
      destruct (H6 _ _ Hn) as [H|[H|[H|(Hx & _)]]]; [auto | auto | auto | congruence].
Qed.

(* the encoder is finished: the archive is complete *)
Lemma xdir_finish_gz c F closed ocur lo mid fl : xdir c F closed ocur lo mid (Some false) ->
  isarch fl 1%N (nth mid closed []) -> xdir c (fupd F (gname c mid) (Some fl)) closed ocur lo mid (Some true).
Proof.
  intros X Hfl. pose proof X as [H1 H2 H3 H4 [Hm _] H6]. constructor.
  - exact H1.
  - intros i Hi. rewrite fupd_other by nmneq. apply H2. exact Hi.
  - intros i Hi. rewrite fupd_other by nmneq. apply H3. exact Hi.
  - destruct ocur; rewrite fupd_other by nmneq; exact H4.
  - split; [exact Hm|]. exists fl. rewrite fupd_same. split; [reflexivity | exact Hfl].
  - intros n fl0 Hn. destruct (beq_spec n (gname c mid)) as [->|Hne].
    + right. right. right. split; [discriminate | reflexivity].
    + rewrite fupd_other in Hn by exact Hne.
      destruct (H6 _ _ Hn) as [H|[H|[H|(_ & H)]]]; [auto | auto | auto | contradiction].
Qed.

(* the original of a complete archive is removed *)
Lemma xdir_remove_orig c F closed ocur lo mid : xdir c F closed ocur lo mid (Some true) ->
  xdir c (fupd F (rname c mid) None) closed ocur lo (S mid) None.
Proof.
  intros X. pose proof X as [H1 H2 H3 H4 [Hm (g & Fg & Hg)] H6]. constructor.
  - lia.
  - intros i Hi. rewrite fupd_other by nmneq. apply H2. lia.
  - intros i Hi. rewrite fupd_other by nmneq. destruct (Nat.eq_dec i mid) as [->|Hne].
    + exists g. split; [exact Fg | exact Hg].
    + apply H3. lia.
  - destruct ocur; rewrite fupd_other by nmneq; exact H4.
  - exact I.
  - intros n fl0 Hn. destruct (beq_spec n (rname c mid)) as [->|Hne]; [rewrite fupd_same in Hn; discriminate|].
    rewrite fupd_other in Hn by exact Hne.
    destruct (H6 _ _ Hn) as [H|[(i & Hi & H)|[(i & Hi & H)|(_ & H)]]].
    + left. exact H.
    + right. left. exists i. split; [|exact H]. destruct (Nat.eq_dec i mid) as [->|]; [contradiction | lia].
    + right. right. left. exists i. split; [lia | exact H].
    + right. right. left. exists mid. split; [lia | exact H].
Qed.

(* the archive of an interrupted compression is removed (the repair at the next start) *)
Lemma xdir_remove_red c F closed ocur lo mid b : xdir c F closed ocur lo mid (Some b) ->
  xdir c (fupd F (gname c mid) None) closed ocur lo mid None.
Proof.
  intros X. pose proof X as [H1 H2 H3 H4 [Hm _] H6]. constructor.
  - exact H1.
  - intros i Hi. rewrite fupd_other by nmneq. apply H2. exact Hi.
  - intros i Hi. rewrite fupd_other by nmneq. apply H3. exact Hi.
  - destruct ocur; rewrite fupd_other by nmneq; exact H4.
  - exact I.
  - intros n fl0 Hn. destruct (beq_spec n (gname c mid)) as [->|Hne]; [rewrite fupd_same in Hn; discriminate|].
    rewrite fupd_other in Hn by exact Hne.
    destruct (H6 _ _ Hn) as [H|[H|[H|(_ & H)]]]; [auto | auto | auto | contradiction].
Qed.

(* the oldest archive is removed *)
Lemma xdir_remove_lo c F closed ocur lo mid : xdir c F closed ocur lo mid None -> lo < mid ->
  xdir c (fupd F (gname c lo) None) closed ocur (S lo) mid None.
Proof.
  intros X Hl. pose proof X as [H1 H2 H3 H4 _ H6]. constructor.
  - lia.
  - intros i Hi. rewrite fupd_other by nmneq. apply H2. exact Hi.
  - intros i Hi. rewrite fupd_other by nmneq. apply H3. lia.
  - destruct ocur; rewrite fupd_other by nmneq; exact H4.
  - exact I.
  - intros n fl0 Hn. destruct (beq_spec n (gname c lo)) as [->|Hne]; [rewrite fupd_same in Hn; discriminate|].
    rewrite fupd_other in Hn by exact Hne.
    destruct (H6 _ _ Hn) as [H|[H|[(i & Hi & H)|(Hx & _)]]]; [auto | auto | | congruence].
    right. right. left. exists i. split; [|exact H]. destruct (Nat.eq_dec i lo) as [->|]; [contradiction | lia].
Qed.

(* the oldest plain file is removed when there are no archives (deletion only) *)
Lemma xdir_remove_mid c F closed ocur mid : xdir c F closed ocur mid mid None -> mid < length closed ->
  xdir c (fupd F (rname c mid) None) closed ocur (S mid) (S mid) None.
Proof.
  intros X Hl. pose proof X as [H1 H2 H3 H4 _ H6]. constructor.
  - lia.
  - intros i Hi. rewrite fupd_other by nmneq. apply H2. lia.
  - intros i Hi. lia.
  - destruct ocur; rewrite fupd_other by nmneq; exact H4.
  - exact I.
  - intros n fl0 Hn. destruct (beq_spec n (rname c mid)) as [->|Hne]; [rewrite fupd_same in Hn; discriminate|].
    rewrite fupd_other in Hn by exact Hne.
    destruct (H6 _ _ Hn) as [H|[(i & Hi & H)|[(i & Hi & H)|(Hx & _)]]]; [auto | | lia | congruence].
    right. left. exists i. split; [|exact H]. destruct (Nat.eq_dec i mid) as [->|]; [contradiction | lia].
Qed.

(* rCURRENT is renamed to the next number *)
Lemma xdir_rename_cur c F closed cu lo mid red : xdir c F closed (Some cu) lo mid red ->
  xdir c (fupd (fupd F (cname c) None) (rname c (length closed)) (F (cname c))) (closed ++ [cu]) None lo mid red.
Proof.
  intros X. pose proof X as [H1 H2 H3 (fc & Fc & Hc) H5 H6]. set (L := length closed) in *.
  assert (EL : length (closed ++ [cu]) = S L) by (rewrite app_length; cbn [length]; lia).
  constructor.
  - rewrite EL. lia.
  - rewrite EL. intros i Hi. destruct (Nat.eq_dec i L) as [->|Hne].
    + rewrite fupd_same. exists fc. split; [exact Fc|]. unfold L. rewrite app_nth2, Nat.sub_diag by lia. exact Hc.
    + rewrite fupd_other by nmneq. rewrite fupd_other by nmneq. rewrite app_nth1 by (fold L; lia). apply H2. lia.
  - intros i Hi. rewrite fupd_other by nmneq. rewrite fupd_other by nmneq. rewrite app_nth1 by (fold L; lia). apply H3. exact Hi.
  - rewrite fupd_other by nmneq. apply fupd_same.
  - destruct red as [b|]; [|exact I]. destruct H5 as [Hm (g & Fg & Hg)]. split; [rewrite EL; lia|].
    exists g. rewrite fupd_other by nmneq. rewrite fupd_other by nmneq. split; [exact Fg|].
    rewrite app_nth1 by (fold L; lia). exact Hg.
  - rewrite EL. intros n fl0 Hn. destruct (beq_spec n (rname c L)) as [->|Hne].
    + right. left. exists L. split; [lia | reflexivity].
    + rewrite fupd_other in Hn by exact Hne. destruct (beq_spec n (cname c)) as [->|Hnc]; [rewrite fupd_same in Hn; discriminate|].
      rewrite fupd_other in Hn by exact Hnc.
      destruct (H6 _ _ Hn) as [H|[(i & Hi & H)|[H|H]]]; [contradiction | | auto | auto].
      right. left. exists i. split; [lia | exact H].
Qed.

(* rCURRENT is created, or written to *)
Lemma xdir_set_cur c F closed ocur lo mid red fl cu : xdir c F closed ocur lo mid red -> isplain fl cu ->
  xdir c (fupd F (cname c) (Some fl)) closed (Some cu) lo mid red.
Proof.
  intros X Hfl. pose proof X as [H1 H2 H3 _ H5 H6]. constructor.
  - exact H1.
  - intros i Hi. rewrite fupd_other by nmneq. apply H2. exact Hi.
  - intros i Hi. rewrite fupd_other by nmneq. apply H3. exact Hi.
  - exists fl. rewrite fupd_same. split; [reflexivity | exact Hfl].
  - destruct red; [|exact I]. rewrite fupd_other by nmneq. exact H5.
  - intros n fl0 Hn. destruct (beq_spec n (cname c)) as [->|Hne]; [left; reflexivity|].
    rewrite fupd_other in Hn by exact Hne. exact (H6 _ _ Hn).
Qed.

(* no closed file is left: the numbering starts again (the next writer finds no index in the directory) *)
Lemma xdir_rebase c F closed ocur : xdir c F closed ocur (length closed) (length closed) None -> xdir c F [] ocur 0 0 None.
Proof.
  intros [H1 H2 H3 H4 _ H6]. constructor.
  - cbn [length]. lia.
  - cbn [length]. intros i Hi. lia.
  - intros i Hi. lia.
  - exact H4.
  - exact I.
  - intros n fl Hn. destruct (H6 _ _ Hn) as [H|[(i & Hi & _)|[(i & Hi & _)|(Hx & _)]]]; [auto | lia | lia | congruence].
Qed.

(* ------------------------------------------------------------------ the effects, on the level of the file system *)
Lemma file_of_some f n fl : file_of f n = Some fl <-> exists j, lookup f n = Some j /\ fl = inode f j.
Proof.
  unfold file_of. destruct (lookup f n) as [j|]; split.
  - intros E. injection E as <-. eauto.
  - intros (j' & E & ->). injection E as <-. reflexivity.
  - discriminate.
  - intros (j' & E & _). discriminate.
Qed.
Lemma file_of_none f n : file_of f n = None <-> lookup f n = None.
Proof. unfold file_of. destruct (lookup f n); split; congruence. Qed.

Lemma file_of_unlink f a y : file_of (unlink f a) y = fupd (file_of f) a None y.
Proof.
  destruct (unlink_spec f a) as (UI & UN & UO). destruct (beq_spec y a) as [->|Hne].
  - rewrite fupd_same. apply file_of_none. exact UN.
  - rewrite fupd_other by exact Hne. unfold file_of. rewrite UO by exact Hne. unfold inode. rewrite UI. reflexivity.
Qed.

Lemma file_of_create f a gz now y : fs_wf f ->
  file_of (fst (create_file f a gz now)) y = fupd (file_of f) a (Some {| fdata := []; fgz := gz; fborn := now; fdir := false |}) y.
Proof.
  intros W. pose proof (create_file_spec f a gz now) as S. destruct (create_file f a gz now) as [f' i]. cbn [fst].
  destruct S as (-> & Hino & La & Lo). destruct (beq_spec y a) as [->|Hne].
  - rewrite fupd_same. unfold file_of. rewrite La. unfold inode. rewrite Hino, inode_app_new. reflexivity.
  - rewrite fupd_other by exact Hne. unfold file_of. rewrite Lo by exact Hne. destruct (lookup f y) as [j|] eqn:E; [|reflexivity].
    unfold inode. rewrite Hino, inode_app_old by (apply (wf_bound _ W _ _ E)). reflexivity.
Qed.

Lemma file_of_set_gz f a i st d y : fs_wf f -> lookup f a = Some i ->
  file_of (set_gz f i st d) y = fupd (file_of f) a (Some {| fdata := d; fgz := st; fborn := fborn (inode f i); fdir := false |}) y.
Proof.
  intros W La. destruct (set_gz_spec f i st d (wf_bound _ W _ _ La)) as (SL & _ & SI & SO).
  destruct (beq_spec y a) as [->|Hne].
  - rewrite fupd_same. unfold file_of. rewrite SL, La, SI. reflexivity.
  - rewrite fupd_other by exact Hne. unfold file_of. rewrite SL. destruct (lookup f y) as [j|] eqn:E; [|reflexivity].
    rewrite SO; [reflexivity|]. intros ->. apply Hne. exact (wf_inj _ W _ _ _ E La).
Qed.

Lemma file_of_append f a i b y : fs_wf f -> lookup f a = Some i ->
  file_of (append_ino f i b) y = fupd (file_of f) a (Some (with_data (inode f i) (content f i ++ b))) y.
Proof.
  intros W La. pose proof (wf_bound _ W _ _ La) as Hi. destruct (beq_spec y a) as [->|Hne].
  - rewrite fupd_same. unfold file_of. rewrite lookup_append, La, inode_append, Nat.eqb_refl by exact Hi. reflexivity.
  - rewrite fupd_other by exact Hne. unfold file_of. rewrite lookup_append. destruct (lookup f y) as [j|] eqn:E; [|reflexivity].
    rewrite inode_append by exact Hi. destruct (Nat.eqb_spec j i) as [->|_]; [|reflexivity].
    exfalso. apply Hne. exact (wf_inj _ W _ _ _ E La).
Qed.

Lemma file_of_rename f a b i f' y : a <> b -> lookup f a = Some i -> rename f a b = Some f' ->
  file_of f' y = fupd (fupd (file_of f) a None) b (file_of f a) y.
Proof.
  intros Hab La Er. destruct (rename_spec f a b i Hab La) as (f1 & E & Hino & Lb & La' & Lo). rewrite Er in E. injection E as <-.
  destruct (beq_spec y b) as [->|Hnb].
  - rewrite fupd_same. unfold file_of. rewrite Lb, La. unfold inode. rewrite Hino. reflexivity.
  - rewrite fupd_other by exact Hnb. destruct (beq_spec y a) as [->|Hna].
    + rewrite fupd_same. apply file_of_none. exact La'.
    + rewrite fupd_other by exact Hna. unfold file_of. rewrite Lo by assumption. unfold inode. rewrite Hino. reflexivity.
Qed.

(* ------------------------------------------------------------------ kdir and xdir *)
Lemma kdir_xdir c f closed lo mid ocur : kdir c f closed lo mid ->
  match ocur with
  | Some cu => exists j, lookup f (cname c) = Some j /\ plain (inode f j) /\ content f j = cu
  | None => lookup f (cname c) = None end ->
  xdir c (file_of f) closed ocur lo mid None.
Proof.
  intros [Hle Hnd Hp Ha Hon] Hc. constructor.
  - exact Hle.
  - intros i Hi. destruct (Hp i Hi) as (j & Lj & [G D] & C). exists (inode f j). unfold file_of. rewrite Lj.
    split; [reflexivity|]. split; [exact G|]. split; [exact D | exact C].
  - intros i Hi. destruct (Ha i Hi) as (j & Lj & D & G & Dr). exists (inode f j). unfold file_of. rewrite Lj.
    split; [reflexivity|]. split; [exact G|]. split; [exact Dr | exact D].
  - destruct ocur as [cu|].
    + destruct Hc as (j & Lj & [G D] & C). exists (inode f j). unfold file_of. rewrite Lj.
      split; [reflexivity|]. split; [exact G|]. split; [exact D | exact C].
    + apply file_of_none. exact Hc.
  - exact I.
  - intros n fl Hn. apply file_of_some in Hn. destruct Hn as (j & Lj & _).
    destruct (Hon _ _ Lj) as [H|[H|H]]; auto.
Qed.

Lemma xdir_kdir c f closed ocur lo mid : xdir c (file_of f) closed ocur lo mid None -> nodup_names f -> kdir c f closed lo mid.
Proof.
  intros [H1 H2 H3 H4 _ H6] Hnd. constructor.
  - exact H1.
  - exact Hnd.
  - intros i Hi. destruct (H2 i Hi) as (fl & Ff & G & D & C). apply file_of_some in Ff. destruct Ff as (j & Lj & ->).
    exists j. split; [exact Lj|]. split; [split; assumption | exact C].
  - intros i Hi. destruct (H3 i Hi) as (fl & Ff & G & D & C). apply file_of_some in Ff. destruct Ff as (j & Lj & ->).
    exists j. auto.
  - intros n j Lj. assert (E : file_of f n = Some (inode f j)) by (unfold file_of; rewrite Lj; reflexivity).
    destruct (H6 _ _ E) as [H|[H|[H|(Hx & _)]]]; [auto | auto | auto | congruence].
Qed.

Lemma xdir_cur_lookup c f closed cu lo mid red : xdir c (file_of f) closed (Some cu) lo mid red ->
  exists j, lookup f (cname c) = Some j /\ plain (inode f j) /\ content f j = cu.
Proof.
  intros X. destruct (xd_cur _ _ _ _ _ _ _ X) as (fl & Ff & G & D & C). apply file_of_some in Ff. destruct Ff as (j & Lj & ->).
  exists j. split; [exact Lj|]. split; [split; assumption | exact C].
Qed.

(* ------------------------------------------------------------------ what a reader finds *)
(* The reader takes the family files in the order of their numbers, rCURRENT last, and decompresses archives.  At the
   number i it reads the plain file r<i> if there is one; an archive r<i>.gz next to it is ignored - it is an unfinished
   gzip stream (state 2; the oracle's reader skips such entries: family_entries keeps kinds 0 and 1 only) or a complete
   archive of the very same content (the reader must not take both).  Without a plain file it reads the complete
   archive; an unfinished archive never stands alone. *)
Definition reads_at (c : config) (f : fs) (i : nat) (d : bytes) : Prop :=
  match file_of f (rname c i) with
  | Some fl => isplain fl d
               /\ match file_of f (gname c i) with
                  | None => True
                  | Some g => fdir g = false /\ ((fgz g = 2%N /\ fdata g = []) \/ (fgz g = 1%N /\ fdata g = d))
                  end
  | None => exists g, file_of f (gname c i) = Some g /\ isarch g 1%N d
  end.

Definition kill_view (c : config) (f : fs) (closed : list bytes) (ocur : option bytes) (lo : nat) : Prop :=
  lo <= length closed
  /\ (forall i, lo <= i < length closed -> reads_at c f i (nth i closed []))
  /\ match ocur with
     | Some cu => exists j, lookup f (cname c) = Some j /\ plain (inode f j) /\ content f j = cu
     | None => lookup f (cname c) = None
     end
  /\ (forall n j, lookup f n = Some j ->
        n = cname c \/ exists i, lo <= i < length closed /\ (n = rname c i \/ n = gname c i)).

(* the stream that the reader obtains *)
Definition kv_stream (closed : list bytes) (ocur : option bytes) (lo : nat) : bytes :=
  concat (skipn lo closed) ++ match ocur with Some cu => cu | None => [] end.

Lemma kv_stream_tail closed ocur lo :
  concat closed ++ match ocur with Some cu => cu | None => [] end = concat (firstn lo closed) ++ kv_stream closed ocur lo.
Proof. unfold kv_stream. rewrite app_assoc, <- concat_app, firstn_skipn. reflexivity. Qed.

Lemma xdir_kill_view c f closed ocur lo mid red : xdir c (file_of f) closed ocur lo mid red -> kill_view c f closed ocur lo.
Proof.
  intros X. pose proof X as [H1 H2 H3 H4 H5 H6]. split; [lia|]. split; [|split].
  - intros i Hi. unfold reads_at. destruct (Nat.le_gt_cases mid i) as [Hm|Hm].
    + destruct (H2 i ltac:(lia)) as (fl & Ff & Hfl). rewrite Ff. split; [exact Hfl|].
      destruct (file_of f (gname c i)) as [g|] eqn:Eg; [|exact I].
      destruct (H6 _ _ Eg) as [H|[(j & Hj & H)|[(j & Hj & H)|(Hn & H)]]].
      * exfalso. exact (gname_not_cname _ _ H).
      * exfalso. exact (gname_ne_rname _ _ _ H).
      * apply gname_inj in H. lia.
      * apply gname_inj in H. subst i. destruct red as [b|]; [|congruence].
        destruct H5 as [_ (g' & Fg & G & D & C)]. rewrite Eg in Fg. injection Fg as <-. split; [exact D|].
        destruct b; cbn [red_st red_data] in *; [right | left]; split; assumption.
    + rewrite (xdir_no_plain c _ closed ocur lo mid red i X) by (left; exact Hm).
      destruct (H3 i ltac:(lia)) as (g & Fg & Hg). exists g. split; assumption.
  - destruct ocur as [cu|]; [exact (xdir_cur_lookup _ _ _ _ _ _ _ X) | apply file_of_none; exact H4].
  - intros n j Lj. assert (E : file_of f n = Some (inode f j)) by (unfold file_of; rewrite Lj; reflexivity).
    destruct (H6 _ _ E) as [H|[(i & Hi & H)|[(i & Hi & H)|(Hn & H)]]].
    + left. exact H.
    + right. exists i. split; [lia | left; exact H].
    + right. exists i. split; [lia | right; exact H].
    + right. exists mid. destruct red as [b|]; [|congruence]. destruct H5 as [Hm _]. split; [lia | right; exact H].
Qed.

(* the limits of the strategy have not been exceeded: the directory holds at least what a completed cleanup keeps *)
Definition uncl (k : cleanup) (L lo mid : nat) : Prop := lo <= k_lo k L /\ mid <= k_mid k L.

Lemma uncl_exact k L : uncl k L (k_lo k L) (k_mid k L).
Proof. split; lia. Qed.
Lemma uncl_grow k L lo mid : uncl k L lo mid -> uncl k (S L) lo mid.
Proof. unfold uncl, k_lo, k_mid. destruct (klim k) as [[n m]|]; lia. Qed.
