(* Histories of a FileLogWriter: operations, one step, a run.  Mirrors state_handle.rs (sync handle),
   FileLogWriter / ArcFileLogWriter / FileLogWriterHandle.  No proofs in this file. *)
Require Import FL.Base.Bytes FL.Base.PathName FL.Fs.Fs FL.Time.Civil FL.Time.TsFormat FL.Names.FileSpec FL.Flw.Model.
Open Scope N_scope.

Inductive op :=
| OWrite (b : bytes)          (* LogWriter::write of a record whose formatted line incl. line ending is b *)
| OPlain (b : bytes)          (* io::Write::write on the ArcFileLogWriter *)
| OFlush
| OTrigger                    (* rotate() *)
| OReopen                     (* reopen_outputfile() *)
| OReset (c : config)         (* reset(builder) *)
| OShutdown                   (* shutdown() without dropping *)
| OStop                       (* drop the writer (shutdown + drop) *)
| OStart (c : config)         (* build a new writer *)
| OTick (dt : Z)              (* the clock advances *)
| OExtRename (a b : bytes)    (* somebody else renames / removes / creates files *)
| OExtRemove (a : bytes)
| OExtCreate (a : bytes) (kind : N) (d : bytes)
| OExtMkdir (a : bytes)
| OQuery (s : selector)       (* existing_log_files(selector) *)
| OSetFaults (l : list bool)
| OSetKill (k : nat)
| OCrash                      (* the (dead) process is gone: state discarded, nothing flushed *)
| OSnap.                      (* observe the directory *)

Inductive obs :=
| ObsRes (code : N) (rotated : bool)        (* 0 ok, 1 error result, 2 panic, 3 no writer *)
| ObsList (code : N) (l : list bytes)
| ObsSnap (files : list (bytes * N * bytes)) (link : option bytes) (errs : list ecode).

(* s_tl: the thread-local formatting buffer of the logging thread (util::buffer_with).  It is cleared after
   write_buffer has returned; when write_buffer (or the lock on a poisoned state) panics, what was formatted stays
   in it and is put out together with the next record *)
Record sys := { s_flw : option flw; s_w : world; s_tl : bytes;
                s_dead : bool }.   (* asynchronous mode: the writer thread has ended (shutdown message, or a panic) *)

Definition cap_eqb (a b : option nat) : bool :=
  match a, b with Some x, Some y => Nat.eqb x y | None, None => true | _, _ => false end.

Definition code_of {A} (r : res A) : N := match r with Ok _ => 0 | Err => 1 | Panic => 2 end.

Definition snapshot (w : world) : obs :=
  let f := wfs w in
  ObsSnap (List.map (fun n => match file_of f n with
                              | Some fl => (n, (if fdir fl then 3 else fgz fl), fdata fl)
                              | None => (n, 0, []) end) (sort_names (dir_names f)))
          (wlink w) (werrs w).

Definition query (s : flw) (w : world) (sel : selector) : res (list bytes) * world :=
  let c := f_cfg s in
  let uses_rot := match f_inner s with
                  | Initial => match c_rot c with Some _ => true | None => false end
                  | Active (Some _) _ _ => true
                  | Active None _ _ => false end in
  let flt := match f_inner s with
             | Active (Some rs) _ _ => ns_filter (rs_naming rs)
             | Initial => match c_rot c with Some (_, nam, _) => naming_filter nam | None => IFNone end
             | _ => IFNone end in
  if uses_rot then
    with_listing w (fun w' => existing_rot (woff w') (c_spec c) (fixed_of c w') (wfs w') flt sel)
  else
    (* without rotation there is one log file: listed when plain files are asked for and it exists *)
    let n := name_of c w None in
    (Ok (if sel_plain sel && is_reg_file (wfs w) n then [n] else []), w).

Definition ext_create (f : fs) (a : bytes) (kind : N) (d : bytes) (now : Z) : fs :=
  let '(f1, i) := open_trunc f a kind now in
  {| names := names f1; inodes := upd (inodes f1) i {| fdata := d; fgz := kind; fborn := fborn (inode f1 i); fdir := false |} |}.
Definition ext_mkdir (f : fs) (a : bytes) (now : Z) : fs :=
  {| names := (a, length (inodes f)) :: names f;
     inodes := inodes f ++ [{| fdata := []; fgz := 0; fborn := now; fdir := true |}] |}.

(* asynchronous mode (the correspondence check lets the writer thread work off each message before the next
   operation): records and raw chunks are sent through the channel as data and written by the writer thread
   without the thread-local buffer; flush and shutdown requests are messages of their own kind; after the thread
   has ended, sending fails *)
Inductive amsg := AData (b : bytes) | AFlush | AShutdown.
Definition is_async (s : flw) : bool := c_async (f_cfg s).

Definition async_consume (x : sys) (s : flw) (m : amsg) : sys :=
  let w := s_w x in
  match m with
  | AFlush =>
    let '(ok, w1, s1) := flush_state s w in
    {| s_flw := Some s1; s_w := if ok then w1 else report EFlush w1; s_tl := s_tl x; s_dead := false |}
  | AShutdown =>
    let '(w1, s1) := shutdown_state s w in
    {| s_flw := Some s1; s_w := w1; s_tl := s_tl x; s_dead := true |}
  | AData b =>
    let '(r, w1, s1, _) := write_buffer s w b in
    {| s_flw := Some s1; s_w := match r with Err => report EWrite w1 | _ => w1 end; s_tl := s_tl x;
       s_dead := match r with Panic => true | _ => false end |}
  end.

Definition async_send (x : sys) (s : flw) (m : amsg) (code_if_dead : N) : sys * obs :=
  if s_dead x then (x, ObsRes code_if_dead false)
  (* the writer thread takes the lock with unwrap: on a poisoned state it dies *)
  else if f_poisoned s then ({| s_flw := s_flw x; s_w := s_w x; s_tl := s_tl x; s_dead := true |}, ObsRes 0 false)
  else (async_consume x s m, ObsRes 0 false).

Definition async_step (x : sys) (s : flw) (o : op) : option (sys * obs) :=
  match o with
  | OWrite b => Some (async_send x s (AData b) 0)
  | OPlain b => Some (async_send x s (AData b) 1)
  | OFlush => Some (async_send x s AFlush 0)
  | OShutdown => Some (async_send x s AShutdown 0)
  | _ => None
  end.

(* the first operation of a writer that computes a file name fixes the start time of its name part *)
Definition with_start (c : config) (t : Z) : config :=
  {| c_spec := c_spec c; c_append := c_append c; c_cap := c_cap c; c_rot := c_rot c; c_utc := c_utc c;
     c_symlink := c_symlink c; c_bg := c_bg c; c_async := c_async c; c_start := Some t |}.
Definition ensure_start (s : flw) (w : world) : flw :=
  if fts (c_spec (f_cfg s)) then
    match c_start (f_cfg s) with
    | Some _ => s
    | None => {| f_cfg := with_start (f_cfg s) (wnow w); f_inner := f_inner s; f_poisoned := f_poisoned s |}
    end
  else s.
Definition names_computed (o : op) : bool :=
  match o with OWrite _ | OPlain _ | OQuery _ => true | _ => false end.

Definition sync_step (x : sys) (o : op) : sys * obs :=
  let w := s_w x in
  let none := (x, ObsRes 3 false) in
  match o with
  | OWrite b =>
    match s_flw x with
    | None => none
    | Some s =>
      let buf := s_tl x ++ b in
      if f_poisoned s then ({| s_flw := s_flw x; s_w := w; s_tl := buf; s_dead := s_dead x |}, ObsRes 2 false) else
      let '(r, w1, s1, rot) := write_buffer s w buf in
      let w2 := match r with Err => report EWrite w1 | _ => w1 end in
      ({| s_flw := Some s1; s_w := w2; s_tl := match r with Panic => buf | _ => @nil N end; s_dead := s_dead x |},
       ObsRes (match r with Panic => 2 | _ => 0 end) rot)
    end
  | OPlain b =>
    match s_flw x with
    | None => none
    | Some s =>
      if f_poisoned s then (x, ObsRes 1 false) else
      let '(r, w1, s1, rot) := write_buffer s w b in
      ({| s_flw := Some s1; s_w := w1; s_tl := s_tl x; s_dead := s_dead x |}, ObsRes (code_of r) rot)
    end
  | OFlush =>
    match s_flw x with
    | None => none
    | Some s =>
      if f_poisoned s then (x, ObsRes 0 false) else
      let '(ok, w1, s1) := flush_state s w in
      ({| s_flw := Some s1; s_w := w1; s_tl := s_tl x; s_dead := s_dead x |}, ObsRes (if ok then 0 else 1) false)
    end
  | OTrigger =>
    match s_flw x with
    | None => none
    | Some s =>
      if f_poisoned s then (x, ObsRes 1 false) else
      let '(r, w1, st1) := mount_next (f_cfg s) w (f_inner s) true in
      let s1 := with_inner s st1 in
      ({| s_flw := Some (match r with Panic => poison s1 | _ => s1 end); s_w := w1; s_tl := s_tl x; s_dead := s_dead x |}, ObsRes (code_of r) false)
    end
  | OReopen =>
    match s_flw x with
    | None => none
    | Some s =>
      if f_poisoned s then (x, ObsRes 1 false) else
      let '(r, w1, s1) := reopen_state s w in
      ({| s_flw := Some s1; s_w := w1; s_tl := s_tl x; s_dead := s_dead x |}, ObsRes (code_of r) false)
    end
  | OReset c =>
    match s_flw x with
    | None => none
    | Some s =>
      if f_poisoned s then (x, ObsRes 1 false) else
      (* assert_write_mode: the new configuration must have the very same write mode, otherwise nothing happens *)
      if negb (cap_eqb (c_cap c) (c_cap (f_cfg s)) && Bool.eqb (c_async c) (c_async (f_cfg s))) then (x, ObsRes 1 false) else
      (* the old State is dropped without shutdown: queued cleanup requests are still worked off, the writer flushes *)
      let w0 := drain_acts s w in
      let w1 := match f_inner s with Active _ wr _ => w_drop w0 wr | Initial => w0 end in
      ({| s_flw := Some (new_flw c); s_w := w1; s_tl := s_tl x; s_dead := s_dead x |}, ObsRes 0 false)
    end
  | OShutdown =>
    match s_flw x with
    | None => none
    | Some s =>
      if f_poisoned s then (x, ObsRes 0 false) else
      let '(w1, s1) := shutdown_state s w in ({| s_flw := Some s1; s_w := w1; s_tl := s_tl x; s_dead := s_dead x |}, ObsRes 0 false)
    end
  | OStop =>
    match s_flw x with
    | None => none
    | Some s =>
      (* a poisoned mutex makes shutdown a no-op; dropping the State still drops the writer *)
      let w1 := if f_poisoned s then match f_inner s with Active _ wr _ => w_drop (drain_acts s w) wr | Initial => w end
                else drop_state s w in
      ({| s_flw := None; s_w := w1; s_tl := s_tl x; s_dead := s_dead x |}, ObsRes 0 false)
    end
  | OStart c => ({| s_flw := Some (new_flw c); s_w := w; s_tl := s_tl x; s_dead := false |}, ObsRes 0 false)
  | OTick dt => ({| s_flw := s_flw x; s_w := set_now w (wnow w + dt)%Z; s_tl := s_tl x; s_dead := s_dead x |}, ObsRes 0 false)
  | OExtRename a b =>
    ({| s_flw := s_flw x; s_w := set_fs w (match rename (wfs w) a b with Some f => f | None => wfs w end); s_tl := s_tl x; s_dead := s_dead x |}, ObsRes 0 false)
  | OExtRemove a => ({| s_flw := s_flw x; s_w := set_fs w (unlink (wfs w) a); s_tl := s_tl x; s_dead := s_dead x |}, ObsRes 0 false)
  | OExtCreate a k d => ({| s_flw := s_flw x; s_w := set_fs w (ext_create (wfs w) a k d (wnow w)); s_tl := s_tl x; s_dead := s_dead x |}, ObsRes 0 false)
  | OExtMkdir a => ({| s_flw := s_flw x; s_w := set_fs w (ext_mkdir (wfs w) a (wnow w)); s_tl := s_tl x; s_dead := s_dead x |}, ObsRes 0 false)
  | OQuery sel =>
    match s_flw x with
    | None => none
    | Some s =>
      if f_poisoned s then (x, ObsList 1 []) else
      match query s w sel with
      | (Ok l, w1) => ({| s_flw := Some s; s_w := w1; s_tl := s_tl x; s_dead := s_dead x |}, ObsList 0 l)
      | (Err, w1) => ({| s_flw := Some s; s_w := w1; s_tl := s_tl x; s_dead := s_dead x |}, ObsList 1 [])
      | (Panic, w1) => ({| s_flw := Some (poison s); s_w := w1; s_tl := s_tl x; s_dead := s_dead x |}, ObsList 2 [])
      end
    end
  | OSetFaults l => ({| s_flw := s_flw x; s_w := set_faults w l; s_tl := s_tl x; s_dead := s_dead x |}, ObsRes 0 false)
  | OSetKill k => ({| s_flw := s_flw x; s_w := set_kill w (Some (S k)); s_tl := s_tl x; s_dead := s_dead x |}, ObsRes 0 false)
  | OCrash => ({| s_flw := None; s_w := set_acts (set_kill w None) O; s_tl := []; s_dead := false |}, ObsRes 0 false)
  | OSnap => (x, snapshot w)
  end.

(* one operation *)
Definition step_core (x : sys) (o : op) : sys * obs :=
  match s_flw x with
  | Some s =>
    if is_async s then
      match o with
      | OStop =>
        (* both Drop impls send the shutdown request (if the thread still runs), then the state is dropped *)
        let x1 := if s_dead x || f_poisoned s then x else async_consume x s AShutdown in
        sync_step {| s_flw := s_flw x1; s_w := s_w x1; s_tl := s_tl x1; s_dead := true |} OStop
      | _ => match async_step x s o with Some r => r | None => sync_step x o end
      end
    else sync_step x o
  | None => sync_step x o
  end.

Definition apply_start (x0 : sys) (o : op) : sys :=
  match s_flw x0 with
  | Some s => if names_computed o && negb (f_poisoned s)
              then {| s_flw := Some (ensure_start s (s_w x0)); s_w := s_w x0; s_tl := s_tl x0; s_dead := s_dead x0 |}
              else x0
  | None => x0
  end.

Definition step (x0 : sys) (o : op) : sys * obs := step_core (apply_start x0 o) o.

Fixpoint run (x : sys) (ops : list op) : sys * list obs :=
  match ops with
  | [] => (x, [])
  | o :: r => let '(x1, ob) := step x o in let '(x2, obs) := run x1 r in (x2, ob :: obs)
  end.

Definition world0 (t0 off : Z) : world :=
  {| wfs := empty_fs; wnow := t0; woff := off; wfaults := []; wkill := None; werrs := []; wlink := None; wacts := O |}.
Definition sys0 (t0 off : Z) : sys := {| s_flw := None; s_w := world0 t0 off; s_tl := []; s_dead := false |}.

