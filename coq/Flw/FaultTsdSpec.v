(* C19 with rotation, TimestampsDirect naming (r<time stamp>[.restart-NNNN]; no rCURRENT): the executable SPECIFICATION of
   what a FileLogWriter with TimestampsDirect naming, size criterion, direct mode (no buffer), no cleanup, synchronous,
   makes of a list of records - each preceded by an advance of the clock - when the file-system calls fail as an
   arbitrary fault oracle says; and what the specification implies.  The refinement proof (the model `run` does exactly
   this) is in FaultTsd.v.

   What the model (and the code) does, read off write_buffer / mount_next / initialize:

   (iii) a failing step of the INITIALISATION ([append: the listing read_dir of latest_timestamp_file], the two read_dir
         of the collision-free infix, the open/create of the file, [append: the metadata call]): initialize returns Err,
         write_buffer returns Err BEFORE anything is written, the record is LOST, the handle reports EWrite, the state
         stays `Initial`: the next record initialises again from the beginning.  With append, a file that was created
         before the failing metadata call stays (empty) and is CONTINUED by the next initialisation - under its own time
         stamp, also when the clock has advanced.
   (i)   a rotation renames nothing: the infix of the present second is made collision-free (TWO read_dir calls), then the
         file is opened/created.  When one of these three calls fails, mount_next returns Err, the writer is still the
         old one on its old file (only the time stamp in the naming state has been set to the present second; it is never
         read again); write_buffer reports ELogFile and WRITES THE RECORD WITH THE OLD WRITER into the (over-full) old
         file.  Nothing is lost, the state is not poisoned, there is always a file.  The size counter still exceeds the
         limit, so the NEXT record tries the rotation again - with the second of THAT record.  No name is skipped.
   (iv)  the WRITE itself fails: write_buffer returns Err, the size counter is not increased, the record is LOST,
         the handle reports EWrite; the writer state is as before.
   Every oracle entry `true` that is consumed yields exactly one reported error (ELogFile: rotation step, record
   kept; EWrite: record lost).  No log call panics or returns an error. *)
Require Import FL.Base.Bytes FL.Base.BytesFacts FL.Fs.Fs FL.Flw.Model FL.Flw.Run FL.Flw.NumRun FL.Flw.TsNames FL.Flw.TsInv
  FL.Flw.FaultFacts FL.Flw.FaultRotSpec.
From Coq Require Import ZifyN ZifyNat ZifyBool.
Open Scope nat_scope.

(* ------------------------------------------------------------------ the specification *)
(* the abstract state: directory and writer.  A file is named by its key (second of its start, position among the files
   of that second: 0 = <ts>, S n = <ts>.restart-<n>) *)
Inductive tst :=
| TInit (created : option Z)  (* writer not initialised; the directory is empty / holds the empty file with the key (t, 0) *)
| TAct (keys : list key) (closed : list bytes) (d : bytes).
                              (* length keys = S (length closed): the closed files, and the file the writer writes into,
                                 which holds d and has the last key *)

Definition t_keys (st : tst) : list key :=
  match st with TInit None => [] | TInit (Some t) => [(t, 0)] | TAct keys _ _ => keys end.
Definition t_conts (st : tst) : list bytes :=
  match st with TInit None => [] | TInit (Some _) => [[]] | TAct _ closed d => closed ++ [d] end.
Definition t_closed (st : tst) : list bytes := match st with TInit _ => [] | TAct _ closed _ => closed end.
(* what a reader finds: the files in the order of their keys *)
Definition tstream (st : tst) : bytes := concat (t_conts st).

(* an initialised writer; now: the present second *)
Definition t_active (m : N) (now : Z) (keys : list key) (closed : list bytes) (d b : bytes) (fl : list bool) : tst * list ecode * list bool :=
  let stay fl0 := let '(d', e, fl') := s_write d b fl0 in (TAct keys closed d', ELogFile :: e, fl') in
  if (m <? N.of_nat (length d))%N then
    let '(f1, fl1) := pop fl in                               (* read_dir *)
    if f1 then stay fl1 else
    let '(f2, fl2) := pop fl1 in                              (* read_dir *)
    if f2 then stay fl2 else
    let '(f3, fl3) := pop fl2 in                              (* open/create the file of the present second *)
    if f3 then stay fl3 else
    let '(d', e, fl') := s_write [] b fl3 in (TAct (keys ++ [(now, count now keys)]) (closed ++ [d]) d', e, fl')
  else let '(d', e, fl') := s_write d b fl in (TAct keys closed d', e, fl').

(* a writer that is not initialised yet *)
Definition t_init (app : bool) (m : N) (now : Z) (created : option Z) (b : bytes) (fl : list bool) : tst * list ecode * list bool :=
  let '(f0, fl0) := if app then pop fl else (false, fl) in    (* read_dir: the latest time stamp (with append) *)
  if f0 then (TInit created, [EWrite], fl0) else
  let '(f1, fl1) := pop fl0 in                                (* read_dir *)
  if f1 then (TInit created, [EWrite], fl1) else
  let '(f2, fl2) := pop fl1 in                                (* read_dir *)
  if f2 then (TInit created, [EWrite], fl2) else
  let '(f3, fl3) := pop fl2 in                                (* open/create *)
  if f3 then (TInit created, [EWrite], fl3) else
  let t := match created with Some t0 => t0 | None => now end in
  let '(f4, fl4) := if app then pop fl3 else (false, fl3) in  (* metadata (with append) *)
  if f4 then (TInit (Some t), [EWrite], fl4) else
  t_active m now [(t, 0)] [] [] b fl4.

(* one record: the clock advances by dt, then the record b is logged *)
Definition tstep (app : bool) (m : N) (now : Z) (st : tst) (fl : list bool) (r : Z * bytes) : tst * list ecode * list bool :=
  match st with
  | TInit created => t_init app m (now + fst r) created (snd r) fl
  | TAct keys closed d => t_active m (now + fst r) keys closed d (snd r) fl
  end.

Fixpoint simt_st (app : bool) (m : N) (now : Z) (st : tst) (fl : list bool) (recs : list (Z * bytes)) : tst * list ecode * list bool :=
  match recs with
  | [] => (st, [], fl)
  | r :: rest =>
    let '(st1, e1, fl1) := tstep app m now st fl r in
    let '(st2, e2, fl2) := simt_st app m (now + fst r) st1 fl1 rest in (st2, e1 ++ e2, fl2)
  end.

(* the specification in the form asked for: the keys and contents of the files, the reported errors (with their codes),
   the rest of the oracle *)
Definition simt (app : bool) (m : N) (t0 : Z) (fl : list bool) (recs : list (Z * bytes)) : list key * list bytes * list ecode * list bool :=
  let '(st, e, fl') := simt_st app m t0 (TInit None) fl recs in (t_keys st, t_conts st, e, fl').

(* the history: before each record the clock advances *)
Definition tops (recs : list (Z * bytes)) : list op := flat_map (fun r => [OTick (fst r); OWrite (snd r)]) recs.
Fixpoint telapsed (recs : list (Z * bytes)) : Z := match recs with [] => 0%Z | r :: rest => (fst r + telapsed rest)%Z end.

(* ------------------------------------------------------------------ one record *)
Lemma tstream_act keys closed d : tstream (TAct keys closed d) = concat closed ++ d.
Proof. unfold tstream. cbn [t_conts]. rewrite concat_app. cbn [concat]. rewrite app_nil_r. reflexivity. Qed.
Lemma tstream_init created : tstream (TInit created) = [].
Proof. destruct created; reflexivity. Qed.

(* what one step does, in terms of: the oracle entries it uses, the reports, the stream *)
Definition tstep_ok (st : tst) (fl : list bool) (b : bytes) (r : tst * list ecode * list bool) : Prop :=
  let '(st', e, fl') := r in
  exists used, fl = used ++ fl' /\ length e = ntrue used /\ nlost e <= 1
    /\ tstream st' = tstream st ++ (if lost e then [] else b).

Lemma t_active_ok m now keys closed d b fl : tstep_ok (TAct keys closed d) fl b (t_active m now keys closed d b fl).
Proof.
  unfold t_active, tstep_ok. rewrite tstream_act.
  (* the write with the old writer after pre (no failure: errs0 = [], one failure at its end: errs0 = [ELogFile]) *)
  assert (W : forall pre fl0 errs0, fl = pre ++ fl0 -> ntrue pre = length errs0 -> lost errs0 = false -> nlost errs0 = 0 ->
     let '(d', e, fl1) := s_write d b fl0 in
     exists used, fl = used ++ fl1 /\ length (errs0 ++ e) = ntrue used /\ nlost (errs0 ++ e) <= 1
       /\ tstream (TAct keys closed d') = (concat closed ++ d) ++ (if lost (errs0 ++ e) then [] else b)).
  { intros pre fl0 errs0 Hfl Hn Hl Hnl. pose proof (s_write_ok d b fl0) as S.
    destruct (s_write d b fl0) as [[d' e] fl1]. destruct S as [used [Hu [He [Hc Hd]]]].
    exists (pre ++ used). split; [rewrite Hfl, Hu, app_assoc; reflexivity|].
    split. { rewrite app_length. unfold ntrue in *. rewrite filter_app, app_length. lia. }
    split. { unfold nlost in *. rewrite filter_app, app_length. destruct Hc as [->| ->]; cbn; lia. }
    rewrite tstream_act. unfold lost in *. rewrite existsb_app, Hl. cbn [orb]. rewrite Hd, app_assoc. reflexivity. }
  (* the write into the new file *)
  assert (Nw : forall pre fl0 k, fl = pre ++ fl0 -> ntrue pre = 0 ->
     let '(d', e, fl1) := s_write [] b fl0 in
     exists used, fl = used ++ fl1 /\ length e = ntrue used /\ nlost e <= 1
       /\ tstream (TAct (keys ++ [k]) (closed ++ [d]) d') = (concat closed ++ d) ++ (if lost e then [] else b)).
  { intros pre fl0 k Hfl Hn. pose proof (s_write_ok [] b fl0) as S.
    destruct (s_write [] b fl0) as [[d' e] fl1]. destruct S as [used [Hu [He [Hc Hd]]]].
    exists (pre ++ used). split; [rewrite Hfl, Hu, app_assoc; reflexivity|].
    split. { unfold ntrue in *. rewrite filter_app, app_length. lia. }
    split; [destruct Hc as [->| ->]; cbn; lia|].
    rewrite tstream_act, concat_app. cbn [concat]. rewrite Hd, app_nil_r. cbn [Datatypes.app]. reflexivity. }
  assert (Stay : forall pre fl0, fl = pre ++ true :: fl0 -> ntrue pre = 0 ->
     let '(st', e, fl') := (let '(d', e, fl') := s_write d b fl0 in (TAct keys closed d', ELogFile :: e, fl')) in
     exists used, fl = used ++ fl' /\ length e = ntrue used /\ nlost e <= 1
       /\ tstream st' = (concat closed ++ d) ++ (if lost e then [] else b)).
  { intros pre fl0 Hfl Hn.
    assert (Hfl' : fl = (pre ++ [true]) ++ fl0) by (rewrite Hfl, <- app_assoc; reflexivity).
    assert (Hn' : ntrue (pre ++ [true]) = length [ELogFile]) by (unfold ntrue in *; rewrite filter_app, app_length; cbn; lia).
    pose proof (W (pre ++ [true]) fl0 [ELogFile] Hfl' Hn' eq_refl eq_refl) as S1.
    destruct (s_write d b fl0) as [[d' e] fl2]. exact S1. }
  destruct (m <? N.of_nat (length d))%N.
  - destruct (pop_cases fl) as [[-> ->] | [f1 [r1 [-> ->]]]].
    + cbn [pop hd tl]. pose proof (Nw [] [] (now, count now keys) eq_refl eq_refl) as S1.
      destruct (s_write [] b []) as [[d' e] fl2]. exact S1.
    + destruct f1; [exact (Stay [] r1 eq_refl eq_refl)|].
      destruct (pop_cases r1) as [[-> ->] | [f2 [r2 [-> ->]]]].
      * cbn [pop hd tl]. pose proof (Nw [false] [] (now, count now keys) eq_refl eq_refl) as S1.
        destruct (s_write [] b []) as [[d' e] fl2]. exact S1.
      * destruct f2; [exact (Stay [false] r2 eq_refl eq_refl)|].
        destruct (pop_cases r2) as [[-> ->] | [f3 [r3 [-> ->]]]].
        -- pose proof (Nw [false; false] [] (now, count now keys) eq_refl eq_refl) as S1.
           destruct (s_write [] b []) as [[d' e] fl2]. exact S1.
        -- destruct f3; [exact (Stay [false; false] r3 eq_refl eq_refl)|].
           pose proof (Nw [false; false; false] r3 (now, count now keys) eq_refl eq_refl) as S1.
           destruct (s_write [] b r3) as [[d' e] fl2]. exact S1.
  - pose proof (W [] fl [] eq_refl eq_refl eq_refl eq_refl) as S1.
    destruct (s_write d b fl) as [[d' e] fl1]. exact S1.
Qed.

Lemma tstep_ok_prefix st st0 fl pre fl0 b r : fl = pre ++ fl0 -> ntrue pre = 0 -> tstream st0 = tstream st ->
  tstep_ok st0 fl0 b r -> tstep_ok st fl b r.
Proof.
  intros Hfl Hn Hs. destruct r as [[st' e] fl']. unfold tstep_ok. intros [used [Hu [He [Hl Hst]]]].
  exists (pre ++ used). split; [rewrite Hfl, Hu, app_assoc; reflexivity|].
  split. { unfold ntrue in *. rewrite filter_app, app_length. lia. }
  split; [exact Hl|]. rewrite Hst, Hs. reflexivity.
Qed.

(* the oracle entries of one initialisation: None = it succeeds; Some k = it fails (k: after the file was created) *)
Definition t_init_pops (app : bool) (fl : list bool) : option bool * list bool :=
  let '(f0, fl0) := if app then pop fl else (false, fl) in
  if f0 then (Some false, fl0) else
  let '(f1, fl1) := pop fl0 in
  if f1 then (Some false, fl1) else
  let '(f2, fl2) := pop fl1 in
  if f2 then (Some false, fl2) else
  let '(f3, fl3) := pop fl2 in
  if f3 then (Some false, fl3) else
  let '(f4, fl4) := if app then pop fl3 else (false, fl3) in
  if f4 then (Some true, fl4) else (None, fl4).

Definition t_first (now : Z) (created : option Z) : Z := match created with Some t0 => t0 | None => now end.

Lemma t_init_alt app m now created b fl :
  t_init app m now created b fl
  = match t_init_pops app fl with
    | (Some k, fl') => (TInit (if k then Some (t_first now created) else created), [EWrite], fl')
    | (None, fl') => t_active m now [(t_first now created, 0)] [] [] b fl'
    end.
Proof.
  unfold t_init, t_init_pops, t_first.
  destruct (if app then pop fl else (false, fl)) as [f0 fl0]. destruct f0; [reflexivity|].
  destruct (pop fl0) as [f1 fl1]. destruct f1; [reflexivity|].
  destruct (pop fl1) as [f2 fl2]. destruct f2; [reflexivity|].
  destruct (pop fl2) as [f3 fl3]. destruct f3; [reflexivity|].
  destruct (if app then pop fl3 else (false, fl3)) as [f4 fl4]. destruct f4; reflexivity.
Qed.

(* the entries an initialisation consumes: all false but, if it fails, the last one *)
Lemma t_init_pops_used app fl :
  match t_init_pops app fl with
  | (Some _, fl') => exists pre, fl = pre ++ true :: fl' /\ ntrue pre = 0
  | (None, fl') => exists pre, fl = pre ++ fl' /\ ntrue pre = 0
  end.
Proof.
  assert (P : forall l, exists f r, pop l = (f, r) /\ ((l = [] /\ f = false /\ r = []) \/ l = f :: r)).
  { intros l. destruct l as [|f r]; [exists false, []; split; [reflexivity | left; auto] | exists f, r; split; [reflexivity | right; reflexivity]]. }
  (* optional pop *)
  assert (OP : forall (o : bool) l, exists f r, (if o then pop l else (false, l)) = (f, r) /\
             ((f = false /\ exists pre, l = pre ++ r /\ ntrue pre = 0) \/ (f = true /\ l = true :: r))).
  { intros o l. destruct o.
    - destruct (P l) as [f [r [E [[El [Ef Er]]| El]]]]; exists f, r; (split; [exact E|]).
      + subst l f r. left. split; [reflexivity|]. exists []. split; reflexivity.
      + subst l. destruct f; [right; split; reflexivity | left; split; [reflexivity|]; exists [false]; split; reflexivity].
    - exists false, l. split; [reflexivity|]. left. split; [reflexivity|]. exists []. split; reflexivity. }
  unfold t_init_pops.
  destruct (OP app fl) as [f0 [fl0 [E0 H0]]]. rewrite E0.
  destruct H0 as [[-> [p0 [Hp0 N0]]]|[-> ->]]; [|exists []; split; reflexivity].
  destruct (OP true fl0) as [f1 [fl1 [E1 H1]]]. cbv iota in E1. rewrite E1.
  destruct H1 as [[-> [p1 [Hp1 N1]]]|[-> ->]]; [|exists p0; split; [exact Hp0 | exact N0]].
  destruct (OP true fl1) as [f2 [fl2 [E2 H2]]]. cbv iota in E2. rewrite E2.
  assert (N01 : ntrue (p0 ++ p1) = 0) by (unfold ntrue in *; rewrite filter_app, app_length; lia).
  destruct H2 as [[-> [p2 [Hp2 N2]]]|[-> ->]]; [|exists (p0 ++ p1); split; [rewrite Hp0, Hp1, app_assoc; reflexivity | exact N01]].
  destruct (OP true fl2) as [f3 [fl3 [E3 H3]]]. cbv iota in E3. rewrite E3.
  assert (N012 : ntrue ((p0 ++ p1) ++ p2) = 0) by (unfold ntrue in *; rewrite filter_app, app_length; lia).
  destruct H3 as [[-> [p3 [Hp3 N3]]]|[-> ->]];
    [|exists ((p0 ++ p1) ++ p2); split; [rewrite Hp0, Hp1, Hp2, !app_assoc; reflexivity | exact N012]].
  destruct (OP app fl3) as [f4 [fl4 [E4 H4]]]. rewrite E4.
  assert (N0123 : ntrue (((p0 ++ p1) ++ p2) ++ p3) = 0) by (unfold ntrue in *; rewrite filter_app, app_length; lia).
  destruct H4 as [[-> [p4 [Hp4 N4]]]|[-> ->]].
  - exists ((((p0 ++ p1) ++ p2) ++ p3) ++ p4). split; [rewrite Hp0, Hp1, Hp2, Hp3, Hp4, !app_assoc; reflexivity|].
    unfold ntrue in *. rewrite filter_app, app_length. lia.
  - exists (((p0 ++ p1) ++ p2) ++ p3). split; [rewrite Hp0, Hp1, Hp2, Hp3, !app_assoc; reflexivity | exact N0123].
Qed.

Lemma t_init_ok app m now created b fl : tstep_ok (TInit created) fl b (t_init app m now created b fl).
Proof.
  rewrite t_init_alt. pose proof (t_init_pops_used app fl) as U.
  destruct (t_init_pops app fl) as [[k|] fl'].
  - destruct U as [pre [Hfl Hn]]. exists (pre ++ [true]). split; [rewrite Hfl, <- app_assoc; reflexivity|].
    split. { unfold ntrue in *. rewrite filter_app, app_length. cbn. lia. }
    split; [cbn; lia|]. rewrite !tstream_init. reflexivity.
  - destruct U as [pre [Hfl Hn]].
    apply (tstep_ok_prefix (TInit created) (TAct [(t_first now created, 0)] [] []) fl pre fl' b _ Hfl Hn).
    + rewrite tstream_init. reflexivity.
    + apply t_active_ok.
Qed.

Theorem tstep_ok_all app m now st fl r : tstep_ok st fl (snd r) (tstep app m now st fl r).
Proof. destruct st as [created|keys closed d]; cbn [tstep]; [apply t_init_ok | apply t_active_ok]. Qed.

(* ------------------------------------------------------------------ whole lists of records *)
(* per record: the record, the reports of its log call, the oracle entries its log call consumed *)
Fixpoint tracet (app : bool) (m : N) (now : Z) (st : tst) (fl : list bool) (recs : list (Z * bytes)) : list entry :=
  match recs with
  | [] => []
  | r :: rest =>
    let '(st1, e1, fl1) := tstep app m now st fl r in
    {| t_rec := snd r; t_errs := e1; t_used := firstn (length fl - length fl1) fl |} :: tracet app m (now + fst r) st1 fl1 rest
  end.

Theorem simt_trace app m : forall recs now st fl,
  let '(st', e, fl') := simt_st app m now st fl recs in
  let t := tracet app m now st fl recs in
  List.map t_rec t = List.map snd recs
  /\ fl = concat (List.map t_used t) ++ fl'
  /\ e = concat (List.map t_errs t)
  /\ tstream st' = tstream st ++ concat (List.map t_kept t)
  /\ Forall (fun x => length (t_errs x) = ntrue (t_used x) /\ nlost (t_errs x) <= 1) t.
Proof.
  induction recs as [|r rest IH]; intros now st fl; cbn [simt_st tracet].
  - cbn. rewrite app_nil_r. repeat split. constructor.
  - pose proof (tstep_ok_all app m now st fl r) as S. destruct (tstep app m now st fl r) as [[st1 e1] fl1].
    specialize (IH (now + fst r)%Z st1 fl1). destruct (simt_st app m (now + fst r) st1 fl1 rest) as [[st2 e2] fl2].
    destruct S as [used [Hu [He [Hl Hs]]]]. destruct IH as [H1 [H2 [H3 [H4 H5]]]].
    cbn [List.map concat t_rec t_used t_errs]. subst fl. rewrite firstn_used.
    split; [rewrite H1; reflexivity|].
    split; [rewrite <- app_assoc, <- H2; reflexivity|].
    split; [rewrite H3; reflexivity|].
    split. { rewrite H4, Hs, <- app_assoc. reflexivity. }
    constructor; [cbn [t_errs t_used]; split; assumption | exact H5].
Qed.

Lemma telapsed_app a b : telapsed (a ++ b) = (telapsed a + telapsed b)%Z.
Proof. induction a as [|r a IH]; cbn [Datatypes.app telapsed]; [reflexivity | rewrite IH; lia]. Qed.

Lemma simt_st_app app m : forall recs1 recs2 now st fl,
  simt_st app m now st fl (recs1 ++ recs2)
  = let '(st1, e1, fl1) := simt_st app m now st fl recs1 in
    let '(st2, e2, fl2) := simt_st app m (now + telapsed recs1) st1 fl1 recs2 in (st2, e1 ++ e2, fl2).
Proof.
  induction recs1 as [|r rest IH]; intros recs2 now st fl; cbn [Datatypes.app simt_st telapsed].
  - rewrite Z.add_0_r. destruct (simt_st app m now st fl recs2) as [[st2 e2] fl2]. reflexivity.
  - destruct (tstep app m now st fl r) as [[st1 e1] fl1]. rewrite IH.
    destruct (simt_st app m (now + fst r) st1 fl1 rest) as [[st2 e2] fl2].
    rewrite Z.add_assoc.
    destruct (simt_st app m (now + fst r + telapsed rest) st2 fl2 recs2) as [[st3 e3] fl3]. rewrite app_assoc. reflexivity.
Qed.

(* (2) Only records during whose own log call a failing call was consumed can be missing; the stream (the files in the
   order of their keys) consists of the other records, in order, each once. *)
Theorem tsd_lost_only_around_failures app m t0 fl recs :
  let '(st', e, fl') := simt_st app m t0 (TInit None) fl recs in
  let t := tracet app m t0 (TInit None) fl recs in
  List.map t_rec t = List.map snd recs
  /\ fl = concat (List.map t_used t) ++ fl'
  /\ e = concat (List.map t_errs t)
  /\ tstream st' = concat (List.map t_kept t)
  /\ (forall x, In x t -> length (t_errs x) = ntrue (t_used x))
  /\ (forall x, In x t -> (forall f, In f (t_used x) -> f = false) -> t_errs x = [] /\ t_kept x = t_rec x)
  /\ (forall x, In x t -> t_kept x <> t_rec x -> In true (t_used x) /\ In EWrite (t_errs x)).
Proof.
  pose proof (simt_trace app m recs t0 (TInit None) fl) as T.
  destruct (simt_st app m t0 (TInit None) fl recs) as [[st' e] fl']. cbv zeta in T |- *.
  destruct T as [H1 [H2 [H3 [H4 H5]]]]. rewrite Forall_forall in H5.
  split; [exact H1|]. split; [exact H2|]. split; [exact H3|]. split; [exact H4|].
  split; [intros x Hx; apply (H5 x Hx)|].
  split.
  - intros x Hx Hall. destruct (H5 x Hx) as [Hn _]. apply ntrue_0_all_false in Hall. rewrite Hall in Hn.
    destruct (t_errs x) eqn:E; [|discriminate]. unfold t_kept. rewrite E. split; reflexivity.
  - intros x Hx Hk. destruct (H5 x Hx) as [Hn _]. unfold t_kept in Hk.
    destruct (lost (t_errs x)) eqn:El; [|congruence]. split.
    + destruct (in_dec Bool.bool_dec true (t_used x)) as [Hi|Hi]; [exact Hi|]. exfalso.
      assert (Hall : forall f, In f (t_used x) -> f = false) by (intros [|] Hf; [contradiction | reflexivity]).
      apply ntrue_0_all_false in Hall. rewrite Hall in Hn. destruct (t_errs x); [discriminate El | discriminate Hn].
    + unfold lost in El. apply existsb_exists in El. destruct El as [c [Hc Ec]]. destruct c; try discriminate. exact Hc.
Qed.

(* (3) the stream is the concatenation of a subsequence of the records (no duplication, no reordering); each missing
   record is one reported EWrite: #missing = #EWrite <= #reported errors (the other reports are ELogFile: a failed
   step of a rotation, the record of that call was kept) *)
Theorem tsd_loss_is_reported app m : forall recs now st fl,
  let '(st', e, _) := simt_st app m now st fl recs in
  exists kept, Subseq kept (List.map snd recs) /\ tstream st' = tstream st ++ concat kept
    /\ length recs = length kept + nlost e /\ nlost e <= length e
    /\ (forall c, In c e -> c = EWrite \/ c = ELogFile).
Proof.
  induction recs as [|r rest IH]; intros now st fl; cbn [simt_st List.map].
  - exists []. cbn. rewrite app_nil_r. repeat split; [constructor | lia | intros c []].
  - pose proof (tstep_ok_all app m now st fl r) as S.
    assert (Codes : forall c, In c (snd (fst (tstep app m now st fl r))) -> c = EWrite \/ c = ELogFile).
    { assert (SW : forall d b fl0 c, In c (snd (fst (s_write d b fl0))) -> c = EWrite \/ c = ELogFile).
      { intros d b fl0 c. unfold s_write. destruct (wr_pop b fl0) as [f fl1]. destruct f; cbn [fst snd]; [intros [<-|[]]; auto | intros []]. }
      assert (A : forall nw keys closed d b fl0 c, In c (snd (fst (t_active m nw keys closed d b fl0))) -> c = EWrite \/ c = ELogFile).
      { intros nw keys closed d b fl0 c. unfold t_active.
        assert (St : forall fl1, In c (snd (fst (let '(d', e, fl') := s_write d b fl1 in (TAct keys closed d', ELogFile :: e, fl')))) ->
                     c = EWrite \/ c = ELogFile).
        { intros fl1. pose proof (SW d b fl1 c) as X. destruct (s_write d b fl1) as [[d' e] fl2]. cbn [fst snd] in *. intros [<-|H]; auto. }
        destruct (m <? N.of_nat (length d))%N.
        - destruct (pop fl0) as [f1 fl1]. destruct f1; [apply St|].
          destruct (pop fl1) as [f2 fl2]. destruct f2; [apply St|].
          destruct (pop fl2) as [f3 fl3]. destruct f3; [apply St|].
          pose proof (SW [] b fl3 c) as X. destruct (s_write [] b fl3) as [[d' e] fl4]. exact X.
        - pose proof (SW d b fl0 c) as X. destruct (s_write d b fl0) as [[d' e] fl2]. exact X. }
      intros c. destruct st as [created|keys closed d]; cbn [tstep]; [|apply A].
      rewrite t_init_alt. destruct (t_init_pops app fl) as [[k|] fl']; [cbn; intros [<-|[]]; auto | apply A]. }
    destruct (tstep app m now st fl r) as [[st1 e1] fl1]. cbn [fst snd] in Codes.
    specialize (IH (now + fst r)%Z st1 fl1). destruct (simt_st app m (now + fst r) st1 fl1 rest) as [[st2 e2] fl2].
    destruct S as [used [Hu [He [Hl Hs]]]]. destruct IH as [kept [Hsub [Hst [Hlen [Hle Hco]]]]].
    pose proof (nlost_le (e1 ++ e2)) as Hle2. rewrite nlost_app in Hle2.
    assert (Hco2 : forall c, In c (e1 ++ e2) -> c = EWrite \/ c = ELogFile).
    { intros c Hc. apply in_app_or in Hc. destruct Hc as [Hc|Hc]; [apply Codes | apply Hco]; exact Hc. }
    destruct (lost e1) eqn:El.
    + exists kept. split; [constructor; exact Hsub|]. rewrite Hst, Hs, app_nil_r. split; [reflexivity|].
      apply lost_nlost in El. rewrite nlost_app. cbn [length]. split; [lia|]. split; [lia | exact Hco2].
    + exists (snd r :: kept). split; [constructor; exact Hsub|]. rewrite Hst, Hs, <- app_assoc. split; [reflexivity|].
      assert (nlost e1 = 0). { destruct (nlost e1) eqn:E; [reflexivity|]. assert (lost e1 = true) by (apply lost_nlost; lia). congruence. }
      rewrite nlost_app. cbn [length]. split; [lia|]. split; [lia | exact Hco2].
Qed.

(* ------------------------------------------------------------------ the keys, for every oracle *)
(* the state is well-formed at the second `now`: one more key than closed files; the keys are those of keys_ok (seconds
   non-decreasing, within one second the positions 0, 1, 2, ...: all keys - all names - different), all in [lo, now] *)
Definition t_ok (lo now : Z) (st : tst) : Prop :=
  match st with TAct keys closed _ => length keys = S (length closed) | TInit _ => True end
  /\ keys_ok (t_keys st) /\ (forall k, In k (t_keys st) -> (lo <= fst k <= now)%Z).

Lemma keys_ok_one t : keys_ok [(t, 0)].
Proof. exact (ko_snoc [] t ko_nil (fun k (H : In k []) => match H with end)). Qed.

(* what one step does to the files: keys and closed files are only extended (a closed file keeps key and content) *)
Definition textends (st st' : tst) : Prop :=
  (exists xk, t_keys st' = t_keys st ++ xk) /\ (exists xc, t_closed st' = t_closed st ++ xc).

Lemma t_active_keys m lo now now' keys closed d b fl : (lo <= now <= now')%Z ->
  let st' := fst (fst (t_active m now' keys closed d b fl)) in
  (t_ok lo now (TAct keys closed d) -> t_ok lo now' st') /\ textends (TAct keys closed d) st'.
Proof.
  intros Hn.
  assert (Same : forall d', (t_ok lo now (TAct keys closed d) -> t_ok lo now' (TAct keys closed d'))
                            /\ textends (TAct keys closed d) (TAct keys closed d')).
  { intros d'. split.
    - intros [L [K R]]. split; [exact L|]. split; [exact K|]. intros k Ik. specialize (R k Ik). lia.
    - split; [exists [] | exists []]; cbn [t_keys t_closed]; rewrite app_nil_r; reflexivity. }
  assert (Stay : forall fl0, let st' := fst (fst (let '(d', e, fl') := s_write d b fl0 in (TAct keys closed d', ELogFile :: e, fl'))) in
            (t_ok lo now (TAct keys closed d) -> t_ok lo now' st') /\ textends (TAct keys closed d) st').
  { intros fl0. destruct (s_write d b fl0) as [[d' e] fl1]. apply Same. }
  unfold t_active. destruct (m <? N.of_nat (length d))%N.
  - destruct (pop fl) as [f1 fl1]. destruct f1; [apply Stay|].
    destruct (pop fl1) as [f2 fl2]. destruct f2; [apply Stay|].
    destruct (pop fl2) as [f3 fl3]. destruct f3; [apply Stay|].
    destruct (s_write [] b fl3) as [[d' e] fl4]. cbn [fst]. split.
    + intros [L [K R]]. cbn [t_keys] in *. split; [rewrite !app_length, L; cbn [length]; lia|].
      split; [apply ko_snoc; [exact K | intros k Ik; specialize (R k Ik); lia]|].
      intros k Ik. apply in_app_or in Ik. destruct Ik as [Ik|[<-|[]]]; [specialize (R k Ik); lia | cbn [fst]; lia].
    + split; eexists; reflexivity.
  - destruct (s_write d b fl) as [[d' e] fl1]. apply Same.
Qed.

Lemma tstep_keys app m lo now st fl r : (lo <= now)%Z -> (0 <= fst r)%Z ->
  let st' := fst (fst (tstep app m now st fl r)) in
  (t_ok lo now st -> t_ok lo (now + fst r) st') /\ textends st st'.
Proof.
  intros Hlo Hdt. assert (Hn : (lo <= now <= now + fst r)%Z) by lia.
  destruct st as [created|keys closed d]; cbn [tstep]; [|apply (t_active_keys m lo now); exact Hn].
  rewrite t_init_alt. destruct (t_init_pops app fl) as [[k|] fl'].
  - cbn [fst]. destruct k.
    + split.
      * intros [_ [K R]]. split; [exact I|]. cbn [t_keys]. split; [apply keys_ok_one|].
        intros k [<-|[]]. cbn [fst]. unfold t_first. destruct created as [t0|]; [pose proof (R (t0, 0) (or_introl eq_refl)) as X; cbn [fst] in X; lia | lia].
      * split; [|exists []; reflexivity]. unfold t_first. destruct created as [t0|]; cbn [t_keys]; [exists []; reflexivity | eexists; reflexivity].
    + split.
      * intros [_ [K R]]. split; [exact I|]. split; [exact K|]. intros k Ik. specialize (R k Ik). lia.
      * split; exists []; rewrite app_nil_r; reflexivity.
  - (* the first record of a fresh writer never rotates *)
    unfold t_active. change (N.of_nat (length (@nil N))) with 0%N.
    assert (E : (m <? 0)%N = false) by (apply N.ltb_ge; apply N.le_0_l). rewrite E.
    destruct (s_write [] (snd r) fl') as [[d' e] fl1]. cbn [fst]. split.
    + intros [_ [K R]]. split; [reflexivity|]. cbn [t_keys]. split; [apply keys_ok_one|].
      intros k [<-|[]]. cbn [fst]. unfold t_first. destruct created as [t0|]; [pose proof (R (t0, 0) (or_introl eq_refl)) as X; cbn [fst] in X; lia | lia].
    + split; [|exists []; reflexivity]. unfold t_first. destruct created as [t0|]; cbn [t_keys]; [exists []; reflexivity | eexists; reflexivity].
Qed.

Definition ticks_ok (recs : list (Z * bytes)) : Prop := Forall (fun r => (0 <= fst r)%Z) recs.

Lemma telapsed_nonneg recs : ticks_ok recs -> (0 <= telapsed recs)%Z.
Proof. induction 1 as [|r rest Hr _ IH]; cbn [telapsed]; lia. Qed.

(* for EVERY oracle: the keys of the files are those of keys_ok - all different, so no file is ever opened a second time;
   each key carries the second at which its file was started -, and keys and closed files are only extended *)
Theorem simt_keys app m lo : forall recs now st fl, (lo <= now)%Z -> ticks_ok recs ->
  let st' := fst (fst (simt_st app m now st fl recs)) in
  (t_ok lo now st -> t_ok lo (now + telapsed recs) st') /\ textends st st'.
Proof.
  induction recs as [|r rest IH]; intros now st fl Hlo Ht; cbn [simt_st telapsed].
  - cbn [fst]. rewrite Z.add_0_r. split; [auto|]. split; exists []; rewrite app_nil_r; reflexivity.
  - inversion Ht as [|r' rest' Hr Hrest]; subst.
    pose proof (tstep_keys app m lo now st fl r Hlo Hr) as S. destruct (tstep app m now st fl r) as [[st1 e1] fl1]. cbn [fst] in S.
    assert (Hlo1 : (lo <= now + fst r)%Z) by lia.
    specialize (IH (now + fst r)%Z st1 fl1 Hlo1 Hrest). destruct (simt_st app m (now + fst r) st1 fl1 rest) as [[st2 e2] fl2]. cbn [fst] in *.
    destruct S as [S1 [[k1 S2] [c1 S3]]]. destruct IH as [I1 [[k2 I2] [c2 I3]]].
    split; [rewrite Z.add_assoc; auto|].
    split; [exists (k1 ++ k2); rewrite I2, S2, app_assoc; reflexivity | exists (c1 ++ c2); rewrite I3, S3, app_assoc; reflexivity].
Qed.

Lemma t_ok_init lo now : t_ok lo now (TInit None).
Proof. split; [exact I|]. split; [constructor | intros k []]. Qed.

(* ------------------------------------------------------------------ (4) recovery *)
(* the view of the fault-free development (NumRun.aview): closed contents and the content of the writer's file *)
Definition taview (st : tst) : aview :=
  match st with TInit _ => None | TAct _ closed d => Some (closed, d) end.

(* one record when no more failures come: nothing is reported, the record is appended, a rotation that is due is carried
   out (also one that failed before), the state is that of the fault-free size rule *)
Lemma tstep_recovered app m now st fl r : all_false fl ->
  let '(st', e, fl') := tstep app m now st fl r in
  e = [] /\ all_false fl' /\ (exists keys closed d, st' = TAct keys closed d)
  /\ taview st' = a_step (taview st) (OWrite (snd r)) (m <? N.of_nat (length (cur_of (taview st))))%N.
Proof.
  intros Hf. set (b := snd r).
  assert (W : forall d fl0, all_false fl0 -> let '(d', e, fl1) := s_write d b fl0 in d' = d ++ b /\ e = [] /\ all_false fl1).
  { intros d fl0 H0. unfold s_write, wr_pop. destruct b as [|x b']; [rewrite app_nil_r; auto|].
    destruct (pop_all_false fl0 H0) as [E1 E2]. destruct (pop fl0) as [f fl1]. cbn [fst snd] in *. subst f. auto. }
  assert (A : forall nw keys closed d fl0, all_false fl0 ->
     let '(st', e, fl') := t_active m nw keys closed d b fl0 in
     e = [] /\ all_false fl' /\ (exists keys' closed' d', st' = TAct keys' closed' d')
     /\ taview st' = a_step (Some (closed, d)) (OWrite b) (m <? N.of_nat (length d))%N).
  { intros nw keys closed d fl0 H0. unfold t_active. cbn [a_step].
    destruct (m <? N.of_nat (length d))%N eqn:Em.
    - destruct (pop_all_false fl0 H0) as [E1 E2]. destruct (pop fl0) as [f1 fl1]. cbn [fst snd] in *. subst f1.
      destruct (pop_all_false fl1 E2) as [E3 E4]. destruct (pop fl1) as [f2 fl2]. cbn [fst snd] in *. subst f2.
      destruct (pop_all_false fl2 E4) as [E5 E6]. destruct (pop fl2) as [f3 fl3]. cbn [fst snd] in *. subst f3.
      pose proof (W [] fl3 E6) as S. destruct (s_write [] b fl3) as [[d' e] fl4]. destruct S as [-> [-> S3]].
      split; [reflexivity|]. split; [exact S3|]. split; [eauto | reflexivity].
    - pose proof (W d fl0 H0) as S. destruct (s_write d b fl0) as [[d' e] fl1]. destruct S as [-> [-> S3]].
      split; [reflexivity|]. split; [exact S3|]. split; [eauto | reflexivity]. }
  destruct st as [created|keys closed d]; cbn [tstep taview cur_of]; fold b.
  - rewrite t_init_alt.
    assert (P : fst (t_init_pops app fl) = None /\ all_false (snd (t_init_pops app fl))).
    { assert (OP : forall (o : bool) l, all_false l -> fst (if o then pop l else (false, l)) = false /\ all_false (snd (if o then pop l else (false, l)))).
      { intros o l Hl. destruct o; [apply pop_all_false; exact Hl | split; [reflexivity | exact Hl]]. }
      unfold t_init_pops.
      destruct (OP app fl Hf) as [E0 F0]. destruct (if app then pop fl else (false, fl)) as [f0 fl0]. cbn [fst snd] in *. subst f0.
      destruct (pop_all_false fl0 F0) as [E1 F1]. destruct (pop fl0) as [f1 fl1]. cbn [fst snd] in *. subst f1.
      destruct (pop_all_false fl1 F1) as [E2 F2]. destruct (pop fl1) as [f2 fl2]. cbn [fst snd] in *. subst f2.
      destruct (pop_all_false fl2 F2) as [E3 F3]. destruct (pop fl2) as [f3 fl3]. cbn [fst snd] in *. subst f3.
      destruct (OP app fl3 F3) as [E4 F4]. destruct (if app then pop fl3 else (false, fl3)) as [f4 fl4]. cbn [fst snd] in *. subst f4.
      split; [reflexivity | exact F4]. }
    destruct (t_init_pops app fl) as [o fl']. cbn [fst snd] in P. destruct P as [-> Hf'].
    pose proof (A (now + fst r)%Z [(t_first (now + fst r) created, 0)] [] [] fl' Hf') as S.
    destruct (t_active m (now + fst r) [(t_first (now + fst r) created, 0)] [] [] b fl') as [[st' e] fl'']. exact S.
  - pose proof (A (now + fst r)%Z keys closed d fl Hf) as S.
    destruct (t_active m (now + fst r) keys closed d b fl) as [[st' e] fl']. exact S.
Qed.

Lemma s_run_tops_cons m a r rest :
  s_run m a (tops (r :: rest)) = s_run m (a_step a (OWrite (snd r)) (m <? N.of_nat (length (cur_of a)))%N) (tops rest).
Proof. reflexivity. Qed.

Lemma tops_app a b : tops (a ++ b) = tops a ++ tops b.
Proof. unfold tops. apply flat_map_app. Qed.

(* (4) Once no more failures come (the rest of the oracle is empty or all `false`), nothing more is reported, every
   further record is in the stream, and rotation works again: the contents develop exactly by the fault-free size rule
   NumRun.s_run (rotate before a record iff the file holds more than m bytes) - a rotation whose steps failed is carried out
   with the next record *)
Theorem tsd_recovery_spec app m : forall recs now st fl, all_false fl ->
  let '(st', e, fl') := simt_st app m now st fl recs in
  e = [] /\ all_false fl' /\ tstream st' = tstream st ++ concat (List.map snd recs)
  /\ taview st' = s_run m (taview st) (tops recs)
  /\ (recs <> [] -> exists keys closed d, st' = TAct keys closed d).
Proof.
  induction recs as [|r rest IH]; intros now st fl Hf; cbn [simt_st List.map].
  - cbn [s_run concat tops flat_map]. rewrite app_nil_r. repeat split; try assumption. intros H; contradiction.
  - rewrite s_run_tops_cons.
    pose proof (tstep_recovered app m now st fl r Hf) as S. pose proof (tstep_ok_all app m now st fl r) as K.
    destruct (tstep app m now st fl r) as [[st1 e1] fl1]. destruct S as [-> [Hf1 [[ks1 [cl1 [d1 Est]]] Hv]]].
    destruct K as [used [_ [_ [_ Hs]]]]. cbn [lost existsb] in Hs.
    specialize (IH (now + fst r)%Z st1 fl1 Hf1). destruct (simt_st app m (now + fst r) st1 fl1 rest) as [[st2 e2] fl2] eqn:Er.
    destruct IH as [-> [Hf2 [Hs2 [Hv2 Hc2]]]].
    split; [reflexivity|]. split; [exact Hf2|].
    split; [rewrite Hs2, Hs; cbn [concat]; rewrite <- app_assoc; reflexivity|].
    split; [rewrite Hv2, Hv; reflexivity|].
    intros _. destruct rest as [|r2 rest2]; [|apply Hc2; discriminate].
    cbn [simt_st] in Er. injection Er as <- _. eauto.
Qed.

Theorem tsd_recovery app m t0 fl recs1 recs2 : ticks_ok (recs1 ++ recs2) ->
  let '(st1, e1, fl1) := simt_st app m t0 (TInit None) fl recs1 in
  all_false fl1 ->
  let '(st2, e2, fl2) := simt_st app m t0 (TInit None) fl (recs1 ++ recs2) in
  e2 = e1 /\ tstream st2 = tstream st1 ++ concat (List.map snd recs2)
  /\ taview st2 = s_run m (taview st1) (tops recs2)
  /\ textends st1 st2
  /\ t_ok t0 (t0 + telapsed (recs1 ++ recs2)) st2
  /\ (recs2 <> [] -> exists keys closed d, st2 = TAct keys closed d).
Proof.
  intros Ht. rewrite simt_st_app. apply Forall_app in Ht. destruct Ht as [Ht1 Ht2].
  pose proof (simt_keys app m t0 recs1 t0 (TInit None) fl (Z.le_refl _) Ht1) as F1.
  destruct (simt_st app m t0 (TInit None) fl recs1) as [[st1 e1] fl1]. cbn [fst] in F1. intros Hf.
  pose proof (tsd_recovery_spec app m recs2 (t0 + telapsed recs1)%Z st1 fl1 Hf) as R.
  pose proof (telapsed_nonneg recs1 Ht1) as Hn1.
  pose proof (simt_keys app m t0 recs2 (t0 + telapsed recs1)%Z st1 fl1 ltac:(lia) Ht2) as F2.
  destruct (simt_st app m (t0 + telapsed recs1) st1 fl1 recs2) as [[st2 e2] fl2]. cbn [fst] in F2.
  destruct R as [-> [_ [Hs [Hv Hc]]]].
  rewrite app_nil_r. destruct F1 as [S1 _]. destruct F2 as [S2 X2].
  split; [reflexivity|]. split; [exact Hs|]. split; [exact Hv|]. split; [exact X2|].
  split; [rewrite telapsed_app, Z.add_assoc; apply S2, S1, t_ok_init | exact Hc].
Qed.

Print Assumptions tsd_lost_only_around_failures.
Print Assumptions tsd_loss_is_reported.
Print Assumptions simt_keys.
Print Assumptions tsd_recovery.
