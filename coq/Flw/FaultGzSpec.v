(* C19 with rotation and a cleanup that COMPRESSES: the executable SPECIFICATION of what a FileLogWriter with Numbers
   naming, size criterion, direct mode, cleanup KeepLogFiles a / KeepCompressedFiles b / KeepLogAndCompressedFiles a b
   (in the caller's thread), synchronous, makes of a list of records when the file-system calls fail as an arbitrary
   fault oracle says.  The refinement proof is in FaultGz.v.  FaultCleanupSpec.v is the special case without archives
   (deletion only); the cases (i)-(vi) described there and in FaultRotSpec.v stay as they are.

   The cleanup (cleanup_impl, list_and_cleanup.rs), with ll = the number of files kept as they are and total = ll + the
   number of files kept as archives:
     1. read_dir.  The listing: the plain closed files, newest (highest number) first, THEN the archives r<i>.log.gz,
        newest first.
     2. every archive whose original is listed too (left by an interrupted compression) is removed, newest first: one
        remove_file call each; a failure ends the cleanup.
     3. the loop over the listing by POSITION k: k < ll: kept; ll <= k < total: an archive is kept, a plain file is
        compressed; total <= k: removed (one remove_file call).  The first failure ends the cleanup.
     compress_file makes five calls: create <name>.gz, open the original, copy, finish, remove the original.
        create fails: nothing has changed.   open or copy fails: the archive stays, complete but EMPTY, next to the original.
        finish or remove fails: the archive stays with the full content, next to the original.
   (Since the positions count the plain files first, an old plain file left over by a failed cleanup is compressed and
   kept while newer archives are removed: the specification follows the listing, not the numbers.)

   The closed files: pl = the plain files (index, content), ar = the archives (index, what gunzip yields), both ascending. *)
Require Import FL.Base.Bytes FL.Base.BytesFacts FL.Fs.Fs FL.Flw.Model FL.Flw.Run FL.Flw.NumRun FL.Flw.FaultFacts FL.Flw.FaultRotSpec
  FL.Flw.FaultCleanupSpec.
From Coq Require Import ZifyN ZifyNat ZifyBool.
Open Scope nat_scope.

(* ------------------------------------------------------------------ lists of (index, content) *)
Definition memi (i : nat) (l : cdir) : bool := existsb (fun p => Nat.eqb (fst p) i) l.
Definition deli (i : nat) (l : cdir) : cdir := filter (fun p => negb (Nat.eqb (fst p) i)) l.
Fixpoint insi (p : nat * bytes) (l : cdir) : cdir :=
  match l with [] => [p] | q :: r => if Nat.ltb (fst p) (fst q) then p :: l else q :: insi p r end.

(* ------------------------------------------------------------------ the cleanup *)
(* step 2: the redundant archives are removed, newest first *)
Fixpoint g_red (red : cdir) (ar : cdir) (fl : list bool) : cdir * bool * list bool :=
  match red with
  | [] => (ar, true, fl)
  | p :: r => let '(f, fl1) := pop fl in if f then (ar, false, fl1) else g_red r (deli (fst p) ar) fl1
  end.

(* the plain file (i, d) is compressed *)
Definition g_compress (i : nat) (d : bytes) (pl ar : cdir) (fl : list bool) : cdir * cdir * bool * list bool :=
  let '(f1, fl1) := pop fl in if f1 then (pl, ar, false, fl1) else                 (* create the archive *)
  let '(f2, fl2) := pop fl1 in if f2 then (pl, insi (i, []) ar, false, fl2) else   (* open the original *)
  let '(f3, fl3) := pop fl2 in if f3 then (pl, insi (i, []) ar, false, fl3) else   (* copy *)
  let '(f4, fl4) := pop fl3 in if f4 then (pl, insi (i, d) ar, false, fl4) else    (* finish *)
  let '(f5, fl5) := pop fl4 in if f5 then (pl, insi (i, d) ar, false, fl5) else    (* remove the original *)
  (deli i pl, insi (i, d) ar, true, fl5).

(* step 3: the loop over the listing; an entry: is it an archive, its index and content *)
Definition lentry := (bool * (nat * bytes))%type.
Fixpoint g_loop (files : list lentry) (k ll total : nat) (pl ar : cdir) (fl : list bool) : cdir * cdir * bool * list bool :=
  match files with
  | [] => (pl, ar, true, fl)
  | (g, (i, d)) :: r =>
    if Nat.leb total k then
      let '(f, fl1) := pop fl in
      if f then (pl, ar, false, fl1)
      else g_loop r (S k) ll total (if g then pl else deli i pl) (if g then deli i ar else ar) fl1
    else if Nat.leb ll k then
      if g then g_loop r (S k) ll total pl ar fl
      else let '(pl1, ar1, ok, fl1) := g_compress i d pl ar fl in
           if ok then g_loop r (S k) ll total pl1 ar1 fl1 else (pl1, ar1, false, fl1)
    else g_loop r (S k) ll total pl ar fl
  end.

Definition g_listing (pl ar : cdir) : list lentry := List.map (pair false) (rev pl) ++ List.map (pair true) (rev ar).
Definition g_redundant (pl ar : cdir) : cdir := filter (fun a => memi (fst a) pl) (rev ar).

Definition g_cleanup (ll total : nat) (pl ar : cdir) (fl : list bool) : cdir * cdir * bool * list bool :=
  let '(f0, fl0) := pop fl in                                         (* read_dir *)
  if f0 then (pl, ar, false, fl0) else
  let '(ar1, ok0, fl1) := g_red (g_redundant pl ar) ar fl0 in
  if negb ok0 then (pl, ar1, false, fl1) else
  g_loop (g_listing pl ar1) 0 ll total pl ar1 fl1.

(* ------------------------------------------------------------------ the writer *)
Inductive gst :=
| GInit (pl ar : cdir) (created : bool)
| GCur (pl ar : cdir) (idx : nat) (d : bytes)
| GOld (pl ar : cdir) (idx : nat) (d : bytes).

Definition g_active (m : N) (ll total : nat) (old : bool) (pl ar : cdir) (idx : nat) (d b : bytes) (fl : list bool)
  : gst * list ecode * list bool :=
  let same d' := if old then GOld pl ar idx d' else GCur pl ar idx d' in
  if (m <? N.of_nat (length d))%N then
    let '(f1, fl1) := pop fl in                               (* rename rCURRENT -> r<idx> *)
    if f1 then let '(d', e, fl2) := s_write d b fl1 in (same d', ELogFile :: e, fl2)
    else
      let '(f2, fl2) := pop fl1 in                            (* create the new rCURRENT *)
      if f2 then let '(d', e, fl3) := s_write d b fl2 in (GOld pl ar idx d', ELogFile :: e, fl3)
      else
        let '(pl2, ar2, ok, fl3) := g_cleanup ll total (pl ++ [(idx, d)]) ar fl2 in
        let '(d', e, fl4) := s_write [] b fl3 in
        (GCur pl2 ar2 (S idx) d', (if ok then [] else [ELogFile]) ++ e, fl4)
  else let '(d', e, fl1) := s_write d b fl in (same d', e, fl1).

(* the index a (re-)initialisation finds: the highest one among plain files and archives + 1 *)
Definition g_next (pl ar : cdir) : nat := Nat.max (next_idx pl) (next_idx ar).

Definition g_init (ap : bool) (m : N) (ll total : nat) (pl ar : cdir) (created : bool) (b : bytes) (fl : list bool)
  : gst * list ecode * list bool :=
  let '(f1, fl1) := pop fl in                                 (* read_dir *)
  if f1 then (GInit pl ar created, [EWrite], fl1) else
  let idx := g_next pl ar in
  let '(f2, fl2) := if ap then (false, fl1) else pop fl1 in   (* rename of an old rCURRENT (not with append) *)
  if f2 then (GInit pl ar created, [EWrite], fl2) else
  let pl1 := if ap then pl else if created then pl ++ [(idx, [])] else pl in
  let idx1 := if ap then idx else if created then S idx else idx in
  let created1 := if ap then created else false in
  let '(f3, fl3) := pop fl2 in                                (* open/create rCURRENT *)
  if f3 then (GInit pl1 ar created1, [EWrite], fl3) else
  let '(f4, fl4) := if ap then pop fl3 else (false, fl3) in   (* metadata (with append) *)
  if f4 then (GInit pl1 ar true, [EWrite], fl4) else
  let '(pl2, ar2, ok, fl5) := g_cleanup ll total pl1 ar fl4 in
  if ok then g_active m ll total false pl2 ar2 idx1 [] b fl5 else (GInit pl2 ar2 true, [EWrite], fl5).

Definition gstep (ap : bool) (m : N) (ll total : nat) (st : gst) (fl : list bool) (b : bytes) : gst * list ecode * list bool :=
  match st with
  | GInit pl ar created => g_init ap m ll total pl ar created b fl
  | GCur pl ar idx d => g_active m ll total false pl ar idx d b fl
  | GOld pl ar idx d => g_active m ll total true pl ar idx d b fl
  end.

Fixpoint simg_st (ap : bool) (m : N) (ll total : nat) (st : gst) (fl : list bool) (recs : list bytes) : gst * list ecode * list bool :=
  match recs with
  | [] => (st, [], fl)
  | b :: rest =>
    let '(st1, e1, fl1) := gstep ap m ll total st fl b in
    let '(st2, e2, fl2) := simg_st ap m ll total st1 fl1 rest in (st2, e1 ++ e2, fl2)
  end.

Definition g_plain (st : gst) : cdir :=
  match st with GInit pl _ _ => pl | GCur pl _ _ _ => pl | GOld pl _ idx d => pl ++ [(idx, d)] end.
Definition g_arch (st : gst) : cdir := match st with GInit _ ar _ => ar | GCur _ ar _ _ => ar | GOld _ ar _ _ => ar end.
Definition g_cur (st : gst) : option bytes :=
  match st with GInit _ _ created => if created then Some [] else None | GCur _ _ _ d => Some d | GOld _ _ _ _ => None end.

(* the specification: plain closed files, archives, current file, reported errors, the rest of the oracle *)
Definition simg (ap : bool) (m : N) (ll total : nat) (fl : list bool) (recs : list bytes)
  : cdir * cdir * option bytes * list ecode * list bool :=
  let '(st, e, fl') := simg_st ap m ll total (GInit [] [] false) fl recs in (g_plain st, g_arch st, g_cur st, e, fl').

(* ------------------------------------------------------------------ facts on deli / insi / memi *)
Lemma memi_true i l : memi i l = true <-> exists d, In (i, d) l.
Proof.
  unfold memi. rewrite existsb_exists. split.
  - intros [[j d] [Hin E]]. cbn [fst] in E. apply Nat.eqb_eq in E. subst j. eauto.
  - intros [d Hin]. exists (i, d). split; [exact Hin | apply Nat.eqb_refl].
Qed.
Lemma memi_false i l : memi i l = false <-> forall d, ~ In (i, d) l.
Proof.
  split.
  - intros H d Hin. assert (X : memi i l = true) by (apply memi_true; eauto). congruence.
  - intros H. destruct (memi i l) eqn:E; [|reflexivity]. apply memi_true in E. destruct E as [d Hd]. exfalso. exact (H d Hd).
Qed.
Lemma deli_in i l (p : nat * bytes) : In p (deli i l) <-> In p l /\ fst p <> i.
Proof. unfold deli. rewrite filter_In, Bool.negb_true_iff, Nat.eqb_neq. reflexivity. Qed.
Lemma insi_in q l (p : nat * bytes) : In p (insi q l) <-> p = q \/ In p l.
Proof.
  induction l as [|x l IH]; cbn [insi In]; [intuition congruence|].
  destruct (Nat.ltb (fst q) (fst x)); cbn [In]; [intuition congruence|]. rewrite IH. intuition congruence.
Qed.
Lemma insi_length q l : length (insi q l) = S (length l).
Proof. induction l as [|x l IH]; cbn [insi length]; [reflexivity|]. destruct (Nat.ltb (fst q) (fst x)); cbn [length]; lia. Qed.

(* ------------------------------------------------------------------ the cleanup only deletes and compresses *)
Lemma g_red_incl : forall red (ar : cdir) fl p, In p (fst (fst (g_red red ar fl))) -> In p ar.
Proof.
  induction red as [|a r IH]; intros ar fl p; cbn [g_red]; [cbn [fst]; auto|].
  destruct (pop fl) as [t fl1]. destruct t; cbn [fst]; [auto|]. intros H. apply IH in H. apply deli_in in H. exact (proj1 H).
Qed.

(* an archive that a compression leaves holds the content of its original, or nothing (the compression was interrupted) *)
Definition arch_of (pl : cdir) (p : nat * bytes) : Prop := exists d, In (fst p, d) pl /\ (snd p = d \/ snd p = []).

Lemma g_compress_incl i (d : bytes) (pl0 pl ar : cdir) fl : In (i, d) pl0 ->
  (forall p, In p (fst (fst (fst (g_compress i d pl ar fl)))) -> In p pl)
  /\ (forall p, In p (snd (fst (fst (g_compress i d pl ar fl)))) -> In p ar \/ arch_of pl0 p).
Proof.
  intros Hi. unfold g_compress.
  assert (A : forall g p, (g = d \/ g = []) -> In p (insi (i, g) ar) -> In p ar \/ arch_of pl0 p).
  { intros g p Hg Hp. apply insi_in in Hp. destruct Hp as [->|Hp]; [|left; exact Hp]. right. exists d. cbn [fst snd]. split; [exact Hi | exact Hg]. }
  destruct (pop fl) as [t1 fl1]. destruct t1; cbn [fst snd]; [split; auto|].
  destruct (pop fl1) as [t2 fl2]. destruct t2; cbn [fst snd]; [split; [auto | intros p; apply A; right; reflexivity]|].
  destruct (pop fl2) as [t3 fl3]. destruct t3; cbn [fst snd]; [split; [auto | intros p; apply A; right; reflexivity]|].
  destruct (pop fl3) as [t4 fl4]. destruct t4; cbn [fst snd]; [split; [auto | intros p; apply A; left; reflexivity]|].
  destruct (pop fl4) as [t5 fl5]. destruct t5; cbn [fst snd]; [split; [auto | intros p; apply A; left; reflexivity]|].
  split; [intros p Hp; apply deli_in in Hp; exact (proj1 Hp) | intros p; apply A; left; reflexivity].
Qed.

Lemma g_loop_incl ll total (pl0 : cdir) : forall files k (pl ar : cdir) fl,
  (forall i d, In (false, (i, d)) files -> In (i, d) pl0) ->
  (forall p, In p (fst (fst (fst (g_loop files k ll total pl ar fl)))) -> In p pl)
  /\ (forall p, In p (snd (fst (fst (g_loop files k ll total pl ar fl)))) -> In p ar \/ arch_of pl0 p).
Proof.
  induction files as [|[g [i d]] r IH]; intros k pl ar fl Hf; cbn [g_loop]; [cbn [fst snd]; split; auto|].
  assert (Hr : forall i' d', In (false, (i', d')) r -> In (i', d') pl0) by (intros i' d' H; apply Hf; right; exact H).
  destruct (Nat.leb total k).
  - destruct (pop fl) as [t fl1]. destruct t; cbn [fst snd]; [split; auto|].
    destruct (IH (S k) (if g then pl else deli i pl) (if g then deli i ar else ar) fl1 Hr) as [I1 I2]. split.
    + intros p Hp. apply I1 in Hp. destruct g; [exact Hp | apply deli_in in Hp; exact (proj1 Hp)].
    + intros p Hp. destruct (I2 p Hp) as [H|H]; [left | right; exact H]. destruct g; [apply deli_in in H; exact (proj1 H) | exact H].
  - destruct (Nat.leb ll k); [|exact (IH (S k) pl ar fl Hr)].
    destruct g; [exact (IH (S k) pl ar fl Hr)|].
    destruct (g_compress_incl i d pl0 pl ar fl (Hf i d (or_introl eq_refl))) as [C1 C2].
    destruct (g_compress i d pl ar fl) as [[[pl1 ar1] ok] fl1]. cbn [fst snd] in C1, C2. destruct ok; [|cbn [fst snd]; split; assumption].
    destruct (IH (S k) pl1 ar1 fl1 Hr) as [I1 I2]. split.
    + intros p Hp. apply C1, I1, Hp.
    + intros p Hp. destruct (I2 p Hp) as [H|H]; [exact (C2 p H) | right; exact H].
Qed.

(* what a cleanup leaves: plain files that were there; archives that were there, or that were made of plain files that
   were there *)
Theorem g_cleanup_incl ll total (pl ar : cdir) fl :
  (forall p, In p (fst (fst (fst (g_cleanup ll total pl ar fl)))) -> In p pl)
  /\ (forall p, In p (snd (fst (fst (g_cleanup ll total pl ar fl)))) -> In p ar \/ arch_of pl p).
Proof.
  unfold g_cleanup. destruct (pop fl) as [t0 fl0]. destruct t0; cbn [fst snd]; [split; auto|].
  pose proof (g_red_incl (g_redundant pl ar) ar fl0) as R. destruct (g_red (g_redundant pl ar) ar fl0) as [[ar1 ok0] fl1]. cbn [fst] in R.
  destruct ok0; cbn [negb fst snd]; [|split; [auto | intros p Hp; left; exact (R p Hp)]].
  destruct (g_loop_incl ll total pl (g_listing pl ar1) 0 pl ar1 fl1) as [I1 I2].
  { intros i d Hi. unfold g_listing in Hi. apply in_app_or in Hi. destruct Hi as [Hi|Hi]; apply in_map_iff in Hi; destruct Hi as [x [E Hx]]; [|discriminate].
    injection E as ->. apply in_rev in Hx. exact Hx. }
  split; [exact I1|]. intros p Hp. destruct (I2 p Hp) as [H|H]; [left; exact (R p H) | right; exact H].
Qed.

(* ------------------------------------------------------------------ the oracle entries a phase consumes *)
(* from fl to fl' a prefix was consumed that holds k failing entries *)
Definition acct (fl fl' : list bool) (k : nat) : Prop := exists used, fl = used ++ fl' /\ ntrue used = k.
Lemma acct_refl fl : acct fl fl 0.
Proof. exists []. split; reflexivity. Qed.
Lemma acct_trans fl fl1 fl2 a b : acct fl fl1 a -> acct fl1 fl2 b -> acct fl fl2 (a + b).
Proof. intros [u1 [E1 N1]] [u2 [E2 N2]]. exists (u1 ++ u2). split; [rewrite E1, E2, app_assoc; reflexivity | rewrite ntrue_app; lia]. Qed.
Lemma acct_pop fl : acct fl (snd (pop fl)) (if fst (pop fl) then 1 else 0).
Proof. destruct fl as [|[|] r]; cbn [pop hd tl fst snd]; [apply acct_refl | exists [true]; split; reflexivity | exists [false]; split; reflexivity]. Qed.
Lemma acct_write d b fl : acct fl (snd (s_write d b fl)) (length (snd (fst (s_write d b fl)))).
Proof.
  pose proof (s_write_ok d b fl) as S. destruct (s_write d b fl) as [[d' e] fl']. cbn [fst snd].
  destruct S as [used [Hu [He _]]]. exists used. split; [exact Hu | symmetry; exact He].
Qed.
Definition okn (ok : bool) : nat := if ok then 0 else 1.

Lemma g_red_acct : forall red (ar : cdir) fl, acct fl (snd (g_red red ar fl)) (okn (snd (fst (g_red red ar fl)))).
Proof.
  induction red as [|a r IH]; intros ar fl; cbn [g_red]; [cbn [fst snd]; apply acct_refl|].
  pose proof (acct_pop fl) as P. destruct (pop fl) as [t fl1]. cbn [fst snd] in P. destruct t; cbn [fst snd]; [exact P|].
  exact (acct_trans _ _ _ _ _ P (IH (deli (fst a) ar) fl1)).
Qed.

Lemma g_compress_acct i (d : bytes) (pl ar : cdir) fl :
  acct fl (snd (g_compress i d pl ar fl)) (okn (snd (fst (g_compress i d pl ar fl)))).
Proof.
  unfold g_compress.
  pose proof (acct_pop fl) as P1. destruct (pop fl) as [t1 fl1]. cbn [fst snd] in P1. destruct t1; cbn [fst snd]; [exact P1|].
  pose proof (acct_trans _ _ _ _ _ P1 (acct_pop fl1)) as P2. destruct (pop fl1) as [t2 fl2]. cbn [fst snd] in P2. destruct t2; cbn [fst snd]; [exact P2|].
  pose proof (acct_trans _ _ _ _ _ P2 (acct_pop fl2)) as P3. destruct (pop fl2) as [t3 fl3]. cbn [fst snd] in P3. destruct t3; cbn [fst snd]; [exact P3|].
  pose proof (acct_trans _ _ _ _ _ P3 (acct_pop fl3)) as P4. destruct (pop fl3) as [t4 fl4]. cbn [fst snd] in P4. destruct t4; cbn [fst snd]; [exact P4|].
  pose proof (acct_trans _ _ _ _ _ P4 (acct_pop fl4)) as P5. destruct (pop fl4) as [t5 fl5]. cbn [fst snd] in P5. destruct t5; cbn [fst snd]; exact P5.
Qed.

Lemma g_loop_acct ll total : forall files k (pl ar : cdir) fl,
  acct fl (snd (g_loop files k ll total pl ar fl)) (okn (snd (fst (g_loop files k ll total pl ar fl)))).
Proof.
  induction files as [|[g [i d]] r IH]; intros k pl ar fl; cbn [g_loop]; [cbn [fst snd]; apply acct_refl|].
  destruct (Nat.leb total k).
  - pose proof (acct_pop fl) as P. destruct (pop fl) as [t fl1]. cbn [fst snd] in P. destruct t; cbn [fst snd]; [exact P|].
    exact (acct_trans _ _ _ _ _ P (IH (S k) _ _ fl1)).
  - destruct (Nat.leb ll k); [|apply IH]. destruct g; [apply IH|].
    pose proof (g_compress_acct i d pl ar fl) as P. destruct (g_compress i d pl ar fl) as [[[pl1 ar1] ok] fl1]. cbn [fst snd] in P.
    destruct ok; cbn [fst snd]; [|exact P]. exact (acct_trans _ _ _ _ _ P (IH (S k) pl1 ar1 fl1)).
Qed.

(* a cleanup consumes exactly one failing entry iff it fails *)
Theorem g_cleanup_acct ll total (pl ar : cdir) fl :
  acct fl (snd (g_cleanup ll total pl ar fl)) (okn (snd (fst (g_cleanup ll total pl ar fl)))).
Proof.
  unfold g_cleanup. pose proof (acct_pop fl) as P0. destruct (pop fl) as [t0 fl0]. cbn [fst snd] in P0. destruct t0; cbn [fst snd]; [exact P0|].
  pose proof (g_red_acct (g_redundant pl ar) ar fl0) as P1. destruct (g_red (g_redundant pl ar) ar fl0) as [[ar1 ok0] fl1]. cbn [fst snd] in P1.
  destruct ok0; cbn [negb fst snd]; [|exact (acct_trans _ _ _ _ _ P0 P1)].
  exact (acct_trans _ _ _ _ _ (acct_trans _ _ _ _ _ P0 P1) (g_loop_acct ll total _ 0 pl ar1 fl1)).
Qed.

(* ------------------------------------------------------------------ one record *)
Definition g_wcur (st : gst) : bytes := match st with GInit _ _ _ => [] | GCur _ _ _ d => d | GOld _ _ _ d => d end.
Definition g_pl (st : gst) : cdir := match st with GInit pl _ _ => pl | GCur pl _ _ _ => pl | GOld pl _ _ _ => pl end.
(* the file that the step closes for good (a completed rotation) *)
Definition gcloses (st st' : gst) : cdir :=
  match st, st' with
  | GCur _ _ idx d, GCur _ _ idx' _ => if Nat.eqb idx idx' then [] else [(idx, d)]
  | GOld _ _ idx d, GCur _ _ idx' _ => if Nat.eqb idx idx' then [] else [(idx, d)]
  | _, _ => []
  end.

(* what one step does: the oracle entries it uses, one report per failing entry, at most one record lost - and then
   reported with EWrite -; the LOG (the files closed so far, then the writer's file) grows by exactly the record unless
   it is lost; every plain closed file and every archive in the directory is a file that was closed, with its content,
   or is empty (left by a failed initialisation / an interrupted compression): the cleanup only deletes and compresses *)
Definition gstep_ok (st : gst) (fl : list bool) (b : bytes) (r : gst * list ecode * list bool) : Prop :=
  let '(st', e, fl') := r in
  acct fl fl' (length e) /\ nlost e <= 1
  /\ concat (List.map snd (gcloses st st')) ++ g_wcur st' = g_wcur st ++ (if lost e then [] else b)
  /\ (forall p, In p (g_pl st') -> In p (g_pl st) \/ In p (gcloses st st') \/ snd p = [])
  /\ (forall p, In p (g_arch st') -> In p (g_arch st) \/ In p (g_pl st) \/ In p (gcloses st st') \/ snd p = []).

Lemma lost_app_nolost e1 e2 : lost e1 = false -> lost (e1 ++ e2) = lost e2.
Proof. unfold lost. intros H. rewrite existsb_app, H. reflexivity. Qed.

Lemma s_write_facts d b fl :
  let '(d', e, fl') := s_write d b fl in (e = [] \/ e = [EWrite]) /\ d' = d ++ (if lost e then [] else b).
Proof.
  pose proof (s_write_ok d b fl) as S. destruct (s_write d b fl) as [[d' e] fl']. destruct S as [used [_ [_ [Hc Hd]]]]. split; assumption.
Qed.

Lemma g_active_ok m ll total (old : bool) (pl ar : cdir) idx (d b : bytes) fl :
  gstep_ok (if old then GOld pl ar idx d else GCur pl ar idx d) fl b (g_active m ll total old pl ar idx d b fl).
Proof.
  set (st := if old then GOld pl ar idx d else GCur pl ar idx d).
  assert (Wst : g_wcur st = d) by (unfold st; destruct old; reflexivity).
  assert (Cst : g_pl st = pl) by (unfold st; destruct old; reflexivity).
  assert (Ast : g_arch st = ar) by (unfold st; destruct old; reflexivity).
  (* the record is written into the old file: the state keeps its shape *)
  assert (W : forall fl0 errs0 (old' : bool), acct fl fl0 (length errs0) -> lost errs0 = false -> nlost errs0 = 0 ->
     (old = true -> old' = true) ->
     let '(d', e, fl1) := s_write d b fl0 in
     gstep_ok st fl b ((if old' then GOld pl ar idx d' else GCur pl ar idx d'), errs0 ++ e, fl1)).
  { intros fl0 errs0 old' Hac Hl Hnl Ho. pose proof (s_write_facts d b fl0) as S. pose proof (acct_write d b fl0) as Aw.
    destruct (s_write d b fl0) as [[d' e] fl1]. cbn [fst snd] in Aw. destruct S as [Hc Hd].
    split; [rewrite app_length; exact (acct_trans _ _ _ _ _ Hac Aw)|].
    split; [rewrite nlost_app; destruct Hc as [->| ->]; cbn; lia|].
    rewrite (lost_app_nolost _ _ Hl), Wst, Cst, Ast.
    assert (Ecl : gcloses st (if old' then GOld pl ar idx d' else GCur pl ar idx d') = []).
    { unfold st. destruct old, old'; cbn [gcloses]; rewrite ?Nat.eqb_refl; reflexivity. }
    rewrite Ecl. cbn [List.map concat app]. split; [destruct old'; cbn [g_wcur]; exact Hd|].
    split; intros p Hp; left; destruct old'; exact Hp. }
  unfold g_active. fold st.
  destruct (m <? N.of_nat (length d))%N.
  - pose proof (acct_pop fl) as P1. destruct (pop fl) as [f1 fl1]. cbn [fst snd] in P1. destruct f1.
    + pose proof (W fl1 [ELogFile] old P1 eq_refl eq_refl (fun H => H)) as S. destruct (s_write d b fl1) as [[d' e] fl2]. exact S.
    + pose proof (acct_trans _ _ _ _ _ P1 (acct_pop fl1)) as P2. destruct (pop fl1) as [f2 fl2]. cbn [fst snd] in P2. destruct f2.
      * pose proof (W fl2 [ELogFile] true P2 eq_refl eq_refl (fun _ => eq_refl)) as S. destruct (s_write d b fl2) as [[d' e] fl3]. exact S.
      * (* the rotation is completed; the cleanup; the write into the new file *)
        pose proof (g_cleanup_acct ll total (pl ++ [(idx, d)]) ar fl2) as Ac. destruct (g_cleanup_incl ll total (pl ++ [(idx, d)]) ar fl2) as [CI1 CI2].
        destruct (g_cleanup ll total (pl ++ [(idx, d)]) ar fl2) as [[[pl2 ar2] ok] fl3]. cbn [fst snd] in Ac, CI1, CI2.
        pose proof (s_write_facts [] b fl3) as S. pose proof (acct_write [] b fl3) as Aw.
        destruct (s_write [] b fl3) as [[d' e] fl4]. cbn [fst snd] in Aw. destruct S as [Hc Hd].
        assert (Eok : length (if ok then [] else [ELogFile]) = okn ok /\ lost (if ok then [] else [ELogFile]) = false
                      /\ nlost (if ok then @nil ecode else [ELogFile]) = 0) by (destruct ok; repeat split).
        destruct Eok as [E1 [E2 E3]].
        split. { rewrite app_length, E1. pose proof (acct_trans _ _ _ _ _ (acct_trans _ _ _ _ _ P2 Ac) Aw) as X. cbn [Nat.add] in X. exact X. }
        split; [rewrite nlost_app, E3; destruct Hc as [->| ->]; cbn; lia|].
        rewrite (lost_app_nolost _ _ E2).
        assert (Ecl : gcloses st (GCur pl2 ar2 (S idx) d') = [(idx, d)]).
        { unfold st. destruct old; cbn [gcloses]; rewrite (proj2 (Nat.eqb_neq idx (S idx))) by lia; reflexivity. }
        rewrite Ecl, Wst, Cst, Ast. cbn [List.map concat snd g_wcur g_pl g_arch]. rewrite app_nil_r, Hd.
        split; [reflexivity|]. split.
        -- intros p Hp. specialize (CI1 p Hp). apply in_app_or in CI1. destruct CI1 as [H|[<-|[]]]; [left; exact H | right; left; left; reflexivity].
        -- intros p Hp. destruct (CI2 p Hp) as [H|[d0 [Hd0 [E|E]]]]; [left; exact H | | right; right; right; exact E].
           assert (Ep : p = (fst p, d0)) by (rewrite <- E; destruct p; reflexivity). rewrite <- Ep in Hd0.
           apply in_app_or in Hd0. destruct Hd0 as [H|[<-|[]]]; [right; left; exact H | right; right; left; left; reflexivity].
  - pose proof (W fl [] old (acct_refl fl) eq_refl eq_refl (fun H => H)) as S. destruct (s_write d b fl) as [[d' e] fl1]. exact S.
Qed.

Lemma g_init_ok ap m ll total (pl ar : cdir) created (b : bytes) fl :
  gstep_ok (GInit pl ar created) fl b (g_init ap m ll total pl ar created b fl).
Proof.
  (* a failing step of the initialisation *)
  assert (Fail : forall fl' (pl' ar' : cdir) cr, acct fl fl' 1 ->
            (forall p, In p pl' -> In p pl \/ snd p = []) -> (forall p, In p ar' -> In p ar \/ In p pl \/ snd p = []) ->
            gstep_ok (GInit pl ar created) fl b (GInit pl' ar' cr, [EWrite], fl')).
  { intros fl' pl' ar' cr Hac Hp Ha. split; [exact Hac|]. split; [cbn; lia|]. split; [reflexivity|]. cbn [g_pl g_arch gcloses]. split.
    - intros p H. destruct (Hp p H) as [X|X]; [left; exact X | right; right; exact X].
    - intros p H. destruct (Ha p H) as [X|[X|X]]; [left; exact X | right; left; exact X | right; right; right; exact X]. }
  assert (Go : forall fl' (pl' ar' : cdir) idx', acct fl fl' 0 ->
            (forall p, In p pl' -> In p pl \/ snd p = []) -> (forall p, In p ar' -> In p ar \/ In p pl \/ snd p = []) ->
            gstep_ok (GInit pl ar created) fl b (g_active m ll total false pl' ar' idx' [] b fl')).
  { intros fl' pl' ar' idx' Hac Hp Ha. pose proof (g_active_ok m ll total false pl' ar' idx' [] b fl') as K. cbv iota in K.
    destruct (g_active m ll total false pl' ar' idx' [] b fl') as [[st' e] fl2]. destruct K as [Hk [Hl [Hst [Hpl Har]]]].
    split; [exact (acct_trans _ _ _ _ _ Hac Hk)|]. split; [exact Hl|].
    assert (Ecl : forall p, In p (gcloses (GCur pl' ar' idx' []) st') -> snd p = []).
    { intros p H. destruct st' as [| pl3 ar3 idx3 d3|]; cbn [gcloses] in H; try contradiction.
      destruct (Nat.eqb idx' idx3); [contradiction|]. destruct H as [<-|[]]. reflexivity. }
    assert (Ecc : concat (List.map snd (gcloses (GCur pl' ar' idx' []) st')) = []).
    { destruct st' as [| pl3 ar3 idx3 d3|]; cbn [gcloses]; try reflexivity. destruct (Nat.eqb idx' idx3); reflexivity. }
    rewrite Ecc in Hst. cbn [g_wcur Datatypes.app] in *. split; [cbn [gcloses List.map concat Datatypes.app]; exact Hst|].
    cbn [g_pl g_arch gcloses] in *. split.
    - intros p H. destruct (Hpl p H) as [X|[X|X]]; [destruct (Hp p X) as [Y|Y]; [left; exact Y | right; right; exact Y] | right; right; exact (Ecl p X) | right; right; exact X].
    - intros p H. destruct (Har p H) as [X|[X|[X|X]]].
      + destruct (Ha p X) as [Y|[Y|Y]]; [left; exact Y | right; left; exact Y | right; right; right; exact Y].
      + destruct (Hp p X) as [Y|Y]; [right; left; exact Y | right; right; right; exact Y].
      + right; right; right; exact (Ecl p X).
      + right; right; right; exact X. }
  set (idx := g_next pl ar).
  set (pl1 := if ap then pl else if created then pl ++ [(idx, [])] else pl).
  assert (Hpl1 : forall p, In p pl1 -> In p pl \/ snd p = []).
  { unfold pl1. intros p Hp. destruct ap; [left; exact Hp|]. destruct created; [|left; exact Hp].
    apply in_app_or in Hp. destruct Hp as [H|[<-|[]]]; [left; exact H | right; reflexivity]. }
  assert (Hid : forall p, In p pl -> In p pl \/ snd p = []) by (intros p Hp; left; exact Hp).
  assert (Har0 : forall p, In p ar -> In p ar \/ In p pl \/ snd p = []) by (intros p Hp; left; exact Hp).
  unfold g_init. fold idx. fold pl1.
  pose proof (acct_pop fl) as P1. destruct (pop fl) as [f1 fl1]. cbn [fst snd] in P1. destruct f1; [apply Fail; assumption|].
  assert (P2 : acct fl (snd (if ap then (false, fl1) else pop fl1)) (if fst (if ap then (false, fl1) else pop fl1) then 1 else 0)).
  { destruct ap; [exact P1 | exact (acct_trans _ _ _ _ _ P1 (acct_pop fl1))]. }
  destruct (if ap then (false, fl1) else pop fl1) as [f2 fl2]. cbn [fst snd] in P2. destruct f2; [apply Fail; assumption|].
  pose proof (acct_trans _ _ _ _ _ P2 (acct_pop fl2)) as P3. destruct (pop fl2) as [f3 fl3]. cbn [fst snd] in P3.
  destruct f3; [apply Fail; assumption|].
  assert (P4 : acct fl (snd (if ap then pop fl3 else (false, fl3))) (if fst (if ap then pop fl3 else (false, fl3)) then 1 else 0)).
  { destruct ap; [exact (acct_trans _ _ _ _ _ P3 (acct_pop fl3)) | exact P3]. }
  destruct (if ap then pop fl3 else (false, fl3)) as [f4 fl4]. cbn [fst snd] in P4. destruct f4; [apply Fail; assumption|].
  pose proof (g_cleanup_acct ll total pl1 ar fl4) as Ac. destruct (g_cleanup_incl ll total pl1 ar fl4) as [CI1 CI2].
  destruct (g_cleanup ll total pl1 ar fl4) as [[[pl2 ar2] ok] fl5]. cbn [fst snd] in Ac, CI1, CI2.
  assert (Hp2 : forall p, In p pl2 -> In p pl \/ snd p = []) by (intros p Hp; apply Hpl1, CI1, Hp).
  assert (Ha2 : forall p, In p ar2 -> In p ar \/ In p pl \/ snd p = []).
  { intros p Hp. destruct (CI2 p Hp) as [H|[d0 [Hd0 [E|E]]]]; [left; exact H | | right; right; exact E].
    assert (Ep : p = (fst p, d0)) by (rewrite <- E; destruct p; reflexivity). rewrite <- Ep in Hd0.
    destruct (Hpl1 p Hd0) as [X|X]; [right; left; exact X | right; right; exact X]. }
  pose proof (acct_trans _ _ _ _ _ P4 Ac) as P5. cbn [Nat.add] in P5.
  destruct ok; [apply Go; assumption | apply Fail; assumption].
Qed.

Theorem gstep_is_ok ap m ll total st fl b : gstep_ok st fl b (gstep ap m ll total st fl b).
Proof.
  destruct st as [pl ar created|pl ar idx d|pl ar idx d]; cbn [gstep].
  - apply g_init_ok.
  - apply (g_active_ok m ll total false pl ar idx d b fl).
  - apply (g_active_ok m ll total true pl ar idx d b fl).
Qed.

(* ------------------------------------------------------------------ whole lists of records *)
Fixpoint glog (ap : bool) (m : N) (ll total : nat) (st : gst) (fl : list bool) (recs : list bytes) : cdir :=
  match recs with
  | [] => []
  | b :: rest => let '(st1, _, fl1) := gstep ap m ll total st fl b in gcloses st st1 ++ glog ap m ll total st1 fl1 rest
  end.
Fixpoint gtrace (ap : bool) (m : N) (ll total : nat) (st : gst) (fl : list bool) (recs : list bytes) : list entry :=
  match recs with
  | [] => []
  | b :: rest =>
    let '(st1, e1, fl1) := gstep ap m ll total st fl b in
    {| t_rec := b; t_errs := e1; t_used := firstn (length fl - length fl1) fl |} :: gtrace ap m ll total st1 fl1 rest
  end.

Lemma simg_st_app ap m ll total : forall recs1 recs2 st fl,
  simg_st ap m ll total st fl (recs1 ++ recs2)
  = let '(st1, e1, fl1) := simg_st ap m ll total st fl recs1 in
    let '(st2, e2, fl2) := simg_st ap m ll total st1 fl1 recs2 in (st2, e1 ++ e2, fl2).
Proof.
  induction recs1 as [|b rest IH]; intros recs2 st fl; cbn [Datatypes.app simg_st].
  - destruct (simg_st ap m ll total st fl recs2) as [[st2 e2] fl2]. reflexivity.
  - destruct (gstep ap m ll total st fl b) as [[st1 e1] fl1]. rewrite IH.
    destruct (simg_st ap m ll total st1 fl1 rest) as [[st2 e2] fl2].
    destruct (simg_st ap m ll total st2 fl2 recs2) as [[st3 e3] fl3]. rewrite app_assoc. reflexivity.
Qed.

Theorem simg_trace ap m ll total : forall recs st fl,
  let '(st', e, fl') := simg_st ap m ll total st fl recs in
  let t := gtrace ap m ll total st fl recs in
  let lg := glog ap m ll total st fl recs in
  List.map t_rec t = recs
  /\ fl = concat (List.map t_used t) ++ fl'
  /\ e = concat (List.map t_errs t)
  /\ concat (List.map snd lg) ++ g_wcur st' = g_wcur st ++ concat (List.map t_kept t)
  /\ Forall (fun x => length (t_errs x) = ntrue (t_used x) /\ nlost (t_errs x) <= 1) t
  /\ (forall p, In p (g_pl st') -> In p (g_pl st) \/ In p lg \/ snd p = [])
  /\ (forall p, In p (g_arch st') -> In p (g_arch st) \/ In p (g_pl st) \/ In p lg \/ snd p = []).
Proof.
  induction recs as [|b rest IH]; intros st fl; cbn [simg_st gtrace glog].
  - cbn. rewrite app_nil_r. repeat split; [constructor | intros p Hp; left; exact Hp | intros p Hp; left; exact Hp].
  - pose proof (gstep_is_ok ap m ll total st fl b) as S. destruct (gstep ap m ll total st fl b) as [[st1 e1] fl1].
    specialize (IH st1 fl1). destruct (simg_st ap m ll total st1 fl1 rest) as [[st2 e2] fl2].
    destruct S as [[used [Hu He]] [Hl [Hs [Hc Ha]]]]. destruct IH as [H1 [H2 [H3 [H4 [H5 [H6 H7]]]]]].
    cbn [List.map concat t_rec t_used t_errs]. subst fl. rewrite firstn_used.
    split; [rewrite H1; reflexivity|].
    split; [rewrite <- app_assoc, <- H2; reflexivity|].
    split; [rewrite H3; reflexivity|].
    split.
    { rewrite map_app, concat_app, <- app_assoc, H4, app_assoc, Hs, <- app_assoc. reflexivity. }
    split; [constructor; [cbn [t_errs t_used]; split; [symmetry; exact He | exact Hl] | exact H5]|].
    assert (P1 : forall p, In p (g_pl st1) -> In p (g_pl st) \/ In p (gcloses st st1 ++ glog ap m ll total st1 fl1 rest) \/ snd p = []).
    { intros p Hp. destruct (Hc p Hp) as [G|[G|G]]; [left; exact G | right; left; apply in_or_app; left; exact G | right; right; exact G]. }
    split.
    + intros p Hp. destruct (H6 p Hp) as [H|[H|H]]; [exact (P1 p H) | right; left; apply in_or_app; right; exact H | right; right; exact H].
    + intros p Hp. destruct (H7 p Hp) as [H|[H|[H|H]]].
      * destruct (Ha p H) as [G|[G|[G|G]]]; [left; exact G | right; left; exact G | right; right; left; apply in_or_app; left; exact G | right; right; right; exact G].
      * destruct (P1 p H) as [G|[G|G]]; [right; left; exact G | right; right; left; exact G | right; right; right; exact G].
      * right; right; left. apply in_or_app. right. exact H.
      * right; right; right. exact H.
Qed.

(* (2) Only records during whose own log call a failing call was consumed can be missing; the log consists of the
   other records, in order, each once; the plain files and the archives in the directory are closed files of the log,
   with their contents, or empty *)
Theorem lost_only_around_failures_g ap m ll total fl recs :
  let '(st', e, fl') := simg_st ap m ll total (GInit [] [] false) fl recs in
  let t := gtrace ap m ll total (GInit [] [] false) fl recs in
  let lg := glog ap m ll total (GInit [] [] false) fl recs in
  List.map t_rec t = recs
  /\ fl = concat (List.map t_used t) ++ fl'
  /\ e = concat (List.map t_errs t)
  /\ concat (List.map snd lg) ++ g_wcur st' = concat (List.map t_kept t)
  /\ (forall p, In p (g_pl st') \/ In p (g_arch st') -> In p lg \/ snd p = [])
  /\ (forall x, In x t -> length (t_errs x) = ntrue (t_used x))
  /\ (forall x, In x t -> (forall f, In f (t_used x) -> f = false) -> t_errs x = [] /\ t_kept x = t_rec x)
  /\ (forall x, In x t -> t_kept x <> t_rec x -> In true (t_used x) /\ In EWrite (t_errs x)).
Proof.
  pose proof (simg_trace ap m ll total recs (GInit [] [] false) fl) as T.
  destruct (simg_st ap m ll total (GInit [] [] false) fl recs) as [[st' e] fl']. cbv zeta in T |- *.
  destruct T as [H1 [H2 [H3 [H4 [H5 [H6 H7]]]]]]. rewrite Forall_forall in H5.
  split; [exact H1|]. split; [exact H2|]. split; [exact H3|]. split; [exact H4|].
  split. { intros p [Hp|Hp]; [destruct (H6 p Hp) as [[]|H]; exact H | destruct (H7 p Hp) as [[]|[[]|H]]; exact H]. }
  split; [intros x Hx; apply (H5 x Hx)|].
  split.
  - intros x Hx Hall. destruct (H5 x Hx) as [Hn _]. apply ntrue_0_all_false in Hall. rewrite Hall in Hn.
    destruct (t_errs x) eqn:E; [|discriminate]. unfold t_kept. rewrite E. split; reflexivity.
  - intros x Hx Hk. destruct (H5 x Hx) as [Hn _]. unfold t_kept in Hk.
    destruct (lost (t_errs x)) eqn:El; [|congruence]. split.
    + destruct (in_dec Bool.bool_dec true (t_used x)) as [Hi|Hi]; [exact Hi|]. exfalso.
      assert (Hall : forall f, In f (t_used x) -> f = false) by (intros [|] Hf; [contradiction | reflexivity]).
      apply ntrue_0_all_false in Hall. rewrite Hall in Hn. destruct (t_errs x); [discriminate El | discriminate Hn].
    + unfold lost in El. apply existsb_exists in El. destruct El as [c0 [Hc Ec]]. destruct c0; try discriminate. exact Hc.
Qed.

(* (3) each missing record is one reported EWrite *)
Theorem loss_is_reported_g ap m ll total : forall recs st fl,
  let '(st', e, _) := simg_st ap m ll total st fl recs in
  exists kept, Subseq kept recs
    /\ concat (List.map snd (glog ap m ll total st fl recs)) ++ g_wcur st' = g_wcur st ++ concat kept
    /\ length recs = length kept + nlost e /\ nlost e <= length e.
Proof.
  induction recs as [|b rest IH]; intros st fl; cbn [simg_st glog].
  - exists []. cbn. rewrite app_nil_r. repeat split; [constructor | lia].
  - pose proof (gstep_is_ok ap m ll total st fl b) as S. destruct (gstep ap m ll total st fl b) as [[st1 e1] fl1].
    specialize (IH st1 fl1). destruct (simg_st ap m ll total st1 fl1 rest) as [[st2 e2] fl2].
    destruct S as [_ [Hl [Hs _]]]. destruct IH as [kept [Hsub [Hst [Hlen Hle]]]].
    pose proof (nlost_le (e1 ++ e2)) as Hle2. rewrite nlost_app in Hle2.
    rewrite map_app, concat_app, <- app_assoc, Hst, app_assoc, Hs.
    destruct (lost e1) eqn:El.
    + exists kept. split; [constructor; exact Hsub|]. rewrite app_nil_r. split; [reflexivity|].
      apply lost_nlost in El. rewrite nlost_app. cbn [length]. split; lia.
    + exists (b :: kept). split; [constructor; exact Hsub|]. cbn [concat]. rewrite <- app_assoc. split; [reflexivity|].
      assert (nlost e1 = 0). { destruct (nlost e1) eqn:E; [reflexivity|]. assert (lost e1 = true) by (apply lost_nlost; lia). congruence. }
      rewrite nlost_app. cbn [length]. split; lia.
Qed.

(* ------------------------------------------------------------------ failures inside the cleanup *)
(* AT A ROTATION whose rename and create succeed, whatever happens inside the cleanup (listing, removal of redundant
   archives, compressions, removals): the state is switched to the new rCURRENT, the record is lost only if its OWN
   write call fails, a failed cleanup is reported with one ELogFile; and the cleanup has only deleted and compressed *)
Theorem cleanup_fault_loses_no_record_g m ll total (old : bool) (pl ar : cdir) idx (d b : bytes) fl2 pl2 ar2 ok fl3 :
  (m <? N.of_nat (length d))%N = true ->
  g_cleanup ll total (pl ++ [(idx, d)]) ar fl2 = (pl2, ar2, ok, fl3) ->
  let f := fst (wr_pop b fl3) in
  g_active m ll total old pl ar idx d b (false :: false :: fl2)
  = (GCur pl2 ar2 (S idx) (if f then [] else b), (if ok then [] else [ELogFile]) ++ (if f then [EWrite] else []), snd (wr_pop b fl3))
  /\ lost ((if ok then [] else [ELogFile]) ++ (if f then [EWrite] else [])) = f
  /\ (forall p, In p pl2 -> In p (pl ++ [(idx, d)]))
  /\ (forall p, In p ar2 -> In p ar \/ arch_of (pl ++ [(idx, d)]) p).
Proof.
  intros Hm Ec. cbv zeta. unfold g_active. rewrite Hm. cbn [pop hd tl]. rewrite Ec.
  destruct (g_cleanup_incl ll total (pl ++ [(idx, d)]) ar fl2) as [CI1 CI2]. rewrite Ec in CI1, CI2. cbn [fst snd] in CI1, CI2.
  unfold s_write. destruct (wr_pop b fl3) as [f fl4]. cbn [fst snd].
  split; [destruct f; reflexivity|]. split; [destruct ok, f; reflexivity|]. split; assumption.
Qed.

(* AT THE INITIALISATION a failure inside the cleanup loses the record (reported with EWrite) *)
Theorem init_cleanup_fault_loses_record_g (ap : bool) m ll total (pl ar : cdir) (created : bool) (b : bytes) fl4 pl2 ar2 fl5 :
  let idx := g_next pl ar in
  let pl1 := if ap then pl else if created then pl ++ [(idx, [])] else pl in
  g_cleanup ll total pl1 ar fl4 = (pl2, ar2, false, fl5) ->
  g_init ap m ll total pl ar created b (false :: false :: false :: fl4) = (GInit pl2 ar2 true, [EWrite], fl5).
Proof. cbv zeta. intros Ec. unfold g_init. destruct ap; cbn [pop hd tl]; rewrite Ec; reflexivity. Qed.

(* ------------------------------------------------------------------ (4) recovery: the limits are restored *)
Definition memn (i : nat) (l : list nat) : bool := existsb (Nat.eqb i) l.
Definition notin (D : list nat) (p : nat * bytes) : bool := negb (memn (fst p) D).

Lemma filter_all_true' {A} (p : A -> bool) l : (forall x, In x l -> p x = true) -> filter p l = l.
Proof. induction l as [|y l IH]; intros H; cbn [filter]; [reflexivity|]. rewrite (H y) by (left; reflexivity). f_equal. apply IH. intros x Hx. apply H. right; exact Hx. Qed.

Lemma filter_notin_cons i D (l : cdir) : filter (notin (i :: D)) l = filter (notin D) (deli i l).
Proof.
  unfold deli. induction l as [|x l IH]; [reflexivity|]. cbn [filter]. unfold notin at 1 3. cbn [memn existsb].
  rewrite (Nat.eqb_sym (fst x) i). destruct (Nat.eqb i (fst x)); cbn [orb negb filter]; [exact IH|].
  unfold notin at 2. fold (memn (fst x) D). destruct (memn (fst x) D); cbn [negb]; [exact IH | f_equal; exact IH].
Qed.
Lemma filter_insi_le (f : nat * bytes -> bool) q (l : cdir) : length (filter f (insi q l)) <= S (length (filter f l)).
Proof.
  induction l as [|x l IH]; cbn [insi filter length]; [destruct (f q); cbn [length]; lia|].
  destruct (Nat.ltb (fst q) (fst x)); cbn [filter]; [destruct (f q), (f x); cbn [length]; lia|].
  destruct (f x); cbn [length]; lia.
Qed.

(* the indices of the plain entries at positions >= ll, of the archives at positions >= total, and the number of plain
   entries in the compression zone *)
Fixpoint Dp (ll : nat) (files : list lentry) (k : nat) : list nat :=
  match files with [] => [] | (g, (i, _)) :: r => (if negb g && Nat.leb ll k then [i] else []) ++ Dp ll r (S k) end.
Fixpoint Da (total : nat) (files : list lentry) (k : nat) : list nat :=
  match files with [] => [] | (g, (i, _)) :: r => (if g && Nat.leb total k then [i] else []) ++ Da total r (S k) end.
Fixpoint Cn (ll total : nat) (files : list lentry) (k : nat) : nat :=
  match files with [] => 0 | (g, _) :: r => (if negb g && Nat.leb ll k && negb (Nat.leb total k) then 1 else 0) + Cn ll total r (S k) end.

Lemma g_red_all_false : forall red (ar : cdir) fl, all_false fl ->
  exists ar1 fl', g_red red ar fl = (ar1, true, fl') /\ all_false fl'.
Proof.
  induction red as [|a r IH]; intros ar fl H; cbn [g_red]; [eauto|].
  destruct (pop_all_false fl H) as [E1 E2]. destruct (pop fl) as [f fl1]. cbn [fst snd] in *. subst f. apply IH. exact E2.
Qed.
Lemma g_compress_all_false i (d : bytes) (pl ar : cdir) fl : all_false fl ->
  exists fl', g_compress i d pl ar fl = (deli i pl, insi (i, d) ar, true, fl') /\ all_false fl'.
Proof.
  intros H. unfold g_compress.
  destruct (pop_all_false fl H) as [E1 H1]. destruct (pop fl) as [t1 fl1]. cbn [fst snd] in *. subst t1.
  destruct (pop_all_false fl1 H1) as [E2 H2]. destruct (pop fl1) as [t2 fl2]. cbn [fst snd] in *. subst t2.
  destruct (pop_all_false fl2 H2) as [E3 H3]. destruct (pop fl2) as [t3 fl3]. cbn [fst snd] in *. subst t3.
  destruct (pop_all_false fl3 H3) as [E4 H4]. destruct (pop fl3) as [t4 fl4]. cbn [fst snd] in *. subst t4.
  destruct (pop_all_false fl4 H4) as [E5 H5]. destruct (pop fl4) as [t5 fl5]. cbn [fst snd] in *. subst t5.
  exists fl5. split; [reflexivity | exact H5].
Qed.

Lemma g_loop_all_false ll total : ll <= total -> forall files k (pl ar : cdir) fl, all_false fl ->
  exists pl' ar' fl', g_loop files k ll total pl ar fl = (pl', ar', true, fl') /\ all_false fl'
    /\ pl' = filter (notin (Dp ll files k)) pl
    /\ length ar' <= length (filter (notin (Da total files k)) ar) + Cn ll total files k.
Proof.
  intros Hlt. induction files as [|[g [i d]] r IH]; intros k pl ar fl H; cbn [g_loop Dp Da Cn].
  - exists pl, ar, fl. split; [reflexivity|]. split; [exact H|]. split.
    + symmetry. apply filter_all_true'. intros x _. reflexivity.
    + rewrite Nat.add_0_r. rewrite (filter_all_true' (notin []) ar) by (intros x _; reflexivity). lia.
  - destruct (Nat.leb_spec total k) as [Ht|Ht].
    + assert (El : Nat.leb ll k = true) by (apply Nat.leb_le; lia). rewrite El.
      destruct (pop_all_false fl H) as [E1 H1]. destruct (pop fl) as [t fl1]. cbn [fst snd] in *. subst t.
      destruct (IH (S k) (if g then pl else deli i pl) (if g then deli i ar else ar) fl1 H1) as (pl' & ar' & fl' & E & H' & Ep & Ea).
      exists pl', ar', fl'. split; [exact E|]. split; [exact H'|]. destruct g; cbn [negb andb app Nat.add].
      * split; [exact Ep|]. rewrite filter_notin_cons. exact Ea.
      * split; [rewrite filter_notin_cons; exact Ep | exact Ea].
    + destruct (Nat.leb_spec ll k) as [Hl|Hl].
      * destruct g; cbn [negb andb app Nat.add].
        -- exact (IH (S k) pl ar fl H).
        -- destruct (g_compress_all_false i d pl ar fl H) as (fl1 & Ec & H1). rewrite Ec.
           destruct (IH (S k) (deli i pl) (insi (i, d) ar) fl1 H1) as (pl' & ar' & fl' & E & H' & Ep & Ea).
           exists pl', ar', fl'. split; [exact E|]. split; [exact H'|]. split; [rewrite filter_notin_cons; exact Ep|].
           pose proof (filter_insi_le (notin (Da total r (S k))) (i, d) ar). lia.
      * destruct g; cbn [negb andb app Nat.add]; exact (IH (S k) pl ar fl H).
Qed.

Lemma Dp_arch ll (A : cdir) : forall k, Dp ll (List.map (pair true) A) k = [].
Proof. induction A as [|[i d] A IH]; intros k; cbn [List.map Dp negb andb app]; [reflexivity | apply IH]. Qed.
Lemma Cn_arch ll total (A : cdir) : forall k, Cn ll total (List.map (pair true) A) k = 0.
Proof. induction A as [|[i d] A IH]; intros k; cbn [List.map Cn negb andb Nat.add]; [reflexivity | apply IH]. Qed.
Lemma Da_arch total (A : cdir) : forall k, Da total (List.map (pair true) A) k = List.map fst (skipn (total - k) A).
Proof.
  induction A as [|[i d] A IH]; intros k; cbn [List.map Da andb]; [rewrite skipn_nil; reflexivity|].
  destruct (Nat.leb_spec total k) as [H|H].
  - replace (total - k) with 0 by lia. rewrite IH. replace (total - S k) with 0 by lia. reflexivity.
  - replace (total - k) with (S (total - S k)) by lia. cbn [skipn app]. apply IH.
Qed.

Lemma Dp_listing ll (P A : cdir) : forall k,
  Dp ll (List.map (pair false) P ++ List.map (pair true) A) k = List.map fst (skipn (ll - k) P).
Proof.
  induction P as [|[i d] P IH]; intros k; cbn [List.map app Dp negb andb]; [rewrite skipn_nil; apply Dp_arch|].
  destruct (Nat.leb_spec ll k) as [H|H].
  - replace (ll - k) with 0 by lia. rewrite IH. replace (ll - S k) with 0 by lia. reflexivity.
  - replace (ll - k) with (S (ll - S k)) by lia. cbn [skipn app]. apply IH.
Qed.
Lemma Da_listing total (P A : cdir) : forall k,
  Da total (List.map (pair false) P ++ List.map (pair true) A) k = List.map fst (skipn (total - (k + length P)) A).
Proof.
  induction P as [|[i d] P IH]; intros k; cbn [List.map app Da andb length]; [rewrite Nat.add_0_r; apply Da_arch|].
  rewrite IH. f_equal. f_equal. lia.
Qed.
Lemma Cn_listing ll total (P A : cdir) : ll <= total -> forall k,
  Cn ll total (List.map (pair false) P ++ List.map (pair true) A) k
  = Nat.min (total - k) (length P) - Nat.min (ll - k) (length P).
Proof.
  intros Hlt. induction P as [|[i d] P IH]; intros k; cbn [List.map app Cn negb andb length]; [rewrite Cn_arch; lia|].
  rewrite IH. destruct (Nat.leb_spec ll k), (Nat.leb_spec total k); cbn [negb andb]; lia.
Qed.

Lemma filter_len_le {A} (p : A -> bool) l : length (filter p l) <= length l.
Proof. induction l as [|y l IH]; cbn [filter length]; [lia|]. destruct (p y); cbn [length]; lia. Qed.
Lemma filter_rev_length {A} (f : A -> bool) l : length (filter f (rev l)) = length (filter f l).
Proof.
  induction l as [|x l IH]; [reflexivity|]. cbn [rev filter]. rewrite filter_app, app_length, IH. cbn [filter].
  destruct (f x); cbn [length]; lia.
Qed.
Lemma filter_own_indices (l : cdir) : filter (notin (List.map fst l)) l = [].
Proof.
  assert (G : forall D, (forall x, In x l -> In (fst x) D) -> filter (notin D) l = []).
  { intros D H. induction l as [|x l IH]; [reflexivity|]. cbn [filter]. unfold notin at 1.
    assert (M : memn (fst x) D = true) by (apply existsb_exists; exists (fst x); split; [apply H; left; reflexivity | apply Nat.eqb_refl]).
    rewrite M. cbn [negb]. apply IH. intros y Hy. apply H. right. exact Hy. }
  apply G. intros x Hx. apply in_map. exact Hx.
Qed.
(* of the entries of l (listed newest first as rev l) only those at the first n positions can survive *)
Lemma filter_tail_bound (l : cdir) n : length (filter (notin (List.map fst (skipn n (rev l)))) l) <= Nat.min n (length l).
Proof.
  rewrite <- (rev_involutive l) at 2. rewrite filter_rev_length. rewrite <- (firstn_skipn n (rev l)) at 2.
  rewrite filter_app, filter_own_indices, app_nil_r.
  pose proof (filter_len_le (notin (List.map fst (skipn n (rev l)))) (firstn n (rev l))) as H.
  rewrite firstn_length, rev_length in H. exact H.
Qed.

(* without failures the cleanup gets through and the limits hold: at most ll plain closed files, at most total closed
   files altogether *)
Theorem g_cleanup_all_false ll total (pl ar : cdir) fl : ll <= total -> all_false fl ->
  exists pl2 ar2 fl', g_cleanup ll total pl ar fl = (pl2, ar2, true, fl') /\ all_false fl'
    /\ length pl2 <= ll /\ length pl2 + length ar2 <= total.
Proof.
  intros Hlt H. unfold g_cleanup.
  destruct (pop_all_false fl H) as [E0 H0]. destruct (pop fl) as [t0 fl0]. cbn [fst snd] in *. subst t0.
  destruct (g_red_all_false (g_redundant pl ar) ar fl0 H0) as (ar1 & fl1 & Er & H1). rewrite Er. cbn [negb].
  destruct (g_loop_all_false ll total Hlt (g_listing pl ar1) 0 pl ar1 fl1 H1) as (pl2 & ar2 & fl2 & E & H2 & Ep & Ea).
  exists pl2, ar2, fl2. split; [exact E|]. split; [exact H2|].
  unfold g_listing in Ep, Ea. rewrite Dp_listing in Ep. rewrite Da_listing, Cn_listing in Ea by exact Hlt.
  rewrite Nat.sub_0_r in Ep, Ea. rewrite rev_length in Ea. cbn [Nat.add] in Ea. rewrite Nat.sub_0_r in Ea.
  pose proof (filter_tail_bound pl ll) as B1. rewrite <- Ep in B1.
  pose proof (filter_tail_bound ar1 (total - length pl)) as B2. lia.
Qed.

Definition gpending_ok (m : N) (st : gst) : Prop :=
  match st with GOld _ _ _ d => (m <? N.of_nat (length d))%N = true | _ => True end.
Definition grotates (m : N) (st : gst) : bool :=
  match st with GInit _ _ _ => true | GCur _ _ _ d => (m <? N.of_nat (length d))%N | GOld _ _ _ d => (m <? N.of_nat (length d))%N end.
(* the limits of the cleanup strategy hold: at most ll plain closed files, at most total closed files *)
Definition glimit_ok (ll total : nat) (st : gst) : Prop :=
  length (g_plain st) <= ll /\ length (g_plain st) + length (g_arch st) <= total.

Lemma g_active_pending m ll total (old : bool) (pl ar : cdir) idx (d b : bytes) fl :
  gpending_ok m (if old then GOld pl ar idx d else GCur pl ar idx d) -> gpending_ok m (fst (fst (g_active m ll total old pl ar idx d b fl))).
Proof.
  intros P. unfold g_active. destruct (m <? N.of_nat (length d))%N eqn:Em.
  - destruct (pop fl) as [f1 fl1]. destruct f1.
    + pose proof (s_write_pending d b fl1) as L. destruct (s_write d b fl1) as [[d' e] fl2]. cbn [fst].
      destruct old; cbn [gpending_ok]; [lia | exact I].
    + destruct (pop fl1) as [f2 fl2]. destruct f2.
      * pose proof (s_write_pending d b fl2) as L. destruct (s_write d b fl2) as [[d' e] fl3]. cbn [fst gpending_ok]. lia.
      * destruct (g_cleanup ll total (pl ++ [(idx, d)]) ar fl2) as [[[pl2 ar2] ok] fl3]. destruct (s_write [] b fl3) as [[d' e] fl4]. exact I.
  - pose proof (s_write_pending d b fl) as L. destruct (s_write d b fl) as [[d' e] fl1]. cbn [fst].
    destruct old; cbn [gpending_ok] in *; [congruence | exact I].
Qed.

Lemma gstep_pending ap m ll total st fl b : gpending_ok m st -> gpending_ok m (fst (fst (gstep ap m ll total st fl b))).
Proof.
  intros P. destruct st as [pl ar created|pl ar idx d|pl ar idx d]; cbn [gstep].
  - unfold g_init. destruct (pop fl) as [f1 fl1]. destruct f1; [exact I|].
    destruct (if ap then (false, fl1) else pop fl1) as [f2 fl2]. destruct f2; [exact I|].
    destruct (pop fl2) as [f3 fl3]. destruct f3; [exact I|].
    destruct (if ap then pop fl3 else (false, fl3)) as [f4 fl4]. destruct f4; [exact I|].
    destruct (g_cleanup ll total _ ar fl4) as [[[pl2 ar2] ok] fl5]. destruct ok; [|exact I].
    apply (g_active_pending m ll total false). exact I.
  - apply (g_active_pending m ll total false pl ar idx d b fl). exact I.
  - apply (g_active_pending m ll total true pl ar idx d b fl). exact P.
Qed.

Lemma simg_st_pending ap m ll total : forall recs st fl, gpending_ok m st -> gpending_ok m (fst (fst (simg_st ap m ll total st fl recs))).
Proof.
  induction recs as [|b rest IH]; intros st fl P; cbn [simg_st]; [exact P|].
  pose proof (gstep_pending ap m ll total st fl b P) as P1. destruct (gstep ap m ll total st fl b) as [[st1 e1] fl1]. cbn [fst] in P1.
  specialize (IH st1 fl1 P1). destruct (simg_st ap m ll total st1 fl1 rest) as [[st2 e2] fl2]. exact IH.
Qed.

Lemma g_active_recovered m ll total (old : bool) (pl ar : cdir) idx (d b : bytes) fl : ll <= total ->
  all_false fl -> (old = true -> (m <? N.of_nat (length d))%N = true) ->
  exists fl' pl' ar' idx' d', all_false fl' /\ g_active m ll total old pl ar idx d b fl = (GCur pl' ar' idx' d', [], fl')
    /\ ((m <? N.of_nat (length d))%N = true -> length pl' <= ll /\ length pl' + length ar' <= total)
    /\ ((m <? N.of_nat (length d))%N = false -> pl' = pl /\ ar' = ar).
Proof.
  intros Hlt H0 Ho. unfold g_active. destruct (m <? N.of_nat (length d))%N eqn:Em.
  - destruct (pop_all_false fl H0) as [E1 E2]. destruct (pop fl) as [f1 fl1]. cbn [fst snd] in *. subst f1.
    destruct (pop_all_false fl1 E2) as [E3 E4]. destruct (pop fl1) as [f2 fl2]. cbn [fst snd] in *. subst f2.
    destruct (g_cleanup_all_false ll total (pl ++ [(idx, d)]) ar fl2 Hlt E4) as (pl2 & ar2 & fl3 & Ec & H3 & L1 & L2). rewrite Ec.
    pose proof (s_write_all_false [] b fl3 H3) as S. destruct (s_write [] b fl3) as [[d' e] fl4]. destruct S as [-> [-> S3]].
    exists fl4, pl2, ar2, (S idx), ([] ++ b). split; [exact S3|]. split; [reflexivity|]. split; [intros _; split; assumption | discriminate].
  - pose proof (s_write_all_false d b fl H0) as S. destruct (s_write d b fl) as [[d' e] fl1]. destruct S as [-> [-> S3]].
    destruct old; [specialize (Ho eq_refl); congruence|]. exists fl1, pl, ar, idx, (d ++ b).
    split; [exact S3|]. split; [reflexivity|]. split; [discriminate | intros _; split; reflexivity].
Qed.

(* one record when no more failures come *)
Lemma gstep_recovered ap m ll total st fl b : ll <= total -> all_false fl -> gpending_ok m st ->
  let '(st', e, fl') := gstep ap m ll total st fl b in
  e = [] /\ all_false fl' /\ (exists pl ar idx d, st' = GCur pl ar idx d)
  /\ (grotates m st = true -> glimit_ok ll total st')
  /\ (grotates m st = false -> g_plain st' = g_plain st /\ g_arch st' = g_arch st).
Proof.
  intros Hlt Hf P.
  assert (A : forall (old : bool) (pl ar : cdir) idx (d : bytes) fl0, all_false fl0 -> (old = true -> (m <? N.of_nat (length d))%N = true) ->
     let '(st', e, fl') := g_active m ll total old pl ar idx d b fl0 in
     e = [] /\ all_false fl' /\ (exists pl' ar' idx' d', st' = GCur pl' ar' idx' d')
     /\ ((m <? N.of_nat (length d))%N = true -> glimit_ok ll total st')
     /\ ((m <? N.of_nat (length d))%N = false -> g_plain st' = pl /\ g_arch st' = ar)).
  { intros old pl ar idx d fl0 H0 Ho. destruct (g_active_recovered m ll total old pl ar idx d b fl0 Hlt H0 Ho) as (fl' & pl' & ar' & idx' & d' & H' & E & L1 & L2).
    rewrite E. split; [reflexivity|]. split; [exact H'|]. split; [eauto|]. split; [intros Em; exact (L1 Em) | intros Em; exact (L2 Em)]. }
  destruct st as [pl ar created|pl ar idx d|pl ar idx d]; cbn [gstep grotates].
  - unfold g_init.
    destruct (pop_all_false fl Hf) as [E1 E2]. destruct (pop fl) as [f1 fl1]. cbn [fst snd] in *. subst f1.
    assert (X2 : fst (if ap then (false, fl1) else pop fl1) = false /\ all_false (snd (if ap then (false, fl1) else pop fl1))).
    { destruct ap; [split; [reflexivity | exact E2] | apply pop_all_false; exact E2]. }
    destruct (if ap then (false, fl1) else pop fl1) as [f2 fl2]. cbn [fst snd] in X2. destruct X2 as [-> E3].
    destruct (pop_all_false fl2 E3) as [E4 E5]. destruct (pop fl2) as [f3 fl3]. cbn [fst snd] in *. subst f3.
    assert (X4 : fst (if ap then pop fl3 else (false, fl3)) = false /\ all_false (snd (if ap then pop fl3 else (false, fl3)))).
    { destruct ap; [apply pop_all_false; exact E5 | split; [reflexivity | exact E5]]. }
    destruct (if ap then pop fl3 else (false, fl3)) as [f4 fl4]. cbn [fst snd] in X4. destruct X4 as [-> E6].
    destruct (g_cleanup_all_false ll total (if ap then pl else if created then pl ++ [(g_next pl ar, [])] else pl) ar fl4 Hlt E6)
      as (pl2 & ar2 & fl5 & Ec & H5 & L1 & L2).
    rewrite Ec.
    pose proof (A false pl2 ar2 (if ap then g_next pl ar else if created then S (g_next pl ar) else g_next pl ar) [] fl5 H5
                  (fun H => False_ind _ (Bool.diff_false_true H))) as S.
    destruct (g_active m ll total false pl2 ar2 _ [] b fl5) as [[st' e] fl']. destruct S as [S1 [S2 [S3 [_ S5]]]].
    split; [exact S1|]. split; [exact S2|]. split; [exact S3|]. split; [|discriminate].
    intros _. unfold glimit_ok. destruct S5 as [-> ->]; [cbn [length]; apply N.ltb_ge; apply N.le_0_l|]. split; assumption.
  - pose proof (A false pl ar idx d fl Hf (fun H => False_ind _ (Bool.diff_false_true H))) as S.
    destruct (g_active m ll total false pl ar idx d b fl) as [[st' e] fl']. exact S.
  - cbn [gpending_ok] in P. pose proof (A true pl ar idx d fl Hf (fun _ => P)) as S.
    destruct (g_active m ll total true pl ar idx d b fl) as [[st' e] fl']. destruct S as [S1 [S2 [S3 [S4 _]]]].
    split; [exact S1|]. split; [exact S2|]. split; [exact S3|]. split; [exact S4|]. rewrite P. discriminate.
Qed.

(* Once no more failures come: nothing more is reported, every further record is in the log, limits that hold keep
   holding, and after the first record the writer is on rCURRENT *)
Theorem recovery_gz_spec ap m ll total : ll <= total -> forall recs st fl, all_false fl -> gpending_ok m st ->
  let '(st', e, fl') := simg_st ap m ll total st fl recs in
  e = [] /\ all_false fl'
  /\ concat (List.map snd (glog ap m ll total st fl recs)) ++ g_wcur st' = g_wcur st ++ concat recs
  /\ (glimit_ok ll total st -> glimit_ok ll total st')
  /\ (recs <> [] -> exists pl ar idx d, st' = GCur pl ar idx d).
Proof.
  intros Hlt. induction recs as [|b rest IH]; intros st fl Hf P; cbn [simg_st glog].
  - cbn. rewrite app_nil_r. split; [reflexivity|]. split; [exact Hf|]. split; [reflexivity|]. split; [intros L; exact L | intros X; contradiction].
  - pose proof (gstep_recovered ap m ll total st fl b Hlt Hf P) as S. pose proof (gstep_is_ok ap m ll total st fl b) as K.
    destruct (gstep ap m ll total st fl b) as [[st1 e1] fl1]. destruct S as [-> [Hf1 [(pl1 & ar1 & idx1 & d1 & Est) [Hr Hn]]]].
    destruct K as [_ [_ [Hs _]]]. cbn [lost existsb] in Hs.
    assert (P1 : gpending_ok m st1) by (rewrite Est; exact I).
    specialize (IH st1 fl1 Hf1 P1). destruct (simg_st ap m ll total st1 fl1 rest) as [[st2 e2] fl2] eqn:Er.
    destruct IH as [-> [Hf2 [Hs2 [Hl2 Hc2]]]].
    split; [reflexivity|]. split; [exact Hf2|].
    split; [rewrite map_app, concat_app, <- app_assoc, Hs2, app_assoc, Hs; cbn [concat]; rewrite <- app_assoc; reflexivity|].
    split.
    + intros L. apply Hl2. destruct (grotates m st) eqn:Ek; [apply Hr; reflexivity|]. unfold glimit_ok in *.
      destruct (Hn eq_refl) as [-> ->]. exact L.
    + intros _. destruct rest as [|b2 rest2]; [|apply Hc2; discriminate].
      cbn [simg_st] in Er. injection Er as <- _. eauto.
Qed.

(* ... and THE LIMITS ARE RESTORED by the next initialisation or rotation *)
Theorem gz_limit_restored_spec ap m ll total recs1 b recs2 st fl : ll <= total ->
  all_false fl -> gpending_ok m st ->
  grotates m (fst (fst (simg_st ap m ll total st fl recs1))) = true ->
  let '(st', e, fl') := simg_st ap m ll total st fl (recs1 ++ b :: recs2) in
  e = [] /\ all_false fl' /\ glimit_ok ll total st' /\ exists pl ar idx d, st' = GCur pl ar idx d.
Proof.
  intros Hlt Hf P. rewrite simg_st_app.
  pose proof (recovery_gz_spec ap m ll total Hlt recs1 st fl Hf P) as R1. pose proof (simg_st_pending ap m ll total recs1 st fl P) as P1.
  destruct (simg_st ap m ll total st fl recs1) as [[st1 e1] fl1]. cbn [fst] in *. destruct R1 as [-> [Hf1 _]]. intros Hk.
  cbn [simg_st].
  pose proof (gstep_recovered ap m ll total st1 fl1 b Hlt Hf1 P1) as S. pose proof (gstep_pending ap m ll total st1 fl1 b P1) as P2.
  destruct (gstep ap m ll total st1 fl1 b) as [[st2 e2] fl2]. cbn [fst] in P2. destruct S as [-> [Hf2 [(pl2 & ar2 & idx2 & d2 & Est) [Hr _]]]].
  specialize (Hr Hk).
  pose proof (recovery_gz_spec ap m ll total Hlt recs2 st2 fl2 Hf2 P2) as R2.
  destruct (simg_st ap m ll total st2 fl2 recs2) as [[st3 e3] fl3] eqn:E3. destruct R2 as [-> [Hf3 [_ [Hl3 Hc3]]]].
  split; [reflexivity|]. split; [exact Hf3|]. split; [exact (Hl3 Hr)|].
  destruct recs2 as [|b2 r2]; [cbn [simg_st] in E3; injection E3 as <- _; eauto | apply Hc3; discriminate].
Qed.

Print Assumptions lost_only_around_failures_g.
Print Assumptions loss_is_reported_g.
Print Assumptions cleanup_fault_loses_no_record_g.
Print Assumptions gz_limit_restored_spec.
