(* Files that are not members of the logger's file family are ignored - NumbersDirect naming WITH a cleanup strategy
   (NumCleanupForeign.v does this for Numbers naming; NumDForeign.v for NumbersDirect without cleanup):
   the cleanup (cleanup_impl with cur = Some (the file being written)) lists, removes and compresses family files only - numd_member rejects the
   foreign names, so they are not in the listing it works on; the archive name of a listed file is a family name, too.
   A run in a directory pre-filled with foreign files is, step by step, the embedding (ForeignFs.embed) of the run in the
   empty directory: same observations, foreign files untouched (neither removed nor compressed), family files as in the
   clean run.  Unlike with Numbers naming the name of the rCURRENT file is foreign here (cleanup_foreign_instance_dir_d).
   The embedding lemmas (section CfgDK) hold for every world, faults and kills included; the run level is ForeignGen.v. *)
Require Import FL.Base.Bytes FL.Base.BytesFacts FL.Base.PathName FL.Fs.Fs FL.Fs.FsFacts FL.Time.Civil FL.Time.TsFormat
  FL.Names.FileSpec FL.Names.NamesFacts FL.Names.SortFacts FL.Names.FamilyFacts FL.Flw.Model FL.Flw.ModelFacts FL.Flw.NumFs
  FL.Flw.NumInv FL.Flw.Run FL.Flw.RunFacts FL.Flw.NumRun FL.Oracles.O_Flw FL.Flw.NumTheorems FL.Flw.NumListing FL.Flw.CleanupFacts
  FL.Flw.NumKillRestart FL.Flw.NumDInv FL.Flw.NumDRun FL.Flw.NumDTheorems
  FL.Flw.NumCleanupNames FL.Flw.NumCleanupStep FL.Flw.NumCleanupRun FL.Flw.NumCleanup
  FL.Flw.NumDCleanupStep FL.Flw.NumDCleanupRun FL.Flw.NumDCleanup
  FL.Flw.ForeignFs FL.Flw.ForeignSort FL.Flw.ForeignModel FL.Flw.NumForeign FL.Flw.NumCleanupForeign FL.Flw.ForeignGen FL.Flw.NumDForeign.
From Coq Require Import ZifyN ZifyNat ZifyBool.
Open Scope nat_scope.

Section CfgDK.
Variable fn : list (bytes * nat).
Variable fi : list file.
Variable c : config.
Variable crit : criterion.
Variable kc : cleanup.
(* NumbersDirect naming with cleanup strategy kc, no start-time part in the names, no symlink; with a cleanup: no cleanup
   thread, and the suffix is not "gz" *)
Hypothesis Hrot : c_rot c = Some (crit, NNumbersDirect, kc).
Hypothesis Hts : fts (c_spec c) = false.
Hypothesis Hlink : c_symlink c = false.
Hypothesis Hk : kc = KNever \/ (c_bg c = false /\ fsfx (c_spec c) <> Some gz_sfx).
(* no entry of the stock is a member of the family of c *)
Hypothesis Hforeign : forall n, In n (fnames fn) -> numd_member c n = false.
Notation fnm := (fnames fn).
Notation embw := (embedw fn fi).
Notation emb := (embed fn fi).

Lemma list_log_gz_embed_dk off f :
  list_log_gz off (c_spec c) (fixed0 c) (emb f) IFNum = list_log_gz off (c_spec c) (fixed0 c) f IFNum.
Proof.
  apply (list_log_gz_embed_g fn fi).
  - intros n Hn. exact (foreign_plain_d fn c Hforeign off n Hn).
  - intros n Hn. exact (foreign_gz_d fn c Hforeign off n Hn).
Qed.

(* every listed name is a member of the family, and so is the name of its archive, unless it is an archive itself *)
Lemma listed_own_dk off f files : fsfx (c_spec c) <> Some gz_sfx ->
  list_log_gz off (c_spec c) (fixed0 c) f IFNum = Some files ->
  forall n, In n files -> ~ In n fnm /\ (ext_is n gz_sfx = true \/ ~ In (gz_name n) fnm).
Proof.
  intros Hs. unfold list_log_gz, existing_rot, sel_log_gz. cbn [sel_plain sel_gz sel_rcur sel_custom].
  rewrite !filter_files_total. cbn [app_opt]. intros E. injection E as <-. intros n Hn. rewrite !app_nil_r in Hn.
  apply in_app_or in Hn. destruct Hn as [Hn|Hn]; apply filter_In in Hn; destruct Hn as [_ Q].
  - split.
    + intros Hf. rewrite (foreign_plain_d fn c Hforeign off n Hf) in Q. discriminate.
    + right. intros Hf. pose proof (qf_plain_gz_name off (c_spec c) (fixed0 c) IFNum n Hs Q) as Q'.
      rewrite (foreign_gz_d fn c Hforeign off _ Hf) in Q'. discriminate.
  - split.
    + intros Hf. rewrite (foreign_gz_d fn c Hforeign off n Hf) in Q. discriminate.
    + left. eapply qf_gz_ext. exact Q.
Qed.

(* ---- the cleanup ---- *)
Lemma cleanup_body_embed_dk w ll total cur : fsfx (c_spec c) <> Some gz_sfx ->
  (let '(fl, w1) := tick (embw w) in
   if fl then (@Err unit, w1) else
   match list_log_gz (woff w1) (c_spec c) (fixed_of c w1) (wfs w1) IFNum with
   | None => (Panic, w1)
   | Some files =>
     let '(ok0, w1', files') := remove_redundant w1 (redundant_gz files) files in
     if negb ok0 then (Err, w1') else
     let '(ok, w2) := cleanup_loop w1' files' 0 ll total cur in
     ((if ok then Ok tt else Err), w2)
   end)
  = lw fn fi (let '(fl, w1) := tick w in
        if fl then (@Err unit, w1) else
        match list_log_gz (woff w1) (c_spec c) (fixed_of c w1) (wfs w1) IFNum with
        | None => (Panic, w1)
        | Some files =>
          let '(ok0, w1', files') := remove_redundant w1 (redundant_gz files) files in
          if negb ok0 then (Err, w1') else
          let '(ok, w2) := cleanup_loop w1' files' 0 ll total cur in
          ((if ok then Ok tt else Err), w2)
        end).
Proof.
  intros Hs. rewrite tick_embed. destruct (tick w) as [fl w1]. cbn [lw fst snd]. destruct fl; [reflexivity|].
  rewrite !(fixed_of_embed c Hts). change (wfs (embw w1)) with (emb (wfs w1)). change (woff (embw w1)) with (woff w1).
  rewrite list_log_gz_embed_dk.
  destruct (list_log_gz (woff w1) (c_spec c) (fixed0 c) (wfs w1) IFNum) as [files|] eqn:El; [|reflexivity].
  pose proof (listed_own_dk _ _ _ Hs El) as Hown.
  rewrite remove_redundant_embed by (intros n Hn; unfold redundant_gz in Hn; apply filter_In in Hn; apply Hown; apply Hn).
  destruct (remove_redundant w1 (redundant_gz files) files) as [[ok0 w1'] files'] eqn:Er.
  destruct ok0; cbn [negb]; [|reflexivity].
  rewrite cleanup_loop_embed by (intros n Hn; apply Hown; eapply remove_redundant_incl; eassumption).
  destruct (cleanup_loop w1' files' 0 ll total cur) as [ok w2]. reflexivity.
Qed.

(* the cleanup of a direct naming (the file being written is in the listing; a first limit of 0 counts as 1) *)
Lemma cleanup_impl_embed_dk w d : cleanup_impl c (embw w) kc IFNum (Some d) = lw fn fi (cleanup_impl c w kc IFNum (Some d)).
Proof.
  destruct Hk as [->|[_ Hs]]; [reflexivity|].
  unfold cleanup_impl. destruct kc as [|a|b|a b]; [reflexivity| | |]; cbn [andb]; apply cleanup_body_embed_dk; exact Hs.
Qed.

Lemma cleanup_match_dk (w3 : world) flt d :
  match kc with KNever => (Ok tt, w3) | _ => cleanup_impl c w3 kc flt d end = cleanup_impl c w3 kc flt d.
Proof. destruct kc; reflexivity. Qed.

Lemma bg_false_dk : match kc with KNever => false | _ => c_bg c end = false.
Proof. destruct Hk as [->|[Hb _]]; [reflexivity|]. destruct kc; [reflexivity | exact Hb | exact Hb | exact Hb]. Qed.

(* ---- the state machine ---- *)
Lemma initialize_embed_dk w :
  initialize c (embw w) = (shres fi (fst (initialize c w)), embw (snd (initialize c w))).
Proof.
  unfold initialize. rewrite Hrot. unfold init_naming.
  rewrite (with_listing_embed fn fi w
             (fun w' => get_highest_index (woff w') (c_spec c) (fixed_of c w') (wfs w'))
             (fun w' => get_highest_index (woff w') (c_spec c) (fixed_of c w') (wfs w'))).
  2:{ intros w'. rewrite !(fixed_of_embed c Hts). change (wfs (embw w')) with (emb (wfs w')).
      change (woff (embw w')) with (woff w'). apply (get_highest_index_embed_d fn fi c Hforeign). }
  destruct (with_listing w (fun w' => get_highest_index (woff w') (c_spec c) (fixed_of c w') (wfs w'))) as [r w1].
  destruct r as [o| |]; cbn [lw fst snd bind]; [|reflexivity|reflexivity].
  assert (Ei : match o with
               | Some i => if c_append c && match lookup (wfs (embw w1)) (name_of c (embw w1) (Some (number_infix i))) with Some _ => true | None => false end
                           then i else (i + 1)%N
               | None => 0%N end
             = match o with
               | Some i => if c_append c && match lookup (wfs w1) (name_of c w1 (Some (number_infix i))) with Some _ => true | None => false end
                           then i else (i + 1)%N
               | None => 0%N end).
  { destruct o as [i|]; [|reflexivity]. rewrite name_of_embed. change (wfs (embw w1)) with (emb (wfs w1)).
    rewrite (lookup_is_some_embed fn fi) by apply (name_own_d fn c Hts Hforeign). reflexivity. }
  rewrite Ei. clear Ei.
  set (idx := match o with
              | Some i => if c_append c && match lookup (wfs w1) (name_of c w1 (Some (number_infix i))) with Some _ => true | None => false end
                          then i else (i + 1)%N
              | None => 0%N end).
  assert (Hn : ~ In (name_of c w1 (Some (number_infix idx))) fnm) by apply (name_own_d fn c Hts Hforeign).
  rewrite (open_log_file_embed fn fi c Hlink) by exact Hn.
  destruct (open_log_file c w1 (Some (number_infix idx))) as [r2 w2] eqn:Eo. cbn [fst snd].
  destruct r2 as [[wr path]| |]; cbn [shwp bind]; [|reflexivity|reflexivity].
  apply open_log_file_path in Eo. subst path.
  rewrite (roll_new_embed fn fi) by exact Hn.
  destruct (roll_new w2 crit (c_append c) (name_of c w1 (Some (number_infix idx)))) as [r3 w3]. cbn [lw fst snd].
  destruct r3 as [roll| |]; cbn [lw fst snd bind]; [|reflexivity|reflexivity].
  cbn [ns_filter naming_writes_direct]. rewrite !cleanup_match_dk, cleanup_impl_embed_dk, bg_false_dk.
  destruct (cleanup_impl c w3 kc IFNum (Some _)) as [r4 w4]. cbn [lw fst snd]. destruct r4; reflexivity.
Qed.

(* the states of a writer with NumbersDirect naming and the cleanup strategy kc (no cleanup thread) *)
Definition good_inner_dk (st : inner) : Prop :=
  match st with
  | Active (Some rs) _ _ => (exists idx, rs_naming rs = NSNumD idx) /\ rs_cleanup rs = kc /\ rs_bg rs = false
  | _ => True
  end.

Lemma initialize_good_dk w i w' : initialize c w = (Ok i, w') -> good_inner_dk i.
Proof.
  unfold initialize. rewrite Hrot. unfold init_naming.
  destruct (with_listing w (fun w' => get_highest_index (woff w') (c_spec c) (fixed_of c w') (wfs w'))) as [[o| |] w1]; cbn [bind]; try discriminate.
  match goal with |- context [open_log_file c w1 (Some (number_infix ?I))] => set (idx := I) end.
  destruct (open_log_file c w1 (Some (number_infix idx))) as [[[wr path]| |] w2]; cbn [bind]; try discriminate.
  destruct (roll_new w2 crit (c_append c) path) as [[roll| |] w3]; cbn [bind]; try discriminate.
  rewrite cleanup_match_dk, bg_false_dk.
  destruct (cleanup_impl c w3 kc (ns_filter (NSNumD idx)) (if naming_writes_direct NNumbersDirect then Some path else None)) as [[u| |] w4];
    cbn [bind]; try discriminate.
  intros H. injection H as <- _. cbn. split; [eauto | split; reflexivity].
Qed.

Lemma mount_next_embed_dk w st force : good_inner_dk st ->
  mount_next c (embw w) (shin fi st) force = lm fn fi (mount_next c w st force).
Proof.
  intros G. destruct st as [|[rs|] wr path]; try reflexivity.
  destruct G as [[idx En] [Ek Eb]]. destruct rs as [ns roll kc0 bg]. cbn [rs_naming rs_cleanup rs_bg] in En, Ek, Eb. subst ns kc0 bg.
  unfold mount_next. cbn [shin rs_roll rs_naming rs_cleanup rs_bg]. rewrite rotation_necessary_embed.
  destruct (force || rotation_necessary w roll); [|reflexivity].
  assert (Hn : ~ In (name_of c w (Some (number_infix (idx + 1)))) fnm) by apply (name_own_d fn c Hts Hforeign).
  rewrite (open_log_file_embed fn fi c Hlink) by exact Hn.
  destruct (open_log_file c w (Some (number_infix (idx + 1)))) as [r2 w2] eqn:Eo. cbn [fst snd].
  destruct r2 as [[wr' path']| |]; cbn [shwp]; [|reflexivity|reflexivity].
  apply open_log_file_path in Eo. subst path'.
  rewrite w_flush_embed. destruct (w_flush w2 wr) as [[okf w2a] wra]. cbn [lw3].
  replace (if okf then embw w2a else report EFlush (embw w2a)) with (embw (if okf then w2a else report EFlush w2a))
    by (destruct okf; [reflexivity | symmetry; apply report_embed]).
  rewrite w_drop_embed, reset_size_and_date_embed by exact Hn.
  unfold cleanup_or_queue. cbn [ns_filter ns_writes_direct]. rewrite cleanup_impl_embed_dk.
  destruct (cleanup_impl c (w_drop (if okf then w2a else report EFlush w2a) wra) kc IFNum (Some _)) as [rc w4]. reflexivity.
Qed.

Definition good_flw_dk (s : flw) : Prop := f_cfg s = c /\ f_poisoned s = false /\ good_inner_dk (f_inner s).

Lemma write_buffer_embed_dk s w b : good_flw_dk s ->
  write_buffer (embeds fi s) (embw w) b = lwb fn fi (write_buffer s w b).
Proof.
  intros [Ec [Hp G]]. apply (write_buffer_embed_pt fn fi c); [exact Ec | intros _; apply initialize_embed_dk |].
  intros w0 st0 H. apply mount_next_embed_dk. destruct (f_inner s) as [|o wr path] eqn:Ei.
  - destruct (initialize c w) as [[i| |] w'] eqn:E; try discriminate. injection H as <- <-. eapply initialize_good_dk; eassumption.
  - injection H as <- <-. exact G.
Qed.
End CfgDK.

(* ------------------------------------------------------------------ the states of the run in the clean directory *)
Definition good_sys_dk (c : config) (k : cleanup) (x : sys) : Prop := forall s, s_flw x = Some s -> good_flw_dk c k s.

Lemma reldk_good c crit k x a : RelDK c crit k x a -> good_sys_dk c k x.
Proof.
  intros [_ [_ R]] s Es. destruct a as [[closed cur]|].
  - destruct R as [wr [roll [E _]]]. rewrite E in Es. injection Es as <-. repeat split. cbn. eauto.
  - destruct R as [E _]. rewrite E in Es. injection Es as <-. repeat split.
Qed.

(* the names of a directory of the invariant's shape (kdir, no rCURRENT) are family names *)
Lemma dk_dir_own fn c k f files lo mid : (forall n, In n (fnames fn) -> numd_member c n = false) ->
  (klimd k = None \/ sfx_ok (c_spec c)) -> (klimd k = None -> mid = 0) ->
  kdir c f files lo mid -> lookup f (cname c) = None ->
  forall n j, lookup f n = Some j -> ~ In n (fnames fn).
Proof.
  intros Hforeign Hs Hm KD Hnc n j Hj.
  destruct (kd_only _ _ _ _ _ KD n j Hj) as [->|[[i [_ ->]]|[i [Hi ->]]]].
  - rewrite Hnc in Hj. discriminate.
  - apply (rname_own_d fn c Hforeign).
  - destruct Hs as [Hs|Hs].
    + rewrite (Hm Hs) in Hi. lia.
    + intros Hf. pose proof (foreign_gz_d fn c Hforeign 0%Z _ Hf) as Q. rewrite (qf_gname_gz 0%Z c i Hs) in Q. discriminate.
Qed.

Lemma d_mid_none k L : klimd k = None -> d_mid k L = 0.
Proof. intros H. unfold d_mid. rewrite H. reflexivity. Qed.

Lemma reldk_fam fn c crit k x a : (forall n, In n (fnames fn) -> numd_member c n = false) ->
  (klimd k = None \/ sfx_ok (c_spec c)) ->
  RelDK c crit k x a -> fam_g fn (good_sys_dk c k) x.
Proof.
  intros Hforeign Hs R. split; [eapply reldk_good; exact R|]. destruct R as [_ [_ R]].
  intros n Hn. destruct a as [[closed cur]|].
  - destruct R as [wr [roll [_ [I _]]]]. apply dir_names_lookup in Hn. destruct Hn as [j Hj].
    exact (dk_dir_own fn c k _ _ _ _ Hforeign Hs (fun H => d_mid_none k _ H) (dk_dir _ _ _ _ _ _ I) (dk_nocur _ _ _ _ _ _ I) n j Hj).
  - destruct R as [_ [_ [E _]]]. unfold dir_names in Hn. rewrite E in Hn. destruct Hn.
Qed.

(* ------------------------------------------------------------------ THE THEOREM *)
(* Hypotheses as for numbersdirect_cleanup_stream (dside: with a cleanup the suffix is not gz and does not end with .gz),
   and the foreign-name condition of numbersdirect_foreign_ignored: the family test of the model (numd_member) rejects
   the name - it is not listed as a numbered file, neither plain nor compressed. *)
Theorem numbersdirect_cleanup_foreign_ignored c crit k t0 off foreign ops :
  numdkcfg c crit k -> Forall basic_op ops ->
  dside c k (nclosed (a_run None ops (snd (run (fst (step (sys0 t0 off) (OStart c))) ops)))) ->
  NoDup (List.map fst foreign) ->
  (forall n, In n (List.map fst foreign) -> numd_member c n = false) ->
  let ops' := OStart c :: ops ++ [OStop] in
  let rf := run (sys0f t0 off foreign) ops' in
  let r0 := run (sys0 t0 off) ops' in
  (* 1: the same observations; a snapshot shows the foreign files in addition *)
  List.map (strip_obs (List.map fst foreign)) (snd rf) = snd r0
  /\ (Forall (fun o => o <> OSnap) ops -> snd rf = snd r0)
  (* 2: the foreign files are in place, unchanged: neither removed nor compressed *)
  /\ (forall n d, In (n, d) foreign -> file_of (wfs (s_w (fst rf))) n = Some (plain_file t0 d))
  (* 3: every other name is what the run in the empty directory makes of it *)
  /\ (forall n, ~ In n (List.map fst foreign) -> file_of (wfs (s_w (fst rf))) n = file_of (wfs (s_w (fst r0))) n)
  /\ (forall n, In n (List.map fst foreign) -> file_of (wfs (s_w (fst r0))) n = None)
  (* the whole state: the run is the embedding of the run in the empty directory *)
  /\ fst rf = embedx (names (fs0f t0 foreign)) (inodes (fs0f t0 foreign)) (fst r0).
Proof.
  intros Hcfg Hb Hside ND Hfor. pose proof Hcfg as (Hrot & Hts & Hlink & Hasync & Hbg).
  destruct (fs0f_spec t0 foreign ND) as [Hd _].
  assert (Hforeign : forall n, In n (fnames (names (fs0f t0 foreign))) -> numd_member c n = false).
  { intros n Hn. apply Hfor. rewrite <- Hd. exact Hn. }
  assert (Hs : klimd k = None \/ sfx_ok (c_spec c)).
  { unfold dside in Hside. destruct (klimd k); [right; apply Hside | left; reflexivity]. }
  assert (Hk : k = KNever \/ (c_bg c = false /\ fsfx (c_spec c) <> Some gz_sfx)).
  { destruct Hs as [Hs|Hs]; [left; apply klimd_none; exact Hs | right; split; [exact Hbg | apply sfx_ok_not_gz'; exact Hs]]. }
  apply (foreign_ignored_g c (good_sys_dk c k) t0 off foreign ops Hts Hasync).
  - intros x s G Es. destruct (G s Es) as [Ec [Hp _]]. split; assumption.
  - intros x s b G Es. apply (write_buffer_embed_dk _ _ c crit k Hrot Hts Hlink Hk Hforeign). exact (G s Es).
  - intros x s G Es. apply (mount_next_embed_dk _ _ c crit k Hrot Hts Hlink Hk Hforeign). destruct (G s Es) as [_ [_ Gi]]. exact Gi.
  - exact Hb.
  - exact ND.
  - intros i. eapply reldk_fam; [exact Hforeign | exact Hs |].
    apply (run_rel_dk c crit k Hcfg (firstn i ops) _ None (start_rel_dk c crit k t0 off)).
    + apply Forall_firstn'. exact Hb.
    + eapply dside_le; [apply nclosed_prefix | exact Hside].
  - intros n Hn. rewrite <- Hd in Hn.
    pose proof (numbersdirect_cleanup_stream c crit k t0 off ops Hcfg Hb Hside) as [_ [V _]].
    set (f := wfs (s_w (fst (run (sys0 t0 off) (OStart c :: ops ++ [OStop]))))) in *.
    destruct (lookup f n) as [j|] eqn:Ej; [exfalso|reflexivity].
    destruct (a_run None ops (snd (run (fst (step (sys0 t0 off) (OStart c))) ops))) as [[closed cur]|].
    + destruct V as [KD [_ Hnc]].
      exact (dk_dir_own _ c k _ _ _ _ Hforeign Hs (fun H => d_mid_none k _ H) KD Hnc n j Ej Hn).
    + unfold lookup in Ej. rewrite V in Ej. discriminate.
Qed.
Print Assumptions numbersdirect_cleanup_foreign_ignored.

Lemma memberd_gname c i : sfx_ok (c_spec c) -> numd_member c (gname c i) = true.
Proof. intros Hsfx. unfold numd_member. rewrite (qf_gname_gz 0%Z c i Hsfx). apply orb_true_r. Qed.

(* numbersdirect_cleanup carries over: what the directory with the foreign files holds after the run.
   closed, cur: the reader's view that the run would leave without cleanup; (n, m) = klimd k: n plain files - the file being
   written, r<L>, included - and m archives are kept. *)
Theorem numbersdirect_cleanup_foreign_dir c crit k n m t0 off foreign ops closed cur :
  numdkcfg c crit k -> klimd k = Some (n, m) -> Forall basic_op ops ->
  sfx_ok (c_spec c) ->
  a_run None ops (snd (run (fst (step (sys0 t0 off) (OStart c))) ops)) = Some (closed, cur) ->
  NoDup (List.map fst foreign) ->
  (forall x, In x (List.map fst foreign) -> numd_member c x = false) ->
  let ff := wfs (s_w (fst (run (sys0f t0 off foreign) (OStart c :: ops ++ [OStop])))) in
  let L := length closed in let lo := S L - (n + m) in let mid := S L - n in
  concat closed ++ cur = written ops
  (* exactly these names exist *)
  /\ (forall x, file_of ff x <> None <->
        In x (List.map fst foreign) \/ (exists i, mid <= i <= L /\ x = rname c i)
        \/ (exists i, lo <= i < mid /\ x = gname c i))
  (* the foreign files as they were *)
  /\ (forall x d, In (x, d) foreign -> file_of ff x = Some (plain_file t0 d))
  (* the newest n - 1 closed files as they were closed, the next m as complete archives, the current file r<L> *)
  /\ (forall i, mid <= i < L ->
        exists fl, file_of ff (rname c i) = Some fl /\ fdata fl = nth i closed [] /\ fgz fl = 0%N /\ fdir fl = false)
  /\ (forall i, lo <= i < mid ->
        exists fl, file_of ff (gname c i) = Some fl /\ fdata fl = nth i closed [] /\ fgz fl = 1%N /\ fdir fl = false)
  /\ (exists fl, file_of ff (rname c L) = Some fl /\ fdata fl = cur /\ fgz fl = 0%N /\ fdir fl = false)
  (* older family files are gone *)
  /\ (forall i, i < lo -> file_of ff (rname c i) = None /\ file_of ff (gname c i) = None).
Proof.
  intros Hcfg Hk Hb Hsfx Ea ND Hfor ff L lo mid.
  assert (Hside : dside c k (nclosed (a_run None ops (snd (run (fst (step (sys0 t0 off) (OStart c))) ops))))).
  { rewrite Ea. unfold dside. rewrite Hk. exact Hsfx. }
  destruct (numbersdirect_cleanup_foreign_ignored c crit k t0 off foreign ops Hcfg Hb Hside ND Hfor) as (_ & _ & F2 & F3 & F4 & _).
  fold ff in F2, F3.
  destruct (numbersdirect_cleanup c crit k n m t0 off ops closed cur Hcfg Hk Hb Hsfx Ea)
    as (P0 & Pn & _ & _ & _ & _ & _ & _ & _ & _ & Pp & Pa & Po & _ & _ & Pc).
  set (f0 := wfs (s_w (fst (run (sys0 t0 off) (OStart c :: ops ++ [OStop]))))) in *. fold L lo mid in Pn, Pp, Pa, Po, Pc.
  assert (Hrn : forall i, ~ In (rname c i) (List.map fst foreign)).
  { intros i Hi. apply Hfor in Hi. rewrite memberd_rname in Hi. discriminate. }
  assert (Hgn : forall i, ~ In (gname c i) (List.map fst foreign)).
  { intros i Hi. apply Hfor in Hi. rewrite (memberd_gname c i Hsfx) in Hi. discriminate. }
  assert (Hex : forall x, file_of f0 x <> None <-> exists j, lookup f0 x = Some j).
  { intros x. unfold file_of. destruct (lookup f0 x) as [j|]; split; intros H; try congruence; eauto. destruct H; discriminate. }
  split; [exact P0|]. split; [|split; [exact F2|split; [|split; [|split]]]].
  - intros x. destruct (in_dec bytes_eq_dec x (List.map fst foreign)) as [Hi|Hi].
    + split; [intros _; left; exact Hi|]. intros _. apply in_map_iff in Hi. destruct Hi as [[x' d] [E Hi]]. cbn in E. subst x'.
      rewrite (F2 x d Hi). discriminate.
    + rewrite (F3 x Hi), Hex, Pn. split; [intros H; right; exact H|]. intros [H|H]; [contradiction | exact H].
  - intros i Hi. rewrite (F3 _ (Hrn i)). destruct (Pp i Hi) as [_ H]. exact H.
  - intros i Hi. rewrite (F3 _ (Hgn i)). destruct (Pa i Hi) as [_ H]. exact H.
  - rewrite (F3 _ (Hrn L)). exact Pc.
  - intros i Hi. rewrite (F3 _ (Hrn i)), (F3 _ (Hgn i)). destruct (Po i Hi) as [H1 H2]. unfold file_of. rewrite H1, H2. split; reflexivity.
Qed.
Print Assumptions numbersdirect_cleanup_foreign_dir.

(* ------------------------------------------------------------------ example *)
Import String.StringSyntax.
Open Scope string_scope.
(* the current file, one more plain file and one archive are kept *)
Definition exdf_k : config :=
  {| c_spec := c_spec exdf_c; c_append := false; c_cap := None; c_rot := Some (CSize 3, NNumbersDirect, KLogGz 2 1); c_utc := false;
     c_symlink := false; c_bg := false; c_async := false; c_start := None |}.

(* the near misses of NumDForeign.exdf_foreign (among them the rCURRENT file and its archive), and near misses of the archive
   names *)
Definition exdf_foreign_k : list (bytes * bytes) :=
  exdf_foreign ++ [ (bs "a_r00000.log.gz.bak", bs "p"); (bs "a_r00001.gz", bs "o"); (bs "a_r00001.log.gzip", bs "n") ].

Example cleanup_foreign_hypotheses_d :
  numdkcfg exdf_k (CSize 3) (KLogGz 2 1) /\ Forall basic_op NumForeign.ex_ops
  /\ dside exdf_k (KLogGz 2 1) (nclosed (a_run None NumForeign.ex_ops (snd (run (fst (step (sys0 0 0) (OStart exdf_k))) NumForeign.ex_ops))))
  /\ NoDup (List.map fst exdf_foreign_k)
  /\ (forall n, In n (List.map fst exdf_foreign_k) -> numd_member exdf_k n = false).
Proof.
  split; [repeat split|]. split; [repeat constructor|]. split; [|split].
  - vm_compute; reflexivity.
  - repeat (constructor; [vm_compute; intuition discriminate|]). constructor.
  - intros n Hn. vm_compute in Hn.
    repeat (destruct Hn as [<-|Hn]; [vm_compute; reflexivity|]). destruct Hn.
Qed.

Example cleanup_foreign_instance_d :
  List.map (strip_obs (List.map fst exdf_foreign_k)) (snd (run (sys0f 0 0 exdf_foreign_k) (OStart exdf_k :: NumForeign.ex_ops ++ [OStop])))
  = snd (run (sys0 0 0) (OStart exdf_k :: NumForeign.ex_ops ++ [OStop])).
Proof.
  destruct cleanup_foreign_hypotheses_d as (H1 & H2 & H3 & H4 & H5).
  exact (proj1 (numbersdirect_cleanup_foreign_ignored exdf_k (CSize 3) (KLogGz 2 1) 0 0 exdf_foreign_k NumForeign.ex_ops H1 H2 H3 H4 H5)).
Qed.

(* computed: the cleanup has removed r00000, compressed r00001 and kept r00002 and the current file r00003 - and nothing
   else: a_r00001x.log, a_r1backup.log, a_r1x.log, a_r7x.log and a_r2024-02-29_23-59-58.log, which the number filter took for
   numbered files before its repair (and the cleanup would have counted, compressed or deleted), a_rCURRENT.log and the
   near misses of the archive names are left alone *)
Example cleanup_foreign_instance_dir_d :
  ex_snap (fst (run (sys0f 0 0 exdf_foreign_k) (OStart exdf_k :: NumForeign.ex_ops ++ [OStop])))
  = [ (bs "a.log", 0%N, bs "q");
      (bs "a_r00000.log.gz.bak", 0%N, bs "p");
      (bs "a_r00001", 0%N, bs "t");
      (bs "a_r00001.gz", 0%N, bs "o");
      (bs "a_r00001.log.bak", 0%N, bs "w");
      (bs "a_r00001.log.gz", 1%N, bs "ef");
      (bs "a_r00001.log.gzip", 0%N, bs "n");
      (bs "a_r00001.txt", 0%N, bs "z");
      (bs "a_r00001x.log", 0%N, bs "3");
      (bs "a_r00002.log", 0%N, bs "ghij");
      (bs "a_r00003.log", 0%N, bs "k");
      (bs "a_r1backup.log", 0%N, bs "2");
      (bs "a_r1x.log", 0%N, bs "1");
      (bs "a_r2024-02-29_23-59-58.log", 0%N, bs "4");
      (bs "a_r7x.log", 0%N, bs "5");
      (bs "a_rCURRENT.log", 0%N, bs "p");
      (bs "a_rCURRENT.log.gz", 0%N, bs "s");
      (bs "a_rx.log", 0%N, bs "x");
      (bs "ax_r00001.log", 0%N, bs "v");
      (bs "b.log", 0%N, bs "y") ]
  /\ ex_snap (fst (run (sys0 0 0) (OStart exdf_k :: NumForeign.ex_ops ++ [OStop])))
  = [ (bs "a_r00001.log.gz", 1%N, bs "ef"); (bs "a_r00002.log", 0%N, bs "ghij"); (bs "a_r00003.log", 0%N, bs "k") ].
Proof. vm_compute. split; reflexivity. Qed.

(* the directory theorem applied: L = 3 closed files, n = 2, m = 1: lo = 1, mid = 2 *)
Example cleanup_foreign_dir_instance_d :
  let ff := wfs (s_w (fst (run (sys0f 0 0 exdf_foreign_k) (OStart exdf_k :: NumForeign.ex_ops ++ [OStop])))) in
  (forall x d, In (x, d) exdf_foreign_k -> file_of ff x = Some (plain_file 0 d))
  /\ (exists fl, file_of ff (gname exdf_k 1) = Some fl /\ fdata fl = bs "ef" /\ fgz fl = 1%N /\ fdir fl = false)
  /\ (exists fl, file_of ff (rname exdf_k 3) = Some fl /\ fdata fl = bs "k" /\ fgz fl = 0%N /\ fdir fl = false)
  /\ file_of ff (rname exdf_k 0) = None /\ file_of ff (gname exdf_k 0) = None.
Proof.
  intros ff. destruct cleanup_foreign_hypotheses_d as (H1 & H2 & _ & H4 & H5).
  assert (Ea : a_run None NumForeign.ex_ops (snd (run (fst (step (sys0 0 0) (OStart exdf_k))) NumForeign.ex_ops))
               = Some ([bs "abcd"; bs "ef"; bs "ghij"], bs "k")) by (vm_compute; reflexivity).
  pose proof (numbersdirect_cleanup_foreign_dir exdf_k (CSize 3) (KLogGz 2 1) 2 1 0 0 exdf_foreign_k NumForeign.ex_ops _ _
                H1 eq_refl H2 ltac:(vm_compute; reflexivity) Ea H4 H5) as T.
  cbv zeta in T. fold ff in T. cbn [length Nat.sub Nat.add] in T.
  destruct T as (_ & _ & F & _ & A & C & O).
  split; [exact F|]. split; [exact (A 1 ltac:(lia))|]. split; [exact C|]. exact (O 0 ltac:(lia)).
Qed.

(* THE BOUNDARY of "foreign" (model behaviour worth knowing): a file that this writer did not write but whose name follows
   the pattern - "a_r7.log", a number of one digit - is a member (numd_member = true), so the theorem does not speak about
   it: it counts as index 7, the writer goes on with r00008, and the cleanup treats it as the oldest family file: after the
   first record it is still there (two plain files are allowed), at the end of the history it has been REMOVED together
   with r00008.  With KLogGz 2 2 it would have been compressed to a_r7.log.gz instead. *)
Example member_file_is_cleaned_d :
  numd_member exdf_k (bs "a_r7.log") = true
  /\ ex_snap (fst (run (sys0f 0 0 [(bs "a_r7.log", bs "w")]) ([OStart exdf_k; OWrite (bs "ab")] ++ [OStop])))
     = [ (bs "a_r00008.log", 0%N, bs "ab"); (bs "a_r7.log", 0%N, bs "w") ]
  /\ ex_snap (fst (run (sys0f 0 0 [(bs "a_r7.log", bs "w")]) (OStart exdf_k :: NumForeign.ex_ops ++ [OStop])))
     = [ (bs "a_r00009.log.gz", 1%N, bs "ef"); (bs "a_r00010.log", 0%N, bs "ghij"); (bs "a_r00011.log", 0%N, bs "k") ].
Proof. vm_compute. repeat split; reflexivity. Qed.
