(* The cleanup (list_and_cleanup.rs: remove_or_compress_too_old_logfiles_impl) in a world without faults and kills:
   what compress_file, cleanup_loop and remove_redundant do to the file system.
   Result: the entries of the (newest-first) listing before position log_limit are kept as they are, the entries
   from log_limit up to total are kept as archives (compressed, content preserved, original removed), everything
   from position total on is deleted; nothing else is touched. *)
Require Import FL.Base.Bytes FL.Base.BytesFacts FL.Base.PathName FL.Fs.Fs FL.Fs.FsFacts FL.Names.FileSpec
               FL.Flw.Model FL.Flw.ModelFacts.
Open Scope nat_scope.

(* ------------------------------------------------------------------ names: gz_name appends ".gz" *)
Lemma nth_error_split {A} (s : list A) i c : nth_error s i = Some c -> s = firstn i s ++ c :: skipn (S i) s.
Proof.
  revert i; induction s as [|x s IH]; intros [|i] H; cbn in H; try discriminate.
  - injection H as ->. reflexivity.
  - cbn [firstn skipn app]. f_equal. apply IH. exact H.
Qed.

Lemma rfind_byte_nth c s i : rfind_byte c s = Some i -> nth_error s i = Some c.
Proof.
  revert i; induction s as [|x s IH]; intros i H; cbn [rfind_byte] in H; [discriminate|].
  destruct (rfind_byte c s) as [j|] eqn:E.
  - injection H as <-. cbn [nth_error]. apply IH. reflexivity.
  - destruct (N.eqb_spec x c) as [->|_]; [|discriminate]. injection H as <-. reflexivity.
Qed.

Lemma rfind_byte_app c a b :
  rfind_byte c (a ++ b) = match rfind_byte c b with Some i => Some (length a + i) | None => rfind_byte c a end.
Proof.
  induction a as [|x a IH]; cbn [app rfind_byte length].
  - destruct (rfind_byte c b); reflexivity.
  - rewrite IH. destruct (rfind_byte c b); reflexivity.
Qed.

(* a name is its stem, followed by a dot and the extension if there is one *)
Lemma split_at_last_dot_spec n :
  n = file_stem n ++ match extension n with Some e => dot :: e | None => [] end.
Proof.
  unfold file_stem, extension, split_at_last_dot.
  destruct (beq n [dot; dot]); cbn [fst snd]; [rewrite app_nil_r; reflexivity|].
  destruct (rfind_byte dot n) as [[|i]|] eqn:E; cbn [fst snd]; try (rewrite app_nil_r; reflexivity).
  apply nth_error_split. apply rfind_byte_nth. exact E.
Qed.

Definition dot_gz : bytes := dot :: gz_sfx.

Theorem gz_name_app n : gz_name n = n ++ dot_gz.
Proof.
  unfold gz_name, set_extension, dot_gz. pose proof (split_at_last_dot_spec n) as S.
  destruct (extension n) as [e|].
  - rewrite S at 2. rewrite <- app_assoc. f_equal. destruct e; reflexivity.
  - rewrite app_nil_r in S. rewrite <- S. reflexivity.
Qed.

Lemma gz_name_neq n : gz_name n <> n.
Proof.
  rewrite gz_name_app. intros H. apply (f_equal (@length N)) in H. rewrite app_length in H. cbn in H. lia.
Qed.
Lemma gz_name_inj a b : gz_name a = gz_name b -> a = b.
Proof. rewrite !gz_name_app. apply app_inv_tail. Qed.

(* the name of an archive has the extension gz and names its original - except for the empty name *)
Lemma split_dot_gz n : n <> [] -> split_at_last_dot (n ++ dot_gz) = (n, Some gz_sfx).
Proof.
  intros Hn. unfold split_at_last_dot.
  assert (B : beq (n ++ dot_gz) [dot; dot] = false).
  { destruct (beq_spec (n ++ dot_gz) [dot; dot]) as [H|_]; [|reflexivity].
    apply (f_equal (@length N)) in H. rewrite app_length in H. cbn in H. lia. }
  assert (K : forall (l : bytes) r, skipn (S (length l)) (l ++ dot :: r) = r).
  { induction l as [|y l IH]; intros r; [reflexivity|]. cbn [length app]. rewrite skipn_cons. apply IH. }
  rewrite B, rfind_byte_app.
  replace (rfind_byte dot dot_gz) with (Some 0) by reflexivity. cbv iota beta. rewrite Nat.add_0_r.
  destruct n as [|x n]; [congruence|]. cbn [length].
  change (S (length n)) with (length (x :: n)). f_equal.
  - rewrite firstn_app, Nat.sub_diag, firstn_all. cbn [firstn]. apply app_nil_r.
  - f_equal. apply K.
Qed.

Lemma ext_is_gz_name n : n <> [] -> ext_is (gz_name n) gz_sfx = true.
Proof. intros Hn. unfold ext_is, extension. rewrite gz_name_app, split_dot_gz by assumption. cbn [snd]. apply beq_refl. Qed.
Lemma strip_gz_name n : n <> [] -> set_extension (gz_name n) [] = n.
Proof. intros Hn. unfold set_extension, file_stem. rewrite gz_name_app, split_dot_gz by assumption. cbn [fst]. apply app_nil_r. Qed.

(* the empty name is the exception (Path::new("").with_extension("gz") is ".gz", a name without extension) *)
Example gz_name_empty : gz_name [] = dot_gz /\ ext_is (gz_name []) gz_sfx = false /\ extension (gz_name []) = None.
Proof. vm_compute. repeat split. Qed.

(* the test of the loop *)
Lemma loop_test_ext_is {A} n (x y : A) :
  match extension n with Some e => if beq e gz_sfx then x else y | None => y end = if ext_is n gz_sfx then x else y.
Proof. unfold ext_is. destruct (extension n); reflexivity. Qed.
Lemma ext_is_iff n : ext_is n gz_sfx = true <-> extension n = Some gz_sfx.
Proof.
  unfold ext_is. destruct (extension n) as [e|]; split; intros H; try discriminate.
  - apply beq_eq in H. congruence.
  - injection H as ->. apply beq_refl.
Qed.

(* ------------------------------------------------------------------ the file-system view of one name *)
(* the name m means the same in f' as in f: same inode, same file (content, kind, birth time) *)
Definition same_at (f f' : fs) (m : bytes) : Prop := lookup f' m = lookup f m /\ file_of f' m = file_of f m.

Lemma same_at_refl f m : same_at f f m.
Proof. split; reflexivity. Qed.
Lemma same_at_trans f1 f2 f3 m : same_at f1 f2 m -> same_at f2 f3 m -> same_at f1 f3 m.
Proof. intros [A1 B1] [A2 B2]. split; congruence. Qed.
Lemma same_at_content f f' m i : same_at f f' m -> lookup f m = Some i ->
  lookup f' m = Some i /\ inode f' i = inode f i.
Proof.
  intros [L F] H. unfold file_of in F. rewrite L, H in F. split; [congruence|]. injection F as F. exact F.
Qed.

(* n has been compressed on the way from f to f': n is gone and gz_name n is a complete archive of the old content *)
Definition archived (f f' : fs) (n : bytes) : Prop :=
  exists i j, lookup f n = Some i /\ lookup f' n = None /\ lookup f' (gz_name n) = Some j
    /\ fdata (inode f' j) = content f i /\ fgz (inode f' j) = 1%N /\ fdir (inode f' j) = false.

Lemma archived_before f0 f f' n : same_at f0 f n -> archived f f' n -> archived f0 f' n.
Proof.
  intros S (i & j & Li & Ln & Lg & D & G & Dr). exists i, j.
  destruct S as [L F]. unfold file_of in F. rewrite Li in L. rewrite Li, <- L in F. injection F as F.
  repeat split; auto. rewrite D. unfold content. rewrite F. reflexivity.
Qed.
Lemma archived_after f f1 f' n : archived f f1 n -> same_at f1 f' n -> same_at f1 f' (gz_name n) -> archived f f' n.
Proof.
  intros (i & j & Li & Ln & Lg & D & G & Dr) [L1 _] Sg. exists i, j.
  destruct (same_at_content _ _ _ _ Sg Lg) as [Lg' I]. rewrite I.
  repeat split; auto. congruence.
Qed.

(* the name m is not a sub-directory (File::create on a directory fails) *)
Definition not_dir (f : fs) (m : bytes) : Prop := match file_of f m with Some fl => fdir fl = false | None => True end.
Lemma not_dir_same_at f f' m : same_at f f' m -> not_dir f m -> not_dir f' m.
Proof. intros [_ F]. unfold not_dir. rewrite F. auto. Qed.
Lemma not_dir_missing f m : lookup f m = None -> not_dir f m.
Proof. intros H. unfold not_dir, file_of. rewrite H. exact I. Qed.

(* ------------------------------------------------------------------ set_gz *)
Lemma set_gz_spec f i st d : i < length (inodes f) ->
  (forall m, lookup (set_gz f i st d) m = lookup f m)
  /\ length (inodes (set_gz f i st d)) = length (inodes f)
  /\ inode (set_gz f i st d) i = {| fdata := d; fgz := st; fborn := fborn (inode f i); fdir := false |}
  /\ (forall j, j <> i -> inode (set_gz f i st d) j = inode f j).
Proof.
  intros Hi. split; [reflexivity|]. split; [apply upd_length|]. split.
  - unfold inode at 1. cbn [set_gz inodes]. rewrite nth_upd, Nat.eqb_refl by assumption. reflexivity.
  - intros j Hj. unfold inode at 1. cbn [set_gz inodes]. rewrite nth_upd by assumption.
    destruct (Nat.eqb_spec j i); [congruence | reflexivity].
Qed.
Lemma wf_set_gz f i st d : fs_wf f -> fs_wf (set_gz f i st d).
Proof.
  intros [Hb Hj]. split.
  - intros a j H. cbn [set_gz inodes]. rewrite upd_length. eapply Hb. exact H.
  - exact Hj.
Qed.

Lemma p_remove_quiet w a i : quiet w -> lookup (wfs w) a = Some i ->
  exists w', p_remove w a = (true, w') /\ wfs w' = unlink (wfs w) a /\ same_env w w'.
Proof.
  intros Q H. unfold p_remove. rewrite tick_quiet by assumption. rewrite H.
  eexists. split; [reflexivity|]. apply effect_quiet. assumption.
Qed.
Lemma p_remove_quiet_missing w a : quiet w -> lookup (wfs w) a = None -> p_remove w a = (false, w).
Proof. intros Q H. unfold p_remove. rewrite tick_quiet by assumption. rewrite H. reflexivity. Qed.

(* ------------------------------------------------------------------ 1. compress_file *)
(* The side condition on gz_name n: it is not a directory (File::create fails on one, see compress_file_directory).
   Nothing else is needed: it differs from n (gz_name_neq); if it exists already it is truncated and rewritten
   (it keeps its inode and birth time), otherwise it is created.
   That n is a regular plain file is not needed either: the archive simply holds what the inode of n holds. *)
Theorem compress_file_quiet w n i :
  quiet w -> fs_wf (wfs w) -> lookup (wfs w) n = Some i -> not_dir (wfs w) (gz_name n) ->
  exists w' j,
    compress_file w n = (true, w') /\ same_env w w' /\ fs_wf (wfs w')
    /\ lookup (wfs w') n = None
    /\ lookup (wfs w') (gz_name n) = Some j
    /\ inode (wfs w') j = {| fdata := content (wfs w) i; fgz := 1%N;
                             fborn := match file_of (wfs w) (gz_name n) with Some fl => fborn fl | None => wnow w end;
                             fdir := false |}
    /\ (forall k, lookup (wfs w) (gz_name n) = Some k -> j = k)
    /\ (lookup (wfs w) (gz_name n) = None -> j = length (inodes (wfs w)))
    /\ (forall m, m <> n -> m <> gz_name n -> same_at (wfs w) (wfs w') m)
    /\ (forall k, k < length (inodes (wfs w)) -> k <> j -> inode (wfs w') k = inode (wfs w) k).
Proof.
  intros Q W Hn ND. pose proof (gz_name_neq n) as Hg.
  unfold compress_file. rewrite (tick_quiet w Q). cbv beta iota zeta.
  replace (match file_of (wfs w) (gz_name n) with Some fl => fdir fl | None => false end) with false
    by (unfold not_dir in ND; destruct (file_of (wfs w) (gz_name n)); congruence).
  pose proof (open_trunc_spec (wfs w) (gz_name n) 2%N (wnow w) W) as OT.
  destruct (effect_quiet w (fun f => fst (open_trunc f (gz_name n) 2%N (wnow w))) Q) as [F2 S2].
  set (w2 := effect w (fun f => fst (open_trunc f (gz_name n) 2%N (wnow w)))) in *.
  destruct (open_trunc (wfs w) (gz_name n) 2%N (wnow w)) as [f1 j] eqn:EOT. cbn [fst snd] in *.
  destruct OT as (W1 & Lg1 & Hj1 & C1 & Hlen & Lo1 & Io1 & Jnew & Jold).
  rewrite (tick_quiet w2 (proj1 S2)). cbv beta iota zeta.
  assert (Ln1 : lookup (wfs w2) n = Some i) by (rewrite F2, Lo1 by congruence; exact Hn).
  rewrite Ln1.
  pose proof (wf_bound _ W _ _ Hn) as Hi.
  assert (Hij : i <> j).
  { intros ->. destruct (lookup (wfs w) (gz_name n)) as [k|] eqn:Eg.
    - specialize (Jold k eq_refl). subst k. apply Hg. apply (wf_inj _ W _ _ j); assumption.
    - specialize (Jnew eq_refl). lia. }
  assert (Ci : content (wfs w2) i = content (wfs w) i) by (unfold content; rewrite F2, Io1 by assumption; reflexivity).
  rewrite Ci. rewrite (tick_quiet w2 (proj1 S2)). cbv beta iota zeta.
  destruct (effect_quiet w2 (fun f => f) (proj1 S2)) as [F5 S5].
  set (w5 := effect w2 (fun f => f)) in *.
  rewrite (tick_quiet w5 (proj1 S5)). cbv beta iota zeta.
  destruct (effect_quiet w5 (fun f => set_gz f j 1%N (content (wfs w) i)) (proj1 S5)) as [F7 S7].
  set (w7 := effect w5 (fun f => set_gz f j 1%N (content (wfs w) i))) in *.
  rewrite F5, F2 in F7.
  destruct (set_gz_spec f1 j 1%N (content (wfs w) i) Hj1) as (SL & SLen & SI & SO).
  assert (Ln7 : lookup (wfs w7) n = Some i) by (rewrite F7, SL, <- F2; exact Ln1).
  destruct (p_remove_quiet w7 n i (proj1 S7) Ln7) as (w8 & E8 & F8 & S8).
  destruct (unlink_spec (wfs w7) n) as (UI & UN & UO).
  exists w8, j. split; [exact E8|].
  split; [eapply same_env_trans; [eapply same_env_trans; [eapply same_env_trans|]|]; eassumption|].
  assert (I8 : forall k, inode (wfs w8) k = inode (set_gz f1 j 1%N (content (wfs w) i)) k).
  { intros k. unfold inode. rewrite F8, UI, F7. reflexivity. }
  split; [rewrite F8; apply wf_unlink; rewrite F7; apply wf_set_gz; exact W1|].
  split; [rewrite F8; exact UN|].
  split; [rewrite F8, UO, F7, SL by assumption; exact Lg1|].
  split.
  { rewrite I8, SI. f_equal. unfold file_of.
    destruct (lookup (wfs w) (gz_name n)) as [k|] eqn:Eg.
    - specialize (Jold k eq_refl). subst k. unfold open_trunc in EOT. rewrite Eg in EOT. injection EOT as <-.
      unfold inode at 1. cbn [inodes]. rewrite nth_upd, Nat.eqb_refl by (apply (wf_bound _ W _ _ Eg)). reflexivity.
    - specialize (Jnew eq_refl). unfold open_trunc in EOT. rewrite Eg in EOT. unfold create_file in EOT. injection EOT as <- _.
      unfold inode. cbn [inodes]. rewrite Jnew, inode_app_new. reflexivity. }
  split; [exact Jold|]. split; [exact Jnew|].
  assert (Others : forall m, m <> n -> m <> gz_name n -> lookup (wfs w8) m = lookup (wfs w) m).
  { intros m H1 H2. rewrite F8, UO, F7, SL by assumption. apply Lo1. assumption. }
  assert (Ino : forall k, k < length (inodes (wfs w)) -> k <> j -> inode (wfs w8) k = inode (wfs w) k).
  { intros k H1 H2. rewrite I8, SO by assumption. apply Io1; assumption. }
  split; [|exact Ino].
  intros m H1 H2. split; [apply Others; assumption|]. unfold file_of. rewrite Others by assumption.
  destruct (lookup (wfs w) m) as [k|] eqn:Em; [|reflexivity]. f_equal. apply Ino; [apply (wf_bound _ W _ _ Em)|].
  intros ->. destruct (lookup (wfs w) (gz_name n)) as [k'|] eqn:Eg.
  - specialize (Jold k' eq_refl). subst k'. apply H2. apply (wf_inj _ W _ _ j); assumption.
  - specialize (Jnew eq_refl). apply (wf_bound _ W) in Em. lia.
Qed.
Print Assumptions compress_file_quiet.

(* on a directory of the archive name nothing happens *)
Lemma compress_file_directory w n fl : quiet w -> file_of (wfs w) (gz_name n) = Some fl -> fdir fl = true ->
  compress_file w n = (false, w).
Proof. intros Q F D. unfold compress_file. rewrite (tick_quiet w Q). cbv beta iota zeta. rewrite F, D. reflexivity. Qed.

(* ------------------------------------------------------------------ 2. cleanup_loop *)
(* what the loop does with the entry n at position idx of the listing *)
Inductive action := AKeep | ACompress | ARemove.
Definition act (ll total idx : nat) (n : bytes) : action :=
  if Nat.leb total idx then ARemove
  else if Nat.leb ll idx then (if ext_is n gz_sfx then AKeep else ACompress)
  else AKeep.

Lemma act_remove ll total idx n : act ll total idx n = ARemove <-> total <= idx.
Proof. unfold act. destruct (Nat.leb_spec total idx), (Nat.leb_spec ll idx), (ext_is n gz_sfx); intuition (try discriminate; try lia). Qed.
Lemma act_compress ll total idx n : act ll total idx n = ACompress <-> ll <= idx < total /\ ext_is n gz_sfx = false.
Proof. unfold act. destruct (Nat.leb_spec total idx), (Nat.leb_spec ll idx), (ext_is n gz_sfx); intuition (try discriminate; try lia). Qed.
Lemma act_keep ll total idx n : act ll total idx n = AKeep <-> idx < total /\ (idx < ll \/ ext_is n gz_sfx = true).
Proof. unfold act. destruct (Nat.leb_spec total idx), (Nat.leb_spec ll idx), (ext_is n gz_sfx); intuition (try discriminate; try lia). Qed.

Lemma cleanup_loop_cons w n r idx ll total :
  cleanup_loop w (n :: r) idx ll total None =
  match act ll total idx n with
  | ARemove => let '(ok, w1) := p_remove w n in if ok then cleanup_loop w1 r (S idx) ll total None else (false, w1)
  | ACompress => let '(ok, w1) := compress_file w n in if ok then cleanup_loop w1 r (S idx) ll total None else (false, w1)
  | AKeep => cleanup_loop w r (S idx) ll total None
  end.
Proof.
  cbn [cleanup_loop]. unfold act, ext_is. destruct (Nat.leb total idx); [reflexivity|].
  destruct (Nat.leb ll idx); [|reflexivity]. destruct (extension n) as [e|]; [|reflexivity].
  destruct (beq e gz_sfx); reflexivity.
Qed.

Definition outcome (a : action) (f f' : fs) (n : bytes) : Prop :=
  match a with
  | AKeep => same_at f f' n
  | ACompress => archived f f' n
  | ARemove => lookup f' n = None
  end.

Lemma cleanup_step w n r idx ll total :
  quiet w -> fs_wf (wfs w) -> (act ll total idx n <> AKeep -> lookup (wfs w) n <> None) ->
  (act ll total idx n = ACompress -> not_dir (wfs w) (gz_name n)) ->
  exists w1, cleanup_loop w (n :: r) idx ll total None = cleanup_loop w1 r (S idx) ll total None
    /\ same_env w w1 /\ fs_wf (wfs w1)
    /\ outcome (act ll total idx n) (wfs w) (wfs w1) n
    /\ (forall m, m <> n -> (act ll total idx n = ACompress -> m <> gz_name n) -> same_at (wfs w) (wfs w1) m).
Proof.
  intros Q W Hex Hnd. rewrite cleanup_loop_cons. destruct (act ll total idx n) eqn:EA; cbn [outcome].
  - exists w. split; [reflexivity|]. split; [apply same_env_refl; exact Q|]. split; [exact W|].
    split; [apply same_at_refl|]. intros m _ _. apply same_at_refl.
  - destruct (lookup (wfs w) n) as [i|] eqn:En; [|exfalso; apply Hex; [discriminate | reflexivity]].
    destruct (compress_file_quiet w n i Q W En (Hnd eq_refl)) as (w1 & j & E & S1 & W1 & Ln & Lg & Ij & _ & _ & Fr & _).
    exists w1. rewrite E. split; [reflexivity|]. split; [exact S1|]. split; [exact W1|]. split.
    + exists i, j. rewrite Ij. cbn [fdata fgz fdir]. repeat split; auto.
    + intros m H1 H2. apply Fr; auto.
  - destruct (lookup (wfs w) n) as [i|] eqn:En; [|exfalso; apply Hex; [discriminate | reflexivity]].
    destruct (p_remove_quiet w n i Q En) as (w1 & E & F1 & S1). destruct (unlink_spec (wfs w) n) as (UI & UN & UO).
    exists w1. rewrite E. split; [reflexivity|]. split; [exact S1|]. split; [rewrite F1; apply wf_unlink; exact W|].
    split; [rewrite F1; exact UN|].
    intros m H1 _. split; [rewrite F1; apply UO; exact H1|].
    unfold file_of. rewrite F1, UO by assumption. destruct (lookup (wfs w) m); reflexivity.
Qed.

(* The loop, described by the action at every position.  Hypotheses:
   - the listed names are pairwise different;
   - a name that is to be removed or compressed exists;
   - the archive name of an entry that is to be compressed is not itself listed (otherwise the compression
     overwrites another entry, or a later step removes the fresh archive), and is not a directory. *)
Theorem cleanup_loop_act ll total : forall files w idx,
  quiet w -> fs_wf (wfs w) -> NoDup files ->
  (forall k n, nth_error files k = Some n -> act ll total (idx + k) n <> AKeep -> lookup (wfs w) n <> None) ->
  (forall k n, nth_error files k = Some n -> act ll total (idx + k) n = ACompress -> ~ In (gz_name n) files) ->
  (forall k n, nth_error files k = Some n -> act ll total (idx + k) n = ACompress -> not_dir (wfs w) (gz_name n)) ->
  exists w', cleanup_loop w files idx ll total None = (true, w') /\ same_env w w' /\ fs_wf (wfs w')
    /\ (forall k n, nth_error files k = Some n -> outcome (act ll total (idx + k) n) (wfs w) (wfs w') n)
    /\ (forall m, ~ In m files ->
          (forall k n, nth_error files k = Some n -> act ll total (idx + k) n = ACompress -> m <> gz_name n) ->
          same_at (wfs w) (wfs w') m).
Proof.
  induction files as [|n r IH]; intros w idx Q W ND Hex Hcl Hnd.
  - exists w. split; [reflexivity|]. split; [apply same_env_refl; exact Q|]. split; [exact W|]. split.
    + intros [|k] n H; discriminate.
    + intros m _ _. apply same_at_refl.
  - inversion ND as [|n' r' Hnr Hr]; subst n' r'.
    assert (A0 : act ll total (idx + 0) n = act ll total idx n) by (rewrite Nat.add_0_r; reflexivity).
    assert (AS : forall k m, act ll total (idx + S k) m = act ll total (S idx + k) m) by (intros k m; rewrite Nat.add_succ_r; reflexivity).
    destruct (cleanup_step w n r idx ll total Q W) as (w1 & E1 & S1 & W1 & O1 & Fr1).
    { rewrite <- A0. apply (Hex 0 n eq_refl). }
    { rewrite <- A0. apply (Hnd 0 n eq_refl). }
    assert (Tail : forall k m, nth_error r k = Some m -> same_at (wfs w) (wfs w1) m).
    { intros k m Hk. apply Fr1.
      - intros ->. apply Hnr. eapply nth_error_In; exact Hk.
      - intros EA ->. apply (Hcl 0 n eq_refl); [rewrite A0; exact EA|]. right. eapply nth_error_In; exact Hk. }
    destruct (IH w1 (S idx) (proj1 S1) W1 Hr) as (w' & E' & S' & W' & O' & Fr').
    { intros k m Hk Ha. rewrite (proj1 (Tail k m Hk)). apply (Hex (S k) m Hk). rewrite AS. exact Ha. }
    { intros k m Hk Ha Hin. apply (Hcl (S k) m Hk); [rewrite AS; exact Ha | right; exact Hin]. }
    { intros k m Hk Ha. rewrite <- AS in Ha. apply (not_dir_same_at (wfs w)); [|apply (Hnd (S k) m Hk Ha)].
      apply Fr1.
      - intros Hg. apply (Hcl (S k) m Hk Ha). left. symmetry. exact Hg.
      - intros _ Hg. apply gz_name_inj in Hg. subst m. apply Hnr. eapply nth_error_In; exact Hk. }
    exists w'. rewrite E1. split; [exact E'|]. split; [eapply same_env_trans; eassumption|]. split; [exact W'|].
    split.
    + intros [|k] m Hk.
      * cbn [nth_error] in Hk. injection Hk as <-. rewrite A0.
        assert (Tn : same_at (wfs w1) (wfs w') n).
        { apply Fr'; [exact Hnr|]. intros k' n' Hk' Ha' ->. apply (Hcl (S k') n' Hk'); [rewrite AS; exact Ha' | left; reflexivity]. }
        destruct (act ll total idx n) eqn:EA; cbn [outcome] in *.
        -- eapply same_at_trans; eassumption.
        -- apply (archived_after _ _ _ _ O1 Tn). apply Fr'.
           ++ intros Hin. apply (Hcl 0 n eq_refl); [exact A0 | right; exact Hin].
           ++ intros k' n' Hk' _ Hg. apply gz_name_inj in Hg. subst n'. apply Hnr. eapply nth_error_In; exact Hk'.
        -- rewrite (proj1 Tn). exact O1.
      * cbn [nth_error] in Hk. specialize (O' k m Hk). rewrite AS. pose proof (Tail k m Hk) as Sm.
        destruct (act ll total (S idx + k) m); cbn [outcome] in *.
        -- eapply same_at_trans; eassumption.
        -- eapply archived_before; eassumption.
        -- exact O'.
    + intros m Hm Hc.
      assert (Hmn : m <> n) by (intros ->; apply Hm; left; reflexivity).
      assert (Hmr : ~ In m r) by (intros Hin; apply Hm; right; exact Hin).
      apply (same_at_trans _ (wfs w1)).
      * apply Fr1; [exact Hmn|]. intros EA. apply (Hc 0 n eq_refl). rewrite A0. exact EA.
      * apply Fr'; [exact Hmr|]. intros k n' Hk Ha. apply (Hc (S k) n' Hk). rewrite AS. exact Ha.
Qed.
Print Assumptions cleanup_loop_act.

(* the same by positions (the listing is newest first: position 0 is the newest file) *)
Theorem cleanup_loop_spec w files index ll total :
  quiet w -> fs_wf (wfs w) -> NoDup files ->
  (forall k n, nth_error files k = Some n ->
               total <= index + k \/ (ll <= index + k /\ ext_is n gz_sfx = false) -> lookup (wfs w) n <> None) ->
  (forall k n, nth_error files k = Some n -> ll <= index + k < total -> ext_is n gz_sfx = false ->
               ~ In (gz_name n) files) ->
  (forall k n, nth_error files k = Some n -> ll <= index + k < total -> ext_is n gz_sfx = false ->
               not_dir (wfs w) (gz_name n)) ->
  exists w', cleanup_loop w files index ll total None = (true, w') /\ same_env w w' /\ fs_wf (wfs w')
    /\ (forall k n, nth_error files k = Some n ->
          (* from total on: removed *)
          (total <= index + k -> lookup (wfs w') n = None)
          (* before log_limit, or already an archive: untouched *)
          /\ (index + k < total -> index + k < ll \/ ext_is n gz_sfx = true -> same_at (wfs w) (wfs w') n)
          (* in between: compressed *)
          /\ (ll <= index + k < total -> ext_is n gz_sfx = false -> archived (wfs w) (wfs w') n))
    /\ (forall m, ~ In m files ->
          (forall k n, nth_error files k = Some n -> ll <= index + k < total -> ext_is n gz_sfx = false -> m <> gz_name n) ->
          same_at (wfs w) (wfs w') m).
Proof.
  intros Q W ND Hex Hcl Hnd.
  destruct (cleanup_loop_act ll total files w index Q W ND) as (w' & E & S & W' & O & Fr).
  - intros k n Hk Ha. apply (Hex k n Hk). destruct (act ll total (index + k) n) eqn:EA; [congruence| |].
    + apply act_compress in EA. right. split; [lia | apply EA].
    + apply act_remove in EA. left. exact EA.
  - intros k n Hk Ha. apply act_compress in Ha. apply (Hcl k n Hk); apply Ha.
  - intros k n Hk Ha. apply act_compress in Ha. apply (Hnd k n Hk); apply Ha.
  - exists w'. split; [exact E|]. split; [exact S|]. split; [exact W'|]. split.
    + intros k n Hk. specialize (O k n Hk). split; [|split].
      * intros H. rewrite (proj2 (act_remove ll total (index + k) n) H) in O. exact O.
      * intros H1 H2. rewrite (proj2 (act_keep ll total (index + k) n) (conj H1 H2)) in O. exact O.
      * intros H1 H2. rewrite (proj2 (act_compress ll total (index + k) n) (conj H1 H2)) in O. exact O.
    + intros m Hm Hc. apply Fr; [exact Hm|]. intros k n Hk Ha. apply act_compress in Ha. apply (Hc k n Hk); apply Ha.
Qed.
Print Assumptions cleanup_loop_spec.

(* ------------------------------------------------------------------ 3. what is left: the first entries of the listing *)
Lemma nth_error_skipn_add {A} (l : list A) a k : nth_error (skipn a l) k = nth_error l (a + k).
Proof. revert l; induction a as [|a IH]; intros [|y l]; cbn [skipn Nat.add nth_error]; auto. destruct k; reflexivity. Qed.
Lemma In_firstn_nth {A} (l : list A) c x : In x (firstn c l) -> exists k, k < c /\ nth_error l k = Some x.
Proof.
  revert c; induction l as [|y l IH]; intros [|c] H; cbn [firstn In] in H; try contradiction.
  destruct H as [->|H]; [exists 0; split; [lia | reflexivity]|].
  destruct (IH c H) as (k & Hk & E). exists (S k). split; [lia | exact E].
Qed.
Lemma nth_In_firstn {A} (l : list A) c k x : nth_error l k = Some x -> k < c -> In x (firstn c l).
Proof.
  revert c k; induction l as [|y l IH]; intros c k H Hk; [destruct k; discriminate|].
  destruct c as [|c]; [lia|]. destruct k as [|k]; cbn [nth_error] in H; cbn [firstn].
  - injection H as ->. left; reflexivity.
  - right. apply (IH c k H). lia.
Qed.
Lemma In_skipn_nth {A} (l : list A) c x : In x (skipn c l) -> exists k, c <= k /\ nth_error l k = Some x.
Proof.
  intros H. apply In_nth_error in H. destruct H as [k H]. rewrite nth_error_skipn_add in H.
  exists (c + k). split; [lia | exact H].
Qed.
Lemma nth_In_skipn {A} (l : list A) c k x : nth_error l k = Some x -> c <= k -> In x (skipn c l).
Proof.
  intros H Hk. apply (nth_error_In _ (k - c)). rewrite nth_error_skipn_add. replace (c + (k - c)) with k by lia. exact H.
Qed.
Lemma In_zone_nth {A} (l : list A) a c x : In x (firstn c (skipn a l)) -> exists k, a <= k < a + c /\ nth_error l k = Some x.
Proof.
  intros H. apply In_firstn_nth in H. destruct H as (k & Hk & E). rewrite nth_error_skipn_add in E.
  exists (a + k). split; [lia | exact E].
Qed.
Lemma nth_In_zone {A} (l : list A) a c k x : nth_error l k = Some x -> a <= k < a + c -> In x (firstn c (skipn a l)).
Proof.
  intros H Hk. apply (nth_In_firstn _ c (k - a)); [|lia]. rewrite nth_error_skipn_add.
  replace (a + (k - a)) with k by lia. exact H.
Qed.
Lemma skipn_skipn' {A} (l : list A) a b : skipn a (skipn b l) = skipn (b + a) l.
Proof. revert l; induction b as [|b IH]; intros [|y l]; cbn [skipn Nat.add]; auto. destruct a; reflexivity. Qed.

Lemma filter_all_true {A} (p : A -> bool) l : (forall x, In x l -> p x = true) -> filter p l = l.
Proof. induction l as [|y l IH]; intros H; cbn [filter]; [reflexivity|]. rewrite (H y) by (left; reflexivity). f_equal. apply IH. intros x Hx. apply H. right; exact Hx. Qed.
Lemma filter_all_false {A} (p : A -> bool) l : (forall x, In x l -> p x = false) -> filter p l = [].
Proof. induction l as [|y l IH]; intros H; cbn [filter]; [reflexivity|]. rewrite (H y) by (left; reflexivity). apply IH. intros x Hx. apply H. right; exact Hx. Qed.
Lemma filter_length_le' {A} (p : A -> bool) l : length (filter p l) <= length l.
Proof. induction l as [|y l IH]; cbn [filter length]; [lia|]. destruct (p y); cbn [length]; lia. Qed.
Lemma filter_filter' {A} (p q : A -> bool) l : filter p (filter q l) = filter (fun x => q x && p x) l.
Proof. induction l as [|y l IH]; cbn [filter]; [reflexivity|]. destruct (q y); cbn [filter andb]; [destruct (p y)|]; rewrite IH; reflexivity. Qed.

(* the three parts of the listing *)
Definition keep_part (ll : nat) (files : list bytes) : list bytes := firstn ll files.
Definition zone_part (ll total : nat) (files : list bytes) : list bytes := firstn (total - ll) (skipn ll files).
Definition gone_part (total : nat) (files : list bytes) : list bytes := skipn total files.
Definition not_gz (n : bytes) : bool := negb (ext_is n gz_sfx).
(* the name under which an entry of the middle part survives *)
Definition arch (n : bytes) : bytes := if ext_is n gz_sfx then n else gz_name n.
Definition exists_in (f : fs) (n : bytes) : bool := match lookup f n with Some _ => true | None => false end.

Lemma parts_split ll total files : ll <= total ->
  files = keep_part ll files ++ zone_part ll total files ++ gone_part total files
  /\ firstn total files = keep_part ll files ++ zone_part ll total files.
Proof.
  intros H. unfold keep_part, zone_part, gone_part.
  assert (E : skipn total files = skipn (total - ll) (skipn ll files)).
  { rewrite skipn_skipn'. f_equal. lia. }
  split.
  - rewrite E, firstn_skipn, firstn_skipn. reflexivity.
  - replace total with (ll + (total - ll)) at 1 by lia. generalize (total - ll) as c. clear.
    revert files; induction ll as [|ll IH]; intros files c; [reflexivity|].
    destruct files as [|y files]; cbn [Nat.add firstn skipn app]; [destruct c; reflexivity|]. f_equal. apply IH.
Qed.

(* The whole loop, started at position 0 with log_limit <= total (cleanup_impl: total = log_limit + compress limit):
   the first log_limit entries stay as they are, the next total - log_limit entries stay as archives
   (those that are not archives yet are compressed: content preserved, original gone), the rest is deleted. *)
Theorem cleanup_loop_kept w files ll total :
  quiet w -> fs_wf (wfs w) -> NoDup files -> ll <= total ->
  (forall n, In n (zone_part ll total files) -> ext_is n gz_sfx = false -> lookup (wfs w) n <> None) ->
  (forall n, In n (gone_part total files) -> lookup (wfs w) n <> None) ->
  (forall n, In n (zone_part ll total files) -> ext_is n gz_sfx = false -> ~ In (gz_name n) files) ->
  (forall n, In n (zone_part ll total files) -> ext_is n gz_sfx = false -> not_dir (wfs w) (gz_name n)) ->
  exists w', cleanup_loop w files 0 ll total None = (true, w') /\ same_env w w' /\ fs_wf (wfs w')
    /\ length (keep_part ll files) <= ll /\ length (zone_part ll total files) <= total - ll
    /\ (forall n, In n (keep_part ll files) -> same_at (wfs w) (wfs w') n)
    /\ (forall n, In n (zone_part ll total files) ->
          if ext_is n gz_sfx then same_at (wfs w) (wfs w') n else archived (wfs w) (wfs w') n)
    /\ (forall n, In n (gone_part total files) -> lookup (wfs w') n = None)
    /\ (forall m, ~ In m files -> ~ In m (map gz_name (filter not_gz (zone_part ll total files))) ->
          same_at (wfs w) (wfs w') m).
Proof.
  intros Q W ND Hle HexZ HexG Hcl Hnd.
  assert (Zone : forall k n, nth_error files k = Some n -> ll <= k < total -> In n (zone_part ll total files)).
  { intros k n Hk H. apply (nth_In_zone _ _ _ k); [exact Hk | lia]. }
  destruct (cleanup_loop_spec w files 0 ll total Q W ND) as (w' & E & S & W' & O & Fr).
  - intros k n Hk. cbn [Nat.add]. intros [H|[H1 H2]].
    + apply HexG. apply (nth_In_skipn _ _ k); assumption.
    + destruct (Nat.lt_ge_cases k total) as [Hlt|Hge].
      * apply HexZ; [apply (Zone k n Hk); lia | exact H2].
      * apply HexG. apply (nth_In_skipn _ _ k); assumption.
  - intros k n Hk. cbn [Nat.add]. intros H1 H2. apply Hcl; [apply (Zone k n Hk H1) | exact H2].
  - intros k n Hk. cbn [Nat.add]. intros H1 H2. apply Hnd; [apply (Zone k n Hk H1) | exact H2].
  - exists w'. split; [exact E|]. split; [exact S|]. split; [exact W'|].
    split; [apply firstn_le_length|]. split; [apply firstn_le_length|].
    split; [|split; [|split]].
    + intros n Hn. apply In_firstn_nth in Hn. destruct Hn as (k & Hk & En).
      destruct (O k n En) as (_ & K & _). cbn [Nat.add] in K. apply K; [lia | left; exact Hk].
    + intros n Hn. apply In_zone_nth in Hn. destruct Hn as (k & Hk & En).
      destruct (O k n En) as (_ & K & C). cbn [Nat.add] in K, C.
      destruct (ext_is n gz_sfx) eqn:G; [apply K; [lia | right; reflexivity] | apply C; [lia | reflexivity]].
    + intros n Hn. apply In_skipn_nth in Hn. destruct Hn as (k & Hk & En).
      destruct (O k n En) as (R & _ & _). apply R. exact Hk.
    + intros m Hm Hz. apply Fr; [exact Hm|]. intros k n Hk H1 H2 ->. apply Hz. apply in_map. apply filter_In.
      split; [apply (Zone k n Hk H1) | unfold not_gz; rewrite H2; reflexivity].
Qed.
Print Assumptions cleanup_loop_kept.

(* In terms of counts.  The family: the listed names and the archives the loop creates.  What is left of it after the
   loop is  survivors = (the first ll entries) ++ (the next total - ll entries, as archives):  at most ll files
   that are not archives, at most total - ll archives from the middle part; nothing else of the family exists. *)
Theorem cleanup_loop_counts w files ll total w' :
  quiet w -> fs_wf (wfs w) -> NoDup files -> ll <= total ->
  (forall n, In n files -> lookup (wfs w) n <> None) ->
  (forall n, In n (zone_part ll total files) -> ext_is n gz_sfx = false -> ~ In (gz_name n) files) ->
  (forall n, In n (zone_part ll total files) -> ext_is n gz_sfx = false -> not_dir (wfs w) (gz_name n)) ->
  cleanup_loop w files 0 ll total None = (true, w') ->
  let keep := keep_part ll files in
  let zone := zone_part ll total files in
  let survivors := keep ++ map arch zone in
  (* the kept entries are the first ones of the listing *)
  firstn total files = keep ++ zone
  (* the survivors exist ... *)
  /\ (forall m, In m survivors -> lookup (wfs w') m <> None)
  (* ... and nothing else of the family *)
  /\ (forall m, In m files \/ In m (map gz_name (filter not_gz zone)) -> lookup (wfs w') m <> None -> In m survivors)
  /\ filter (exists_in (wfs w')) files = keep ++ filter (fun n => ext_is n gz_sfx) zone
  (* the numbers *)
  /\ length keep <= ll /\ length (map arch zone) <= total - ll /\ length survivors <= total
  /\ length (filter (fun n => exists_in (wfs w') n && not_gz n) files) <= ll
  (* a survivor of the middle part holds the content of its entry, and is a complete archive if it is new *)
  /\ (forall n, In n zone -> exists fl fl', file_of (wfs w) n = Some fl /\ file_of (wfs w') (arch n) = Some fl'
                                          /\ fdata fl' = fdata fl /\ (ext_is n gz_sfx = false -> fgz fl' = 1%N /\ fdir fl' = false))
  (* ... and has the extension gz (the empty file name aside) *)
  /\ (~ In [] files -> forall m, In m (map arch zone) -> ext_is m gz_sfx = true).
Proof.
  intros Q W ND Hle Hex Hcl Hnd E keep zone survivors.
  destruct (parts_split ll total files Hle) as [Split First]. fold keep zone in Split, First.
  assert (InK : forall n, In n keep -> In n files) by (intros n H; rewrite Split; apply in_or_app; left; exact H).
  assert (InZ : forall n, In n zone -> In n files) by (intros n H; rewrite Split; apply in_or_app; right; apply in_or_app; left; exact H).
  assert (InG : forall n, In n (gone_part total files) -> In n files) by (intros n H; rewrite Split; apply in_or_app; right; apply in_or_app; right; exact H).
  destruct (cleanup_loop_kept w files ll total Q W ND Hle) as (w'' & E' & _ & _ & LK & LZ & K & Z & G & _).
  { intros n H _. apply Hex, InZ, H. } { intros n H. apply Hex, InG, H. } { exact Hcl. } { exact Hnd. }
  rewrite E in E'. injection E' as <-. fold keep in LK, K. fold zone in LZ, Z.
  assert (ExK : forall n, In n keep -> lookup (wfs w') n <> None).
  { intros n H. rewrite (proj1 (K n H)). apply Hex, InK, H. }
  assert (ExZ : forall n, In n zone -> lookup (wfs w') (arch n) <> None /\ exists_in (wfs w') n = ext_is n gz_sfx).
  { intros n H. specialize (Z n H). unfold arch, exists_in. destruct (ext_is n gz_sfx).
    - rewrite (proj1 Z). pose proof (Hex n (InZ n H)) as X. destruct (lookup (wfs w) n); [split; [discriminate | reflexivity] | congruence].
    - destruct Z as (i & j & _ & Ln & Lg & _). rewrite Lg, Ln. split; [discriminate | reflexivity]. }
  assert (ExG : forall n, In n (gone_part total files) -> exists_in (wfs w') n = false).
  { intros n H. unfold exists_in. rewrite (G n H). reflexivity. }
  assert (ExK' : forall n, In n keep -> exists_in (wfs w') n = true).
  { intros n H. unfold exists_in. pose proof (ExK n H). destruct (lookup (wfs w') n); congruence. }
  split; [exact First|].
  split.
  { intros m Hm. apply in_app_or in Hm. destruct Hm as [Hm|Hm]; [apply ExK; exact Hm|].
    apply in_map_iff in Hm. destruct Hm as (n & <- & Hn). apply ExZ. exact Hn. }
  split.
  { intros m [Hm|Hm] Hl.
    - rewrite Split in Hm. apply in_app_or in Hm. destruct Hm as [Hm|Hm]; [apply in_or_app; left; exact Hm|].
      apply in_app_or in Hm. destruct Hm as [Hm|Hm].
      + apply in_or_app. right. apply in_map_iff. exists m. split; [|exact Hm].
        destruct (ExZ m Hm) as [_ X]. unfold arch, exists_in in *. destruct (ext_is m gz_sfx); [reflexivity|].
        destruct (lookup (wfs w') m); [discriminate | congruence].
      + rewrite (G m Hm) in Hl. congruence.
    - apply in_or_app. right. apply in_map_iff in Hm. destruct Hm as (n & <- & Hn). apply filter_In in Hn. destruct Hn as [Hn G'].
      apply in_map_iff. exists n. split; [|exact Hn]. unfold arch, not_gz in *. destruct (ext_is n gz_sfx); [discriminate | reflexivity]. }
  split.
  { rewrite Split at 1. rewrite !filter_app. rewrite (filter_all_true _ keep ExK'), (filter_all_false _ _ ExG), app_nil_r.
    f_equal. apply filter_ext_in. intros n Hn. apply ExZ. exact Hn. }
  split; [exact LK|]. split; [rewrite map_length; exact LZ|].
  split; [unfold survivors; rewrite app_length, map_length; lia|].
  split.
  { rewrite Split at 1. rewrite !filter_app, !app_length.
    rewrite (filter_all_false _ zone), (filter_all_false _ (gone_part total files)).
    - cbn [length]. pose proof (filter_length_le' (fun n => exists_in (wfs w') n && not_gz n) keep). lia.
    - intros n Hn. rewrite (ExG n Hn). reflexivity.
    - intros n Hn. rewrite (proj2 (ExZ n Hn)). unfold not_gz. destruct (ext_is n gz_sfx); reflexivity. }
  split.
  { intros n Hn. specialize (Z n Hn). unfold arch. destruct (ext_is n gz_sfx).
    - pose proof (Hex n (InZ n Hn)) as X. destruct Z as [_ F]. rewrite F. unfold file_of.
      destruct (lookup (wfs w) n) as [i|]; [|congruence]. exists (inode (wfs w) i), (inode (wfs w) i).
      repeat split; auto; discriminate.
    - destruct Z as (i & j & Li & _ & Lg & D & Gz & Dr). unfold file_of. rewrite Li, Lg.
      exists (inode (wfs w) i), (inode (wfs w') j). repeat split; auto. }
  intros Hne m Hm. apply in_map_iff in Hm. destruct Hm as (n & <- & Hn). unfold arch.
  destruct (ext_is n gz_sfx) eqn:G'; [exact G'|]. apply ext_is_gz_name. intros ->. apply Hne, InZ, Hn.
Qed.
Print Assumptions cleanup_loop_counts.

(* ------------------------------------------------------------------ 4. remove_redundant *)
Definition without (red files : list bytes) : list bytes := filter (fun m => negb (existsb (beq m) red)) files.

Lemma in_without red files m : In m (without red files) <-> In m files /\ ~ In m red.
Proof.
  unfold without. rewrite filter_In. split; intros [H1 H2]; (split; [exact H1|]).
  - intros Hin. apply negb_true_iff in H2. apply not_true_iff_false in H2. apply H2. apply existsb_exists.
    exists m. split; [exact Hin | apply beq_refl].
  - apply negb_true_iff. apply not_true_iff_false. intros H. apply existsb_exists in H. destruct H as (x & Hx & Hb).
    apply beq_eq in Hb. subst x. apply H2. exact Hx.
Qed.

(* every name of red must exist (a missing one makes remove_file fail, and the cleanup with it) and be named once *)
Theorem remove_redundant_spec : forall red w files,
  quiet w -> fs_wf (wfs w) -> NoDup red -> (forall n, In n red -> lookup (wfs w) n <> None) ->
  exists w', remove_redundant w red files = (true, w', without red files)
    /\ same_env w w' /\ fs_wf (wfs w')
    /\ (forall n, In n red -> lookup (wfs w') n = None)
    /\ (forall m, ~ In m red -> same_at (wfs w) (wfs w') m).
Proof.
  induction red as [|n r IH]; intros w files Q W ND Hex.
  - exists w. cbn [remove_redundant]. unfold without. cbn [existsb negb]. rewrite filter_all_true by reflexivity.
    split; [reflexivity|]. split; [apply same_env_refl; exact Q|]. split; [exact W|]. split; [intros n []|].
    intros m _. apply same_at_refl.
  - inversion ND as [|n' r' Hnr Hr]; subst n' r'.
    destruct (lookup (wfs w) n) as [i|] eqn:En; [|exfalso; apply (Hex n); [left; reflexivity | exact En]].
    destruct (p_remove_quiet w n i Q En) as (w1 & E1 & F1 & S1). destruct (unlink_spec (wfs w) n) as (UI & UN & UO).
    assert (Fr1 : forall m, m <> n -> same_at (wfs w) (wfs w1) m).
    { intros m H1. split; [rewrite F1; apply UO; exact H1|].
      unfold file_of. rewrite F1, UO by assumption. destruct (lookup (wfs w) m); reflexivity. }
    destruct (IH w1 (filter (fun m => negb (beq m n)) files) (proj1 S1)) as (w' & E' & S' & W' & R' & Fr').
    { rewrite F1. apply wf_unlink. exact W. } { exact Hr. }
    { intros m Hm. rewrite (proj1 (Fr1 m (fun H => Hnr (eq_ind m (fun x => In x r) Hm n H)))). apply Hex. right; exact Hm. }
    exists w'. cbn [remove_redundant]. rewrite E1, E'. split.
    { f_equal. unfold without. rewrite filter_filter'. apply filter_ext_in. intros m _. cbn [existsb]. rewrite negb_orb. reflexivity. }
    split; [eapply same_env_trans; eassumption|]. split; [exact W'|]. split.
    + intros m [<-|Hm]; [|apply R'; exact Hm]. rewrite (proj1 (Fr' n Hnr)), F1. exact UN.
    + intros m Hm. apply (same_at_trans _ (wfs w1)).
      * apply Fr1. intros ->. apply Hm. left; reflexivity.
      * apply Fr'. intros Hin. apply Hm. right; exact Hin.
Qed.
Print Assumptions remove_redundant_spec.

(* After the redundant archives have been taken out of the listing, no listed name has its archive name listed too:
   the hypothesis of the loop theorems holds (the empty file name aside, whose archive name ".gz" has no extension). *)
Lemma no_clash_without_redundant files n : ~ In [] files ->
  In n (without (redundant_gz files) files) -> ~ In (gz_name n) (without (redundant_gz files) files).
Proof.
  intros Hne Hn Hg. apply in_without in Hn, Hg. destruct Hn as [Hn _], Hg as [Hg Hr]. apply Hr.
  assert (n <> []) by (intros ->; apply Hne; exact Hn).
  unfold redundant_gz. apply filter_In. split; [exact Hg|].
  rewrite ext_is_gz_name, strip_gz_name by assumption. cbn [andb]. apply existsb_exists.
  exists n. split; [exact Hn | apply beq_refl].
Qed.

(* remove_redundant followed by the loop, as in cleanup_impl: the hypotheses are about the listing only
   (pairwise different existing names, none empty, no archive name of a listed name is a directory). *)
Theorem cleanup_after_listing w files ll total :
  quiet w -> fs_wf (wfs w) -> NoDup files -> ~ In [] files -> ll <= total ->
  (forall n, In n files -> lookup (wfs w) n <> None) ->
  (forall n, In n files -> not_dir (wfs w) (gz_name n)) ->
  let red := redundant_gz files in
  let files' := without red files in
  exists w1 w', remove_redundant w red files = (true, w1, files')
    /\ cleanup_loop w1 files' 0 ll total None = (true, w') /\ same_env w w' /\ fs_wf (wfs w')
    (* a redundant archive is gone - unless its original is compressed now, which creates it anew (see the zone) *)
    /\ (forall n, In n red -> ~ In n (map gz_name (filter not_gz (zone_part ll total files'))) -> lookup (wfs w') n = None)
    /\ (forall n, In n (keep_part ll files') -> same_at (wfs w) (wfs w') n)
    /\ (forall n, In n (zone_part ll total files') ->
          if ext_is n gz_sfx then same_at (wfs w) (wfs w') n else archived (wfs w) (wfs w') n)
    /\ (forall n, In n (gone_part total files') -> lookup (wfs w') n = None)
    /\ length (keep_part ll files') <= ll /\ length (zone_part ll total files') <= total - ll
    /\ (forall m, ~ In m files -> ~ In m (map gz_name (filter not_gz (zone_part ll total files'))) ->
          same_at (wfs w) (wfs w') m).
Proof.
  intros Q W ND Hne Hle Hex Hnd red files'.
  assert (Rin : forall n, In n red -> In n files) by (intros n H; apply filter_In in H; apply H).
  destruct (remove_redundant_spec red w files Q W) as (w1 & E1 & S1 & W1 & R1 & Fr1).
  { apply NoDup_filter. exact ND. } { intros n H. apply Hex, Rin, H. }
  fold files' in E1.
  assert (In' : forall n, In n files' -> In n files /\ ~ In n red) by (intros n H; apply in_without; exact H).
  destruct (parts_split ll total files' Hle) as [Split _].
  assert (InK : forall n, In n (keep_part ll files') -> In n files') by (intros n H; rewrite Split; apply in_or_app; left; exact H).
  assert (InZ : forall n, In n (zone_part ll total files') -> In n files') by (intros n H; rewrite Split; apply in_or_app; right; apply in_or_app; left; exact H).
  assert (InG : forall n, In n (gone_part total files') -> In n files') by (intros n H; rewrite Split; apply in_or_app; right; apply in_or_app; right; exact H).
  assert (Ex1 : forall n, In n files' -> lookup (wfs w1) n <> None).
  { intros n H. destruct (In' n H) as [H1 H2]. rewrite (proj1 (Fr1 n H2)). apply Hex. exact H1. }
  destruct (cleanup_loop_kept w1 files' ll total (proj1 S1) W1) as (w' & E' & S' & W' & LK & LZ & K & Z & G & Fr').
  { apply NoDup_filter. exact ND. } { exact Hle. }
  { intros n H _. apply Ex1, InZ, H. } { intros n H. apply Ex1, InG, H. }
  { intros n H _. apply no_clash_without_redundant; [exact Hne | apply InZ; exact H]. }
  { intros n H _. destruct (in_dec (list_eq_dec N.eq_dec) (gz_name n) red) as [Hr|Hr].
    - apply not_dir_missing. apply R1. exact Hr.
    - apply (not_dir_same_at (wfs w)); [apply Fr1; exact Hr | apply Hnd, (In' n (InZ n H))]. }
  exists w1, w'. split; [exact E1|]. split; [exact E'|]. split; [eapply same_env_trans; eassumption|]. split; [exact W'|].
  assert (RG : forall n, In n red -> ~ In n files') by (intros n H H'; apply (In' n H'); exact H).
  assert (Same1 : forall n, In n files' -> same_at (wfs w) (wfs w1) n) by (intros n H; apply Fr1, (In' n H)).
  split; [intros n Hn Hz; rewrite <- (R1 n Hn); apply Fr'; [apply RG; exact Hn | exact Hz]|].
  split; [intros n Hn; apply (same_at_trans _ (wfs w1)); [apply Same1, InK, Hn | apply K, Hn]|].
  split.
  { intros n Hn. specialize (Z n Hn). pose proof (Same1 n (InZ n Hn)) as S0. destruct (ext_is n gz_sfx).
    - eapply same_at_trans; eassumption.
    - eapply archived_before; eassumption. }
  split; [exact G|]. split; [exact LK|]. split; [exact LZ|].
  intros m Hm Hz. apply (same_at_trans _ (wfs w1)).
  - apply Fr1. intros H. apply Hm, Rin, H.
  - apply Fr'; [|exact Hz]. intros H. apply Hm, (In' m H).
Qed.
Print Assumptions cleanup_after_listing.

(* ------------------------------------------------------------------ examples *)
From Coq Require String.
Import String.StringSyntax.
Delimit Scope string_scope with string.
Definition mkfile (f : fs) (name data : bytes) (gz : N) (born : Z) : fs :=
  let '(f1, i) := create_file f name gz born in append_ino f1 i data.
Lemma wf_mkfile f name data gz born : fs_wf f -> lookup f name = None -> fs_wf (mkfile f name data gz born).
Proof.
  intros W H. unfold mkfile. pose proof (wf_create f name gz born W H) as W1.
  destruct (create_file f name gz born) as [f1 i]. apply wf_append. exact W1.
Qed.
Definition world_of (f : fs) : world :=
  {| wfs := f; wnow := 100%Z; woff := 0%Z; wfaults := []; wkill := None; werrs := []; wlink := None; wacts := 0 |}.

(* four files, newest first; the third is an archive already.  log_limit = 1, total = 3 *)
Definition n3 : bytes := bs "app_r00003.log"%string.
Definition n2 : bytes := bs "app_r00002.log"%string.
Definition n1 : bytes := bs "app_r00001.log.gz"%string.
Definition n0 : bytes := bs "app_r00000.log"%string.
Definition fs4 : fs :=
  mkfile (mkfile (mkfile (mkfile empty_fs n0 (bs "zero"%string) 0 10) n1 (bs "one"%string) 1 20) n2 (bs "two"%string) 0 30)
         n3 (bs "three"%string) 0 40.
Definition files4 : list bytes := [n3; n2; n1; n0].

Lemma fs4_wf : fs_wf fs4.
Proof. unfold fs4. repeat (apply wf_mkfile; [|vm_compute; reflexivity]). apply wf_empty. Qed.
Lemma files4_nodup : NoDup files4.
Proof.
  unfold files4. repeat (constructor; [cbn [In]; intros H; repeat (destruct H as [H|H]; [vm_compute in H; discriminate H|]); exact H|]).
  constructor.
Qed.

(* the hypotheses of cleanup_loop_spec hold for this world (they are not vacuous) ... *)
Example cleanup_loop_spec_instance :
  exists w', cleanup_loop (world_of fs4) files4 0 1 3 None = (true, w') /\ same_env (world_of fs4) w' /\ fs_wf (wfs w')
    /\ same_at fs4 (wfs w') n3 /\ archived fs4 (wfs w') n2 /\ same_at fs4 (wfs w') n1 /\ lookup (wfs w') n0 = None.
Proof.
  destruct (cleanup_loop_spec (world_of fs4) files4 0 1 3) as (w' & E & S & W' & O & _).
  - split; reflexivity.
  - exact fs4_wf.
  - exact files4_nodup.
  - intros k n Hk _. do 4 (destruct k as [|k]; [injection Hk as <-; vm_compute; discriminate|]). destruct k; discriminate.
  - intros k n Hk _ _. do 4 (destruct k as [|k]; [injection Hk as <-; vm_compute; intros H; repeat (destruct H as [H|H]; [discriminate H|]); exact H|]).
    destruct k; discriminate.
  - intros k n Hk _ _. do 4 (destruct k as [|k]; [injection Hk as <-; vm_compute; exact I|]). destruct k; discriminate.
  - exists w'. split; [exact E|]. split; [exact S|]. split; [exact W'|].
    split; [apply (O 0 n3 eq_refl); [cbn; lia | left; cbn; lia]|].
    split; [apply (O 1 n2 eq_refl); [cbn; lia | vm_compute; reflexivity]|].
    split; [apply (O 2 n1 eq_refl); [cbn; lia | right; vm_compute; reflexivity]|].
    apply (O 3 n0 eq_refl). cbn; lia.
Qed.

(* ... and the model computes exactly this: the newest file and the old archive as before, the second file
   compressed (kind 1, same content), the oldest file gone *)
Example cleanup_loop_run :
  let r := cleanup_loop (world_of fs4) files4 0 1 3 None in
  fst r = true
  /\ List.map (file_of (wfs (snd r))) [n3; n2; gz_name n2; n1; n0]
     = [Some {| fdata := bs "three"%string; fgz := 0; fborn := 40; fdir := false |};
        None;
        Some {| fdata := bs "two"%string; fgz := 1; fborn := 100; fdir := false |};
        Some {| fdata := bs "one"%string; fgz := 1; fborn := 20; fdir := false |};
        None].
Proof. vm_compute. split; reflexivity. Qed.

(* a listed name that does not exist makes the loop fail (remove_file and File::open report NotFound) *)
Example cleanup_loop_missing_file :
  fst (cleanup_loop (world_of fs4) [n3; bs "app_r00009.log"%string] 0 1 1 None) = false
  /\ fst (cleanup_loop (world_of fs4) [n3; bs "app_r00009.log"%string] 0 1 2 None) = false.
Proof. vm_compute. split; reflexivity. Qed.
Example remove_redundant_missing_file :
  fst (fst (remove_redundant (world_of fs4) [bs "app_r00009.log.gz"%string] files4)) = false.
Proof. vm_compute. reflexivity. Qed.

(* Why the archive name of a compressed entry must not be listed: with the listing [a.log.gz; a.log] and
   log_limit = 1 the kept archive is overwritten by the compression of a.log.  cleanup_impl avoids this by removing
   such archives first (remove_redundant, no_clash_without_redundant). *)
Definition fs_clash : fs := mkfile (mkfile empty_fs (bs "a.log"%string) (bs "new"%string) 0 10) (bs "a.log.gz"%string) (bs "old"%string) 1 20.
Example cleanup_loop_clash :
  let r := cleanup_loop (world_of fs_clash) [bs "a.log.gz"%string; bs "a.log"%string] 0 1 2 None in
  fst r = true
  /\ file_of fs_clash (bs "a.log.gz"%string) = Some {| fdata := bs "old"%string; fgz := 1; fborn := 20; fdir := false |}
  /\ file_of (wfs (snd r)) (bs "a.log.gz"%string) = Some {| fdata := bs "new"%string; fgz := 1; fborn := 20; fdir := false |}.
Proof. vm_compute. repeat split. Qed.

(* A directory with the archive name: the compression fails (File::create: EISDIR) and nothing is changed;
   hence the hypothesis not_dir in the theorems. *)
Definition fs_dir : fs :=
  {| names := [(bs "a.log.gz"%string, 1%nat); (bs "a.log"%string, 0%nat)];
     inodes := [ {| fdata := bs "x"%string; fgz := 0; fborn := 1; fdir := false |};
                 {| fdata := []; fgz := 0; fborn := 2; fdir := true |} ] |}.
Example compress_file_over_directory :
  compress_file (world_of fs_dir) (bs "a.log"%string) = (false, world_of fs_dir)
  /\ fst (cleanup_loop (world_of fs_dir) [bs "a.log"%string] 0 0 1 None) = false
  /\ file_of fs_dir (bs "a.log.gz"%string) = Some {| fdata := []; fgz := 0; fborn := 2; fdir := true |}.
Proof. vm_compute. repeat split. Qed.

(* a name without extension is compressed as well (the None branch of the loop test) *)
Definition fs_noext : fs := mkfile empty_fs (bs "applog"%string) (bs "data"%string) 0 10.
Example cleanup_loop_no_extension :
  let r := cleanup_loop (world_of fs_noext) [bs "applog"%string] 0 0 1 None in
  act 0 1 0 (bs "applog"%string) = ACompress /\ fst r = true
  /\ file_of (wfs (snd r)) (bs "applog"%string) = None
  /\ file_of (wfs (snd r)) (bs "applog.gz"%string) = Some {| fdata := bs "data"%string; fgz := 1; fborn := 100; fdir := false |}.
Proof. vm_compute. repeat split. Qed.

(* ------------------------------------------------------------------ 5. the current output file (o_current) *)
(* The loop skips the entry equal to cur.  Where every position that holds the current file is a position that is
   kept anyway (e.g. position 0 with log_limit >= 1, where the direct namings put it as long as the clock is not
   set back), or where the current file is not listed, the argument makes no difference: the theorems above apply. *)
Lemma cleanup_loop_cur_cons w n r idx ll total cur :
  match cur with Some p => beq p n | None => false end = false ->
  cleanup_loop w (n :: r) idx ll total cur =
  match act ll total idx n with
  | ARemove => let '(ok, w1) := p_remove w n in if ok then cleanup_loop w1 r (S idx) ll total cur else (false, w1)
  | ACompress => let '(ok, w1) := compress_file w n in if ok then cleanup_loop w1 r (S idx) ll total cur else (false, w1)
  | AKeep => cleanup_loop w r (S idx) ll total cur
  end.
Proof.
  intros B. cbn [cleanup_loop]. rewrite B. unfold act, ext_is. destruct (Nat.leb total idx); [reflexivity|].
  destruct (Nat.leb ll idx); [|reflexivity]. destruct (extension n) as [e|]; [|reflexivity].
  destruct (beq e gz_sfx); reflexivity.
Qed.
Lemma cleanup_loop_cur_skip w p r idx ll total :
  cleanup_loop w (p :: r) idx ll total (Some p) = cleanup_loop w r (S idx) ll total (Some p).
Proof. cbn [cleanup_loop]. rewrite beq_refl. reflexivity. Qed.

Lemma cleanup_loop_cur_kept ll total p : forall files w idx,
  (forall k, nth_error files k = Some p -> act ll total (idx + k) p = AKeep) ->
  cleanup_loop w files idx ll total (Some p) = cleanup_loop w files idx ll total None.
Proof.
  induction files as [|n r IH]; intros w idx H; [reflexivity|].
  assert (HS : forall w1, cleanup_loop w1 r (S idx) ll total (Some p) = cleanup_loop w1 r (S idx) ll total None).
  { intros w1. apply IH. intros k Hk. replace (S idx + k) with (idx + S k) by lia. apply H. exact Hk. }
  destruct (beq p n) eqn:B.
  - apply beq_eq in B. subst n. rewrite cleanup_loop_cur_skip, cleanup_loop_cons.
    specialize (H 0 eq_refl). rewrite Nat.add_0_r in H. rewrite H. apply HS.
  - rewrite cleanup_loop_cons, (cleanup_loop_cur_cons w n r idx ll total (Some p) B).
    destruct (act ll total idx n).
    + apply HS.
    + destruct (compress_file w n) as [[|] w1]; [apply HS | reflexivity].
    + destruct (p_remove w n) as [[|] w1]; [apply HS | reflexivity].
Qed.

(* the current file is not listed *)
Lemma cleanup_loop_cur_not_listed ll total p files w idx : ~ In p files ->
  cleanup_loop w files idx ll total (Some p) = cleanup_loop w files idx ll total None.
Proof. intros H. apply cleanup_loop_cur_kept. intros k Hk. exfalso. apply H. eapply nth_error_In; exact Hk. Qed.

(* the current file is listed among the first log_limit entries only (NoDup: once) *)
Lemma cleanup_loop_cur_in_keep ll total p files w : NoDup files -> ll <= total -> In p (keep_part ll files) ->
  cleanup_loop w files 0 ll total (Some p) = cleanup_loop w files 0 ll total None.
Proof.
  intros ND Hle Hin. apply cleanup_loop_cur_kept. intros k Hk. cbn [Nat.add].
  apply In_firstn_nth in Hin. destruct Hin as (j & Hj & Ej).
  assert (k = j).
  { apply (proj1 (NoDup_nth_error files) ND); [apply nth_error_Some; congruence | congruence]. }
  subst j. apply act_keep. split; [lia | left; exact Hj].
Qed.

(* whatever cur is, it makes no difference for cleanup_impl's first limit when the limit is positive *)
Lemma cur_limit_pos (cur : option bytes) ll : 1 <= ll ->
  (if match cur with Some _ => true | None => false end && Nat.eqb ll 0 then 1 else ll) = ll.
Proof. intros H. destruct ll; [lia|]. cbn [Nat.eqb]. rewrite andb_false_r. reflexivity. Qed.
