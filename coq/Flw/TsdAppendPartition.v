(* TimestampsDirect naming with a size criterion: the greedy partition over SEQUENCES of runs on one directory (C08 for every
   start state that earlier writers can leave behind).
   - with append the newest file found - by time stamp and restart counter - is continued under its old name, and its
     content counts for the limit from the first write on;
   - without append a new file is started at the first write and the run partitions as from a fresh start;
   - a run that never writes leaves the directory as it is.
   The concrete side is the one of TsdRestart.v (IdleTd, PreTd, ActTd), strengthened by the roll state (SizeSt: a size
   criterion stays a size criterion); the abstract side (init_view, g_step, gs_run, files_after, cur_before, runs_files) is
   the one of NumRestart.v / NumAppendPartition.v: the reader's view without the keys. *)
Require Import FL.Base.Bytes FL.Base.BytesFacts FL.Base.PathName FL.Fs.Fs FL.Fs.FsFacts FL.Time.Civil FL.Time.TsFormat
  FL.Names.FileSpec FL.Names.NamesFacts FL.Names.SortFacts FL.Names.FamilyFacts FL.Flw.Model FL.Flw.ModelFacts FL.Flw.NumFs
  FL.Flw.NumInv FL.Flw.Run FL.Flw.RunFacts FL.Flw.NumRun FL.Oracles.O_Flw FL.Flw.NumTheorems FL.Flw.NumListing FL.Flw.NumRestart
  FL.Flw.NumAppendPartition FL.Flw.NumDTheorems
  FL.Flw.TsCal FL.Flw.TsTime FL.Flw.TsNames FL.Flw.TsInv FL.Flw.TsRun FL.Flw.TsTheorems FL.Flw.TsRestartInv FL.Flw.TsRestart
  FL.Flw.TsdInv FL.Flw.TsdRun FL.Flw.TsdTheorems FL.Flw.TsPartition FL.Flw.TsdRestartInv FL.Flw.TsdRestart.
From Coq Require Import ZifyN ZifyNat ZifyBool.
Import String.StringSyntax.
Open Scope nat_scope.

(* ================================================================== the roll state *)
Definition roll_of_sys (x : sys) : option roll_state :=
  match s_flw x with
  | Some s => match f_inner s with Active (Some rs) _ _ => Some (rs_roll rs) | _ => None end
  | None => None
  end.
(* the writer has a size criterion with the limit m *)
Definition SizeSt (m : N) (x : sys) : Prop := exists k, roll_of_sys x = Some (RSize m k).

(* the reader's view without the keys *)
Definition vw (d : dview) : aview := match d with Some (_, cl, cu) => Some (cl, cu) | None => None end.

Lemma files_of_vw d : files_of (vw d) = filesD d.
Proof. destruct d as [[[ks cl] cu]|]; reflexivity. Qed.

(* a write on an active writer with a size criterion: everything is determined *)
Lemma write_active_tsd_kz c m e lo hi w wr keys closed b :
  tsdcfg c (CSize m) -> tag_ok c -> years_ok e lo hi -> TsdInv c e lo w wr keys closed ->
  (wnow w <= hi)%Z -> (N.of_nat (length keys) <= usize_max)%N ->
  let rot := (m <? N.of_nat (length (cur_view w wr)))%N in
  exists w' wr' keys' closed',
    write_buffer (st_tsd c e (nth (length closed) keys kd) (RSize m (N.of_nat (length (cur_view w wr)))) wr) w b
      = (Ok tt, w', st_tsd c e (nth (length closed') keys' kd) (RSize m (N.of_nat (length (cur_view w' wr')))) wr', rot)
    /\ TsdInv c e lo w' wr' keys' closed' /\ same_env w w'
    /\ (keys', closed', cur_view w' wr')
       = (if rot then (keys ++ [(wnow w, count (wnow w) keys)], closed ++ [cur_view w wr], b)
          else (keys, closed, cur_view w wr ++ b)).
Proof.
  intros Hcfg T Y I Hhi Hmax rot.
  set (roll := RSize m (N.of_nat (length (cur_view w wr)))).
  assert (Z : roll_size_ok roll (length (cur_view w wr))) by reflexivity.
  destruct (write_active_tsd_k c (CSize m) e lo hi w wr keys closed roll b Hcfg T Y I Hhi Hmax Z)
    as [w' [wr' [roll' [keys' [closed' [E [I' [Z' [S' V']]]]]]]]].
  destruct (write_active_tsd c (CSize m) e lo hi w wr keys closed roll b Hcfg T Y I Hhi Hmax Z)
    as [w2 [wr2 [roll2 [keys2 [closed2 [E2 [_ [_ [_ [_ R2]]]]]]]]]].
  assert (Er : roll2 = roll') by (unfold st_tsd, mk_rs in *; congruence).
  destruct (R2 m _ eq_refl) as [k' Ek]. subst roll2. rewrite Ek in *. cbn [roll_size_ok] in Z'. subst k'.
  change (rotation_necessary w roll) with rot in *.
  exists w', wr', keys', closed'. split; [exact E|]. split; [exact I'|]. split; [exact S' | exact V'].
Qed.

(* ================================================================== one operation of a writer that has written *)
Lemma act_step_tz c m e off lo hi n x keys closed cur o :
  tsdcfg c (CSize m) -> tag_ok c -> years_ok e lo hi ->
  ActTd c e off lo n x (Some (keys, closed, cur)) -> SizeSt m x -> basic_op o -> tick_ok o ->
  (wnow (s_w x) <= hi)%Z -> (N.of_nat (S n) <= usize_max)%N ->
  exists keys' cl' cu',
    a_step (Some (closed, cur)) o (rot_of (snd (step x o))) = Some (cl', cu')
    /\ ActTd c e off lo (S n) (fst (step x o)) (Some (keys', cl', cu')) /\ SizeSt m (fst (step x o))
    /\ wnow (s_w (fst (step x o))) = (wnow (s_w x) + dt_of o)%Z
    /\ (forall b, (o = OWrite b \/ o = OPlain b) -> snd (step x o) = ObsRes 0 (m <? N.of_nat (length cur))%N).
Proof.
  intros Hcfg T Y A [k0 Hk0] Hb Htk Hhi Hmax.
  destruct A as [E0 [wr [roll [Es [I [V [Hn Z]]]]]]]. pose proof E0 as [Ht [Ha [Q [Ho Hw]]]].
  unfold roll_of_sys in Hk0. rewrite Es in Hk0. cbn [st_tsd f_inner mk_rs rs_roll] in Hk0. injection Hk0 as ->.
  cbn [roll_size_ok] in Z. subst k0.
  pose proof (td_len _ _ _ _ _ _ _ I) as Hlen.
  assert (Hk : (N.of_nat (length keys) <= usize_max)%N) by lia.
  rewrite (step_sync_tsd c (CSize m) x _ o Hcfg Es eq_refl).
  set (k0 := nth (length closed) keys kd) in *.
  assert (WR : forall b, exists w' s' keys' cl' cu',
              write_buffer (st_tsd c e k0 (RSize m (N.of_nat (length cur))) wr) (s_w x) b
                = (Ok tt, w', s', (m <? N.of_nat (length cur))%N)
              /\ (if (m <? N.of_nat (length cur))%N then (closed ++ [cur], b) else (closed, cur ++ b)) = (cl', cu')
              /\ ActTd c e off lo (S n) {| s_flw := Some s'; s_w := w'; s_tl := []; s_dead := s_dead x |} (Some (keys', cl', cu'))
              /\ SizeSt m {| s_flw := Some s'; s_w := w'; s_tl := []; s_dead := s_dead x |}
              /\ wnow w' = wnow (s_w x)).
  { intros b.
    destruct (write_active_tsd_kz c m e lo hi (s_w x) wr keys closed b Hcfg T Y I Hhi Hk)
      as [w' [wr' [keys' [closed' [E [I' [S' V']]]]]]].
    rewrite V in E, V'. fold k0 in E.
    exists w', (st_tsd c e (nth (length closed') keys' kd) (RSize m (N.of_nat (length (cur_view w' wr')))) wr'), keys', closed', (cur_view w' wr').
    split; [exact E|].
    split. { destruct (m <? N.of_nat (length cur))%N; injection V' as _ -> ->; reflexivity. }
    split; [|split; [eexists; reflexivity | exact (same_env_now _ _ S')]].
    split; [apply (envTd_env c e off x _ E0); [reflexivity | exact S']|].
    exists wr', (RSize m (N.of_nat (length (cur_view w' wr')))). cbn [s_flw s_w].
    split; [reflexivity|]. split; [exact I'|]. split; [reflexivity|]. split; [|reflexivity].
    destruct (m <? N.of_nat (length cur))%N; injection V' as _ -> _; rewrite ?app_length; cbn [length]; lia. }
  destruct o; try contradiction; cbn [sync_step dt_of a_step].
  - (* OWrite *)
    rewrite Es. cbn [st_tsd f_poisoned]. fold (st_tsd c e k0 (RSize m (N.of_nat (length cur))) wr). rewrite Ht. cbn [app].
    destruct (WR b) as [w' [s' [keys' [cl' [cu' [E [V' [A' [Z' W']]]]]]]]]. rewrite E. cbn [fst snd rot_of s_w].
    exists keys', cl', cu'. split; [rewrite <- V'; destruct (m <? N.of_nat (length cur))%N; reflexivity|].
    split; [exact A'|]. split; [exact Z'|]. split; [lia|]. intros b0 _. reflexivity.
  - (* OPlain *)
    rewrite Es. cbn [st_tsd f_poisoned]. fold (st_tsd c e k0 (RSize m (N.of_nat (length cur))) wr).
    destruct (WR b) as [w' [s' [keys' [cl' [cu' [E [V' [A' [Z' W']]]]]]]]]. rewrite E. cbn [fst snd rot_of s_w code_of]. rewrite Ht.
    exists keys', cl', cu'. split; [rewrite <- V'; destruct (m <? N.of_nat (length cur))%N; reflexivity|].
    split; [exact A'|]. split; [exact Z'|]. split; [lia|]. intros b0 _. reflexivity.
  - (* OFlush *)
    rewrite Es. cbn [st_tsd f_poisoned]. fold (st_tsd c e k0 (RSize m (N.of_nat (length cur))) wr).
    destruct (flush_active_tsd c e lo (s_w x) wr keys closed (RSize m (N.of_nat (length cur))) k0 I) as [w' [wr' [E [I' [V' [P' S']]]]]].
    rewrite E. cbn [fst snd s_w]. exists keys, closed, cur. split; [reflexivity|].
    split; [|split; [eexists; reflexivity|]; split; [rewrite (same_env_now _ _ S'); lia | intros b [H|H]; discriminate]].
    split; [apply (envTd_env c e off x _ E0); [exact Ht | exact S']|].
    exists wr', (RSize m (N.of_nat (length cur))). cbn [s_flw s_w]. split; [reflexivity|]. split; [exact I'|]. split; [congruence|].
    split; [lia | reflexivity].
  - (* OTrigger *)
    rewrite Es. cbn [st_tsd f_poisoned f_cfg f_inner].
    destruct (mount_next_rotates_tsd c (CSize m) e lo hi (s_w x) wr keys closed (RSize m (N.of_nat (length cur))) true Hcfg T Y I Hhi Hk eq_refl)
      as [w' [wr' [roll' [E [I' [V' [Z' [S' R']]]]]]]].
    fold k0 in E. rewrite E. cbn [fst snd code_of with_inner f_cfg f_poisoned s_w].
    destruct (R' m _ eq_refl) as [k' ->]. cbn [roll_size_ok] in Z'. subst k'.
    exists (keys ++ [(wnow (s_w x), count (wnow (s_w x)) keys)]), (closed ++ [cur]), []. split; [reflexivity|].
    split; [|split; [eexists; reflexivity|]; split; [rewrite (same_env_now _ _ S'); lia | intros b [H|H]; discriminate]].
    split; [apply (envTd_env c e off x _ E0); [exact Ht | exact S']|].
    rewrite V in *. exists wr', (RSize m (N.of_nat 0)). cbn [s_flw s_w].
    split. { rewrite nth_snoc_last by (rewrite app_length; cbn [length]; lia). reflexivity. }
    split; [exact I'|]. split; [exact V'|]. split; [rewrite app_length; cbn [length]; lia | reflexivity].
  - (* OTick *)
    cbn [fst snd s_w set_now wnow tick_ok] in *. exists keys, closed, cur. split; [reflexivity|].
    split; [|split; [eexists; unfold roll_of_sys; cbn [s_flw]; rewrite Es; reflexivity|]; split; [reflexivity | intros b [H|H]; discriminate]].
    split; [repeat split; [exact Ht | exact Ha | apply Q | apply Q | exact Ho | exact Hw]|].
    exists wr, (RSize m (N.of_nat (length cur))). cbn [s_flw s_w]. split; [exact Es|]. split; [apply tsdinv_tick; assumption|]. split; [exact V|].
    split; [lia | reflexivity].
  - (* OSnap *)
    cbn [fst snd]. exists keys, closed, cur. split; [reflexivity|].
    split; [|split; [eexists; unfold roll_of_sys; rewrite Es; reflexivity|]; split; [lia | intros b [H|H]; discriminate]].
    split; [repeat split; [exact Ht | exact Ha | apply Q | apply Q | exact Ho | exact Hw]|].
    exists wr, (RSize m (N.of_nat (length cur))). split; [exact Es|]. split; [exact I|]. split; [exact V|]. split; [lia | reflexivity].
Qed.

(* ================================================================== the first write of a writer *)
Lemma init_roll_size c m w rs wr p w' n : tsdcfg c (CSize m) -> initialize c w = (Ok (Active (Some rs) wr p), w') ->
  roll_size_ok (rs_roll rs) n -> rs_roll rs = RSize m (N.of_nat n).
Proof.
  intros [Hrot _] E Z. destruct (initialize_roll c w (CSize m) NTimestampsDirect rs wr p w' Hrot E) as [w2 ER].
  destruct (roll_new_size _ _ _ _ _ _ ER) as [size [created [Er _]]]. rewrite Er in *. cbn [roll_size_ok] in Z. subst size. reflexivity.
Qed.

Lemma first_write_tz c m e off lo hi n x d b :
  tsdcfg c (CSize m) -> tag_ok c -> years_ok e lo hi -> aok c -> PreTd c e off lo n x d ->
  (wnow (s_w x) <= hi)%Z -> (N.of_nat (S n) <= usize_max)%N ->
  let rot := (m <? N.of_nat (length (snd (init_view c (vw d)))))%N in
  exists w' s' keys' cl' cu', write_buffer (new_flw c) (s_w x) b = (Ok tt, w', s', rot)
    /\ a_step (Some (init_view c (vw d))) (OWrite b) rot = Some (cl', cu')
    /\ ActTd c e off lo (S n) {| s_flw := Some s'; s_w := w'; s_tl := []; s_dead := s_dead x |} (Some (keys', cl', cu'))
    /\ SizeSt m {| s_flw := Some s'; s_w := w'; s_tl := []; s_dead := s_dead x |}
    /\ wnow w' = wnow (s_w x).
Proof.
  intros Hcfg T Y Hao [E0 [Es [D Hn]]] Hhi Hmax rot. pose proof E0 as [Ht [Ha [Q [Ho Hw]]]].
  assert (IN : exists w1 wr1 keys1 closed1,
            initialize c (s_w x) = (Ok (Active (Some (mk_rs (NSTs (fst (nth (length closed1) keys1 kd)) None std_fmt)
                                                             (RSize m (N.of_nat (length (cur_view w1 wr1)))))) wr1
                                               (kname c e (nth (length closed1) keys1 kd))), w1)
            /\ TsdInv c e lo w1 wr1 keys1 closed1 /\ same_env (s_w x) w1
            /\ (closed1, cur_view w1 wr1) = init_view c (vw d)
            /\ length closed1 <= n).
  { destruct d as [[[keys closed] cur]|]; cbn [dir_tsd closedD vw init_view] in D, Hn |- *.
    - destruct D as [wr [I [Hp V]]]. pose proof (td_len _ _ _ _ _ _ _ I) as Hlen.
      destruct (initialize_view_tsd c (CSize m) e lo hi (s_w x) wr keys closed Hcfg T Y I Hp Hhi ltac:(lia) Hao)
        as [w1 [wr1 [roll1 [keys1 [closed1 [Ei [I1 [S1 [Z1 V1]]]]]]]]].
      pose proof (init_roll_size c m _ _ _ _ _ _ Hcfg Ei Z1) as Er. cbn [mk_rs rs_roll] in Er. subst roll1.
      exists w1, wr1, keys1, closed1. split; [exact Ei|]. split; [exact I1|]. split; [exact S1|].
      rewrite V in V1. destruct (c_append c); injection V1 as -> -> ->.
      + split; [reflexivity | lia].
      + split; [reflexivity | rewrite app_length; cbn [length]; lia].
    - destruct D as [Hnm [Hin Hlo]].
      destruct (initialize_empty_tsd c (CSize m) e lo (s_w x) Hcfg Q Hnm Hin Ho Hlo) as [w1 [wr1 [roll1 [Ei [I1 [V1 [Z1 [S1 R1]]]]]]]].
      rewrite (R1 m eq_refl) in Ei.
      exists w1, wr1, [(wnow (s_w x), 0)], []. cbn [length nth fst]. rewrite V1. cbn [length].
      split; [exact Ei|]. split; [exact I1|]. split; [exact S1|]. split; [reflexivity | lia]. }
  destruct IN as [w1 [wr1 [keys1 [closed1 [Ei [I1 [S1 [V1 L1]]]]]]]].
  assert (Hhi1 : (wnow w1 <= hi)%Z) by (rewrite (same_env_now _ _ S1); exact Hhi).
  pose proof (td_len _ _ _ _ _ _ _ I1) as Hlen1.
  destruct (write_active_tsd_kz c m e lo hi w1 wr1 keys1 closed1 b Hcfg T Y I1 Hhi1 ltac:(lia))
    as [w' [wr' [keys' [closed' [E [I' [S' V']]]]]]].
  assert (Erot : (m <? N.of_nat (length (cur_view w1 wr1)))%N = rot) by (unfold rot; rewrite <- V1; reflexivity).
  rewrite Erot in E, V'.
  exists w', (st_tsd c e (nth (length closed') keys' kd) (RSize m (N.of_nat (length (cur_view w' wr')))) wr'), keys', closed', (cur_view w' wr').
  split. { rewrite (write_buffer_init c (s_w x) b _ _ _ w1 Ei). exact E. }
  assert (S2 : same_env (s_w x) w') by (eapply same_env_trans; eassumption).
  split. { rewrite <- V1. cbn [a_step]. destruct rot; injection V' as _ -> ->; reflexivity. }
  split; [|split; [eexists; reflexivity | exact (same_env_now _ _ S2)]].
  split; [apply (envTd_env c e off x _ E0); [reflexivity | exact S2]|].
  exists wr', (RSize m (N.of_nat (length (cur_view w' wr')))). cbn [s_flw s_w].
  split; [reflexivity|]. split; [exact I'|]. split; [reflexivity|]. split; [|reflexivity].
  destruct rot; injection V' as _ -> _; rewrite ?app_length; cbn [length]; lia.
Qed.

(* ================================================================== one run *)
Definition GRelTz (c : config) (m : N) (e off lo : Z) (n : nat) (x : sys) (d0 : dview) (a : aview) : Prop :=
  match a with
  | None => PreTd c e off lo n x d0
  | Some (cl, cu) => exists keys, ActTd c e off lo n x (Some (keys, cl, cu)) /\ SizeSt m x
  end.

Lemma gstep_tz c m e off lo hi n x d0 a o :
  tsdcfg c (CSize m) -> tag_ok c -> years_ok e lo hi -> aok c -> GRelTz c m e off lo n x d0 a -> basic_op o -> tick_ok o ->
  (wnow (s_w x) <= hi)%Z -> (N.of_nat (S n) <= usize_max)%N ->
  GRelTz c m e off lo (S n) (fst (step x o)) d0 (g_step c (vw d0) a o (rot_of (snd (step x o))))
  /\ wnow (s_w (fst (step x o))) = (wnow (s_w x) + dt_of o)%Z
  /\ (forall b, (o = OWrite b \/ o = OPlain b) -> snd (step x o) = ObsRes 0 (m <? N.of_nat (length (gcur c (vw d0) a)))%N).
Proof.
  intros Hcfg T Y Hao G Hb Htk Hhi Hmax. destruct a as [[cl cu]|].
  - cbn [GRelTz g_step gcur] in *. destruct G as [keys [A Hz]].
    destruct (act_step_tz c m e off lo hi n x keys cl cu o Hcfg T Y A Hz Hb Htk Hhi Hmax) as [keys' [cl' [cu' [Ea [A' [Z' [W' C']]]]]]].
    rewrite Ea. split; [exists keys'; split; assumption|]. split; [exact W' | exact C'].
  - cbn [GRelTz g_step gcur] in *. pose proof G as [[Ht [Ha [Q [Ho Hw]]]] [Es [D Hn]]].
    rewrite (step_sync_tsd c (CSize m) x _ o Hcfg Es eq_refl).
    destruct o; try contradiction; cbn [sync_step dt_of].
    + (* OWrite *)
      destruct (first_write_tz c m e off lo hi n x d0 (s_tl x ++ b) Hcfg T Y Hao G Hhi Hmax) as [w' [s' [keys' [cl' [cu' [E [Ea [A' [Z' W']]]]]]]]].
      rewrite Es. cbn [new_flw f_poisoned]. fold (new_flw c). rewrite E. cbn [fst snd rot_of s_w].
      rewrite Ht in Ea. cbn [app] in Ea. rewrite Ea.
      split; [exists keys'; split; assumption|]. split; [lia|]. intros b0 _. reflexivity.
    + (* OPlain *)
      destruct (first_write_tz c m e off lo hi n x d0 b Hcfg T Y Hao G Hhi Hmax) as [w' [s' [keys' [cl' [cu' [E [Ea [A' [Z' W']]]]]]]]].
      rewrite Es. cbn [new_flw f_poisoned]. fold (new_flw c). rewrite E. cbn [fst snd rot_of s_w code_of]. rewrite Ht.
      change (a_step (Some (init_view c (vw d0))) (OPlain b)) with (a_step (Some (init_view c (vw d0))) (OWrite b)). rewrite Ea.
      split; [exists keys'; split; assumption|]. split; [lia|]. intros b0 _. reflexivity.
    + (* OFlush *)
      rewrite Es. cbn [new_flw f_poisoned flush_state f_inner fst snd s_w GRelTz].
      split; [|split; [lia | intros b [H|H]; discriminate]].
      split; [repeat split; try assumption; apply Q|]. split; [reflexivity|]. split; [exact D | lia].
    + (* OTrigger *)
      rewrite Es. cbn [new_flw f_poisoned f_cfg f_inner mount_next with_inner code_of fst snd s_w GRelTz].
      split; [|split; [lia | intros b [H|H]; discriminate]].
      split; [repeat split; try assumption; apply Q|]. split; [reflexivity|]. split; [exact D | lia].
    + (* OTick *)
      cbn [fst snd s_w set_now wnow tick_ok GRelTz] in *.
      split; [|split; [reflexivity | intros b [H|H]; discriminate]].
      split; [repeat split; try assumption; apply Q|]. split; [exact Es|]. split; [apply dir_tsd_tick; assumption | lia].
    + (* OSnap *)
      cbn [fst snd GRelTz].
      split; [|split; [lia | intros b [H|H]; discriminate]].
      split; [repeat split; try assumption; apply Q|]. split; [exact Es|]. split; [exact D | lia].
Qed.

Lemma grun_tz c m e off lo hi d0 : tsdcfg c (CSize m) -> tag_ok c -> years_ok e lo hi -> aok c ->
  forall ops x a n, GRelTz c m e off lo n x d0 a -> Forall basic_op ops -> Forall tick_ok ops ->
  (wnow (s_w x) + elapsed ops <= hi)%Z -> (N.of_nat (n + length ops) <= usize_max)%N ->
  GRelTz c m e off lo (n + length ops) (fst (run x ops)) d0 (gs_run m c (vw d0) a ops)
  /\ wnow (s_w (fst (run x ops))) = (wnow (s_w x) + elapsed ops)%Z
  /\ (forall i o, nth_error ops i = Some o -> forall b, (o = OWrite b \/ o = OPlain b) ->
        nth_error (snd (run x ops)) i
        = Some (ObsRes 0 (m <? N.of_nat (length (gcur c (vw d0) (gs_run m c (vw d0) a (firstn i ops)))))%N)).
Proof.
  intros Hcfg T Y Hao. induction ops as [|o r IH]; intros x a n G Hb Htk Hhi Hmax.
  - cbn [run fst snd length elapsed gs_run]. rewrite Nat.add_0_r. split; [exact G|]. split; [lia|].
    intros i o H. destruct i; discriminate.
  - cbn [run]. inversion Hb as [|o' r' Ho Hr]; subst. inversion Htk as [|o' r' Hto Htr]; subst.
    cbn [elapsed length] in *. pose proof (elapsed_nonneg r Htr) as Er.
    assert (Hdt : (0 <= dt_of o)%Z) by (destruct o; cbn [dt_of tick_ok] in *; lia).
    destruct (gstep_tz c m e off lo hi n x d0 a o Hcfg T Y Hao G Ho Hto ltac:(lia) ltac:(lia)) as [G1 [W1 C1]].
    destruct (step x o) as [x1 ob] eqn:Est. cbn [fst snd] in G1, W1, C1.
    assert (Erot : g_step c (vw d0) a o (rot_of ob) = g_step c (vw d0) a o (m <? N.of_nat (length (gcur c (vw d0) a)))%N).
    { destruct o; try (destruct a; reflexivity).
      - rewrite (C1 b (or_introl eq_refl)). reflexivity.
      - rewrite (C1 b (or_intror eq_refl)). reflexivity. }
    rewrite Erot in G1.
    destruct (IH x1 _ (S n) G1 Hr Htr ltac:(lia) ltac:(lia)) as [G2 [W2 C2]].
    destruct (run x1 r) as [x2 obs] eqn:Err. cbn [fst snd] in *.
    replace (n + S (length r)) with (S n + length r) by lia. cbn [gs_run].
    split; [exact G2|]. split; [lia|].
    intros i o0 Hi b Hw. destruct i as [|i].
    + cbn in Hi. injection Hi as <-. cbn [nth_error firstn gs_run]. f_equal. apply (C1 b Hw).
    + cbn [nth_error firstn gs_run] in *. apply (C2 i o0 Hi b Hw).
Qed.

Lemma grelTz_td c m e off lo n x d a : GRelTz c m e off lo n x d a ->
  exists a1, GRelTd c e off lo n x d a1 /\ vw (gviewD d a1) = gview (vw d) a.
Proof.
  destruct a as [[cl cu]|]; cbn [GRelTz].
  - intros [keys [A _]]. exists (Some (keys, cl, cu)). split; [exact A | reflexivity].
  - intros P. exists None. split; [exact P | reflexivity].
Qed.

(* ---- one whole run, after the clock has advanced by dt ---- *)
Lemma one_run_tz c m e off lo hi n x d dt ops :
  tsdcfg c (CSize m) -> tag_ok c -> years_ok e lo hi -> aok c -> IdleTd c e off lo n x d -> (0 <= dt)%Z ->
  Forall basic_op ops -> Forall tick_ok ops ->
  (wnow (s_w x) + elapsed (run_t dt c ops) <= hi)%Z -> (N.of_nat (n + length (run_t dt c ops)) <= usize_max)%N ->
  (exists d', IdleTd c e off lo (n + length (run_t dt c ops)) (fst (run x (run_t dt c ops))) d'
    /\ filesD d' = files_after (filesD d) (c_append c) m ops
    /\ wnow (s_w (fst (run x (run_t dt c ops)))) = (wnow (s_w x) + elapsed (run_t dt c ops))%Z)
  /\ (forall i o b, nth_error ops i = Some o -> (o = OWrite b \/ o = OPlain b) ->
        nth_error (snd (run x (OTick dt :: OStart c :: ops))) (S (S i))
        = Some (ObsRes 0 (m <? N.of_nat (length (cur_before m (start_of (filesD d) (c_append c)) (firstn i ops))))%N)).
Proof.
  intros Hcfg T Y Hao Id Hdt Hb Htk Hhi Hmax. unfold run_t in *.
  cbn [elapsed dt_of length] in Hhi, Hmax. rewrite elapsed_app in Hhi. rewrite app_length in Hmax. cbn [elapsed dt_of length] in Hhi, Hmax.
  pose proof (elapsed_nonneg ops Htk) as Eo.
  cbn [run].
  destruct (idle_tick_td c e off lo n x d dt Hdt Id) as [Id0 W0]. destruct (step x (OTick dt)) as [xa oba]. cbn [fst] in Id0, W0.
  pose proof (start_td c e off lo n xa d Id0) as P0. pose proof (start_now xa c) as W1.
  destruct (step xa (OStart c)) as [x0 ob0]. cbn [fst] in P0, W1.
  assert (G0 : GRelTz c m e off lo (S n) x0 d None) by exact P0.
  destruct (grun_tz c m e off lo hi d Hcfg T Y Hao ops x0 None (S n) G0 Hb Htk ltac:(lia) ltac:(lia)) as [G1 [W2 C1]].
  split.
  - pose proof (fst_run_app ops [OStop] x0) as RA.
    destruct (run x0 (ops ++ [OStop])) as [x2 obs2]. cbn [fst] in RA |- *.
    destruct (run x0 ops) as [x1 obs1]. cbn [fst] in RA, G1, W2.
    destruct (grelTz_td _ _ _ _ _ _ _ _ _ G1) as [a1 [G1' Ev]].
    destruct (stop_td c (CSize m) e off lo (S n + length ops) x1 d a1 Hcfg G1') as [Id2 W3].
    cbn [run] in RA. destruct (step x1 OStop) as [x2' ob2]. cbn [fst] in RA, Id2, W3. subst x2'.
    exists (gviewD d a1).
    split; [apply (idleTd_mono c e off lo (S n + length ops)); [cbn [length]; rewrite app_length; cbn [length]; lia | exact Id2]|].
    split; [|cbn [elapsed dt_of]; rewrite elapsed_app; cbn [elapsed dt_of]; lia].
    rewrite <- !files_of_vw, Ev. apply gview_files. exact Hb.
  - intros i o b Hi Hw. destruct (run x0 ops) as [x1 obs1]. cbn [snd nth_error] in *.
    rewrite (C1 i o Hi b Hw), gcur_before, files_of_vw. reflexivity.
Qed.

(* ================================================================== sequences of runs *)
(* the runs without their clock ticks, as runs_files takes them *)
Definition strip (rs : list trun) : list (config * list op) := List.map (fun r => (snd (fst r), snd r)) rs.
(* a run with a size criterion *)
Definition size_run_tsd (r : trun) : Prop := exists m, tsdcfg (cfg_of r) (CSize m).

Lemma runs_ops_t_app a b : runs_ops_t (a ++ b) = runs_ops_t a ++ runs_ops_t b.
Proof. induction a as [|[[dt c] ops] r IH]; [reflexivity|]. cbn [app runs_ops_t]. rewrite IH, app_assoc. reflexivity. Qed.

Lemma runs_rel_tz sp (utc : bool) off lo hi : let e := (if utc then 0 else off)%Z in years_ok e lo hi ->
  forall rs x d c0 n, c_spec c0 = sp -> c_utc c0 = utc -> Forall (run_ok_tsd sp utc) rs -> Forall size_run_tsd rs ->
  IdleTd c0 e off lo n x d ->
  (wnow (s_w x) + elapsed (runs_ops_t rs) <= hi)%Z -> (N.of_nat (n + length (runs_ops_t rs)) <= usize_max)%N ->
  exists d', IdleTd c0 e off lo (n + length (runs_ops_t rs)) (fst (run x (runs_ops_t rs))) d'
    /\ filesD d' = runs_files (filesD d) (strip rs)
    /\ wnow (s_w (fst (run x (runs_ops_t rs)))) = (wnow (s_w x) + elapsed (runs_ops_t rs))%Z.
Proof.
  intros e Y. induction rs as [|[[dt c] ops] r IH]; intros x d c0 n Ec0 Eu0 Hrs Hsz Id Hhi Hmax.
  - cbn [runs_ops_t run fst length elapsed strip List.map runs_files]. rewrite Nat.add_0_r. exists d.
    split; [exact Id|]. split; [reflexivity | lia].
  - inversion Hrs as [|r0 r' Hok Hr]; subst. inversion Hsz as [|r0 r' [m Hcfg] Hsr]; subst. apply run_ok_tsd_elim in Hok.
    destruct Hok as [Hdt [Ec [Eu [_ [T [Hb [Htk Hap]]]]]]]. unfold cfg_of in Hcfg. cbn [fst snd] in Hcfg.
    cbn [runs_ops_t] in *. rewrite elapsed_app in Hhi. rewrite app_length in Hmax.
    pose proof (runs_elapsed_nonneg_tsd _ _ r Hr) as Er.
    assert (Id' : IdleTd c e off lo n x d) by (apply (idleTd_spec c0 c); congruence).
    destruct (one_run_tz c m e off lo hi n x d dt ops Hcfg T Y Hap Id' Hdt Hb Htk ltac:(lia) ltac:(lia)) as [[d1 [Id1 [F1 W1]]] _].
    rewrite fst_run_app. set (x1 := fst (run x (run_t dt c ops))) in *.
    assert (Id1' : IdleTd c0 e off lo (n + length (run_t dt c ops)) x1 d1) by (apply (idleTd_spec c c0); congruence).
    destruct (IH x1 d1 c0 (n + length (run_t dt c ops)) eq_refl eq_refl Hr Hsr Id1' ltac:(lia) ltac:(lia)) as [d2 [Id2 [F2 W2]]].
    exists d2. rewrite app_length, elapsed_app, Nat.add_assoc.
    split; [exact Id2|]. split; [|lia].
    rewrite F2, F1. cbn [strip List.map runs_files fst snd]. destruct Hcfg as [-> _]. reflexivity.
Qed.

(* C08 for any number of runs on one directory under TimestampsDirect naming, each run with its own limit, buffer capacity
   and append flag, the clock advancing between and within the runs: the files, in the order of their keys (time stamp of
   the creation, restart counter), read the fold of files_after over the runs *)
Theorem timestampsdirect_runs_partition sp utc t0 off rs :
  Forall (run_ok_tsd sp utc) rs -> Forall size_run_tsd rs ->
  let e := if utc then 0%Z else off in
  (0 <= t0 + e)%Z -> (t0 + elapsed (runs_ops_t rs) + e < sec_max)%Z -> (N.of_nat (length (runs_ops_t rs)) <= usize_max)%N ->
  let f := wfs (s_w (fst (run (sys0 t0 off) (runs_ops_t rs)))) in
  exists keys,
    (forall c, c_spec c = sp -> tsd_view c e f keys (runs_files [] (strip rs)))
    /\ keys_ok keys
    /\ (forall k, In k keys -> (t0 <= fst k <= t0 + elapsed (runs_ops_t rs))%Z).
Proof.
  intros Hrs Hsz e Hlo Hhi Hmax f.
  assert (Y : years_ok e t0 (t0 + elapsed (runs_ops_t rs))) by (split; assumption).
  pose proof (idleTd0 (sp_config_utc sp utc) t0 off) as Id0. change (ts_e (sp_config_utc sp utc) off) with e in Id0.
  destruct (runs_rel_tz sp utc off t0 _ Y rs (sys0 t0 off) None (sp_config_utc sp utc) 0 eq_refl eq_refl Hrs Hsz Id0
              ltac:(cbn [sys0 s_w world0 wnow]; lia) ltac:(cbn [Nat.add]; exact Hmax)) as [d' [Id [F W]]].
  cbn [filesD] in F. cbn [sys0 s_w world0 wnow] in W. fold f in Id.
  destruct (idleTd_view sp (sp_config_utc sp utc) e off t0 _ _ d' eq_refl Id) as [V [_ [K Rg]]].
  exists (keysD d'). rewrite <- F. split; [exact V|]. split; [exact K|].
  intros k Ik. specialize (Rg k Ik). lia.
Qed.
Print Assumptions timestampsdirect_runs_partition.

(* the rotation flag of every write of a run (limit m) that follows any number of runs: the bytes counted are those of the
   current file of this run, which starts with the content of the newest file found iff the run appends *)
Theorem timestampsdirect_runs_rotates_iff sp utc t0 off rs dt c m ops i o b :
  Forall (run_ok_tsd sp utc) (rs ++ [(dt, c, ops)]) -> Forall size_run_tsd rs -> tsdcfg c (CSize m) ->
  let e := if utc then 0%Z else off in
  (0 <= t0 + e)%Z -> (t0 + elapsed (runs_ops_t (rs ++ [(dt, c, ops)])) + e < sec_max)%Z ->
  (N.of_nat (length (runs_ops_t (rs ++ [(dt, c, ops)]))) <= usize_max)%N ->
  nth_error ops i = Some o -> (o = OWrite b \/ o = OPlain b) ->
  nth_error (snd (run (fst (run (sys0 t0 off) (runs_ops_t rs))) (OTick dt :: OStart c :: ops))) (S (S i))
  = Some (ObsRes 0 (m <? N.of_nat (length (cur_before m (start_of (runs_files [] (strip rs)) (c_append c)) (firstn i ops))))%N).
Proof.
  intros Hrs Hsz Hcfg e Hlo Hhi Hmax Hi Hw. apply Forall_app in Hrs. destruct Hrs as [Hrs1 Hrs2].
  inversion Hrs2 as [|r0 r' Hok _]; subst. apply run_ok_tsd_elim in Hok.
  destruct Hok as [Hdt [Ec [Eu [_ [T [Hb [Htk Hap]]]]]]].
  rewrite runs_ops_t_app in Hhi, Hmax. rewrite elapsed_app in Hhi. rewrite app_length in Hmax.
  cbn [runs_ops_t] in Hhi, Hmax. rewrite app_nil_r in Hhi, Hmax.
  pose proof (runs_elapsed_nonneg_tsd sp utc rs Hrs1) as E1.
  assert (E2 : (0 <= elapsed (run_t dt c ops))%Z).
  { unfold run_t. cbn [elapsed dt_of]. rewrite elapsed_app. cbn [elapsed dt_of]. pose proof (elapsed_nonneg ops Htk). lia. }
  set (hi := (t0 + (elapsed (runs_ops_t rs) + elapsed (run_t dt c ops)))%Z).
  assert (Y : years_ok e t0 hi) by (split; assumption).
  pose proof (idleTd0 (sp_config_utc sp utc) t0 off) as Id0. change (ts_e (sp_config_utc sp utc) off) with e in Id0.
  destruct (runs_rel_tz sp utc off t0 hi Y rs (sys0 t0 off) None (sp_config_utc sp utc) 0 eq_refl eq_refl Hrs1 Hsz Id0
              ltac:(cbn [sys0 s_w world0 wnow]; unfold hi; lia) ltac:(cbn [Nat.add]; lia)) as [d1 [Id1 [F1 W1]]].
  cbn [filesD] in F1. cbn [sys0 s_w world0 wnow] in W1. cbn [Nat.add] in Id1.
  set (x1 := fst (run (sys0 t0 off) (runs_ops_t rs))) in *.
  assert (Id1' : IdleTd c e off t0 (length (runs_ops_t rs)) x1 d1) by (apply (idleTd_spec (sp_config_utc sp utc) c); [symmetry; exact Ec | symmetry; exact Eu | exact Id1]).
  destruct (one_run_tz c m e off t0 hi _ x1 d1 dt ops Hcfg T Y Hap Id1' Hdt Hb Htk ltac:(unfold hi; lia) ltac:(lia)) as [_ C].
  rewrite <- F1. exact (C i o b Hi Hw).
Qed.
Print Assumptions timestampsdirect_runs_rotates_iff.

(* ================================================================== two runs *)
Lemma files_after_fresh app m ops : files_after [] app m ops = expected_files m None (items false ops).
Proof. unfold files_after. destruct app; reflexivity. Qed.

Lemma files_after_append cl cu m ops :
  files_after (cl ++ [cu]) true m ops = cl ++ expected_files m (Some cu) (items false ops).
Proof.
  unfold files_after. destruct (cl ++ [cu]) eqn:E0; [destruct cl; discriminate|]. rewrite <- E0.
  rewrite removelast_last, last_last. reflexivity.
Qed.

Lemma start_of_append cl cu : start_of (cl ++ [cu]) true = Some cu.
Proof. unfold start_of. destruct (cl ++ [cu]) eqn:E0; [destruct cl; discriminate|]. rewrite <- E0, last_last. reflexivity. Qed.

Lemma strip_one c m dt ops : tsdcfg c (CSize m) -> forall files,
  runs_files files (strip [(dt, c, ops)]) = files_after files (c_append c) m ops.
Proof. intros [Hrot _] files. cbn [strip List.map runs_files fst snd]. rewrite Hrot. reflexivity. Qed.

Lemma two_runs_ok c1 c2 m1 m2 dt ops1 ops2 :
  tsdcfg c1 (CSize m1) -> tsdcfg c2 (CSize m2) -> tag_ok c1 -> tag_ok c2 -> c_spec c1 = c_spec c2 -> c_utc c1 = c_utc c2 ->
  (c_append c1 = true -> probe_ok c1) -> (c_append c2 = true -> probe_ok c2) -> (0 <= dt)%Z ->
  Forall basic_op ops1 -> Forall tick_ok ops1 -> Forall basic_op ops2 -> Forall tick_ok ops2 ->
  Forall (run_ok_tsd (c_spec c2) (c_utc c2)) [(0%Z, c1, ops1); (dt, c2, ops2)]
  /\ Forall size_run_tsd [(0%Z, c1, ops1)] /\ Forall size_run_tsd [(0%Z, c1, ops1); (dt, c2, ops2)].
Proof.
  intros H1 H2 T1 T2 Es Eu P1 P2 Hdt Hb1 Ht1 Hb2 Ht2.
  assert (S1 : size_run_tsd (0%Z, c1, ops1)) by (exists m1; exact H1).
  assert (S2 : size_run_tsd (dt, c2, ops2)) by (exists m2; exact H2).
  split; [|split; repeat constructor; assumption].
  constructor; [|constructor; [|constructor]]; apply run_ok_tsd_intro.
  - split; [lia|]. split; [exact Es|]. split; [exact Eu|]. split; [eexists; exact H1|]. split; [exact T1|]. split; [exact Hb1|]. split; [exact Ht1 | exact P1].
  - split; [exact Hdt|]. split; [reflexivity|]. split; [reflexivity|]. split; [eexists; exact H2|]. split; [exact T2|]. split; [exact Hb2|]. split; [exact Ht2 | exact P2].
Qed.

(* Two runs, the second one appending (dt seconds later): the newest file - the last one of run 1 - is continued under its
   old name, and its content counts for the limit from the first write on *)
Theorem timestampsdirect_append_partition c1 c2 m1 m2 t0 off dt ops1 ops2 closed1 cur1 :
  tsdcfg c1 (CSize m1) -> tsdcfg c2 (CSize m2) -> tag_ok c1 -> tag_ok c2 -> c_spec c1 = c_spec c2 -> c_utc c1 = c_utc c2 ->
  (c_append c1 = true -> probe_ok c1) -> c_append c2 = true -> probe_ok c2 -> (0 <= dt)%Z ->
  Forall basic_op ops1 -> Forall tick_ok ops1 -> Forall basic_op ops2 -> Forall tick_ok ops2 ->
  expected_files m1 None (items false ops1) = closed1 ++ [cur1] ->
  let rs := [(0%Z, c1, ops1); (dt, c2, ops2)] in
  let e := ts_e c2 off in
  (0 <= t0 + e)%Z -> (t0 + elapsed (runs_ops_t rs) + e < sec_max)%Z -> (N.of_nat (length (runs_ops_t rs)) <= usize_max)%N ->
  exists keys,
    tsd_view c2 e (wfs (s_w (fst (run (sys0 t0 off) (runs_ops_t rs))))) keys
             (closed1 ++ expected_files m2 (Some cur1) (items false ops2))
    /\ keys_ok keys /\ (forall k, In k keys -> (t0 <= fst k <= t0 + elapsed (runs_ops_t rs))%Z).
Proof.
  intros H1 H2 T1 T2 Es Eu P1 Happ P2 Hdt Hb1 Ht1 Hb2 Ht2 E1 rs e Hlo Hhi Hmax.
  destruct (two_runs_ok c1 c2 m1 m2 dt ops1 ops2 H1 H2 T1 T2 Es Eu P1 (fun _ => P2) Hdt Hb1 Ht1 Hb2 Ht2) as [Hok [_ Hsz]].
  destruct (timestampsdirect_runs_partition (c_spec c2) (c_utc c2) t0 off rs Hok Hsz Hlo Hhi Hmax) as [keys [V [K Rg]]].
  exists keys. split; [|split; assumption]. specialize (V c2 eq_refl).
  replace (runs_files [] (strip rs)) with (closed1 ++ expected_files m2 (Some cur1) (items false ops2)) in V; [exact V|].
  change (strip rs) with (strip [(0%Z, c1, ops1)] ++ strip [(dt, c2, ops2)]).
  cbn [strip List.map app runs_files fst snd]. destruct H1 as [-> _]. destruct H2 as [-> _].
  rewrite files_after_fresh, E1, Happ, files_after_append. reflexivity.
Qed.
Print Assumptions timestampsdirect_append_partition.

Theorem timestampsdirect_append_rotates_iff c1 c2 m1 m2 t0 off dt ops1 ops2 closed1 cur1 i o b :
  tsdcfg c1 (CSize m1) -> tsdcfg c2 (CSize m2) -> tag_ok c1 -> tag_ok c2 -> c_spec c1 = c_spec c2 -> c_utc c1 = c_utc c2 ->
  (c_append c1 = true -> probe_ok c1) -> c_append c2 = true -> probe_ok c2 -> (0 <= dt)%Z ->
  Forall basic_op ops1 -> Forall tick_ok ops1 -> Forall basic_op ops2 -> Forall tick_ok ops2 ->
  expected_files m1 None (items false ops1) = closed1 ++ [cur1] ->
  let rs := [(0%Z, c1, ops1); (dt, c2, ops2)] in
  let e := ts_e c2 off in
  (0 <= t0 + e)%Z -> (t0 + elapsed (runs_ops_t rs) + e < sec_max)%Z -> (N.of_nat (length (runs_ops_t rs)) <= usize_max)%N ->
  nth_error ops2 i = Some o -> (o = OWrite b \/ o = OPlain b) ->
  nth_error (snd (run (fst (run (sys0 t0 off) (runs_ops_t [(0%Z, c1, ops1)]))) (OTick dt :: OStart c2 :: ops2))) (S (S i))
  = Some (ObsRes 0 (m2 <? N.of_nat (length (cur_of (s_run m2 (Some ([], cur1)) (from_first_write (firstn i ops2))))))%N).
Proof.
  intros H1 H2 T1 T2 Es Eu P1 Happ P2 Hdt Hb1 Ht1 Hb2 Ht2 E1 rs e Hlo Hhi Hmax Hi Hw.
  destruct (two_runs_ok c1 c2 m1 m2 dt ops1 ops2 H1 H2 T1 T2 Es Eu P1 (fun _ => P2) Hdt Hb1 Ht1 Hb2 Ht2) as [Hok [Hsz1 _]].
  rewrite (timestampsdirect_runs_rotates_iff (c_spec c2) (c_utc c2) t0 off [(0%Z, c1, ops1)] dt c2 m2 ops2 i o b Hok Hsz1 H2 Hlo Hhi Hmax Hi Hw).
  rewrite (strip_one c1 m1 0%Z ops1 H1), files_after_fresh, E1, Happ, start_of_append. reflexivity.
Qed.
Print Assumptions timestampsdirect_append_rotates_iff.

(* without append a new file is started at the first write: the files of run 1 stay, run 2 partitions as from a fresh start *)
Theorem timestampsdirect_noappend_partition c1 c2 m1 m2 t0 off dt ops1 ops2 :
  tsdcfg c1 (CSize m1) -> tsdcfg c2 (CSize m2) -> tag_ok c1 -> tag_ok c2 -> c_spec c1 = c_spec c2 -> c_utc c1 = c_utc c2 ->
  (c_append c1 = true -> probe_ok c1) -> c_append c2 = false -> (0 <= dt)%Z ->
  Forall basic_op ops1 -> Forall tick_ok ops1 -> Forall basic_op ops2 -> Forall tick_ok ops2 ->
  let rs := [(0%Z, c1, ops1); (dt, c2, ops2)] in
  let e := ts_e c2 off in
  (0 <= t0 + e)%Z -> (t0 + elapsed (runs_ops_t rs) + e < sec_max)%Z -> (N.of_nat (length (runs_ops_t rs)) <= usize_max)%N ->
  (exists keys,
    tsd_view c2 e (wfs (s_w (fst (run (sys0 t0 off) (runs_ops_t rs))))) keys
             (expected_files m1 None (items false ops1) ++ expected_files m2 None (items false ops2))
    /\ keys_ok keys /\ (forall k, In k keys -> (t0 <= fst k <= t0 + elapsed (runs_ops_t rs))%Z))
  /\ (forall i o b, nth_error ops2 i = Some o -> (o = OWrite b \/ o = OPlain b) ->
        nth_error (snd (run (fst (run (sys0 t0 off) (runs_ops_t [(0%Z, c1, ops1)]))) (OTick dt :: OStart c2 :: ops2))) (S (S i))
        = Some (ObsRes 0 (m2 <? N.of_nat (length (cur_of (s_run m2 None (firstn i ops2)))))%N)).
Proof.
  intros H1 H2 T1 T2 Es Eu P1 Happ Hdt Hb1 Ht1 Hb2 Ht2 rs e Hlo Hhi Hmax.
  assert (P2 : c_append c2 = true -> probe_ok c2) by (rewrite Happ; discriminate).
  destruct (two_runs_ok c1 c2 m1 m2 dt ops1 ops2 H1 H2 T1 T2 Es Eu P1 P2 Hdt Hb1 Ht1 Hb2 Ht2) as [Hok [Hsz1 Hsz]].
  split.
  - destruct (timestampsdirect_runs_partition (c_spec c2) (c_utc c2) t0 off rs Hok Hsz Hlo Hhi Hmax) as [keys [V [K Rg]]].
    exists keys. split; [|split; assumption]. specialize (V c2 eq_refl).
    replace (runs_files [] (strip rs)) with (expected_files m1 None (items false ops1) ++ expected_files m2 None (items false ops2)) in V; [exact V|].
    cbn [rs strip List.map app runs_files fst snd]. destruct H1 as [-> _]. destruct H2 as [-> _].
    rewrite files_after_fresh, Happ. reflexivity.
  - intros i o b Hi Hw.
    rewrite (timestampsdirect_runs_rotates_iff (c_spec c2) (c_utc c2) t0 off [(0%Z, c1, ops1)] dt c2 m2 ops2 i o b Hok Hsz1 H2 Hlo Hhi Hmax Hi Hw).
    rewrite Happ. reflexivity.
Qed.
Print Assumptions timestampsdirect_noappend_partition.

(* ================================================================== examples *)
Open Scope string_scope.
Definition tap_c1 : config := rsd_cfg false (CSize 3) None.
Definition tap_c2 : config := rsd_cfg true (CSize 5) (Some 3%nat).
Definition tap_c2n : config := rsd_cfg false (CSize 5) (Some 3%nat).
Definition tap_rs : list trun := [(0%Z, tap_c1, ap_ops1); (5%Z, tap_c2, ap_ops2)].

Lemma tap_ok app m cap : tsdcfg (rsd_cfg app (CSize m) cap) (CSize m).
Proof. apply tsd_cfg_ok. reflexivity. Qed.
Lemma ap_ops1_ticks : Forall tick_ok ap_ops1. Proof. repeat constructor. Qed.
Lemma ap_ops2_ticks : Forall tick_ok ap_ops2. Proof. repeat (constructor; [cbn [tick_ok]; first [exact Logic.I | lia]|]). constructor. Qed.

(* run 1 (limit 3) leaves <00:00:00> = abcd, <00:00:00>.restart-0000 = ef, <00:00:00>.restart-0001 = ghij.  Five seconds later
   the appending run 2 (limit 5, buffered) continues the newest file under its OLD name: "kl" goes into it, the clock advances
   by 7 seconds, "mn" rotates because the 4 bytes found count (6 > 5): the new file carries the second 12 *)
Example tsd_append_partition_dir :
  snap_of (fst (run (sys0 0 0) (runs_ops_t tap_rs)))
  = [ (bs "app_r1970-01-01_00-00-00.log", 0%N, bs "abcd");
      (bs "app_r1970-01-01_00-00-00.restart-0000.log", 0%N, bs "ef");
      (bs "app_r1970-01-01_00-00-00.restart-0001.log", 0%N, bs "ghijkl");
      (bs "app_r1970-01-01_00-00-12.log", 0%N, bs "mnop") ]
  /\ List.map rot_of (snd (run (fst (run (sys0 0 0) (runs_ops_t [(0%Z, tap_c1, ap_ops1)]))) (OTick 5 :: OStart tap_c2 :: ap_ops2)))
     = [false; false; false; false; false; true; false]
  /\ expected_files 3 None (items false ap_ops1) = [bs "abcd"; bs "ef"] ++ [bs "ghij"]
  /\ expected_files 5 (Some (bs "ghij")) (items false ap_ops2) = [bs "ghijkl"; bs "mnop"].
Proof. vm_compute. repeat split; reflexivity. Qed.

(* the theorem applies: its hypotheses can be met *)
Example tsd_append_partition_instance :
  exists keys,
    tsd_view tap_c2 0 (wfs (s_w (fst (run (sys0 0 0) (runs_ops_t tap_rs))))) keys ([bs "abcd"; bs "ef"] ++ [bs "ghijkl"; bs "mnop"])
    /\ keys_ok keys /\ (forall k, In k keys -> (0 <= fst k <= 12)%Z).
Proof.
  change [bs "ghijkl"; bs "mnop"] with (expected_files 5 (Some (bs "ghij")) (items false ap_ops2)).
  apply (timestampsdirect_append_partition tap_c1 tap_c2 3 5 0 0 5 ap_ops1 ap_ops2 [bs "abcd"; bs "ef"] (bs "ghij")).
  - apply tap_ok.
  - apply tap_ok.
  - apply rsd_cfg_tag_ok.
  - apply rsd_cfg_tag_ok.
  - reflexivity.
  - reflexivity.
  - intros _. apply rsd_cfg_probe_ok.
  - reflexivity.
  - apply rsd_cfg_probe_ok.
  - lia.
  - exact ap_ops1_basic.
  - exact ap_ops1_ticks.
  - exact ap_ops2_basic.
  - exact ap_ops2_ticks.
  - vm_compute. reflexivity.
  - change (0 <= 0)%Z. lia.
  - change (12 < sec_max)%Z. unfold sec_max. lia.
  - vm_compute. discriminate.
Qed.

Example tsd_append_rotates_instance :
  nth_error (snd (run (fst (run (sys0 0 0) (runs_ops_t [(0%Z, tap_c1, ap_ops1)]))) (OTick 5 :: OStart tap_c2 :: ap_ops2))) 5
  = Some (ObsRes 0 true).
Proof.
  rewrite (timestampsdirect_append_rotates_iff tap_c1 tap_c2 3 5 0 0 5 ap_ops1 ap_ops2 [bs "abcd"; bs "ef"] (bs "ghij") 3
             (OWrite (bs "mn")) (bs "mn")).
  - vm_compute. reflexivity.
  - apply tap_ok.
  - apply tap_ok.
  - apply rsd_cfg_tag_ok.
  - apply rsd_cfg_tag_ok.
  - reflexivity.
  - reflexivity.
  - intros _. apply rsd_cfg_probe_ok.
  - reflexivity.
  - apply rsd_cfg_probe_ok.
  - lia.
  - exact ap_ops1_basic.
  - exact ap_ops1_ticks.
  - exact ap_ops2_basic.
  - exact ap_ops2_ticks.
  - vm_compute. reflexivity.
  - change (0 <= 0)%Z. lia.
  - change (12 < sec_max)%Z. unfold sec_max. lia.
  - vm_compute. discriminate.
  - reflexivity.
  - left. reflexivity.
Qed.

(* without append: a new file in the second 5, the 4 bytes of "ghij" do not count: klmnop (limit 5) stays in one file *)
Example tsd_noappend_partition_dir :
  snap_of (fst (run (sys0 0 0) (runs_ops_t [(0%Z, tap_c1, ap_ops1); (5%Z, tap_c2n, ap_ops2)])))
  = [ (bs "app_r1970-01-01_00-00-00.log", 0%N, bs "abcd");
      (bs "app_r1970-01-01_00-00-00.restart-0000.log", 0%N, bs "ef");
      (bs "app_r1970-01-01_00-00-00.restart-0001.log", 0%N, bs "ghij");
      (bs "app_r1970-01-01_00-00-05.log", 0%N, bs "klmnop") ]
  /\ expected_files 3 None (items false ap_ops1) ++ expected_files 5 None (items false ap_ops2)
     = [bs "abcd"; bs "ef"; bs "ghij"; bs "klmnop"].
Proof. vm_compute. split; reflexivity. Qed.

(* five runs: (3) an appending writer with the limit 0 that triggers and flushes but never writes changes nothing - the file
   found is not even looked at -; (4) appends with the limit 3: a trigger before the first write does nothing, the first write
   finds "mnop" (4 > 3) and rotates; (5) without append, in the same second: the next restart counter *)
Definition tap_rs5 : list trun :=
  [(0%Z, tap_c1, ap_ops1); (5%Z, tap_c2, ap_ops2); (1%Z, rsd_cfg true (CSize 0) None, [OTrigger; OFlush; OTick 2]);
   (1%Z, rsd_cfg true (CSize 3) None, [OTrigger; OWrite (bs "q"); OWrite (bs "r")]); (0%Z, tap_c2n, [OWrite (bs "s")])].

Example tsd_runs_partition_dir :
  snap_of (fst (run (sys0 0 0) (runs_ops_t tap_rs5)))
  = [ (bs "app_r1970-01-01_00-00-00.log", 0%N, bs "abcd");
      (bs "app_r1970-01-01_00-00-00.restart-0000.log", 0%N, bs "ef");
      (bs "app_r1970-01-01_00-00-00.restart-0001.log", 0%N, bs "ghijkl");
      (bs "app_r1970-01-01_00-00-12.log", 0%N, bs "mnop");
      (bs "app_r1970-01-01_00-00-16.log", 0%N, bs "qr");
      (bs "app_r1970-01-01_00-00-16.restart-0000.log", 0%N, bs "s") ]
  /\ runs_files [] (strip tap_rs5) = [bs "abcd"; bs "ef"; bs "ghijkl"; bs "mnop"; bs "qr"; bs "s"].
Proof. vm_compute. split; reflexivity. Qed.

Lemma tap_rs5_ok : Forall (run_ok_tsd rsd_sp false) tap_rs5 /\ Forall size_run_tsd tap_rs5.
Proof.
  split.
  - unfold tap_rs5.
    repeat (apply Forall_cons;
            [apply run_ok_tsd_intro; split; [lia|]; split; [reflexivity|]; split; [reflexivity|];
             split; [eexists; apply tsd_cfg_ok; reflexivity|]; split; [apply rsd_cfg_tag_ok|];
             split; [repeat constructor|];
             split; [repeat (apply Forall_cons; [cbn [tick_ok]; first [exact Logic.I | lia]|]); apply Forall_nil|];
             intros _; apply rsd_cfg_probe_ok|]).
    apply Forall_nil.
  - unfold tap_rs5. repeat (apply Forall_cons; [eexists; apply tsd_cfg_ok; reflexivity|]). apply Forall_nil.
Qed.

Example tsd_runs_partition_instance :
  exists keys,
    (forall c, c_spec c = rsd_sp ->
       tsd_view c 0 (wfs (s_w (fst (run (sys0 0 0) (runs_ops_t tap_rs5))))) keys [bs "abcd"; bs "ef"; bs "ghijkl"; bs "mnop"; bs "qr"; bs "s"])
    /\ keys_ok keys /\ (forall k, In k keys -> (0 <= fst k <= 16)%Z).
Proof.
  change [bs "abcd"; bs "ef"; bs "ghijkl"; bs "mnop"; bs "qr"; bs "s"] with (runs_files [] (strip tap_rs5)).
  apply (timestampsdirect_runs_partition rsd_sp false 0 0 tap_rs5 (proj1 tap_rs5_ok) (proj2 tap_rs5_ok));
    [change (0 <= 0)%Z; lia | change (16 + 0 < sec_max)%Z; unfold sec_max; lia | vm_compute; discriminate].
Qed.

(* a trigger before the first write of the appending run does nothing here either; the content found counts at the write *)
Example tsd_append_trigger_before_first_write :
  List.map rot_of (snd (run (fst (run (sys0 0 0) (runs_ops_t (firstn 3 tap_rs5))))
                            (OTick 1 :: OStart (rsd_cfg true (CSize 3) None) :: [OTrigger; OWrite (bs "q"); OWrite (bs "r")])))
  = [false; false; false; true; false]
  /\ (3 <? N.of_nat (length (cur_before 3 (start_of (runs_files [] (strip (firstn 3 tap_rs5))) true) (firstn 1 [OTrigger; OWrite (bs "q"); OWrite (bs "r")]))))%N = true.
Proof. vm_compute. split; reflexivity. Qed.

(* ================================================================== any start state *)
(* x: no writer, the directory reads d (IdleTd: what any sequence of runs leaves behind; files filesD d in the order of
   their keys).  One more run, dt seconds later: the partition continues from d, the flags count what is found *)
Theorem timestampsdirect_partition_any_start c m e off lo hi n x d dt ops :
  tsdcfg c (CSize m) -> tag_ok c -> years_ok e lo hi -> (c_append c = true -> probe_ok c) -> IdleTd c e off lo n x d -> (0 <= dt)%Z ->
  Forall basic_op ops -> Forall tick_ok ops ->
  (wnow (s_w x) + elapsed (run_t dt c ops) <= hi)%Z -> (N.of_nat (n + length (run_t dt c ops)) <= usize_max)%N ->
  (exists keys, tsd_view c e (wfs (s_w (fst (run x (run_t dt c ops))))) keys (files_after (filesD d) (c_append c) m ops) /\ keys_ok keys)
  /\ (forall i o b, nth_error ops i = Some o -> (o = OWrite b \/ o = OPlain b) ->
        nth_error (snd (run x (OTick dt :: OStart c :: ops))) (S (S i))
        = Some (ObsRes 0 (m <? N.of_nat (length (cur_before m (start_of (filesD d) (c_append c)) (firstn i ops))))%N)).
Proof.
  intros Hcfg T Y Hao Id Hdt Hb Htk Hhi Hmax.
  destruct (one_run_tz c m e off lo hi n x d dt ops Hcfg T Y Hao Id Hdt Hb Htk Hhi Hmax) as [[d' [Id' [F _]]] C].
  split; [|exact C].
  destruct (idleTd_view (c_spec c) c e off lo _ _ d' eq_refl Id') as [V [_ [K _]]].
  exists (keysD d'). rewrite <- F. split; [apply V; reflexivity | exact K].
Qed.
Print Assumptions timestampsdirect_partition_any_start.

Example tsd_any_start_instance :
  exists d, IdleTd tap_c2 0 0 0 (length (runs_ops_t [(0%Z, tap_c1, ap_ops1)])) (fst (run (sys0 0 0) (runs_ops_t [(0%Z, tap_c1, ap_ops1)]))) d
            /\ filesD d = [bs "abcd"; bs "ef"; bs "ghij"]
            /\ files_after (filesD d) (c_append tap_c2) 5 ap_ops2 = [bs "abcd"; bs "ef"; bs "ghijkl"; bs "mnop"].
Proof.
  assert (Y : years_ok 0 0 0) by (split; [lia | unfold sec_max; lia]).
  destruct (two_runs_ok tap_c1 tap_c2 3 5 5 ap_ops1 ap_ops2 (tap_ok _ _ _) (tap_ok _ _ _) (rsd_cfg_tag_ok _ _ _) (rsd_cfg_tag_ok _ _ _)
              eq_refl eq_refl (fun _ => rsd_cfg_probe_ok _ _ _) (fun _ => rsd_cfg_probe_ok _ _ _) ltac:(lia)
              ap_ops1_basic ap_ops1_ticks ap_ops2_basic ap_ops2_ticks) as [Hok [Hsz _]].
  inversion Hok as [|r0 r' Hok1 _]; subst.
  destruct (runs_rel_tz rsd_sp false 0 0 0 Y [(0%Z, tap_c1, ap_ops1)] (sys0 0 0) None tap_c2 0 eq_refl eq_refl
              (Forall_cons _ Hok1 (Forall_nil _)) Hsz (idleTd0 tap_c2 0 0)
              ltac:(vm_compute; discriminate) ltac:(vm_compute; discriminate)) as [d [Id [F _]]].
  exists d. split; [exact Id|]. rewrite F. split; vm_compute; reflexivity.
Qed.
