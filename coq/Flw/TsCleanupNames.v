(* Time-stamp namings with cleanup, part 1: the names.  The rotated files are named by keys (second, position within the
   second): kname c e k = <fixed>_r<YYYY-MM-DD_HH-MM-SS>[.restart-NNNN].<suffix>, their archives carry an additional ".gz".
   - the sort key of the listing (read_dir_related_files) orders these names - plain or archive, mixed - by their KEYS: for
     different seconds by the time-stamp text (which is monotone in the second, TsMono.v), within a second by the restart
     counter, the file without counter first (SortFacts.v);
   - so the listing of the cleanup,  list_log_gz .. (IFTs std_fmt),  of a directory that holds the plain files of the keys
     mid <= i < L and the archives of the keys lo <= i < mid is EXACTLY: newest first the plain files by descending key, then
     the archives by descending key (list_log_gz_ts);
   - collision_free_infix on such a directory (files of older keys removed, some compressed) still answers with the next
     position of the second asked for, provided the newest file of that second is still there, plain or compressed
     (collision_free_infix_tsk). *)
Require Import FL.Base.Bytes FL.Base.BytesFacts FL.Base.PathName FL.Fs.Fs FL.Fs.FsFacts FL.Time.Civil FL.Time.TsFormat
  FL.Names.FileSpec FL.Names.NamesFacts FL.Names.SortFacts FL.Names.FamilyFacts FL.Flw.Model FL.Flw.ModelFacts FL.Flw.NumFs
  FL.Flw.NumInv FL.Flw.Run FL.Flw.NumRun FL.Flw.NumListing FL.Flw.CleanupFacts FL.Flw.NumCleanupNames FL.Flw.NumCleanupStep
  FL.Flw.TsCal FL.Flw.TsTime FL.Flw.TsMono FL.Flw.TsNames FL.Flw.TsInv FL.Flw.TsReader FL.Flw.TsParse FL.Flw.ForeignModel
  FL.Flw.ListingExact FL.Flw.GenCleanup.
From Coq Require Import ZifyN ZifyNat ZifyBool Permutation Sorted.
Open Scope nat_scope.

(* ------------------------------------------------------------------ the text of a time stamp ends with  <digit> - <digits> *)
Lemma all_digits_last (D : bytes) : D <> [] -> all_digits D = true -> exists D0 d, D = D0 ++ [d] /\ is_digit d = true.
Proof.
  intros Hne Hd. destruct (exists_last Hne) as [D0 [d ->]]. exists D0, d. split; [reflexivity|].
  apply (all_digits_in _ d Hd). apply in_or_app. right. left. reflexivity.
Qed.

Lemma pad_dec_nonempty w z : pad_dec w z <> [].
Proof. unfold pad_dec, pad_left. intros E. apply app_eq_nil in E. exact (dec_nonempty _ (proj2 E)). Qed.

Lemma tsx_tail e t : in_years e t ->
  exists P d D, tsx e t = P ++ d :: 45%N :: D /\ is_digit d = true /\ D <> [] /\ all_digits D = true.
Proof.
  intros H. destruct (tsx_text e t H) as [-> Ok]. unfold std_text. set (cv := civil_of (t + e)%Z).
  destruct (all_digits_last (pad_dec 2 (cmi cv)) (pad_dec_nonempty _ _) (pad_dec_digits _ _)) as [M0 [d [EM Hd]]].
  exists (114%N :: pad_dec 4 (cy cv) ++ 45%N :: pad_dec 2 (cmo cv) ++ 45%N :: pad_dec 2 (cd cv) ++ 95%N :: pad_dec 2 (ch cv) ++ 45%N :: M0),
         d, (pad_dec 2 (cs cv)).
  split; [|split; [exact Hd | split; [apply pad_dec_nonempty | apply pad_dec_digits]]].
  rewrite EM. repeat (rewrite <- app_assoc || rewrite <- app_comm_cons). reflexivity.
Qed.

(* the decomposition  <anything> <non-digit> <digits>  is unique *)
Lemma last_nondigit_split (u v a b : bytes) (x y : N) :
  all_digits a = true -> all_digits b = true -> is_digit x = false -> is_digit y = false ->
  u ++ x :: a = v ++ y :: b -> u = v /\ x = y /\ a = b.
Proof.
  intros Ha Hb Hx Hy. revert v. induction u as [|p u IH]; intros [|q v] H; cbn [app] in H.
  - injection H as -> ->. auto.
  - injection H as _ H. exfalso. assert (I : In y a) by (rewrite H; apply in_or_app; right; left; reflexivity).
    rewrite (all_digits_in _ _ Ha I) in Hy. discriminate.
  - injection H as _ H. exfalso. assert (I : In x b) by (rewrite <- H; apply in_or_app; right; left; reflexivity).
    rewrite (all_digits_in _ _ Hb I) in Hx. discriminate.
  - injection H as -> H. destruct (IH v H) as (-> & -> & ->). auto.
Qed.

(* the stem  <anything> <time stamp>  carries neither a restart counter nor a number *)
Lemma stem_key_stamp F e t : in_years e t -> stem_key (F ++ tsx e t) = (F ++ tsx e t, None).
Proof.
  intros H. destruct (tsx_tail e t H) as (P & d & D & E & Hd & Hne & HD).
  destruct (stem_key_cases' (F ++ tsx e t)) as [K|(X & D' & r & HB & _ & HD' & _)]; [exact K | exfalso].
  rewrite E in HB. unfold restart_tag in HB. cbn [app] in HB.
  assert (HB' : (F ++ P ++ [d]) ++ 45%N :: D = (X ++ [46; 114; 101; 115; 116; 97; 114]%N ++ [116%N]) ++ 45%N :: D')
    by (rewrite <- !app_assoc; cbn [app]; exact HB).
  apply last_nondigit_split in HB'; [|exact HD | exact HD' | reflexivity | reflexivity].
  destruct HB' as [HB' _]. rewrite !app_assoc in HB'. apply app_inj_tail in HB'. destruct HB' as [_ HB']. subst d. discriminate Hd.
Qed.

Lemma main_key_stamp F e t : in_years e t -> main_key (F ++ tsx e t) = (F ++ tsx e t, None).
Proof.
  intros H. destruct (tsx_tail e t H) as (P & d & D & E & Hd & Hne & HD).
  apply (main_key_tail _ (F ++ P ++ [d]) 45%N D); [|exact HD | reflexivity | discriminate].
  rewrite E, <- !app_assoc. reflexivity.
Qed.

(* ------------------------------------------------------------------ the sort key of a name of the family *)
Definition rkey_of (m : nat) : option (nat * bytes) :=
  match m with
  | O => None
  | S m' => Some (length (drop_zeros (restart_digits (N.of_nat m'))), drop_zeros (restart_digits (N.of_nat m')))
  end.

Lemma kname_tsx0 c e t : kname c e (t, 0) = as_name (c_spec c) (fixed0 c) (Some (tsx e t)).
Proof. reflexivity. Qed.
Lemma kname_tsxS c e t m : kname c e (t, S m) = as_name (c_spec c) (fixed0 c) (Some (restart_infix (tsx e t) (N.of_nat m))).
Proof. reflexivity. Qed.

(* sfx_ok (c_spec c) and TsReader.not_gz c are the same condition *)
Lemma sfx_ok_not_gz_c c : sfx_ok (c_spec c) -> TsReader.not_gz c.
Proof. intros H. exact H. Qed.

Lemma sort_key_kname c e k (g : bool) : sfx_ok (c_spec c) -> in_years e (fst k) ->
  sort_key (fsfx (c_spec c)) (add_gz g (kname c e k)) = (under (fixed0 c) ++ tsx e (fst k), None, rkey_of (snd k)).
Proof.
  intros G H. destruct k as [t m]. cbn [fst snd] in *.
  assert (Hne : tsx e t <> []) by (apply tsx_nonempty; exact H).
  assert (Hgz : strip_suffix (dot :: gz_sfx) (as_name (c_spec c) (fixed0 c) (Some (tsx e t))) = None)
    by (rewrite <- kname_tsx0; apply (kname_no_gz c e (t, 0) G H)).
  destruct m as [|m].
  - rewrite kname_tsx0. rewrite (sk_as_name_some _ _ _ Hne) in *.
    rewrite sort_key_stem, (sk_stem_with_suffix _ _ _ Hgz). unfold full_key.
    rewrite (stem_key_stamp _ e t H). cbn [fst snd]. rewrite (main_key_stamp _ e t H). reflexivity.
  - rewrite kname_tsxS, (sort_key_restart_name (c_spec c) (fixed0 c) (tsx e t) (tsx e t) (N.of_nat m) g Hne Hgz).
    rewrite (main_key_stamp _ e t H). reflexivity.
Qed.

(* names of the family - plain or archive, mixed - are ordered by their keys *)
Theorem key_le_kname c e k1 k2 (g1 g2 : bool) : sfx_ok (c_spec c) -> in_years e (fst k1) -> in_years e (fst k2) -> klt k1 k2 ->
  key_le (fsfx (c_spec c)) (add_gz g1 (kname c e k1)) (add_gz g2 (kname c e k2)) = true.
Proof.
  intros G H1 H2 [Hlt|[Heq Hlt]].
  - pose proof (sort_key_kname c e k1 g1 G H1) as E1. pose proof (sort_key_kname c e k2 g2 G H2) as E2.
    assert (Hd : under (fixed0 c) ++ tsx e (fst k1) <> under (fixed0 c) ++ tsx e (fst k2)).
    { intros E. apply app_inv_head in E. apply tsx_inj in E; [lia | assumption | assumption]. }
    rewrite (key_le_by_main _ _ _ _ _ _ _ _ _ E1 E2 Hd). unfold lex_le. rewrite lex_lt_app_head.
    rewrite (lex_lt_asym _ _ (tsx_mono e _ _ H1 H2 Hlt)). reflexivity.
  - destruct k1 as [t m1], k2 as [t2 m2]. cbn [fst snd] in *. subst t2.
    assert (Hne : tsx e t <> []) by (apply tsx_nonempty; exact H1).
    assert (Hgz : strip_suffix (dot :: gz_sfx) (as_name (c_spec c) (fixed0 c) (Some (tsx e t))) = None)
      by (rewrite <- kname_tsx0; apply (kname_no_gz c e (t, 0) G H1)).
    destruct m2 as [|m2]; [lia|]. destruct m1 as [|m1].
    + rewrite kname_tsx0, kname_tsxS.
      exact (proj1 (naming_plain_before_restart (c_spec c) _ (fixed0 c) (tsx e t) (N.of_nat m2) g1 g2 eq_refl Hne Hgz)).
    + rewrite !kname_tsxS.
      exact (proj1 (naming_restart_order (c_spec c) _ (fixed0 c) (tsx e t) (tsx e t) (N.of_nat m1) (N.of_nat m2) g1 g2 eq_refl Hne Hgz
                      ltac:(lia))).
Qed.

(* ------------------------------------------------------------------ the names by position *)
Definition tname (c : config) (e : Z) (keys : list key) (i : nat) : bytes := kname c e (nth i keys kd).

Lemma tname_snoc c e keys k i : i < length keys -> tname c e (keys ++ [k]) i = tname c e keys i.
Proof. intros Hi. unfold tname. rewrite app_nth1 by exact Hi. reflexivity. Qed.
Lemma tname_last c e keys k : tname c e (keys ++ [k]) (length keys) = kname c e k.
Proof. unfold tname. rewrite app_nth2, Nat.sub_diag by lia. reflexivity. Qed.

Lemma strip_none_ext_is n : strip_suffix (dot :: gz_sfx) n = None -> ext_is n gz_sfx = false.
Proof.
  intros X. destruct (ext_is n gz_sfx) eqn:E; [exfalso | reflexivity].
  apply ext_is_gz_suffix in E. destruct E as [st E]. rewrite E in X. unfold dot_gz in X. rewrite strip_suffix_app in X. discriminate.
Qed.

Lemma kname_nonempty c e k : in_years e (fst k) -> kname c e k <> [].
Proof.
  intros H E. rewrite kname_shape in E by exact H. apply app_eq_nil in E. destruct E as [_ E].
  apply app_eq_nil in E. destruct E as [E _]. exact (tsx_nonempty e _ H E).
Qed.

Lemma gz_kname_not_cname c e k : in_years e (fst k) -> gz_name (kname c e k) <> cname c.
Proof.
  intros H E. rewrite gz_name_app, kname_shape, cname_shape, <- !app_assoc in E by exact H. apply app_inv_head in E.
  exact (tsx_app_not_cur e (fst k) _ _ H E).
Qed.

Lemma add_gz_true n : add_gz true n = gz_name n.
Proof. rewrite gz_name_app. reflexivity. Qed.

Lemma gnames_ts c e (keys : list key) : sfx_ok (c_spec c) -> keys_ok keys -> (forall k, In k keys -> in_years e (fst k)) ->
  gnames (tname c e keys) (cname c) (length keys).
Proof.
  intros G K Y.
  assert (Yi : forall i, i < length keys -> in_years e (fst (nth i keys kd))) by (intros i Hi; apply Y, nth_In; exact Hi).
  constructor.
  - intros i j Hi Hj E. unfold tname in E. apply kname_inj in E; [|apply Yi; exact Hi | apply Yi; exact Hj].
    exact (keys_distinct keys K i j Hi Hj E).
  - intros i Hi. apply kname_nonempty, Yi, Hi.
  - intros i Hi. apply strip_none_ext_is. apply (kname_no_gz c e _ G (Yi i Hi)).
  - intros i Hi. split; [apply kname_not_cname, Yi, Hi | apply gz_kname_not_cname, Yi, Hi].
Qed.

(* ------------------------------------------------------------------ the family test with the time-stamp filter *)
Section Filters.
Variables (off : Z) (c : config) (e : Z).
Hypothesis G : sfx_ok (c_spec c).
Let sfx := fsfx (c_spec c).

Lemma sfx_not_gz : fsfx (c_spec c) <> Some gz_sfx.
Proof. intros E. pose proof (sfx_ok_not_gz _ _ G E) as X. rewrite beq_refl in X. discriminate. Qed.

Lemma qf_kname_plain k : in_years e (fst k) -> qf off sfx (fixed0 c) (IFTs std_fmt) sfx (kname c e k) = true.
Proof. intros Y. unfold qf, sfx. rewrite (candidate_kname c e k Y). cbn [filter_infix]. rewrite (canonical_tsx e _ Y). reflexivity. Qed.

Lemma qf_kname_gz k : in_years e (fst k) -> qf off sfx (fixed0 c) (IFTs std_fmt) (Some gz_sfx) (kname c e k) = false.
Proof. intros Y. unfold qf, infix_candidate. rewrite (kname_no_gz c e k G Y). reflexivity. Qed.

Lemma qf_gzk_gz k : in_years e (fst k) -> qf off sfx (fixed0 c) (IFTs std_fmt) (Some gz_sfx) (gz_name (kname c e k)) = true.
Proof. intros Y. apply qf_plain_gz_name; [exact sfx_not_gz | apply qf_kname_plain; exact Y]. Qed.

Lemma digits_not_gz_end (X Y d : bytes) : d <> [] -> all_digits d = true -> X ++ dot_gz <> Y ++ d.
Proof.
  intros Hne Hd E. destruct (all_digits_last d Hne Hd) as [d0 [x [-> Hx]]].
  change dot_gz with ([46; 103]%N ++ [122%N]) in E. rewrite !app_assoc in E. apply app_inj_tail in E. destruct E as [_ E].
  subst x. discriminate Hx.
Qed.

Lemma qf_gzk_plain k : in_years e (fst k) -> qf off sfx (fixed0 c) (IFTs std_fmt) sfx (gz_name (kname c e k)) = false.
Proof.
  intros Y. unfold qf, sfx. rewrite infix_candidate_plain, gz_name_app, (kname_shape c e k Y). unfold sfxs. pose proof G as G'. unfold sfx_ok in G'.
  destruct (fsfx (c_spec c)) as [s|].
  - replace ((under (fixed0 c) ++ tsx e (fst k) ++ ktail (snd k) ++ dot :: s) ++ dot_gz)
      with ((under (fixed0 c) ++ tsx e (fst k) ++ ktail (snd k)) ++ (dot :: s) ++ dot :: gz_sfx)
      by (unfold dot_gz; rewrite <- !app_assoc; reflexivity).
    rewrite (strip_sfx_gz_none s _ G'). reflexivity.
  - rewrite app_nil_r.
    destruct (cand_core (fixed0 c) ((under (fixed0 c) ++ tsx e (fst k) ++ ktail (snd k)) ++ dot_gz)) as [infix|] eqn:E; [exfalso | reflexivity].
    apply cand_core_spec in E. destruct E as (rs & Hrs & Hnd & _ & E).
    rewrite <- !app_assoc in E. apply app_inv_head in E.
    destruct Hrs as [->|(d & -> & Hl & Hd)].
    + rewrite app_nil_r in E. apply Hnd. rewrite <- E. apply in_or_app. right. apply in_or_app. right. left. reflexivity.
    + rewrite (app_assoc (tsx e (fst k))) in E.
      change (infix ++ dot :: restart_word ++ d) with (infix ++ (dot :: restart_word) ++ d) in E. rewrite (app_assoc infix) in E.
      apply (digits_not_gz_end _ _ d) in E; [exact E | destruct d; [cbn [length] in Hl; lia | discriminate] | exact Hd].
Qed.

Lemma qf_cname_ts_plain : qf off sfx (fixed0 c) (IFTs std_fmt) sfx (cname c) = false.
Proof. unfold qf, sfx. rewrite candidate_cname. cbn [filter_infix]. rewrite cur_infix_not_canonical. reflexivity. Qed.
Lemma qf_cname_ts_gz : qf off sfx (fixed0 c) (IFTs std_fmt) (Some gz_sfx) (cname c) = false.
Proof. unfold qf, infix_candidate. rewrite (cname_no_gz c G). reflexivity. Qed.
End Filters.

(* ------------------------------------------------------------------ THE LISTING *)
Section TsListing.
Variables (c : config) (e : Z) (off : Z) (f : fs) (keys : list key) (closed : list bytes) (lo mid : nat).
Hypothesis Hsfx : sfx_ok (c_spec c).
Hypothesis Hko : keys_ok keys.
Hypothesis Hy : forall k, In k keys -> in_years e (fst k).
Hypothesis Hlen : length keys = length closed.
Hypothesis KD : gdir (tname c e keys) (cname c) f closed lo mid.

Let L := length closed.
Let sfx := fsfx (c_spec c).
Let S := sort_by_key sfx (filter (fun n => is_reg_file f n && is_prefix (fixed0 c) n) (dir_names f)).

Let Yi : forall i, i < L -> in_years e (fst (nth i keys kd)).
Proof. intros i Hi. apply Hy, nth_In. rewrite Hlen. exact Hi. Qed.

Lemma tS_sorted : StronglySorted (key_rel sfx) S.
Proof. apply sort_by_key_strongly_sorted. Qed.
Lemma tS_nodup : NoDup S.
Proof. eapply Permutation_NoDup; [apply Permutation_sym, sort_by_key_perm|]. apply NoDup_filter. exact (gd_nodup _ _ _ _ _ _ KD). Qed.
Lemma tS_in n : In n S <-> (exists j, lookup f n = Some j) /\ is_reg_file f n = true /\ is_prefix (fixed0 c) n = true.
Proof. unfold S. rewrite In_sort_by_key, filter_In, andb_true_iff, dir_names_lookup. tauto. Qed.

Lemma tname_order i j (g1 g2 : bool) : i < j -> j < L ->
  key_le sfx (add_gz g1 (tname c e keys i)) (add_gz g2 (tname c e keys j)) = true.
Proof.
  intros Hij Hj. unfold tname, sfx. apply key_le_kname; [exact Hsfx | apply Yi; lia | apply Yi; lia|].
  apply (keys_sorted keys Hko). rewrite Hlen. fold L. lia.
Qed.

Lemma ts_plain_part :
  filter (qf off sfx (fixed0 c) (IFTs std_fmt) sfx) S = map (tname c e keys) (seq mid (L - mid)).
Proof.
  pose proof (gnames_ts c e keys Hsfx Hko Hy) as GN. rewrite Hlen in GN. fold L in GN.
  pose proof (gd_le _ _ _ _ _ _ KD) as Hle. fold L in Hle.
  apply (sorted_unique (key_rel sfx)).
  - intros x y. apply key_le_antisym.
  - apply StronglySorted_filter, tS_sorted.
  - apply StronglySorted_map_seq. intros i j Hi Hij Hj. unfold key_rel.
    apply (tname_order i j false false Hij). lia.
  - apply NoDup_filter, tS_nodup.
  - apply NoDup_nth_error. intros i j Hi E. rewrite map_length, seq_length in Hi.
    rewrite !nth_error_map in E. rewrite (nth_error_nth' _ 0) in E by (rewrite seq_length; exact Hi). rewrite seq_nth in E by exact Hi.
    destruct (Nat.lt_ge_cases j (L - mid)) as [Hj|Hj].
    + rewrite (nth_error_nth' _ 0) in E by (rewrite seq_length; exact Hj). rewrite seq_nth in E by exact Hj. cbn [option_map] in E.
      injection E as E. apply (gn_inj _ _ _ GN) in E; lia.
    + rewrite (proj2 (nth_error_None _ _)) in E by (rewrite seq_length; exact Hj). discriminate.
  - intros x. rewrite filter_In, tS_in, in_map_iff. split.
    + intros [[[j Lj] _] Q]. destruct (gd_only _ _ _ _ _ _ KD x j Lj) as [->|[(i & Hi & ->)|(i & Hi & ->)]].
      * unfold sfx in Q. rewrite qf_cname_ts_plain in Q. discriminate.
      * exists i. split; [reflexivity | apply in_seq; fold L in Hi; lia].
      * unfold sfx, gzf, tname in Q. rewrite qf_gzk_plain in Q by (exact Hsfx || (apply Yi; lia)). discriminate.
    + intros (i & <- & Hi). apply in_seq in Hi. destruct (gd_plain _ _ _ _ _ _ KD i ltac:(fold L; lia)) as (j & Lj & [_ Dj] & _).
      split; [split; [eauto | split]|].
      * unfold is_reg_file, file_of. rewrite Lj, Dj. reflexivity.
      * unfold tname. rewrite kname_shape by (apply Yi; lia). apply is_prefix_under.
      * unfold tname, sfx. apply qf_kname_plain. apply Yi. lia.
Qed.

Lemma ts_arch_part :
  filter (qf off sfx (fixed0 c) (IFTs std_fmt) (Some gz_sfx)) S = map (gzf (tname c e keys)) (seq lo (mid - lo)).
Proof.
  pose proof (gnames_ts c e keys Hsfx Hko Hy) as GN. rewrite Hlen in GN. fold L in GN.
  pose proof (gd_le _ _ _ _ _ _ KD) as Hle. fold L in Hle.
  apply (sorted_unique (key_rel sfx)).
  - intros x y. apply key_le_antisym.
  - apply StronglySorted_filter, tS_sorted.
  - apply StronglySorted_map_seq. intros i j Hi Hij Hj. unfold key_rel, gzf. rewrite <- !add_gz_true.
    apply (tname_order i j true true Hij). lia.
  - apply NoDup_filter, tS_nodup.
  - apply NoDup_nth_error. intros i j Hi E. rewrite map_length, seq_length in Hi.
    rewrite !nth_error_map in E. rewrite (nth_error_nth' _ 0) in E by (rewrite seq_length; exact Hi). rewrite seq_nth in E by exact Hi.
    destruct (Nat.lt_ge_cases j (mid - lo)) as [Hj|Hj].
    + rewrite (nth_error_nth' _ 0) in E by (rewrite seq_length; exact Hj). rewrite seq_nth in E by exact Hj. cbn [option_map] in E.
      injection E as E. apply (gzf_inj _ _ _ GN) in E; lia.
    + rewrite (proj2 (nth_error_None _ _)) in E by (rewrite seq_length; exact Hj). discriminate.
  - intros x. rewrite filter_In, tS_in, in_map_iff. split.
    + intros [[[j Lj] _] Q]. destruct (gd_only _ _ _ _ _ _ KD x j Lj) as [->|[(i & Hi & ->)|(i & Hi & ->)]].
      * unfold sfx in Q. rewrite qf_cname_ts_gz in Q by exact Hsfx. discriminate.
      * unfold sfx, tname in Q. rewrite qf_kname_gz in Q by (exact Hsfx || (apply Yi; fold L in Hi; lia)). discriminate.
      * exists i. split; [reflexivity | apply in_seq; lia].
    + intros (i & <- & Hi). apply in_seq in Hi. destruct (gd_arch _ _ _ _ _ _ KD i ltac:(lia)) as (j & Lj & _ & _ & Dj).
      split; [split; [eauto | split]|].
      * unfold is_reg_file, file_of. rewrite Lj, Dj. reflexivity.
      * unfold gzf, tname. rewrite gz_name_app, kname_shape, <- app_assoc by (apply Yi; lia). apply is_prefix_under.
      * unfold gzf, tname, sfx. apply qf_gzk_gz; [exact Hsfx | apply Yi; lia].
Qed.

(* newest first: the plain files by descending key, then the archives by descending key *)
Theorem list_log_gz_ts :
  list_log_gz off (c_spec c) (fixed0 c) f (IFTs std_fmt) = Some (glisting (tname c e keys) lo mid L).
Proof.
  unfold list_log_gz, existing_rot, sel_log_gz. cbn [sel_plain sel_gz sel_rcur sel_custom].
  rewrite !filter_files_total. cbn [app_opt]. rewrite !app_nil_r. unfold related_files.
  fold sfx. fold S. rewrite !filter_rev', ts_plain_part, ts_arch_part. reflexivity.
Qed.
End TsListing.
Print Assumptions list_log_gz_ts.

(* ------------------------------------------------------------------ collision_free_infix after cleanups *)
Lemma contains_app_last P A B p0 x : P = p0 ++ [x] -> ~ In x B -> contains P A = false -> contains P (A ++ B) = false.
Proof.
  intros -> Hx Hc. destruct (contains (p0 ++ [x]) (A ++ B)) eqn:E; [exfalso | reflexivity].
  unfold contains in E. destruct (find_sub (p0 ++ [x]) (A ++ B)) as [i|] eqn:F; [|discriminate].
  apply find_sub_split in F. destruct F as [a [b [F _]]].
  assert (F' : A ++ B = (a ++ p0) ++ x :: b) by (rewrite F, <- !app_assoc; reflexivity).
  apply app_eq_app in F'. destruct F' as [l [[E1 E2]|[E1 E2]]].
  - destruct l as [|y l].
    + cbn [app] in E2. apply Hx. rewrite <- E2. left; reflexivity.
    + injection E2 as <- E2. rewrite E1, <- app_assoc in Hc.
      change (x :: l) with ([x] ++ l) in Hc. rewrite (app_assoc p0) in Hc. rewrite contains_intro in Hc. discriminate.
  - apply Hx. rewrite E2. apply in_or_app. right. left. reflexivity.
Qed.

Lemma add_gz_app g n : add_gz g n = n ++ (if g then dot_gz else []).
Proof. destruct g; cbn [add_gz]; [reflexivity | rewrite app_nil_r; reflexivity]. Qed.

(* the first file of a second is no restart sibling, compressed or not *)
Lemma kname_plain_no_tag_gz c e t (g : bool) : tag_ok c -> in_years e t ->
  contains (tsx e t ++ restart_tag) (add_gz g (kname c e (t, 0))) = false.
Proof.
  intros T Y. destruct g; cbn [add_gz]; [|apply kname_plain_no_tag; assumption].
  apply (contains_app_last _ _ _ (tsx e t ++ [46; 114; 101; 115; 116; 97; 114; 116]%N) 45%N).
  - rewrite <- app_assoc. reflexivity.
  - unfold dot, gz_sfx. cbn [In]. intros X. repeat (destruct X as [X|X]; [discriminate X|]). exact X.
  - apply kname_plain_no_tag; assumption.
Qed.

Lemma kname_restart_find_gz c e t m (g : bool) : ~ has_stamp_tag (fixed0 c) -> in_years e t ->
  let z := if g then dot_gz else [] in
  add_gz g (kname c e (t, S m)) = under (fixed0 c) ++ tsx e t ++ restart_tag ++ restart_digits (N.of_nat m) ++ sfxs (c_spec c) ++ z
  /\ find_sub (tsx e t ++ restart_tag) (add_gz g (kname c e (t, S m))) = Some (length (under (fixed0 c))).
Proof.
  intros Hf Y z.
  assert (E : add_gz g (kname c e (t, S m))
              = under (fixed0 c) ++ tsx e t ++ restart_tag ++ restart_digits (N.of_nat m) ++ sfxs (c_spec c) ++ z).
  { rewrite add_gz_app, (proj1 (kname_restart_find c e t m Hf Y)), <- !app_assoc. reflexivity. }
  split; [exact E|]. rewrite E, (stamp_find_under c e t t _ Hf Y Y).
  assert (P : is_prefix (tsx e t ++ restart_tag) (tsx e t ++ restart_tag ++ restart_digits (N.of_nat m) ++ sfxs (c_spec c) ++ z) = true).
  { rewrite (app_assoc (tsx e t)). apply sk_is_prefix_app. }
  destruct (tsx e t ++ restart_tag ++ restart_digits (N.of_nat m) ++ sfxs (c_spec c) ++ z) as [|x r]; cbn [find_sub]; rewrite P; f_equal; lia.
Qed.

Lemma restart_number_kname_gz c e t m (g : bool) : ~ has_stamp_tag (fixed0 c) -> in_years e t -> (N.of_nat m <= usize_max)%N ->
  restart_number (tsx e t) (add_gz g (kname c e (t, S m))) = Some (N.of_nat m).
Proof.
  intros T H Hm. destruct (kname_restart_find_gz c e t m g T H) as [E F]. unfold restart_number. rewrite F, E.
  rewrite <- Nat.add_assoc, sk_skipn_app, sk_skipn_app.
  unfold restart_tag. cbn [app skipn].
  rewrite fs_take_digits_app; [|apply restart_digits_all|].
  - rewrite parse_uint_digits; [|apply restart_digits_nonempty | apply restart_digits_all].
    assert (V : dec_value (restart_digits (N.of_nat m)) = N.of_nat m).
    { unfold restart_digits, pad_left. rewrite dec_value_zeros. apply dec_value_dec. }
    rewrite V. destruct (N.leb_spec (N.of_nat m) usize_max); [reflexivity | lia].
  - intros h r. unfold sfxs. destruct (fsfx (c_spec c)); [intros X; injection X as <- _; reflexivity|].
    destruct g; cbn [app]; [intros X; injection X as <- _; reflexivity | discriminate].
Qed.

Lemma kname_restart_contains_gz c e t m (g : bool) : ~ has_stamp_tag (fixed0 c) -> in_years e t ->
  contains (tsx e t ++ restart_tag) (add_gz g (kname c e (t, S m))) = true.
Proof. intros T H. unfold contains. rewrite (proj2 (kname_restart_find_gz c e t m g T H)). reflexivity. Qed.

(* only names with the time stamp asked for pass the filter "infix = <ts>" *)
Lemma qf_eq_upper_gz c e off ts o x k (g : bool) : in_years e ts -> in_years e (fst k) -> x = add_gz g (kname c e k) ->
  qf off (fsfx (c_spec c)) (fixed0 c) (IFEq (tsx e ts)) o x = true -> fst k = ts.
Proof.
  intros Hts Yk -> Q. unfold qf in Q. destruct (infix_candidate (fsfx (c_spec c)) o (fixed0 c) (add_gz g (kname c e k))) as [i|] eqn:Ei; [|discriminate].
  cbn [filter_infix] in Q. apply beq_eq in Q. subst i. apply infix_candidate_prefix in Ei. destruct Ei as [y Ey].
  rewrite add_gz_app, (kname_shape c e k Yk), <- !app_assoc in Ey. apply app_inv_head in Ey.
  apply app_inj_len in Ey; [|rewrite !tsx_length by assumption; reflexivity].
  destruct Ey as [Ey _]. apply tsx_inj in Ey; assumption.
Qed.

Lemma qf_eq_cname c e off ts o : in_years e ts ->
  qf off (fsfx (c_spec c)) (fixed0 c) (IFEq (tsx e ts)) o (cname c) = false.
Proof.
  intros Hts. destruct (qf off (fsfx (c_spec c)) (fixed0 c) (IFEq (tsx e ts)) o (cname c)) eqn:Q; [exfalso | reflexivity].
  unfold qf in Q. destruct (infix_candidate (fsfx (c_spec c)) o (fixed0 c) (cname c)) as [i|] eqn:Ei; [|discriminate].
  cbn [filter_infix] in Q. apply beq_eq in Q. subst i. apply infix_candidate_prefix in Ei. destruct Ei as [y Ey].
  rewrite cname_shape in Ey. apply app_inv_head in Ey. exact (tsx_app_not_cur e ts y _ Hts (eq_sym Ey)).
Qed.

Lemma gz_kname_not_kname c e k k' : sfx_ok (c_spec c) -> in_years e (fst k) -> in_years e (fst k') -> gz_name (kname c e k) <> kname c e k'.
Proof.
  intros G Y Y' E. pose proof (ext_is_gz_name (kname c e k) (kname_nonempty c e k Y)) as X.
  rewrite E, (strip_none_ext_is _ (kname_no_gz c e k' G Y')) in X. discriminate.
Qed.

(* THE CHARACTERISATION after cleanups.  keys: all keys used so far; the directory holds the plain files of the keys at the
   positions mid <= i < L and the archives of those at lo <= i < mid (and possibly rCURRENT).  n: the number of keys with the
   second asked for.  If there is one, the NEWEST of them is still there, plain or compressed.  Then the answer is the next
   position of that second - the same as without any cleanup (TsNames.collision_free_infix_ts). *)
Theorem collision_free_infix_tsk c e off f (keys : list key) closed lo mid ts n :
  tag_ok c -> sfx_ok (c_spec c) -> in_years e ts -> (forall k, In k keys -> in_years e (fst k)) ->
  length keys = length closed -> gdir (tname c e keys) (cname c) f closed lo mid ->
  (forall m, In (ts, m) keys <-> m < n) -> (N.of_nat n <= usize_max)%N ->
  (0 < n -> exists i, lo <= i < length closed /\ nth i keys kd = (ts, n - 1)) ->
  collision_free_infix off (c_spec c) (fixed0 c) f (tsx e ts) = Some (Some (infix_of e (ts, n))).
Proof.
  intros T G Hts Hk Hlen KD Hn Hmax Hnew. pose proof KD as [Hle Hnd Hp Ha Hon]. set (L := length closed) in *.
  assert (Yi : forall i, i < L -> in_years e (fst (nth i keys kd))) by (intros i Hi; apply Hk, nth_In; rewrite Hlen; exact Hi).
  unfold collision_free_infix. rewrite !filter_files_total.
  set (rel := related_files f (fsfx (c_spec c)) (fixed0 c)).
  set (unc := filter (qf off (fsfx (c_spec c)) (fixed0 c) (IFEq (tsx e ts)) (fsfx (c_spec c))) rel).
  set (cmp := filter (qf off (fsfx (c_spec c)) (fixed0 c) (IFEq (tsx e ts)) (Some gz_sfx)) rel).
  set (sibs := filter (fun x => contains (tsx e ts ++ restart_tag) x) (unc ++ cmp)).
  (* every name of the directory *)
  assert (Dir : forall x j, lookup f x = Some j -> x = cname c \/ exists i g, lo <= i < L /\ x = add_gz g (tname c e keys i)).
  { intros x j Lj. destruct (Hon x j Lj) as [->|[(i & Hi & ->)|(i & Hi & ->)]]; [left; reflexivity | right | right].
    - exists i, false. split; [lia | reflexivity].
    - exists i, true. split; [lia | unfold gzf; rewrite add_gz_true; reflexivity]. }
  (* what is listed carries this time stamp *)
  assert (A : forall x, In x (unc ++ cmp) -> exists m g, m < n /\ x = add_gz g (kname c e (ts, m))).
  { intros x I. apply in_app_or in I.
    assert (X : exists o, In x rel /\ qf off (fsfx (c_spec c)) (fixed0 c) (IFEq (tsx e ts)) o x = true).
    { destruct I as [I|I]; apply filter_In in I; destruct I; eauto. }
    destruct X as [o [Ir Q]]. apply related_files_in in Ir. destruct Ir as [Id _].
    apply dir_names_lookup in Id. destruct Id as [j Lj].
    destruct (Dir x j Lj) as [->|(i & g & Hi & ->)]; [rewrite qf_eq_cname in Q by exact Hts; discriminate|].
    unfold tname in *. pose proof (qf_eq_upper_gz c e off ts o _ (nth i keys kd) g Hts (Yi i ltac:(lia)) eq_refl Q) as Et.
    destruct (nth i keys kd) as [t m] eqn:Ek. cbn [fst] in Et. subst t. exists m, g. split; [|rewrite ?Ek; reflexivity].
    apply Hn. rewrite <- Ek. apply nth_In. rewrite Hlen. fold L. lia. }
  (* the newest file of this second is listed *)
  assert (B : 0 < n -> exists g, In (add_gz g (kname c e (ts, n - 1))) (unc ++ cmp) /\ lookup f (add_gz g (kname c e (ts, n - 1))) <> None).
  { intros Hpos. destruct (Hnew Hpos) as (i & Hi & Ek). fold L in Hi. destruct (Nat.le_gt_cases mid i) as [Hm|Hm].
    - exists false. destruct (Hp i ltac:(fold L; lia)) as (j & Lj & [_ Dj] & _). unfold tname in Lj. rewrite Ek in Lj. cbn [add_gz].
      split; [|congruence]. apply in_or_app. left. apply filter_In. split; [|apply qf_eq_lower; exact Hts].
      apply related_files_in. split; [apply dir_names_lookup; eauto|]. split.
      + unfold is_reg_file, file_of. rewrite Lj, Dj. reflexivity.
      + rewrite kname_shape by exact Hts. apply is_prefix_under.
    - exists true. destruct (Ha i ltac:(lia)) as (j & Lj & _ & _ & Dj). unfold gzf, tname in Lj. rewrite Ek in Lj. rewrite add_gz_true.
      split; [|congruence]. apply in_or_app. right. apply filter_In. split.
      + apply related_files_in. split; [apply dir_names_lookup; eauto|]. split.
        * unfold is_reg_file, file_of. rewrite Lj, Dj. reflexivity.
        * rewrite gz_name_app, kname_shape, <- app_assoc by exact Hts. apply is_prefix_under.
      + apply qf_plain_gz_name; [apply sfx_not_gz; exact G | apply qf_eq_lower; exact Hts]. }
  (* the restart numbers found *)
  assert (R1 : forall v, In v (filter_map_opt (restart_number (tsx e ts)) sibs) -> exists i, i < n - 1 /\ v = N.of_nat i).
  { intros v Iv. apply filter_map_opt_in in Iv. destruct Iv as [x [Ix Ex]]. apply filter_In in Ix. destruct Ix as [Ix Cx].
    destruct (A x Ix) as (m & g & Hm & ->).
    destruct m as [|m]; [rewrite kname_plain_no_tag_gz in Cx by assumption; discriminate|].
    rewrite restart_number_kname_gz in Ex by (assumption || apply T || lia). injection Ex as <-. exists m. split; [lia | reflexivity]. }
  assert (R2 : 2 <= n -> In (N.of_nat (n - 2)) (filter_map_opt (restart_number (tsx e ts)) sibs) /\ sibs <> []).
  { intros H2. destruct (B ltac:(lia)) as (g & Ig & _). replace (n - 1) with (S (n - 2)) in Ig by lia.
    assert (Is : In (add_gz g (kname c e (ts, S (n - 2)))) sibs).
    { apply filter_In. split; [exact Ig | apply kname_restart_contains_gz; [apply T | exact Hts]]. }
    split; [|intros Z; rewrite Z in Is; destruct Is].
    apply filter_map_opt_in. exists (add_gz g (kname c e (ts, S (n - 2)))). split; [exact Is|].
    apply restart_number_kname_gz; [apply T | exact Hts | lia]. }
  assert (M : max_opt (filter_map_opt (restart_number (tsx e ts)) sibs) = match n - 1 with O => None | S k => Some (N.of_nat k) end).
  { pose proof (max_opt_spec (filter_map_opt (restart_number (tsx e ts)) sibs)) as MS.
    destruct (max_opt (filter_map_opt (restart_number (tsx e ts)) sibs)) as [mx|].
    - destruct MS as [Im Hm]. destruct (R1 mx Im) as (i & Hi & ->). destruct (n - 1) as [|k] eqn:En; [lia|].
      destruct (R2 ltac:(lia)) as [I2 _]. specialize (Hm _ I2). f_equal. lia.
    - destruct (n - 1) as [|k] eqn:En; [reflexivity|]. destruct (R2 ltac:(lia)) as [I2 _]. rewrite MS in I2. destruct I2. }
  rewrite M.
  change (as_name (c_spec c) (fixed0 c) (Some (tsx e ts))) with (kname c e (ts, 0)).
  set (exists_ := fun n0 : bytes => match lookup f n0 with Some _ => true | None => false end).
  destruct n as [|[|n']].
  - (* no file of this second *)
    assert (E1 : lookup f (kname c e (ts, 0)) = None).
    { destruct (lookup f (kname c e (ts, 0))) as [j|] eqn:Lj; [exfalso | reflexivity].
      destruct (Dir _ _ Lj) as [X|(i & g & Hi & X)]; [exact (kname_not_cname c e (ts, 0) Hts X)|].
      unfold tname in X. destruct g; cbn [add_gz] in X.
      - fold dot_gz in X. rewrite <- gz_name_app in X. symmetry in X. exact (gz_kname_not_kname c e _ (ts, 0) G (Yi i ltac:(lia)) Hts X).
      - apply kname_inj in X; [|exact Hts | apply Yi; lia].
        assert (I0 : In (ts, 0) keys) by (rewrite X; apply nth_In; rewrite Hlen; fold L; lia). apply Hn in I0. lia. }
    assert (E2 : lookup f (kname c e (ts, 0) ++ dot :: gz_sfx) = None).
    { fold dot_gz. rewrite <- gz_name_app.
      destruct (lookup f (gz_name (kname c e (ts, 0)))) as [j|] eqn:Lj; [exfalso | reflexivity].
      destruct (Dir _ _ Lj) as [X|(i & g & Hi & X)]; [exact (gz_kname_not_cname c e (ts, 0) Hts X)|].
      unfold tname in X. destruct g; cbn [add_gz] in X.
      - fold dot_gz in X. rewrite <- gz_name_app in X. apply gz_name_inj in X. apply kname_inj in X; [|exact Hts | apply Yi; lia].
        assert (I0 : In (ts, 0) keys) by (rewrite X; apply nth_In; rewrite Hlen; fold L; lia). apply Hn in I0. lia.
      - exact (gz_kname_not_kname c e (ts, 0) _ G Hts (Yi i ltac:(lia)) X). }
    assert (Es : sibs = []).
    { destruct sibs as [|x r] eqn:Es; [reflexivity|exfalso].
      assert (Ix : In x sibs) by (rewrite Es; left; reflexivity). apply filter_In in Ix. destruct (A x (proj1 Ix)) as (m & g & Hm & _). lia. }
    rewrite E1, E2, Es. reflexivity.
  - (* one file: <ts> or its archive *)
    destruct (B ltac:(lia)) as (g & _ & Lg). cbn [Nat.sub] in Lg.
    assert (Ex : (match lookup f (kname c e (ts, 0)) with Some _ => true | None => false end
                  || match lookup f (kname c e (ts, 0) ++ dot :: gz_sfx) with Some _ => true | None => false end) = true).
    { destruct g; cbn [add_gz] in Lg.
      - destruct (lookup f (kname c e (ts, 0) ++ dot :: gz_sfx)); [apply orb_true_r | congruence].
      - destruct (lookup f (kname c e (ts, 0))); [reflexivity | congruence]. }
    rewrite Ex. cbn [orb Nat.sub]. reflexivity.
  - destruct (R2 ltac:(lia)) as [_ Hs]. cbn [Nat.sub] in *.
    assert (Ex : match sibs with [] => false | _ :: _ => true end = true) by (destruct sibs; [congruence | reflexivity]).
    rewrite Ex, !orb_true_r.
    destruct (N.ltb_spec (N.of_nat n') usize_max) as [_|X]; [|lia].
    unfold infix_of, restart_infix. cbn [fst snd]. replace (N.of_nat n' + 1)%N with (N.of_nat (Datatypes.S n')) by lia. reflexivity.
Qed.
Print Assumptions collision_free_infix_tsk.
