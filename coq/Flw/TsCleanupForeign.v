(* Files that are not members of the logger's file family are ignored - Timestamps naming (rCURRENT and
   r<time stamp>[.restart-NNNN]) WITH a cleanup strategy (TsForeign.v does this without cleanup; TsdCleanupForeign.v for
   TimestampsDirect naming with cleanup, NumCleanupForeign.v for Numbers naming with cleanup):
   the cleanup (cleanup_impl with the time-stamp filter, cur = None: rCURRENT is not listed) lists, removes and compresses
   family files only - ts_member rejects the foreign names, so they are not in the listing it works on; the archive name of a
   listed plain file is a family name, too (TsdCleanupForeign.cleanup_impl_embed_ts).
   A run in a directory pre-filled with foreign files is, step by step, the embedding (ForeignFs.embed) of the run in the
   empty directory: same observations, foreign files untouched (neither removed nor compressed), family files as in the
   clean run.  The run invariant is TsCleanupRun.RelSK. *)
Require Import FL.Base.Bytes FL.Base.BytesFacts FL.Base.PathName FL.Fs.Fs FL.Fs.FsFacts FL.Time.Civil FL.Time.TsFormat
  FL.Names.FileSpec FL.Names.NamesFacts FL.Names.SortFacts FL.Names.FamilyFacts FL.Flw.Model FL.Flw.ModelFacts FL.Flw.NumFs
  FL.Flw.NumInv FL.Flw.Run FL.Flw.RunFacts FL.Flw.NumRun FL.Oracles.O_Flw FL.Flw.NumTheorems FL.Flw.NumListing FL.Flw.CleanupFacts
  FL.Flw.NumKillRestart
  FL.Flw.NumCleanupNames FL.Flw.NumCleanupStep FL.Flw.NumCleanupRun FL.Flw.NumCleanup
  FL.Flw.TsCal FL.Flw.TsTime FL.Flw.TsMono FL.Flw.TsNames FL.Flw.TsInv FL.Flw.TsRun FL.Flw.TsTheorems FL.Flw.TsParse
  FL.Flw.ForeignFs FL.Flw.ForeignSort FL.Flw.ForeignModel FL.Flw.NumForeign FL.Flw.NumCleanupForeign FL.Flw.ForeignGen
  FL.Flw.TsForeignFacts FL.Flw.TsForeign
  FL.Flw.GenCleanup FL.Flw.TsCleanupNames FL.Flw.TsCleanupRun FL.Flw.TsCleanup FL.Flw.TsdCleanupForeign.
From Coq Require Import ZifyN ZifyNat ZifyBool.
Open Scope nat_scope.

(* ------------------------------------------------------------------ the state machine *)
Section CfgTK.
Variable fn : list (bytes * nat).
Variable fi : list file.
Variable c : config.
Variable crit : criterion.
Variable kc : cleanup.
(* Timestamps naming with cleanup strategy kc, no start-time part in the names, no symlink; with a cleanup: no cleanup
   thread, and the suffix is not "gz" *)
Hypothesis Hrot : c_rot c = Some (crit, NTimestamps, kc).
Hypothesis Hts : fts (c_spec c) = false.
Hypothesis Hlink : c_symlink c = false.
Hypothesis Hk : kc = KNever \/ (c_bg c = false /\ fsfx (c_spec c) <> Some gz_sfx).
Hypothesis Hforeign : forall n, In n (fnames fn) -> ts_member c n = false.
Notation fnm := (fnames fn).
Notation embw := (embedw fn fi).

Lemma hk_weak_sk : kc = KNever \/ fsfx (c_spec c) <> Some gz_sfx.
Proof. destruct Hk as [H|[_ H]]; [left | right]; exact H. Qed.

Lemma cleanup_match_sk (w3 : world) flt d :
  match kc with KNever => (Ok tt, w3) | _ => cleanup_impl c w3 kc flt d end = cleanup_impl c w3 kc flt d.
Proof. destruct kc; reflexivity. Qed.

Lemma bg_false_sk : match kc with KNever => false | _ => c_bg c end = false.
Proof. destruct Hk as [->|[Hb _]]; [reflexivity|]. destruct kc; [reflexivity | exact Hb | exact Hb | exact Hb]. Qed.

Lemma cleanup_impl_embed_sk w cur :
  cleanup_impl c (embw w) kc (IFTs std_fmt) cur = lw fn fi (cleanup_impl c w kc (IFTs std_fmt) cur).
Proof. exact (cleanup_impl_embed_ts fn fi c (foreign_td fn c Hforeign) w kc cur Hts hk_weak_sk). Qed.

(* the states of a writer with Timestamps naming and the cleanup strategy kc (no cleanup thread); the date that names the
   next closed file is one of the years 1970..9999 *)
Definition good_inner_sk (w : world) (st : inner) : Prop :=
  match st with
  | Active (Some rs) _ _ => (exists ts, rs_naming rs = NSTs ts (Some cur_infix) std_fmt /\ in_years (eoff c w) ts)
                            /\ rs_cleanup rs = kc /\ rs_bg rs = false
  | _ => True
  end.

Lemma mount_next_embed_sk w st force : good_inner_sk w st ->
  mount_next c (embw w) (shin fi st) force = lm fn fi (mount_next c w st force).
Proof.
  intros G. destruct st as [|[rs|] wr path]; try reflexivity.
  destruct G as [[ts [En Y]] [Ek Eb]]. destruct rs as [ns roll kc0 bg]. cbn [rs_naming rs_cleanup rs_bg] in En, Ek, Eb. subst ns kc0 bg.
  unfold mount_next. cbn [shin rs_roll rs_naming rs_cleanup rs_bg]. rewrite rotation_necessary_embed.
  destruct (force || rotation_necessary w roll); [|reflexivity].
  rewrite (creation_ts_embed fn fi c Hts Hforeign) by (intros _; exact Y).
  destruct (creation_ts_of_current c w cur_infix true (Some ts) std_fmt) as [r w1].
  destruct r as [ts'| |]; cbn [lw fst snd]; [|reflexivity|reflexivity].
  assert (Hn : ~ In (name_of c w1 (Some cur_infix)) fnm) by apply (cur_name_own fn c Hts Hforeign).
  rewrite (open_log_file_embed fn fi c Hlink) by exact Hn.
  destruct (open_log_file c w1 (Some cur_infix)) as [r2 w2] eqn:Eo. cbn [fst snd].
  destruct r2 as [[wr' path']| |]; cbn [shwp]; [|reflexivity|reflexivity].
  apply open_log_file_path in Eo. subst path'.
  rewrite w_flush_embed. destruct (w_flush w2 wr) as [[okf w2a] wra]. cbn [lw3].
  replace (if okf then embw w2a else report EFlush (embw w2a)) with (embw (if okf then w2a else report EFlush w2a))
    by (destruct okf; [reflexivity | symmetry; apply report_embed]).
  rewrite w_drop_embed, reset_size_and_date_embed by exact Hn.
  unfold cleanup_or_queue. cbn [ns_filter ns_writes_direct]. rewrite cleanup_impl_embed_sk.
  destruct (cleanup_impl c (w_drop (if okf then w2a else report EFlush w2a) wra) kc (IFTs std_fmt) None) as [rc w4]. reflexivity.
Qed.

(* the initialisation: without append a current file that is found is renamed by the time of its creation *)
Lemma initialize_embed_sk w :
  (c_append c = false -> in_years (eoff c w) (birth_or_now w (cname c))) ->
  initialize c (embw w) = (shres fi (fst (initialize c w)), embw (snd (initialize c w))).
Proof.
  intros HY. unfold initialize. rewrite Hrot. unfold init_naming.
  rewrite (creation_ts_embed fn fi c Hts Hforeign) by (intros E; apply HY; destruct (c_append c); [discriminate | reflexivity]).
  destruct (creation_ts_of_current c w cur_infix (negb (c_append c)) None std_fmt) as [r w1].
  destruct r as [ts| |]; cbn [lw fst snd bind]; [|reflexivity|reflexivity].
  assert (Hn : ~ In (name_of c w1 (Some cur_infix)) fnm) by apply (cur_name_own fn c Hts Hforeign).
  rewrite (open_log_file_embed fn fi c Hlink) by exact Hn.
  destruct (open_log_file c w1 (Some cur_infix)) as [r3 w3] eqn:Eo. cbn [fst snd].
  destruct r3 as [[wr path]| |]; cbn [shwp bind]; [|reflexivity|reflexivity].
  apply open_log_file_path in Eo. subst path.
  rewrite (roll_new_embed fn fi) by exact Hn.
  destruct (roll_new w3 crit (c_append c) (name_of c w1 (Some cur_infix))) as [r4 w4]. cbn [lw fst snd].
  destruct r4 as [roll| |]; cbn [lw fst snd bind]; [|reflexivity|reflexivity].
  cbn [ns_filter naming_writes_direct]. rewrite !cleanup_match_sk, cleanup_impl_embed_sk, bg_false_sk.
  destruct (cleanup_impl c w4 kc (IFTs std_fmt) None) as [r5 w5]. cbn [lw fst snd]. destruct r5; reflexivity.
Qed.
End CfgTK.

(* ------------------------------------------------------------------ the states of the run in the clean directory *)
Section RunSK.
Variable fn : list (bytes * nat).
Variable fi : list file.
Variable c : config.
Variable crit : criterion.
Variable k : cleanup.
Variables e lo hi : Z.
Hypothesis Hcfg : tskcfg c crit k.
Hypothesis Hsfx : sfx_ok (c_spec c).
Hypothesis Hyears : years_ok e lo hi.
Hypothesis Hforeign : forall n, In n (fnames fn) -> ts_member c n = false.

Definition good_sk (x : sys) : Prop := (exists a n, RelSK c crit k e lo n x a) /\ (wnow (s_w x) <= hi)%Z.

Lemma hk_sk : k = KNever \/ (c_bg c = false /\ fsfx (c_spec c) <> Some gz_sfx).
Proof. right. destruct Hcfg as (_ & _ & _ & _ & Hbg). split; [exact Hbg | apply sfx_ok_not_gz'; exact Hsfx]. Qed.

Lemma good_sk_cfg x s : good_sk x -> s_flw x = Some s -> f_cfg s = c /\ f_poisoned s = false.
Proof.
  intros [[a [n [_ [_ R]]]] _] Es. destruct a as [[closed cur]|].
  - destruct R as [wr [roll [ts [E _]]]]. rewrite E in Es. injection Es as <-. split; reflexivity.
  - destruct R as [E _]. rewrite E in Es. injection Es as <-. split; reflexivity.
Qed.

Lemma good_sk_inner x s : good_sk x -> s_flw x = Some s -> good_inner_sk c k (s_w x) (f_inner s).
Proof.
  intros [[a [n [_ [_ R]]]] Hhi] Es. destruct a as [[closed cur]|].
  - destruct R as [wr [roll [ts [E [(keys & tcl & I & _) _]]]]]. rewrite E in Es. injection Es as <-. cbn.
    split; [|split; reflexivity]. exists ts. split; [reflexivity|]. rewrite (sk_off _ _ _ _ _ _ _ _ _ _ I).
    apply (years_in e lo hi); [exact Hyears|]. pose proof (sk_ts _ _ _ _ _ _ _ _ _ _ I). lia.
  - destruct R as [E _]. rewrite E in Es. injection Es as <-. exact Logic.I.
Qed.

Lemma mount_next_embed_good_sk x s : good_sk x -> s_flw x = Some s ->
  mount_next c (embedw fn fi (s_w x)) (shin fi (f_inner s)) true = lm fn fi (mount_next c (s_w x) (f_inner s) true).
Proof.
  intros G Es. destruct Hcfg as (Hrot & Hts & Hlink & _).
  apply (mount_next_embed_sk fn fi c k Hts Hlink hk_sk Hforeign). eapply good_sk_inner; eassumption.
Qed.

Lemma write_buffer_embed_good_sk x s b : good_sk x -> s_flw x = Some s ->
  write_buffer (embeds fi s) (embedw fn fi (s_w x)) b = lwb fn fi (write_buffer s (s_w x) b).
Proof.
  intros G Es. pose proof Hcfg as (Hrot & Hts & Hlink & _).
  pose proof (good_sk_inner x s G Es) as Gi. destruct (good_sk_cfg x s G Es) as [Ec _].
  destruct G as [[a [n [_ [_ R]]]] Hhi].
  apply (write_buffer_embed_pt fn fi c); [exact Ec | |].
  - (* a new writer: the directory of the clean run is empty, there is no current file, the clock is read *)
    intros Hi. destruct a as [[closed cur]|].
    + destruct R as [wr [roll [ts [E _]]]]. rewrite E in Es. injection Es as <-. discriminate Hi.
    + destruct R as [_ [Q [Hn [_ [Hoff Hlo]]]]]. apply (initialize_embed_sk fn fi c crit k Hrot Hts Hlink hk_sk Hforeign).
      intros _. unfold birth_or_now, file_of. rewrite lookup_empty by exact Hn. rewrite Hoff.
      apply (years_in e lo hi); [exact Hyears | lia].
  - intros w0 st0 H0. destruct a as [[closed cur]|].
    + destruct R as [wr [roll [ts [E _]]]]. rewrite E in Es. injection Es as <-. cbn [st_tsk f_inner] in H0.
      injection H0 as <- <-. apply (mount_next_embed_sk fn fi c k Hts Hlink hk_sk Hforeign). exact Gi.
    + destruct R as [E [Q [Hn [Hi [Hoff Hlo]]]]]. rewrite E in Es. injection Es as <-. cbn [new_flw f_inner] in H0.
      destruct (initialize_empty_sk c crit k e lo hi (s_w x) Hcfg Hsfx Hyears Hhi Q Hn Hi Hoff Hlo) as [w1 [wr [roll [Ei [_ [_ [_ [S1 _]]]]]]]].
      rewrite Ei in H0. injection H0 as <- <-.
      apply (mount_next_embed_sk fn fi c k Hts Hlink hk_sk Hforeign). cbn. split; [|split; reflexivity].
      exists (wnow (s_w x)). split; [reflexivity|]. rewrite (eoff_same_env c _ _ S1), Hoff.
      apply (years_in e lo hi); [exact Hyears | lia].
Qed.

(* the names of a directory of the invariant's shape (gdir with the names of the keys and rCURRENT) are family names *)
Lemma sk_dir_own f keys all lo' mid' :
  (forall key, In key keys -> in_years e (fst key)) -> length keys = length all ->
  gdir (tname c e keys) (cname c) f all lo' mid' ->
  forall n j, lookup f n = Some j -> ~ In n (fnames fn).
Proof.
  intros Yk Hlen KD n j Hj.
  assert (Yi : forall i, i < length all -> in_years e (fst (nth i keys kd))).
  { intros i Hi. apply Yk. apply nth_In. lia. }
  destruct (gd_only _ _ _ _ _ _ KD n j Hj) as [->|[[i [Hi ->]]|[i [Hi ->]]]].
  - exact (cname_own_t fn c Hforeign).
  - apply (kname_own fn c (foreign_td fn c Hforeign)). apply Yi. lia.
  - pose proof (gd_le _ _ _ _ _ _ KD) as Hle. unfold gzf, tname, kname. rewrite gz_name_app, infix_of_tail.
    assert (Y : in_years e (fst (nth i keys kd))) by (apply Yi; lia).
    apply (built_name_gz_own fn c (foreign_td fn c Hforeign)); [apply tsx_like; exact Y | exact (tsx_no_dot e _ Y) | apply ktail_restart_part].
Qed.

(* the directory of such a state holds no foreign name *)
Lemma good_sk_fam x : good_sk x -> fam_g fn good_sk x.
Proof.
  intros G. split; [exact G|]. destruct G as [[a [n [_ [_ R]]]] Hhi].
  intros nme Hn. destruct a as [[closed cur]|].
  - destruct R as [wr [roll [ts [_ [(keys & tcl & I & _) _]]]]]. apply dir_names_lookup in Hn. destruct Hn as [j Hj].
    exact (sk_dir_own _ keys _ _ _ (sk_years _ _ _ _ _ _ _ _ _ _ _ Hyears Hhi I) (sk_len _ _ _ _ _ _ _ _ _ _ I)
             (sk_dir _ _ _ _ _ _ _ _ _ _ I) nme j Hj).
  - destruct R as [_ [_ [E _]]]. unfold dir_names in Hn. rewrite E in Hn. destruct Hn.
Qed.
End RunSK.

(* ------------------------------------------------------------------ THE THEOREM *)
(* Hypotheses as for timestamps_cleanup_stream (the suffix is not gz and does not end with .gz; a clock that does not go
   backwards and stays within the years 1970..9999; no condition on the strategy), and the foreign-name condition of
   timestamps_foreign_ignored: the family test of the model (ts_member) rejects the name. *)
Theorem timestamps_cleanup_foreign_ignored c crit k t0 off foreign ops :
  tskcfg c crit k -> tag_ok c -> sfx_ok (c_spec c) -> Forall basic_op ops -> Forall tick_ok ops ->
  (0 <= t0 + ts_e c off)%Z -> (t0 + elapsed ops + ts_e c off < sec_max)%Z -> (N.of_nat (length ops) <= usize_max)%N ->
  NoDup (List.map fst foreign) ->
  (forall n, In n (List.map fst foreign) -> ts_member c n = false) ->
  let ops' := OStart c :: ops ++ [OStop] in
  let rf := run (sys0f t0 off foreign) ops' in
  let r0 := run (sys0 t0 off) ops' in
  (* 1: the same observations; a snapshot shows the foreign files in addition *)
  List.map (strip_obs (List.map fst foreign)) (snd rf) = snd r0
  /\ (Forall (fun o => o <> OSnap) ops -> snd rf = snd r0)
  (* 2: the foreign files are in place, unchanged: neither removed nor compressed *)
  /\ (forall n d, In (n, d) foreign -> file_of (wfs (s_w (fst rf))) n = Some (plain_file t0 d))
  (* 3: every other name is what the run in the empty directory makes of it *)
  /\ (forall n, ~ In n (List.map fst foreign) -> file_of (wfs (s_w (fst rf))) n = file_of (wfs (s_w (fst r0))) n)
  /\ (forall n, In n (List.map fst foreign) -> file_of (wfs (s_w (fst r0))) n = None)
  (* the whole state: the run is the embedding of the run in the empty directory *)
  /\ fst rf = embedx (names (fs0f t0 foreign)) (inodes (fs0f t0 foreign)) (fst r0).
Proof.
  intros Hcfg T Hsfx Hb Htk Hlo Hhi Hmax ND Hfor. pose proof Hcfg as (Hrot & Hts & Hlink & Hasync & Hbg).
  destruct (fs0f_spec t0 foreign ND) as [Hd _].
  assert (Hforeign : forall n, In n (fnames (names (fs0f t0 foreign))) -> ts_member c n = false).
  { intros n Hn. apply Hfor. rewrite <- Hd. exact Hn. }
  assert (Y : years_ok (ts_e c off) t0 (t0 + elapsed ops)) by (split; assumption).
  apply (foreign_ignored_g c (good_sk c crit k (ts_e c off) t0 (t0 + elapsed ops)) t0 off foreign ops Hts Hasync).
  - intros x s G Es. eapply good_sk_cfg; eassumption.
  - intros x s b G Es. apply (write_buffer_embed_good_sk _ _ c crit k _ _ _ Hcfg Hsfx Y Hforeign); assumption.
  - intros x s G Es. apply (mount_next_embed_good_sk _ _ c crit k _ _ _ Hcfg Hsfx Y Hforeign); assumption.
  - exact Hb.
  - exact ND.
  - intros i. apply (good_sk_fam _ c crit k _ _ _ Y Hforeign).
    destruct (step (sys0 t0 off) (OStart c)) as [x0 ob0] eqn:E0.
    pose proof (start_rel_sk c crit k t0 off) as R0. rewrite E0 in R0. cbn [fst] in *.
    assert (W0 : wnow (s_w x0) = t0) by (cbn in E0; injection E0 as <- _; reflexivity).
    pose proof (elapsed_firstn_le ops Htk i) as El. pose proof (firstn_length_le ops i) as Ll.
    pose proof (run_rel_sk c crit k _ _ _ Hcfg Hsfx T Y (firstn i ops) x0 None 0 R0 (Forall_firstn' _ _ i Hb) (Forall_firstn' _ _ i Htk)
                  ltac:(lia) ltac:(cbn [Nat.add]; lia)) as [R1 [W1 _]].
    split; [eauto | lia].
  - intros n Hn. rewrite <- Hd in Hn.
    pose proof (timestamps_cleanup_stream c crit k t0 off ops Hcfg T Hsfx Hb Htk Hlo Hhi Hmax) as [_ [V _]].
    set (f := wfs (s_w (fst (run (sys0 t0 off) (OStart c :: ops ++ [OStop]))))) in *.
    destruct (lookup f n) as [j|] eqn:Ej; [exfalso|reflexivity].
    destruct (a_run None ops (snd (run (fst (step (sys0 t0 off) (OStart c))) ops))) as [[closed cur]|].
    + destruct V as [keys [[Hlen [KD _]] [_ Rg]]].
      refine (sk_dir_own _ c (ts_e c off) Hforeign f keys _ _ _ _ Hlen KD n j Ej Hn).
      intros key Ik. apply (years_in _ _ _ _ Y). exact (Rg key Ik).
    + unfold lookup in Ej. rewrite V in Ej. discriminate.
Qed.
Print Assumptions timestamps_cleanup_foreign_ignored.

(* the names of the run - of a closed file, of its archive, of the current file - are members of the family *)
Lemma member_kname c e k : in_years e (fst k) -> ts_member c (kname c e k) = true.
Proof. intros Y. unfold ts_member. rewrite (memberd_kname c e k Y). reflexivity. Qed.

Lemma member_gkname c e k : in_years e (fst k) -> ts_member c (gz_name (kname c e k)) = true.
Proof. intros Y. unfold ts_member. rewrite (memberd_gkname c e k Y). reflexivity. Qed.

Lemma member_cname c : ts_member c (cname c) = true.
Proof. unfold ts_member. rewrite beq_refl. apply orb_true_r. Qed.

(* timestamps_cleanup carries over: what the directory with the foreign files holds after the run.
   closed, cur: the reader's view that the run would leave without cleanup; (n, m) = klim k: n closed files are kept as they
   are, m as archives; rCURRENT holds cur.  K i: the name of the i-th closed file, G i: the name of its archive. *)
Theorem timestamps_cleanup_foreign_dir c crit k n m t0 off foreign ops closed cur :
  tskcfg c crit k -> klim k = Some (n, m) -> tag_ok c -> sfx_ok (c_spec c) ->
  Forall basic_op ops -> Forall tick_ok ops ->
  (0 <= t0 + ts_e c off)%Z -> (t0 + elapsed ops + ts_e c off < sec_max)%Z -> (N.of_nat (length ops) <= usize_max)%N ->
  a_run None ops (snd (run (fst (step (sys0 t0 off) (OStart c))) ops)) = Some (closed, cur) ->
  NoDup (List.map fst foreign) ->
  (forall x, In x (List.map fst foreign) -> ts_member c x = false) ->
  let ff := wfs (s_w (fst (run (sys0f t0 off foreign) (OStart c :: ops ++ [OStop])))) in
  let L := length closed in let lo := L - (n + m) in let mid := L - n in
  concat closed ++ cur = written ops
  /\ exists keys : list key,
       let K i := kname c (ts_e c off) (nth i keys kd) in
       let G i := gz_name (K i) in
       length keys = L /\ keys_ok keys /\ (forall key, In key keys -> (t0 <= fst key <= t0 + elapsed ops)%Z)
       (* exactly these names exist *)
       /\ (forall x, file_of ff x <> None <->
             In x (List.map fst foreign) \/ x = cname c \/ (exists i, mid <= i < L /\ x = K i) \/ (exists i, lo <= i < mid /\ x = G i))
       (* the foreign files as they were *)
       /\ (forall x d, In (x, d) foreign -> file_of ff x = Some (plain_file t0 d))
       (* the newest n closed files as they were closed, the next m as complete archives, rCURRENT *)
       /\ (forall i, mid <= i < L ->
             exists fl, file_of ff (K i) = Some fl /\ fdata fl = nth i closed [] /\ fgz fl = 0%N /\ fdir fl = false)
       /\ (forall i, lo <= i < mid ->
             exists fl, file_of ff (G i) = Some fl /\ fdata fl = nth i closed [] /\ fgz fl = 1%N /\ fdir fl = false)
       /\ (exists fl, file_of ff (cname c) = Some fl /\ fdata fl = cur /\ fgz fl = 0%N /\ fdir fl = false)
       (* older family files are gone; the originals of the archives, too *)
       /\ (forall i, i < lo -> file_of ff (K i) = None /\ file_of ff (G i) = None)
       /\ (forall i, lo <= i < mid -> file_of ff (K i) = None).
Proof.
  intros Hcfg Hk T Hsfx Hb Htk Hlo Hhi Hmax Ea ND Hfor ff L lo mid.
  destruct (timestamps_cleanup_foreign_ignored c crit k t0 off foreign ops Hcfg T Hsfx Hb Htk Hlo Hhi Hmax ND Hfor) as (_ & _ & F2 & F3 & F4 & _).
  fold ff in F2, F3.
  destruct (timestamps_cleanup c crit k n m t0 off ops closed cur Hcfg Hk T Hsfx Hb Htk Hlo Hhi Hmax Ea) as (P0 & keys & P).
  cbv zeta in P. fold L lo mid in P.
  set (f0 := wfs (s_w (fst (run (sys0 t0 off) (OStart c :: ops ++ [OStop]))))) in *.
  destruct P as (Hlen & Hko & Hrg & Pn & _ & _ & _ & _ & Pp & Pa & Po & _ & Pc).
  split; [exact P0|]. exists keys. cbv zeta.
  assert (Y : years_ok (ts_e c off) t0 (t0 + elapsed ops)) by (split; assumption).
  assert (Hcn : ~ In (cname c) (List.map fst foreign)).
  { intros Hin. apply Hfor in Hin. rewrite member_cname in Hin. discriminate. }
  assert (Hrn : forall i, i < L -> ~ In (kname c (ts_e c off) (nth i keys kd)) (List.map fst foreign)).
  { intros i Hi Hin. apply Hfor in Hin. rewrite member_kname in Hin; [discriminate|].
    apply (years_in _ _ _ _ Y). apply Hrg. apply nth_In. lia. }
  assert (Hgn : forall i, i < L -> ~ In (gz_name (kname c (ts_e c off) (nth i keys kd))) (List.map fst foreign)).
  { intros i Hi Hin. apply Hfor in Hin. rewrite member_gkname in Hin; [discriminate|].
    apply (years_in _ _ _ _ Y). apply Hrg. apply nth_In. lia. }
  assert (Hex : forall x, file_of f0 x <> None <-> exists j, lookup f0 x = Some j).
  { intros x. unfold file_of. destruct (lookup f0 x) as [j|]; split; intros H; try congruence; eauto. destruct H; discriminate. }
  split; [exact Hlen|]. split; [exact Hko|]. split; [exact Hrg|].
  split; [|split; [exact F2|split; [|split; [|split; [|split]]]]].
  - intros x. destruct (in_dec bytes_eq_dec x (List.map fst foreign)) as [Hi|Hi].
    + split; [intros _; left; exact Hi|]. intros _. apply in_map_iff in Hi. destruct Hi as [[x' d] [E Hi]]. cbn in E. subst x'.
      rewrite (F2 x d Hi). discriminate.
    + rewrite (F3 x Hi), Hex, Pn. split; [intros H; right; exact H|]. intros [H|H]; [contradiction | exact H].
  - intros i Hi. rewrite (F3 _ (Hrn i ltac:(lia))). destruct (Pp i Hi) as [_ H]. exact H.
  - intros i Hi. rewrite (F3 _ (Hgn i ltac:(lia))). destruct (Pa i Hi) as [_ H]. exact H.
  - rewrite (F3 _ Hcn). exact Pc.
  - intros i Hi. assert (i < L) by lia. rewrite (F3 _ (Hrn i ltac:(lia))), (F3 _ (Hgn i ltac:(lia))). destruct (Po i Hi) as [H1 H2].
    unfold file_of. rewrite H1, H2. split; reflexivity.
  - intros i Hi. rewrite (F3 _ (Hrn i ltac:(lia))). destruct (Pa i Hi) as [H1 _]. unfold file_of. rewrite H1. reflexivity.
Qed.
Print Assumptions timestamps_cleanup_foreign_dir.

(* ------------------------------------------------------------------ example *)
Import String.StringSyntax.
Open Scope string_scope.
(* rCURRENT, one closed file as it is and one archive are kept; with append *)
Definition extf_k : config := extf_cfg (KLogGz 1 1) true.

(* the near misses of TsForeign.extf_foreign (among them rCURRENT with other suffixes and its archive, the files of the number
   namings), and near misses of the archive names *)
Definition extf_foreign_k : list (bytes * bytes) :=
  extf_foreign ++ [ (bs "a_r1970-01-01_00-00-00.log.gz.bak", bs "6"); (bs "a_r1970-01-01_00-00-00.gz", bs "7");
                    (bs "a_r1970-01-01_00-00-00.log.gzip", bs "8") ].

Example cleanup_foreign_hypotheses_t :
  tskcfg extf_k (CSize 3) (KLogGz 1 1) /\ tag_ok extf_k /\ sfx_ok (c_spec extf_k) /\ Forall basic_op extf_ops /\ Forall tick_ok extf_ops
  /\ (0 <= 0 + ts_e extf_k 0)%Z /\ (0 + elapsed extf_ops + ts_e extf_k 0 < sec_max)%Z
  /\ (N.of_nat (length extf_ops) <= usize_max)%N
  /\ NoDup (List.map fst extf_foreign_k)
  /\ (forall n, In n (List.map fst extf_foreign_k) -> ts_member extf_k n = false).
Proof.
  split; [repeat split|]. split; [apply tag_free_ok; split; vm_compute; reflexivity|]. split; [vm_compute; reflexivity|].
  split; [repeat constructor|].
  split; [repeat (apply Forall_cons; [cbn [tick_ok]; first [exact Logic.I | lia]|]); apply Forall_nil|].
  split; [vm_compute; discriminate|]. split; [vm_compute; reflexivity|]. split; [vm_compute; discriminate|]. split.
  - repeat (constructor; [vm_compute; intuition discriminate|]). constructor.
  - intros n Hn. vm_compute in Hn.
    repeat (destruct Hn as [<-|Hn]; [vm_compute; reflexivity|]). destruct Hn.
Qed.

(* the theorem applied *)
Example cleanup_foreign_instance_t :
  List.map (strip_obs (List.map fst extf_foreign_k)) (snd (run (sys0f 0 0 extf_foreign_k) (OStart extf_k :: extf_ops ++ [OStop])))
  = snd (run (sys0 0 0) (OStart extf_k :: extf_ops ++ [OStop])).
Proof.
  destruct cleanup_foreign_hypotheses_t as (H1 & H2 & H3 & H4 & H5 & H6 & H7 & H8 & H9 & H10).
  exact (proj1 (timestamps_cleanup_foreign_ignored extf_k (CSize 3) (KLogGz 1 1) 0 0 extf_foreign_k extf_ops H1 H2 H3 H4 H5 H6 H7 H8 H9 H10)).
Qed.

(* computed: three files were closed, all named by second 0 (<ts>, restart-0000, restart-0001); the cleanup has removed the
   first ("abcd"), compressed the second ("ef") and kept the third and rCURRENT - and nothing else: the stranger's files of
   second 0 with other suffixes (.log.bak, .txt, none, .gz, .log.gz.bak, .log.gzip), the one with a two-digit restart counter,
   a_rCURRENT, a_rCURRENT.txt, a_rCURRENT.log.gz and the files with number infixes are left alone *)
Example cleanup_foreign_instance_dir_t :
  ex_snap (fst (run (sys0f 0 0 extf_foreign_k) (OStart extf_k :: extf_ops ++ [OStop])))
  = [ (bs "a.log", 0%N, bs "q");
      (bs "a_1970-01-01_00-00-00.log", 0%N, bs "o");
      (bs "a_r00001.log", 0%N, bs "2");
      (bs "a_r00001.log.gz", 0%N, bs "5");
      (bs "a_r1.log", 0%N, bs "u");
      (bs "a_r1970-01-01.log", 0%N, bs "4");
      (bs "a_r1970-01-01_00-00-00", 0%N, bs "t");
      (bs "a_r1970-01-01_00-00-00.gz", 0%N, bs "7");
      (bs "a_r1970-01-01_00-00-00.log.bak", 0%N, bs "w");
      (bs "a_r1970-01-01_00-00-00.log.gz.bak", 0%N, bs "6");
      (bs "a_r1970-01-01_00-00-00.log.gzip", 0%N, bs "8");
      (bs "a_r1970-01-01_00-00-00.restart-00.log", 0%N, bs "p");
      (bs "a_r1970-01-01_00-00-00.restart-0000.log.gz", 1%N, bs "ef");
      (bs "a_r1970-01-01_00-00-00.restart-0001.log", 0%N, bs "ghij");
      (bs "a_r1970-01-01_00-00-00.txt", 0%N, bs "z");
      (bs "a_r1x.log", 0%N, bs "1");
      (bs "a_r2030-01-01_00-00-00x.log", 0%N, bs "3");
      (bs "a_rCURRENT", 0%N, bs "m");
      (bs "a_rCURRENT.log", 0%N, bs "k");
      (bs "a_rCURRENT.log.gz", 0%N, bs "n");
      (bs "a_rCURRENT.txt", 0%N, bs "s");
      (bs "a_rXYZ.log", 0%N, bs "x");
      (bs "ax_r1970-01-01_00-00-00.log", 0%N, bs "v");
      (bs "b.log", 0%N, bs "y") ]
  /\ ex_snap (fst (run (sys0 0 0) (OStart extf_k :: extf_ops ++ [OStop])))
  = [ (bs "a_r1970-01-01_00-00-00.restart-0000.log.gz", 1%N, bs "ef");
      (bs "a_r1970-01-01_00-00-00.restart-0001.log", 0%N, bs "ghij");
      (bs "a_rCURRENT.log", 0%N, bs "k") ].
Proof. vm_compute. split; reflexivity. Qed.

(* the directory theorem applied: L = 3 closed files, n = 1, m = 1: lo = 1, mid = 2 *)
Example cleanup_foreign_dir_instance_t :
  let ff := wfs (s_w (fst (run (sys0f 0 0 extf_foreign_k) (OStart extf_k :: extf_ops ++ [OStop])))) in
  exists keys : list key,
    let K i := kname extf_k 0 (nth i keys kd) in
    length keys = 3 /\ keys_ok keys
    /\ (forall x d, In (x, d) extf_foreign_k -> file_of ff x = Some (plain_file 0 d))
    /\ (exists fl, file_of ff (K 2) = Some fl /\ fdata fl = bs "ghij" /\ fgz fl = 0%N /\ fdir fl = false)
    /\ (exists fl, file_of ff (gz_name (K 1)) = Some fl /\ fdata fl = bs "ef" /\ fgz fl = 1%N /\ fdir fl = false)
    /\ (exists fl, file_of ff (cname extf_k) = Some fl /\ fdata fl = bs "k" /\ fgz fl = 0%N /\ fdir fl = false)
    /\ file_of ff (K 0) = None /\ file_of ff (gz_name (K 0)) = None /\ file_of ff (K 1) = None.
Proof.
  intros ff. destruct cleanup_foreign_hypotheses_t as (H1 & H2 & H3 & H4 & H5 & H6 & H7 & H8 & H9 & H10).
  assert (Ea : a_run None extf_ops (snd (run (fst (step (sys0 0 0) (OStart extf_k))) extf_ops))
               = Some ([bs "abcd"; bs "ef"; bs "ghij"], bs "k")) by (vm_compute; reflexivity).
  pose proof (timestamps_cleanup_foreign_dir extf_k (CSize 3) (KLogGz 1 1) 1 1 0 0 extf_foreign_k extf_ops _ _
                H1 eq_refl H2 H3 H4 H5 H6 H7 H8 Ea H9 H10) as T.
  cbv zeta in T. fold ff in T. change (ts_e extf_k 0) with 0%Z in T.
  change (length [bs "abcd"; bs "ef"; bs "ghij"]) with 3 in T. cbn [Nat.sub Nat.add] in T.
  destruct T as (_ & keys & Hl & Hko & _ & _ & F & P & A & C & O & O').
  exists keys. cbv zeta. split; [exact Hl|]. split; [exact Hko|].
  split; [exact F|]. split; [exact (P 2 ltac:(lia))|]. split; [exact (A 1 ltac:(lia))|]. split; [exact C|].
  split; [exact (proj1 (O 0 ltac:(lia)))|]. split; [exact (proj2 (O 0 ltac:(lia)))|]. exact (O' 1 ltac:(lia)).
Qed.

(* THE BOUNDARY of "foreign" (model behaviour worth knowing): files that this writer did not write but whose names follow the
   pattern are members (ts_member = true), so the theorem does not speak about them - and the cleanup does act on them:
   (1) "a_r1960-01-01_00-00-00.log", a time stamp before the epoch, is the oldest family file: after the first record it is
       still there, after the first rotation it has been COMPRESSED (one plain closed file and one archive are kept), after
       the second rotation it has been REMOVED;
   (2) a stranger's "a_rCURRENT.log" is the current file: with append the writer CONTINUES it ("abcd" is appended to the
       stranger's "w"), and the first rotation closes it under the time stamp of its creation. *)
Example member_file_is_cleaned_t :
  let run_with n ops := ex_snap (fst (run (sys0f 0 0 [(bs n, bs "w")]) (OStart extf_k :: ops ++ [OStop]))) in
  ts_member extf_k (bs "a_r1960-01-01_00-00-00.log") = true /\ ts_member extf_k (bs "a_rCURRENT.log") = true
  /\ run_with "a_r1960-01-01_00-00-00.log" (firstn 1 extf_ops)
     = [ (bs "a_r1960-01-01_00-00-00.log", 0%N, bs "w"); (bs "a_rCURRENT.log", 0%N, bs "abcd") ]
  /\ run_with "a_r1960-01-01_00-00-00.log" (firstn 2 extf_ops)
     = [ (bs "a_r1960-01-01_00-00-00.log.gz", 1%N, bs "w"); (bs "a_r1970-01-01_00-00-00.log", 0%N, bs "abcd");
         (bs "a_rCURRENT.log", 0%N, bs "ef") ]
  /\ run_with "a_r1960-01-01_00-00-00.log" (firstn 3 extf_ops)
     = [ (bs "a_r1970-01-01_00-00-00.log.gz", 1%N, bs "abcd"); (bs "a_r1970-01-01_00-00-00.restart-0000.log", 0%N, bs "ef");
         (bs "a_rCURRENT.log", 0%N, bs "") ]
  /\ run_with "a_rCURRENT.log" (firstn 2 extf_ops)
     = [ (bs "a_r1970-01-01_00-00-00.log", 0%N, bs "wabcd"); (bs "a_rCURRENT.log", 0%N, bs "ef") ].
Proof. vm_compute. repeat split; reflexivity. Qed.
