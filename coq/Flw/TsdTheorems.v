(* TimestampsDirect naming: the stream theorem (C01), the partition theorem and the rotation flags (C08) for whole runs
   from an empty directory, and the reader corollary (the reader order of Oracles/ReaderOrder.v applied to the snapshot
   of the directory gives the files in the order in which they were written). *)
Require Import FL.Base.Bytes FL.Base.BytesFacts FL.Base.PathName FL.Fs.Fs FL.Fs.FsFacts FL.Time.Civil FL.Time.TsFormat
  FL.Names.FileSpec FL.Names.NamesFacts FL.Names.SortFacts FL.Names.FamilyFacts FL.Flw.Model FL.Flw.ModelFacts FL.Flw.NumFs
  FL.Flw.NumInv FL.Flw.Run FL.Flw.NumRun FL.Oracles.O_Flw FL.Oracles.ReaderOrder FL.Flw.NumTheorems FL.Flw.NumListing FL.Flw.NumRestart
  FL.Flw.NumDTheorems
  FL.Flw.TsCal FL.Flw.TsTime FL.Flw.TsMono FL.Flw.TsNames FL.Flw.TsInv FL.Flw.TsRun FL.Flw.TsTheorems FL.Flw.TsReader
  FL.Flw.TsdInv FL.Flw.TsdRun.
From Coq Require Import ZifyN ZifyNat ZifyBool Sorted.
Open Scope nat_scope.

(* ------------------------------------------------------------------ the reader's view *)
(* no files: the directory is empty *)
Lemma tsd_view_nil c e f keys : tsd_view c e f keys [] <-> (keys = [] /\ names f = []).
Proof.
  split.
  - intros [Hl [_ [H _]]]. split; [destruct keys; [reflexivity | discriminate Hl]|].
    destruct (names f) as [|[n j] r] eqn:E; [reflexivity|].
    assert (L : lookup f n = Some j) by (unfold lookup; rewrite E; cbn; rewrite beq_refl; reflexivity).
    destruct (H n j L) as [i [Hi _]]. cbn in Hi. lia.
  - intros [-> H]. split; [reflexivity|]. split; [intros i Hi; cbn in Hi; lia|]. split.
    + intros n j L. rewrite lookup_empty in L by assumption. discriminate.
    + unfold dir_names. rewrite H. constructor.
Qed.

Lemma start_rel_tsd c crit t0 off : RelTd c crit (ts_e c off) t0 0 (fst (step (sys0 t0 off) (OStart c))) None.
Proof. cbn. repeat split. cbn. lia. Qed.

(* the view of a whole run, with everything the theorems below need *)
Lemma run_view_tsd c crit t0 off ops :
  tsdcfg c crit -> tag_ok c -> Forall basic_op ops -> Forall tick_ok ops ->
  (0 <= t0 + ts_e c off)%Z -> (t0 + elapsed ops + ts_e c off < sec_max)%Z -> (N.of_nat (length ops) <= usize_max)%N ->
  exists x0 ob0, step (sys0 t0 off) (OStart c) = (x0, ob0) /\
    let a := a_run None ops (snd (run x0 ops)) in
    let f := wfs (s_w (fst (run (sys0 t0 off) (OStart c :: ops ++ [OStop])))) in
    (exists keys, tsd_view c (ts_e c off) f keys (files_of a) /\ keys_ok keys
                  /\ (forall k, In k keys -> (t0 <= fst k <= t0 + elapsed ops)%Z))
    /\ flat a = written ops
    /\ (forall m, crit = CSize m ->
          a = s_run m None ops
          /\ (forall i o, nth_error ops i = Some o -> forall b, (o = OWrite b \/ o = OPlain b) ->
                nth_error (snd (run x0 ops)) i = Some (ObsRes 0 (m <? N.of_nat (length (cur_of (s_run m None (firstn i ops)))))%N))).
Proof.
  intros Hcfg T Hb Htk Hlo Hhi Hmax. cbn [run]. destruct (step (sys0 t0 off) (OStart c)) as [x0 ob0] eqn:E0.
  exists x0, ob0. split; [reflexivity|].
  pose proof (start_rel_tsd c crit t0 off) as R0. rewrite E0 in R0. cbn [fst] in R0.
  assert (W0 : wnow (s_w x0) = t0) by (cbn in E0; injection E0 as <- _; reflexivity).
  assert (Y : years_ok (ts_e c off) t0 (t0 + elapsed ops)) by (split; assumption).
  rewrite run_app.
  pose proof (run_rel_tsd c crit _ _ _ Hcfg T Y ops x0 None 0 R0 Hb Htk ltac:(lia) ltac:(cbn [Nat.add]; exact Hmax)) as [R1 [W1 Z1]].
  pose proof (run_length ops x0) as L.
  destruct (run x0 ops) as [x1 obs1]. cbn [fst snd] in *.
  pose proof (stop_rel_tsd c crit _ _ _ x1 _ Hcfg R1) as S. cbn [run]. destruct (step x1 OStop) as [x2 ob2]. cbn [fst].
  pose proof (a_run_flat ops None obs1 Hb L) as F. cbn [flat app] in F.
  split; [|split; [exact F | exact Z1]].
  destruct (a_run None ops obs1) as [[cl cu]|]; cbn [files_of].
  - destruct S as [keys [V [K Rg]]]. exists keys. split; [exact V|]. split; [exact K|].
    intros k Ik. specialize (Rg k Ik). lia.
  - exists []. split; [apply tsd_view_nil; auto|]. split; [constructor | intros k []].
Qed.

(* ------------------------------------------------------------------ the theorems *)
(* C01 for TimestampsDirect naming: any criterion, buffer capacity, append flag, use_utc.
   After the writer is stopped the directory consists exactly of the plain files named by the keys - nothing else, no
   name twice -, their contents, in the order of the keys, are exactly the bytes written; the keys are those of keys_ok:
   seconds non-decreasing, within one second <ts>, <ts>.restart-0000, <ts>.restart-0001, ... (keys_ok_order, ts_names_distinct).
   In contrast to Timestamps naming the second of a key is the one in which the file was STARTED; the last key is the one
   of the file that was written last. *)
Theorem timestampsdirect_stream c crit t0 off ops :
  tsdcfg c crit -> tag_ok c -> Forall basic_op ops -> Forall tick_ok ops ->
  (0 <= t0 + ts_e c off)%Z -> (t0 + elapsed ops + ts_e c off < sec_max)%Z -> (N.of_nat (length ops) <= usize_max)%N ->
  let f := wfs (s_w (fst (run (sys0 t0 off) (OStart c :: ops ++ [OStop])))) in
  (names f = [] /\ written ops = [])
  \/ exists keys files,
       files <> []
       /\ tsd_view c (ts_e c off) f keys files
       /\ concat files = written ops
       /\ keys_ok keys
       /\ (forall k, In k keys -> (t0 <= fst k <= t0 + elapsed ops)%Z).
Proof.
  intros Hcfg T Hb Htk Hlo Hhi Hmax.
  destruct (run_view_tsd c crit t0 off ops Hcfg T Hb Htk Hlo Hhi Hmax) as [x0 [ob0 [E0 [[keys [V [K Rg]]] [F _]]]]].
  cbv zeta. destruct (a_run None ops (snd (run x0 ops))) as [[cl cu]|]; cbn [files_of flat] in *.
  - right. exists keys, (cl ++ [cu]). split; [destruct cl; discriminate|]. split; [exact V|].
    split; [rewrite concat_app; cbn [concat]; rewrite app_nil_r; exact F|]. split; [exact K | exact Rg].
  - left. apply tsd_view_nil in V. split; [apply V | symmetry; exact F].
Qed.
Print Assumptions timestampsdirect_stream.

(* the same in one piece: an empty list of files stands for the empty directory (tsd_view_nil) *)
Theorem timestampsdirect_stream_view c crit t0 off ops :
  tsdcfg c crit -> tag_ok c -> Forall basic_op ops -> Forall tick_ok ops ->
  (0 <= t0 + ts_e c off)%Z -> (t0 + elapsed ops + ts_e c off < sec_max)%Z -> (N.of_nat (length ops) <= usize_max)%N ->
  exists keys files,
    tsd_view c (ts_e c off) (wfs (s_w (fst (run (sys0 t0 off) (OStart c :: ops ++ [OStop]))))) keys files
    /\ concat files = written ops /\ keys_ok keys
    /\ (forall k, In k keys -> (t0 <= fst k <= t0 + elapsed ops)%Z).
Proof.
  intros Hcfg T Hb Htk Hlo Hhi Hmax.
  destruct (run_view_tsd c crit t0 off ops Hcfg T Hb Htk Hlo Hhi Hmax) as [x0 [ob0 [E0 [[keys [V [K Rg]]] [F _]]]]].
  cbv zeta in *. exists keys, (files_of (a_run None ops (snd (run x0 ops)))). split; [exact V|]. split; [|split; assumption].
  rewrite <- F. destruct (a_run None ops (snd (run x0 ops))) as [[cl cu]|]; cbn [files_of flat concat]; [|reflexivity].
  rewrite concat_app. cbn [concat]. rewrite app_nil_r. reflexivity.
Qed.

(* what the view says about the names: the names of the files are pairwise different, and the order of the keys is the
   strict order of (second, position) with the positions 0, 1, 2, .. within each second *)
Corollary tsd_view_names c e lo hi f keys files :
  tsd_view c e f keys files -> keys_ok keys -> years_ok e lo hi -> (forall k, In k keys -> (lo <= fst k <= hi)%Z) ->
  (forall i j, i < length files -> j < length files -> kname c e (nth i keys kd) = kname c e (nth j keys kd) -> i = j)
  /\ (forall i j, i < j < length files ->
        let a := nth i keys kd in let b := nth j keys kd in (fst a < fst b)%Z \/ (fst a = fst b /\ snd a < snd b))
  /\ (forall i, i < length files -> snd (nth i keys kd) = count (fst (nth i keys kd)) (firstn i keys)).
Proof.
  intros [Hl _] K Y Rg. rewrite <- Hl.
  split; [exact (proj1 (ts_names_distinct c e lo hi keys K Y Rg)) | exact (keys_ok_order keys K)].
Qed.

(* C08 for TimestampsDirect naming with a size criterion: the contents of the files, in the order of the keys, are the
   greedy partition of the records - the very same lists as for Numbers and NumbersDirect naming: a trigger before the
   first record does nothing (no file has been opened yet), the first file starts empty, every rotation starts an
   empty file *)
Theorem timestampsdirect_partition c m t0 off ops :
  tsdcfg c (CSize m) -> tag_ok c -> Forall basic_op ops -> Forall tick_ok ops ->
  (0 <= t0 + ts_e c off)%Z -> (t0 + elapsed ops + ts_e c off < sec_max)%Z -> (N.of_nat (length ops) <= usize_max)%N ->
  exists keys,
    tsd_view c (ts_e c off) (wfs (s_w (fst (run (sys0 t0 off) (OStart c :: ops ++ [OStop]))))) keys
             (expected_files m None (items false ops))
    /\ keys_ok keys /\ (forall k, In k keys -> (t0 <= fst k <= t0 + elapsed ops)%Z).
Proof.
  intros Hcfg T Hb Htk Hlo Hhi Hmax.
  destruct (run_view_tsd c (CSize m) t0 off ops Hcfg T Hb Htk Hlo Hhi Hmax) as [x0 [ob0 [E0 [[keys [V [K Rg]]] [_ Z]]]]].
  cbv zeta in *. destruct (Z m eq_refl) as [Hs _]. rewrite Hs, s_run_none in V by assumption. exists keys. auto.
Qed.
Print Assumptions timestampsdirect_partition.

(* each write reports a rotation exactly when the current file (disk + buffer) already exceeds the limit *)
Theorem timestampsdirect_rotates_iff c m t0 off ops i o b :
  tsdcfg c (CSize m) -> tag_ok c -> Forall basic_op ops -> Forall tick_ok ops ->
  (0 <= t0 + ts_e c off)%Z -> (t0 + elapsed ops + ts_e c off < sec_max)%Z -> (N.of_nat (length ops) <= usize_max)%N ->
  nth_error ops i = Some o -> (o = OWrite b \/ o = OPlain b) ->
  nth_error (snd (run (sys0 t0 off) (OStart c :: ops))) (S i)
  = Some (ObsRes 0 (m <? N.of_nat (length (cur_of (s_run m None (firstn i ops)))))%N).
Proof.
  intros Hcfg T Hb Htk Hlo Hhi Hmax Hi Ho.
  destruct (run_view_tsd c (CSize m) t0 off ops Hcfg T Hb Htk Hlo Hhi Hmax) as [x0 [ob0 [E0 [_ [_ Z]]]]].
  destruct (Z m eq_refl) as [_ Hr]. cbn [run]. rewrite E0. destruct (run x0 ops) as [x1 obs1]. cbn [snd nth_error] in *.
  exact (Hr i o Hi b Ho).
Qed.
Print Assumptions timestampsdirect_rotates_iff.

Corollary timestampsdirect_rotates_last c m t0 off ops i o b :
  tsdcfg c (CSize m) -> tag_ok c -> Forall basic_op ops -> Forall tick_ok ops ->
  (0 <= t0 + ts_e c off)%Z -> (t0 + elapsed ops + ts_e c off < sec_max)%Z -> (N.of_nat (length ops) <= usize_max)%N ->
  nth_error ops i = Some o -> (o = OWrite b \/ o = OPlain b) ->
  nth_error (snd (run (sys0 t0 off) (OStart c :: ops))) (S i)
  = Some (ObsRes 0 (m <? N.of_nat (length (last (expected_files m None (items false (firstn i ops))) [])))%N).
Proof.
  intros Hcfg T Hb Htk Hlo Hhi Hmax Hi Ho. rewrite (timestampsdirect_rotates_iff c m t0 off ops i o b Hcfg T Hb Htk Hlo Hhi Hmax Hi Ho).
  rewrite s_run_cur_last by (apply firstn_Forall; exact Hb). reflexivity.
Qed.

(* nothing is in the directory exactly when no record was written *)
Theorem timestampsdirect_empty_iff c crit t0 off ops :
  tsdcfg c crit -> tag_ok c -> Forall basic_op ops -> Forall tick_ok ops ->
  (0 <= t0 + ts_e c off)%Z -> (t0 + elapsed ops + ts_e c off < sec_max)%Z -> (N.of_nat (length ops) <= usize_max)%N ->
  (names (wfs (s_w (fst (run (sys0 t0 off) (OStart c :: ops ++ [OStop]))))) = [] <-> has_write ops = false).
Proof.
  intros Hcfg T Hb Htk Hlo Hhi Hmax.
  destruct (run_view_tsd c crit t0 off ops Hcfg T Hb Htk Hlo Hhi Hmax) as [x0 [ob0 [E0 [[keys [V _]] _]]]]. cbv zeta in V.
  rewrite <- (a_run_none_iff ops (snd (run x0 ops)) (run_length ops x0) Hb).
  destruct (a_run None ops (snd (run x0 ops))) as [[cl cu]|]; cbn [files_of] in V.
  - split; [|discriminate]. intros Hn. exfalso. destruct V as [Hl [Hcl _]].
    destruct (Hcl (length cl)) as [j [L _]]; [rewrite app_length; cbn [length]; lia|].
    rewrite lookup_empty in L by assumption. discriminate.
  - split; [reflexivity|]. intros _. apply tsd_view_nil in V. apply V.
Qed.

(* without clock ticks every file carries the second of the start: the i-th file is <t0> for i = 0 and
   <t0>.restart-(i-1) otherwise *)
Corollary timestampsdirect_stream_no_tick c crit t0 off ops :
  tsdcfg c crit -> tag_ok c -> Forall basic_op ops -> Forall (fun o => forall dt, o <> OTick dt) ops ->
  (0 <= t0 + ts_e c off < sec_max)%Z -> (N.of_nat (length ops) <= usize_max)%N ->
  exists keys files,
    tsd_view c (ts_e c off) (wfs (s_w (fst (run (sys0 t0 off) (OStart c :: ops ++ [OStop]))))) keys files
    /\ concat files = written ops
    /\ forall i, i < length keys -> nth i keys kd = (t0, i).
Proof.
  intros Hcfg T Hb Hnt Hr Hmax.
  assert (Htk : Forall tick_ok ops /\ elapsed ops = 0%Z).
  { clear -Hnt. induction Hnt as [|o r Ho _ [IH1 IH2]]; [split; [constructor | reflexivity]|].
    destruct o; try (split; [constructor; [exact Logic.I | exact IH1] | cbn [elapsed dt_of]; lia]).
    exfalso. exact (Ho dt eq_refl). }
  destruct Htk as [Htk El].
  destruct (timestampsdirect_stream_view c crit t0 off ops Hcfg T Hb Htk ltac:(lia) ltac:(lia) Hmax) as [keys [files [V [F [K Rg]]]]].
  exists keys, files. split; [exact V|]. split; [exact F|]. apply keys_one_second; [exact K|]. intros k Ik. specialize (Rg k Ik). lia.
Qed.
Print Assumptions timestampsdirect_empty_iff.
Print Assumptions timestampsdirect_stream_no_tick.

(* ------------------------------------------------------------------ the reader *)
(* There is no current infix (cur_infix_of c = None): every file is a rotated one for the reader, which sorts by time
   stamp and then by restart counter.  This is the order of the keys, i.e. the order in which the files were written. *)
Lemma key_of_infix_none e k : in_years e (fst k) -> key_of None (infix_of e k) = rk e k.
Proof.
  intros H. unfold key_of, rk.
  assert (Hc : contains restart_tag (tsx e (fst k)) = false) by (apply no_dot_no_tag; exact (tsx_no_dot e _ H)).
  unfold infix_of. destruct (snd k) as [|m].
  - unfold split_restart. apply contains_false_iff in Hc. rewrite Hc. reflexivity.
  - unfold split_restart, restart_infix. rewrite (sk_find_tag_app _ _ Hc), sk_firstn_app, sk_skipn_app, skipn_length_app.
    unfold pad_left. rewrite dec_value_zeros, dec_value_dec. reflexivity.
Qed.

(* the files in the order of the keys *)
Fixpoint target_d (c : config) (e : Z) (keys : list key) (files : list bytes) : list (rkey * entry) :=
  match keys, files with
  | k :: ks, d :: ds => (rk e k, (kname c e k, 0%N, d)) :: target_d c e ks ds
  | _, _ => []
  end.

Lemma target_d_contents c e : forall keys files, length keys = length files ->
  contents (List.map snd (target_d c e keys files)) = files.
Proof.
  induction keys as [|k ks IH]; intros [|d ds] Hl; try discriminate; [reflexivity|].
  cbn [target_d List.map contents snd]. unfold contents in IH. rewrite IH by (injection Hl as Hl; exact Hl). reflexivity.
Qed.

Lemma target_d_in c e : forall keys files a, length keys = length files ->
  (In a (target_d c e keys files) <->
   exists i, i < length files /\ a = (rk e (nth i keys kd), (kname c e (nth i keys kd), 0%N, nth i files []))).
Proof.
  induction keys as [|k ks IH]; intros [|d ds] a Hl; try discriminate.
  - cbn [target_d In length]. split; [intros [] | intros [i [Hi _]]; lia].
  - injection Hl as Hl. cbn [target_d In length]. rewrite (IH ds a Hl). split.
    + intros [<-|[i [Hi ->]]]; [exists 0; split; [lia | reflexivity] | exists (S i); split; [lia | reflexivity]].
    + intros [i [Hi ->]]. destruct i as [|i]; [left; reflexivity | right; exists i; split; [lia | reflexivity]].
Qed.

Lemma target_d_sorted c e : forall ks ds, length ks = length ds ->
  (forall i j, i < j < length ks -> klt (nth i ks kd) (nth j ks kd)) -> (forall k, In k ks -> in_years e (fst k)) ->
  StronglySorted (before entry) (target_d c e ks ds).
Proof.
  induction ks as [|k ks IH]; intros [|d ds] Hl Hs Hy; try discriminate.
  - cbn [target_d]. constructor.
  - injection Hl as Hl. cbn [target_d]. constructor.
    + apply IH; [exact Hl | | intros k' Ik; apply Hy; right; exact Ik].
      intros i j Hij. apply (Hs (S i) (S j)). cbn [length]. lia.
    + apply Forall_forall. intros a Ia. apply (target_d_in c e ks ds a Hl) in Ia. destruct Ia as [i [Hi ->]].
      unfold before. cbn [fst]. apply rk_lt; [apply Hy; left; reflexivity | apply Hy; right; apply nth_In; lia |].
      apply (Hs 0 (S i)). cbn [length]. lia.
Qed.

Section ReaderD.
Variables (c : config) (crit : criterion) (e lo hi : Z) (f : fs) (keys : list key) (files : list bytes).
Hypothesis Hcfg : tsdcfg c crit.
Hypothesis G : not_gz c.
Hypothesis Y : years_ok e lo hi.
Hypothesis Rg : forall k, In k keys -> (lo <= fst k <= hi)%Z.
Hypothesis K : keys_ok keys.
Hypothesis V : tsd_view c e f keys files.

Let Hlen : length keys = length files. Proof. apply V. Qed.
Let Yk : forall k, In k keys -> in_years e (fst k).
Proof. intros k Ik. apply (years_in e lo hi _ Y). apply Rg, Ik. Qed.
Let Yi : forall i, i < length files -> in_years e (fst (nth i keys kd)).
Proof. intros i Hi. apply Yk, nth_In. rewrite Hlen. exact Hi. Qed.

Let sp := c_spec c.
Let fixed := fixed0 c.
Let L := target_d c e keys files.

Lemma plain_entry_d n j d : lookup f n = Some j -> plain (inode f j) -> content f j = d -> snap_entry f n = (n, 0%N, d).
Proof. intros Lj [Pg Pd] <-. unfold snap_entry, file_of. rewrite Lj, Pd, Pg. reflexivity. Qed.

(* what the snapshot says about a name of the directory *)
Lemma entry_of_name_d n : In n (dir_names f) ->
  exists i, i < length files /\ n = kname c e (nth i keys kd) /\ snap_entry f n = (n, 0%N, nth i files [])
            /\ full_infix sp fixed n = Some (infix_of e (nth i keys kd)).
Proof.
  intros I. apply dir_names_lookup in I. destruct I as [j Lj].
  destruct V as [_ [Hcl [Hon _]]].
  destruct (Hon n j Lj) as [i [Hi ->]].
  exists i. split; [exact Hi|]. split; [reflexivity|]. destruct (Hcl i Hi) as [j' [Lj' [Pj Cj]]].
  split; [exact (plain_entry_d _ _ _ Lj' Pj Cj) | apply full_infix_kname; [exact G | apply Yi; exact Hi]].
Qed.

Theorem tsd_reader_order : family_in_order c (snap_list f) = files.
Proof.
  unfold family_in_order, reader_order.
  assert (Ec : cur_infix_of c = None) by (unfold cur_infix_of; rewrite (proj1 Hcfg); reflexivity).
  rewrite Ec. change (fixed_name_part (c_spec c) []) with fixed. fold sp. unfold snap_list.
  set (ns := sort_names (dir_names f)).
  assert (Hns : forall n, In n ns -> In n (dir_names f)) by (intros n; apply sort_names_in').
  rewrite (family_entries_map sp fixed None f ns).
  2:{ intros n In_. destruct (entry_of_name_d n (Hns n In_)) as [i [_ [_ [Es Ef]]]]. eauto. }
  set (l := List.map (fun n => (key_of None (fam sp fixed n), snap_entry f n)) ns).
  assert (HS : StronglySorted (before entry) L).
  { apply target_d_sorted; [exact Hlen | exact (keys_sorted keys K) | exact Yk]. }
  assert (Enames : List.map ename l = ns).
  { unfold l. rewrite map_map. unfold ename. cbn [snd]. rewrite <- (map_id ns) at 2. apply map_ext. intros n. apply snap_entry_name. }
  assert (Etarget : sort_keys l = L).
  { apply (sort_keys_target entry ename L l HS).
    - apply sorted_nodup; [exact HS|]. intros a b Ia Ib E.
      apply (target_d_in c e keys files a Hlen) in Ia. apply (target_d_in c e keys files b Hlen) in Ib.
      destruct Ia as [i [Hi ->]], Ib as [j [Hj ->]]; unfold ename in E; cbn [fst snd] in E |- *.
      apply kname_inj in E; [|apply Yi; assumption|apply Yi; assumption]. rewrite E. reflexivity.
    - intros x Ix. unfold l in Ix. apply in_map_iff in Ix. destruct Ix as [n [<- In_]].
      apply (target_d_in c e keys files _ Hlen).
      destruct (entry_of_name_d n (Hns n In_)) as [i [Hi [-> [Es Ef]]]]. unfold fam. rewrite Ef, Es.
      exists i. split; [exact Hi|]. rewrite key_of_infix_none by (apply Yi; exact Hi). reflexivity.
    - rewrite Enames. apply sort_names_nodup. apply V.
    - intros a Ia. rewrite Enames. apply sort_names_in', dir_names_lookup.
      apply (target_d_in c e keys files a Hlen) in Ia.
      destruct V as [_ [Hcl _]].
      destruct Ia as [i [Hi ->]]. unfold ename. cbn [fst snd]. destruct (Hcl i Hi) as [j [Lj _]]. eauto. }
  rewrite Etarget. apply target_d_contents. exact Hlen.
Qed.
End ReaderD.

Print Assumptions tsd_reader_order.

(* the C01 oracle on the snapshot of a run: the reader finds the files in the order in which they were written,
   and their concatenation is the stream *)
Theorem timestampsdirect_reader c crit t0 off ops :
  tsdcfg c crit -> tag_ok c -> not_gz c -> Forall basic_op ops -> Forall tick_ok ops ->
  (0 <= t0 + ts_e c off)%Z -> (t0 + elapsed ops + ts_e c off < sec_max)%Z -> (N.of_nat (length ops) <= usize_max)%N ->
  let x := fst (run (sys0 t0 off) (OStart c :: ops ++ [OStop])) in
  concat (family_in_order c (snap_of x)) = written ops
  /\ exists keys files, tsd_view c (ts_e c off) (wfs (s_w x)) keys files /\ keys_ok keys
                        /\ (forall k, In k keys -> (t0 <= fst k <= t0 + elapsed ops)%Z)
                        /\ family_in_order c (snap_of x) = files.
Proof.
  intros Hcfg T G Hb Htk Hlo Hhi Hmax x.
  destruct (timestampsdirect_stream_view c crit t0 off ops Hcfg T Hb Htk Hlo Hhi Hmax) as [keys [files [V [F [K Rg]]]]]. fold x in V.
  assert (Y : years_ok (ts_e c off) t0 (t0 + elapsed ops)) by (split; assumption).
  pose proof (tsd_reader_order c crit _ _ _ _ keys files Hcfg G Y Rg K V) as E. rewrite <- snap_of_list in E.
  split; [rewrite E; exact F|]. exists keys, files. auto.
Qed.
Print Assumptions timestampsdirect_reader.

Corollary timestampsdirect_oracle_C01 c crit t0 off ops :
  tsdcfg c crit -> tag_ok c -> not_gz c -> Forall basic_op ops -> Forall tick_ok ops ->
  (0 <= t0 + ts_e c off)%Z -> (t0 + elapsed ops + ts_e c off < sec_max)%Z -> (N.of_nat (length ops) <= usize_max)%N ->
  oracle_C01 None (items false ops) (family_in_order c (snap_of (fst (run (sys0 t0 off) (OStart c :: ops ++ [OStop]))))) = true.
Proof.
  intros Hcfg T G Hb Htk Hlo Hhi Hmax. unfold oracle_C01.
  rewrite (proj1 (timestampsdirect_reader c crit t0 off ops Hcfg T G Hb Htk Hlo Hhi Hmax)). cbn [app].
  rewrite items_written by exact Hb. apply beq_refl.
Qed.

(* with a size criterion the reader finds the greedy partition: the C08 oracle *)
Lemma list_beq_refl l : list_beq l l = true.
Proof. induction l as [|x l IH]; [reflexivity|]. cbn [list_beq]. rewrite beq_refl, IH. reflexivity. Qed.

(* the view determines the contents (whatever the keys) *)
Lemma tsd_view_unique c crit e lo hi f keys1 keys2 files1 files2 :
  tsdcfg c crit -> not_gz c ->
  years_ok e lo hi -> (forall k, In k keys1 -> (lo <= fst k <= hi)%Z) -> (forall k, In k keys2 -> (lo <= fst k <= hi)%Z) ->
  keys_ok keys1 -> keys_ok keys2 ->
  tsd_view c e f keys1 files1 -> tsd_view c e f keys2 files2 -> files1 = files2.
Proof.
  intros Hcfg G Y R1 R2 K1 K2 V1 V2.
  rewrite <- (tsd_reader_order c crit e lo hi f keys1 files1 Hcfg G Y R1 K1 V1).
  exact (tsd_reader_order c crit e lo hi f keys2 files2 Hcfg G Y R2 K2 V2).
Qed.

Corollary timestampsdirect_oracle_C08 c m t0 off ops :
  tsdcfg c (CSize m) -> tag_ok c -> not_gz c -> Forall basic_op ops -> Forall tick_ok ops ->
  (0 <= t0 + ts_e c off)%Z -> (t0 + elapsed ops + ts_e c off < sec_max)%Z -> (N.of_nat (length ops) <= usize_max)%N ->
  oracle_C08 m None (items false ops) (family_in_order c (snap_of (fst (run (sys0 t0 off) (OStart c :: ops ++ [OStop]))))) = true.
Proof.
  intros Hcfg T G Hb Htk Hlo Hhi Hmax. unfold oracle_C08.
  destruct (timestampsdirect_partition c m t0 off ops Hcfg T Hb Htk Hlo Hhi Hmax) as [keys [V [K Rg]]].
  assert (Y : years_ok (ts_e c off) t0 (t0 + elapsed ops)) by (split; assumption).
  pose proof (tsd_reader_order c (CSize m) _ _ _ _ keys _ Hcfg G Y Rg K V) as E. rewrite <- snap_of_list in E.
  rewrite E. apply list_beq_refl.
Qed.
Print Assumptions timestampsdirect_oracle_C01.
Print Assumptions timestampsdirect_oracle_C08.

(* ------------------------------------------------------------------ examples *)
Import String.StringSyntax.
Open Scope string_scope.
Definition tsd_cfg (sp : file_spec) (app : bool) (crit : criterion) (cap : option nat) (utc : bool) : config :=
  {| c_spec := sp; c_append := app; c_cap := cap; c_rot := Some (crit, NTimestampsDirect, KNever); c_utc := utc;
     c_symlink := false; c_bg := false; c_async := false; c_start := None |}.

Lemma tsd_cfg_ok sp app crit cap utc : fts sp = false -> tsdcfg (tsd_cfg sp app crit cap utc) crit.
Proof. intros H. repeat split. exact H. Qed.

(* the history of TsTheorems.ts_instance_dir: three rotations within one second, then the clock advances, two more
   rotations.  Each file carries the second in which it was STARTED: "d" was started in second 0 (restart-0002) and closed in
   second 1; "e" is the first file of second 1, "f" the second one (restart-0000) - and the last file is the one that was
   written last, there is no rCURRENT *)
Definition tsd_c : config := tsd_cfg (ex_sp "log") false (CSize 100) (Some 3%nat) false.

Example tsd_instance_dir :
  snap_of (fst (run (sys0 0 0) (OStart tsd_c :: ext_ops ++ [OStop])))
  = [ (bs "app_r1970-01-01_00-00-00.log", 0%N, bs "a");
      (bs "app_r1970-01-01_00-00-00.restart-0000.log", 0%N, bs "b");
      (bs "app_r1970-01-01_00-00-00.restart-0001.log", 0%N, bs "c");
      (bs "app_r1970-01-01_00-00-00.restart-0002.log", 0%N, bs "d");
      (bs "app_r1970-01-01_00-00-01.log", 0%N, bs "e");
      (bs "app_r1970-01-01_00-00-01.restart-0000.log", 0%N, bs "f") ].
Proof. vm_compute. reflexivity. Qed.

(* three rotations in one second, a tick, another rotation *)
Definition tsd_ops3 : list op :=
  [OWrite (bs "a"); OTrigger; OWrite (bs "b"); OTrigger; OWrite (bs "c"); OTrigger; OWrite (bs "d"); OTick 1; OTrigger; OWrite (bs "e")].
Example tsd_three_rotations_dir :
  snap_of (fst (run (sys0 0 0) (OStart tsd_c :: tsd_ops3 ++ [OStop])))
  = [ (bs "app_r1970-01-01_00-00-00.log", 0%N, bs "a");
      (bs "app_r1970-01-01_00-00-00.restart-0000.log", 0%N, bs "b");
      (bs "app_r1970-01-01_00-00-00.restart-0001.log", 0%N, bs "c");
      (bs "app_r1970-01-01_00-00-00.restart-0002.log", 0%N, bs "d");
      (bs "app_r1970-01-01_00-00-01.log", 0%N, bs "e") ].
Proof. vm_compute. reflexivity. Qed.

(* with append (on the empty directory) the very same directory: nothing is found to be continued *)
Example tsd_append_same_dir :
  snap_of (fst (run (sys0 0 0) (OStart (tsd_cfg (ex_sp "log") true (CSize 100) (Some 3%nat) false) :: ext_ops ++ [OStop])))
  = snap_of (fst (run (sys0 0 0) (OStart tsd_c :: ext_ops ++ [OStop]))).
Proof. vm_compute. reflexivity. Qed.

(* the same history with Timestamps naming: the same contents; there the name says when the file was closed - rather: when
   its successor was started -, and the last file is rCURRENT *)
Example timestamps_same_contents :
  List.map snd (snap_of (fst (run (sys0 0 0) (OStart ext_c :: ext_ops ++ [OStop]))))
  = List.map snd (snap_of (fst (run (sys0 0 0) (OStart tsd_c :: ext_ops ++ [OStop])))).
Proof. vm_compute. reflexivity. Qed.

(* the hypotheses of the theorems can be met *)
Lemma tsd_c_ok : tsdcfg tsd_c (CSize 100).
Proof. apply tsd_cfg_ok. reflexivity. Qed.
Lemma tsd_c_tag_ok : tag_ok tsd_c.
Proof. apply tag_free_ok. split; vm_compute; reflexivity. Qed.
Lemma tsd_c_not_gz : not_gz tsd_c.
Proof. vm_compute. reflexivity. Qed.

Example tsd_stream_instance :
  exists keys files,
    files <> []
    /\ tsd_view tsd_c 0 (wfs (s_w (fst (run (sys0 0 0) (OStart tsd_c :: ext_ops ++ [OStop]))))) keys files
    /\ concat files = bs "abcdef" /\ keys_ok keys /\ (forall k, In k keys -> (0 <= fst k <= 1)%Z).
Proof.
  destruct (timestampsdirect_stream tsd_c (CSize 100) 0 0 ext_ops tsd_c_ok tsd_c_tag_ok ext_ops_basic ext_ops_ticks)
    as [[_ H]|H]; [change (0 <= 0)%Z; lia | change (1 < sec_max)%Z; unfold sec_max; lia | vm_compute; discriminate | discriminate H | exact H].
Qed.

(* the keys of this history, as the invariant has them: (second of the start, position) *)
Example tsd_instance_keys :
  List.map (kname tsd_c 0) [(0%Z, 0); (0%Z, 1); (0%Z, 2); (0%Z, 3); (1%Z, 0); (1%Z, 1)]
  = List.map (fun x : bytes * N * bytes => fst (fst x)) (snap_of (fst (run (sys0 0 0) (OStart tsd_c :: ext_ops ++ [OStop]))))
  /\ keys_ok [(0%Z, 0); (0%Z, 1); (0%Z, 2); (0%Z, 3); (1%Z, 0); (1%Z, 1)].
Proof.
  split; [vm_compute; reflexivity|].
  apply (ko_snoc [(0%Z, 0); (0%Z, 1); (0%Z, 2); (0%Z, 3); (1%Z, 0)] 1%Z); [|cbn; intros k H; repeat (destruct H as [<-|H]; [cbn; lia|]); destruct H].
  apply (ko_snoc [(0%Z, 0); (0%Z, 1); (0%Z, 2); (0%Z, 3)] 1%Z); [|cbn; intros k H; repeat (destruct H as [<-|H]; [cbn; lia|]); destruct H].
  apply (ko_snoc [(0%Z, 0); (0%Z, 1); (0%Z, 2)] 0%Z); [|cbn; intros k H; repeat (destruct H as [<-|H]; [cbn; lia|]); destruct H].
  apply (ko_snoc [(0%Z, 0); (0%Z, 1)] 0%Z); [|cbn; intros k H; repeat (destruct H as [<-|H]; [cbn; lia|]); destruct H].
  apply (ko_snoc [(0%Z, 0)] 0%Z); [|cbn; intros k H; repeat (destruct H as [<-|H]; [cbn; lia|]); destruct H].
  apply (ko_snoc [] 0%Z); [constructor | intros k []].
Qed.

(* the reader finds the six files in the order in which they were written: computed, and by the theorem *)
Example tsd_reader_instance_computed :
  family_in_order tsd_c (snap_of (fst (run (sys0 0 0) (OStart tsd_c :: ext_ops ++ [OStop]))))
  = [bs "a"; bs "b"; bs "c"; bs "d"; bs "e"; bs "f"].
Proof. vm_compute. reflexivity. Qed.

Example tsd_oracle_instance :
  oracle_C01 None (items false ext_ops) (family_in_order tsd_c (snap_of (fst (run (sys0 0 0) (OStart tsd_c :: ext_ops ++ [OStop]))))) = true.
Proof.
  apply (timestampsdirect_oracle_C01 tsd_c (CSize 100) 0 0 ext_ops tsd_c_ok tsd_c_tag_ok tsd_c_not_gz ext_ops_basic ext_ops_ticks).
  - change (0 <= 0)%Z. lia.
  - change (1 < sec_max)%Z. unfold sec_max. lia.
  - vm_compute. discriminate.
Qed.

(* a size criterion: the history of NumDTheorems.exd_ops (a trigger before the first record, buffered records, a rotation by
   size, a trigger at the end), append.  The same contents as for NumbersDirect naming; the trigger before the first record
   leaves no trace, the last one an empty file *)
Definition tsd_c3 : config := tsd_cfg (ex_sp "log") true (CSize 3) (Some 3%nat) false.
Lemma tsd_c3_ok : tsdcfg tsd_c3 (CSize 3).
Proof. apply tsd_cfg_ok. reflexivity. Qed.
Lemma tsd_c3_tag_ok : tag_ok tsd_c3.
Proof. apply tag_free_ok. split; vm_compute; reflexivity. Qed.
Lemma exd_ops_ticks : Forall tick_ok exd_ops.
Proof. repeat (apply Forall_cons; [cbn [tick_ok]; first [exact Logic.I | lia]|]). apply Forall_nil. Qed.

Example tsd_partition_dir :
  snap_of (fst (run (sys0 0 0) (OStart tsd_c3 :: exd_ops ++ [OStop])))
  = [ (bs "app_r1970-01-01_00-00-00.log", 0%N, bs "abcd");
      (bs "app_r1970-01-01_00-00-03.log", 0%N, bs "ef");
      (bs "app_r1970-01-01_00-00-03.restart-0000.log", 0%N, bs "ghi");
      (bs "app_r1970-01-01_00-00-03.restart-0001.log", 0%N, bs "") ]
  /\ expected_files 3 None (items false exd_ops) = [bs "abcd"; bs "ef"; bs "ghi"; bs ""].
Proof. split; vm_compute; reflexivity. Qed.

Example tsd_partition_instance :
  exists keys,
    tsd_view tsd_c3 0 (wfs (s_w (fst (run (sys0 0 0) (OStart tsd_c3 :: exd_ops ++ [OStop]))))) keys [bs "abcd"; bs "ef"; bs "ghi"; bs ""]
    /\ keys_ok keys /\ (forall k, In k keys -> (0 <= fst k <= 3)%Z).
Proof.
  apply (timestampsdirect_partition tsd_c3 3 0 0 exd_ops tsd_c3_ok tsd_c3_tag_ok exd_ops_basic exd_ops_ticks).
  - change (0 <= 0)%Z. lia.
  - change (3 < sec_max)%Z. unfold sec_max. lia.
  - vm_compute. discriminate.
Qed.

(* the rotation flags of the writes, as computed: only the write of "ef" rotates; and by the theorem *)
Example tsd_instance_flags :
  List.map rot_of (snd (run (sys0 0 0) (OStart tsd_c3 :: exd_ops)))
  = [false; false; false; false; true; false; false; false; false; false; false].
Proof. vm_compute. reflexivity. Qed.

Example tsd_rotates_instance :
  nth_error (snd (run (sys0 0 0) (OStart tsd_c3 :: exd_ops))) 4 = Some (ObsRes 0 true).
Proof.
  rewrite (timestampsdirect_rotates_iff tsd_c3 3 0 0 exd_ops 3 (OWrite (bs "ef")) (bs "ef") tsd_c3_ok tsd_c3_tag_ok exd_ops_basic exd_ops_ticks).
  - vm_compute. reflexivity.
  - change (0 <= 0)%Z. lia.
  - change (3 < sec_max)%Z. unfold sec_max. lia.
  - vm_compute. discriminate.
  - reflexivity.
  - left. reflexivity.
Qed.

(* a history without a record: nothing is created *)
Example tsd_no_write_dir :
  snap_of (fst (run (sys0 0 0) (OStart (tsd_cfg (ex_sp "log") false (CAge ADay) None false)
                                 :: [OTrigger; OFlush; OTick 100000; OTrigger] ++ [OStop])))
  = [].
Proof. vm_compute. reflexivity. Qed.

(* use_utc with a zone offset of two hours, a file spec without suffix and with a discriminant, an age criterion: the
   file that is started by the rotation carries the second of the rotation *)
Example tsd_age_dir_local :
  snap_of (fst (run (sys0 1700000000 7200) (OStart (tsd_cfg ext_sp2 true (CAge ADay) None false) :: ext_ops2 ++ [OStop])))
  = [ (bs "srv_a1_r2023-11-15_00-13-20", 0%N, bs "x"); (bs "srv_a1_r2023-11-16_01-13-20", 0%N, bs "yz") ].
Proof. vm_compute. reflexivity. Qed.
Example tsd_age_dir_utc :
  snap_of (fst (run (sys0 1700000000 7200) (OStart (tsd_cfg ext_sp2 true (CAge ADay) None true) :: ext_ops2 ++ [OStop])))
  = [ (bs "srv_a1_r2023-11-14_22-13-20", 0%N, bs "x"); (bs "srv_a1_r2023-11-15_23-13-20", 0%N, bs "yz") ].
Proof. vm_compute. reflexivity. Qed.

(* ------------------------------------------------------------------ the hypotheses are needed *)
(* tick_ok: when the clock goes backwards the order of writing is no longer the order of the time stamps: "b" is written
   before "c" but carries the later second; nothing is lost, but the reader takes "c" before "b" *)
Example tsd_clock_backwards :
  snap_of (fst (run (sys0 0 0) (OStart tsd_c :: back_ops ++ [OStop])))
  = [ (bs "app_r1970-01-01_00-00-00.log", 0%N, bs "a");
      (bs "app_r1970-01-01_00-00-00.restart-0000.log", 0%N, bs "c");
      (bs "app_r1970-01-01_00-00-00.restart-0001.log", 0%N, bs "d");
      (bs "app_r1970-01-01_00-00-05.log", 0%N, bs "b") ]
  /\ family_in_order tsd_c (snap_of (fst (run (sys0 0 0) (OStart tsd_c :: back_ops ++ [OStop]))))
     = [bs "a"; bs "c"; bs "d"; bs "b"]
  /\ written back_ops = bs "abcd".
Proof. vm_compute. repeat split; reflexivity. Qed.

(* tag_ok, the suffix does not start with "restart-": with the suffix "restart-5" the first file of a second, <ts>.restart-5,
   reads like a restart sibling with the counter 5; the counters start at 0006 (nothing is lost) *)
Example tsd_tag_in_suffix_shifts_counters :
  snap_of (fst (run (sys0 0 0) (OStart (tsd_cfg bad_sp2 false (CSize 100) None false) :: rst_ops ++ [OStop])))
  = [ (bs "a_r1970-01-01_00-00-00.restart-0006.restart-5", 0%N, bs "b");
      (bs "a_r1970-01-01_00-00-00.restart-0007.restart-5", 0%N, bs "c");
      (bs "a_r1970-01-01_00-00-00.restart-0008.restart-5", 0%N, bs "d");
      (bs "a_r1970-01-01_00-00-00.restart-5", 0%N, bs "a");
      (bs "a_r1970-01-01_00-00-01.restart-5", 0%N, bs "e") ]
  /\ ~ tag_ok (tsd_cfg bad_sp2 false (CSize 100) None false).
Proof. split; [vm_compute; reflexivity|]. intros [_ [_ H]]. vm_compute in H. discriminate. Qed.
