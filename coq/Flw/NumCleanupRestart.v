(* Numbers naming with a cleanup strategy: SEQUENCES OF RUNS on one directory (C06 with cleanup).  Every run has its own
   criterion, buffer capacity, append flag and history; all runs have the same file specification and the same cleanup
   strategy k with limits (n, m).  Part 1: one run on the directory that earlier runs left behind, on the level of the
   view (everything that was closed so far, in the order of closing, and the current file - as in NumRestart.v, where
   there is no cleanup); the directory holds the current file, the newest n closed files as they are and the next m
   as archives.
   The restart part of NumCleanupKillRestart.v (initialize_xdir, first_write_k) does the work on the file system.

   Findings (see NumCleanupRestartEx.v for the computed examples):
   - a run without append that finds rCURRENT closes it under the next number AT ONCE (with its first write) and runs
     the cleanup before anything is written: the oldest survivor may be removed although the new run has not rotated;
   - a run that is started and stopped without a write does not touch the directory (no rotation, no cleanup);
   - with both limits 0 no closed file is ever left, so the next writer finds no index in the directory and starts
     again at r00000: the numbers of the closed files are NOT unique over the history (harmless as long as the strategy
     stays the same: the file is removed by the cleanup that follows its closing). *)
Require Import FL.Base.Bytes FL.Base.BytesFacts FL.Base.PathName FL.Fs.Fs FL.Fs.FsFacts FL.Time.Civil FL.Time.TsFormat
  FL.Names.FileSpec FL.Names.NamesFacts FL.Names.SortFacts FL.Names.FamilyFacts FL.Flw.Model FL.Flw.ModelFacts FL.Flw.NumFs
  FL.Flw.NumInv FL.Flw.Run FL.Flw.RunFacts FL.Flw.NumRun FL.Flw.NumListing FL.Oracles.O_Flw FL.Flw.NumTheorems FL.Flw.CleanupFacts
  FL.Flw.NumCleanupNames FL.Flw.NumCleanupStep FL.Flw.NumCleanupRun FL.Flw.NumRestart FL.Flw.KillFacts FL.Flw.NumKill
  FL.Flw.NumKillRestart FL.Flw.NoPanic FL.Flw.NumCleanupKillDir FL.Flw.NumCleanupKillStep FL.Flw.NumCleanupKill
  FL.Flw.NumCleanupKillListing FL.Flw.NumCleanupKillRestart.
From Coq Require Import ZifyN ZifyNat ZifyBool.
Open Scope nat_scope.

(* ------------------------------------------------------------------ the names depend on the file spec only *)
Lemma gname_spec_eq c c' i : c_spec c = c_spec c' -> gname c i = gname c' i.
Proof. intros E. unfold gname. rewrite (rname_spec_eq c c' i E). reflexivity. Qed.

Lemma kdir_spec c c' f cl lo mid : c_spec c = c_spec c' -> kdir c f cl lo mid -> kdir c' f cl lo mid.
Proof.
  intros E [H1 H2 H3 H4 H5]. constructor.
  - exact H1.
  - exact H2.
  - intros i Hi. rewrite <- (rname_spec_eq c c' i E). apply H3. exact Hi.
  - intros i Hi. rewrite <- (gname_spec_eq c c' i E). apply H4. exact Hi.
  - intros x j Lx. destruct (H5 _ _ Lx) as [->|[(i & Hi & ->)|(i & Hi & ->)]].
    + left. apply cname_spec_eq. exact E.
    + right. left. exists i. split; [exact Hi | apply rname_spec_eq; exact E].
    + right. right. exists i. split; [exact Hi | apply gname_spec_eq; exact E].
Qed.

Lemma kreader_view_spec c c' f cl cu lo mid : c_spec c = c_spec c' ->
  kreader_view c f cl cu lo mid -> kreader_view c' f cl cu lo mid.
Proof.
  intros E [KD Hc]. split; [exact (kdir_spec c c' f cl lo mid E KD)|].
  rewrite <- (cname_spec_eq c c' E). exact Hc.
Qed.

(* ------------------------------------------------------------------ the directory between two writers *)
(* v: everything that was closed so far, in the order of closing, and the current file (None: nothing has been written yet) *)
Definition kdir_view (c : config) (k : cleanup) (f : fs) (v : aview) : Prop :=
  match v with
  | None => names f = [] /\ inodes f = []
  | Some (cl, cu) => fs_wf f /\ kreader_view c f cl cu (k_lo k (length cl)) (k_mid k (length cl))
  end.

Definition IdleR (c : config) (k : cleanup) (x : sys) (v : aview) : Prop :=
  s_tl x = [] /\ wacts (s_w x) = 0 /\ s_flw x = None /\ quiet (s_w x) /\ kdir_view c k (wfs (s_w x)) v.
(* a writer that has not written yet: it has not looked at the directory *)
Definition PreR (c : config) (k : cleanup) (x : sys) (v : aview) : Prop :=
  s_tl x = [] /\ wacts (s_w x) = 0 /\ s_flw x = Some (new_flw c) /\ quiet (s_w x) /\ kdir_view c k (wfs (s_w x)) v.

Lemma kdir_view_spec c c' k f v : c_spec c = c_spec c' -> kdir_view c k f v -> kdir_view c' k f v.
Proof.
  intros E. destruct v as [[cl cu]|]; cbn [kdir_view]; [|tauto].
  intros [W R]. split; [exact W | exact (kreader_view_spec c c' f cl cu _ _ E R)].
Qed.

Lemma idler_spec c c' k x v : c_spec c = c_spec c' -> IdleR c k x v -> IdleR c' k x v.
Proof.
  intros E (H1 & H2 & H3 & H4 & H5). split; [exact H1|]. split; [exact H2|]. split; [exact H3|]. split; [exact H4|].
  exact (kdir_view_spec c c' k _ v E H5).
Qed.

(* ------------------------------------------------------------------ a common prefix of the closed files *)
Definition pfx (P : list bytes) (a : aview) : aview :=
  match a with Some (cl, cu) => Some (P ++ cl, cu) | None => None end.

Lemma a_step_pfx P p o rot : a_step (pfx P (Some p)) o rot = pfx P (a_step (Some p) o rot).
Proof.
  destruct p as [cl cu]. destruct o; cbn [a_step pfx]; try reflexivity; try destruct rot; cbn [pfx];
    rewrite <- ?app_assoc; reflexivity.
Qed.

Definition oc_of (v : aview) : option bytes := match v with Some (_, cu) => Some cu | None => None end.

Lemma init_view_pfx c P cl v : closed_of v = P ++ cl ->
  Some (init_view c v) = pfx P (Some (init_view_o c (cl, oc_of v))).
Proof.
  destruct v as [[cl0 cu0]|]; cbn [closed_of oc_of]; intros E.
  - subst cl0. unfold init_view, init_view_o. cbn [fst snd]. destruct (c_append c); cbn [pfx]; rewrite <- ?app_assoc; reflexivity.
  - symmetry in E. apply app_eq_nil in E. destruct E as [-> ->]. reflexivity.
Qed.

(* with both limits 0 the directory never holds a closed file: any list of closed files describes it *)
Lemma kdir_none_left c f cl cl' : kdir c f cl (length cl) (length cl) -> kdir c f cl' (length cl') (length cl').
Proof.
  intros [H1 H2 H3 H4 H5]. constructor.
  - lia.
  - exact H2.
  - intros i Hi. lia.
  - intros i Hi. lia.
  - intros x j Lx. destruct (H5 _ _ Lx) as [E|[(i & Hi & _)|(i & Hi & _)]]; [left; exact E | lia | lia].
Qed.

Section OneRun.
Variables (c : config) (crit : criterion) (k : cleanup) (n m : nat).
Hypothesis Hcfg : numkcfg c crit k.
Hypothesis Hk : klim k = Some (n, m).
Hypothesis Hsfx : sfx_ok (c_spec c).

Lemma kside_r L : kside c k L.
Proof. unfold kside. rewrite Hk. exact Hsfx. Qed.

Lemma kview_pfx f P cl cu : (P = [] \/ n + m = 0) ->
  kreader_view c f cl cu (k_lo k (length cl)) (k_mid k (length cl)) ->
  kreader_view c f (P ++ cl) cu (k_lo k (length (P ++ cl))) (k_mid k (length (P ++ cl))).
Proof.
  intros [->|Hz] V; [exact V|]. destruct V as [KD Hc]. split; [|exact Hc].
  unfold k_lo, k_mid in *. rewrite Hk in *.
  replace (length cl - (n + m)) with (length cl) in KD by lia. replace (length cl - n) with (length cl) in KD by lia.
  replace (length (P ++ cl) - (n + m)) with (length (P ++ cl)) by lia. replace (length (P ++ cl) - n) with (length (P ++ cl)) by lia.
  exact (kdir_none_left c f cl (P ++ cl) KD).
Qed.

(* the directory, with the closed files numbered as the next writer will number them: when no closed file is left
   (possible with both limits 0 only) the numbering starts again *)
Lemma based_of_view f v : kdir_view c k f v ->
  exists P cl, Based c k f cl (oc_of v) /\ closed_of v = P ++ cl /\ (P = [] \/ n + m = 0).
Proof.
  destruct v as [[cl cu]|]; cbn [kdir_view closed_of oc_of].
  - intros [W [KD Hc]]. pose proof (kdir_xdir c f cl _ _ (Some cu) KD Hc) as X.
    pose proof (kd_nodup _ _ _ _ _ KD) as Nd.
    destruct (Nat.lt_ge_cases (k_lo k (length cl)) (length cl)) as [Hlt|Hge].
    + exists [], cl. split; [|split; [reflexivity | left; reflexivity]].
      exists (k_lo k (length cl)), (k_mid k (length cl)), None. split; [|split; [apply uncl_exact | left; exact Hlt]].
      constructor; [exact W | exact Nd | exact X | apply same_at_refl].
    + destruct cl as [|c0 cl0].
      * exists [], []. split; [|split; [reflexivity | left; reflexivity]].
        exists (k_lo k 0), (k_mid k 0), None. split; [|split; [apply uncl_exact | right; reflexivity]].
        constructor; [exact W | exact Nd | exact X | apply same_at_refl].
      * set (cl := c0 :: cl0) in *. assert (Hpos : 0 < length cl) by (cbn; lia).
        assert (Hz : n + m = 0) by (unfold k_lo in Hge; rewrite Hk in Hge; lia).
        exists cl, []. split; [|split; [rewrite app_nil_r; reflexivity | right; exact Hz]].
        exists 0, 0, None. split; [|split; [split; lia | right; reflexivity]].
        constructor; [exact W | exact Nd | | apply same_at_refl].
        apply (xdir_rebase c _ cl (Some cu)).
        unfold k_lo, k_mid in X. rewrite Hk in X.
        replace (length cl - (n + m)) with (length cl) in X by lia. replace (length cl - n) with (length cl) in X by lia.
        exact X.
  - intros [Hn Hi]. exists [], []. split; [|split; [reflexivity | left; reflexivity]].
    destruct (empty_xd c k f Hn) as (lo & mid & red & W & Nd & X & U).
    pose proof (xd_le _ _ _ _ _ _ _ X) as Hle. cbn [length] in Hle.
    exists lo, mid, red. split; [|split; [exact U | right; reflexivity]].
    constructor; [exact W | exact Nd | exact X | apply same_at_refl].
Qed.

(* ------------------------------------------------------------------ the first write *)
(* one run: None as long as nothing has been written; afterwards the view of the writer (RelK), possibly with the
   numbering started again *)
Definition GRelR (x : sys) (v a : aview) : Prop :=
  match a with
  | None => PreR c k x v
  | Some _ => exists P p, a = pfx P (Some p) /\ (P = [] \/ n + m = 0) /\ RelK c crit k x (Some p)
  end.

Lemma first_write_r x v b :
  PreR c k x v -> (N.of_nat (length (closed_of v)) <= u32_max)%N ->
  exists w' s' rot,
    write_buffer (new_flw c) (s_w x) b = (Ok tt, w', s', rot)
    /\ GRelR {| s_flw := Some s'; s_w := w'; s_tl := []; s_dead := s_dead x |} v
             (a_step (Some (init_view c v)) (OWrite b) rot).
Proof.
  intros (Ht & Ha & Es & Q & D) HL.
  destruct (based_of_view _ v D) as (P & cl & B & Ecl & HP).
  assert (PK : PreK c k x (cl, oc_of v)).
  { split; [exact Ht|]. split; [exact Ha|]. split; [exact Es|]. split; [exact Q | exact B]. }
  assert (HL' : (N.of_nat (length (fst (cl, oc_of v))) <= u32_max)%N).
  { cbn [fst]. rewrite Ecl, app_length in HL. lia. }
  destruct (first_write_k c crit k n m Hcfg Hk Hsfx x (cl, oc_of v) b PK HL') as (w' & s' & rot & E & R).
  exists w', s', rot. split; [exact E|].
  rewrite (init_view_pfx c P cl v Ecl), a_step_pfx.
  destruct (a_step_some (init_view_o c (cl, oc_of v)) (OWrite b) rot) as [q Eq]. rewrite Eq in *.
  destruct q as [cl1 cu1]. cbn [pfx GRelR]. exists P, (cl1, cu1). split; [reflexivity|]. split; [exact HP | exact R].
Qed.

Lemma step_sync_prer x v o : PreR c k x v -> step x o = sync_step x o.
Proof.
  intros (_ & _ & Es & _). destruct Hcfg as (_ & Hts & _ & Ha & _). apply (step_sync_cfg x o (new_flw c) Es); assumption.
Qed.

Lemma gstep_rel_r x v a o :
  GRelR x v a -> basic_op o -> (N.of_nat (length (closed_of v)) <= u32_max)%N ->
  let '(x', ob) := step x o in GRelR x' v (g_step c v a o (rot_of ob)).
Proof.
  intros G Ho HL. destruct a as [p0|].
  - cbn [GRelR g_step] in *. destruct G as (P & p & Ea & HP & R). rewrite Ea.
    pose proof (step_rel_k c crit k x (Some p) o Hcfg R Ho) as S.
    destruct (step x o) as [x' ob].
    destruct (S (kside_r _)) as [R1 _].
    rewrite a_step_pfx. destruct (a_step_some p o (rot_of ob)) as [q Eq]. rewrite Eq in *.
    destruct q as [cl1 cu1]. cbn [pfx]. exists P, (cl1, cu1). split; [reflexivity|]. split; [exact HP | exact R1].
  - cbn [GRelR] in G. rewrite (step_sync_prer x v o G).
    pose proof G as (Ht & Ha & Es & Q & D).
    destruct o; try contradiction; cbn [sync_step].
    + (* OWrite *)
      destruct (first_write_r x v (s_tl x ++ b) G HL) as [w' [s' [rot [E R']]]].
      rewrite Es. cbn [new_flw f_poisoned]. fold (new_flw c). rewrite E. cbn [rot_of g_step].
      rewrite Ht in R'. cbn [app] in R'.
      change (a_step (Some (init_view c v)) (OWrite (s_tl x ++ b)) rot) with (a_step (Some (init_view c v)) (OWrite b) rot) in R'.
      exact R'.
    + (* OPlain *)
      destruct (first_write_r x v b G HL) as [w' [s' [rot [E R']]]].
      rewrite Es. cbn [new_flw f_poisoned]. fold (new_flw c). rewrite E. cbn [rot_of g_step code_of]. rewrite Ht.
      change (a_step (Some (init_view c v)) (OPlain b) rot) with (a_step (Some (init_view c v)) (OWrite b) rot).
      exact R'.
    + (* OFlush *)
      rewrite Es. cbn [new_flw f_poisoned flush_state f_inner rot_of g_step GRelR].
      split; [exact Ht|]. split; [exact Ha|]. split; [reflexivity|]. split; [exact Q | exact D].
    + (* OTrigger *)
      rewrite Es. cbn [new_flw f_poisoned f_cfg f_inner mount_next with_inner rot_of g_step code_of GRelR].
      split; [exact Ht|]. split; [exact Ha|]. split; [reflexivity|]. split; [exact Q | exact D].
    + (* OTick *)
      cbn [rot_of g_step GRelR]. split; [exact Ht|]. split; [exact Ha|]. split; [exact Es|].
      split; [apply quiet_set_now; exact Q | exact D].
    + (* OSnap *)
      cbn [rot_of g_step GRelR]. exact G.
Qed.

Lemma grun_rel_r v : (N.of_nat (length (closed_of v)) <= u32_max)%N ->
  forall ops x a, GRelR x v a -> Forall basic_op ops ->
  GRelR (fst (run x ops)) v (g_run c v a ops (snd (run x ops))).
Proof.
  intros HL. induction ops as [|o r IH]; intros x a G Hbo; [exact G|].
  cbn [run]. inversion Hbo as [|o' r' Ho Hr]; subst.
  pose proof (gstep_rel_r x v a o G Ho HL) as S. destruct (step x o) as [x1 ob].
  specialize (IH x1 _ S Hr). destruct (run x1 r) as [x2 obs]. exact IH.
Qed.

(* ------------------------------------------------------------------ start and stop *)
Lemma start_prer x v : IdleR c k x v -> PreR c k (fst (step x (OStart c))) v.
Proof.
  intros (Ht & Ha & Es & Q & D). unfold step, apply_start. rewrite Es. unfold step_core. rewrite Es. cbn [sync_step fst].
  split; [exact Ht|]. split; [exact Ha|]. split; [reflexivity|]. split; [exact Q | exact D].
Qed.

Lemma stop_idler x v a : GRelR x v a -> IdleR c k (fst (step x OStop)) (gview v a).
Proof.
  intros G. destruct a as [p0|]; cbn [GRelR gview] in *.
  - destruct G as (P & [closed cur] & Ea & HP & R0). rewrite Ea. cbn [pfx].
    rewrite (step_sync_rel_k c crit k x _ OStop Hcfg R0). destruct R0 as [Ht [Ha R]]. cbn [sync_step].
    destruct R as [wr [roll [Es [I [V [Z RS]]]]]]. rewrite Es. cbn [st_ofk f_poisoned]. unfold drop_state.
    destruct (shutdown_active_k c k (s_w x) wr closed _ _ roll I Ha) as [w1 [wr1 [E1 [I1 [V1 [P1 A1]]]]]].
    fold (st_ofk c k (length closed) roll wr). rewrite E1.
    destruct (shutdown_active_k c k w1 wr1 closed _ _ roll I1 A1) as [w2 [wr2 [E2 [I2 [V2 [P2 A2]]]]]]. rewrite E2.
    cbn [st_ofk f_inner s_w]. unfold w_drop.
    destruct (w_flush_quiet w2 wr2 (nk_quiet _ _ _ _ _ _ I2)) as [w3 [E3 [F3 S3]]]. rewrite E3. cbn [fst snd].
    rewrite P2, append_ino_nil_id in F3. unfold IdleR. cbn [s_tl s_w s_flw].
    split; [exact Ht|]. split; [exact (same_env_acts _ _ S3 A2)|]. split; [reflexivity|]. split; [apply S3|].
    cbn [kdir_view]. rewrite F3.
    destruct I2 as [Q W Hc Hcp KD Hwr Hcap]. split; [exact W|].
    apply kview_pfx; [exact HP|]. split; [exact KD|].
    exists (wino wr2). split; [exact Hc|]. split; [exact Hcp|].
    unfold cur_view in *. rewrite P2, app_nil_r in V2. congruence.
  - rewrite (step_sync_prer x v OStop G). destruct G as (Ht & Ha & Es & Q & D). cbn [sync_step].
    rewrite Es. cbn [new_flw f_poisoned drop_state shutdown_state f_inner fst]. unfold IdleR. cbn [s_tl s_w s_flw].
    split; [exact Ht|]. split; [exact Ha|]. split; [reflexivity|]. split; [exact Q | exact D].
Qed.

(* ------------------------------------------------------------------ one whole run *)
Lemma one_run_r x v ops :
  (N.of_nat (length (closed_of v)) <= u32_max)%N -> Forall basic_op ops -> IdleR c k x v ->
  exists v', IdleR c k (fst (run x (OStart c :: ops ++ [OStop]))) v'
    /\ flat v' = flat v ++ written ops
    /\ length (closed_of v') <= length (closed_of v) + S (length ops)
    /\ extends v v'
    /\ (existsb is_wr ops = false -> v' = v /\ wfs (s_w (fst (run x (OStart c :: ops ++ [OStop])))) = wfs (s_w x)).
Proof.
  intros Hb Hops Id. cbn [run]. pose proof (start_prer x v Id) as P0.
  assert (F0 : wfs (s_w (fst (step x (OStart c)))) = wfs (s_w x)).
  { destruct Id as (_ & _ & Es & _). unfold step, apply_start. rewrite Es. unfold step_core. rewrite Es. reflexivity. }
  destruct (step x (OStart c)) as [x0 ob0]. cbn [fst] in P0, F0.
  rewrite run_app.
  pose proof (grun_rel_r v Hb ops x0 None P0 Hops) as G1. pose proof (run_length ops x0) as L.
  assert (NW : existsb is_wr ops = false ->
               g_run c v None ops (snd (run x0 ops)) = None /\ wfs (s_w (fst (run x0 ops))) = wfs (s_w x0)).
  { clear G1 L. revert x0 P0 F0. induction ops as [|o r IH]; intros x0 P0 F0 Hw; [split; reflexivity|].
    cbn [existsb] in Hw. apply Bool.orb_false_iff in Hw. destruct Hw as [Ho Hw].
    inversion Hops as [|o' r' Hbo Hbr]; subst.
    pose proof (gstep_rel_r x0 v None o P0 Hbo Hb) as S. cbn [run].
    assert (Fo : wfs (s_w (fst (step x0 o))) = wfs (s_w x0)).
    { rewrite (step_sync_prer x0 v o P0). destruct P0 as (_ & _ & Es & _).
      destruct o; try contradiction; try discriminate; cbn [sync_step]; rewrite ?Es; reflexivity. }
    assert (Eg : g_step c v None o (rot_of (snd (step x0 o))) = None) by (destruct o; try discriminate; reflexivity).
    destruct (step x0 o) as [x1 ob]. cbn [fst snd] in *. rewrite Eg in S.
    specialize (IH Hbr x1 S). destruct (run x1 r) as [x2 obs]. cbn [fst snd g_run] in *. rewrite Eg.
    destruct (IH ltac:(congruence) Hw) as [I1 I2]. split; [exact I1 | congruence]. }
  destruct (run x0 ops) as [x1 obs1]. cbn [fst snd] in *.
  pose proof (stop_idler x1 v _ G1) as S. cbn [run].
  assert (Fs : g_run c v None ops obs1 = None -> wfs (s_w (fst (step x1 OStop))) = wfs (s_w x1)).
  { intros Eg. rewrite Eg in G1. cbn [GRelR] in G1. rewrite (step_sync_prer x1 v OStop G1).
    destruct G1 as (_ & _ & Es & _). cbn [sync_step]. rewrite Es. reflexivity. }
  destruct (step x1 OStop) as [x2 ob2]. cbn [fst] in *.
  exists (gview v (g_run c v None ops obs1)). split; [exact S|]. split.
  { rewrite gview_flat, (g_run_flat c v ops None obs1 Hops L). reflexivity. }
  split. { pose proof (gview_pot v (g_run c v None ops obs1)); pose proof (g_run_pot c v ops None obs1); cbn [gpot] in *; lia. }
  split. { apply g_run_extends. apply extends_refl. }
  intros Hw. destruct (NW Hw) as [Eg Ef]. rewrite Eg. cbn [gview]. split; [reflexivity|]. rewrite (Fs Eg). congruence.
Qed.

End OneRun.
